(* Concrete, non-trivial instances of the theorems about descriptors, failing system calls
   and the command-line layer (FdFacts.v, CliFacts.v). *)
From Coq Require Import List Bool String NArith.
From Coq.Strings Require Import Byte.
From GI Require Import Lib.Bytes Gen.TxtarWriteConsts Txtar.Txtar
  TxtarWrite.Path TxtarWrite.TxtarWrite TxtarWrite.PathFacts TxtarWrite.WriteFacts
  TxtarWrite.NulFacts TxtarWrite.RelFacts TxtarWrite.GoodWrite TxtarWrite.SavedirFacts
  TxtarWrite.Fd TxtarWrite.FdFacts TxtarWrite.Cli TxtarWrite.CliFacts TxtarWrite.Examples.
Import ListNotations.

Definition ex_arch : archive :=
  {| comment := []; files := [(B "x/one", B "ONE"); (B "two", B "TWOTWO"); (B "three", B "3")] |}.

(* the event trace of the current source: one file at a time *)
Example ex_trace :
  write_f no_faults [] ex_fs ex_dir ex_arch =
  (fst (write [] ex_fs ex_dir ex_arch), FR WOk,
   [EvOpen [B "s"; B "p"; B "t"; B "x"; B "one"]; EvWrite [B "s"; B "p"; B "t"; B "x"; B "one"] 3;
    EvClose [B "s"; B "p"; B "t"; B "x"; B "one"];
    EvOpen [B "s"; B "p"; B "t"; B "two"]; EvWrite [B "s"; B "p"; B "t"; B "two"] 6;
    EvClose [B "s"; B "p"; B "t"; B "two"];
    EvOpen [B "s"; B "p"; B "t"; B "three"]; EvWrite [B "s"; B "p"; B "t"; B "three"] 1;
    EvClose [B "s"; B "p"; B "t"; B "three"]]).
Proof. vm_compute. reflexivity. Qed.

(* a short write in the second entry: the first file is complete, the second holds the
   first two bytes, the third does not exist, and the descriptor was closed *)
Example ex_short_write :
  let '(fs', r, tr) := write_f (fault_at 1 (FShort 2)) [] ex_fs ex_dir ex_arch in
  r = FFault IoWrite /\
  get fs' [B "s"; B "p"; B "t"; B "x"; B "one"] = Some (File (B "ONE")) /\
  get fs' [B "s"; B "p"; B "t"; B "two"] = Some (File (B "TW")) /\
  get fs' [B "s"; B "p"; B "t"; B "three"] = None /\
  open_after 0 tr = Some 0 /\ max_open 0 tr = 1.
Proof. vm_compute. repeat split; reflexivity. Qed.

(* the other failures *)
Example ex_other_faults :
  map (fun ft => snd (fst (write_f (fault_at 1 ft) [] ex_fs ex_dir ex_arch))) [FMkdir; FOpen; FClose; FNone]
  = [FFault IoMkdir; FFault IoOpen; FFault IoClose; FR WOk].
Proof. vm_compute. reflexivity. Qed.

(* the shape the constants protect against: with `defer out.Close()` in the loop all three
   files are open together when Write returns *)
Definition deferred_shape : shape := {| sh_defer := true; sh_close_first := true; sh_cerr := false |}.
Example ex_deferred_trace :
  let '(_, r, tr) := write_gen_f deferred_shape the_guard the_flags [] ex_fs ex_dir (files ex_arch) no_faults 0 [] in
  r = FR WOk /\ max_open 0 tr = 3 /\ open_after 0 tr = Some 0.
Proof. vm_compute. repeat split; reflexivity. Qed.

(* a loop body that checks the write error before closing leaks the descriptor *)
Example ex_leak_on_error :
  let sh := {| sh_defer := false; sh_close_first := false; sh_cerr := true |} in
  let '(_, r, tr) := write_gen_f sh the_guard the_flags [] ex_fs ex_dir (files ex_arch) (fault_at 0 (FShort 1)) 0 [] in
  r = FFault IoWrite /\ open_after 0 tr = Some 1.
Proof. vm_compute. repeat split; reflexivity. Qed.

(* ---- command lines *)

Example ex_x_cmdlines :
  map x_cmdline [[B "-C"; B "out"; B "a.txtar"]; [B "--C=out"; B "a.txtar"]; [B "-C"; B "out"]; [];
                 [B "a.txtar"]; [B "--"; B "-odd"]; [B "a"; B "b"]; [B "-x"]; [B "-C"]; [B "-C"; B "a"; B "-C=b"]]
  = [XRun (B "out") (XFile (B "a.txtar")); XRun (B "out") (XFile (B "a.txtar")); XRun (B "out") XStdin;
     XRun (B ".") XStdin; XRun (B ".") (XFile (B "a.txtar")); XRun (B ".") (XFile (B "-odd"));
     XUsage; XUsage; XUsage; XRun (B "b") XStdin].
Proof. vm_compute. reflexivity. Qed.

Example ex_c_cmdlines :
  map c_cmdline [[B "src"]; [B "-quote"; B "src"]; [B "--a"; B "-quote=false"; B "src"];
                 [B "-a=T"; B "-quote"; B "--quote=0"; B "-quote=1"; B "src"]; []; [B "a"; B "b"];
                 [B "-quote=maybe"; B "src"]; [B "-q"; B "src"]]
  = [CRun {| f_quote := false; f_all := false |} (B "src"); CRun {| f_quote := true; f_all := false |} (B "src");
     CRun {| f_quote := false; f_all := true |} (B "src"); CRun {| f_quote := true; f_all := true |} (B "src");
     CUsage; CUsage; CUsage; CUsage].
Proof. vm_compute. reflexivity. Qed.

(* the spelling lemma on a concrete mix *)
Example ex_c_flags :
  map cflag_arg [CA true 1; CQ true 0; CQ false 2; CQ true 2] ++ [B "src"]
  = [B "--a"; B "-quote"; B "-quote=false"; B "-quote=true"; B "src"].
Proof. reflexivity. Qed.

(* the hypotheses of cli_roundtrip, through the file argument: the archive printed by
   txtar-c -quote sits in /s/a.txtar, txtar-x -C ./p a.txtar runs in /s *)
Definition ex_cli_fs : fsys :=
  ([B "s"; B "a.txtar"], File (txtar_c {| f_quote := true; f_all := false |} ex_tree)) :: ex_empty_fs.

Example ex_cli_roundtrip_hyps :
  c_cmdline [B "-quote"; B "src"] = CRun {| f_quote := true; f_all := false |} (B "src") /\
  x_cmdline [B "-C"; B "./p"; B "a.txtar"] = XRun (B "./p") (XFile (B "a.txtar")) /\
  os_read_file [B "s"] ex_cli_fs (B "a.txtar") = inr (txtar_c {| f_quote := true; f_all := false |} ex_tree) /\
  dir_exists ex_cli_fs (resolve [B "s"] (B "./p")) /\
  (forall q, beneath (resolve [B "s"] (B "./p")) q -> get ex_cli_fs q = None).
Proof.
  split; [reflexivity|]. split; [reflexivity|]. split; [vm_compute; reflexivity|].
  change (resolve [B "s"] (B "./p")) with [B "s"; B "p"]. split.
  - intros p [q E]. destruct p as [|a [|b [|c p]]]; simpl in E; inversion E; subst; reflexivity.
  - intros q [c [r ->]]. reflexivity.
Qed.

Example ex_cli_both_routes :
  let arc := txtar_c {| f_quote := true; f_all := false |} ex_tree in
  snd (txtar_x_main [B "s"] ex_cli_fs [B "-C"; B "./p"; B "a.txtar"] []) = XR WOk /\
  snd (txtar_x_main [B "s"] ex_empty_fs [B "--C=p"] arc) = XR WOk /\
  get (fst (txtar_x_main [B "s"] ex_empty_fs [B "--C=p"] arc)) [B "s"; B "p"; B "sub"; B "z"]
    = Some (File (B ">-- x --" ++ [NL] ++ B ">more" ++ [NL])) /\
  snd (txtar_x_main [B "s"] ex_empty_fs [B "missing.txtar"] arc) = XReadErr ENOENT.
Proof. vm_compute. repeat split; reflexivity. Qed.

(* what a bound on standard input would do (the constant extract_stdin_limit is None): the
   archive is cut and the last file comes back short, with exit status 0 *)
Example ex_limited_stdin :
  let arc := txtar_c {| f_quote := false; f_all := false |} [([B "a"], B "0123456789" ++ [NL])] in
  let '(fs', r) := extract [] ex_empty_fs (B "/s/p") (read_stdin (Some 12%N) arc) in
  r = WOk /\ get fs' [B "s"; B "p"; B "a"] = Some (File (B "0123" ++ [NL])).
Proof. vm_compute. repeat split; reflexivity. Qed.

(* a textual prefix is not containment: the sibling /s/p/tx of the directory /s/p/t has the
   directory's path as a prefix of its own; the names that lead there are refused, and so
   are names that come back into the directory after leaving it *)
Example ex_prefix_sibling :
  has_prefix (B "/s/p/t") (join (B "/s/p/t") (B "../tx")) = true /\
  map (fun n => snd (write [] ex_fs ex_dir {| comment := []; files := [(B n, B "X")] |}))
      ["../tx"; "../t.bak/f"; "a/../../tx"; "../t/f"; "../../p/t/f"]%string
  = [WOutside; WOutside; WOutside; WOutside; WOutside].
Proof. vm_compute. split; reflexivity. Qed.

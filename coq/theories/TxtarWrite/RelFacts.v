(* Path facts needed when the directory given to Write is a relative string: resolving a
   cleaned string gives what resolving the string gives, Join(dir, name) denotes the
   directory's path extended by the name's elements, and what Dir / MkdirAll's parent
   strings of a cleaned relative path denote. *)
From Coq Require Import List Bool Arith Lia.
From Coq.Strings Require Import Byte.
From GI Require Import Lib.Bytes TxtarWrite.Path TxtarWrite.PathFacts.
Import ListNotations.

Lemma rooted_dd cs S : snd (clean_run true cs (S, 0)) = 0.
Proof.
  revert S. induction cs as [|c cs IH]; intros S; [reflexivity|].
  rewrite clean_run_cons. unfold clean_step.
  destruct (bytes_eqb c []); [apply IH|]. destruct (bytes_eqb c dot); [apply IH|].
  destruct (bytes_eqb c dotdot); [|apply IH].
  destruct (Nat.ltb 0 (length S)); apply IH.
Qed.

Lemma run_true_state cs S : clean_run true cs (S, 0) = (fst (clean_run true cs (S, 0)), 0).
Proof.
  pose proof (rooted_dd cs S) as H. destruct (clean_run true cs (S, 0)) as [o d].
  simpl in H. subst d. reflexivity.
Qed.

(* feed the elements a non-rooted run has written into the rooted machine *)
Definition feed (S out : list bytes) : list bytes := fst (clean_run true (rev out) (S, 0)).

Lemma feed_cons S c out : feed S (c :: out) = fst (clean_step true (feed S out, 0) c).
Proof.
  unfold feed. simpl rev. rewrite clean_run_app. rewrite (run_true_state (rev out) S).
  reflexivity.
Qed.

Lemma feed_step S st c :
  cinv false st -> feed S (fst (clean_step false st c)) = fst (clean_step true (feed S (fst st), 0) c).
Proof.
  intros [R [E [HR _]]]. destruct st as [out dd]. simpl in E. subst out. cbn [fst].
  unfold clean_step at 1.
  destruct (bytes_eqb c []) eqn:E1.
  { apply bytes_eqb_eq in E1. subst c. rewrite clean_step_empty. reflexivity. }
  destruct (bytes_eqb c dot) eqn:E2.
  { apply bytes_eqb_eq in E2. subst c. rewrite clean_step_dot. reflexivity. }
  destruct (bytes_eqb c dotdot) eqn:E3.
  - apply bytes_eqb_eq in E3. subst c. rewrite app_length, repeat_length.
    destruct (Nat.ltb dd (length R + dd)) eqn:EL.
    + apply Nat.ltb_lt in EL. destruct R as [|x R]; [simpl in EL; lia|].
      inversion HR; subst. cbn [fst tl app].
      rewrite (feed_cons S x). rewrite (clean_step_real true _ 0 x) by auto. cbn [fst].
      unfold clean_step. simpl. reflexivity.
    + cbn [fst]. apply feed_cons.
  - cbn [fst]. apply feed_cons.
Qed.

Lemma feed_run S cs : forall st,
  cinv false st -> Forall sep_free cs ->
  feed S (fst (clean_run false cs st)) = fst (clean_run true cs (feed S (fst st), 0)).
Proof.
  induction cs as [|c cs IH]; intros st Hi Hs; [reflexivity|].
  inversion Hs; subst. rewrite !clean_run_cons. rewrite IH by (auto; apply cinv_step; auto).
  rewrite feed_step by auto.
  destruct (clean_step true (feed S (fst st), 0) c) as [o d] eqn:E.
  assert (d = 0).
  { pose proof (rooted_dd [c] (feed S (fst st))) as H.
    change (clean_run true [c] (feed S (fst st), 0)) with (clean_step true (feed S (fst st), 0) c) in H.
    rewrite E in H. exact H. }
  subst d. reflexivity.
Qed.

(* elements of a cleaned relative path: ".." or real *)
Definition elem (c : bytes) : Prop := c = dotdot \/ real c.

Lemma elem_sep_free c : elem c -> sep_free c.
Proof.
  intros [->|H]; [|apply H]. intros HI. simpl in HI. destruct HI as [H|[H|[]]]; discriminate.
Qed.

Lemma elem_nonempty c : elem c -> c <> [].
Proof. intros [->|H]; [discriminate|apply H]. Qed.

Lemma elems_shape k R : Forall real R -> Forall elem (repeat dotdot k ++ R).
Proof.
  intros H. apply Forall_app. split.
  - apply Forall_forall. intros x Hx. apply repeat_spec in Hx. left. auto.
  - eapply Forall_impl; [|exact H]. intros c Hc. right. auto.
Qed.

(* running the rooted machine over the rendering of a relative element list *)
Lemma run_true_render_false P st :
  Forall elem P ->
  clean_run true (split_sep (render false P)) st = clean_run true P st.
Proof.
  intros H. destruct P as [|c P]; [destruct st; reflexivity|].
  change (render false (c :: P)) with (join_sep (c :: P)).
  rewrite split_sep_join_sep; [reflexivity|discriminate|].
  eapply Forall_impl; [|exact H]. apply elem_sep_free.
Qed.

(* THE "idempotent enough" FACT: a cleaned string denotes what the string denotes *)
Lemma resolve_clean cwd q : resolve cwd (clean q) = resolve cwd q.
Proof.
  destruct q as [|b q]; [reflexivity|].
  unfold resolve at 1. rewrite clean_is_abs.
  unfold clean.
  pose proof (cinv_run (is_abs (b :: q)) (split_sep (b :: q)) ([], 0)
                (split_sep_sep_free_all _) (cinv_init _)) as [R [E [HR H0]]].
  destruct (is_abs (b :: q)) eqn:Ea.
  - (* rooted: the same run *)
    unfold resolve. rewrite Ea.
    destruct (clean_run true (split_sep (b :: q)) ([], 0)) as [out dd] eqn:ER. simpl in E, H0.
    rewrite (H0 eq_refl) in E. simpl in E. rewrite app_nil_r in E. subst out. cbn [fst].
    assert (HRr : Forall real (rev R)) by (apply Forall_rev; auto).
    pose proof (resolve_render_true [] (rev R) HRr) as HX. unfold resolve in HX.
    assert (Eabs : is_abs (render true (rev R)) = true) by reflexivity.
    rewrite Eabs in HX. exact HX.
  - (* not rooted: simulate *)
    unfold resolve. rewrite Ea.
    destruct (clean_run false (split_sep (b :: q)) ([], 0)) as [out dd] eqn:ER. simpl in E.
    cbn [fst].
    assert (HP : Forall elem (rev out)).
    { subst out. rewrite rev_app_distr, rev_repeat. apply elems_shape. apply Forall_rev. auto. }
    rewrite run_true_render_false by auto.
    pose proof (feed_run (rev cwd) (split_sep (b :: q)) ([], 0) (cinv_init _) (split_sep_sep_free_all _)) as HF.
    rewrite ER in HF. cbn [fst] in HF. unfold feed in HF at 1. rewrite HF.
    unfold feed. reflexivity.
Qed.

Lemma is_abs_app_nonempty a t : a <> [] -> is_abs (a ++ t) = is_abs a.
Proof. destruct a; [contradiction|reflexivity]. Qed.

(* Join(dir, name) for ANY directory string and a name that passed the guard *)
Lemma resolve_join cwd dir R :
  Forall real R -> resolve cwd (join dir (render false R)) = resolve cwd dir ++ R.
Proof.
  intros HR. assert (HE : Forall elem R) by (eapply Forall_impl; [|exact HR]; intros c Hc; right; auto).
  assert (Hne : render false R <> []) by (destruct R as [|c [|d R]]; simpl; try discriminate;
    [inversion HR; subst; apply H1|destruct c; discriminate]).
  unfold join. destruct dir as [|b dir].
  - assert (E0 : resolve cwd [] = cwd) by (unfold resolve; simpl; apply rev_involutive).
    rewrite E0.
    destruct (render false R) eqn:EF; [contradiction|]. rewrite <- EF. rewrite resolve_clean.
    unfold resolve. rewrite (proj1 (render_false_passes R HR)).
    rewrite run_true_render_false by auto.
    rewrite clean_run_reals by auto. cbn [fst]. rewrite rev_app_distr, !rev_involutive. reflexivity.
  - rewrite resolve_clean. unfold resolve.
    rewrite is_abs_app_nonempty by discriminate.
    rewrite split_sep_app, clean_run_app.
    rewrite (run_true_state (split_sep (b :: dir))).
    rewrite run_true_render_false by auto.
    rewrite clean_run_reals by auto. cbn [fst]. rewrite rev_app_distr, rev_involutive. reflexivity.
Qed.

(* ------------------------------------------------------------------ cleaned relative paths *)

(* the element lists Clean produces for a non-rooted path: ".." elements, then real ones *)
Definition shape (W : list bytes) : Prop := exists k X, Forall real X /\ W = repeat dotdot k ++ X.

Lemma shape_elems W : shape W -> Forall elem W.
Proof. intros [k [X [HX ->]]]. apply elems_shape. auto. Qed.

Lemma snoc_cases' {A} (l : list A) : l = [] \/ exists P c, l = P ++ [c].
Proof.
  destruct (rev l) as [|c r] eqn:E.
  - left. rewrite <- (rev_involutive l), E. reflexivity.
  - right. exists (rev r), c. rewrite <- (rev_involutive l), E. reflexivity.
Qed.

Lemma real_not_dotdot c : real c -> c <> dotdot.
Proof. intros H. apply H. Qed.

Lemma shape_snoc W c : shape (W ++ [c]) ->
  (real c /\ shape W) \/ (c = dotdot /\ exists k, W = repeat dotdot k).
Proof.
  intros [k [X [HX E]]]. destruct (snoc_cases' X) as [->|[X' [x ->]]].
  - rewrite app_nil_r in E. destruct k as [|k]; [destruct W; discriminate|].
    simpl repeat in E. rewrite <- repeat_snoc in E. apply app_inj_tail in E. destruct E as [-> ->].
    right. split; auto. exists k. reflexivity.
  - rewrite app_assoc in E. apply app_inj_tail in E. destruct E as [-> ->].
    apply Forall_app in HX. destruct HX as [HX' Hx]. left. split; [apply (Forall_inv Hx)|].
    exists k, X'. auto.
Qed.

Lemma shape_dotdots k : shape (repeat dotdot k).
Proof. exists k, []. rewrite app_nil_r. auto. Qed.

Lemma join_sep_snoc W c : W <> [] -> join_sep (W ++ [c]) = join_sep W ++ SEP :: c.
Proof.
  induction W as [|w W IH]; intros H; [contradiction|].
  destruct W as [|w' W]; [reflexivity|].
  change (join_sep ((w :: w' :: W) ++ [c])) with (w ++ SEP :: join_sep ((w' :: W) ++ [c])).
  rewrite IH by discriminate.
  change (join_sep (w :: w' :: W)) with (w ++ SEP :: join_sep (w' :: W)).
  rewrite <- app_assoc. reflexivity.
Qed.

Lemma run_false_dotdots j : forall i,
  clean_run false (repeat dotdot j) (repeat dotdot i, i) = (repeat dotdot (j + i), j + i).
Proof.
  induction j as [|j IH]; intros i; [reflexivity|].
  simpl repeat. rewrite clean_run_cons.
  assert (E : clean_step false (repeat dotdot i, i) dotdot = (repeat dotdot (S i), S i)).
  { unfold clean_step. simpl bytes_eqb. rewrite repeat_length, Nat.ltb_irrefl. reflexivity. }
  rewrite E, IH. replace (j + S i) with (S j + i) by lia. reflexivity.
Qed.

Lemma is_abs_join_sep W : W <> [] -> Forall elem W -> is_abs (join_sep W) = false.
Proof.
  intros HN H. destruct W as [|c W]; [contradiction|].
  apply (is_abs_render_false (c :: W)). exact H.
Qed.

Lemma join_sep_nonempty W : W <> [] -> Forall elem W -> join_sep W <> [].
Proof.
  intros HN H. destruct W as [|c W]; [contradiction|]. inversion H; subst.
  pose proof (elem_nonempty _ H2). destruct W; simpl; [auto|]. destruct c; [contradiction|discriminate].
Qed.

(* Clean of "e1/.../en/" *)
Lemma clean_rel_slash W : W <> [] -> shape W -> clean (join_sep W ++ [SEP]) = render false W.
Proof.
  intros HN HS. pose proof (shape_elems _ HS) as HE. destruct HS as [k [X [HX EW]]].
  unfold clean. destruct (join_sep W ++ [SEP]) as [|b t] eqn:E0; [destruct (join_sep W); discriminate|].
  rewrite <- E0. rewrite is_abs_app_nonempty by (apply join_sep_nonempty; auto).
  rewrite is_abs_join_sep by auto.
  change [SEP] with (SEP :: []). rewrite split_sep_app.
  assert (HSf : Forall sep_free W) by (eapply Forall_impl; [|exact HE]; apply elem_sep_free).
  rewrite split_sep_join_sep by auto.
  rewrite clean_run_app. rewrite EW at 1. rewrite clean_run_app.
  pose proof (run_false_dotdots k 0) as E1. simpl repeat in E1. rewrite E1. rewrite Nat.add_0_r.
  rewrite clean_run_reals by auto. simpl split_sep. rewrite clean_run_cons, clean_step_empty.
  cbn [clean_run fold_left fst]. rewrite rev_app_distr, rev_involutive, rev_repeat. rewrite <- EW.
  reflexivity.
Qed.

Lemma drop_while_all l : sep_free l -> drop_while (fun b => negb (is_sep b)) l = [].
Proof.
  induction l as [|x l IH]; intros H; [reflexivity|]. apply sep_free_cons in H. destruct H as [H1 H2].
  simpl. rewrite H1. simpl. auto.
Qed.

(* Dir of a cleaned relative path *)
Lemma dir_of_rel W c : shape (W ++ [c]) -> dir_of (render false (W ++ [c])) = render false W.
Proof.
  intros HS. pose proof (shape_elems _ HS) as HE. apply Forall_app in HE. destruct HE as [HEW HEc].
  pose proof (Forall_inv HEc) as Hc.
  assert (HSW : shape W).
  { destruct (shape_snoc _ _ HS) as [[_ H]|[_ [k ->]]]; [auto|apply shape_dotdots]. }
  assert (ER : render false (W ++ [c]) = join_sep (W ++ [c])) by (destruct W; reflexivity).
  rewrite ER. unfold dir_of. destruct W as [|w W].
  - simpl app. simpl join_sep. rewrite drop_while_all by (apply sep_free_rev, elem_sep_free; auto).
    reflexivity.
  - rewrite join_sep_snoc by discriminate.
    pose proof (clean_rel_slash (w :: W)) as HC. set (J := join_sep (w :: W)) in *.
    rewrite rev_app_distr. simpl rev at 1.
    rewrite <- app_assoc. simpl app at 2.
    rewrite drop_while_sep_free by (apply sep_free_rev, elem_sep_free; auto).
    simpl rev. rewrite rev_involutive. apply HC; [discriminate|auto].
Qed.

Lemma dir_of_dot : dir_of dot = dot.
Proof. reflexivity. Qed.

(* the string MkdirAll recurses on, for a cleaned relative path *)
Lemma parent_str_rel W c : elem c -> parent_str (join_sep (W ++ [c])) = join_sep W.
Proof.
  intros Hc. pose proof (elem_sep_free _ Hc) as Hs. pose proof (elem_nonempty _ Hc) as Hn.
  assert (Hr : exists x t, rev c = x :: t /\ is_sep x = false).
  { destruct (rev c) as [|x t] eqn:E.
    - exfalso. apply Hn. rewrite <- (rev_involutive c), E. reflexivity.
    - exists x, t. split; auto. apply sep_free_rev in Hs. rewrite E in Hs.
      apply sep_free_cons in Hs. apply Hs. }
  destruct Hr as [x [t [E Hx]]].
  unfold parent_str. destruct W as [|w W].
  - simpl app. simpl join_sep. rewrite E. simpl drop_while at 2. rewrite Hx. rewrite <- E.
    rewrite drop_while_all by (apply sep_free_rev; auto). reflexivity.
  - rewrite join_sep_snoc by discriminate. set (J := join_sep (w :: W)).
    rewrite rev_app_distr. simpl rev at 1.
    rewrite <- app_assoc. simpl app at 2.
    assert (Ed : drop_while is_sep (rev c ++ SEP :: rev J) = rev c ++ SEP :: rev J).
    { rewrite E. simpl. rewrite Hx. reflexivity. }
    rewrite Ed. rewrite drop_while_sep_free by (apply sep_free_rev; auto).
    apply rev_involutive.
Qed.

Lemma parent_str_dot : parent_str dot = [].
Proof. reflexivity. Qed.

(* what such paths denote *)
Lemma resolve_rel_snoc_real cwd W c :
  Forall elem W -> real c ->
  resolve cwd (render false (W ++ [c])) = resolve cwd (render false W) ++ [c].
Proof.
  intros HW Hc.
  assert (HWc : Forall elem (W ++ [c])) by (apply Forall_app; split; auto; constructor; [right; auto|constructor]).
  unfold resolve.
  rewrite (is_abs_render_false (W ++ [c])) by exact HWc.
  rewrite (is_abs_render_false W) by exact HW.
  rewrite !run_true_render_false by auto.
  rewrite clean_run_app. rewrite (run_true_state W (rev cwd)).
  rewrite clean_run_cons, clean_step_real by auto. cbn [clean_run fold_left fst].
  reflexivity.
Qed.

Lemma run_true_dotdots k S : clean_run true (repeat dotdot k) (S, 0) = (skipn k S, 0).
Proof.
  revert S. induction k as [|k IH]; intros S; [reflexivity|].
  simpl repeat. rewrite clean_run_cons.
  destruct S as [|x S].
  - change (clean_step true ([], 0) dotdot) with (@nil bytes, 0). rewrite IH.
    rewrite !skipn_nil. reflexivity.
  - change (clean_step true (x :: S, 0) dotdot) with (S, 0). apply IH.
Qed.

Lemma resolve_dotdots_within cwd k : within (resolve cwd (render false (repeat dotdot k))) cwd.
Proof.
  unfold resolve. rewrite (is_abs_render_false (repeat dotdot k))
    by (apply Forall_forall; intros x Hx; apply repeat_spec in Hx; left; auto).
  rewrite run_true_render_false by (apply shape_elems, shape_dotdots).
  rewrite run_true_dotdots. cbn [fst].
  exists (rev (firstn k (rev cwd))).
  rewrite <- rev_app_distr, firstn_skipn, rev_involutive. reflexivity.
Qed.

Lemma within_snoc_l p c Z : within (p ++ [c]) Z -> within p Z.
Proof. intros [r ->]. exists ([c] ++ r). rewrite <- app_assoc. reflexivity. Qed.

(* going from a cleaned relative path to its Dir / parent string keeps "is a prefix of the
   current directory or of Z" *)
Lemma good_down cwd Z W c :
  shape (W ++ [c]) ->
  (within (resolve cwd (render false (W ++ [c]))) cwd \/ within (resolve cwd (render false (W ++ [c]))) Z) ->
  (within (resolve cwd (render false W)) cwd \/ within (resolve cwd (render false W)) Z).
Proof.
  intros HS HG. destruct (shape_snoc _ _ HS) as [[Hc HW]|[-> [k ->]]].
  - rewrite resolve_rel_snoc_real in HG by (auto; apply shape_elems; auto).
    destruct HG as [H|H]; [left|right]; eapply within_snoc_l; eauto.
  - left. apply resolve_dotdots_within.
Qed.

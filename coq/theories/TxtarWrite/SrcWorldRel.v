(* C15: containment of the TRANSLATED txtar.Write (Gen/TxtarWriteWorldSrc.v) over the file-system
   model for relative directory strings (RelWrite.write_contained_any_dir through SrcWorldFacts.src_Write_model_inv). *)
From Coq Require Import List Bool.
From Coq.Strings Require Import Byte.
From GI Require Import Lib.Bytes Lib.GoSem Lib.GoSemWorld Txtar.Txtar TxtarWrite.Path TxtarWrite.PathFacts TxtarWrite.TxtarWrite
  TxtarWrite.WriteFacts TxtarWrite.RelFacts TxtarWrite.RelWrite TxtarWrite.SrcWorld Gen.TxtarWriteWorldSrc TxtarWrite.SrcWorldFacts.
(* ... for EVERY directory string, relative ones included, resolved against a current directory
   that exists *)
Theorem src_Write_contained_any_dir cwd fs dir a fs' e :
  Forall real cwd -> dir_exists fs cwd -> tw_Write (model_fs cwd) fs (Some a) dir = Ok (fs', e) ->
  forall p, get fs' p <> get fs p ->
    get fs p = None /\
    (within (resolve cwd dir) p \/ (get fs' p = Some Dir /\ within p (resolve cwd dir))).
Proof. intros R D H. apply src_Write_model_inv in H. exact (write_contained_any_dir cwd fs dir a fs' _ R D H). Qed.

(* The glue around the translated functions of Gen/TxtarWriteWorldSrc.v that stays HAND-MODELLED
   (C15): filepath.Walk -- which calls of the walk function it makes, in which order, and what it
   does with the errors the function returns -- on the archived directory given as a rose tree,
   and the translated functions run over the file-system model with results of concrete types
   (for extraction and for the round-trip theorem of SrcWalkFacts.v).  DEFINITIONS ONLY.

   filepath.Walk (path/filepath/path.go, Go 1.23):
     Walk(root, fn): info := Lstat(root); err := walk(root, info, fn); SkipDir / SkipAll -> nil
     walk(path, info, fn): a non-directory: fn(path, info, nil).  A directory: names :=
       readDirNames(path) (sorted); err1 := fn(path, info, nil); if err1 != nil return err1;
       for each name: filename := Join(path, name); err := walk(filename, Lstat(filename), fn);
       if err != nil and not (the entry is a directory and err == SkipDir) return err.
   [walk_node] is that recursion on a tree whose directories list their entries in the order
   readDirNames returns them ([rsort] puts any tree into that order); the walk function is a
   parameter: a function of a state, the path string, the FileInfo (name, is a directory, is a
   regular file) and the incoming error.  Lstat and ReadDir failures are not modelled. *)
From Coq Require Import List Bool Arith NArith ZArith.
From Coq.Strings Require Import Byte.
From GI Require Import Lib.Bytes Lib.GoSem Lib.GoSemWorld Gen.TxtarWriteConsts Txtar.Txtar
  TxtarWrite.Path TxtarWrite.TxtarWrite TxtarWrite.Cli TxtarWrite.SrcLib TxtarWrite.SrcWorld
  Gen.TxtarWriteWorldSrc.
Import ListNotations.

Definition finfo : Type := (bytes * bool * bool)%type.   (* FileInfo (model_fs cwd) *)
Definition is_skipdir (e : werr) : bool := werr_eqb e werr_SkipDir.
Definition rnode_is_dir (nd : rnode) : bool := match nd with RDir _ => true | RFile _ => false end.

Section Walk.
Variable S : Type.
Variable fn : S -> bytes -> finfo -> werr -> res (S * werr).

Fixpoint walk_node (pathstr name : bytes) (nd : rnode) (s : S) {struct nd} : res (S * werr) :=
  match nd with
  | RFile _ => fn s pathstr (name, false, true) WNil
  | RDir es =>
      bind (fn s pathstr (name, true, false) WNil) (fun x =>
        if werr_is_nil (snd x) then
          (fix entries (l : list (bytes * rnode)) (s : S) {struct l} : res (S * werr) :=
             match l with
             | [] => Ok (s, WNil)
             | e :: r =>
                 bind (walk_node (join pathstr (fst e)) (fst e) (snd e) s) (fun y =>
                   if werr_is_nil (snd y) || (rnode_is_dir (snd e) && is_skipdir (snd y))
                   then entries r (fst y) else Ok y)
             end) es (fst x)
        else Ok x)
  end.

(* the loop of walk over the entries of the directory with path string pathstr (the nested
   recursion of walk_node, under a name: walk_node_dir in SrcWalkFacts.v) *)
Definition walk_entries (pathstr : bytes) : list (bytes * rnode) -> S -> res (S * werr) :=
  fix entries (l : list (bytes * rnode)) (s : S) {struct l} : res (S * werr) :=
    match l with
    | [] => Ok (s, WNil)
    | e :: r =>
        bind (walk_node (join pathstr (fst e)) (fst e) (snd e) s) (fun y =>
          if werr_is_nil (snd y) || (rnode_is_dir (snd e) && is_skipdir (snd y))
          then entries r (fst y) else Ok y)
    end.

(* filepath.Walk(dir, fn) on the directory whose entries are rt (the name in the root's
   FileInfo is the last element of dir; the walk function of txtar-c returns before it looks) *)
Definition walk_root (dir : bytes) (rt : rtree) (s : S) : res (S * werr) :=
  bind (walk_node dir (last (split_sep dir) []) (RDir rt) s) (fun y =>
    if is_skipdir (snd y) then Ok (fst y, WNil) else Ok y).
End Walk.

(* every directory's entries in the order readDirNames returns them *)
Fixpoint rsort (nd : rnode) : rnode :=
  match nd with
  | RFile d => RFile d
  | RDir es => RDir (sort_by bytes_cmp (map (fun e => (fst e, rsort (snd e))) es))
  end.
Definition rsort_tree (rt : rtree) : rtree := sort_by bytes_cmp (map (fun e => (fst e, rsort (snd e))) rt).

(* ------------------------------------------------------------------ the translated functions over the model *)

(* txtar.Write as translated, over the file-system model; the error decoded to the model's verdict *)
Definition src_write_model (cwd : path) (fs : fsys) (a : archive) (dir : bytes) : res (fsys * wres) :=
  match tw_Write (model_fs cwd) fs (Some a) dir with
  | Ok (fs', e) => Ok (fs', dec_werr e)
  | Panic => Panic
  | OutOfFuel => OutOfFuel
  end.

(* the walk function of txtar-c as translated, over the file-system model: the state is the file
   system (never changed) and the archive built so far *)
Definition src_walkfn_model (cwd : path) (fl : sflags) (dir : bytes)
    (s : fsys * option archive) (p : bytes) (i : finfo) (e : werr) : res ((fsys * option archive) * werr) :=
  match tc_main_walkfn (model_fs cwd) (f_quote fl) (f_all fl) (fst s) (snd s) dir p i e with
  | Ok (w, a, e') => Ok ((w, a), e')
  | Panic => Panic
  | OutOfFuel => OutOfFuel
  end.

(* main of txtar-c between flag parsing and Format: a := new(Archive); Walk(dir, walk function) *)
Definition src_savedir_walk (cwd : path) (fl : sflags) (fs : fsys) (dir : bytes) (rt : rtree)
  : res ((fsys * option archive) * werr) :=
  walk_root (fsys * option archive) (src_walkfn_model cwd fl dir) dir rt
    (fs, Some {| comment := []; files := [] |}).

(* Descriptors and failing system calls in the model of txtar.Write.

   [write_f] is the loop of Write again, this time
     - emitting the events open / write / close on the files it creates, in program order,
     - under a "world" that may make the system calls of an iteration fail for reasons the
       file-system model does not contain (EACCES, EMFILE, ENOSPC, EFBIG, EIO ...): the
       fault of the i-th iteration is given by a function nat -> fault,
     - for a loop body of the SHAPE read from the source (Gen/TxtarWriteConsts.v): is
       out.Close() deferred, does it come before the error check of the write, is its
       error returned.
   Definitions only; FdFacts.v proves that without faults this is [write], that a
   non-deferred close keeps at most one descriptor open at every moment and none at the
   end on every path, and that what an error leaves behind is the result of writing a
   prefix of the entries plus new directories and at most one partly written file. *)
From Coq Require Import List Bool Arith NArith.
From Coq.Strings Require Import Byte.
From GI Require Import Lib.Bytes Gen.TxtarWriteConsts Txtar.Txtar TxtarWrite.Path TxtarWrite.TxtarWrite.
Import ListNotations.

Inductive fault :=
| FNone
| FMkdir              (* os.MkdirAll fails before it creates anything *)
| FOpen               (* os.OpenFile fails; nothing is created, no descriptor is returned *)
| FShort (k : nat)    (* write(2) stores the first k bytes only and File.Write returns an error *)
| FClose.             (* close(2) reports an error; the data is in the file *)

Inductive ioop := IoMkdir | IoOpen | IoWrite | IoClose.

(* the result of Write: a verdict of the file-system model, or an injected failure *)
Inductive fres := FR (r : wres) | FFault (op : ioop).

Inductive ev := EvOpen (p : path) | EvWrite (p : path) (n : nat) | EvClose (p : path).

Record shape := {
  sh_defer : bool;          (* defer out.Close() *)
  sh_close_first : bool;    (* Close is called before the write's error is looked at *)
  sh_cerr : bool            (* the error of Close is returned *)
}.

(* one iteration: the new state, the verdict (None = go on with the next entry), the events
   of this iteration, and the file whose Close was deferred *)
Definition write_one_f (sh : shape) (g : guard) (fl : oflags) (cwd : path) (fs : fsys) (dir : bytes)
    (nd : bytes * bytes) (ft : fault) : fsys * option fres * list ev * list path :=
  let fp := clean (from_slash (fst nd)) in
  if rejected g fp then (fs, Some (FR WOutside), [], [])
  else
    let fp := join dir fp in
    let d := dir_of fp in
    match ft with
    | FMkdir => (fs, Some (FFault IoMkdir), [], [])
    | _ =>
      match mkdir_all (S (length d)) cwd fs d with
      | (fs1, WOk) =>
          match ft with
          | FOpen => (fs1, Some (FFault IoOpen), [], [])
          | _ =>
            match os_open fl cwd fs1 fp with
            | inl e => (fs1, Some (FR (WErr OpOpen e)), [], [])
            | inr (fs2, h) =>
                let data := snd nd in
                let stored := match ft with FShort k => firstn k data | _ => data end in
                let werr := match ft with FShort _ => true | _ => false end in
                let fs3 := os_write fl fs2 h stored in
                let evw := [EvOpen h; EvWrite h (length stored)] in
                if sh_defer sh then
                  (* the close happens when Write returns; its error is dropped *)
                  (fs3, if werr then Some (FFault IoWrite) else None, evw, [h])
                else if werr then
                  (fs3, Some (FFault IoWrite), evw ++ (if sh_close_first sh then [EvClose h] else []), [])
                else
                  (fs3,
                   match ft with FClose => if sh_cerr sh then Some (FFault IoClose) else None | _ => None end,
                   evw ++ [EvClose h], [])
            end
          end
      | (fs1, r) => (fs1, Some (FR r), [], [])
      end
    end.

(* the loop; [i] is the index of the first entry of [files] in the archive; [pending] are
   the deferred closes so far, most recent first: they run when Write returns *)
Fixpoint write_gen_f (sh : shape) (g : guard) (fl : oflags) (cwd : path) (fs : fsys) (dir : bytes)
    (files : list (bytes * bytes)) (world : nat -> fault) (i : nat) (pending : list path)
    : fsys * fres * list ev :=
  match files with
  | [] => (fs, FR WOk, map EvClose pending)
  | nd :: rest =>
      match write_one_f sh g fl cwd fs dir nd (world i) with
      | (fs1, Some r, evs, dfr) => (fs1, r, evs ++ map EvClose (dfr ++ pending))
      | (fs1, None, evs, dfr) =>
          let '(fs2, r, evs2) := write_gen_f sh g fl cwd fs1 dir rest world (S i) (dfr ++ pending) in
          (fs2, r, evs ++ evs2)
      end
  end.

(* the shape of the current source *)
Definition the_shape : shape :=
  {| sh_defer := write_close_deferred; sh_close_first := write_close_before_return;
     sh_cerr := write_close_error_returned |}.

Definition write_f (world : nat -> fault) (cwd : path) (fs : fsys) (dir : bytes) (a : archive)
    : fsys * fres * list ev :=
  write_gen_f the_shape the_guard the_flags cwd fs dir (files a) world 0 [].

Definition no_faults : nat -> fault := fun _ => FNone.

(* ------------------------------------------------------------------ reading a trace *)

(* descriptors open after the events (None: a close without an open) *)
Fixpoint open_after (n : nat) (t : list ev) : option nat :=
  match t with
  | [] => Some n
  | EvOpen _ :: r => open_after (S n) r
  | EvClose _ :: r => match n with 0 => None | S m => open_after m r end
  | EvWrite _ _ :: r => open_after n r
  end.

(* the largest number open at any moment *)
Fixpoint max_open (n : nat) (t : list ev) : nat :=
  match t with
  | [] => n
  | EvOpen _ :: r => Nat.max n (max_open (S n) r)
  | EvClose _ :: r => Nat.max n (max_open (pred n) r)
  | EvWrite _ _ :: r => max_open n r
  end.

(* a world that fails the k-th iteration with [ft] and nothing else *)
Definition fault_at (k : nat) (ft : fault) : nat -> fault :=
  fun i => if Nat.eqb i k then ft else FNone.

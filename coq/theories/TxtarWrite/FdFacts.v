(* Facts about the model of txtar.Write with descriptors and failing system calls (Fd.v). *)
From Coq Require Import List Bool Arith Lia NArith.
From Coq.Strings Require Import Byte.
From GI Require Import Lib.Bytes Gen.TxtarWriteConsts Txtar.Txtar
  TxtarWrite.Path TxtarWrite.TxtarWrite TxtarWrite.PathFacts TxtarWrite.WriteFacts TxtarWrite.Fd.
Import ListNotations.

(* ------------------------------------------------------------------ one iteration *)

Lemma mkdir_all_dirs cwd fuel fs s fs' r :
  mkdir_all fuel cwd fs s = (fs', r) -> ext (fun _ n => n = Dir) fs fs'.
Proof.
  intros H. eapply ext_weaken; [|eapply (mkdir_all_ext (fun _ => True) cwd); [auto|exact I|exact H]].
  intros p n [-> _]. reflexivity.
Qed.

(* what a failing iteration may leave behind: new directories, and the entry's file with a
   prefix of its data *)
Definition leftover (cwd : path) (dir : bytes) (nd : bytes * bytes) (p : path) (n : node) : Prop :=
  n = Dir \/
  (p = resolve cwd (join dir (clean (from_slash (fst nd)))) /\ exists m, n = File (firstn m (snd nd))).

Lemma write_one_f_cases sh g fl cwd fs dir nd ft fs1 v evs dfr :
  excl fl -> write_one_f sh g fl cwd fs dir nd ft = (fs1, v, evs, dfr) ->
  match v with
  | None => write_one g fl cwd fs dir nd = (fs1, WOk)
  | Some _ => ext (leftover cwd dir nd) fs fs1
  end.
Proof.
  intros Hx H. unfold write_one_f in H. unfold write_one.
  destruct (rejected g (clean (from_slash (fst nd)))).
  { inversion H; subst. apply ext_refl. }
  set (fp := join dir (clean (from_slash (fst nd)))) in *.
  destruct (mkdir_all (S (length (dir_of fp))) cwd fs (dir_of fp)) as [fsm rm] eqn:EM.
  assert (HM : ext (leftover cwd dir nd) fs fsm).
  { eapply ext_weaken; [|eapply mkdir_all_dirs; exact EM]. intros p n ->. left. reflexivity. }
  assert (HF : ft = FMkdir \/ ft <> FMkdir) by (destruct ft; auto; right; discriminate).
  destruct HF as [->|HF].
  { inversion H; subst. apply ext_refl. }
  assert (H' : (match rm with
                | WOk =>
                    match ft with
                    | FOpen => (fsm, Some (FFault IoOpen), [], [])
                    | _ =>
                      match os_open fl cwd fsm fp with
                      | inl e => (fsm, Some (FR (WErr OpOpen e)), [], [])
                      | inr (fs2, h) =>
                          let data := snd nd in
                          let stored := match ft with FShort k => firstn k data | _ => data end in
                          let werr := match ft with FShort _ => true | _ => false end in
                          let fs3 := os_write fl fs2 h stored in
                          let evw := [EvOpen h; EvWrite h (length stored)] in
                          if sh_defer sh then
                            (fs3, if werr then Some (FFault IoWrite) else None, evw, [h])
                          else if werr then
                            (fs3, Some (FFault IoWrite), evw ++ (if sh_close_first sh then [EvClose h] else []), [])
                          else
                            (fs3,
                             match ft with FClose => if sh_cerr sh then Some (FFault IoClose) else None | _ => None end,
                             evw ++ [EvClose h], [])
                      end
                    end
                | r => (fsm, Some (FR r), [], [])
                end) = (fs1, v, evs, dfr)).
  { destruct ft; try contradiction; exact H. }
  clear H. rename H' into H.
  destruct rm; try (inversion H; subst; exact HM).
  assert (HO : ft = FOpen \/ ft <> FOpen) by (destruct ft; auto; right; discriminate).
  destruct HO as [->|HO].
  { inversion H; subst. exact HM. }
  assert (H' : (match os_open fl cwd fsm fp with
                | inl e => (fsm, Some (FR (WErr OpOpen e)), [], [])
                | inr (fs2, h) =>
                    let data := snd nd in
                    let stored := match ft with FShort k => firstn k data | _ => data end in
                    let werr := match ft with FShort _ => true | _ => false end in
                    let fs3 := os_write fl fs2 h stored in
                    let evw := [EvOpen h; EvWrite h (length stored)] in
                    if sh_defer sh then
                      (fs3, if werr then Some (FFault IoWrite) else None, evw, [h])
                    else if werr then
                      (fs3, Some (FFault IoWrite), evw ++ (if sh_close_first sh then [EvClose h] else []), [])
                    else
                      (fs3,
                       match ft with FClose => if sh_cerr sh then Some (FFault IoClose) else None | _ => None end,
                       evw ++ [EvClose h], [])
                end) = (fs1, v, evs, dfr)).
  { destruct ft; try contradiction; exact H. }
  clear H. rename H' into H.
  destruct (os_open fl cwd fsm fp) as [e|[fs2 h]] eqn:EO.
  { inversion H; subst. exact HM. }
  destruct (os_open_excl _ _ _ _ _ _ Hx EO) as [Eh [HN E2]].
  subst fs2. pose proof (get_none_nonroot _ _ HN) as Hh.
  cbv zeta in H. rewrite os_write_new in H by auto.
  assert (HG : os_write fl ((h, File []) :: fsm) h (snd nd) = (h, File (snd nd)) :: (h, File []) :: fsm)
    by (apply os_write_new; auto).
  (* the state whatever was stored *)
  assert (HS : forall m, ext (leftover cwd dir nd) fs
                 ((h, File (firstn m (snd nd))) :: (h, File []) :: fsm)).
  { intros m. eapply ext_trans; [exact HM|]. apply ext_create; auto.
    right. split; [exact Eh|]. exists m. reflexivity. }
  assert (HW : forall (P : Prop), P -> True) by auto.
  destruct ft as [| | |k|]; try contradiction.
  - (* no fault *)
    destruct (sh_defer sh); inversion H; subst; rewrite HG; reflexivity.
  - (* short write *)
    destruct (sh_defer sh); inversion H; subst; apply HS.
  - (* close fails *)
    destruct (sh_defer sh).
    + inversion H; subst. rewrite HG. reflexivity.
    + destruct (sh_cerr sh); inversion H; subst.
      * rewrite <- (firstn_all (snd nd)) at 1. apply HS.
      * rewrite HG. reflexivity.
Qed.

(* the events of an iteration when Close is not deferred and comes before the error check *)
Lemma write_one_f_events sh g fl cwd fs dir nd ft fs1 v evs dfr :
  sh_defer sh = false -> sh_close_first sh = true ->
  write_one_f sh g fl cwd fs dir nd ft = (fs1, v, evs, dfr) ->
  dfr = [] /\ (evs = [] \/ exists h n, evs = [EvOpen h; EvWrite h n; EvClose h]).
Proof.
  intros Hd Hc H. unfold write_one_f in H. rewrite Hd, Hc in H.
  destruct (rejected g (clean (from_slash (fst nd)))).
  { inversion H; subst. auto. }
  match type of H with context [mkdir_all ?f cwd fs ?s] =>
    destruct (mkdir_all f cwd fs s) as [fsm rm] end.
  destruct ft; try (inversion H; subst; auto; fail);
  destruct rm; try (inversion H; subst; auto; fail);
  match type of H with context [os_open fl cwd fsm ?s] =>
    destruct (os_open fl cwd fsm s) as [e|[fs2 h]] end;
  try (inversion H; subst; auto; fail);
  cbv zeta in H; simpl in H.
  - inversion H; subst. split; auto. right. eauto.
  - inversion H; subst. split; auto. right. eauto.
  - destruct (sh_cerr sh); inversion H; subst; split; auto; right; eauto.
Qed.

(* ... and when it is deferred *)
Lemma write_one_f_deferred sh g fl cwd fs dir nd fs1 evs dfr :
  sh_defer sh = true ->
  write_one_f sh g fl cwd fs dir nd FNone = (fs1, None, evs, dfr) ->
  exists h n, evs = [EvOpen h; EvWrite h n] /\ dfr = [h].
Proof.
  intros Hd H. unfold write_one_f in H. rewrite Hd in H.
  destruct (rejected g (clean (from_slash (fst nd)))); [discriminate|].
  match type of H with context [mkdir_all ?f cwd fs ?s] =>
    destruct (mkdir_all f cwd fs s) as [fsm rm] end.
  destruct rm; try discriminate.
  match type of H with context [os_open fl cwd fsm ?s] =>
    destruct (os_open fl cwd fsm s) as [e|[fs2 h]] end; [discriminate|].
  cbv zeta in H. inversion H; subst. eauto.
Qed.

(* ------------------------------------------------------------------ the loop *)

(* without faults the new function is the old one (for any shape: the shape only decides
   when descriptors are closed) *)
Theorem write_gen_f_no_faults sh g fl cwd dir files :
  excl fl -> forall fs i pending fs' r tr,
  write_gen_f sh g fl cwd fs dir files no_faults i pending = (fs', r, tr) ->
  r = FR (snd (write_gen g fl cwd fs dir files)) /\ fs' = fst (write_gen g fl cwd fs dir files).
Proof.
  intros Hx. induction files as [|nd rest IH]; intros fs i pending fs' r tr H; simpl in H.
  - inversion H; subst. simpl. auto.
  - destruct (write_one_f sh g fl cwd fs dir nd (no_faults i)) as [[[fs1 v] evs] dfr] eqn:E1.
    unfold no_faults in E1.
    pose proof (write_one_f_cases _ _ _ _ _ _ _ _ _ _ _ _ Hx E1) as HC.
    destruct v as [r1|].
    + (* the iteration stopped: which verdict? re-read it from write_one *)
      inversion H; subst. clear H HC. simpl.
      unfold write_one_f in E1. unfold write_one.
      destruct (rejected g (clean (from_slash (fst nd)))).
      { inversion E1; subst. auto. }
      match type of E1 with context [mkdir_all ?f cwd fs ?s] =>
        destruct (mkdir_all f cwd fs s) as [fsm rm] end.
      destruct rm; try (inversion E1; subst; auto; fail).
      match type of E1 with context [os_open fl cwd fsm ?s] =>
        destruct (os_open fl cwd fsm s) as [e|[fs2 h]] end.
      { inversion E1; subst. auto. }
      cbv zeta in E1. destruct (sh_defer sh); inversion E1.
    + destruct (write_gen_f sh g fl cwd fs1 dir rest no_faults (S i) (dfr ++ pending))
        as [[fs2 r2] evs2] eqn:E2.
      inversion H; subst. simpl. rewrite HC.
      apply (IH _ _ _ _ _ _ E2).
Qed.

(* success, under any world: everything was written as in the fault-free model *)
Theorem write_gen_f_ok sh g fl cwd dir files world :
  excl fl -> forall fs i pending fs' tr,
  write_gen_f sh g fl cwd fs dir files world i pending = (fs', FR WOk, tr) ->
  write_gen g fl cwd fs dir files = (fs', WOk).
Proof.
  intros Hx. induction files as [|nd rest IH]; intros fs i pending fs' tr H; simpl in H.
  - inversion H; subst. reflexivity.
  - destruct (write_one_f sh g fl cwd fs dir nd (world i)) as [[[fs1 v] evs] dfr] eqn:E1.
    pose proof (write_one_f_cases _ _ _ _ _ _ _ _ _ _ _ _ Hx E1) as HC.
    destruct v as [r1|].
    + (* a stopped iteration never yields FR WOk *)
      exfalso. inversion H; subst. clear H HC.
      unfold write_one_f in E1.
      destruct (rejected g (clean (from_slash (fst nd)))); [inversion E1|].
      match type of E1 with context [mkdir_all ?f cwd fs ?s] =>
        destruct (mkdir_all f cwd fs s) as [fsm rm] end.
      destruct (world i); try (inversion E1; fail);
      destruct rm; try (inversion E1; fail);
      match type of E1 with context [os_open fl cwd fsm ?s] =>
        destruct (os_open fl cwd fsm s) as [e|[fs2 h]] end;
      try (inversion E1; fail);
      cbv zeta in E1; destruct (sh_defer sh); try (inversion E1; fail);
      destruct (sh_cerr sh); inversion E1.
    + destruct (write_gen_f sh g fl cwd fs1 dir rest world (S i) (dfr ++ pending))
        as [[fs2 r2] evs2] eqn:E2.
      inversion H; subst. simpl. rewrite HC. eapply IH; eauto.
Qed.

(* an error, under any world: the entries before the failing one were written as in the
   fault-free model, and beyond that there are only new directories and the failing
   entry's file holding a prefix of its data *)
Theorem write_gen_f_error_prefix sh g fl cwd dir files world :
  excl fl -> forall fs i pending fs' r tr,
  write_gen_f sh g fl cwd fs dir files world i pending = (fs', r, tr) -> r <> FR WOk ->
  exists k fsk, k < length files /\
    write_gen g fl cwd fs dir (firstn k files) = (fsk, WOk) /\
    ext (leftover cwd dir (nth k files ([], []))) fsk fs'.
Proof.
  intros Hx. induction files as [|nd rest IH]; intros fs i pending fs' r tr H Hr; simpl in H.
  - inversion H; subst. contradiction.
  - destruct (write_one_f sh g fl cwd fs dir nd (world i)) as [[[fs1 v] evs] dfr] eqn:E1.
    pose proof (write_one_f_cases _ _ _ _ _ _ _ _ _ _ _ _ Hx E1) as HC.
    destruct v as [r1|].
    + inversion H; subst. exists 0, fs. simpl. split; [lia|]. split; [reflexivity|exact HC].
    + destruct (write_gen_f sh g fl cwd fs1 dir rest world (S i) (dfr ++ pending))
        as [[fs2 r2] evs2] eqn:E2.
      inversion H; subst.
      destruct (IH _ _ _ _ _ _ E2 Hr) as [k [fsk [Hk [HW HE]]]].
      exists (S k), fsk. simpl. split; [lia|]. rewrite HC. split; [exact HW|exact HE].
Qed.

(* ------------------------------------------------------------------ descriptors *)

Lemma open_after_block n h m t :
  open_after n ([EvOpen h; EvWrite h m; EvClose h] ++ t) = open_after n t.
Proof. reflexivity. Qed.

Lemma max_open_ge n t : n <= max_open n t.
Proof.
  revert n. induction t as [|e t IH]; intros n; cbn [max_open]; [lia|].
  destruct e; try apply IH; lia.
Qed.

Lemma max_open_block n h m t :
  max_open n ([EvOpen h; EvWrite h m; EvClose h] ++ t) = Nat.max (S n) (max_open n t).
Proof. cbn [max_open app Nat.pred]. pose proof (max_open_ge n t). lia. Qed.

(* Close not deferred and before the error check: at every moment at most one descriptor
   is open, and none when Write returns - on every path, under every world *)
Theorem write_gen_f_fd_bounded sh g fl cwd dir files world :
  sh_defer sh = false -> sh_close_first sh = true ->
  forall fs i fs' r tr,
  write_gen_f sh g fl cwd fs dir files world i [] = (fs', r, tr) ->
  forall n, open_after n tr = Some n /\ max_open n tr <= S n.
Proof.
  intros Hd Hc. induction files as [|nd rest IH]; intros fs i fs' r tr H n; simpl in H.
  - inversion H; subst. simpl. split; [reflexivity|lia].
  - destruct (write_one_f sh g fl cwd fs dir nd (world i)) as [[[fs1 v] evs] dfr] eqn:E1.
    destruct (write_one_f_events _ _ _ _ _ _ _ _ _ _ _ _ Hd Hc E1) as [-> HE].
    destruct v as [r1|].
    + inversion H; subst. cbn [app map]. rewrite app_nil_r.
      destruct HE as [->|[h [m ->]]]; cbn [open_after max_open Nat.pred]; split; auto; lia.
    + destruct (write_gen_f sh g fl cwd fs1 dir rest world (S i) ([] ++ [])) as [[fs2 r2] evs2] eqn:E2.
      inversion H; subst. simpl in E2. destruct (IH _ _ _ _ _ E2 n) as [H1 H2].
      destruct HE as [->|[h [m ->]]].
      * simpl. auto.
      * rewrite open_after_block, max_open_block. split; [exact H1|lia].
Qed.

Lemma max_open_closes n (l : list path) : length l <= n -> max_open n (map EvClose l) = n.
Proof.
  revert n. induction l as [|p l IH]; intros n Hn; cbn [map max_open]; [reflexivity|].
  cbn [length] in Hn. destruct n as [|n]; [lia|]. cbn [Nat.pred]. rewrite IH by lia. lia.
Qed.

(* Were Close deferred, a successful Write would hold one descriptor per entry: all of
   them are open together just before it returns *)
Theorem write_gen_f_deferred_all_open sh g fl cwd dir files :
  sh_defer sh = true ->
  forall fs i pending fs' tr,
  write_gen_f sh g fl cwd fs dir files no_faults i pending = (fs', FR WOk, tr) ->
  max_open (length pending) tr = length pending + length files.
Proof.
  intros Hd. induction files as [|nd rest IH]; intros fs i pending fs' tr H; simpl in H.
  - inversion H; subst. cbn [length]. rewrite max_open_closes by lia. lia.
  - destruct (write_one_f sh g fl cwd fs dir nd (no_faults i)) as [[[fs1 v] evs] dfr] eqn:E1.
    destruct v as [r1|].
    + exfalso. inversion H; subst. clear H. unfold no_faults, write_one_f in E1. rewrite Hd in E1.
      destruct (rejected g (clean (from_slash (fst nd)))); [inversion E1|].
      match type of E1 with context [mkdir_all ?f cwd fs ?s] =>
        destruct (mkdir_all f cwd fs s) as [fsm rm] end.
      destruct rm; try (inversion E1; fail).
      match type of E1 with context [os_open fl cwd fsm ?s] =>
        destruct (os_open fl cwd fsm s) as [e|[fs2 h]] end; inversion E1.
    + destruct (write_one_f_deferred _ _ _ _ _ _ _ _ _ _ Hd E1) as [h [m [-> ->]]].
      destruct (write_gen_f sh g fl cwd fs1 dir rest no_faults (S i) ([h] ++ pending))
        as [[fs2 r2] evs2] eqn:E2.
      inversion H; subst. pose proof (IH _ _ _ _ _ E2) as HI. cbn [app length] in HI.
      cbn [app max_open length]. rewrite HI. lia.
Qed.

Corollary deferred_close_holds_all sh g fl cwd dir files fs fs' tr :
  sh_defer sh = true ->
  write_gen_f sh g fl cwd fs dir files no_faults 0 [] = (fs', FR WOk, tr) ->
  max_open 0 tr = length files.
Proof. intros Hd H. exact (write_gen_f_deferred_all_open sh g fl cwd dir files Hd fs 0 [] fs' tr H). Qed.

(* ------------------------------------------------------------------ the current source *)

(* where the regenerated shape constants enter *)
Lemma the_shape_not_deferred : sh_defer the_shape = false.
Proof. reflexivity. Qed.
Lemma the_shape_close_first : sh_close_first the_shape = true.
Proof. reflexivity. Qed.

Theorem write_f_no_faults cwd fs dir a :
  fst (write_f no_faults cwd fs dir a) = (fst (write cwd fs dir a), FR (snd (write cwd fs dir a))).
Proof.
  unfold write_f, write.
  destruct (write_gen_f the_shape the_guard the_flags cwd fs dir (files a) no_faults 0 []) as [[fs' r] tr] eqn:E.
  destruct (write_gen_f_no_faults _ _ _ _ _ _ the_flags_excl _ _ _ _ _ _ E) as [-> ->]. reflexivity.
Qed.

(* a prefix of a trace never has more open than the maximum of the whole *)
Lemma prefix_open t1 : forall t2 n, open_after n (t1 ++ t2) <> None ->
  exists k, open_after n t1 = Some k /\ k <= max_open n (t1 ++ t2).
Proof.
  induction t1 as [|e t1 IH]; intros t2 n Hn.
  - exists n. split; [reflexivity|]. apply max_open_ge.
  - destruct e; cbn [app open_after max_open] in *.
    + destruct (IH t2 (S n) Hn) as [k [Hk Hl]]. exists k. split; auto. lia.
    + apply (IH t2 n Hn).
    + destruct n as [|n]; [contradiction|]. destruct (IH t2 n Hn) as [k [Hk Hl]].
      exists k. split; auto. cbn [Nat.pred]. lia.
Qed.

(* txtar.Write as it is written: at every moment of a call at most one descriptor is open,
   and none when it returns, whatever fails *)
Theorem write_fd_bounded world cwd fs dir a fs' r tr :
  write_f world cwd fs dir a = (fs', r, tr) ->
  open_after 0 tr = Some 0 /\
  forall t1 t2, tr = t1 ++ t2 -> exists n, open_after 0 t1 = Some n /\ n <= 1.
Proof.
  intros H. unfold write_f in H.
  destruct (write_gen_f_fd_bounded _ _ _ _ _ _ _ the_shape_not_deferred the_shape_close_first _ _ _ _ _ H 0) as [H1 H2].
  split; [exact H1|]. intros t1 t2 E. subst tr.
  destruct (prefix_open t1 t2 0) as [k [Hk Hl]]; [rewrite H1; discriminate|].
  exists k. split; [exact Hk|lia].
Qed.

(* what an error leaves behind (write_gen_f_error_prefix for the current source) *)
Theorem write_error_prefix world cwd fs dir a fs' r tr :
  write_f world cwd fs dir a = (fs', r, tr) -> r <> FR WOk ->
  exists k fsk, k < length (files a) /\
    write_gen the_guard the_flags cwd fs dir (firstn k (files a)) = (fsk, WOk) /\
    ext (leftover cwd dir (nth k (files a) ([], []))) fsk fs'.
Proof. intros H Hr. eapply write_gen_f_error_prefix; [exact the_flags_excl|exact H|exact Hr]. Qed.

Theorem write_f_ok world cwd fs dir a fs' tr :
  write_f world cwd fs dir a = (fs', FR WOk, tr) -> write cwd fs dir a = (fs', WOk).
Proof. intros H. eapply write_gen_f_ok; [exact the_flags_excl|exact H]. Qed.

(* nothing that exists is changed, whatever fails *)
Theorem write_f_never_overwrites world cwd fs dir a fs' r tr :
  write_f world cwd fs dir a = (fs', r, tr) -> forall p x, get fs p = Some x -> get fs' p = Some x.
Proof.
  intros H p x Hx.
  assert (D : r = FR WOk \/ r <> FR WOk).
  { destruct r as [[| | |]|]; auto; right; discriminate. }
  destruct D as [->|Hr].
  - apply write_f_ok in H. eapply never_overwrites; eauto.
  - destruct (write_error_prefix _ _ _ _ _ _ _ _ H Hr) as [k [fsk [_ [HW HE]]]].
    eapply ext_preserves; [exact HE|].
    eapply ext_preserves; [eapply write_gen_preserves; [exact the_flags_excl|exact HW]|exact Hx].
Qed.

(* ------------------------------------------------------------------ containment under faults *)

(* the directories MkdirAll makes for an entry that passes the guard are allowed, and the
   entry's file lies within the directory (the first half of write_one_ext) *)
Lemma entry_mkdir_allowed g cwd fs dir (nd : bytes * bytes) fsm rm :
  guards g -> is_abs dir = true ->
  rejected g (clean (from_slash (fst nd))) = false ->
  let fp := join dir (clean (from_slash (fst nd))) in
  mkdir_all (S (length (dir_of fp))) cwd fs (dir_of fp) = (fsm, rm) ->
  ext (allowed (resolve cwd dir)) fs fsm /\ within (resolve cwd dir) (resolve cwd fp).
Proof.
  intros Hg Ha ER fp EM. subst fp.
  destruct (not_rejected _ _ Hg ER) as [N1 [N2 N3]].
  destruct (clean_passes_guard _ N1 N2 N3) as [R [HR EC]].
  rewrite EC in EM |- *. rewrite (join_abs cwd) in EM |- * by auto.
  set (D := resolve cwd dir) in *.
  assert (HD : Forall real D) by (apply resolve_abs_real; auto).
  assert (HDR : Forall real (D ++ R)) by (apply Forall_app; auto).
  assert (ED : exists Q, Forall real Q /\ within Q (D ++ R) /\ dir_of (render true (D ++ R)) = render true Q).
  { destruct (snoc_cases (D ++ R)) as [E0|[P [c EQ]]].
    - rewrite E0. exists []. split; [constructor|].
      split; [exists []; reflexivity|reflexivity].
    - rewrite EQ in *. apply Forall_app in HDR. destruct HDR as [HP Hc]. inversion Hc; subst.
      exists P. split; auto. split; [exists [c]; reflexivity|].
      apply dir_of_render_snoc; auto. }
  destruct ED as [Q [HQ [HW EQ]]]. rewrite EQ in EM.
  pose proof (mkdir_all_abs _ _ _ _ _ _ HQ EM) as H1.
  split.
  - eapply ext_weaken; [|exact H1]. intros p n [-> Hp]. unfold allowed.
    destruct Hp as [q Eq]. destruct HW as [q' Eq'].
    destruct (within_app_cases p D R) as [Hc|Hc]; auto.
    exists (q ++ q'). rewrite Eq', Eq. rewrite app_assoc. reflexivity.
  - rewrite resolve_render_true by auto. exists R. reflexivity.
Qed.

Lemma write_one_f_ext sh g fl cwd fs dir nd ft fs1 v evs dfr :
  guards g -> excl fl -> is_abs dir = true ->
  write_one_f sh g fl cwd fs dir nd ft = (fs1, v, evs, dfr) ->
  ext (allowed (resolve cwd dir)) fs fs1.
Proof.
  intros Hg Hx Ha H. unfold write_one_f in H.
  destruct (rejected g (clean (from_slash (fst nd)))) eqn:ER.
  { inversion H; subst. apply ext_refl. }
  match type of H with context [mkdir_all ?f cwd fs ?s] =>
    destruct (mkdir_all f cwd fs s) as [fsm rm] eqn:EM end.
  destruct (entry_mkdir_allowed _ _ _ _ _ _ _ Hg Ha ER EM) as [HM HT].
  assert (HS : forall h stored, os_open fl cwd fsm (join dir (clean (from_slash (fst nd)))) = inr ((h, File []) :: fsm, h) ->
               get fsm h = None -> h = resolve cwd (join dir (clean (from_slash (fst nd)))) ->
               ext (allowed (resolve cwd dir)) fs (os_write fl ((h, File []) :: fsm) h stored)).
  { intros h stored _ HN Eh. rewrite os_write_new by (eapply get_none_nonroot; eauto).
    eapply ext_trans; [exact HM|]. apply ext_create; auto. left. subst h. exact HT. }
  destruct ft; try (inversion H; subst; apply ext_refl);
  destruct rm; try (inversion H; subst; exact HM);
  match type of H with context [os_open fl cwd fsm ?s] =>
    destruct (os_open fl cwd fsm s) as [e|[fs2 h]] eqn:EO end;
  try (inversion H; subst; exact HM);
  destruct (os_open_excl _ _ _ _ _ _ Hx EO) as [Eh [HN E2]]; subst fs2;
  cbv zeta in H; destruct (sh_defer sh); try destruct (sh_cerr sh);
  inversion H; subst; apply HS; auto.
Qed.

Theorem write_gen_f_contained sh g fl cwd dir files world :
  guards g -> excl fl -> is_abs dir = true ->
  forall fs i pending fs' r tr,
  write_gen_f sh g fl cwd fs dir files world i pending = (fs', r, tr) ->
  ext (allowed (resolve cwd dir)) fs fs'.
Proof.
  intros Hg Hx Ha. induction files as [|nd rest IH]; intros fs i pending fs' r tr H; simpl in H.
  - inversion H; subst. apply ext_refl.
  - destruct (write_one_f sh g fl cwd fs dir nd (world i)) as [[[fs1 v] evs] dfr] eqn:E1.
    pose proof (write_one_f_ext _ _ _ _ _ _ _ _ _ _ _ _ Hg Hx Ha E1) as H1.
    destruct v as [r1|].
    + inversion H; subst. exact H1.
    + destruct (write_gen_f sh g fl cwd fs1 dir rest world (S i) (dfr ++ pending))
        as [[fs2 r2] evs2] eqn:E2.
      inversion H; subst. eapply ext_trans; [exact H1|]. eapply IH; eauto.
Qed.

(* containment on every path: whatever system call fails, whatever differs afterwards did
   not exist before and is the directory, beneath it, or a directory on the way to it *)
Theorem write_f_contained world cwd fs dir a fs' r tr :
  is_abs dir = true -> write_f world cwd fs dir a = (fs', r, tr) ->
  forall p, get fs' p <> get fs p ->
    get fs p = None /\
    (within (resolve cwd dir) p \/ (get fs' p = Some Dir /\ within p (resolve cwd dir))).
Proof.
  intros Ha H p Hp.
  pose proof (write_gen_f_contained _ _ _ _ _ _ _ the_guard_guards the_flags_excl Ha _ _ _ _ _ _ H) as HE.
  destruct (ext_changed _ _ _ _ HE Hp) as [HN [n [Hn [HA|[-> HA]]]]]; split; auto.
Qed.

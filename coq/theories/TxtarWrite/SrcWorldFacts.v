From Coq Require Import List Bool Arith NArith ZArith Lia.
From Coq.Strings Require Import Byte.
From GI Require Import Lib.Bytes Lib.BytesFacts Lib.GoSem Lib.GoSemExtFacts Lib.GoSemWorld Gen.TxtarWriteConsts Txtar.Txtar
  TxtarWrite.Path TxtarWrite.PathFacts TxtarWrite.TxtarWrite TxtarWrite.WriteFacts TxtarWrite.Cli
  TxtarWrite.SrcLib TxtarWrite.SrcWorld Gen.TxtarWriteWorldSrc.
Import ListNotations.

(* the flag numbers the generator evaluated the source with are the ones the model decodes *)
Lemma O_flags_agree :
  tw_O_WRONLY = O_WRONLY /\ tw_O_CREATE = O_CREATE /\ tw_O_EXCL = O_EXCL /\ tw_O_TRUNC = O_TRUNC /\ tw_O_APPEND = O_APPEND.
Proof. repeat split; reflexivity. Qed.

Lemma flags_of_Z_the_flags : flags_of_Z (flags_Z the_flags) = the_flags.
Proof. reflexivity. Qed.

Section Any.
Variable OS : fs_ops.

Theorem src_isAbs_eq p : tw_isAbs p = Ok (is_abs p).
Proof.
  unfold tw_isAbs, go_filepath_IsAbs, go_bytes_HasPrefix, is_abs. f_equal.
  destruct p as [|b r]; [reflexivity|]. cbn [has_prefix]. unfold is_sep, SEP.
  rewrite andb_true_r, (beq_sym x2f b). apply orb_diag.
Qed.

Lemma src_guard_eq fp :
  (is_abs fp || bytes_eqb fp [x2e; x2e] || go_bytes_HasPrefix fp [x2e; x2e; x2f]) = rejected the_guard fp.
Proof.
  unfold rejected, the_guard, go_bytes_HasPrefix. cbn [g_abs g_exact g_prefix].
  unfold write_guard_abs, write_guard_exact, write_guard_prefix. cbn [existsb andb]. now rewrite !orb_false_r.
Qed.

(* how the loop function reports what the reference computes *)
Definition loop_outcome {L : Type} (x : World OS * werr) : res (outcome (World OS) L (World OS * werr)) :=
  if werr_is_nil (snd x) then Ok (Normal (fst x)) else Ok (Return x).

Lemma src_Write_loop_eq (L : Type) dir : forall files w,
  tw_Write_loop1 OS (L := L) dir files w = loop_outcome (write_ops OS dir files w).
Proof.
  induction files as [|nd rest IH]; intros w; [reflexivity|].
  cbn [tw_Write_loop1 write_ops]. unfold write_entry_ops.
  rewrite src_isAbs_eq. cbn [bind]. unfold go_filepath_Clean, go_filepath_FromSlash.
  rewrite src_guard_eq.
  destruct (rejected the_guard (clean (from_slash (fst nd)))).
  - reflexivity.
  - unfold go_filepath_Join, go_filepath_Dir. cbn [bind].
    change (Z.of_N write_dir_perm) with 511%Z. change (Z.of_N write_file_perm) with 438%Z.
    change (flags_Z the_flags) with 193%Z.
    destruct (op_mkdir_all OS w _ _) as [w1 e1]. destruct (werr_is_nil e1) eqn:E1; cbn [negb bindL].
    2:{ cbv beta iota. rewrite ?E1, ?E2, ?E3, ?E4. cbv beta iota. unfold loop_outcome. cbn [snd fst]. rewrite ?E1, ?E2, ?E3, ?E4. reflexivity. }
    destruct (op_open_file OS w1 _ _ _) as [[w2 h] e2]. destruct (werr_is_nil e2) eqn:E2; cbn [negb bindL].
    2:{ cbv beta iota. rewrite ?E1, ?E2, ?E3, ?E4. cbv beta iota. unfold loop_outcome. cbn [snd fst]. rewrite ?E1, ?E2, ?E3, ?E4. reflexivity. }
    destruct (op_write OS w2 h _) as [[w3 n] e3]. destruct (op_close OS w3 h) as [w4 e4].
    destruct (werr_is_nil e3) eqn:E3; cbn [negb bindL].
    2:{ cbv beta iota. rewrite ?E1, ?E2, ?E3, ?E4. cbv beta iota. unfold loop_outcome. cbn [snd fst]. rewrite ?E1, ?E2, ?E3, ?E4. reflexivity. }
    destruct (werr_is_nil e4) eqn:E4; cbn [negb bindL].
    2:{ cbv beta iota. rewrite ?E1, ?E2, ?E3, ?E4. cbv beta iota. unfold loop_outcome. cbn [snd fst]. rewrite ?E1, ?E2, ?E3, ?E4. reflexivity. }
    cbv beta iota. rewrite ?E1, ?E2, ?E3, ?E4. cbn [negb]. cbv beta iota. rewrite ?E4. apply IH.
Qed.

(* txtar.Write, whole: for every record of operations and every world, the translated function
   performs the reference program -- and a nil archive pointer is a panic, as in Go *)
Theorem src_Write_eq w a dir : tw_Write OS w (Some a) dir = Ok (write_ops OS dir (files a) w).
Proof.
  unfold tw_Write. cbn [go_deref bind]. rewrite (src_Write_loop_eq unit).
  unfold loop_outcome. destruct (write_ops OS dir (files a) w) as [w1 e]. cbn [fst snd].
  destruct e; reflexivity.
Qed.

Theorem src_Write_nil w dir : tw_Write OS w None dir = Panic.
Proof. reflexivity. Qed.

Theorem src_ParseFile_eq w file : tw_ParseFile OS w file = Ok (parse_file_ops OS file w).
Proof.
  unfold tw_ParseFile, parse_file_ops, go_txtar_Parse.
  destruct (op_read_file OS w file) as [[w1 d] e]. destruct (werr_is_nil e); reflexivity.
Qed.
End Any.

(* ------------------------------------------------------------------ which calls, in which order *)

Section Trace.
Variable OS : fs_ops.

(* one entry over the logging operations: the same world and error as over OS itself, and the
   log grows by one of the four shapes *)
Lemma write_entry_traced dir nd w tr :
  exists t,
    write_entry_ops (traced OS) dir nd (w, tr) =
      ((fst (write_entry_ops OS dir nd w), tr ++ t), snd (write_entry_ops OS dir nd w)) /\
    entry_trace dir nd t (werr_is_nil (snd (write_entry_ops OS dir nd w))).
Proof.
  unfold write_entry_ops.
  destruct (rejected the_guard (clean (from_slash (fst nd)))) eqn:G.
  - exists []. rewrite app_nil_r. split; [reflexivity|]. now constructor.
  - cbn [traced op_mkdir_all op_open_file op_write op_close fst snd].
    destruct (op_mkdir_all OS w _ _) as [w1 e1]. destruct (werr_is_nil e1) eqn:E1; cbn [negb].
    2:{ eexists. split; [reflexivity|]. cbn [snd]. rewrite E1. now constructor. }
    cbn [fst snd].
    destruct (op_open_file OS w1 _ _ _) as [[w2 h] e2]. destruct (werr_is_nil e2) eqn:E2; cbn [negb].
    2:{ eexists. split; [rewrite <- app_assoc; reflexivity|]. cbn [snd]. rewrite E2.
        destruct e1; try discriminate E1. cbn [app]. now constructor. }
    cbn [fst snd].
    destruct (op_write OS w2 h _) as [[w3 n] e3]. cbn [fst snd].
    destruct (op_close OS w3 h) as [w4 e4].
    destruct e1; try discriminate E1. destruct e2; try discriminate E2.
    exists [EMkdirAll (dir_of (join dir (clean (from_slash (fst nd))))) (Z.of_N write_dir_perm) WNil;
            EOpenFile (join dir (clean (from_slash (fst nd)))) (flags_Z the_flags) (Z.of_N write_file_perm) h WNil;
            EWrite h (snd nd) n e3; EClose h e4].
    split.
    + rewrite <- !app_assoc. cbn [app]. destruct (werr_is_nil e3); reflexivity.
    + replace (werr_is_nil (snd (if negb (werr_is_nil e3) then (w4, e3) else (w4, e4))))
        with (werr_is_nil e3 && werr_is_nil e4).
      * now constructor.
      * destruct (werr_is_nil e3) eqn:E3; cbn [negb snd andb]; [reflexivity|now rewrite E3].
Qed.

(* Write over the logging operations: the same result as over OS itself, and the log is the
   entries' calls in order, up to the first entry that does not end well *)
Theorem write_ops_traced dir : forall files w tr,
  exists t,
    write_ops (traced OS) dir files (w, tr) =
      ((fst (write_ops OS dir files w), tr ++ t), snd (write_ops OS dir files w)) /\
    write_trace dir files t.
Proof.
  induction files as [|nd rest IH]; intros w tr.
  - exists []. rewrite app_nil_r. split; [reflexivity|constructor].
  - cbn [write_ops]. destruct (write_entry_traced dir nd w tr) as [t [Ht Et]]. rewrite Ht.
    destruct (write_entry_ops OS dir nd w) as [w1 e]. cbn [fst snd] in *.
    destruct (werr_is_nil e) eqn:E.
    + destruct (IH w1 (tr ++ t)) as [t' [Ht' Wt']]. exists (t ++ t'). rewrite Ht', app_assoc.
      split; [reflexivity|]. now apply WT_go.
    + exists t. split; [reflexivity|]. now apply WT_stop.
Qed.

(* the descriptor discipline of such a log: after every prefix at most one descriptor is open,
   after an entry's calls none *)
Lemma prefixes_by_firstn {Hd} (t : list (fs_ev Hd)) k :
  (forall i, exists n, fds_after 0 (firstn i t) = Some n /\ n <= k) ->
  forall t1 t2, t = t1 ++ t2 -> exists n, fds_after 0 t1 = Some n /\ n <= k.
Proof.
  intros P t1 t2 ->. specialize (P (length t1)).
  now rewrite firstn_app, Nat.sub_diag, firstn_all, firstn_O, app_nil_r in P.
Qed.

Lemma entry_trace_fds dir nd (t : list (fs_ev (Handle OS))) ok :
  entry_trace dir nd t ok ->
  fds_after 0 t = Some 0 /\
  forall t1 t2, t = t1 ++ t2 -> exists n, fds_after 0 t1 = Some n /\ n <= 1.
Proof.
  intros H. destruct H as [G|e G E|h e G E|h n e3 e4 G].
  - split; [reflexivity|]. apply prefixes_by_firstn. intros i. exists 0. destruct i; split; (reflexivity || lia).
  - split; [reflexivity|]. apply prefixes_by_firstn. intros i. exists 0.
    destruct i as [|[|i]]; split; (reflexivity || lia).
  - split; [cbn [fds_after]; now rewrite E|]. apply prefixes_by_firstn. intros i. exists 0.
    destruct i as [|[|[|i]]]; cbn [firstn fds_after werr_is_nil]; rewrite ?E; split; (reflexivity || lia).
  - split; [reflexivity|]. apply prefixes_by_firstn. intros i.
    destruct i as [|[|[|[|[|i]]]]]; cbn [firstn fds_after werr_is_nil]; eexists; (split; [reflexivity|lia]).
Qed.

Lemma fds_after_app {Hd} (t1 : list (fs_ev Hd)) : forall t2 n m,
  fds_after n t1 = Some m -> fds_after n (t1 ++ t2) = fds_after m t2.
Proof.
  induction t1 as [|x t1 IH]; intros t2 n m H; cbn [fds_after app] in *.
  - now injection H as ->.
  - destruct x; try (now apply IH).
    + destruct (werr_is_nil e); now apply IH.
    + destruct n; [discriminate|now apply IH].
Qed.

Theorem write_trace_fds dir files (t : list (fs_ev (Handle OS))) :
  write_trace dir files t ->
  fds_after 0 t = Some 0 /\
  forall t1 t2, t = t1 ++ t2 -> exists n, fds_after 0 t1 = Some n /\ n <= 1.
Proof.
  induction 1 as [|nd rest t E|nd rest t t' E W IH].
  - split; [reflexivity|]. intros t1 t2 H. symmetry in H. apply app_eq_nil in H. destruct H as [-> _].
    exists 0. split; [reflexivity|lia].
  - exact (entry_trace_fds dir nd t false E).
  - destruct (entry_trace_fds dir nd t true E) as [Z0 P]. destruct IH as [Z1 P1].
    split; [now rewrite (fds_after_app t t' 0 0 Z0)|].
    intros t1 t2 H.
    (* t1 is a prefix of t, or t followed by a prefix of t' *)
    assert (C : (exists r, t = t1 ++ r) \/ (exists r, t1 = t ++ r /\ t' = r ++ t2)).
    { clear -H. revert t1 H. induction t as [|x t IHt]; intros t1 H.
      - right. exists t1. now split.
      - destruct t1 as [|y t1]; [left; now eexists|]. cbn [app] in H. injection H as <- H.
        destruct (IHt t1 H) as [[r ->]|[r [-> ->]]]; [left; now exists r|right; now exists r]. }
    destruct C as [[r ->]|[r [-> ->]]].
    + now apply (P t1 r).
    + destruct (P1 r t2 eq_refl) as [n [Hn Ln]]. exists n. split; [|exact Ln].
      now rewrite (fds_after_app t r 0 0 Z0).
Qed.
End Trace.

(* ------------------------------------------------------------------ over the file-system model *)

Lemma mkdir_all_not_outside cwd : forall fuel fs s, snd (mkdir_all fuel cwd fs s) <> WOutside.
Proof.
  induction fuel as [|f IH]; intros fs s; cbn [mkdir_all]; [discriminate|].
  destruct (os_stat cwd fs s) as [e|[d|]]; cbn [snd]; try discriminate.
  destruct (nonempty (parent_str s)).
  - specialize (IH fs (parent_str s)). destruct (mkdir_all f cwd fs (parent_str s)) as [fs1 r1]. cbn [snd] in IH.
    destruct r1; cbn [snd]; try discriminate; try congruence.
    destruct (os_mkdir cwd fs1 s) as [fs2 [e2|]]; cbn [snd]; try discriminate.
    destruct (os_stat cwd fs2 s) as [e3|[d3|]]; cbn [snd]; discriminate.
  - destruct (os_mkdir cwd fs s) as [fs2 [e2|]]; cbn [snd]; try discriminate.
    destruct (os_stat cwd fs2 s) as [e3|[d3|]]; cbn [snd]; discriminate.
Qed.

Lemma dec_enc r : r <> WOutside -> dec_werr (enc_wres r) = r.
Proof. destruct r as [| |o e|]; intros H; try reflexivity; try congruence. destruct o, e; reflexivity. Qed.

Lemma enc_nil r : werr_is_nil (enc_wres r) = match r with WOk => true | _ => false end.
Proof. destruct r; reflexivity. Qed.

(* one entry: the reference program over [model_fs cwd] is the model's write_one *)
Lemma write_entry_model cwd fs dir nd :
  fst (write_entry_ops (model_fs cwd) dir nd fs) = fst (write_one the_guard the_flags cwd fs dir nd) /\
  dec_werr (snd (write_entry_ops (model_fs cwd) dir nd fs)) = snd (write_one the_guard the_flags cwd fs dir nd).
Proof.
  unfold write_entry_ops, write_one.
  destruct (rejected the_guard (clean (from_slash (fst nd)))); [split; reflexivity|].
  cbn [model_fs op_mkdir_all op_open_file op_write op_close].
  set (fp := join dir (clean (from_slash (fst nd)))).
  pose proof (mkdir_all_not_outside cwd (S (length (dir_of fp))) fs (dir_of fp)) as NO.
  destruct (mkdir_all (S (length (dir_of fp))) cwd fs (dir_of fp)) as [fs1 r1]. cbn [snd] in NO.
  rewrite enc_nil. destruct r1; cbn [negb fst snd]; try (split; [reflexivity|now apply dec_enc]).
  rewrite flags_of_Z_the_flags.
  destruct (os_open the_flags cwd fs1 fp) as [e|[fs2 h]]; cbn [werr_is_nil enc_wres negb fst snd].
  - split; [reflexivity|]. destruct e; reflexivity.
  - split; reflexivity.
Qed.

Theorem write_ops_model cwd dir : forall files fs,
  fst (write_ops (model_fs cwd) dir files fs) = fst (write_gen the_guard the_flags cwd fs dir files) /\
  dec_werr (snd (write_ops (model_fs cwd) dir files fs)) = snd (write_gen the_guard the_flags cwd fs dir files).
Proof.
  induction files as [|nd rest IH]; intros fs; [split; reflexivity|].
  cbn [write_ops write_gen]. destruct (write_entry_model cwd fs dir nd) as [F D].
  destruct (write_entry_ops (model_fs cwd) dir nd fs) as [w1 e].
  destruct (write_one the_guard the_flags cwd fs dir nd) as [fs1 r]. cbn [fst snd] in F, D. subst w1.
  destruct e as [|n|ty strs inner]; cbn [werr_is_nil].
  - cbn [dec_werr] in D. subst r. apply IH.
  - subst r. cbn [dec_werr]. destruct n as [|o [|c [|? ?]]]; split; reflexivity.
  - subst r. split; reflexivity.
Qed.

(* THE TIE: txtar.Write as translated from the source, run over the file-system model, is the
   model's write -- the same file system afterwards, and the error value it returns decodes to
   the model's verdict *)
Theorem src_Write_model cwd fs dir a :
  exists e, tw_Write (model_fs cwd) fs (Some a) dir = Ok (fst (write cwd fs dir a), e) /\
            dec_werr e = snd (write cwd fs dir a).
Proof.
  rewrite src_Write_eq. destruct (write_ops_model cwd dir (files a) fs) as [F D].
  destruct (write_ops (model_fs cwd) dir (files a) fs) as [w1 e]. cbn [fst snd] in F, D.
  exists e. unfold write. now rewrite <- F, <- D.
Qed.

Corollary src_Write_model_inv cwd fs dir a fs' e :
  tw_Write (model_fs cwd) fs (Some a) dir = Ok (fs', e) -> write cwd fs dir a = (fs', dec_werr e).
Proof.
  destruct (src_Write_model cwd fs dir a) as [e0 [H D]]. rewrite H. intros [= <- <-].
  rewrite D. now destruct (write cwd fs dir a).
Qed.

Lemma dec_werr_ok e : dec_werr e = WOk <-> e = WNil.
Proof.
  split; [|now intros ->]. destruct e as [|n|]; [reflexivity| |discriminate].
  cbn [dec_werr]. destruct n as [|o [|c [|? ?]]]; discriminate.
Qed.

(* ------------------------------------------------------------------ the walk function of txtar-c *)

Lemma file_entry_named_eq fl p d : file_entry fl (p, d) = file_entry_named fl (join_sep p) d.
Proof. reflexivity. Qed.

(* strings.TrimPrefix never panics: it is the model's trim_prefix *)
Lemma go_TrimPrefix_eq s p : go_bytes_TrimPrefix s p = Ok (TxtarWrite.trim_prefix p s).
Proof.
  unfold go_bytes_TrimPrefix, GoSem.trim_prefix, TxtarWrite.trim_prefix.
  destruct (has_prefix p s) eqn:E; [|reflexivity].
  apply has_prefix_iff in E. destruct E as [x ->].
  change (len p) with (Z.of_nat (length p)).
  rewrite slice_z_from by (rewrite app_length; lia). reflexivity.
Qed.

(* if len(data) > 0 && !bytes.HasSuffix(data, "\n") { data = append(data, '\n') }  is fix_nl *)
Lemma fix_nl_as_written d :
  (if ((len d >? 0)%Z && negb (go_bytes_HasSuffix d [x0a])) then d ++ [x0a] else d) = fix_nl d.
Proof.
  destruct d as [|b r _] using rev_ind; [reflexivity|].
  unfold len. rewrite app_length. cbn [length].
  replace (Z.of_nat (length r + 1) >? 0)%Z with true by (symmetry; apply Z.gtb_lt; lia).
  cbn [andb]. unfold go_bytes_HasSuffix, has_suffix. rewrite rev_app_distr. cbn [rev app has_prefix].
  rewrite andb_true_r. unfold fix_nl. rewrite last_byte_snoc. rewrite (beq_sym x0a b). fold NL.
  destruct (beq b NL); reflexivity.
Qed.

Lemma bind_if {A B} (c : bool) (x y : A) (k : A -> res B) :
  bind (if c then Ok x else Ok y) k = k (if c then x else y).
Proof. destruct c; reflexivity. Qed.

Section Walk.
Variable OS : fs_ops.

Theorem src_walkfn_eq fl w a dir path info err :
  tc_main_walkfn OS (f_quote fl) (f_all fl) w (Some a) dir path info err =
  Ok (match walk_fn_ops OS fl w a dir path info err with (w', a', e) => (w', Some a', e) end).
Proof.
  unfold tc_main_walkfn, walk_fn_ops.
  destruct (werr_is_nil err); cbn [negb]; [|reflexivity].
  destruct (bytes_eqb path dir); [reflexivity|].
  unfold skip_name, go_bytes_HasPrefix. change savedir_dot_prefix with [x2e].
  destruct (has_prefix [x2e] (fi_name OS info) && negb (f_all fl)).
  { destruct (fi_is_dir OS info); reflexivity. }
  destruct (fm_is_regular OS (fi_mode OS info)); cbn [negb]; [|reflexivity].
  destruct (op_read_file OS w path) as [[w1 data] e]. destruct (werr_is_nil e); cbn [negb]; [|reflexivity].
  unfold file_entry_named, go_utf8_Valid.
  destruct (utf8_valid data); cbn [negb]; [|reflexivity].
  (* the final-newline fix *)
  cbv zeta. rewrite bind_if, fix_nl_as_written.
  rewrite go_TrimPrefix_eq. cbn [bind]. change [x2f] with [SEP].
  unfold go_txtar_NeedsQuote, go_txtar_Quote, go_filepath_ToSlash.
  change savedir_unquote_prefix with [x75; x6e; x71; x75; x6f; x74; x65; x20].
  change savedir_unquote_suffix with [x0a].
  destruct (needs_quote (fix_nl data)).
  2:{ cbn [bindT go_deref bind comment files]. now rewrite app_nil_r. }
  destruct (f_quote fl); cbn [negb]; [|reflexivity].
  destruct (quote (fix_nl data)) as [q|]; cbn [werr_is_nil negb bindT go_deref bind comment files];
    [|reflexivity].
  now rewrite <- app_assoc.
Qed.

(* a nil archive pointer: the literal panics where it first stores through it *)
End Walk.

(* ------------------------------------------------------------------ the property, on the translated function *)

(* the calls the translated Write makes: run over the logging operations *)
Theorem src_Write_calls (OS : fs_ops) w tr a dir :
  exists t,
    tw_Write (traced OS) (w, tr) (Some a) dir =
      Ok ((fst (write_ops OS dir (files a) w), tr ++ t), snd (write_ops OS dir (files a) w)) /\
    write_trace dir (files a) t.
Proof.
  rewrite src_Write_eq. destruct (write_ops_traced OS dir (files a) w tr) as [t [H W]].
  exists t. now rewrite H.
Qed.

(* logging changes nothing: the result over OS is the result over [traced OS] without the log *)
Theorem src_Write_traced_same (OS : fs_ops) w tr a dir w' tr' e :
  tw_Write (traced OS) (w, tr) (Some a) dir = Ok ((w', tr'), e) -> tw_Write OS w (Some a) dir = Ok (w', e).
Proof.
  destruct (src_Write_calls OS w tr a dir) as [t [H _]]. rewrite H. intros [= <- _ <-].
  rewrite src_Write_eq. now destruct (write_ops OS dir (files a) w).
Qed.

(* at every moment of a call of Write at most one descriptor is open, and none when it returns:
   for every archive, every behaviour of the operating system, on every path *)
Theorem src_Write_fd_bounded (OS : fs_ops) w a dir w' tr e :
  tw_Write (traced OS) (w, []) (Some a) dir = Ok ((w', tr), e) ->
  fds_after 0 tr = Some 0 /\
  forall t1 t2, tr = t1 ++ t2 -> exists n, fds_after 0 t1 = Some n /\ n <= 1.
Proof.
  destruct (src_Write_calls OS w [] a dir) as [t [H W]]. rewrite H. cbn [app]. intros [= _ <- _].
  exact (write_trace_fds OS dir (files a) t W).
Qed.

(* an entry whose cleaned name the guard rejects: the error, and no call at all -- whatever the
   operating system would have answered *)
Theorem src_Write_rejected_first (OS : fs_ops) w c n d rest dir :
  rejected the_guard (clean (from_slash n)) = true ->
  tw_Write OS w (Some {| comment := c; files := (n, d) :: rest |}) dir = Ok (w, outside_err n).
Proof.
  intros G. rewrite src_Write_eq. cbn [files write_ops]. unfold write_entry_ops. cbn [fst]. now rewrite G.
Qed.

Theorem src_Write_total (OS : fs_ops) w a dir : exists r, tw_Write OS w (Some a) dir = Ok r.
Proof. eexists. apply src_Write_eq. Qed.

(* C15's theorems restated on the translated function over the file-system model *)
Section OnModel.
Variable cwd : path.

Theorem src_Write_contained fs dir a fs' e :
  is_abs dir = true -> tw_Write (model_fs cwd) fs (Some a) dir = Ok (fs', e) ->
  forall p, get fs' p <> get fs p ->
    get fs p = None /\
    (within (resolve cwd dir) p \/ (get fs' p = Some Dir /\ within p (resolve cwd dir))).
Proof. intros A H. apply src_Write_model_inv in H. exact (write_contained cwd fs dir a fs' _ A H). Qed.

Theorem src_Write_never_overwrites fs dir a fs' e :
  tw_Write (model_fs cwd) fs (Some a) dir = Ok (fs', e) ->
  forall p x, get fs p = Some x -> get fs' p = Some x.
Proof. intros H. apply src_Write_model_inv in H. exact (never_overwrites cwd fs dir a fs' _ H). Qed.

Theorem src_Write_rejects fs dir a fs' :
  tw_Write (model_fs cwd) fs (Some a) dir = Ok (fs', WNil) ->
  forall n d, In (n, d) (files a) ->
    is_abs n = false /\ clean n <> dotdot /\ has_prefix dotdot_sep (clean n) = false.
Proof. intros H. apply src_Write_model_inv in H. exact (write_rejects cwd fs dir a fs' H). Qed.

Theorem src_Write_contents fs dir a fs' :
  tw_Write (model_fs cwd) fs (Some a) dir = Ok (fs', WNil) ->
  forall n d, In (n, d) (files a) -> get fs' (resolve cwd (join dir (clean n))) = Some (File d).
Proof. intros H. apply src_Write_model_inv in H. exact (write_contents cwd fs dir a fs' H). Qed.

Theorem src_Write_existing_is_error fs dir a fs' :
  tw_Write (model_fs cwd) fs (Some a) dir = Ok (fs', WNil) ->
  forall n d, In (n, d) (files a) -> get fs (resolve cwd (join dir (clean n))) = None.
Proof. intros H. apply src_Write_model_inv in H. exact (write_existing_is_error cwd fs dir a fs' H). Qed.

End OnModel.

(* Concrete, non-trivial values satisfying the hypotheses of the C15 theorems, and the
   defect that the regenerated guard constants protect against. *)
From Coq Require Import List Bool String.
From Coq.Strings Require Import Byte.
From GI Require Import Lib.Bytes Gen.TxtarWriteConsts Txtar.Txtar
  TxtarWrite.Path TxtarWrite.TxtarWrite TxtarWrite.PathFacts TxtarWrite.WriteFacts
  TxtarWrite.NulFacts TxtarWrite.RelFacts TxtarWrite.RelWrite TxtarWrite.GoodWrite TxtarWrite.SavedirFacts
  TxtarWrite.NameFacts.
Import ListNotations.

Definition B (x : string) : bytes := list_byte_of_string x.

(* a file system: /s/p/t (the target) holds a; /s/p holds the sibling sib *)
Definition ex_fs : fsys :=
  [([B "s"], Dir); ([B "s"; B "p"], Dir); ([B "s"; B "p"; B "t"], Dir);
   ([B "s"; B "p"; B "t"; B "a"], File (B "old")); ([B "s"; B "p"; B "sib"], File (B "sibling"))].
Definition ex_dir : bytes := B "/s/p/./t/".

Example ex_dir_abs : is_abs ex_dir = true.
Proof. reflexivity. Qed.

Example ex_dir_exists : dir_exists ex_fs (resolve [] ex_dir).
Proof.
  intros p [q E]. change (resolve [] ex_dir) with [B "s"; B "p"; B "t"] in E.
  destruct p as [|a [|b [|c [|d p]]]]; simpl in E; inversion E; subst; reflexivity.
Qed.

(* names that stay inside, names the guard must refuse, "." and a duplicate *)
Example ex_write_ok :
  write [] ex_fs ex_dir {| comment := []; files := [(B "x//y/../z", B "Z"); (B "./b", B "B")] |}
  = ((([B "s"; B "p"; B "t"; B "b"], File (B "B")) :: ([B "s"; B "p"; B "t"; B "b"], File []) ::
      ([B "s"; B "p"; B "t"; B "x"; B "z"], File (B "Z")) :: ([B "s"; B "p"; B "t"; B "x"; B "z"], File []) ::
      ([B "s"; B "p"; B "t"; B "x"], Dir) :: ex_fs), WOk).
Proof. vm_compute. reflexivity. Qed.

Example ex_write_refuses :
  map (fun n => snd (write [] ex_fs ex_dir {| comment := []; files := [(B n, B "X")] |}))
      [".."; "a/../.."; "../sib"; "/abs"; "."; ""; "a"; "a/b"]%string
  = [WOutside; WOutside; WOutside; WOutside; WErr OpOpen EEXIST; WErr OpOpen EEXIST;
     WErr OpOpen EEXIST; WErr OpMkdir ENOTDIR].
Proof. vm_compute. reflexivity. Qed.

(* relative directory strings, resolved against the current directory /s/p *)
Example ex_cwd_ok : Forall real [B "s"; B "p"] /\ dir_exists ex_fs [B "s"; B "p"].
Proof.
  split; [repeat constructor; repeat split; try discriminate;
          intros H; simpl in H; repeat (destruct H as [H|H]; [discriminate H|]); exact H|].
  intros p [q E]. destruct p as [|a [|b [|c p]]]; simpl in E; inversion E; subst; reflexivity.
Qed.

Example ex_write_relative :
  map (fun dn => snd (write [B "s"; B "p"] ex_fs (B (fst dn)) {| comment := []; files := [(B (snd dn), B "X")] |}))
      [("t", "n"); ("../p/./t", "n"); (".", "sib"); ("t", "../sib"); ("..", "p/sib"); ("", "t/a")]%string
  = [WOk; WOk; WErr OpOpen EEXIST; WOutside; WErr OpOpen EEXIST; WErr OpOpen EEXIST].
Proof. vm_compute. reflexivity. Qed.

(* The guard as it was before the repair (no test for ".." itself): with a target whose
   parent does not exist yet, the name ".." creates a regular file at the parent path. *)
Example old_guard_escapes :
  write_gen {| g_abs := true; g_exact := []; g_prefix := [dotdot_sep] |} the_flags
            [] [([B "s"], Dir)] (B "/s/p/t") [(B "..", B "DATA")]
  = ([([B "s"; B "p"], File (B "DATA")); ([B "s"; B "p"], File []); ([B "s"], Dir)], WOk).
Proof. vm_compute. reflexivity. Qed.

(* a tree for the round trip: a plain file without final newline, a nested file that
   contains a marker line (quoted with -quote, skipped without), a dot file *)
Definition ex_tree : tree :=
  [([B "b"], B "hello");
   ([B "sub"; B "z"], B "-- x --" ++ [NL] ++ B "more");
   ([B ".hid"], B "h" ++ [NL])].

Ltac solve_real :=
  repeat split; try discriminate;
  try (intros HIn; simpl in HIn; repeat (destruct HIn as [HIn|HIn]; [discriminate HIn|]); exact HIn).

Example ex_tree_ok : tree_ok ex_tree.
Proof.
  split; [|split].
  - repeat constructor; simpl; intros H; repeat (destruct H as [H|H]; [discriminate H|]); exact H.
  - intros p H. simpl in H.
    destruct H as [<-|[<-|[<-|[]]]]; (split; [discriminate|]); (split; [|split]);
      try reflexivity; repeat constructor; solve_real.
  - intros p q Hp Hq [r E]. simpl in Hp, Hq.
    destruct Hp as [<-|[<-|[<-|[]]]]; destruct Hq as [<-|[<-|[<-|[]]]];
      try reflexivity; simpl in E; inversion E.
Qed.

Definition ex_empty_fs : fsys := [([B "s"], Dir); ([B "s"; B "p"], Dir); ([B "s"; B "q"], File (B "other"))].

(* current directory /s, directory string "./p" *)
Example ex_round_trip_hyps :
  Forall real [B "s"] /\ Forall nul_free [B "s"] /\ has_nul (B "./p") = false /\
  dir_exists ex_empty_fs (resolve [B "s"] (B "./p")) /\
  (forall q, beneath (resolve [B "s"] (B "./p")) q -> get ex_empty_fs q = None).
Proof.
  change (resolve [B "s"] (B "./p")) with [B "s"; B "p"].
  split; [repeat constructor; solve_real|]. split; [repeat constructor; solve_real|].
  split; [reflexivity|]. split.
  - intros p [q E]. destruct p as [|a [|b [|c p]]]; simpl in E; inversion E; subst; reflexivity.
  - intros q [c [r ->]]. reflexivity.
Qed.

(* what the model computes for it, with -quote *)
Example ex_round_trip :
  let fl := {| f_quote := true; f_all := false |} in
  txtar_c fl ex_tree =
    B "unquote sub/z" ++ [NL] ++ B "-- b --" ++ [NL] ++ B "hello" ++ [NL] ++
    B "-- sub/z --" ++ [NL] ++ B ">-- x --" ++ [NL] ++ B ">more" ++ [NL]
  /\ snd (extract [] ex_empty_fs (B "/s/p") (txtar_c fl ex_tree)) = WOk
  /\ restored (comment (parse (txtar_c fl ex_tree))) (B "sub/z") (B ">-- x --" ++ [NL] ++ B ">more" ++ [NL])
     = Some (B "-- x --" ++ [NL] ++ B "more" ++ [NL]).
Proof. vm_compute. repeat split; reflexivity. Qed.

(* ------------------------------------------------------------------ outside tree_ok *)

(* `txtar-c /`: the names come out absolute and txtar-x refuses the archive *)
Example ex_root_dir_names :
  entry_name (clean (B "/")) [B "a"; B "b"] = B "/a/b" /\
  entry_name (clean (B "x/..")) [B "a"; B "b"] = B "a/b" /\
  snd (write [] [] (B "/s") {| comment := []; files := [(entry_name (clean (B "/")) [B "a"; B "b"], B "x")] |})
  = WOutside.
Proof. vm_compute. repeat split; reflexivity. Qed.

Definition ex_fl : sflags := {| f_quote := true; f_all := false |}.

(* a name with a leading space is not txtar-representable: the marker line is trimmed and
   the file comes back under another name *)
Example ex_leading_space_name :
  let t := [([B " a"], B "x" ++ [NL])] in
  wf_name (B " a") = false /\
  let r := extract [] ex_empty_fs (B "/s/p") (txtar_c ex_fl t) in
  snd r = WOk /\ get (fst r) [B "s"; B "p"; B " a"] = None /\
  get (fst r) [B "s"; B "p"; B "a"] = Some (File (B "x" ++ [NL])).
Proof. vm_compute. repeat split; reflexivity. Qed.

(* a name containing a newline breaks the marker line: another file appears *)
Example ex_newline_name :
  let n := B "x" ++ [NL] ++ B "-- y --" in
  let t := [([n], B "d" ++ [NL])] in
  wf_name n = false /\
  let r := extract [] ex_empty_fs (B "/s/p") (txtar_c ex_fl t) in
  snd r = WOk /\ get (fst r) [B "s"; B "p"; n] = None /\
  get (fst r) [B "s"; B "p"; B "y --"] = Some (File (B "d" ++ [NL])).
Proof. vm_compute. repeat split; reflexivity. Qed.

(* two names that differ by trailing white space collide: txtar-x fails on the second *)
Example ex_trailing_cr_name :
  let t := [([B "a" ++ [CR]], B "d" ++ [NL]); ([B "a"], B "e" ++ [NL])] in
  snd (extract [] ex_empty_fs (B "/s/p") (txtar_c ex_fl t)) = WErr OpOpen EEXIST.
Proof. vm_compute. reflexivity. Qed.

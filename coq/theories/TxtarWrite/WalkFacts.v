(* filepath.Walk on the archived directory as a tree ([rwalk], TxtarWrite.v) against the
   flat model ([savedir] on a list of files): the walk visits the regular files in the
   lexicographic order of their entry lists, skipping exactly the files that have a dot
   entry below the root, so txtar-c on the tree is [savedir] on the list of its files. *)
From Coq Require Import List Bool Arith Lia Permutation Sorted NArith.
From Coq.Strings Require Import Byte.
From GI Require Import Lib.Bytes Gen.TxtarWriteConsts Txtar.Txtar
  TxtarWrite.Path TxtarWrite.PathFacts TxtarWrite.TxtarWrite TxtarWrite.SortFacts.
Import ListNotations.

(* ------------------------------------------------------------------ lexicographic orders *)

Section Lex.
Context {A : Type}.
Variable cmp : A -> A -> comparison.

Fixpoint lex (a b : list A) : comparison :=
  match a, b with
  | [], [] => Eq
  | [], _ :: _ => Lt
  | _ :: _, [] => Gt
  | x :: a', y :: b' => match cmp x y with Eq => lex a' b' | c => c end
  end.

Hypothesis cmp_eq : forall x y, cmp x y = Eq -> x = y.
Hypothesis cmp_refl : forall x, cmp x x = Eq.
Hypothesis cmp_antisym : forall x y, cmp y x = CompOpp (cmp x y).
Hypothesis cmp_trans : forall x y z, cmp x y = Lt -> cmp y z = Lt -> cmp x z = Lt.

Lemma lex_eq a : forall b, lex a b = Eq -> a = b.
Proof.
  induction a as [|x a IH]; destruct b as [|y b]; simpl; intros H; try discriminate; auto.
  destruct (cmp x y) eqn:E; try discriminate. apply cmp_eq in E. subst. f_equal. auto.
Qed.

Lemma lex_refl a : lex a a = Eq.
Proof. induction a as [|x a IH]; simpl; auto. rewrite cmp_refl. auto. Qed.

Lemma lex_antisym a : forall b, lex b a = CompOpp (lex a b).
Proof.
  induction a as [|x a IH]; destruct b as [|y b]; simpl; auto.
  rewrite (cmp_antisym x y). destruct (cmp x y); simpl; auto.
Qed.

Lemma lex_trans a : forall b c, lex a b = Lt -> lex b c = Lt -> lex a c = Lt.
Proof.
  induction a as [|x a IH]; destruct b as [|y b]; destruct c as [|z c]; simpl; intros H1 H2;
    try discriminate; auto.
  destruct (cmp x y) eqn:E1; try discriminate.
  - apply cmp_eq in E1. subst y. destruct (cmp x z) eqn:E2; try discriminate; auto. eapply IH; eauto.
  - destruct (cmp y z) eqn:E2; try discriminate.
    + apply cmp_eq in E2. subst z. rewrite E1. reflexivity.
    + rewrite (cmp_trans _ _ _ E1 E2). reflexivity.
Qed.

Lemma lex_app_same p a b : lex (p ++ a) (p ++ b) = lex a b.
Proof. induction p as [|x p IH]; simpl; auto. rewrite cmp_refl. auto. Qed.
End Lex.

Definition cmpB (x y : byte) : comparison := N.compare (bN x) (bN y).

Lemma bN_inj x y : bN x = bN y -> x = y.
Proof.
  unfold bN. intros H. pose proof (Byte.of_to_N x) as Hx. pose proof (Byte.of_to_N y) as Hy.
  rewrite H in Hx. congruence.
Qed.

Lemma cmpB_eq x y : cmpB x y = Eq -> x = y.
Proof. unfold cmpB. intros H. apply N.compare_eq in H. apply bN_inj. auto. Qed.
Lemma cmpB_refl x : cmpB x x = Eq.
Proof. apply N.compare_refl. Qed.
Lemma cmpB_antisym x y : cmpB y x = CompOpp (cmpB x y).
Proof. apply N.compare_antisym. Qed.
Lemma cmpB_trans x y z : cmpB x y = Lt -> cmpB y z = Lt -> cmpB x z = Lt.
Proof. unfold cmpB. rewrite !N.compare_lt_iff. apply N.lt_trans. Qed.

Lemma bytes_cmp_lex a : forall b, bytes_cmp a b = lex cmpB a b.
Proof.
  induction a as [|x a IH]; destruct b as [|y b]; simpl; auto;
    try (unfold cmpB; destruct (N.compare (bN x) (bN y)); auto).
Qed.

Lemma bytes_cmp_eq a b : bytes_cmp a b = Eq -> a = b.
Proof. rewrite bytes_cmp_lex. apply lex_eq. apply cmpB_eq. Qed.
Lemma bytes_cmp_refl a : bytes_cmp a a = Eq.
Proof. rewrite bytes_cmp_lex. apply lex_refl. apply cmpB_refl. Qed.
Lemma bytes_cmp_antisym a b : bytes_cmp b a = CompOpp (bytes_cmp a b).
Proof. rewrite !bytes_cmp_lex. apply lex_antisym. apply cmpB_antisym. Qed.
Lemma bytes_cmp_trans a b c : bytes_cmp a b = Lt -> bytes_cmp b c = Lt -> bytes_cmp a c = Lt.
Proof.
  rewrite !bytes_cmp_lex. apply lex_trans; [apply cmpB_eq|apply cmpB_trans].
Qed.

Lemma path_cmp_lex a : forall b, path_cmp a b = lex bytes_cmp a b.
Proof.
  induction a as [|x a IH]; destruct b as [|y b]; simpl; auto;
    try (destruct (bytes_cmp x y); auto).
Qed.

Lemma path_cmp_eq a b : path_cmp a b = Eq -> a = b.
Proof. rewrite path_cmp_lex. apply lex_eq. apply bytes_cmp_eq. Qed.
Lemma path_cmp_antisym a b : path_cmp b a = CompOpp (path_cmp a b).
Proof. rewrite !path_cmp_lex. apply lex_antisym. apply bytes_cmp_antisym. Qed.
Lemma path_cmp_trans a b c : path_cmp a b = Lt -> path_cmp b c = Lt -> path_cmp a c = Lt.
Proof.
  rewrite !path_cmp_lex. apply lex_trans; [apply bytes_cmp_eq|apply bytes_cmp_trans].
Qed.
Lemma path_cmp_app_same p a b : path_cmp (p ++ a) (p ++ b) = path_cmp a b.
Proof. rewrite !path_cmp_lex. apply lex_app_same. apply bytes_cmp_refl. Qed.

(* ------------------------------------------------------------------ trees *)

Section RInd.
Variable P : rnode -> Prop.
Hypothesis HF : forall d, P (RFile d).
Hypothesis HD : forall es, Forall (fun e => P (snd e)) es -> P (RDir es).
Fixpoint rnode_ind' (nd : rnode) : P nd :=
  match nd with
  | RFile d => HF d
  | RDir es =>
      HD es ((fix go (es : list (bytes * rnode)) : Forall (fun e => P (snd e)) es :=
                match es with
                | [] => Forall_nil _
                | e :: r => Forall_cons e (rnode_ind' (snd e)) (go r)
                end) es)
  end.
End RInd.

(* names are distinct within every directory *)
Fixpoint rnode_ok (nd : rnode) : Prop :=
  match nd with
  | RFile _ => True
  | RDir es =>
      NoDup (map fst es) /\
      (fix all (es : list (bytes * rnode)) : Prop :=
         match es with [] => True | e :: r => rnode_ok (snd e) /\ all r end) es
  end.

Lemma rnode_ok_dir es :
  rnode_ok (RDir es) <-> NoDup (map fst es) /\ Forall (fun e => rnode_ok (snd e)) es.
Proof.
  simpl. split; intros [H1 H2]; split; auto.
  - induction es as [|e r IH]; constructor; [apply H2|]. apply IH; [inversion H1; auto|apply H2].
  - induction H2 as [|e r He Hr IH]; simpl; auto. split; auto. apply IH. inversion H1; auto.
Qed.

(* the files of the tree in no particular order *)
Fixpoint rflat (p : path) (nd : rnode) {struct nd} : list (path * bytes) :=
  match nd with
  | RFile d => [(p, d)]
  | RDir es => concat (map (fun e => rflat (p ++ [fst e]) (snd e)) es)
  end.

(* ------------------------------------------------------------------ lists of lists *)

Lemma concat_snd_perm {K B} (L L' : list (K * list B)) :
  Permutation L L' -> Permutation (concat (map snd L)) (concat (map snd L')).
Proof.
  induction 1; simpl; auto.
  - apply Permutation_app_head. auto.
  - rewrite !app_assoc. apply Permutation_app_tail. apply Permutation_app_comm.
  - eapply Permutation_trans; eauto.
Qed.

Lemma concat_map_perm {E B} (f g : E -> list B) es :
  (forall e, In e es -> Permutation (f e) (g e)) ->
  Permutation (concat (map f es)) (concat (map g es)).
Proof.
  induction es as [|e es IH]; intros H; simpl; auto.
  apply Permutation_app; [apply H; left; auto|apply IH; intros; apply H; right; auto].
Qed.

Lemma filter_concat {B} (f : B -> bool) ls : filter f (concat ls) = concat (map (filter f) ls).
Proof.
  induction ls as [|l ls IH]; simpl; auto. rewrite filter_app, IH. reflexivity.
Qed.

Lemma SS_app {B} (R : B -> B -> Prop) l1 l2 :
  StronglySorted R l1 -> StronglySorted R l2 ->
  (forall a b, In a l1 -> In b l2 -> R a b) -> StronglySorted R (l1 ++ l2).
Proof.
  induction l1 as [|x l1 IH]; intros H1 H2 H; simpl; auto.
  inversion H1 as [|? ? H1' HF]; subst. constructor.
  - apply IH; auto. intros a b Ha Hb. apply H; [right|]; auto.
  - apply Forall_app. split; auto. apply Forall_forall. intros b Hb. apply H; [left|]; auto.
Qed.

Lemma SS_concat {K B} (RK : K * list B -> K * list B -> Prop) (R : B -> B -> Prop) L :
  StronglySorted RK L ->
  (forall kv, In kv L -> StronglySorted R (snd kv)) ->
  (forall kv1 kv2, In kv1 L -> In kv2 L -> RK kv1 kv2 ->
     forall a b, In a (snd kv1) -> In b (snd kv2) -> R a b) ->
  StronglySorted R (concat (map snd L)).
Proof.
  induction L as [|kv L IH]; intros HS H1 H2; simpl; [constructor|].
  inversion HS as [|? ? HS' HF]; subst. apply SS_app.
  - apply H1. left. auto.
  - apply IH; auto.
    + intros kv' Hk. apply H1. right. auto.
    + intros kv1 kv2 Hk1 Hk2. apply H2; right; auto.
  - intros a b Ha Hb. apply in_concat in Hb. destruct Hb as [l [Hl Hb]].
    apply in_map_iff in Hl. destruct Hl as [kv2 [<- Hk2]].
    rewrite Forall_forall in HF. eapply (H2 kv kv2); eauto; [left; auto|right; auto].
Qed.

(* ------------------------------------------------------------------ the walk *)

Definition by_entry (f : bytes * rnode -> list (path * bytes)) (es : list (bytes * rnode)) :=
  sort_by bytes_cmp (map (fun e => (fst e, f e)) es).

Lemma by_entry_in f es kv : In kv (by_entry f es) -> exists e, In e es /\ kv = (fst e, f e).
Proof.
  intros H. eapply Permutation_in in H; [|apply sort_by_perm].
  apply in_map_iff in H. destruct H as [e [E He]]. exists e. auto.
Qed.

Lemma rfiles_dir p es :
  rfiles p (RDir es) = concat (map snd (by_entry (fun e => rfiles (p ++ [fst e]) (snd e)) es)).
Proof. reflexivity. Qed.

Lemma rwalk_dir fl p es :
  rwalk fl p (RDir es) =
  concat (map snd (by_entry (fun e => if skip_name fl (fst e) then [] else rwalk fl (p ++ [fst e]) (snd e)) es)).
Proof. reflexivity. Qed.

Lemma rfiles_prefix nd : forall p pd, In pd (rfiles p nd) -> exists q, fst pd = p ++ q.
Proof.
  induction nd as [d|es IH] using rnode_ind'; intros p pd H.
  - simpl in H. destruct H as [<-|[]]. exists []. simpl. rewrite app_nil_r. reflexivity.
  - rewrite rfiles_dir in H. apply in_concat in H. destruct H as [l [Hl H]].
    apply in_map_iff in Hl. destruct Hl as [kv [<- Hk]].
    apply by_entry_in in Hk. destruct Hk as [e [He ->]]. simpl in H.
    rewrite Forall_forall in IH. destruct (IH e He _ _ H) as [q Eq].
    exists (fst e :: q). rewrite Eq, <- app_assoc. reflexivity.
Qed.

Lemma rfiles_perm nd : forall p, Permutation (rflat p nd) (rfiles p nd).
Proof.
  induction nd as [d|es IH] using rnode_ind'; intros p; [apply Permutation_refl|].
  rewrite rfiles_dir. simpl rflat.
  eapply Permutation_trans;
    [|apply concat_snd_perm, Permutation_sym, sort_by_perm].
  rewrite map_map. simpl. apply concat_map_perm. intros e He.
  rewrite Forall_forall in IH. apply IH. auto.
Qed.

Definition plt (a b : path * bytes) : Prop := path_cmp (fst a) (fst b) = Lt.

Lemma rfiles_sorted nd : forall p, rnode_ok nd -> StronglySorted plt (rfiles p nd).
Proof.
  induction nd as [d|es IH] using rnode_ind'; intros p Hok; [repeat constructor|].
  apply rnode_ok_dir in Hok. destruct Hok as [HN HA].
  rewrite rfiles_dir. rewrite Forall_forall in IH, HA.
  apply (SS_concat (klt bytes_cmp) plt).
  - apply sort_by_sorted.
    + apply bytes_cmp_eq.
    + apply bytes_cmp_antisym.
    + apply bytes_cmp_trans.
    + rewrite map_map. simpl. exact HN.
  - intros kv Hk. apply by_entry_in in Hk. destruct Hk as [e [He ->]]. simpl. apply IH; auto.
  - intros kv1 kv2 Hk1 Hk2 HL a b Ha Hb.
    apply by_entry_in in Hk1. destruct Hk1 as [e1 [He1 ->]].
    apply by_entry_in in Hk2. destruct Hk2 as [e2 [He2 ->]].
    unfold klt in HL. simpl in HL, Ha, Hb.
    destruct (rfiles_prefix _ _ _ Ha) as [q1 E1]. destruct (rfiles_prefix _ _ _ Hb) as [q2 E2].
    unfold plt. rewrite E1, E2, <- !app_assoc, path_cmp_app_same. simpl. rewrite HL. reflexivity.
Qed.

(* what the dot test of the walk function amounts to on the list of files *)
Definition keep (fl : sflags) (k : nat) (pd : path * bytes) : bool :=
  negb (negb (f_all fl) && existsb (has_prefix savedir_dot_prefix) (skipn k (fst pd))).

Lemma skipn_app_exact {X} (a b : list X) : skipn (length a) (a ++ b) = b.
Proof. induction a; simpl; auto. Qed.

Lemma rwalk_filter fl nd : forall p, rwalk fl p nd = filter (keep fl (length p)) (rfiles p nd).
Proof.
  induction nd as [d|es IH] using rnode_ind'; intros p.
  - simpl. unfold keep. simpl fst. rewrite skipn_all. simpl.
    rewrite andb_false_r. reflexivity.
  - rewrite rwalk_dir, rfiles_dir, filter_concat. unfold by_entry.
    rewrite map_map.
    rewrite <- (map_map (fun kv : bytes * list (path * bytes) => (fst kv, filter (keep fl (length p)) (snd kv))) snd).
    rewrite (sort_by_map bytes_cmp (filter (keep fl (length p)))). rewrite map_map. simpl.
    f_equal. f_equal. f_equal. apply map_ext_in. intros e He. f_equal.
    rewrite Forall_forall in IH.
    destruct (skip_name fl (fst e)) eqn:ES.
    + (* a dot entry: every file below it is filtered out *)
      assert (HF : forall pd, In pd (rfiles (p ++ [fst e]) (snd e)) -> keep fl (length p) pd = false).
      { intros pd Hpd. destruct (rfiles_prefix _ _ _ Hpd) as [q Eq]. unfold keep. rewrite Eq, <- app_assoc.
        rewrite skipn_app_exact. cbn [app existsb]. unfold skip_name in ES. apply andb_true_iff in ES. destruct ES as [E1 E2].
        rewrite E1, E2. reflexivity. }
      induction (rfiles (p ++ [fst e]) (snd e)) as [|x l IHl]; [reflexivity|].
      simpl. rewrite HF by (left; auto). apply IHl. intros pd Hpd. apply HF. right. auto.
    + rewrite (IH e He). apply filter_ext_in. intros pd Hpd.
      destruct (rfiles_prefix _ _ _ Hpd) as [q Eq]. unfold keep. rewrite Eq.
      rewrite skipn_app_exact. rewrite <- app_assoc. rewrite skipn_app_exact. cbn [app existsb].
      unfold skip_name in ES. destruct (has_prefix savedir_dot_prefix (fst e)); cbn [andb orb] in *; [|reflexivity].
      rewrite ES. reflexivity.
Qed.

Lemma keep0 fl pd : keep fl 0 pd = negb (dot_skipped fl (fst pd)).
Proof. reflexivity. Qed.

Lemma filter_map_entry fl L :
  filter_map (savedir_entry fl) L = filter_map (file_entry fl) (filter (keep fl 0) L).
Proof.
  induction L as [|pd L IH]; [reflexivity|]. simpl. rewrite keep0. unfold savedir_entry at 1.
  destruct (dot_skipped fl (fst pd)); simpl; [exact IH|]. rewrite IH. reflexivity.
Qed.

(* txtar-c on the tree is the flat model on the list of the tree's files, in any order *)
Theorem savedir_tree_flat fl rt t :
  rnode_ok (RDir rt) -> Permutation t (rflat [] (RDir rt)) ->
  savedir_tree fl rt = savedir fl t.
Proof.
  intros Hok HP. unfold savedir_tree, savedir.
  assert (EW : walk_order t = rfiles [] (RDir rt)).
  { unfold walk_order. apply sort_by_of_perm.
    - apply path_cmp_eq.
    - apply path_cmp_antisym.
    - apply path_cmp_trans.
    - apply rfiles_sorted. exact Hok.
    - eapply Permutation_trans; [exact HP|apply rfiles_perm]. }
  rewrite EW. rewrite filter_map_entry. rewrite (rwalk_filter fl (RDir rt) []). reflexivity.
Qed.

(* and the files of a tree with distinct names per directory have distinct paths, in
   Walk's order *)
Theorem rwalk_order fl rt :
  rnode_ok (RDir rt) ->
  rwalk fl [] (RDir rt) = filter (fun pd => negb (dot_skipped fl (fst pd))) (walk_order (rflat [] (RDir rt))).
Proof.
  intros Hok. rewrite (rwalk_filter fl (RDir rt) []).
  assert (EW : walk_order (rflat [] (RDir rt)) = rfiles [] (RDir rt)).
  { unfold walk_order. apply sort_by_of_perm.
    - apply path_cmp_eq.
    - apply path_cmp_antisym.
    - apply path_cmp_trans.
    - apply rfiles_sorted. exact Hok.
    - apply rfiles_perm. }
  rewrite EW. reflexivity.
Qed.

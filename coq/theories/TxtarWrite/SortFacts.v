(* The insertion sort of the model: a permutation of its input; for a comparison that is a
   strict total order on keys and distinct keys, the strictly sorted one, which is unique. *)
From Coq Require Import List Bool Arith Lia Permutation Sorted.
From Coq.Strings Require Import Byte.
From GI Require Import Lib.Bytes TxtarWrite.Path TxtarWrite.TxtarWrite.
Import ListNotations.

Section Sort.
Context {K A : Type}.
Variable cmp : K -> K -> comparison.

Lemma insert_by_perm (x : K * A) l : Permutation (insert_by cmp x l) (x :: l).
Proof.
  induction l as [|y l IH]; simpl; [apply Permutation_refl|].
  destruct (cmp (fst x) (fst y)); try apply Permutation_refl.
  eapply Permutation_trans; [apply perm_skip; exact IH|apply perm_swap].
Qed.

Lemma sort_by_perm (l : list (K * A)) : Permutation (sort_by cmp l) l.
Proof.
  induction l as [|x l IH]; simpl; [constructor|].
  eapply Permutation_trans; [apply insert_by_perm|apply perm_skip; exact IH].
Qed.

(* the payload does not influence the order *)
Lemma insert_by_map {B} (f : A -> B) (x : K * A) l :
  map (fun kv => (fst kv, f (snd kv))) (insert_by cmp x l)
  = insert_by cmp (fst x, f (snd x)) (map (fun kv => (fst kv, f (snd kv))) l).
Proof.
  induction l as [|y l IH]; [reflexivity|]. simpl.
  destruct (cmp (fst x) (fst y)); simpl; try reflexivity. rewrite IH. reflexivity.
Qed.

Lemma sort_by_map {B} (f : A -> B) (l : list (K * A)) :
  map (fun kv => (fst kv, f (snd kv))) (sort_by cmp l)
  = sort_by cmp (map (fun kv => (fst kv, f (snd kv))) l).
Proof.
  induction l as [|x l IH]; [reflexivity|]. simpl. rewrite insert_by_map, IH. reflexivity.
Qed.

(* a strict total order on keys *)
Hypothesis cmp_eq : forall x y, cmp x y = Eq -> x = y.
Hypothesis cmp_antisym : forall x y, cmp y x = CompOpp (cmp x y).
Hypothesis cmp_trans : forall x y z, cmp x y = Lt -> cmp y z = Lt -> cmp x z = Lt.

Definition klt (a b : K * A) : Prop := cmp (fst a) (fst b) = Lt.

Lemma insert_by_sorted x l :
  StronglySorted klt l -> ~ In (fst x) (map fst l) -> StronglySorted klt (insert_by cmp x l).
Proof.
  induction l as [|y l IH]; intros HS HN; simpl; [repeat constructor|].
  inversion HS as [|? ? HS' HF]; subst.
  destruct (cmp (fst x) (fst y)) eqn:E.
  - exfalso. apply HN. left. symmetry. apply cmp_eq. exact E.
  - constructor; [exact HS|]. constructor; [exact E|].
    eapply Forall_impl; [|exact HF]. intros z Hz. unfold klt in *. eapply cmp_trans; eauto.
  - constructor.
    + apply IH; auto. intros HI. apply HN. right. exact HI.
    + eapply Permutation_Forall; [apply Permutation_sym, insert_by_perm|].
      constructor; [|exact HF]. unfold klt. rewrite cmp_antisym, E. reflexivity.
Qed.

Lemma sort_by_sorted (l : list (K * A)) : NoDup (map fst l) -> StronglySorted klt (sort_by cmp l).
Proof.
  induction l as [|x l IH]; intros HN; simpl; [constructor|]. inversion HN; subst.
  apply insert_by_sorted; auto. intros HI. apply H1.
  eapply Permutation_in; [apply Permutation_map, sort_by_perm|exact HI].
Qed.

Lemma klt_irrefl a : ~ klt a a.
Proof.
  unfold klt. intros H. pose proof (cmp_antisym (fst a) (fst a)) as HA. rewrite H in HA. discriminate.
Qed.

Lemma klt_asym a b : klt a b -> ~ klt b a.
Proof. unfold klt. intros H1 H2. rewrite cmp_antisym, H1 in H2. discriminate. Qed.

(* strictly sorted lists with the same elements are equal *)
Lemma sorted_perm_eq (l1 : list (K * A)) : forall l2,
  StronglySorted klt l1 -> StronglySorted klt l2 -> Permutation l1 l2 -> l1 = l2.
Proof.
  induction l1 as [|x l1 IH]; intros l2 H1 H2 HP.
  - apply Permutation_nil in HP. auto.
  - destruct l2 as [|y l2]; [apply Permutation_sym, Permutation_nil in HP; discriminate|].
    inversion H1 as [|? ? H1' F1]; subst. inversion H2 as [|? ? H2' F2]; subst.
    assert (x = y).
    { assert (Hx : In x (y :: l2)) by (eapply Permutation_in; [exact HP|left; auto]).
      assert (Hy : In y (x :: l1)) by (eapply Permutation_in; [apply Permutation_sym; exact HP|left; auto]).
      destruct Hx as [->|Hx]; [reflexivity|]. destruct Hy as [->|Hy]; [reflexivity|].
      rewrite Forall_forall in F1, F2. exfalso. eapply klt_asym; [apply F1; exact Hy|apply F2; exact Hx]. }
    subst y. f_equal. apply IH; auto. eapply Permutation_cons_inv; eauto.
Qed.

(* hence sorting any arrangement of a strictly sorted list gives it back *)
Lemma sort_by_of_perm (l s : list (K * A)) :
  StronglySorted klt s -> Permutation l s -> sort_by cmp l = s.
Proof.
  intros HS HP. apply sorted_perm_eq; auto.
  - apply sort_by_sorted. eapply Permutation_NoDup; [apply Permutation_map, Permutation_sym; exact HP|].
    clear HP. induction HS as [|a s HS IH HF]; simpl; constructor; auto.
    intros HI. apply in_map_iff in HI. destruct HI as [b [Eb Hb]].
    rewrite Forall_forall in HF. specialize (HF b Hb). unfold klt in HF. rewrite Eb in HF.
    pose proof (cmp_antisym (fst a) (fst a)) as HA. rewrite HF in HA. discriminate.
  - eapply Permutation_trans; [apply sort_by_perm|exact HP].
Qed.

End Sort.

Lemma walk_order_perm t : Permutation (walk_order t) t.
Proof. apply sort_by_perm. Qed.

(* Executable model of txtar.Write (txtar/archive.go), of cmd/txtar-c (savedir.go) and of
   cmd/txtar-x (extract.go), over a model of a Unix file system without symbolic links.
   Definitions only; proofs are in PathFacts.v, WriteFacts.v, SavedirFacts.v.

   Every literal of /repo the model depends on comes from Gen/TxtarWriteConsts.v
   (regenerated from the AST on every run): the rejection guard of Write, the open flags,
   the dot prefix and the "unquote " comment line of txtar-c. *)
From Coq Require Import List Bool Arith NArith.
From Coq.Strings Require Import Byte.
From GI Require Import Lib.Bytes Gen.TxtarWriteConsts Txtar.Txtar TxtarWrite.Path.
Import ListNotations.

(* ------------------------------------------------------------------ file system *)

Inductive node := File (data : bytes) | Dir.

(* association list, first binding wins; keys are resolved paths (entries from the root).
   ANY list is a file-system state: nothing is assumed about parents of bound paths. *)
Definition fsys := list (path * node).

Fixpoint path_eqb (a b : path) : bool :=
  match a, b with
  | [], [] => true
  | x :: a', y :: b' => bytes_eqb x y && path_eqb a' b'
  | _, _ => false
  end.

Fixpoint assoc (p : path) (fs : fsys) : option node :=
  match fs with
  | [] => None
  | (q, n) :: r => if path_eqb p q then Some n else assoc p r
  end.

(* the root directory always exists *)
Definition get (fs : fsys) (p : path) : option node :=
  match p with [] => Some Dir | _ => assoc p fs end.

Inductive errno := EEXIST | ENOENT | ENOTDIR | EISDIR | EINVAL.

(* the kernel's walk to the last entry of [pre ++ rest]: every proper prefix that is
   longer than [pre] must be a directory *)
Fixpoint walk_parents (fs : fsys) (pre rest : path) : option errno :=
  match rest with
  | [] => None
  | [_] => None
  | c :: rest' =>
      match get fs (pre ++ [c]) with
      | Some Dir => walk_parents fs (pre ++ [c]) rest'
      | Some (File _) => Some ENOTDIR
      | None => Some ENOENT
      end
  end.

Definition has_nul (s : bytes) : bool := mem_byte NUL s.

(* what every system call does with its path-name argument first *)
Definition lookup_path (cwd : path) (fs : fsys) (s : bytes) : errno + path :=
  if has_nul s then inl EINVAL
  else match s with
       | [] => inl ENOENT
       | _ => let P := resolve cwd s in
              match walk_parents fs [] P with
              | Some e => inl e
              | None => inr P
              end
       end.

(* stat(2) / lstat(2) (the same without symbolic links) *)
Definition os_stat (cwd : path) (fs : fsys) (s : bytes) : errno + node :=
  match lookup_path cwd fs s with
  | inl e => inl e
  | inr P => match get fs P with Some n => inr n | None => inl ENOENT end
  end.

(* mkdir(2) *)
Definition os_mkdir (cwd : path) (fs : fsys) (s : bytes) : fsys * option errno :=
  match lookup_path cwd fs s with
  | inl e => (fs, Some e)
  | inr P => match get fs P with
             | Some _ => (fs, Some EEXIST)
             | None => ((P, Dir) :: fs, None)
             end
  end.

Record oflags := { o_wronly : bool; o_create : bool; o_excl : bool; o_trunc : bool; o_append : bool }.

(* open(2) for writing: the file system afterwards and the opened file *)
Definition os_open (fl : oflags) (cwd : path) (fs : fsys) (s : bytes) : errno + (fsys * path) :=
  match lookup_path cwd fs s with
  | inl e => inl e
  | inr P =>
      match get fs P with
      | Some n =>
          if o_create fl && o_excl fl then inl EEXIST
          else match n with
               | Dir => inl EISDIR
               | File d => if o_trunc fl then inr ((P, File []) :: fs, P) else inr (fs, P)
               end
      | None => if o_create fl then inr ((P, File []) :: fs, P) else inl ENOENT
      end
  end.

(* one write(2) of the whole data on a freshly opened descriptor (offset 0, or the end
   of the file with O_APPEND), then close(2) *)
Definition os_write (fl : oflags) (fs : fsys) (P : path) (data : bytes) : fsys :=
  match get fs P with
  | Some (File old) =>
      (P, File (if o_append fl then old ++ data else data ++ skipn (length data) old)) :: fs
  | _ => fs
  end.

(* ------------------------------------------------------------------ os.MkdirAll *)

Inductive opname := OpMkdir | OpOpen.
Inductive wres := WOk | WOutside | WErr (op : opname) (e : errno) | WOutOfFuel.

Definition nonempty (s : bytes) : bool := match s with [] => false | _ => true end.

(* os.MkdirAll(path, perm): Stat; recurse on the parent string; Mkdir; on error Lstat.
   [fuel] bounds the recursion on ever shorter strings; length path + 1 is enough and
   WOutOfFuel is the explicit answer otherwise. *)
Fixpoint mkdir_all (fuel : nat) (cwd : path) (fs : fsys) (s : bytes) : fsys * wres :=
  match fuel with
  | 0 => (fs, WOutOfFuel)
  | S f =>
      match os_stat cwd fs s with
      | inr Dir => (fs, WOk)
      | inr (File _) => (fs, WErr OpMkdir ENOTDIR)
      | inl _ =>
          let par := parent_str s in
          let '(fs1, r1) := if nonempty par then mkdir_all f cwd fs par else (fs, WOk) in
          match r1 with
          | WOk =>
              match os_mkdir cwd fs1 s with
              | (fs2, None) => (fs2, WOk)
              | (fs2, Some e) =>
                  match os_stat cwd fs2 s with
                  | inr Dir => (fs2, WOk)
                  | _ => (fs2, WErr OpMkdir e)
                  end
              end
          | r => (fs1, r)
          end
      end
  end.

(* ------------------------------------------------------------------ txtar.Write *)

Record guard := { g_abs : bool; g_exact : list bytes; g_prefix : list bytes }.

(* isAbs(fp) || fp == e (for each e) || strings.HasPrefix(fp, p) (for each p) *)
Definition rejected (g : guard) (fp : bytes) : bool :=
  (g_abs g && is_abs fp)
  || existsb (bytes_eqb fp) (g_exact g)
  || existsb (fun p => has_prefix p fp) (g_prefix g).

(* the body of the loop of Write for one file *)
Definition write_one (g : guard) (fl : oflags) (cwd : path) (fs : fsys) (dir : bytes)
    (nd : bytes * bytes) : fsys * wres :=
  let fp := clean (from_slash (fst nd)) in
  if rejected g fp then (fs, WOutside)
  else
    let fp := join dir fp in
    let d := dir_of fp in
    match mkdir_all (S (length d)) cwd fs d with
    | (fs1, WOk) =>
        match os_open fl cwd fs1 fp with
        | inl e => (fs1, WErr OpOpen e)
        | inr (fs2, h) => (os_write fl fs2 h (snd nd), WOk)
        end
    | (fs1, r) => (fs1, r)
    end.

(* for _, f := range a.Files { ... return err ... }; return nil *)
Fixpoint write_gen (g : guard) (fl : oflags) (cwd : path) (fs : fsys) (dir : bytes)
    (files : list (bytes * bytes)) : fsys * wres :=
  match files with
  | [] => (fs, WOk)
  | nd :: rest =>
      match write_one g fl cwd fs dir nd with
      | (fs1, WOk) => write_gen g fl cwd fs1 dir rest
      | r => r
      end
  end.

(* the guard and the flags of the current source *)
Definition the_guard : guard :=
  {| g_abs := write_guard_abs; g_exact := write_guard_exact; g_prefix := write_guard_prefix |}.
Definition the_flags : oflags :=
  {| o_wronly := write_open_wronly; o_create := write_open_create; o_excl := write_open_excl;
     o_trunc := write_open_trunc; o_append := write_open_append |}.

Definition write (cwd : path) (fs : fsys) (dir : bytes) (a : archive) : fsys * wres :=
  write_gen the_guard the_flags cwd fs dir (files a).

(* the permission bits of an object Write creates: the perm argument of os.MkdirAll /
   os.OpenFile with the bits of the process's umask cleared (mkdir(2), open(2)) *)
Definition created_mode (umask : N) (n : node) : N :=
  N.ldiff (match n with Dir => write_dir_perm | File _ => write_file_perm end) umask.

(* ------------------------------------------------------------------ cmd/txtar-x *)

(* txtar-x -C dir: Parse, then Write.  (The "unquote NAME" lines that txtar-c -quote puts
   into the comment are testscript commands; txtar-x does not interpret them.) *)
Definition extract (cwd : path) (fs : fsys) (dir : bytes) (input : bytes) : fsys * wres :=
  write cwd fs dir (parse input).

(* ------------------------------------------------------------------ cmd/txtar-c *)

(* The archived directory, as the list of its regular files: (entries below the
   directory, contents).  filepath.Walk visits each directory's entries in byte order of
   their names, a directory before its contents; on the list of files that is the
   lexicographic order on entry lists with entries compared bytewise. *)
Definition tree := list (path * bytes).

Fixpoint bytes_cmp (a b : bytes) : comparison :=
  match a, b with
  | [], [] => Eq
  | [], _ :: _ => Lt
  | _ :: _, [] => Gt
  | x :: a', y :: b' =>
      match N.compare (bN x) (bN y) with
      | Eq => bytes_cmp a' b'
      | c => c
      end
  end.

Fixpoint path_cmp (a b : path) : comparison :=
  match a, b with
  | [], [] => Eq
  | [], _ :: _ => Lt
  | _ :: _, [] => Gt
  | x :: a', y :: b' =>
      match bytes_cmp x y with
      | Eq => path_cmp a' b'
      | c => c
      end
  end.

(* insertion sort on a key (slices.Sort of the directory's names; the order is total, and
   keys are distinct in the cases considered, so which sorting algorithm is irrelevant) *)
Fixpoint insert_by {K A} (cmp : K -> K -> comparison) (x : K * A) (l : list (K * A)) : list (K * A) :=
  match l with
  | [] => [x]
  | y :: r => match cmp (fst x) (fst y) with
              | Gt => y :: insert_by cmp x r
              | _ => x :: y :: r
              end
  end.
Definition sort_by {K A} (cmp : K -> K -> comparison) (l : list (K * A)) : list (K * A) :=
  fold_right (insert_by cmp) [] l.

Definition walk_order (t : tree) : tree := sort_by path_cmp t.

(* How txtar-c names an entry.  filepath.Walk(dir) hands the walk function
   Join(...Join(Join(dir, e1), e2)..., en) for the file with elements e1..en below dir
   (dir = Clean of the command-line argument), and txtar-c stores
   strings.TrimPrefix(path, dir+"/").  [savedir] below uses e1/.../en directly;
   NameFacts.v proves that this is what the code computes for every dir except "/". *)
Definition walk_path (d : bytes) (p : path) : bytes := fold_left join p d.
Definition trim_prefix (pre s : bytes) : bytes :=
  if has_prefix pre s then skipn (length pre) s else s.
Definition entry_name (d : bytes) (p : path) : bytes := trim_prefix (d ++ [SEP]) (walk_path d p).

Record sflags := { f_quote : bool; f_all : bool }.

(* strings.HasPrefix(name, ".") && !*allFlag for the entry itself or (SkipDir) for a
   directory above it *)
Definition dot_skipped (fl : sflags) (p : path) : bool :=
  negb (f_all fl) && existsb (has_prefix savedir_dot_prefix) p.

(* the walk function on one regular file that was not skipped for a dot name: None = not
   archived; otherwise the comment line it contributes (if quoted) and its archive entry *)
Definition file_entry (fl : sflags) (pd : path * bytes) : option (bytes * (bytes * bytes)) :=
  let '(p, d) := pd in
  if negb (utf8_valid d) then None
  else
    let d1 := fix_nl d in
    let name := join_sep p in
    if needs_quote d1 then
      if f_quote fl then
        match quote d1 with
        | None => None
        | Some q => Some (savedir_unquote_prefix ++ name ++ savedir_unquote_suffix, (to_slash name, q))
        end
      else None
    else Some ([], (to_slash name, d1)).

(* ... on any regular file of the tree *)
Definition savedir_entry (fl : sflags) (pd : path * bytes) : option (bytes * (bytes * bytes)) :=
  if dot_skipped fl (fst pd) then None else file_entry fl pd.

Fixpoint filter_map {A B} (f : A -> option B) (l : list A) : list B :=
  match l with
  | [] => []
  | x :: r => match f x with Some y => y :: filter_map f r | None => filter_map f r end
  end.

Definition savedir (fl : sflags) (t : tree) : archive :=
  let es := filter_map (savedir_entry fl) (walk_order t) in
  {| comment := concat (map fst es); files := map snd es |}.

(* the bytes txtar-c prints *)
Definition txtar_c (fl : sflags) (t : tree) : bytes := format (savedir fl t).

(* The archived directory as a tree, and filepath.Walk on it, literally: the entries of
   each directory are visited in byte order of their names (readDirNames sorts them); a
   regular file is handed to the walk function; for a directory the walk function is
   called first and then its entries are walked.  txtar-c's walk function answers SkipDir
   for a directory, and simply returns for a file, whose own name has the dot prefix
   (unless -a); the directory given on the command line is not tested.  [rwalk] returns
   the regular files the walk function goes on to read, in the order of the calls.
   (The sort is applied to the per-entry results, keyed by the entry's name, which is the
   same as visiting the entries in sorted order and lets the recursion be structural.) *)
Inductive rnode := RFile (d : bytes) | RDir (es : list (bytes * rnode)).
Definition rtree := list (bytes * rnode).

Definition skip_name (fl : sflags) (n : bytes) : bool :=
  has_prefix savedir_dot_prefix n && negb (f_all fl).

Fixpoint rwalk (fl : sflags) (p : path) (nd : rnode) {struct nd} : list (path * bytes) :=
  match nd with
  | RFile d => [(p, d)]
  | RDir es =>
      concat (map snd (sort_by bytes_cmp
        (map (fun e => (fst e, if skip_name fl (fst e) then [] else rwalk fl (p ++ [fst e]) (snd e))) es)))
  end.

(* the same walk with nothing skipped: all regular files of the tree, in Walk's order *)
Fixpoint rfiles (p : path) (nd : rnode) {struct nd} : list (path * bytes) :=
  match nd with
  | RFile d => [(p, d)]
  | RDir es =>
      concat (map snd (sort_by bytes_cmp (map (fun e => (fst e, rfiles (p ++ [fst e]) (snd e))) es)))
  end.

Definition savedir_tree (fl : sflags) (rt : rtree) : archive :=
  let es := filter_map (file_entry fl) (rwalk fl [] (RDir rt)) in
  {| comment := concat (map fst es); files := map snd es |}.

(* what the comment of such an archive asks for: the names on "unquote NAME" lines *)
Definition unquote_line (l : bytes) : option bytes :=
  if has_prefix savedir_unquote_prefix l && has_suffix savedir_unquote_suffix l
     && Nat.leb (length savedir_unquote_prefix + length savedir_unquote_suffix) (length l) then
    Some (firstn (length l - length savedir_unquote_prefix - length savedir_unquote_suffix)
                 (skipn (length savedir_unquote_prefix) l))
  else None.
Definition unquote_names (c : bytes) : list bytes := filter_map unquote_line (split_lines c).

(* the contents of the extracted file [name] after the comment's unquote lines have been
   obeyed (txtar.Unquote on the files they name); None = Unquote reports an error *)
Definition restored (c : bytes) (name stored : bytes) : option bytes :=
  if existsb (bytes_eqb name) (unquote_names c) then unquote stored else Some stored.

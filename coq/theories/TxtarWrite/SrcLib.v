(* The library calls of the pure part of txtar.Write for the translation Gen/TxtarWriteSrc.v
   (table: harness/cmd/genconsts/gen_txtarwrite_src.go).  Definitions only; each is DEFINED as
   the function the hand-written model already uses for the same call (TxtarWrite/Path.v, the
   path/filepath functions for Unix, Separator = '/'), which the runner of
   harness/cmd/txtarwrite compares with the Go library. *)
From Coq Require Import List.
From Coq.Strings Require Import Byte.
From GI Require Import Lib.Bytes Lib.GoSem TxtarWrite.Path.
Import ListNotations.

(* filepath.Clean(path) *)
Definition go_filepath_Clean (p : bytes) : bytes := clean p.

(* filepath.FromSlash(path) *)
Definition go_filepath_FromSlash (p : bytes) : bytes := from_slash p.

(* filepath.IsAbs(path) *)
Definition go_filepath_IsAbs (p : bytes) : bool := is_abs p.

(* filepath.Join(elem...): modelled for exactly two elements; any other use is outside the
   modelled domain *)
Definition go_filepath_Join (elems : list bytes) : res bytes :=
  match elems with
  | [a; b] => Ok (join a b)
  | _ => Panic
  end.

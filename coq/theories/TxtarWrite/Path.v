(* Executable model of Go's path/filepath for Unix (internal/filepathlite/path.go,
   path/filepath/path_unix.go of Go 1.23): Clean, Join (two arguments), Dir, IsAbs,
   FromSlash/ToSlash (identities on Unix), and the kernel's resolution of a path name
   against a current directory in a file system without symbolic links.
   Definitions only.

   Clean follows the lazybuf loop of filepathlite.Clean with the same state: the output
   written so far and the mark [dotdot] below which ".." may not backtrack, the flag
   [rooted], and the same four cases (empty element, ".", "..", real element).  The loop
   of the Go code advances byte by byte but decides per path element; the model runs
   the loop per element ([split_sep] = the elements between separators) and keeps the
   output as a stack of elements, so [dotdot] counts elements instead of bytes.  The tie
   to filepath.Clean/Join/Dir is the correspondence run (harness/cmd/txtarwrite,
   exhaustive over a separator/dot alphabet), not this comment. *)
From Coq Require Import List Bool Arith.
From Coq.Strings Require Import Byte.
From GI Require Import Lib.Bytes.
Import ListNotations.

Definition SEP : byte := x2f.   (* filepath.Separator on Unix *)
Definition DOT : byte := x2e.
Definition NUL : byte := x00.
Definition is_sep (b : byte) : bool := beq b SEP.

Definition dot : bytes := [DOT].
Definition dotdot : bytes := [DOT; DOT].

(* the elements between separators: strings.Split(p, "/") *)
Fixpoint split_sep (p : bytes) : list bytes :=
  match p with
  | [] => [[]]
  | b :: r =>
      if is_sep b then [] :: split_sep r
      else match split_sep r with
           | c :: cs => (b :: c) :: cs
           | [] => [[b]]
           end
  end.

(* strings.Join(cs, "/") *)
Fixpoint join_sep (cs : list bytes) : bytes :=
  match cs with
  | [] => []
  | [c] => c
  | c :: r => c ++ SEP :: join_sep r
  end.

(* one iteration of the loop of Clean on one element.  State: the elements written so
   far (last written first) and the mark dotdot. *)
Definition clean_step (rooted : bool) (st : list bytes * nat) (c : bytes) : list bytes * nat :=
  let '(out, dd) := st in
  if bytes_eqb c [] then st                    (* empty path element *)
  else if bytes_eqb c dot then st              (* . element *)
  else if bytes_eqb c dotdot then              (* .. element *)
    if Nat.ltb dd (length out) then (tl out, dd)           (* can backtrack *)
    else if rooted then st                                  (* "/.." = "/" *)
    else (dotdot :: out, S (length out))                    (* append "..", dotdot = out.w *)
  else (c :: out, dd).                         (* real path element *)

Definition clean_run (rooted : bool) (cs : list bytes) (st : list bytes * nat) : list bytes * nat :=
  fold_left (clean_step rooted) cs st.

(* out.string(), with "Turn empty string into ." *)
Definition render (rooted : bool) (cs : list bytes) : bytes :=
  if rooted then SEP :: join_sep cs
  else match cs with [] => dot | _ => join_sep cs end.

Definition is_abs (p : bytes) : bool :=
  match p with b :: _ => is_sep b | [] => false end.

(* filepath.Clean *)
Definition clean (p : bytes) : bytes :=
  match p with
  | [] => dot
  | _ => let rooted := is_abs p in
         render rooted (rev (fst (clean_run rooted (split_sep p) ([], 0))))
  end.

(* filepath.FromSlash / ToSlash: identities when Separator = '/' *)
Definition from_slash (p : bytes) : bytes := p.
Definition to_slash (p : bytes) : bytes := p.

(* filepath.Join(a, b): Clean of the elements from the first non-empty one on, joined by "/" *)
Definition join (a b : bytes) : bytes :=
  match a with
  | [] => match b with [] => [] | _ => clean b end
  | _ => clean (a ++ SEP :: b)
  end.

Fixpoint drop_while (f : byte -> bool) (l : bytes) : bytes :=
  match l with
  | [] => []
  | b :: r => if f b then drop_while f r else l
  end.

(* filepath.Dir: Clean(path[:i+1]) where i is the index of the last separator *)
Definition dir_of (p : bytes) : bytes :=
  clean (rev (drop_while (fun b => negb (is_sep b)) (rev p))).

(* the string os.MkdirAll recurses on: path[:i] after skipping trailing separators and
   the last element backwards; "" when there is no separator before the last element
   or that separator is the first byte *)
Definition parent_str (p : bytes) : bytes :=
  match drop_while (fun b => negb (is_sep b)) (drop_while is_sep (rev p)) with
  | [] => []
  | _ :: r => rev r
  end.

(* what a path name denotes: the list of directory entries from the root.  [cwd] is
   the (absolute, resolved) current directory.  Without symbolic links "." stays,
   ".." goes to the parent and stays at the root: the rooted run of the loop above. *)
Definition path := list bytes.

Definition resolve (cwd : path) (p : bytes) : path :=
  rev (fst (clean_run true (split_sep p) (if is_abs p then [] else rev cwd, 0))).

(* prefix orders on resolved paths *)
Fixpoint is_prefix (d p : path) : bool :=
  match d, p with
  | [], _ => true
  | x :: d', y :: p' => bytes_eqb x y && is_prefix d' p'
  | _ :: _, [] => false
  end.

(* The archive name txtar-c gives a file: strings.TrimPrefix(path, dir+"/") of the path
   filepath.Walk built with Join.  It is the file's elements joined by "/" for every
   directory argument except one that cleans to "/", where the names come out absolute
   (and txtar-x then refuses the archive). *)
From Coq Require Import List Bool Arith Lia.
From Coq.Strings Require Import Byte.
From GI Require Import Lib.Bytes TxtarWrite.Path TxtarWrite.PathFacts TxtarWrite.TxtarWrite
  TxtarWrite.RelFacts.
Import ListNotations.

Lemma beq_sym_local a b : beq a b = beq b a.
Proof.
  destruct (beq a b) eqn:E1; destruct (beq b a) eqn:E2; auto.
  - apply beq_eq in E1. subst. rewrite beq_refl in E2. discriminate.
  - apply beq_eq in E2. subst. rewrite beq_refl in E1. discriminate.
Qed.

Lemma run_false_shape W : shape W -> exists k, clean_run false W ([], 0) = (rev W, k).
Proof.
  intros [k [X [HX ->]]]. exists k. rewrite clean_run_app.
  pose proof (run_false_dotdots k 0) as E. simpl repeat in E. rewrite Nat.add_0_r in E. rewrite E.
  rewrite clean_run_reals by auto. rewrite rev_app_distr, rev_repeat. reflexivity.
Qed.

Lemma join_render_false W c : shape W -> real c -> join (render false W) c = render false (W ++ [c]).
Proof.
  intros HS Hc. pose proof (shape_elems _ HS) as HE.
  unfold join. destruct (render false W) as [|b t] eqn:ED;
    [exfalso; destruct W as [|w W]; [discriminate|eapply (join_sep_nonempty (w :: W)); eauto; discriminate]|].
  rewrite <- ED. unfold clean.
  destruct (render false W ++ SEP :: c) as [|x y] eqn:E0; [destruct (render false W); discriminate|].
  rewrite <- E0. rewrite is_abs_app_nonempty by (rewrite ED; discriminate).
  rewrite (is_abs_render_false W) by exact HE.
  rewrite split_sep_app, clean_run_app. rewrite (split_sep_sep_free c) by apply Hc.
  assert (ER : exists k, clean_run false (split_sep (render false W)) ([], 0) = (rev W, k)).
  { destruct W as [|w W]; [exists 0; reflexivity|].
    change (render false (w :: W)) with (join_sep (w :: W)).
    assert (HSf : Forall sep_free (w :: W)) by (eapply Forall_impl; [|exact HE]; apply elem_sep_free).
    rewrite split_sep_join_sep by (auto; discriminate).
    apply run_false_shape. auto. }
  destruct ER as [k ER]. rewrite ER. rewrite clean_run_cons, clean_step_real by auto.
  cbn [clean_run fold_left fst]. simpl rev. rewrite rev_involutive. reflexivity.
Qed.

Lemma join_render_true W c : Forall real W -> real c -> join (render true W) c = render true (W ++ [c]).
Proof.
  intros HW Hc. change c with (render false [c]).
  rewrite (join_abs [] (render true W) [c]) by (auto; reflexivity).
  rewrite resolve_render_true by auto. reflexivity.
Qed.

Definition base_ok (a : bool) (W : list bytes) : Prop := if a then Forall real W else shape W.

Lemma base_ok_snoc a W c : base_ok a W -> real c -> base_ok a (W ++ [c]).
Proof.
  destruct a; simpl; intros H Hc.
  - apply Forall_app. auto.
  - destruct H as [k [X [HX ->]]]. exists k, (X ++ [c]). split; [apply Forall_app; auto|].
    rewrite app_assoc. reflexivity.
Qed.

Lemma walk_path_render a p : forall W,
  base_ok a W -> Forall real p -> walk_path (render a W) p = render a (W ++ p).
Proof.
  induction p as [|c p IH]; intros W HW Hp; [rewrite app_nil_r; reflexivity|].
  inversion Hp; subst. unfold walk_path in *. simpl fold_left.
  assert (EJ : join (render a W) c = render a (W ++ [c])).
  { destruct a; [apply join_render_true|apply join_render_false]; auto. }
  rewrite EJ. rewrite IH by (auto; apply base_ok_snoc; auto).
  rewrite <- app_assoc. reflexivity.
Qed.

Lemma join_sep_app W p : W <> [] -> p <> [] -> join_sep (W ++ p) = join_sep W ++ SEP :: join_sep p.
Proof.
  intros HW Hp. induction W as [|w W IH]; [contradiction|].
  destruct W as [|w' W].
  - simpl app. destruct p as [|c p]; [contradiction|]. reflexivity.
  - change (join_sep ((w :: w' :: W) ++ p)) with (w ++ SEP :: join_sep ((w' :: W) ++ p)).
    rewrite IH by discriminate.
    change (join_sep (w :: w' :: W)) with (w ++ SEP :: join_sep (w' :: W)).
    rewrite <- app_assoc. reflexivity.
Qed.

Lemma trim_prefix_app x y : trim_prefix x (x ++ y) = y.
Proof.
  unfold trim_prefix. rewrite has_prefix_app.
  induction x as [|b x IH]; [reflexivity|]. simpl. exact IH.
Qed.

Lemma real_head c : real c -> exists b t, c = b :: t /\ is_sep b = false.
Proof.
  intros [H1 [_ [_ H4]]]. destruct c as [|b t]; [contradiction|]. exists b, t. split; auto.
  apply sep_free_cons in H4. apply H4.
Qed.

Lemma join_sep_head c p : real c -> exists b t, join_sep (c :: p) = b :: t /\ is_sep b = false.
Proof.
  intros Hc. destruct (real_head c Hc) as [b [t [-> Hb]]].
  destruct p as [|d p]; [exists b, t; auto|].
  rewrite join_sep_cons by discriminate. exists b, (t ++ render' (d :: p)). auto.
Qed.

(* a real element followed by anything does not begin with "./" *)
Lemma real_no_dot_sep c t : real c -> has_prefix [DOT; SEP] (c ++ t) = false.
Proof.
  intros [H1 [H2 [_ H4]]]. destruct c as [|x c]; [contradiction|]. simpl.
  destruct (beq DOT x) eqn:Ex; [|reflexivity]. apply beq_eq in Ex. subst x. simpl.
  destruct c as [|y c]; [exfalso; apply H2; reflexivity|]. simpl.
  destruct (beq SEP y) eqn:Ey; [|reflexivity]. apply beq_eq in Ey. subst y.
  exfalso. apply H4. simpl. auto.
Qed.

Theorem entry_name_spec d0 p :
  p <> [] -> Forall real p ->
  entry_name (clean d0) p = if bytes_eqb (clean d0) [SEP] then SEP :: join_sep p else join_sep p.
Proof.
  intros Hne Hp. destruct (clean_shape d0) as [k [R [HR [H0 E]]]].
  destruct p as [|c p']; [contradiction|]. pose proof (Forall_inv Hp) as Hc.
  unfold entry_name. rewrite E.
  destruct (is_abs d0) eqn:Ea.
  - rewrite (H0 eq_refl). simpl app.
    rewrite (walk_path_render true (c :: p') R) by (simpl; auto).
    destruct R as [|r R].
    + (* the root *) simpl app. simpl bytes_eqb.
      change (render true []) with [SEP]. change (render true (c :: p')) with (SEP :: join_sep (c :: p')).
      unfold trim_prefix. simpl app.
      destruct (join_sep_head c p' Hc) as [b [t [EJ Hb]]]. rewrite EJ. simpl.
      unfold is_sep in Hb. rewrite (beq_sym_local SEP b), Hb. reflexivity.
    + assert (EB : bytes_eqb (render true (r :: R)) [SEP] = false).
      { rewrite render_true by discriminate. pose proof (Forall_inv HR) as Hr.
        destruct (real_head r Hr) as [b [t [-> _]]]. reflexivity. }
      rewrite EB. rewrite !render_true by (try discriminate; destruct R; discriminate).
      rewrite render'_app.
      assert (EP : render' (c :: p') = SEP :: join_sep (c :: p')).
      { rewrite <- render_true by discriminate. reflexivity. }
      rewrite EP. change (render' (r :: R) ++ SEP :: join_sep (c :: p'))
        with (render' (r :: R) ++ [SEP] ++ join_sep (c :: p')).
      assert (EE : SEP :: join_sep (r :: R) = render' (r :: R))
        by (rewrite <- render_true by discriminate; reflexivity).
      change (SEP :: join_sep (r :: R) ++ [SEP]) with ((SEP :: join_sep (r :: R)) ++ [SEP]).
      rewrite EE. rewrite app_assoc. apply trim_prefix_app.
  - set (W := repeat dotdot k ++ R) in *.
    assert (HW : shape W) by (exists k, R; auto).
    rewrite (walk_path_render false (c :: p') W) by (simpl; auto).
    destruct W as [|w W'] eqn:EW.
    + simpl app. change (render false []) with dot. simpl bytes_eqb.
      change (render false (c :: p')) with (join_sep (c :: p')).
      unfold trim_prefix. change (dot ++ [SEP]) with [DOT; SEP].
      assert (has_prefix [DOT; SEP] (join_sep (c :: p')) = false).
      { destruct p' as [|d p']; [rewrite <- (app_nil_r c); apply real_no_dot_sep; auto|].
        rewrite join_sep_cons by discriminate. apply real_no_dot_sep; auto. }
      rewrite H. reflexivity.
    + assert (EB : bytes_eqb (render false (w :: W')) [SEP] = false).
      { pose proof (is_abs_render_false (w :: W') (shape_elems _ HW)) as HA.
        destruct (render false (w :: W')) as [|b t] eqn:ER; [reflexivity|]. simpl in HA.
        simpl. unfold is_sep in HA. rewrite HA. reflexivity. }
      rewrite EB.
      change (render false (w :: W')) with (join_sep (w :: W')).
      change (render false ((w :: W') ++ c :: p')) with (join_sep ((w :: W') ++ c :: p')).
      rewrite join_sep_app by discriminate.
      change (join_sep (w :: W') ++ SEP :: join_sep (c :: p'))
        with (join_sep (w :: W') ++ [SEP] ++ join_sep (c :: p')).
      rewrite app_assoc. apply trim_prefix_app.
Qed.

(* os.MkdirAll's recursion is on ever shorter strings: the fuel the model gives it
   (length of the string + 1) is never exhausted, so WOutOfFuel is not a possible result
   of mkdir_all, write_one, write_gen, write or extract. *)
From Coq Require Import List Bool Arith Lia.
From Coq.Strings Require Import Byte.
From GI Require Import Lib.Bytes Txtar.Txtar TxtarWrite.Path TxtarWrite.TxtarWrite.
Import ListNotations.

Lemma drop_while_length f l : length (drop_while f l) <= length l.
Proof. induction l as [|b l IH]; simpl; [lia|]. destruct (f b); simpl; lia. Qed.

Lemma parent_str_shorter s : nonempty (parent_str s) = true -> length (parent_str s) < length s.
Proof.
  unfold parent_str.
  pose proof (drop_while_length (fun b => negb (is_sep b)) (drop_while is_sep (rev s))) as H1.
  pose proof (drop_while_length is_sep (rev s)) as H2. rewrite rev_length in H2.
  destruct (drop_while (fun b => negb (is_sep b)) (drop_while is_sep (rev s))) as [|x r].
  - discriminate.
  - intros _. rewrite rev_length. simpl in H1. lia.
Qed.

Lemma mkdir_all_fuel cwd : forall f fs s, length s < f -> snd (mkdir_all f cwd fs s) <> WOutOfFuel.
Proof.
  induction f as [|f IH]; intros fs s Hl; [lia|].
  cbn [mkdir_all].
  destruct (os_stat cwd fs s) as [e|[d|]]; cbn [snd]; try discriminate.
  destruct (nonempty (parent_str s)) eqn:EN.
  - pose proof (parent_str_shorter s EN) as Hs.
    specialize (IH fs (parent_str s) ltac:(lia)).
    destruct (mkdir_all f cwd fs (parent_str s)) as [fs1 r1]. cbn [snd] in IH.
    destruct r1; cbn [snd]; try discriminate; try contradiction.
    destruct (os_mkdir cwd fs1 s) as [fs2 [e2|]]; cbn [snd]; try discriminate.
    destruct (os_stat cwd fs2 s) as [?|[?|]]; cbn [snd]; discriminate.
  - destruct (os_mkdir cwd fs s) as [fs2 [e2|]]; cbn [snd]; try discriminate.
    destruct (os_stat cwd fs2 s) as [?|[?|]]; cbn [snd]; discriminate.
Qed.

Lemma write_one_fuel g fl cwd fs dir nd : snd (write_one g fl cwd fs dir nd) <> WOutOfFuel.
Proof.
  unfold write_one. destruct (rejected g (clean (from_slash (fst nd)))); [discriminate|].
  match goal with |- context [mkdir_all ?f cwd fs ?s] =>
    pose proof (mkdir_all_fuel cwd f fs s ltac:(lia)) as H;
    destruct (mkdir_all f cwd fs s) as [fs1 r1] end.
  cbn [snd] in H. destruct r1; cbn [snd]; try discriminate; try contradiction.
  match goal with |- context [os_open fl cwd fs1 ?s] => destruct (os_open fl cwd fs1 s) as [e|[fs2 h]] end;
    cbn [snd]; discriminate.
Qed.

Lemma write_gen_fuel g fl cwd dir files : forall fs, snd (write_gen g fl cwd fs dir files) <> WOutOfFuel.
Proof.
  induction files as [|nd rest IH]; intros fs; [discriminate|].
  cbn [write_gen]. pose proof (write_one_fuel g fl cwd fs dir nd) as H.
  destruct (write_one g fl cwd fs dir nd) as [fs1 r1]. cbn [snd] in H.
  destruct r1; try exact H; try discriminate. apply IH.
Qed.

Theorem write_never_out_of_fuel cwd fs dir a : snd (write cwd fs dir a) <> WOutOfFuel.
Proof. apply write_gen_fuel. Qed.

Theorem extract_never_out_of_fuel cwd fs dir input : snd (extract cwd fs dir input) <> WOutOfFuel.
Proof. apply write_never_out_of_fuel. Qed.

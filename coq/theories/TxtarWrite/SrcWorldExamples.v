(* Concrete, non-trivial values satisfying the hypotheses of the theorems about the TRANSLATED
   txtar.Write and txtar-c walk function (SrcWorldFacts.v, SrcWalkFacts.v), and what the
   translated functions compute on them. *)
From Coq Require Import List Bool String ZArith Sorted.
From Coq.Strings Require Import Byte.
From GI Require Import Lib.Bytes Lib.GoSem Lib.GoSemWorld Gen.TxtarWriteConsts Txtar.Txtar
  TxtarWrite.Path TxtarWrite.TxtarWrite TxtarWrite.PathFacts TxtarWrite.WriteFacts
  TxtarWrite.NulFacts TxtarWrite.RelFacts TxtarWrite.GoodWrite TxtarWrite.SortFacts TxtarWrite.WalkFacts
  TxtarWrite.SavedirFacts TxtarWrite.Cli TxtarWrite.SrcLib TxtarWrite.SrcWorld Gen.TxtarWriteWorldSrc
  TxtarWrite.SrcWorldFacts TxtarWrite.SrcWalk TxtarWrite.SrcWalkFacts.
Import ListNotations.

Definition B (x : string) : bytes := list_byte_of_string x.

(* ------------------------------------------------------------------ Write: the calls it makes *)

(* /t exists and holds a; the archive: a new file in a new subdirectory, then the existing a *)
Definition ex_fs : fsys := [([B "t"], Dir); ([B "t"; B "a"], File (B "old"))].
Definition ex_arch : archive := {| comment := []; files := [(B "sub/n", B "new"); (B "a", B "again"); (B "never", B "x")] |}.

(* over the logging operations: MkdirAll, OpenFile, Write, Close for the first entry, MkdirAll and
   the refused exclusive create for the second, nothing for the third; no descriptor left open *)
Example ex_src_write_calls :
  match tw_Write (traced (model_fs [])) (ex_fs, []) (Some ex_arch) (B "/t") with
  | Ok ((fs', tr), e) =>
      dec_werr e = WErr OpOpen EEXIST /\
      get fs' [B "t"; B "sub"; B "n"] = Some (File (B "new")) /\
      get fs' [B "t"; B "a"] = Some (File (B "old")) /\ get fs' [B "t"; B "never"] = None /\
      map (fun ev => match ev with
                     | EMkdirAll p perm _ => (B "mkdirall", p, perm)
                     | EOpenFile p flag _ _ _ => (B "openfile", p, flag)
                     | EWrite _ d n _ => (B "write", d, n)
                     | EClose _ _ => (B "close", [], 0%Z)
                     | EReadFile p _ _ => (B "readfile", p, 0%Z)
                     end) tr =
        [(B "mkdirall", B "/t/sub", 511%Z); (B "openfile", B "/t/sub/n", 193%Z); (B "write", B "new", 3%Z);
         (B "close", [], 0%Z); (B "mkdirall", B "/t", 511%Z); (B "openfile", B "/t/a", 193%Z)] /\
      fds_after 0 tr = Some 0
  | _ => False
  end.
Proof. vm_compute. repeat split; reflexivity. Qed.

(* an entry that climbs out: the error, and not a single call *)
Example ex_src_write_outside :
  tw_Write (traced (model_fs [])) (ex_fs, []) (Some {| comment := []; files := [(B "x/../../y", B "d")] |}) (B "/t")
  = Ok ((ex_fs, []), outside_err (B "x/../../y")).
Proof. vm_compute. reflexivity. Qed.

Example ex_src_write_nil : tw_Write (model_fs []) ex_fs None (B "/t") = Panic.
Proof. reflexivity. Qed.

(* ------------------------------------------------------------------ the round trip *)

(* the tree of TxtarWrite/Examples.v as a rose tree in Walk's order (".hid" < "b" < "sub"): a dot
   file, a plain file without final newline, a nested file containing a marker line *)
Definition ex_rt : rtree :=
  [(B ".hid", RFile (B "h" ++ [NL]));
   (B "b", RFile (B "hello"));
   (B "sub", RDir [(B "z", RFile (B "-- x --" ++ [NL] ++ B "more"))])].

(* the file system txtar-c reads from: the tree at /d *)
Definition ex_fsc : fsys :=
  [([B "d"], Dir); ([B "d"; B ".hid"], File (B "h" ++ [NL])); ([B "d"; B "b"], File (B "hello"));
   ([B "d"; B "sub"], Dir); ([B "d"; B "sub"; B "z"], File (B "-- x --" ++ [NL] ++ B "more"))].

Ltac solve_real :=
  repeat split; try discriminate;
  try (intros HIn; simpl in HIn; repeat (destruct HIn as [HIn|HIn]; [discriminate HIn|]); exact HIn).

Example ex_rt_walkable : rnode_walkable (RDir ex_rt).
Proof.
  apply rnode_walkable_dir. split; [split|].
  - repeat constructor.
  - repeat constructor; solve_real.
  - constructor; [exact I|]. constructor; [exact I|]. constructor; [|constructor].
    apply rnode_walkable_dir. split; [split|].
    + repeat constructor.
    + repeat constructor; solve_real.
    + constructor; [exact I|constructor].
Qed.

Example ex_rt_readable : readable [] (B "/d") ex_fsc [] (RDir ex_rt).
Proof.
  intros q d H. vm_compute in H.
  destruct H as [H|[H|[H|[]]]]; injection H as <- <-; reflexivity.
Qed.

Example ex_rt_tree_ok : tree_ok (rflat [] (RDir ex_rt)).
Proof.
  change (rflat [] (RDir ex_rt)) with
    [([B ".hid"], B "h" ++ [NL]); ([B "b"], B "hello"); ([B "sub"; B "z"], B "-- x --" ++ [NL] ++ B "more")].
  split; [|split].
  - repeat constructor; simpl; intros H; repeat (destruct H as [H|H]; [discriminate H|]); exact H.
  - intros p H. simpl in H.
    destruct H as [<-|[<-|[<-|[]]]]; (split; [discriminate|]); (split; [|split]);
      try reflexivity; repeat constructor; solve_real.
  - intros p q Hp Hq [r E]. simpl in Hp, Hq.
    destruct Hp as [<-|[<-|[<-|[]]]]; destruct Hq as [<-|[<-|[<-|[]]]];
      try reflexivity; simpl in E; inversion E.
Qed.

Definition ex_empty_fs : fsys := [([B "s"], Dir); ([B "s"; B "p"], Dir); ([B "s"; B "q"], File (B "other"))].

(* what the translated functions compute, with -quote: the translated walk function under Walk
   builds the archive the model's txtar-c prints; the translated Write extracts it *)
Example ex_src_round_trip :
  let fl := {| f_quote := true; f_all := false |} in
  match src_savedir_walk [] fl ex_fsc (clean (B "/d")) ex_rt with
  | Ok ((_, Some a), WNil) =>
      format a =
        B "unquote sub/z" ++ [NL] ++ B "-- b --" ++ [NL] ++ B "hello" ++ [NL] ++
        B "-- sub/z --" ++ [NL] ++ B ">-- x --" ++ [NL] ++ B ">more" ++ [NL]
      /\ match tw_Write (model_fs []) ex_empty_fs (go_txtar_Parse (format a)) (B "/s/p") with
         | Ok (fs', WNil) =>
             get fs' [B "s"; B "p"; B "b"] = Some (File (B "hello" ++ [NL])) /\
             get fs' [B "s"; B "p"; B "sub"; B "z"] = Some (File (B ">-- x --" ++ [NL] ++ B ">more" ++ [NL])) /\
             get fs' [B "s"; B "q"] = Some (File (B "other"))
         | _ => False
         end
  | _ => False
  end.
Proof. vm_compute. repeat split; reflexivity. Qed.

(* Write succeeds on "good" names: a set of distinct, prefix-free relative paths made of
   real, NUL-free elements, written into a directory that exists and holds nothing.
   This is the file-system half of the txtar-c / txtar-x round trip (SavedirFacts.v). *)
From Coq Require Import List Bool Arith Lia Permutation.
From Coq.Strings Require Import Byte.
From GI Require Import Lib.Bytes Txtar.Txtar
  TxtarWrite.Path TxtarWrite.TxtarWrite TxtarWrite.PathFacts TxtarWrite.WriteFacts.
Import ListNotations.

Definition nul_free (c : bytes) : Prop := ~ In NUL c.
Definition proper (p q : path) : Prop := within p q /\ p <> q.

(* ------------------------------------------------------------------ small facts *)

Lemma mem_byte_not_in b c : ~ In b c -> mem_byte b c = false.
Proof.
  unfold mem_byte. induction c as [|x c IH]; intros H; simpl; auto.
  rewrite IH by (intros HI; apply H; right; auto).
  destruct (beq b x) eqn:E; auto. apply beq_eq in E. exfalso. apply H. left. auto.
Qed.

Lemma mem_byte_app b x y : mem_byte b (x ++ y) = mem_byte b x || mem_byte b y.
Proof. unfold mem_byte. apply existsb_app. Qed.

Lemma has_nul_render' P : Forall nul_free P -> has_nul (render' P) = false.
Proof.
  induction P as [|c P IH]; intros H; [reflexivity|]. inversion H; subst.
  unfold has_nul in *. change (render' (c :: P)) with ((SEP :: c) ++ render' P).
  rewrite mem_byte_app, IH by auto. rewrite orb_false_r.
  change (SEP :: c) with ([SEP] ++ c). rewrite mem_byte_app, (mem_byte_not_in NUL c) by auto.
  reflexivity.
Qed.

Lemma has_nul_render_true P : Forall nul_free P -> has_nul (render true P) = false.
Proof.
  intros H. destruct P as [|c P]; [reflexivity|].
  rewrite render_true by discriminate. apply has_nul_render'. auto.
Qed.

Lemma within_length p q : within p q -> length p <= length q.
Proof. intros [r ->]. rewrite app_length. lia. Qed.

Lemma within_trans p q r : within p q -> within q r -> within p r.
Proof. intros [a ->] [b ->]. exists (a ++ b). rewrite app_assoc. reflexivity. Qed.

Lemma within_antisym p q : within p q -> within q p -> p = q.
Proof.
  intros [a Ha] [b Hb]. subst q. rewrite <- app_assoc in Hb.
  rewrite <- (app_nil_r p) in Hb at 1. apply app_inv_head in Hb.
  symmetry in Hb. apply app_eq_nil in Hb. destruct Hb as [-> _]. rewrite app_nil_r. reflexivity.
Qed.

Lemma within_snoc k Q c : within k (Q ++ [c]) -> k = Q ++ [c] \/ within k Q.
Proof.
  intros [r E]. destruct (snoc_cases r) as [->|[r' [x ->]]].
  - left. rewrite app_nil_r in E. auto.
  - right. rewrite app_assoc in E. apply app_inj_tail in E. destruct E as [E _]. exists r'. auto.
Qed.

Lemma proper_snoc k Q c : proper k (Q ++ [c]) -> within k Q.
Proof. intros [H N]. destruct (within_snoc _ _ _ H); [contradiction|auto]. Qed.

Lemma proper_trans k q p : proper k q -> within q p -> proper k p.
Proof.
  intros [H N] Hq. split; [eapply within_trans; eauto|].
  intros E. subst k. apply N. apply within_antisym; auto.
Qed.

Lemma within_nil p : within p [] -> p = [].
Proof. intros [r E]. symmetry in E. apply app_eq_nil in E. apply E. Qed.

Lemma within_app_inv D p q : within (D ++ p) (D ++ q) -> within p q.
Proof. intros [r E]. rewrite <- app_assoc in E. apply app_inv_head in E. exists r. auto. Qed.

(* a prefix of D ++ p is a prefix of D or lies beneath D *)
Lemma within_split q D p : within q (D ++ p) -> within q D \/ beneath D q.
Proof.
  intros H. destruct (within_app_cases _ _ _ H) as [H1|[r E]]; auto.
  destruct r as [|c r]; [left; rewrite app_nil_r in E; subst; apply within_refl|].
  right. exists c, r. auto.
Qed.

Lemma length_render' P : Forall real P -> length P <= length (render' P).
Proof.
  induction P as [|c P IH]; intros H; [simpl; lia|]. inversion H; subst.
  change (render' (c :: P)) with (SEP :: c ++ render' P). simpl. rewrite app_length.
  specialize (IH H3). lia.
Qed.

Lemma length_render_true P : Forall real P -> length P <= length (render true P).
Proof.
  intros H. destruct P as [|c P]; [simpl; lia|]. rewrite render_true by discriminate.
  apply length_render'. auto.
Qed.

(* ------------------------------------------------------------------ the kernel's walk *)

Lemma walk_parents_ok fs rest : forall pre,
  (forall k, proper k rest -> k <> [] -> get fs (pre ++ k) = Some Dir) ->
  walk_parents fs pre rest = None.
Proof.
  induction rest as [|c rest IH]; intros pre H; [reflexivity|].
  destruct rest as [|c' rest]; [reflexivity|].
  change (walk_parents fs pre (c :: c' :: rest)) with
    (match get fs (pre ++ [c]) with
     | Some Dir => walk_parents fs (pre ++ [c]) (c' :: rest)
     | Some (File _) => Some ENOTDIR
     | None => Some ENOENT
     end).
  rewrite (H [c]).
  - apply IH. intros k [Hk Nk] Hne. rewrite <- app_assoc. apply H; [|discriminate].
    split.
    + destruct Hk as [r E]. exists r. simpl. rewrite E. reflexivity.
    + intros E. inversion E. contradiction.
  - split; [exists (c' :: rest); reflexivity|discriminate].
  - discriminate.
Qed.

Section Dirs.
Variable cwd : path.

Lemma lookup_render fs Q :
  Forall real Q -> Forall nul_free Q ->
  lookup_path cwd fs (render true Q) =
    match walk_parents fs [] Q with Some e => inl e | None => inr Q end.
Proof.
  intros HR HN. unfold lookup_path. rewrite has_nul_render_true by auto.
  destruct (render true Q) as [|b s] eqn:E; [destruct Q; discriminate|].
  rewrite <- E. rewrite resolve_render_true by auto. reflexivity.
Qed.

Lemma lookup_render_ok fs Q :
  Forall real Q -> Forall nul_free Q ->
  (forall k, proper k Q -> get fs k = Some Dir) ->
  lookup_path cwd fs (render true Q) = inr Q.
Proof.
  intros HR HN H. rewrite lookup_render by auto.
  rewrite walk_parents_ok; [reflexivity|]. intros k Hk _. simpl. auto.
Qed.

(* ------------------------------------------------------------------ MkdirAll succeeds *)

Lemma mkdir_all_S f fs s :
  mkdir_all (S f) cwd fs s =
    match os_stat cwd fs s with
    | inr Dir => (fs, WOk)
    | inr (File _) => (fs, WErr OpMkdir ENOTDIR)
    | inl _ =>
        let par := parent_str s in
        let '(fs1, r1) := if nonempty par then mkdir_all f cwd fs par else (fs, WOk) in
        match r1 with
        | WOk =>
            match os_mkdir cwd fs1 s with
            | (fs2, None) => (fs2, WOk)
            | (fs2, Some e) =>
                match os_stat cwd fs2 s with
                | inr Dir => (fs2, WOk)
                | _ => (fs2, WErr OpMkdir e)
                end
            end
        | r => (fs1, r)
        end
    end.
Proof. reflexivity. Qed.

Lemma mkdir_all_good : forall n Q f fs,
  length Q <= n -> n < f -> Forall real Q -> Forall nul_free Q ->
  (forall p x, get fs p = Some x -> within p Q -> x = Dir) ->
  (forall p, within p Q -> get fs p <> None -> forall k, proper k p -> get fs k = Some Dir) ->
  exists fs', mkdir_all f cwd fs (render true Q) = (fs', WOk) /\
              (forall p, within p Q -> get fs' p = Some Dir) /\
              ext (fun p n => n = Dir /\ within p Q) fs fs'.
Proof.
  induction n as [|n IH]; intros Q f fs HL Hf HR HN H1 H2.
  - destruct Q; [|simpl in HL; lia]. destruct f; [lia|].
    exists fs. split; [reflexivity|]. split; [|apply ext_refl].
    intros p Hp. apply within_nil in Hp. subst. reflexivity.
  - destruct (snoc_cases Q) as [->|[Q' [c EQ]]].
    { destruct f; [lia|]. exists fs. split; [reflexivity|]. split; [|apply ext_refl].
      intros p Hp. apply within_nil in Hp. subst. reflexivity. }
    destruct f as [|f]; [lia|].
    assert (HR' := HR). assert (HN' := HN). rewrite EQ in HR', HN'.
    apply Forall_app in HR'. destruct HR' as [HRQ' HRc]. pose proof (Forall_inv HRc) as Hc.
    apply Forall_app in HN'. destruct HN' as [HNQ' _].
    assert (HLQ' : length Q' <= n) by (rewrite EQ, app_length in HL; simpl in HL; lia).
    destruct (get fs Q) as [x|] eqn:EG.
    + (* it exists: a directory with all its parents *)
      assert (x = Dir) by (eapply H1; [exact EG|apply within_refl]). subst x.
      assert (HP : forall k, proper k Q -> get fs k = Some Dir).
      { intros k Hk. eapply H2; [apply within_refl|congruence|exact Hk]. }
      exists fs. split; [|split; [|apply ext_refl]].
      * rewrite mkdir_all_S. unfold os_stat. rewrite lookup_render_ok by auto. rewrite EG. reflexivity.
      * intros p Hp. destruct (within_snoc p Q' c) as [E|HW]; [rewrite <- EQ; exact Hp| |].
        -- rewrite <- EQ in E. subst p. exact EG.
        -- apply HP. split; [exact Hp|]. intros E. subst p. rewrite EQ in HW.
           apply within_length in HW. rewrite app_length in HW. simpl in HW. lia.
    + (* it does not exist *)
      assert (ES : exists e, os_stat cwd fs (render true Q) = inl e).
      { unfold os_stat. rewrite lookup_render by auto.
        destruct (walk_parents fs [] Q); [eauto|]. rewrite EG. eauto. }
      destruct ES as [e ES].
      assert (EP : parent_str (render true Q) = render' Q').
      { rewrite EQ. rewrite render_true by (destruct Q'; discriminate).
        apply parent_str_render_snoc. auto. }
      (* the parent *)
      assert (HPAR : exists fs1,
        (if nonempty (render' Q') then mkdir_all f cwd fs (render' Q') else (fs, WOk)) = (fs1, WOk) /\
        (forall p, within p Q' -> get fs1 p = Some Dir) /\
        ext (fun p n => n = Dir /\ within p Q') fs fs1).
      { destruct Q' as [|d Q''] eqn:EQ'.
        - exists fs. simpl. split; [reflexivity|]. split; [|apply ext_refl].
          intros p Hp. apply within_nil in Hp. subst. reflexivity.
        - rewrite <- EQ' in *.
          assert (Hne : nonempty (render' Q') = true) by (rewrite EQ'; reflexivity).
          rewrite Hne. rewrite <- render_true by (rewrite EQ'; discriminate).
          apply (IH Q' f fs); auto; try lia.
          + intros p x Hg Hp. eapply H1; eauto. rewrite EQ. destruct Hp as [r ->].
            exists (r ++ [c]). rewrite app_assoc. reflexivity.
          + intros p Hp Hg k Hk. eapply H2; eauto. rewrite EQ. destruct Hp as [r ->].
            exists (r ++ [c]). rewrite app_assoc. reflexivity. }
      destruct HPAR as [fs1 [EM [HD1 HE1]]].
      assert (EG1 : get fs1 Q = None).
      { destruct (HE1 Q) as [E|[_ [x [_ [_ HW]]]]]; [congruence|].
        rewrite EQ in HW. apply within_length in HW. rewrite app_length in HW. simpl in HW. lia. }
      assert (HK : forall k, proper k Q -> get fs1 k = Some Dir).
      { intros k Hk. apply HD1. rewrite EQ in Hk. eapply proper_snoc; eauto. }
      exists ((Q, Dir) :: fs1). split; [|split].
      * rewrite mkdir_all_S. rewrite ES. cbv zeta. rewrite EP, EM. unfold os_mkdir.
        rewrite lookup_render_ok by auto. rewrite EG1. reflexivity.
      * intros p Hp. pose proof (get_none_nonroot _ _ EG1) as HQ.
        destruct (within_snoc p Q' c) as [E|HW]; [rewrite <- EQ; exact Hp| |].
        -- rewrite <- EQ in E. subst p. apply get_cons_same. auto.
        -- rewrite get_cons_other; auto. intros E. subst p. rewrite EQ in HW.
           apply within_length in HW. rewrite app_length in HW. simpl in HW. lia.
      * eapply ext_trans.
        -- eapply ext_weaken; [|exact HE1]. intros p x [-> HW]. split; auto.
           rewrite EQ. destruct HW as [r ->]. exists (r ++ [c]). rewrite app_assoc. reflexivity.
        -- apply ext_new; auto. split; [reflexivity|apply within_refl].
Qed.

(* ------------------------------------------------------------------ one good entry *)

Variables (g : guard) (fl : oflags) (dir : bytes).
Hypothesis Hpass : forall fp, is_abs fp = false -> fp <> dotdot -> has_prefix dotdot_sep fp = false ->
                              rejected g fp = false.
Hypothesis Hx : excl fl.
Hypothesis Ha : is_abs dir = true.
Let D := resolve cwd dir.
Hypothesis HDn : Forall nul_free D.

Lemma D_real : Forall real D.
Proof. apply resolve_abs_real. exact Ha. Qed.

Definition added (P : path) (s : bytes) (q : path) (n : node) : Prop :=
  (q = P /\ n = File s) \/ (n = Dir /\ proper q P).

Lemma write_one_good fs p s :
  p <> [] -> Forall real p -> Forall nul_free p ->
  (forall q x, get fs q = Some x -> proper q (D ++ p) -> x = Dir) ->
  (forall q, proper q (D ++ p) -> get fs q <> None -> forall k, proper k q -> get fs k = Some Dir) ->
  get fs (D ++ p) = None ->
  exists fs', write_one g fl cwd fs dir (join_sep p, s) = (fs', WOk) /\
              get fs' (D ++ p) = Some (File s) /\
              (forall q, proper q (D ++ p) -> get fs' q = Some Dir) /\
              ext (added (D ++ p) s) fs fs'.
Proof.
  intros Hne HR HN H1 H2 H3.
  destruct (snoc_cases p) as [->|[p' [c Ep]]]; [contradiction|].
  set (P := D ++ p) in *. set (Q := D ++ p').
  assert (EP : P = Q ++ [c]) by (unfold P, Q; rewrite Ep, app_assoc; reflexivity).
  assert (HRP : Forall real P) by (apply Forall_app; split; [apply D_real|auto]).
  assert (HNP : Forall nul_free P) by (apply Forall_app; split; auto).
  assert (HRQ : Forall real Q) by (rewrite EP in HRP; apply Forall_app in HRP; apply HRP).
  assert (HNQ : Forall nul_free Q) by (rewrite EP in HNP; apply Forall_app in HNP; apply HNP).
  assert (Hc : real c) by (rewrite EP in HRP; apply Forall_app in HRP; destruct HRP as [_ X]; apply (Forall_inv X)).
  assert (HQP : forall k, within k Q -> proper k P).
  { intros k Hk. split.
    - rewrite EP. destruct Hk as [r ->]. exists (r ++ [c]). rewrite app_assoc. reflexivity.
    - intros E. subst k. rewrite EP in Hk. apply within_length in Hk.
      rewrite app_length in Hk. simpl in Hk. lia. }
  (* the name passes Clean and the guard unchanged *)
  pose proof (render_false_passes p HR) as [G1 [G2 G3]].
  assert (ERF : render false p = join_sep p) by (destruct p; [contradiction|reflexivity]).
  rewrite ERF in G1, G2, G3.
  unfold write_one. cbn [fst snd]. unfold from_slash.
  rewrite clean_render_false by auto. rewrite (Hpass _ G1 G2 G3).
  rewrite <- ERF. rewrite (join_abs cwd) by auto. fold D. fold P.
  rewrite EP. rewrite dir_of_render_snoc by auto.
  (* MkdirAll *)
  destruct (mkdir_all_good (length Q) Q (S (length (render true Q))) fs) as [fs1 [EM [HD1 HE1]]]; auto.
  { pose proof (length_render_true Q HRQ). lia. }
  { intros q x Hg Hq. eapply H1; eauto. }
  { intros q Hq Hg k Hk. eapply H2; eauto. }
  rewrite EM. rewrite <- EP.
  assert (EG1 : get fs1 P = None).
  { destruct (HE1 P) as [E|[_ [x [_ [_ HW]]]]]; [congruence|].
    apply HQP in HW. destruct HW as [_ N]. contradiction. }
  assert (HK : forall k, proper k P -> get fs1 k = Some Dir).
  { intros k Hk. apply HD1. rewrite EP in Hk. eapply proper_snoc; eauto. }
  unfold os_open. rewrite lookup_render_ok by auto. rewrite EG1.
  destruct Hx as [Hcr Hex]. rewrite Hcr.
  pose proof (get_none_nonroot _ _ EG1) as HPne.
  rewrite os_write_new by auto.
  exists ((P, File s) :: (P, File []) :: fs1). split; [reflexivity|]. split; [|split].
  - apply get_cons_same. auto.
  - intros q Hq. rewrite !get_cons_other; auto; apply Hq.
  - eapply ext_trans.
    + eapply ext_weaken; [|exact HE1]. intros q x [-> HW]. right. split; auto.
    + apply ext_create; auto. left. auto.
Qed.

(* ------------------------------------------------------------------ a good archive *)

Definition good_paths (ps : list path) : Prop :=
  NoDup ps /\
  (forall p, In p ps -> p <> [] /\ Forall real p /\ Forall nul_free p) /\
  (forall p q, In p ps -> In q ps -> within p q -> p = q).

(* the state while extracting into D: D exists; whatever is beneath D is a file written
   for a finished entry or a directory on the way to one; and parents exist *)
Definition inv (done : list path) (fs : fsys) : Prop :=
  dir_exists fs D /\
  (forall q x, beneath D q -> get fs q = Some x ->
     exists p, In p done /\ ((q = D ++ p /\ exists s, x = File s) \/ (x = Dir /\ proper q (D ++ p)))) /\
  (forall q, beneath D q -> get fs q <> None -> forall k, proper k q -> get fs k = Some Dir).

Definition entry_of (ps : path * bytes) : bytes * bytes := (join_sep (fst ps), snd ps).

Lemma good_paths_perm a b : Permutation a b -> good_paths a -> good_paths b.
Proof.
  intros HP [H1 [H2 H3]]. split; [eapply Permutation_NoDup; eauto|]. split.
  - intros p Hp. apply H2. eapply Permutation_in; [apply Permutation_sym; exact HP|auto].
  - intros p q Hp Hq. apply H3; eapply Permutation_in; try (apply Permutation_sym; exact HP); auto.
Qed.

Lemma proper_within_dir k q : proper k q -> within q D -> within k D.
Proof. intros [H _] Hq. eapply within_trans; eauto. Qed.

Lemma write_gen_good : forall todo done fs,
  inv done fs -> good_paths (done ++ map fst todo) ->
  exists fs', write_gen g fl cwd fs dir (map entry_of todo) = (fs', WOk) /\
              inv (done ++ map fst todo) fs'.
Proof.
  induction todo as [|[p s] todo IH]; intros done fs HI HG.
  - exists fs. simpl. rewrite app_nil_r. auto.
  - simpl map in *. destruct HI as [I1 [I2 I3]].
    assert (HG' := HG). destruct HG' as [G1 [G2 G3]].
    assert (Hin : In p (done ++ p :: map fst todo)) by (apply in_or_app; right; left; auto).
    destruct (G2 p Hin) as [Pne [PR PN]].
    assert (Hnd : ~ In p done).
    { intros HIn. apply NoDup_remove_2 in G1. apply G1. apply in_or_app. left. auto. }
    assert (Hdone : forall p', In p' done -> In p' (done ++ p :: map fst todo))
      by (intros; apply in_or_app; left; auto).
    (* the three conditions of write_one_good *)
    assert (C3 : get fs (D ++ p) = None).
    { destruct (get fs (D ++ p)) as [x|] eqn:EG; auto. exfalso.
      assert (HB : beneath D (D ++ p)) by (destruct p as [|c r]; [contradiction|exists c, r; auto]).
      destruct (I2 _ _ HB EG) as [p' [Hp' [[E _]|[_ HPr]]]].
      - apply app_inv_head in E. subst p'. contradiction.
      - assert (p = p').
        { apply G3; auto. destruct HPr as [HW _]. eapply within_app_inv; eauto. }
        subst p'. destruct HPr as [_ N]. contradiction. }
    assert (C1 : forall q x, get fs q = Some x -> proper q (D ++ p) -> x = Dir).
    { intros q x Hg Hq. destruct (within_split q D p (proj1 Hq)) as [HW|HB].
      - rewrite (I1 _ HW) in Hg. congruence.
      - destruct (I2 _ _ HB Hg) as [p' [Hp' [[E _]|[E _]]]]; auto. exfalso.
        subst q. assert (p' = p).
        { apply G3; auto. destruct Hq as [HW _]. eapply within_app_inv; eauto. }
        subst p'. contradiction. }
    assert (C2 : forall q, proper q (D ++ p) -> get fs q <> None ->
                 forall k, proper k q -> get fs k = Some Dir).
    { intros q Hq Hg k Hk. destruct (within_split q D p (proj1 Hq)) as [HW|HB].
      - apply I1. eapply proper_within_dir; eauto.
      - eapply I3; eauto. }
    destruct (write_one_good fs p s Pne PR PN C1 C2 C3) as [fs1 [E1 [F1 [F2 F3]]]].
    (* the invariant afterwards *)
    assert (HI1 : inv (p :: done) fs1).
    { split; [|split].
      - intros q Hq. eapply ext_preserves; [exact F3|]. apply I1. auto.
      - intros q x HB Hg. destruct (F3 q) as [E|[_ [y [Hy HA]]]].
        + rewrite E in Hg. destruct (I2 _ _ HB Hg) as [p' [Hp' Hc]]. exists p'. split; [right; auto|auto].
        + rewrite Hy in Hg. inversion Hg; subst y. exists p. split; [left; auto|].
          destruct HA as [[-> ->]|[-> HPr]]; [left; eauto|right; auto].
      - intros q HB Hg k Hk. destruct (F3 q) as [E|[_ [y [Hy HA]]]].
        + rewrite E in Hg. eapply ext_preserves; [exact F3|]. eapply I3; eauto.
        + apply F2. destruct HA as [[-> _]|[_ HPr]]; auto.
          eapply proper_trans; [exact Hk|apply HPr]. }
    assert (HG1 : good_paths ((p :: done) ++ map fst todo)).
    { eapply good_paths_perm; [|exact HG]. simpl. apply Permutation_sym, Permutation_middle. }
    destruct (IH (p :: done) fs1 HI1 HG1) as [fs' [E' HI']].
    exists fs'. split.
    + simpl. unfold entry_of at 1. cbn [fst snd]. rewrite E1. exact E'.
    + destruct HI' as [J1 [J2 J3]]. split; [auto|]. split; [|auto].
      intros q x HB Hg. destruct (J2 _ _ HB Hg) as [p' [Hp' Hc]]. exists p'. split; [|auto].
      simpl in Hp'. destruct Hp' as [->|Hp']; [apply in_or_app; right; left; auto|].
      apply in_app_or in Hp'. destruct Hp'; apply in_or_app; [left|right; right]; auto.
Qed.

End Dirs.

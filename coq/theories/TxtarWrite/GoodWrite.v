(* Write succeeds on "good" names: a set of distinct, prefix-free relative paths made of
   real, NUL-free elements, written into a directory that exists and holds nothing.
   This is the file-system half of the txtar-c / txtar-x round trip (SavedirFacts.v).
   The directory may be named by any string (absolute or relative): the proofs are written
   against a "string builder" [mk] that gives, for a list q of elements below the
   directory, the string Write hands to the system calls for it; [mk_abs] and [mk_rel]
   at the end of the file are the two builders. *)
From Coq Require Import List Bool Arith Lia Permutation.
From Coq.Strings Require Import Byte.
From GI Require Import Lib.Bytes Txtar.Txtar
  TxtarWrite.Path TxtarWrite.TxtarWrite TxtarWrite.PathFacts TxtarWrite.WriteFacts
  TxtarWrite.NulFacts TxtarWrite.FuelFacts TxtarWrite.RelFacts.
Import ListNotations.

Definition proper (p q : path) : Prop := within p q /\ p <> q.

(* ------------------------------------------------------------------ small facts *)

Lemma within_length p q : within p q -> length p <= length q.
Proof. intros [r ->]. rewrite app_length. lia. Qed.

Lemma within_trans p q r : within p q -> within q r -> within p r.
Proof. intros [a ->] [b ->]. exists (a ++ b). rewrite app_assoc. reflexivity. Qed.

Lemma within_antisym p q : within p q -> within q p -> p = q.
Proof.
  intros [a Ha] [b Hb]. subst q. rewrite <- app_assoc in Hb.
  rewrite <- (app_nil_r p) in Hb at 1. apply app_inv_head in Hb.
  symmetry in Hb. apply app_eq_nil in Hb. destruct Hb as [-> _]. rewrite app_nil_r. reflexivity.
Qed.

Lemma within_snoc k Q c : within k (Q ++ [c]) -> k = Q ++ [c] \/ within k Q.
Proof.
  intros [r E]. destruct (snoc_cases r) as [->|[r' [x ->]]].
  - left. rewrite app_nil_r in E. auto.
  - right. rewrite app_assoc in E. apply app_inj_tail in E. destruct E as [E _]. exists r'. auto.
Qed.

Lemma proper_snoc k Q c : proper k (Q ++ [c]) -> within k Q.
Proof. intros [H N]. destruct (within_snoc _ _ _ H); [contradiction|auto]. Qed.

Lemma proper_trans k q p : proper k q -> within q p -> proper k p.
Proof.
  intros [H N] Hq. split; [eapply within_trans; eauto|].
  intros E. subst k. apply N. apply within_antisym; auto.
Qed.

Lemma within_nil p : within p [] -> p = [].
Proof. intros [r E]. symmetry in E. apply app_eq_nil in E. apply E. Qed.

Lemma within_app_inv D p q : within (D ++ p) (D ++ q) -> within p q.
Proof. intros [r E]. rewrite <- app_assoc in E. apply app_inv_head in E. exists r. auto. Qed.

(* a prefix of D ++ p is a prefix of D or lies beneath D *)
Lemma within_split q D p : within q (D ++ p) -> within q D \/ beneath D q.
Proof.
  intros H. destruct (within_app_cases _ _ _ H) as [H1|[r E]]; auto.
  destruct r as [|c r]; [left; rewrite app_nil_r in E; subst; apply within_refl|].
  right. exists c, r. auto.
Qed.

Lemma length_render' P : Forall real P -> length P <= length (render' P).
Proof.
  induction P as [|c P IH]; intros H; [simpl; lia|]. inversion H; subst.
  change (render' (c :: P)) with (SEP :: c ++ render' P). simpl. rewrite app_length.
  specialize (IH H3). lia.
Qed.

Lemma length_render_true P : Forall real P -> length P <= length (render true P).
Proof.
  intros H. destruct P as [|c P]; [simpl; lia|]. rewrite render_true by discriminate.
  apply length_render'. auto.
Qed.

(* ------------------------------------------------------------------ the kernel's walk *)

Lemma walk_parents_ok fs rest : forall pre,
  (forall k, proper k rest -> k <> [] -> get fs (pre ++ k) = Some Dir) ->
  walk_parents fs pre rest = None.
Proof.
  induction rest as [|c rest IH]; intros pre H; [reflexivity|].
  destruct rest as [|c' rest]; [reflexivity|].
  change (walk_parents fs pre (c :: c' :: rest)) with
    (match get fs (pre ++ [c]) with
     | Some Dir => walk_parents fs (pre ++ [c]) (c' :: rest)
     | Some (File _) => Some ENOTDIR
     | None => Some ENOENT
     end).
  rewrite (H [c]).
  - apply IH. intros k [Hk Nk] Hne. rewrite <- app_assoc. apply H; [|discriminate].
    split.
    + destruct Hk as [r E]. exists r. simpl. rewrite E. reflexivity.
    + intros E. inversion E. contradiction.
  - split; [exists (c' :: rest); reflexivity|discriminate].
  - discriminate.
Qed.

Section Dirs.
Variable cwd : path.

Lemma lookup_str fs s Q :
  has_nul s = false -> s <> [] -> resolve cwd s = Q ->
  lookup_path cwd fs s =
    match walk_parents fs [] Q with Some e => inl e | None => inr Q end.
Proof.
  intros HN Hne HR. unfold lookup_path. rewrite HN.
  destruct s as [|b s]; [contradiction|]. rewrite HR. reflexivity.
Qed.

Lemma lookup_str_ok fs s Q :
  has_nul s = false -> s <> [] -> resolve cwd s = Q ->
  (forall k, proper k Q -> get fs k = Some Dir) ->
  lookup_path cwd fs s = inr Q.
Proof.
  intros HN Hne HR H. rewrite (lookup_str fs s Q) by auto.
  rewrite walk_parents_ok; [reflexivity|]. intros k Hk _. simpl. auto.
Qed.

(* ------------------------------------------------------------------ MkdirAll succeeds *)

Lemma mkdir_all_S f fs s :
  mkdir_all (S f) cwd fs s =
    match os_stat cwd fs s with
    | inr Dir => (fs, WOk)
    | inr (File _) => (fs, WErr OpMkdir ENOTDIR)
    | inl _ =>
        let par := parent_str s in
        let '(fs1, r1) := if nonempty par then mkdir_all f cwd fs par else (fs, WOk) in
        match r1 with
        | WOk =>
            match os_mkdir cwd fs1 s with
            | (fs2, None) => (fs2, WOk)
            | (fs2, Some e) =>
                match os_stat cwd fs2 s with
                | inr Dir => (fs2, WOk)
                | _ => (fs2, WErr OpMkdir e)
                end
            end
        | r => (fs1, r)
        end
    end.
Proof. reflexivity. Qed.

(* the directory written into, and the strings that name what lies below it *)
Variable D : path.
Variable mk : list bytes -> bytes.
Definition okq (q : list bytes) : Prop := Forall real q /\ Forall nul_free q.
Hypothesis mk_nul : forall q, okq q -> has_nul (mk q) = false.
Hypothesis mk_ne : forall q, okq q -> mk q <> [].
Hypothesis mk_res : forall q, okq q -> resolve cwd (mk q) = D ++ q.
Hypothesis mk_parent : forall q c, okq (q ++ [c]) ->
  parent_str (mk (q ++ [c])) = mk q \/ (parent_str (mk (q ++ [c])) = [] /\ q = []).
Hypothesis mk_dir : forall q c, okq (q ++ [c]) -> dir_of (mk (q ++ [c])) = mk q.

Lemma okq_snoc q c : okq (q ++ [c]) -> okq q.
Proof. intros [H1 H2]. apply Forall_app in H1. apply Forall_app in H2. split; tauto. Qed.

Lemma nonempty_true s : s <> [] -> nonempty s = true.
Proof. destruct s; [contradiction|reflexivity]. Qed.

Lemma within_D_app p q c : within p (D ++ q) -> within p (D ++ q ++ [c]).
Proof. intros [r E]. exists (r ++ [c]). rewrite (app_assoc p), <- E, <- app_assoc. reflexivity. Qed.

Lemma mkdir_all_good : forall q f fs,
  length (mk q) < f -> okq q -> dir_exists fs D ->
  (forall p x, get fs p = Some x -> within p (D ++ q) -> x = Dir) ->
  (forall p, within p (D ++ q) -> get fs p <> None -> forall k, proper k p -> get fs k = Some Dir) ->
  exists fs', mkdir_all f cwd fs (mk q) = (fs', WOk) /\
              (forall p, within p (D ++ q) -> get fs' p = Some Dir) /\
              ext (fun p n => n = Dir /\ within p (D ++ q)) fs fs'.
Proof.
  induction q as [|c q IH] using rev_ind; intros f fs Hf Hq HD H1 H2.
  - rewrite app_nil_r in *. destruct f as [|f]; [lia|].
    exists fs. split; [|split; [auto|apply ext_refl]].
    rewrite mkdir_all_S. unfold os_stat.
    assert (E0 : resolve cwd (mk []) = D) by (rewrite mk_res by auto; apply app_nil_r).
    rewrite (lookup_str_ok fs (mk []) D (mk_nul _ Hq) (mk_ne _ Hq) E0 (fun k Hk => HD k (proj1 Hk))).
    rewrite (HD D (within_refl D)). reflexivity.
  - destruct f as [|f]; [lia|].
    pose proof (okq_snoc _ _ Hq) as Hq'.
    set (Q := D ++ q ++ [c]) in *.
    assert (EQ : Q = (D ++ q) ++ [c]) by (unfold Q; rewrite app_assoc; reflexivity).
    assert (ER : resolve cwd (mk (q ++ [c])) = Q) by (apply mk_res; auto).
    destruct (get fs Q) as [x|] eqn:EG.
    + assert (x = Dir) by (eapply H1; [exact EG|apply within_refl]). subst x.
      assert (HP : forall k, proper k Q -> get fs k = Some Dir).
      { intros k Hk. eapply H2; [apply within_refl|congruence|exact Hk]. }
      exists fs. split; [|split; [|apply ext_refl]].
      * rewrite mkdir_all_S. unfold os_stat. rewrite (lookup_str_ok fs _ Q) by auto.
        rewrite EG. reflexivity.
      * intros p Hp. rewrite EQ in Hp. destruct (within_snoc p (D ++ q) c Hp) as [E|HW].
        -- rewrite <- EQ in E. subst p. exact EG.
        -- apply HP. split; [rewrite EQ; exact Hp|]. intros E. subst p. rewrite EQ in HW.
           apply within_length in HW. rewrite app_length in HW. simpl in HW. lia.
    + assert (ES : exists e, os_stat cwd fs (mk (q ++ [c])) = inl e).
      { unfold os_stat. rewrite (lookup_str fs _ Q) by auto.
        destruct (walk_parents fs [] Q); [eauto|]. rewrite EG. eauto. }
      destruct ES as [e ES].
      assert (HPAR : exists fs1,
        (if nonempty (parent_str (mk (q ++ [c]))) then mkdir_all f cwd fs (parent_str (mk (q ++ [c]))) else (fs, WOk))
          = (fs1, WOk) /\
        (forall p, within p (D ++ q) -> get fs1 p = Some Dir) /\
        ext (fun p n => n = Dir /\ within p (D ++ q)) fs fs1).
      { destruct (mk_parent q c Hq) as [EP|[EP Eq0]].
        - assert (HN : nonempty (parent_str (mk (q ++ [c]))) = true)
            by (rewrite EP; apply nonempty_true; auto).
          pose proof (parent_str_shorter _ HN) as HS. rewrite HN, EP in *.
          apply IH; auto; try lia.
          + intros p x Hg Hp. eapply H1; eauto. apply within_D_app. exact Hp.
          + intros p Hp Hg k Hk. eapply H2; eauto. apply within_D_app. exact Hp.
        - rewrite EP. simpl. subst q. rewrite app_nil_r. exists fs. split; [reflexivity|].
          split; [|apply ext_refl]. intros p Hp. apply HD. exact Hp. }
      destruct HPAR as [fs1 [EM [HD1 HE1]]].
      assert (EG1 : get fs1 Q = None).
      { destruct (HE1 Q) as [E|[_ [x [_ [_ HW]]]]]; [congruence|].
        rewrite EQ in HW. apply within_length in HW. rewrite app_length in HW. simpl in HW. lia. }
      assert (HK : forall k, proper k Q -> get fs1 k = Some Dir).
      { intros k Hk. apply HD1. rewrite EQ in Hk. eapply proper_snoc; eauto. }
      exists ((Q, Dir) :: fs1). split; [|split].
      * rewrite mkdir_all_S. rewrite ES. cbv zeta. rewrite EM. unfold os_mkdir.
        rewrite (lookup_str_ok fs1 _ Q) by auto. rewrite EG1. reflexivity.
      * intros p Hp. pose proof (get_none_nonroot _ _ EG1) as HQ.
        rewrite EQ in Hp. destruct (within_snoc p (D ++ q) c Hp) as [E|HW].
        -- rewrite <- EQ in E. subst p. apply get_cons_same. auto.
        -- rewrite get_cons_other; auto. intros E. subst p. rewrite EQ in HW.
           apply within_length in HW. rewrite app_length in HW. simpl in HW. lia.
      * eapply ext_trans.
        -- eapply ext_weaken; [|exact HE1]. intros p x [-> HW]. split; auto.
           apply within_D_app. exact HW.
        -- apply ext_new; auto. split; [reflexivity|apply within_refl].
Qed.

(* ------------------------------------------------------------------ one good entry *)

Variables (g : guard) (fl : oflags) (dir : bytes).
Hypothesis Hpass : forall fp, is_abs fp = false -> fp <> dotdot -> has_prefix dotdot_sep fp = false ->
                              rejected g fp = false.
Hypothesis Hx : excl fl.
Hypothesis mk_join : forall p, p <> [] -> okq p -> join dir (join_sep p) = mk p.

Definition added (P : path) (s : bytes) (q : path) (n : node) : Prop :=
  (q = P /\ n = File s) \/ (n = Dir /\ proper q P).

Lemma write_one_good fs p s :
  p <> [] -> Forall real p -> Forall nul_free p -> dir_exists fs D ->
  (forall q x, get fs q = Some x -> proper q (D ++ p) -> x = Dir) ->
  (forall q, proper q (D ++ p) -> get fs q <> None -> forall k, proper k q -> get fs k = Some Dir) ->
  get fs (D ++ p) = None ->
  exists fs', write_one g fl cwd fs dir (join_sep p, s) = (fs', WOk) /\
              get fs' (D ++ p) = Some (File s) /\
              (forall q, proper q (D ++ p) -> get fs' q = Some Dir) /\
              ext (added (D ++ p) s) fs fs'.
Proof.
  intros Hne HR HN HDe H1 H2 H3.
  assert (Hok : okq p) by (split; auto).
  destruct (snoc_cases p) as [->|[p' [c Ep]]]; [contradiction|].
  set (P := D ++ p) in *. set (Q := D ++ p').
  assert (EP : P = Q ++ [c]) by (unfold P, Q; rewrite Ep, app_assoc; reflexivity).
  assert (Hok' : okq p') by (apply (okq_snoc p' c); rewrite <- Ep; exact Hok).
  assert (HQP : forall k, within k Q -> proper k P).
  { intros k Hk. split.
    - rewrite EP. destruct Hk as [r ->]. exists (r ++ [c]). rewrite app_assoc. reflexivity.
    - intros E. subst k. rewrite EP in Hk. apply within_length in Hk.
      rewrite app_length in Hk. simpl in Hk. lia. }
  (* the name passes Clean and the guard unchanged *)
  pose proof (render_false_passes p HR) as [G1 [G2 G3]].
  assert (ERF : render false p = join_sep p) by (destruct p; [contradiction|reflexivity]).
  rewrite ERF in G1, G2, G3.
  unfold write_one. cbn [fst snd]. unfold from_slash.
  rewrite clean_render_false by auto. rewrite (Hpass _ G1 G2 G3).
  rewrite mk_join by auto.
  assert (EDir : dir_of (mk p) = mk p') by (rewrite Ep; apply mk_dir; rewrite <- Ep; exact Hok).
  rewrite EDir.
  (* MkdirAll *)
  destruct (mkdir_all_good p' (S (length (mk p'))) fs) as [fs1 [EM [HD1 HE1]]]; auto.
  { intros q x Hg Hq. eapply H1; eauto. }
  { intros q Hq Hg k Hk. eapply H2; eauto. }
  fold Q in HD1, HE1. rewrite EM.
  assert (EG1 : get fs1 P = None).
  { destruct (HE1 P) as [E|[_ [x [_ [_ HW]]]]]; [congruence|].
    apply HQP in HW. destruct HW as [_ N]. contradiction. }
  assert (HK : forall k, proper k P -> get fs1 k = Some Dir).
  { intros k Hk. apply HD1. rewrite EP in Hk. eapply proper_snoc; eauto. }
  unfold os_open. rewrite (lookup_str_ok fs1 (mk p) P) by (auto; apply mk_res; auto).
  rewrite EG1.
  destruct Hx as [Hcr Hex]. rewrite Hcr.
  pose proof (get_none_nonroot _ _ EG1) as HPne.
  rewrite os_write_new by auto.
  exists ((P, File s) :: (P, File []) :: fs1). split; [reflexivity|]. split; [|split].
  - apply get_cons_same. auto.
  - intros q Hq. rewrite !get_cons_other; auto; apply Hq.
  - eapply ext_trans.
    + eapply ext_weaken; [|exact HE1]. intros q x [-> HW]. right. split; auto.
    + apply ext_create; auto. left. auto.
Qed.

(* ------------------------------------------------------------------ a good archive *)

Definition good_paths (ps : list path) : Prop :=
  NoDup ps /\
  (forall p, In p ps -> p <> [] /\ Forall real p /\ Forall nul_free p) /\
  (forall p q, In p ps -> In q ps -> within p q -> p = q).

(* the state while extracting into D: D exists; whatever is beneath D is a file written
   for a finished entry or a directory on the way to one; and parents exist *)
Definition inv (done : list path) (fs : fsys) : Prop :=
  dir_exists fs D /\
  (forall q x, beneath D q -> get fs q = Some x ->
     exists p, In p done /\ ((q = D ++ p /\ exists s, x = File s) \/ (x = Dir /\ proper q (D ++ p)))) /\
  (forall q, beneath D q -> get fs q <> None -> forall k, proper k q -> get fs k = Some Dir).

Definition entry_of (ps : path * bytes) : bytes * bytes := (join_sep (fst ps), snd ps).

Lemma good_paths_perm a b : Permutation a b -> good_paths a -> good_paths b.
Proof.
  intros HP [H1 [H2 H3]]. split; [eapply Permutation_NoDup; eauto|]. split.
  - intros p Hp. apply H2. eapply Permutation_in; [apply Permutation_sym; exact HP|auto].
  - intros p q Hp Hq. apply H3; eapply Permutation_in; try (apply Permutation_sym; exact HP); auto.
Qed.

Lemma proper_within_dir k q : proper k q -> within q D -> within k D.
Proof. intros [H _] Hq. eapply within_trans; eauto. Qed.

Lemma write_gen_good : forall todo done fs,
  inv done fs -> good_paths (done ++ map fst todo) ->
  exists fs', write_gen g fl cwd fs dir (map entry_of todo) = (fs', WOk) /\
              inv (done ++ map fst todo) fs'.
Proof.
  induction todo as [|[p s] todo IH]; intros done fs HI HG.
  - exists fs. simpl. rewrite app_nil_r. auto.
  - simpl map in *. destruct HI as [I1 [I2 I3]].
    assert (HG' := HG). destruct HG' as [G1 [G2 G3]].
    assert (Hin : In p (done ++ p :: map fst todo)) by (apply in_or_app; right; left; auto).
    destruct (G2 p Hin) as [Pne [PR PN]].
    assert (Hnd : ~ In p done).
    { intros HIn. apply NoDup_remove_2 in G1. apply G1. apply in_or_app. left. auto. }
    assert (Hdone : forall p', In p' done -> In p' (done ++ p :: map fst todo))
      by (intros; apply in_or_app; left; auto).
    (* the three conditions of write_one_good *)
    assert (C3 : get fs (D ++ p) = None).
    { destruct (get fs (D ++ p)) as [x|] eqn:EG; auto. exfalso.
      assert (HB : beneath D (D ++ p)) by (destruct p as [|c r]; [contradiction|exists c, r; auto]).
      destruct (I2 _ _ HB EG) as [p' [Hp' [[E _]|[_ HPr]]]].
      - apply app_inv_head in E. subst p'. contradiction.
      - assert (p = p').
        { apply G3; auto. destruct HPr as [HW _]. eapply within_app_inv; eauto. }
        subst p'. destruct HPr as [_ N]. contradiction. }
    assert (C1 : forall q x, get fs q = Some x -> proper q (D ++ p) -> x = Dir).
    { intros q x Hg Hq. destruct (within_split q D p (proj1 Hq)) as [HW|HB].
      - rewrite (I1 _ HW) in Hg. congruence.
      - destruct (I2 _ _ HB Hg) as [p' [Hp' [[E _]|[E _]]]]; auto. exfalso.
        subst q. assert (p' = p).
        { apply G3; auto. destruct Hq as [HW _]. eapply within_app_inv; eauto. }
        subst p'. contradiction. }
    assert (C2 : forall q, proper q (D ++ p) -> get fs q <> None ->
                 forall k, proper k q -> get fs k = Some Dir).
    { intros q Hq Hg k Hk. destruct (within_split q D p (proj1 Hq)) as [HW|HB].
      - apply I1. eapply proper_within_dir; eauto.
      - eapply I3; eauto. }
    destruct (write_one_good fs p s Pne PR PN I1 C1 C2 C3) as [fs1 [E1 [F1 [F2 F3]]]].
    (* the invariant afterwards *)
    assert (HI1 : inv (p :: done) fs1).
    { split; [|split].
      - intros q Hq. eapply ext_preserves; [exact F3|]. apply I1. auto.
      - intros q x HB Hg. destruct (F3 q) as [E|[_ [y [Hy HA]]]].
        + rewrite E in Hg. destruct (I2 _ _ HB Hg) as [p' [Hp' Hc]]. exists p'. split; [right; auto|auto].
        + rewrite Hy in Hg. inversion Hg; subst y. exists p. split; [left; auto|].
          destruct HA as [[-> ->]|[-> HPr]]; [left; eauto|right; auto].
      - intros q HB Hg k Hk. destruct (F3 q) as [E|[_ [y [Hy HA]]]].
        + rewrite E in Hg. eapply ext_preserves; [exact F3|]. eapply I3; eauto.
        + apply F2. destruct HA as [[-> _]|[_ HPr]]; auto.
          eapply proper_trans; [exact Hk|apply HPr]. }
    assert (HG1 : good_paths ((p :: done) ++ map fst todo)).
    { eapply good_paths_perm; [|exact HG]. simpl. apply Permutation_sym, Permutation_middle. }
    destruct (IH (p :: done) fs1 HI1 HG1) as [fs' [E' HI']].
    exists fs'. split.
    + simpl. unfold entry_of at 1. cbn [fst snd]. rewrite E1. exact E'.
    + destruct HI' as [J1 [J2 J3]]. split; [auto|]. split; [|auto].
      intros q x HB Hg. destruct (J2 _ _ HB Hg) as [p' [Hp' Hc]]. exists p'. split; [|auto].
      simpl in Hp'. destruct Hp' as [->|Hp']; [apply in_or_app; right; left; auto|].
      apply in_app_or in Hp'. destruct Hp'; apply in_or_app; [left|right; right]; auto.
Qed.

End Dirs.

(* ------------------------------------------------------------------ the two string builders *)

(* absolute directory string: "/d1/.../dn/q1/.../qm" *)
Definition mk_abs (D q : list bytes) : bytes := render true (D ++ q).
(* relative directory string whose cleaned form has the elements W0 *)
Definition mk_rel (W0 q : list bytes) : bytes := render false (W0 ++ q).

Lemma shape_app_real W q : shape W -> Forall real q -> shape (W ++ q).
Proof.
  intros [k [X [HX ->]]] Hq. exists k, (X ++ q). split; [apply Forall_app; auto|].
  rewrite app_assoc. reflexivity.
Qed.

Lemma render_false_nonempty W : Forall elem W -> render false W <> [].
Proof.
  intros H. destruct W as [|c W]; [discriminate|]. apply (join_sep_nonempty (c :: W)); [discriminate|auto].
Qed.

Lemma render_true_nonempty P : render true P <> [].
Proof. discriminate. Qed.

Section Builders.
Variable cwd : path.

Section Abs.
Variable D : path.
Hypothesis HDr : Forall real D.
Hypothesis HDn : Forall nul_free D.

Lemma mk_abs_nul q : okq q -> has_nul (mk_abs D q) = false.
Proof. intros [_ H]. apply has_nul_render_true. apply Forall_app. auto. Qed.

Lemma mk_abs_ne q : okq q -> mk_abs D q <> [].
Proof. intros _. apply render_true_nonempty. Qed.

Lemma mk_abs_res q : okq q -> resolve cwd (mk_abs D q) = D ++ q.
Proof. intros [H _]. apply resolve_render_true. apply Forall_app. auto. Qed.

Lemma mk_abs_parent q c : okq (q ++ [c]) ->
  parent_str (mk_abs D (q ++ [c])) = mk_abs D q \/ (parent_str (mk_abs D (q ++ [c])) = [] /\ q = []).
Proof.
  intros [H _]. apply Forall_app in H. destruct H as [Hq Hc]. pose proof (Forall_inv Hc) as Hc1.
  unfold mk_abs. rewrite app_assoc. rewrite render_true by (destruct (D ++ q); discriminate).
  rewrite parent_str_render_snoc by auto.
  destruct (D ++ q) as [|x l] eqn:E.
  - right. split; [reflexivity|]. apply app_eq_nil in E. apply E.
  - left. rewrite render_true by discriminate. reflexivity.
Qed.

Lemma mk_abs_dir q c : okq (q ++ [c]) -> dir_of (mk_abs D (q ++ [c])) = mk_abs D q.
Proof.
  intros [H _]. apply Forall_app in H. destruct H as [Hq Hc]. pose proof (Forall_inv Hc) as Hc1.
  unfold mk_abs. rewrite app_assoc. apply dir_of_render_snoc; auto. apply Forall_app. auto.
Qed.
End Abs.

Section Rel.
Variable W0 : list bytes.
Hypothesis HW : shape W0.
Hypothesis HWn : Forall nul_free W0.

Lemma rel_elems q : Forall real q -> Forall elem (W0 ++ q).
Proof. intros H. apply shape_elems, shape_app_real; auto. Qed.

Lemma mk_rel_nul q : okq q -> has_nul (mk_rel W0 q) = false.
Proof. intros [_ H]. apply has_nul_render_false. apply Forall_app. auto. Qed.

Lemma mk_rel_ne q : okq q -> mk_rel W0 q <> [].
Proof. intros [H _]. apply render_false_nonempty. apply rel_elems. auto. Qed.

Lemma mk_rel_res q : okq q -> resolve cwd (mk_rel W0 q) = resolve cwd (render false W0) ++ q.
Proof.
  intros [H _]. unfold mk_rel. induction q as [|c q IH] using rev_ind.
  - rewrite !app_nil_r. reflexivity.
  - apply Forall_app in H. destruct H as [Hq Hc]. rewrite app_assoc.
    rewrite resolve_rel_snoc_real by (try apply rel_elems; auto; apply (Forall_inv Hc)).
    rewrite IH by auto. rewrite <- app_assoc. reflexivity.
Qed.

Lemma mk_rel_parent q c : okq (q ++ [c]) ->
  parent_str (mk_rel W0 (q ++ [c])) = mk_rel W0 q \/ (parent_str (mk_rel W0 (q ++ [c])) = [] /\ q = []).
Proof.
  intros [H _]. apply Forall_app in H. destruct H as [Hq Hc]. pose proof (Forall_inv Hc) as Hc1.
  unfold mk_rel. rewrite app_assoc.
  assert (ER : render false ((W0 ++ q) ++ [c]) = join_sep ((W0 ++ q) ++ [c])) by (destruct (W0 ++ q); reflexivity).
  rewrite ER. rewrite parent_str_rel by (right; auto).
  destruct (W0 ++ q) as [|x l] eqn:E.
  - right. split; [reflexivity|]. apply app_eq_nil in E. apply E.
  - left. reflexivity.
Qed.

Lemma mk_rel_dir q c : okq (q ++ [c]) -> dir_of (mk_rel W0 (q ++ [c])) = mk_rel W0 q.
Proof.
  intros [H _]. unfold mk_rel. rewrite app_assoc. apply dir_of_rel.
  rewrite <- app_assoc. apply shape_app_real; auto.
Qed.
End Rel.

(* Join(dir, name) for a relative directory string: the elements of Clean(dir), then the
   name's *)
Lemma join_rel_shape dir :
  is_abs dir = false ->
  exists W0, shape W0 /\
    (forall p, Forall real p -> join dir (render false p) = render false (W0 ++ p)) /\
    resolve cwd (render false W0) = resolve cwd dir /\
    (has_nul dir = false -> Forall nul_free W0).
Proof.
  intros Ha. destruct dir as [|b d].
  - exists []. split; [exists 0, []; auto|]. split; [|split; [reflexivity|constructor]].
    intros p Hp. unfold join. simpl app.
    destruct (render false p) eqn:E; [exfalso; eapply (render_false_nonempty p); eauto;
      eapply Forall_impl; [|exact Hp]; intros c Hc; right; auto|].
    rewrite <- E. destruct p as [|c p]; [reflexivity|]. apply (clean_render_false (c :: p)); [discriminate|auto].
  - pose proof (cinv_run false (split_sep (b :: d)) ([], 0) (split_sep_sep_free_all _) (cinv_init _))
      as [R [E [HR _]]].
    destruct (clean_run false (split_sep (b :: d)) ([], 0)) as [out dd] eqn:ER. simpl in E.
    exists (rev out).
    assert (HS : shape (rev out)).
    { exists dd, (rev R). split; [apply Forall_rev; auto|]. subst out.
      rewrite rev_app_distr, rev_repeat. reflexivity. }
    split; [exact HS|]. split; [|split].
    + intros p Hp. unfold join. unfold clean.
      destruct ((b :: d) ++ SEP :: render false p) as [|x t] eqn:E0; [discriminate|]. rewrite <- E0.
      rewrite is_abs_app_nonempty by discriminate. rewrite Ha.
      rewrite split_sep_app, clean_run_app, ER.
      destruct p as [|c p].
      * simpl render at 1. rewrite app_nil_r. reflexivity.
      * change (render false (c :: p)) with (join_sep (c :: p)).
        assert (HSf : Forall sep_free (c :: p)) by (eapply Forall_impl; [|exact Hp]; apply real_sep_free).
        rewrite split_sep_join_sep by (auto; discriminate).
        rewrite clean_run_reals by auto. cbn [fst]. rewrite rev_app_distr, rev_involutive. reflexivity.
    + assert (EC : clean (b :: d) = render false (rev out)).
      { unfold clean. rewrite Ha, ER. reflexivity. }
      rewrite <- EC. apply resolve_clean.
    + intros HN. apply Forall_forall. intros x Hx. apply in_rev in Hx.
      assert (Hx' : In x (fst (clean_run false (split_sep (b :: d)) ([], 0)))) by (rewrite ER; exact Hx).
      destruct (clean_run_elems _ _ _ _ Hx') as [[]|H].
      intros HI. apply (mem_byte_in_false NUL (b :: d) HN). apply (split_sep_incl _ _ H). exact HI.
Qed.

(* the good-archive lemma for a directory named by ANY NUL-free string *)
Theorem write_gen_good_dir g fl dir :
  (forall fp, is_abs fp = false -> fp <> dotdot -> has_prefix dotdot_sep fp = false -> rejected g fp = false) ->
  excl fl -> Forall real cwd -> Forall nul_free cwd -> has_nul dir = false ->
  forall todo fs,
    inv (resolve cwd dir) [] fs -> good_paths (map fst todo) ->
    exists fs', write_gen g fl cwd fs dir (map entry_of todo) = (fs', WOk) /\
                inv (resolve cwd dir) (map fst todo) fs'.
Proof.
  intros Hpass Hx Hcr Hcn Hdn todo fs HI HG.
  set (D := resolve cwd dir) in *.
  assert (HDr : Forall real D) by (apply resolve_real; auto).
  assert (HDn : Forall nul_free D) by (apply resolve_nul_free; auto).
  destruct (is_abs dir) eqn:Ea.
  - apply (write_gen_good cwd D (mk_abs D)
             (mk_abs_nul D HDn) (mk_abs_ne D) (mk_abs_res D HDr) (mk_abs_parent D) (mk_abs_dir D HDr)
             g fl dir Hpass Hx) with (done := []); auto.
    intros p Hne [Hp _]. unfold mk_abs.
    replace (join_sep p) with (render false p) by (destruct p; [contradiction|reflexivity]).
    apply join_abs; auto.
  - destruct (join_rel_shape dir Ea) as [W0 [HS [HJ [HRes HNul]]]].
    assert (HWn : Forall nul_free W0) by auto.
    assert (ERes : forall q, okq q -> resolve cwd (mk_rel W0 q) = D ++ q).
    { intros q Hq. rewrite (mk_rel_res W0 HS q Hq). rewrite HRes. reflexivity. }
    apply (write_gen_good cwd D (mk_rel W0)
             (mk_rel_nul W0 HWn) (mk_rel_ne W0 HS) ERes (mk_rel_parent W0) (mk_rel_dir W0 HS)
             g fl dir Hpass Hx) with (done := []); auto.
    intros p Hne [Hp _]. unfold mk_rel.
    replace (join_sep p) with (render false p) by (destruct p; [contradiction|reflexivity]).
    apply HJ; auto.
Qed.

End Builders.

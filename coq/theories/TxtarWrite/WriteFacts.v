(* Facts about the model of txtar.Write (TxtarWrite.v): containment, rejection, no
   overwriting, contents.  The theorems about [write_gen] are stated for any guard and
   any open flags satisfying what the proofs need; the corollaries about [write] (the
   guard and flags read from the source) discharge those conditions by computation on
   Gen/TxtarWriteConsts.v, so they stop compiling when the source stops satisfying them. *)
From Coq Require Import List Bool Arith Lia NArith.
From Coq.Strings Require Import Byte.
From GI Require Import Lib.Bytes Gen.TxtarWriteConsts Txtar.Txtar
  TxtarWrite.Path TxtarWrite.TxtarWrite TxtarWrite.PathFacts.
Import ListNotations.

(* ------------------------------------------------------------------ file-system states *)

Lemma path_eqb_eq a b : path_eqb a b = true <-> a = b.
Proof.
  revert b. induction a as [|x a IH]; destruct b as [|y b]; simpl; split; intros H; try discriminate; auto.
  - apply andb_true_iff in H. destruct H as [H1 H2]. apply bytes_eqb_eq in H1. apply IH in H2. congruence.
  - inversion H; subst. rewrite bytes_eqb_refl. simpl. apply IH. reflexivity.
Qed.

Lemma path_eqb_refl a : path_eqb a a = true.
Proof. apply path_eqb_eq. reflexivity. Qed.

Lemma get_cons P n fs p :
  P <> [] -> get ((P, n) :: fs) p = if path_eqb p P then Some n else get fs p.
Proof.
  intros HP. destruct p as [|c p].
  - destruct P; [contradiction|reflexivity].
  - reflexivity.
Qed.

Lemma get_cons_same P n fs : P <> [] -> get ((P, n) :: fs) P = Some n.
Proof. intros H. rewrite get_cons by auto. rewrite path_eqb_refl. reflexivity. Qed.

Lemma get_cons_other P n fs p : P <> [] -> p <> P -> get ((P, n) :: fs) p = get fs p.
Proof.
  intros H Hp. rewrite get_cons by auto. destruct (path_eqb p P) eqn:E; auto.
  apply path_eqb_eq in E. contradiction.
Qed.

Lemma get_none_nonroot fs P : get fs P = None -> P <> [].
Proof. intros H E. subst. discriminate. Qed.

(* [ext A fs fs']: fs' is fs plus new objects, each at a path where fs had nothing and
   each satisfying A; everything that existed is unchanged *)
Definition ext (A : path -> node -> Prop) (fs fs' : fsys) : Prop :=
  forall p, get fs' p = get fs p \/ (get fs p = None /\ exists n, get fs' p = Some n /\ A p n).

Lemma ext_refl (A : path -> node -> Prop) fs : ext A fs fs.
Proof. intros p. left. reflexivity. Qed.

Lemma ext_trans (A : path -> node -> Prop) fs fs1 fs2 : ext A fs fs1 -> ext A fs1 fs2 -> ext A fs fs2.
Proof.
  intros H1 H2 p. destruct (H1 p) as [E1|[N1 [n1 [G1 A1]]]]; destruct (H2 p) as [E2|[N2 [n2 [G2 A2]]]].
  - left. congruence.
  - right. split; [congruence|]. eauto.
  - right. split; auto. exists n1. split; [congruence|auto].
  - congruence.
Qed.

Lemma ext_weaken (A B : path -> node -> Prop) fs fs' :
  (forall p n, A p n -> B p n) -> ext A fs fs' -> ext B fs fs'.
Proof.
  intros HAB H p. destruct (H p) as [E|[N [n [G HA]]]]; [left; auto|].
  right. split; auto. exists n. auto.
Qed.

Lemma ext_new (A : path -> node -> Prop) fs P n : get fs P = None -> A P n -> ext A fs ((P, n) :: fs).
Proof.
  intros HN HA p. pose proof (get_none_nonroot _ _ HN) as HP.
  rewrite get_cons by auto. destruct (path_eqb p P) eqn:E.
  - apply path_eqb_eq in E. subst p. right. split; auto. exists n. auto.
  - left. reflexivity.
Qed.

(* the reading used in the property statements *)
Lemma ext_changed (A : path -> node -> Prop) fs fs' p :
  ext A fs fs' -> get fs' p <> get fs p -> get fs p = None /\ exists n, get fs' p = Some n /\ A p n.
Proof. intros H Hc. destruct (H p) as [E|H']; [contradiction|auto]. Qed.

Lemma ext_preserves (A : path -> node -> Prop) fs fs' p x : ext A fs fs' -> get fs p = Some x -> get fs' p = Some x.
Proof. intros H Hx. destruct (H p) as [E|[N _]]; congruence. Qed.

(* ------------------------------------------------------------------ system calls *)

Lemma lookup_path_inr cwd fs s P : lookup_path cwd fs s = inr P -> P = resolve cwd s.
Proof.
  unfold lookup_path. destruct (has_nul s); [discriminate|]. destruct s; [discriminate|].
  destruct (walk_parents fs [] (resolve cwd (b :: s))); [discriminate|]. intros H. inversion H. reflexivity.
Qed.

Lemma os_mkdir_ext cwd fs s fs' r :
  os_mkdir cwd fs s = (fs', r) -> ext (fun p n => p = resolve cwd s /\ n = Dir) fs fs'.
Proof.
  unfold os_mkdir. destruct (lookup_path cwd fs s) as [e|P] eqn:EL.
  - intros H. inversion H. apply ext_refl.
  - apply lookup_path_inr in EL. destruct (get fs P) eqn:EG; intros H; inversion H; subst.
    + apply ext_refl.
    + apply ext_new; auto.
Qed.

Definition excl (fl : oflags) : Prop := o_create fl = true /\ o_excl fl = true.

(* O_CREATE|O_EXCL: open succeeds only by creating a new, empty file *)
Lemma os_open_excl fl cwd fs s fs2 h :
  excl fl -> os_open fl cwd fs s = inr (fs2, h) ->
  h = resolve cwd s /\ get fs h = None /\ fs2 = (h, File []) :: fs.
Proof.
  intros [Hc He]. unfold os_open. destruct (lookup_path cwd fs s) as [e|P] eqn:EL; [discriminate|].
  apply lookup_path_inr in EL. rewrite Hc, He. simpl.
  destruct (get fs P) eqn:EG; [discriminate|]. intros H. inversion H. subst. auto.
Qed.

Lemma os_write_new fl fs h data :
  h <> [] -> os_write fl ((h, File []) :: fs) h data = (h, File data) :: (h, File []) :: fs.
Proof.
  intros Hh. unfold os_write. rewrite get_cons_same by auto.
  destruct (o_append fl); simpl; [reflexivity|].
  rewrite skipn_nil, app_nil_r. reflexivity.
Qed.

Lemma ext_create (A : path -> node -> Prop) fs h data :
  get fs h = None -> A h (File data) -> ext A fs ((h, File data) :: (h, File []) :: fs).
Proof.
  intros HN HA p. pose proof (get_none_nonroot _ _ HN) as HP.
  rewrite get_cons by auto. destruct (path_eqb p h) eqn:E.
  - apply path_eqb_eq in E. subst p. right. split; auto. exists (File data). auto.
  - left. rewrite get_cons by auto. rewrite E. reflexivity.
Qed.

(* ------------------------------------------------------------------ MkdirAll *)

(* MkdirAll only ever makes directories, at the paths denoted by the strings it recurses
   on; [S] is any set of strings closed under that recursion *)
Lemma mkdir_all_ext (S : bytes -> Prop) cwd :
  (forall s, S s -> nonempty (parent_str s) = true -> S (parent_str s)) ->
  forall fuel fs s fs' r, S s -> mkdir_all fuel cwd fs s = (fs', r) ->
  ext (fun p n => n = Dir /\ exists s', S s' /\ p = resolve cwd s') fs fs'.
Proof.
  intros Hcl. induction fuel as [|f IH]; intros fs s fs' r HS H; simpl in H.
  - inversion H. apply ext_refl.
  - destruct (os_stat cwd fs s) as [e|[d|]].
    2: { inversion H. apply ext_refl. }
    2: { inversion H. apply ext_refl. }
    destruct (nonempty (parent_str s)) eqn:EN.
    + destruct (mkdir_all f cwd fs (parent_str s)) as [fs1 r1] eqn:EM.
      pose proof (IH _ _ _ _ (Hcl _ HS EN) EM) as H1.
      destruct r1; try (inversion H; subst; exact H1).
      destruct (os_mkdir cwd fs1 s) as [fs2 [e2|]] eqn:EK.
      * pose proof (os_mkdir_ext _ _ _ _ _ EK) as H2.
        assert (ext (fun p n => n = Dir /\ exists s', S s' /\ p = resolve cwd s') fs fs2).
        { eapply ext_trans; [exact H1|]. eapply ext_weaken; [|exact H2].
          intros p n [-> ->]. eauto. }
        destruct (os_stat cwd fs2 s) as [?|[?|]]; inversion H; subst; auto.
      * pose proof (os_mkdir_ext _ _ _ _ _ EK) as H2. inversion H; subst.
        eapply ext_trans; [exact H1|]. eapply ext_weaken; [|exact H2].
        intros p n [-> ->]. eauto.
    + destruct (os_mkdir cwd fs s) as [fs2 [e2|]] eqn:EK.
      * pose proof (os_mkdir_ext _ _ _ _ _ EK) as H2.
        assert (ext (fun p n => n = Dir /\ exists s', S s' /\ p = resolve cwd s') fs fs2).
        { eapply ext_weaken; [|exact H2]. intros p n [-> ->]. eauto. }
        destruct (os_stat cwd fs2 s) as [?|[?|]]; inversion H; subst; auto.
      * pose proof (os_mkdir_ext _ _ _ _ _ EK) as H2. inversion H; subst.
        eapply ext_weaken; [|exact H2]. intros p n [-> ->]. eauto.
Qed.

Lemma snoc_cases {A} (l : list A) : l = [] \/ exists P c, l = P ++ [c].
Proof.
  destruct (rev l) as [|c r] eqn:E.
  - left. rewrite <- (rev_involutive l), E. reflexivity.
  - right. exists (rev r), c. rewrite <- (rev_involutive l), E. reflexivity.
Qed.

(* on the rendering of an absolute path of real elements: directories at prefixes of it *)
Lemma mkdir_all_abs cwd fuel fs Q fs' r :
  Forall real Q -> mkdir_all fuel cwd fs (render true Q) = (fs', r) ->
  ext (fun p n => n = Dir /\ within p Q) fs fs'.
Proof.
  intros HQ H.
  pose (S := fun s => exists Q', Forall real Q' /\ within Q' Q /\ s = render true Q').
  assert (Hcl : forall s, S s -> nonempty (parent_str s) = true -> S (parent_str s)).
  { intros s [Q' [HR [[q Eq] ->]]] HN.
    destruct (snoc_cases Q') as [->|[P [c EQ]]].
    - discriminate.
    - rewrite EQ in HR, HN |- *. apply Forall_app in HR. destruct HR as [HP Hc].
      pose proof (Forall_inv Hc) as Hc1.
      assert (EN : P ++ [c] <> []) by (destruct P; discriminate).
      rewrite (render_true _ EN) in HN |- *. rewrite parent_str_render_snoc in HN |- * by auto.
      exists P. split; auto. split.
      + exists ([c] ++ q). rewrite Eq, EQ, <- app_assoc. reflexivity.
      + destruct P; [discriminate|]. rewrite render_true by discriminate. reflexivity. }
  eapply ext_weaken; [|eapply (mkdir_all_ext S cwd Hcl); [|exact H]].
  - intros p n [-> [s' [[Q' [HR [HW ->]]] ->]]]. split; auto.
    rewrite resolve_render_true by auto. exact HW.
  - exists Q. split; auto. split; [apply within_refl|reflexivity].
Qed.

Lemma mkdir_all_any cwd fuel fs s fs' r :
  mkdir_all fuel cwd fs s = (fs', r) -> ext (fun _ _ => True) fs fs'.
Proof.
  intros H. eapply ext_weaken; [|eapply (mkdir_all_ext (fun _ => True) cwd); [auto|exact I|exact H]].
  auto.
Qed.

(* ------------------------------------------------------------------ one entry *)

(* what the proofs need from the guard: it rejects absolute names, "..", and "../" prefixes *)
Definition guards (g : guard) : Prop :=
  g_abs g = true /\ In dotdot (g_exact g) /\ In dotdot_sep (g_prefix g).

Lemma existsb_In_eqb fp l : In fp l -> existsb (bytes_eqb fp) l = true.
Proof. intros H. apply existsb_exists. exists fp. split; auto. apply bytes_eqb_refl. Qed.

Lemma not_rejected g fp :
  guards g -> rejected g fp = false ->
  is_abs fp = false /\ fp <> dotdot /\ has_prefix dotdot_sep fp = false.
Proof.
  intros [Ha [He Hp]] H. unfold rejected in H. rewrite Ha in H.
  apply orb_false_iff in H. destruct H as [H H3]. apply orb_false_iff in H. destruct H as [H1 H2].
  simpl in H1. split; auto. split.
  - intros E. subst fp. rewrite existsb_In_eqb in H2 by auto. discriminate.
  - destruct (has_prefix dotdot_sep fp) eqn:E; auto.
    assert (existsb (fun p => has_prefix p fp) (g_prefix g) = true)
      by (apply existsb_exists; eauto). congruence.
Qed.

(* the objects one entry may add when [dir] denotes D: anything within D, and
   directories on the way from the root to D *)
Definition allowed (D : path) (p : path) (n : node) : Prop :=
  within D p \/ (n = Dir /\ within p D).

Lemma removelast_snoc {A} (l : list A) x : removelast (l ++ [x]) = l.
Proof. apply removelast_last. Qed.

Lemma write_one_ext g fl cwd fs dir nd fs' r :
  guards g -> excl fl -> is_abs dir = true ->
  write_one g fl cwd fs dir nd = (fs', r) ->
  ext (allowed (resolve cwd dir)) fs fs'.
Proof.
  intros Hg Hx Ha H. unfold write_one in H.
  destruct (rejected g (clean (from_slash (fst nd)))) eqn:ER.
  { inversion H. apply ext_refl. }
  destruct (not_rejected _ _ Hg ER) as [N1 [N2 N3]].
  destruct (clean_passes_guard _ N1 N2 N3) as [R [HR EC]].
  rewrite EC in H. rewrite (join_abs cwd) in H by auto.
  set (D := resolve cwd dir) in *.
  assert (HD : Forall real D) by (apply resolve_abs_real; auto).
  assert (HDR : Forall real (D ++ R)) by (apply Forall_app; auto).
  (* Dir of the joined path *)
  assert (ED : exists Q, Forall real Q /\ within Q (D ++ R) /\ dir_of (render true (D ++ R)) = render true Q).
  { destruct (snoc_cases (D ++ R)) as [E0|[P [c EQ]]].
    - rewrite E0. exists []. split; [constructor|].
      split; [exists []; reflexivity|reflexivity].
    - rewrite EQ in *. apply Forall_app in HDR. destruct HDR as [HP Hc]. inversion Hc; subst.
      exists P. split; auto. split; [exists [c]; reflexivity|].
      apply dir_of_render_snoc; auto. }
  destruct ED as [Q [HQ [HW EQ]]]. rewrite EQ in H.
  destruct (mkdir_all (Datatypes.S (length (render true Q))) cwd fs (render true Q)) as [fs1 r1] eqn:EM.
  pose proof (mkdir_all_abs _ _ _ _ _ _ HQ EM) as H1.
  assert (H1' : ext (allowed D) fs fs1).
  { eapply ext_weaken; [|exact H1]. intros p n [-> Hp]. unfold allowed.
    destruct Hp as [q Eq]. destruct HW as [q' Eq'].
    destruct (within_app_cases p D R) as [Hc|Hc]; auto.
    exists (q ++ q'). rewrite Eq', Eq. rewrite app_assoc. reflexivity. }
  destruct r1; try (inversion H; subst; exact H1').
  destruct (os_open fl cwd fs1 (render true (D ++ R))) as [e|[fs2 h]] eqn:EO.
  { inversion H; subst. exact H1'. }
  destruct (os_open_excl _ _ _ _ _ _ Hx EO) as [Eh [HN E2]].
  rewrite resolve_render_true in Eh by auto.
  subst fs2. rewrite os_write_new in H by (eapply get_none_nonroot; eauto).
  inversion H; subst. eapply ext_trans; [exact H1'|].
  apply ext_create; auto. left. exists R. reflexivity.
Qed.

(* no hypothesis on the guard or on dir: existing objects are never changed *)
Lemma write_one_any g fl cwd fs dir nd fs' r :
  excl fl -> write_one g fl cwd fs dir nd = (fs', r) -> ext (fun _ _ => True) fs fs'.
Proof.
  intros Hx H. unfold write_one in H.
  destruct (rejected g (clean (from_slash (fst nd)))); [inversion H; apply ext_refl|].
  match type of H with context [mkdir_all ?f cwd fs ?s] =>
    destruct (mkdir_all f cwd fs s) as [fs1 r1] eqn:EM end.
  pose proof (mkdir_all_any _ _ _ _ _ _ EM) as H1.
  destruct r1; try (inversion H; subst; exact H1).
  match type of H with context [os_open fl cwd fs1 ?s] =>
    destruct (os_open fl cwd fs1 s) as [e|[fs2 h]] eqn:EO end.
  { inversion H; subst. exact H1. }
  destruct (os_open_excl _ _ _ _ _ _ Hx EO) as [Eh [HN E2]].
  subst fs2. rewrite os_write_new in H by (eapply get_none_nonroot; eauto).
  inversion H; subst. eapply ext_trans; [exact H1|]. apply ext_create; auto.
Qed.

(* a successful entry leaves its data at the path its joined name denotes, and nothing
   was there before *)
Lemma write_one_ok g fl cwd fs dir nd fs' :
  excl fl -> write_one g fl cwd fs dir nd = (fs', WOk) ->
  rejected g (clean (from_slash (fst nd))) = false /\
  get fs' (resolve cwd (join dir (clean (from_slash (fst nd))))) = Some (File (snd nd)) /\
  get fs (resolve cwd (join dir (clean (from_slash (fst nd))))) = None.
Proof.
  intros Hx H. unfold write_one in H.
  destruct (rejected g (clean (from_slash (fst nd)))); [discriminate|]. split; auto.
  match type of H with context [mkdir_all ?f cwd fs ?s] =>
    destruct (mkdir_all f cwd fs s) as [fs1 r1] eqn:EM end.
  pose proof (mkdir_all_any _ _ _ _ _ _ EM) as H1.
  destruct r1; try discriminate.
  match type of H with context [os_open fl cwd fs1 ?s] =>
    destruct (os_open fl cwd fs1 s) as [e|[fs2 h]] eqn:EO end; [discriminate|].
  destruct (os_open_excl _ _ _ _ _ _ Hx EO) as [Eh [HN E2]].
  subst fs2. pose proof (get_none_nonroot _ _ HN) as Hh.
  rewrite os_write_new in H by auto. inversion H; subst. split.
  - rewrite get_cons_same by auto. reflexivity.
  - destruct (get fs (resolve cwd (join dir (clean (from_slash (fst nd)))))) as [x|] eqn:EG; auto.
    rewrite (ext_preserves _ _ _ _ _ H1 EG) in HN. discriminate.
Qed.

(* ------------------------------------------------------------------ the whole archive *)

Theorem write_gen_contained g fl cwd fs dir files fs' r :
  guards g -> excl fl -> is_abs dir = true ->
  write_gen g fl cwd fs dir files = (fs', r) ->
  ext (allowed (resolve cwd dir)) fs fs'.
Proof.
  intros Hg Hx Ha. revert fs. induction files as [|nd rest IH]; intros fs H; simpl in H.
  - inversion H. apply ext_refl.
  - destruct (write_one g fl cwd fs dir nd) as [fs1 r1] eqn:E1.
    pose proof (write_one_ext _ _ _ _ _ _ _ _ Hg Hx Ha E1) as H1.
    destruct r1; try (inversion H; subst; exact H1).
    eapply ext_trans; [exact H1|]. apply IH. exact H.
Qed.

Theorem write_gen_preserves g fl cwd fs dir files fs' r :
  excl fl -> write_gen g fl cwd fs dir files = (fs', r) -> ext (fun _ _ => True) fs fs'.
Proof.
  intros Hx. revert fs. induction files as [|nd rest IH]; intros fs H; simpl in H.
  - inversion H. apply ext_refl.
  - destruct (write_one g fl cwd fs dir nd) as [fs1 r1] eqn:E1.
    pose proof (write_one_any _ _ _ _ _ _ _ _ Hx E1) as H1.
    destruct r1; try (inversion H; subst; exact H1).
    eapply ext_trans; [exact H1|]. apply IH. exact H.
Qed.

Theorem write_gen_rejects g fl cwd fs dir files fs' :
  excl fl -> write_gen g fl cwd fs dir files = (fs', WOk) ->
  Forall (fun nd => rejected g (clean (from_slash (fst nd))) = false) files.
Proof.
  intros Hx. revert fs. induction files as [|nd rest IH]; intros fs H; simpl in H; [constructor|].
  destruct (write_one g fl cwd fs dir nd) as [fs1 r1] eqn:E1.
  destruct r1; try discriminate.
  constructor; [apply (write_one_ok _ _ _ _ _ _ _ Hx E1)|eapply IH; eauto].
Qed.

Theorem write_gen_contents g fl cwd fs dir files fs' :
  excl fl -> write_gen g fl cwd fs dir files = (fs', WOk) ->
  forall n d, In (n, d) files ->
    get fs' (resolve cwd (join dir (clean (from_slash n)))) = Some (File d).
Proof.
  intros Hx. revert fs. induction files as [|nd rest IH]; intros fs H n d HI; [contradiction|].
  simpl in H. destruct (write_one g fl cwd fs dir nd) as [fs1 r1] eqn:E1.
  destruct r1; try discriminate.
  destruct HI as [->|HI].
  - destruct (write_one_ok _ _ _ _ _ _ _ Hx E1) as [_ [HG _]]. simpl in HG.
    eapply ext_preserves; [eapply write_gen_preserves; eauto|exact HG].
  - eapply IH; eauto.
Qed.

(* success means that no entry's file existed before the call (as a file or a directory) *)
Theorem write_gen_fresh g fl cwd fs dir files fs' :
  excl fl -> write_gen g fl cwd fs dir files = (fs', WOk) ->
  forall n d, In (n, d) files ->
    get fs (resolve cwd (join dir (clean (from_slash n)))) = None.
Proof.
  intros Hx. revert fs. induction files as [|nd rest IH]; intros fs H n d HI; [contradiction|].
  simpl in H. destruct (write_one g fl cwd fs dir nd) as [fs1 r1] eqn:E1.
  destruct r1; try discriminate.
  destruct HI as [->|HI].
  - destruct (write_one_ok _ _ _ _ _ _ _ Hx E1) as [_ [_ HN]]. exact HN.
  - pose proof (IH _ H n d HI) as HN1.
    destruct (get fs (resolve cwd (join dir (clean (from_slash n))))) as [x|] eqn:EG; auto.
    rewrite (ext_preserves _ _ _ _ _ (write_one_any _ _ _ _ _ _ _ _ Hx E1) EG) in HN1. discriminate.
Qed.

(* ------------------------------------------------------------------ the current source *)

(* These two lemmas are where the regenerated constants enter: they hold by computation
   exactly as long as the guard of Write tests isAbs, == ".." and the prefix "../", and
   the file is opened with O_CREATE|O_EXCL. *)
Lemma the_guard_guards : guards the_guard.
Proof. unfold guards, the_guard. simpl. repeat split; auto. Qed.

Lemma the_flags_excl : excl the_flags.
Proof. split; reflexivity. Qed.

(* and the guard rejects nothing else *)
Lemma the_guard_exact fp :
  rejected the_guard fp = is_abs fp || bytes_eqb fp dotdot || has_prefix dotdot_sep fp.
Proof. unfold rejected, the_guard. simpl. rewrite !orb_false_r. reflexivity. Qed.

Theorem write_contained cwd fs dir a fs' r :
  is_abs dir = true -> write cwd fs dir a = (fs', r) ->
  forall p, get fs' p <> get fs p ->
    get fs p = None /\
    (within (resolve cwd dir) p \/ (get fs' p = Some Dir /\ within p (resolve cwd dir))).
Proof.
  intros Ha H p Hc.
  pose proof (write_gen_contained _ _ _ _ _ _ _ _ the_guard_guards the_flags_excl Ha H) as HE.
  destruct (ext_changed _ _ _ _ HE Hc) as [HN [n [HG [HA|[-> HA]]]]]; auto.
Qed.

(* a directory and everything above it exist *)
Definition dir_exists (fs : fsys) (D : path) : Prop := forall p, within p D -> get fs p = Some Dir.

Theorem write_contained_strict cwd fs dir a fs' r :
  is_abs dir = true -> dir_exists fs (resolve cwd dir) -> write cwd fs dir a = (fs', r) ->
  forall p, get fs' p <> get fs p -> get fs p = None /\ beneath (resolve cwd dir) p.
Proof.
  intros Ha HD H p Hc.
  destruct (write_contained _ _ _ _ _ _ Ha H p Hc) as [HN [[q Eq]|[_ HW]]].
  - split; auto. destruct q as [|c q].
    + rewrite app_nil_r in Eq. subst p. rewrite (HD _ (within_refl _)) in HN. discriminate.
    + exists c, q. exact Eq.
  - rewrite (HD _ HW) in HN. discriminate.
Qed.

Theorem never_overwrites cwd fs dir a fs' r :
  write cwd fs dir a = (fs', r) -> forall p x, get fs p = Some x -> get fs' p = Some x.
Proof.
  intros H p x Hx. eapply ext_preserves; [|exact Hx].
  eapply write_gen_preserves; [apply the_flags_excl|exact H].
Qed.

Theorem write_rejects cwd fs dir a fs' :
  write cwd fs dir a = (fs', WOk) ->
  forall n d, In (n, d) (files a) ->
    is_abs n = false /\ clean n <> dotdot /\ has_prefix dotdot_sep (clean n) = false.
Proof.
  intros H n d HI.
  pose proof (write_gen_rejects _ _ _ _ _ _ _ the_flags_excl H) as HF.
  rewrite Forall_forall in HF. specialize (HF _ HI). simpl in HF. unfold from_slash in HF.
  destruct (not_rejected _ _ the_guard_guards HF) as [H1 [H2 H3]].
  rewrite clean_is_abs in H1. auto.
Qed.

Theorem write_contents cwd fs dir a fs' :
  write cwd fs dir a = (fs', WOk) ->
  forall n d, In (n, d) (files a) -> get fs' (resolve cwd (join dir (clean n))) = Some (File d).
Proof.
  intros H n d HI. apply (write_gen_contents _ _ _ _ _ _ _ the_flags_excl H n d HI).
Qed.

(* an entry whose file exists before the call (as a file or as a directory) makes Write
   return an error: on success nothing was at any entry's path *)
Theorem write_existing_is_error cwd fs dir a fs' :
  write cwd fs dir a = (fs', WOk) ->
  forall n d, In (n, d) (files a) -> get fs (resolve cwd (join dir (clean n))) = None.
Proof.
  intros H n d HI. apply (write_gen_fresh _ _ _ _ _ _ _ the_flags_excl H n d HI).
Qed.

(* permission bits (regenerated constants write_dir_perm / write_file_perm): with the
   umask 022 the harness runs under, a created directory can be searched and written by
   its owner (so the files of later entries can be created in it) and a created file can
   be read and written by its owner *)
Lemma created_dir_usable : N.land (created_mode 18 Dir) 448 = 448%N.
Proof. reflexivity. Qed.

Lemma created_file_usable d : N.land (created_mode 18 (File d)) 384 = 384%N.
Proof. reflexivity. Qed.

Lemma created_modes_usable :
  N.land (created_mode 18 Dir) 448 = 448%N /\ forall d, N.land (created_mode 18 (File d)) 384 = 384%N.
Proof. split; [reflexivity|intros; reflexivity]. Qed.

(* The txtar-c / txtar-x round trip: what txtar-c prints for a tree of files, parsed and
   written by txtar-x into an empty directory, reproduces every archived file at the same
   path, with fix_nl contents, quoted files being restored by Unquote as the archive's
   "unquote NAME" comment lines direct.  Uses the txtar theorems of Txtar/TxtarFacts.v
   (parse_format_wf) and Txtar/QuoteFacts.v (quote_wf_text, unquote_quote). *)
From Coq Require Import List Bool Arith Lia Permutation.
From Coq.Strings Require Import Byte.
From GI Require Import Lib.Bytes Lib.BytesFacts Gen.TxtarConsts Gen.TxtarWriteConsts
  Txtar.Txtar Txtar.TxtarFacts Txtar.QuoteFacts
  TxtarWrite.Path TxtarWrite.TxtarWrite TxtarWrite.PathFacts TxtarWrite.WriteFacts
  TxtarWrite.NulFacts TxtarWrite.RelFacts TxtarWrite.GoodWrite TxtarWrite.SortFacts.
Import ListNotations.

Local Arguments savedir_entry : simpl never.

(* ------------------------------------------------------------------ the trees considered *)

(* names txtar can represent (wf_name of the slash path: non-empty, equal to its own
   TrimSpace, no newline), elements as a directory listing gives them (real, NUL-free),
   distinct paths, and files are leaves *)
Definition tree_ok (t : tree) : Prop :=
  NoDup (map fst t) /\
  (forall p, In p (map fst t) ->
     p <> [] /\ Forall real p /\ Forall nul_free p /\ wf_name (join_sep p) = true) /\
  (forall p q, In p (map fst t) -> In q (map fst t) -> within p q -> p = q).

(* what tree_ok demands of a name, spelled out: the names txtar cannot represent (empty,
   with leading or trailing white space, containing a newline) are excluded *)
Lemma tree_ok_names t p :
  tree_ok t -> In p (map fst t) ->
  join_sep p <> [] /\ trim_space (join_sep p) = join_sep p /\ ~ In NL (join_sep p).
Proof.
  intros [_ [H _]] Hp. destruct (H p Hp) as [_ [_ [_ Hw]]]. apply wf_name_iff. exact Hw.
Qed.

Lemma tree_ok_perm t t' : Permutation t t' -> tree_ok t -> tree_ok t'.
Proof.
  intros HP [H1 [H2 H3]].
  assert (HPm : Permutation (map fst t) (map fst t')) by (apply Permutation_map; auto).
  split; [eapply Permutation_NoDup; eauto|]. split.
  - intros p Hp. apply H2. eapply Permutation_in; [apply Permutation_sym; exact HPm|auto].
  - intros p q Hp Hq. apply H3; eapply Permutation_in; try (apply Permutation_sym; exact HPm); auto.
Qed.

(* ------------------------------------------------------------------ one file *)

(* the facts about the regenerated constants of txtar-c that the proofs rely on *)
Lemma unquote_prefix_not_marker x : has_prefix marker (savedir_unquote_prefix ++ x) = false.
Proof. reflexivity. Qed.

Lemma unquote_prefix_no_nl : ~ In NL savedir_unquote_prefix.
Proof. apply mem_byte_false. reflexivity. Qed.

Lemma unquote_suffix_nl : savedir_unquote_suffix = [NL].
Proof. reflexivity. Qed.

Lemma unquote_prefix_nonempty : savedir_unquote_prefix <> [].
Proof. discriminate. Qed.

Definition uq_line (n : bytes) : bytes := savedir_unquote_prefix ++ n ++ savedir_unquote_suffix.

(* what savedir_entry returns, case by case *)
Lemma savedir_entry_Some fl p d cl n s :
  savedir_entry fl (p, d) = Some (cl, (n, s)) ->
  n = join_sep p /\
  ((cl = [] /\ needs_quote (fix_nl d) = false /\ s = fix_nl d) \/
   (cl = uq_line n /\ quote (fix_nl d) = Some s)).
Proof.
  unfold savedir_entry, file_entry, to_slash. cbn [fst].
  destruct (dot_skipped fl p); [discriminate|].
  destruct (negb (utf8_valid d)); [discriminate|].
  destruct (needs_quote (fix_nl d)) eqn:EN.
  - destruct (f_quote fl); [|discriminate].
    destruct (quote (fix_nl d)) as [q|] eqn:EQ; [|discriminate].
    intros H. inversion H; subst. split; auto.
  - intros H. inversion H; subst. split; auto.
Qed.

(* which files are archived *)
Lemma savedir_entry_None fl p d :
  savedir_entry fl (p, d) = None <->
  dot_skipped fl p = true \/ utf8_valid d = false \/
  (needs_quote (fix_nl d) = true /\ (f_quote fl = false \/ quote (fix_nl d) = None)).
Proof.
  unfold savedir_entry, file_entry. cbn [fst].
  destruct (dot_skipped fl p); [split; auto|].
  destruct (utf8_valid d); simpl; [|split; auto].
  destruct (needs_quote (fix_nl d)).
  - destruct (f_quote fl); [|split; auto].
    destruct (quote (fix_nl d)); split; auto; try discriminate.
    intros [H|[H|[_ [H|H]]]]; discriminate.
  - split; [discriminate|]. intros [H|[H|[H _]]]; discriminate.
Qed.

Lemma uq_line_tline n : ~ In NL n -> tline (uq_line n).
Proof.
  intros H. unfold uq_line. rewrite unquote_suffix_nl, app_assoc. constructor.
  intros HI. apply in_app_or in HI. destruct HI; [apply unquote_prefix_no_nl; auto|auto].
Qed.

Lemma uq_line_not_marker n : marker_line (uq_line n) = None.
Proof.
  destruct (marker_line (uq_line n)) eqn:E; auto.
  apply marker_line_has_prefix in E. unfold uq_line in E.
  rewrite unquote_prefix_not_marker in E. discriminate.
Qed.

Lemma uq_line_nonempty n : uq_line n <> [].
Proof.
  unfold uq_line. intros E. apply app_eq_nil in E. destruct E as [E _].
  apply unquote_prefix_nonempty. auto.
Qed.

Lemma unquote_line_uq n : unquote_line (uq_line n) = Some n.
Proof.
  unfold unquote_line, uq_line.
  rewrite has_prefix_app. rewrite (app_assoc savedir_unquote_prefix n), has_suffix_app.
  rewrite <- app_assoc.
  assert (EL : length (savedir_unquote_prefix ++ n ++ savedir_unquote_suffix)
               = length savedir_unquote_prefix + length n + length savedir_unquote_suffix)
    by (rewrite !app_length; lia).
  rewrite EL.
  assert (EB : Nat.leb (length savedir_unquote_prefix + length savedir_unquote_suffix)
                 (length savedir_unquote_prefix + length n + length savedir_unquote_suffix) = true)
    by (apply Nat.leb_le; lia).
  rewrite EB. simpl andb. cbv iota.
  replace (length savedir_unquote_prefix + length n + length savedir_unquote_suffix
           - length savedir_unquote_prefix - length savedir_unquote_suffix) with (length n) by lia.
  rewrite skipn_length_app, firstn_length_app. reflexivity.
Qed.

(* ------------------------------------------------------------------ the archive *)

(* the entries kept, with their paths *)
Definition kp (fl : sflags) (pd : path * bytes) : option (path * bytes) :=
  match savedir_entry fl pd with Some e => Some (fst pd, snd (snd e)) | None => None end.

Lemma files_kp fl l :
  map snd (filter_map (savedir_entry fl) l) = map entry_of (filter_map (kp fl) l).
Proof.
  induction l as [|[p d] l IH]; [reflexivity|]. simpl. unfold kp at 1.
  destruct (savedir_entry fl (p, d)) as [[cl [n s]]|] eqn:E; [|exact IH].
  simpl. rewrite IH. f_equal. unfold entry_of. simpl.
  apply savedir_entry_Some in E. destruct E as [-> _]. reflexivity.
Qed.

Lemma kp_In fl l p s :
  In (p, s) (filter_map (kp fl) l) ->
  exists d cl n, In (p, d) l /\ savedir_entry fl (p, d) = Some (cl, (n, s)).
Proof.
  induction l as [|[p' d'] l IH]; [intros []|]. simpl. unfold kp at 1.
  destruct (savedir_entry fl (p', d')) as [[cl [n s']]|] eqn:E.
  - simpl. intros [H|H].
    + inversion H; subst. exists d', cl, n. auto.
    + destruct (IH H) as [d [cl' [n' [H1 H2]]]]. exists d, cl', n'. auto.
  - intros H. destruct (IH H) as [d [cl' [n' [H1 H2]]]]. exists d, cl', n'. auto.
Qed.

Lemma kp_In_fst fl l p : In p (map fst (filter_map (kp fl) l)) -> In p (map fst l).
Proof.
  intros H. apply in_map_iff in H. destruct H as [[p' s] [E H]]. simpl in E. subst p'.
  apply kp_In in H. destruct H as [d [_ [_ [H _]]]]. apply in_map_iff. exists (p, d). auto.
Qed.

Lemma kp_NoDup fl l : NoDup (map fst l) -> NoDup (map fst (filter_map (kp fl) l)).
Proof.
  induction l as [|[p d] l IH]; intros H; [constructor|]. simpl in H. inversion H; subst.
  simpl. unfold kp at 1. destruct (savedir_entry fl (p, d)); [|auto].
  simpl. constructor; auto. intros HI. apply kp_In_fst in HI. contradiction.
Qed.

Lemma filter_map_In {A B} (f : A -> option B) l x y : In x l -> f x = Some y -> In y (filter_map f l).
Proof.
  induction l as [|a l IH]; intros H E; [contradiction|]. destruct H as [->|H]; simpl.
  - rewrite E. left. reflexivity.
  - destruct (f a); [right|]; auto.
Qed.

Lemma NoDup_fst_inj {A B} (l : list (A * B)) a b b' :
  NoDup (map fst l) -> In (a, b) l -> In (a, b') l -> b = b'.
Proof.
  induction l as [|[x y] l IH]; intros HN H1 H2; [contradiction|].
  simpl in HN. inversion HN; subst. destruct H1 as [H1|H1], H2 as [H2|H2].
  - congruence.
  - inversion H1; subst. exfalso. apply H3. apply in_map_iff. exists (a, b'). auto.
  - inversion H2; subst. exfalso. apply H3. apply in_map_iff. exists (a, b). auto.
  - eauto.
Qed.

(* the comment: one "unquote NAME" line per quoted entry *)
Definition cl_lines (es : list (bytes * (bytes * bytes))) : list bytes :=
  flat_map (fun e => match fst e with [] => [] | l => [l] end) es.

Lemma concat_cl_lines es : concat (map fst es) = concat (cl_lines es).
Proof.
  induction es as [|[cl e] es IH]; [reflexivity|]. simpl. rewrite IH.
  destruct cl; simpl; reflexivity.
Qed.

Definition es_ok (es : list (bytes * (bytes * bytes))) : Prop :=
  forall cl n s, In (cl, (n, s)) es -> ~ In NL n /\ (cl = [] \/ cl = uq_line n).

Lemma cl_lines_In es l : es_ok es -> In l (cl_lines es) -> exists n s, In (l, (n, s)) es /\ l = uq_line n /\ ~ In NL n.
Proof.
  intros Hok H. unfold cl_lines in H. apply in_flat_map in H. destruct H as [[cl [n s]] [HI Hl]].
  simpl in Hl. destruct (Hok _ _ _ HI) as [Hn [-> | ->]]; [contradiction|].
  destruct (uq_line n) eqn:E; [contradiction|]. destruct Hl as [<-|[]].
  exists n, s. rewrite E. auto.
Qed.

Lemma Forall_tline_lines_ok ls : Forall tline ls -> lines_ok ls.
Proof.
  induction ls as [|l ls IH]; intros H; [exact I|]. inversion H; subst.
  apply lines_ok_cons; auto.
Qed.

Lemma cl_lines_tline es : es_ok es -> Forall tline (cl_lines es).
Proof.
  intros Hok. apply Forall_forall. intros l Hl.
  destruct (cl_lines_In _ _ Hok Hl) as [n [s [_ [-> Hn]]]]. apply uq_line_tline. auto.
Qed.

Lemma concat_tlines_fixed ls : Forall tline ls -> fix_nl (concat ls) = concat ls.
Proof.
  intros H. apply fix_nl_fixed. induction H as [|l ls Hl _ IH]; [left; reflexivity|].
  right. simpl. destruct IH as [E|E].
  - rewrite E, app_nil_r. apply tline_last. auto.
  - destruct (concat ls) eqn:EC; [discriminate|]. rewrite last_byte_app by discriminate. exact E.
Qed.

Lemma comment_wf es : es_ok es -> wf_text (concat (map fst es)) = true.
Proof.
  intros Hok. rewrite concat_cl_lines. apply wf_text_iff. split.
  - apply concat_tlines_fixed, cl_lines_tline; auto.
  - apply needs_quote_false_iff. intros l Hl.
    rewrite split_lines_concat in Hl by (apply Forall_tline_lines_ok, cl_lines_tline; auto).
    destruct (cl_lines_In _ _ Hok Hl) as [n [s [_ [-> _]]]]. apply uq_line_not_marker.
Qed.

Lemma unquote_names_comment es :
  es_ok es -> forall n, In n (unquote_names (concat (map fst es))) <->
                        exists s, In (uq_line n, (n, s)) es.
Proof.
  intros Hok n. unfold unquote_names. rewrite concat_cl_lines.
  rewrite split_lines_concat by (apply Forall_tline_lines_ok, cl_lines_tline; auto).
  split.
  - intros H.
    assert (exists l, In l (cl_lines es) /\ unquote_line l = Some n).
    { clear Hok. induction (cl_lines es) as [|l ls IH]; [contradiction|]. simpl in H.
      destruct (unquote_line l) eqn:E.
      - destruct H as [->|H]; [exists l; simpl; auto|].
        destruct (IH H) as [l' [H1 H2]]. exists l'. simpl. auto.
      - destruct (IH H) as [l' [H1 H2]]. exists l'. simpl. auto. }
    destruct H0 as [l [Hl E]]. destruct (cl_lines_In _ _ Hok Hl) as [n' [s [HI [-> _]]]].
    rewrite unquote_line_uq in E. inversion E; subst. eauto.
  - intros [s HI]. eapply filter_map_In; [|apply unquote_line_uq].
    unfold cl_lines. apply in_flat_map. exists (uq_line n, (n, s)). split; auto.
    simpl. destruct (uq_line n) eqn:E; [exfalso; eapply uq_line_nonempty; eauto|left; auto].
Qed.

Lemma join_sep_inj p q :
  p <> [] -> q <> [] -> Forall real p -> Forall real q -> join_sep p = join_sep q -> p = q.
Proof.
  intros Hp Hq HRp HRq E.
  rewrite <- (split_sep_join_sep p), <- (split_sep_join_sep q); auto;
    try (eapply Forall_impl; [|eassumption]; apply real_sep_free).
  rewrite E. reflexivity.
Qed.

(* ------------------------------------------------------------------ the round trip *)

Section RoundTrip.
Variables (fl : sflags) (t : tree) (cwd : path) (fs : fsys) (dir : bytes).
Hypothesis Hcr : Forall real cwd.
Hypothesis Hcn : Forall nul_free cwd.
Hypothesis Hdn : has_nul dir = false.
Hypothesis Ht : tree_ok t.
Let D := resolve cwd dir.
Hypothesis HDe : dir_exists fs D.
Hypothesis Hempty : forall q, beneath D q -> get fs q = None.

Let w := walk_order t.
Let es := filter_map (savedir_entry fl) w.
Let ks := filter_map (kp fl) w.

Lemma w_ok : tree_ok w.
Proof. eapply tree_ok_perm; [apply Permutation_sym, walk_order_perm|exact Ht]. Qed.

Lemma es_In cl n s : In (cl, (n, s)) es -> exists p d, In (p, d) w /\ savedir_entry fl (p, d) = Some (cl, (n, s)).
Proof.
  unfold es. induction w as [|[p d] l IH]; [intros []|]. simpl.
  destruct (savedir_entry fl (p, d)) as [e|] eqn:E.
  - intros [H|H]; [subst e; exists p, d; auto|].
    destruct (IH H) as [p' [d' [H1 H2]]]. exists p', d'. auto.
  - intros H. destruct (IH H) as [p' [d' [H1 H2]]]. exists p', d'. auto.
Qed.

Lemma es_is_ok : es_ok es.
Proof.
  intros cl n s H. destruct (es_In _ _ _ H) as [p [d [HI E]]].
  destruct w_ok as [_ [W2 _]].
  destruct (W2 p) as [_ [_ [_ Hwf]]]; [apply in_map_iff; exists (p, d); auto|].
  apply savedir_entry_Some in E. destruct E as [-> E]. split.
  - apply wf_name_iff in Hwf. apply Hwf.
  - destruct E as [[-> _]|[-> _]]; auto.
Qed.

Lemma savedir_wf : wf_archive (savedir fl t) = true.
Proof.
  unfold savedir, wf_archive. fold w. fold es. cbn [comment files].
  rewrite comment_wf by apply es_is_ok. simpl. apply forallb_forall.
  intros [n s] H. apply in_map_iff in H. destruct H as [[cl [n' s']] [E H]]. simpl in E.
  inversion E; subst n' s'. destruct (es_In _ _ _ H) as [p [d [HI ES]]].
  destruct w_ok as [_ [W2 _]].
  destruct (W2 p) as [_ [_ [_ Hwf]]]; [apply in_map_iff; exists (p, d); auto|].
  apply savedir_entry_Some in ES. destruct ES as [-> ES]. cbn [fst snd]. rewrite Hwf. simpl.
  destruct ES as [[_ [HN ->]]|[_ HQ]].
  - apply wf_text_iff. split; [apply fix_nl_idem|exact HN].
  - eapply quote_wf_text; eauto.
Qed.

Lemma parse_txtar_c : parse (txtar_c fl t) = savedir fl t.
Proof. unfold txtar_c. apply parse_format_wf. apply savedir_wf. Qed.

Lemma the_guard_pass fp :
  is_abs fp = false -> fp <> dotdot -> has_prefix dotdot_sep fp = false -> rejected the_guard fp = false.
Proof.
  intros H1 H2 H3. rewrite the_guard_exact, H1, H3.
  rewrite (PathFacts.bytes_eqb_neq fp dotdot) by auto. reflexivity.
Qed.

Lemma ks_good : good_paths (map fst ks).
Proof.
  destruct w_ok as [W1 [W2 W3]]. split; [apply kp_NoDup; auto|]. split.
  - intros p Hp. apply kp_In_fst in Hp. destruct (W2 p Hp) as [A [B [C _]]]. auto.
  - intros p q Hp Hq. apply W3; apply (kp_In_fst fl); auto.
Qed.

Lemma inv_init : inv D [] fs.
Proof.
  split; [exact HDe|]. split.
  - intros q x HB Hg. rewrite (Hempty q HB) in Hg. discriminate.
  - intros q HB Hg. rewrite (Hempty q HB) in Hg. contradiction.
Qed.

Lemma resolve_join_good p :
  p <> [] -> Forall real p -> resolve cwd (join dir (clean (from_slash (join_sep p)))) = D ++ p.
Proof.
  intros Hne HR. unfold from_slash. rewrite clean_render_false by auto.
  replace (join_sep p) with (render false p) by (destruct p; [contradiction|reflexivity]).
  apply resolve_join. auto.
Qed.

Theorem savedir_extract_main :
  exists fs',
    extract cwd fs dir (txtar_c fl t) = (fs', WOk) /\
    (forall p d cl n s, In (p, d) t -> savedir_entry fl (p, d) = Some (cl, (n, s)) ->
       get fs' (D ++ p) = Some (File s) /\
       restored (comment (parse (txtar_c fl t))) n s = Some (fix_nl d)) /\
    (forall q x, beneath D q -> get fs' q = Some x ->
       exists p d e, In (p, d) t /\ savedir_entry fl (p, d) = Some e /\
         ((q = D ++ p /\ exists s, x = File s) \/ (x = Dir /\ proper q (D ++ p)))).
Proof.
  unfold extract. rewrite parse_txtar_c.
  assert (EF : files (savedir fl t) = map entry_of ks).
  { unfold savedir. fold w. cbn [files]. apply files_kp. }
  unfold write. rewrite EF.
  destruct (write_gen_good_dir cwd the_guard the_flags dir the_guard_pass the_flags_excl Hcr Hcn Hdn
              ks fs inv_init ks_good) as [fs' [EW [_ [K2 _]]]].
  exists fs'. split; [exact EW|]. split.
  - intros p d cl n s HI ES.
    assert (HIw : In (p, d) w) by (eapply Permutation_in; [apply Permutation_sym, walk_order_perm|auto]).
    destruct w_ok as [W1 [W2 W3]].
    destruct (W2 p) as [Pne [PR [PN Pwf]]]; [apply in_map_iff; exists (p, d); auto|].
    assert (Hk : In (p, s) ks).
    { eapply filter_map_In; [exact HIw|]. unfold kp. rewrite ES. reflexivity. }
    split.
    + rewrite <- (resolve_join_good p Pne PR).
      eapply (write_gen_contents _ _ _ _ _ _ _ the_flags_excl EW).
      apply in_map_iff. exists (p, s). split; [reflexivity|exact Hk].
    + cbn [comment savedir]. fold w. fold es. unfold restored.
      assert (He : In (cl, (n, s)) es) by (eapply filter_map_In; eauto).
      pose proof (savedir_entry_Some _ _ _ _ _ _ ES) as [En EC].
      destruct EC as [[Ecl [HNq Es]]|[Ecl HQ]].
      * (* not quoted: no unquote line names it *)
        assert (HX : existsb (bytes_eqb n) (unquote_names (concat (map fst es))) = false).
        { destruct (existsb (bytes_eqb n) (unquote_names (concat (map fst es)))) eqn:EX; auto.
          exfalso. apply existsb_exists in EX. destruct EX as [n' [Hn' Eq]].
          apply BytesFacts.bytes_eqb_eq in Eq. subst n'.
          apply (unquote_names_comment es es_is_ok) in Hn'. destruct Hn' as [s' He'].
          destruct (es_In _ _ _ He') as [p' [d' [HI' ES']]].
          pose proof (savedir_entry_Some _ _ _ _ _ _ ES') as [En' _].
          destruct (W2 p') as [Pne' [PR' _]]; [apply in_map_iff; exists (p', d'); auto|].
          assert (p' = p) by (apply join_sep_inj; auto; congruence). subst p'.
          assert (d' = d) by (eapply NoDup_fst_inj; eauto). subst d'.
          rewrite ES in ES'. inversion ES' as [Ecl']. rewrite Ecl in Ecl'.
          symmetry in Ecl'. eapply uq_line_nonempty; eauto. }
        rewrite HX. rewrite Es. reflexivity.
      * (* quoted: its name is on an unquote line and Unquote inverts Quote *)
        assert (HX : existsb (bytes_eqb n) (unquote_names (concat (map fst es))) = true).
        { apply existsb_exists. exists n. split; [|apply BytesFacts.bytes_eqb_refl].
          apply (unquote_names_comment es es_is_ok). exists s. rewrite <- Ecl. exact He. }
        rewrite HX. eapply unquote_quote; eauto.
  - intros q x HB Hg. destruct (K2 q x HB Hg) as [p [Hp Hc]]. simpl in Hp.
    apply in_map_iff in Hp. destruct Hp as [[p' s] [E Hk]]. simpl in E. subst p'.
    apply kp_In in Hk. destruct Hk as [d [cl [n [HIw ES]]]].
    exists p, d, (cl, (n, s)). split; [|split; auto].
    eapply Permutation_in; [apply walk_order_perm|exact HIw].
Qed.

End RoundTrip.

(* the statement with every hypothesis visible: ANY NUL-free directory string, resolved
   against a current directory of real, NUL-free elements *)
Theorem savedir_extract : forall fl t cwd fs dir,
  Forall real cwd -> Forall nul_free cwd -> has_nul dir = false -> tree_ok t ->
  dir_exists fs (resolve cwd dir) ->
  (forall q, beneath (resolve cwd dir) q -> get fs q = None) ->
  exists fs',
    extract cwd fs dir (txtar_c fl t) = (fs', WOk) /\
    (forall p d cl n s, In (p, d) t -> savedir_entry fl (p, d) = Some (cl, (n, s)) ->
       get fs' (resolve cwd dir ++ p) = Some (File s) /\
       restored (comment (parse (txtar_c fl t))) n s = Some (fix_nl d)) /\
    (forall q x, beneath (resolve cwd dir) q -> get fs' q = Some x ->
       exists p d e, In (p, d) t /\ savedir_entry fl (p, d) = Some e /\
         ((q = resolve cwd dir ++ p /\ exists s, x = File s) \/
          (x = Dir /\ proper q (resolve cwd dir ++ p)))).
Proof. intros. apply savedir_extract_main; auto. Qed.

(* C15: the model of Write with descriptors and failing system calls (Fd.v: write_f) as an
   INSTANCE of the abstract operations the translated txtar.Write runs over.  [fault_os world cwd]
   interprets the operations by the file-system model, lets the fault of the current iteration
   (world i) make them fail the way Fd.v describes, and logs the open / write / close events; the
   translated Write (Gen/TxtarWriteWorldSrc.v) run over it IS write_f: the same file system, the
   same verdict, the same events.  So the theorems of FdFacts.v (descriptor bound, what an error
   leaves behind, containment under every failure) are theorems about the translated function --
   and the close discipline that Fd.v reads from the regenerated shape flags is here a
   consequence of the translation (C15_source_write_eq), not a hand-reading. *)
From Coq Require Import List Bool Arith NArith ZArith Lia.
From Coq.Strings Require Import Byte.
From GI Require Import Lib.Bytes Lib.GoSem Lib.GoSemWorld Gen.TxtarWriteConsts Txtar.Txtar
  TxtarWrite.Path TxtarWrite.PathFacts TxtarWrite.TxtarWrite TxtarWrite.WriteFacts TxtarWrite.Fd TxtarWrite.FdFacts TxtarWrite.Cli TxtarWrite.SrcLib TxtarWrite.SrcWorld
  Gen.TxtarWriteWorldSrc TxtarWrite.SrcWorldFacts.
Import ListNotations.

(* an injected failure as an error value *)
Definition io_byte (o : ioop) : byte :=
  match o with IoMkdir => x6d | IoOpen => x6f | IoWrite => x77 | IoClose => x63 end.
Definition fault_err (o : ioop) : werr := WVal [x66; x61; io_byte o].   (* three bytes: not a verdict of enc_wres *)
Definition dec_fres (e : werr) : fres :=
  match e with
  | WVal [a; b; c] =>
      if beq a x66 && beq b x61 then
        FFault (if beq c x6d then IoMkdir else if beq c x6f then IoOpen else if beq c x77 then IoWrite else IoClose)
      else FR (dec_werr e)
  | _ => FR (dec_werr e)
  end.

Definition is_short (ft : fault) : bool := match ft with FShort _ => true | _ => false end.

(* the world: the file system, the index of the current entry, the events so far *)
Definition fault_os (world : nat -> fault) (cwd : path) : fs_ops :=
  {| World := fsys * nat * list ev;
     Handle := path * oflags;
     FileInfo := bytes * bool * bool;
     nil_handle := ([], flags_of_Z 0);
     op_mkdir_all := fun w d _ =>
       match w with (fs, i, tr) =>
         match world i with
         | FMkdir => (w, fault_err IoMkdir)
         | _ => match mkdir_all (S (length d)) cwd fs d with (fs1, r) => ((fs1, i, tr), enc_wres r) end
         end
       end;
     op_open_file := fun w p flag _ =>
       match w with (fs, i, tr) =>
         match world i with
         | FOpen => (w, ([], flags_of_Z 0), fault_err IoOpen)
         | _ =>
             match os_open (flags_of_Z flag) cwd fs p with
             | inl e => (w, ([], flags_of_Z 0), enc_wres (WErr OpOpen e))
             | inr (fs2, h) => ((fs2, i, tr ++ [EvOpen h]), (h, flags_of_Z flag), WNil)
             end
         end
       end;
     op_write := fun w h d =>
       match w with (fs, i, tr) =>
         let stored := match world i with FShort k => firstn k d | _ => d end in
         ((os_write (snd h) fs (fst h) stored, i, tr ++ [EvWrite (fst h) (length stored)]), len stored,
          if is_short (world i) then fault_err IoWrite else WNil)
       end;
     op_close := fun w h =>
       match w with (fs, i, tr) =>
         ((fs, S i, tr ++ [EvClose (fst h)]), match world i with FClose => fault_err IoClose | _ => WNil end)
       end;
     op_read_file := fun w p =>
       match w with (fs, i, tr) =>
         match os_read_file cwd fs p with
         | inl e => (w, [], enc_errno e)
         | inr d => (w, d, WNil)
         end
       end;
     fi_name := fun fi => fst (fst fi);
     fi_is_dir := fun fi => snd (fst fi);
     fi_mode := fun fi => if snd fi then 0%Z else 1%Z;
     fm_is_regular := fun m => (m =? 0)%Z |}.

Lemma dec_fres_enc r : r <> WOutside -> dec_fres (enc_wres r) = FR r.
Proof.
  intros H. destruct r as [| |o e|]; try reflexivity; try congruence. destruct o, e; reflexivity.
Qed.

Lemma dec_fres_fault o : dec_fres (fault_err o) = FFault o.
Proof. destruct o; reflexivity. Qed.

Lemma fault_err_not_nil o : werr_is_nil (fault_err o) = false.
Proof. reflexivity. Qed.

(* one entry: the reference program over [fault_os] is the model's write_one_f for the shape
   of the current source (nothing pending: the close is not deferred) *)
Lemma write_entry_fault world cwd dir nd fs i tr :
  match write_one_f the_shape the_guard the_flags cwd fs dir nd (world i) with
  | (fs1, v, evs, dfr) =>
      dfr = [] /\
      match v with
      | Some r =>
          exists i' e, write_entry_ops (fault_os world cwd) dir nd (fs, i, tr) = ((fs1, i', tr ++ evs), e) /\
                       werr_is_nil e = false /\ dec_fres e = r
      | None =>
          write_entry_ops (fault_os world cwd) dir nd (fs, i, tr) = ((fs1, S i, tr ++ evs), WNil)
      end
  end.
Proof.
  unfold write_one_f, write_entry_ops.
  destruct (rejected the_guard (clean (from_slash (fst nd)))).
  { split; [reflexivity|]. exists i, (outside_err (fst nd)). rewrite app_nil_r. repeat split. }
  set (fp := join dir (clean (from_slash (fst nd)))).
  cbv beta iota zeta delta [fault_os op_mkdir_all op_open_file op_write op_close].
  change (sh_defer the_shape) with false. change (sh_close_first the_shape) with true.
  change (sh_cerr the_shape) with true. cbv beta iota.
  assert (NO := mkdir_all_not_outside cwd (S (length (dir_of fp))) fs (dir_of fp)).
  destruct (world i) as [| | |k|] eqn:W; cbv beta iota.
  all: try (split; [reflexivity|]; exists i, (fault_err IoMkdir); rewrite app_nil_r; repeat split; fail).
  all: destruct (mkdir_all (S (length (dir_of fp))) cwd fs (dir_of fp)) as [fs1 r1]; cbn [snd] in NO;
       rewrite enc_nil;
       destruct r1 as [| |o e|]; cbn [negb]; repeat (cbv beta iota; rewrite ?W);
       try (split; [reflexivity|]; eexists i, _; rewrite app_nil_r; split; [reflexivity|];
            split; [reflexivity|]; now apply dec_fres_enc).
  all: try (split; [reflexivity|]; exists i, (fault_err IoOpen); rewrite app_nil_r; repeat split; fail).
  all: rewrite flags_of_Z_the_flags;
       destruct (os_open the_flags cwd fs1 fp) as [e|[fs2 h]]; repeat (cbv beta iota; rewrite ?W);
       cbn [werr_is_nil enc_wres fault_err negb fst snd is_short]; repeat (cbv beta iota; rewrite ?W);
       try (split; [reflexivity|]; eexists i, _; rewrite app_nil_r; split; [reflexivity|];
            split; [reflexivity|]; destruct e; reflexivity).
  - (* no fault *) split; [reflexivity|]. rewrite <- !app_assoc. reflexivity.
  - (* short write *) split; [reflexivity|]. eexists (S i), _. rewrite <- !app_assoc. split; [reflexivity|]. split; reflexivity.
  - (* close fails *) split; [reflexivity|]. eexists (S i), _. rewrite <- !app_assoc. split; [reflexivity|]. split; reflexivity.
Qed.

Theorem write_ops_fault world cwd dir : forall files fs i tr,
  match write_gen_f the_shape the_guard the_flags cwd fs dir files world i [] with
  | (fs', r, evs) =>
      exists i' e, write_ops (fault_os world cwd) dir files (fs, i, tr) = ((fs', i', tr ++ evs), e) /\ dec_fres e = r
  end.
Proof.
  induction files as [|nd rest IH]; intros fs i tr.
  - cbn. exists i, WNil. now rewrite app_nil_r.
  - cbn [write_gen_f write_ops]. pose proof (write_entry_fault world cwd dir nd fs i tr) as H.
    destruct (write_one_f the_shape the_guard the_flags cwd fs dir nd (world i)) as [[[fs1 v] evs] dfr].
    destruct H as [-> H]. destruct v as [r|].
    + destruct H as [i' [e [E [N D]]]]. rewrite E, N. exists i', e. cbn [app map]. rewrite app_nil_r. now split.
    + rewrite H. cbn [werr_is_nil app]. specialize (IH fs1 (S i) (tr ++ evs)).
      destruct (write_gen_f the_shape the_guard the_flags cwd fs1 dir rest world (S i) []) as [[fs2 r] evs2].
      destruct IH as [i' [e [E D]]]. exists i', e. rewrite E, app_assoc. now split.
Qed.

(* THE TIE: the translated Write over [fault_os world cwd] is write_f world *)
Theorem src_Write_fault world cwd fs dir a :
  match write_f world cwd fs dir a with
  | (fs', r, evs) =>
      exists i' e, tw_Write (fault_os world cwd) (fs, 0, []) (Some a) dir = Ok ((fs', i', evs), e) /\ dec_fres e = r
  end.
Proof.
  unfold write_f. pose proof (write_ops_fault world cwd dir (files a) fs 0 []) as H.
  destruct (write_gen_f the_shape the_guard the_flags cwd fs dir (files a) world 0 []) as [[fs' r] evs].
  destruct H as [i' [e [E D]]]. exists i', e. rewrite src_Write_eq, E. now split.
Qed.

(* hence, on the translated function under every fault world of Fd.v: at most one descriptor open
   at every moment and none at the end, *)
Theorem src_Write_fault_fd_bounded world cwd fs dir a fs' i' tr e :
  tw_Write (fault_os world cwd) (fs, 0, []) (Some a) dir = Ok ((fs', i', tr), e) ->
  open_after 0 tr = Some 0 /\
  forall t1 t2, tr = t1 ++ t2 -> exists n, open_after 0 t1 = Some n /\ n <= 1.
Proof.
  pose proof (src_Write_fault world cwd fs dir a) as H.
  destruct (write_f world cwd fs dir a) as [[fs1 r] evs] eqn:WF.
  destruct H as [i1 [e1 [E _]]]. rewrite E. intros [= <- _ <- _].
  exact (write_fd_bounded world cwd fs dir a fs1 r evs WF).
Qed.

(* what an error leaves on disk: the entries before the failing one were written exactly as a
   successful Write of them writes them; beyond that only new directories and possibly the failing
   entry's file holding a prefix of its data, *)
Theorem src_Write_fault_error_prefix world cwd fs dir a fs' i' tr e :
  tw_Write (fault_os world cwd) (fs, 0, []) (Some a) dir = Ok ((fs', i', tr), e) -> dec_fres e <> FR WOk ->
  exists k fsk, k < length (files a) /\
    write_gen the_guard the_flags cwd fs dir (firstn k (files a)) = (fsk, WOk) /\
    ext (leftover cwd dir (nth k (files a) ([], []))) fsk fs'.
Proof.
  pose proof (src_Write_fault world cwd fs dir a) as H.
  destruct (write_f world cwd fs dir a) as [[fs1 r] evs] eqn:WF.
  destruct H as [i1 [e1 [E D]]]. rewrite E. intros [= <- _ _ <-] NE. rewrite D in NE.
  exact (write_error_prefix world cwd fs dir a fs1 r evs WF NE).
Qed.

(* and containment and never-overwrites on every failure path *)
Theorem src_Write_fault_contained world cwd fs dir a fs' i' tr e :
  is_abs dir = true -> tw_Write (fault_os world cwd) (fs, 0, []) (Some a) dir = Ok ((fs', i', tr), e) ->
  forall p, get fs' p <> get fs p ->
    get fs p = None /\
    (within (resolve cwd dir) p \/ (get fs' p = Some Dir /\ within p (resolve cwd dir))).
Proof.
  intros A. pose proof (src_Write_fault world cwd fs dir a) as H.
  destruct (write_f world cwd fs dir a) as [[fs1 r] evs] eqn:WF.
  destruct H as [i1 [e1 [E _]]]. rewrite E. intros [= <- _ _ _].
  exact (write_f_contained world cwd fs dir a fs1 r evs A WF).
Qed.

Theorem src_Write_fault_never_overwrites world cwd fs dir a fs' i' tr e :
  tw_Write (fault_os world cwd) (fs, 0, []) (Some a) dir = Ok ((fs', i', tr), e) ->
  forall p x, get fs p = Some x -> get fs' p = Some x.
Proof.
  pose proof (src_Write_fault world cwd fs dir a) as H.
  destruct (write_f world cwd fs dir a) as [[fs1 r] evs] eqn:WF.
  destruct H as [i1 [e1 [E _]]]. rewrite E. intros [= <- _ _ _].
  exact (write_f_never_overwrites world cwd fs dir a fs1 r evs WF).
Qed.

(* txtar.Write, txtar.ParseFile and the walk function of cmd/txtar-c (C15): the vocabulary of
   Gen/TxtarWriteWorldSrc.v -- those functions translated from the Go source by harness/go2coq in
   world mode -- and the hand-written REFERENCE PROGRAMS over the same abstract operations that
   TxtarWrite/SrcWorldFacts.v proves the translations equal to.  DEFINITIONS ONLY.

   [fs_ops] is the record of UNINTERPRETED operating-system operations the translated functions
   call, on an abstract [World].  Nothing is assumed of them: every theorem of SrcWorldFacts.v
   that mentions a variable OS holds for every value of this record.  Each field is the
   denotation the table (harness/cmd/genconsts/gen_txtarwrite_world_src.go) gives to one Go call:

     op_mkdir_all w path perm          os.MkdirAll(path, perm)                       error
     op_open_file w name flag perm     os.OpenFile(name, flag, perm)                 (handle, error)
     op_write w f b                    f.Write(b)                                    (int, error)
     op_close w f                      f.Close()                                     error
     op_read_file w name               os.ReadFile(name)                             ([]byte, error)
     fi_name, fi_is_dir, fi_mode fi    fi.Name(), fi.IsDir(), fi.Mode(): functions of the fs.FileInfo
     fm_is_regular m                   m.IsRegular()

   The pure library calls are DEFINED as functions the hand-written model already uses for the
   same call (TxtarWrite/SrcLib.v for Clean / FromSlash / IsAbs / Join; below for the others). *)
From Coq Require Import List Bool Arith NArith ZArith.
From Coq.Strings Require Import Byte.
From GI Require Import Lib.Bytes Lib.GoSem Lib.GoSemWorld Gen.TxtarWriteConsts Txtar.Txtar
  TxtarWrite.Path TxtarWrite.TxtarWrite TxtarWrite.Cli.
Import ListNotations.

Record fs_ops : Type := {
  World : Type;
  Handle : Type;                       (* the Go type "pointer to os.File" *)
  FileInfo : Type;                     (* fs.FileInfo *)
  nil_handle : Handle;                 (* the nil pointer of that type *)
  op_mkdir_all : World -> bytes -> Z -> World * werr;
  op_open_file : World -> bytes -> Z -> Z -> World * Handle * werr;
  op_write : World -> Handle -> bytes -> World * Z * werr;
  op_close : World -> Handle -> World * werr;
  op_read_file : World -> bytes -> World * bytes * werr;
  fi_name : FileInfo -> bytes;
  fi_is_dir : FileInfo -> bool;
  fi_mode : FileInfo -> Z;
  fm_is_regular : Z -> bool
}.

(* ------------------------------------------------------------------ library denotations *)

(* filepath.Dir(path), filepath.ToSlash(path): the functions of TxtarWrite/Path.v (Unix) *)
Definition go_filepath_Dir (p : bytes) : bytes := dir_of p.
Definition go_filepath_ToSlash (p : bytes) : bytes := to_slash p.

(* fmt.Errorf(format, args...) with string arguments: a non-nil error determined by them *)
Definition go_fmt_Errorf (format : bytes) (args : list bytes) : werr :=
  WMade [x66; x6d; x74; x2e; x45; x72; x72; x6f; x72; x66] (format :: args) WNil.

(* filepath.SkipDir *)
Definition werr_SkipDir : werr :=
  WVal [x70; x61; x74; x68; x2f; x66; x69; x6c; x65; x70; x61; x74; x68; x2e; x53; x6b; x69; x70; x44; x69; x72].

(* txtar.Parse, txtar.NeedsQuote, txtar.Quote: the model functions of Txtar/Txtar.v, which
   Txtar/SrcFacts.v proves equal to the translations of these functions (Gen/TxtarSrc.v) *)
Definition go_txtar_Parse (data : bytes) : option archive := Some (parse data).
Definition go_txtar_NeedsQuote (data : bytes) : bool := needs_quote data.
Definition werr_quote : werr := WVal [x74; x78; x74; x61; x72; x2e; x51; x75; x6f; x74; x65].
Definition go_txtar_Quote (data : bytes) : bytes * werr :=
  match quote data with
  | Some q => (q, WNil)
  | None => ([], werr_quote)
  end.

(* the numbers Linux gives the open(2) flags (fcntl.h); SrcWorldFacts.v checks them against the
   values of os.O_* the generator evaluated the source's flag expression with *)
Definition O_WRONLY : Z := 1.
Definition O_CREATE : Z := 64.
Definition O_EXCL : Z := 128.
Definition O_TRUNC : Z := 512.
Definition O_APPEND : Z := 1024.

(* the flag word of the model's flag record, and back *)
Definition flags_Z (fl : oflags) : Z :=
  ((if o_wronly fl then O_WRONLY else 0) + (if o_create fl then O_CREATE else 0)
   + (if o_excl fl then O_EXCL else 0) + (if o_trunc fl then O_TRUNC else 0)
   + (if o_append fl then O_APPEND else 0))%Z.
Definition flags_of_Z (z : Z) : oflags :=
  {| o_wronly := Z.testbit z 0; o_create := Z.testbit z 6; o_excl := Z.testbit z 7;
     o_trunc := Z.testbit z 9; o_append := Z.testbit z 10 |}.

(* "%q: outside parent directory" *)
Definition outside_format : bytes :=
  [x25; x71; x3a; x20; x6f; x75; x74; x73; x69; x64; x65; x20; x70; x61; x72; x65; x6e; x74; x20;
   x64; x69; x72; x65; x63; x74; x6f; x72; x79].
Definition outside_err (name : bytes) : werr := go_fmt_Errorf outside_format [name].

(* ------------------------------------------------------------------ reference: txtar.Write *)

Section Ref.
Variable OS : fs_ops.

(* One entry of the archive, as the model's write_one reads the loop body, over the abstract
   operations: clean the name and decide containment -- the error without touching anything;
   otherwise MkdirAll of the parent (permission bits of the source), the exclusive create
   (flags and permission bits of the source), ONE Write of all the data, Close; the first error
   is the result, except that Close is called before the error of Write is looked at.
   The result: the world afterwards and the error (WNil: go on with the next entry). *)
Definition write_entry_ops (dir : bytes) (nd : bytes * bytes) (w : World OS) : World OS * werr :=
  let fp := clean (from_slash (fst nd)) in
  if rejected the_guard fp then (w, outside_err (fst nd))
  else
    let fp := join dir fp in
    match op_mkdir_all OS w (dir_of fp) (Z.of_N write_dir_perm) with
    | (w1, e1) =>
        if negb (werr_is_nil e1) then (w1, e1)
        else
          match op_open_file OS w1 fp (flags_Z the_flags) (Z.of_N write_file_perm) with
          | (w2, h, e2) =>
              if negb (werr_is_nil e2) then (w2, e2)
              else
                match op_write OS w2 h (snd nd) with
                | (w3, _, e3) =>
                    match op_close OS w3 h with
                    | (w4, e4) => if negb (werr_is_nil e3) then (w4, e3) else (w4, e4)
                    end
                end
          end
    end.

(* for _, f := range a.Files { ... return err ... }; return nil *)
Fixpoint write_ops (dir : bytes) (files : list (bytes * bytes)) (w : World OS) : World OS * werr :=
  match files with
  | [] => (w, WNil)
  | nd :: rest =>
      match write_entry_ops dir nd w with
      | (w1, e) => if werr_is_nil e then write_ops dir rest w1 else (w1, e)
      end
  end.

(* txtar.ParseFile *)
Definition parse_file_ops (file : bytes) (w : World OS) : World OS * option archive * werr :=
  match op_read_file OS w file with
  | (w1, data, e) => if negb (werr_is_nil e) then (w1, None, e) else (w1, Some (parse data), WNil)
  end.

(* ---------------------------------------------------------------- reference: the walk function of txtar-c *)

(* the model's file_entry with the entry's name given as a string (file_entry fl (p, d) is
   file_entry_named fl (join_sep p) d: SrcWorldFacts.file_entry_named_eq) *)
Definition file_entry_named (fl : sflags) (name d : bytes) : option (bytes * (bytes * bytes)) :=
  if negb (utf8_valid d) then None
  else
    let d1 := fix_nl d in
    if needs_quote d1 then
      if f_quote fl then
        match quote d1 with
        | None => None
        | Some q => Some (savedir_unquote_prefix ++ name ++ savedir_unquote_suffix, (to_slash name, q))
        end
      else None
    else Some ([], (to_slash name, d1)).

(* func(path string, info os.FileInfo, err error) error of cmd/txtar-c, on the archive [a] built
   so far: an error of the walk is handed back; the root itself is passed over; a name with the
   dot prefix (unless -a) is skipped -- SkipDir for a directory; anything that is not a regular
   file is passed over; the file is read (an error is handed back); then the model's decision
   file_entry on the name relative to the root: nothing, or a comment line and an entry appended
   to the archive. *)
Definition walk_fn_ops (fl : sflags) (w : World OS) (a : archive) (dir path : bytes) (info : FileInfo OS)
    (err : werr) : World OS * archive * werr :=
  if negb (werr_is_nil err) then (w, a, err)
  else if bytes_eqb path dir then (w, a, WNil)
  else if skip_name fl (fi_name OS info) then (w, a, if fi_is_dir OS info then werr_SkipDir else WNil)
  else if negb (fm_is_regular OS (fi_mode OS info)) then (w, a, WNil)
  else
    match op_read_file OS w path with
    | (w1, data, e) =>
        if negb (werr_is_nil e) then (w1, a, e)
        else
          match file_entry_named fl (TxtarWrite.trim_prefix (dir ++ [SEP]) path) data with
          | None => (w1, a, WNil)
          | Some (cl, ent) => (w1, {| comment := comment a ++ cl; files := files a ++ [ent] |}, WNil)
          end
    end.

End Ref.

(* ------------------------------------------------------------------ the calls, observed *)

(* [traced OS] is OS with a log: every operation appends the call with its arguments and what it
   answered.  Running a function over [traced OS] shows which operations it performs, in which
   order, with which arguments -- for every behaviour of OS. *)
Inductive fs_ev (H : Type) : Type :=
| EMkdirAll (p : bytes) (perm : Z) (e : werr)
| EOpenFile (p : bytes) (flag perm : Z) (h : H) (e : werr)
| EWrite (h : H) (d : bytes) (n : Z) (e : werr)
| EClose (h : H) (e : werr)
| EReadFile (p : bytes) (d : bytes) (e : werr).
Arguments EMkdirAll {H}.
Arguments EOpenFile {H}.
Arguments EWrite {H}.
Arguments EClose {H}.
Arguments EReadFile {H}.

Definition traced (OS : fs_ops) : fs_ops :=
  {| World := World OS * list (fs_ev (Handle OS));
     Handle := Handle OS;
     FileInfo := FileInfo OS;
     nil_handle := nil_handle OS;
     op_mkdir_all := fun w p perm =>
       match op_mkdir_all OS (fst w) p perm with (w1, e) => ((w1, snd w ++ [EMkdirAll p perm e]), e) end;
     op_open_file := fun w p flag perm =>
       match op_open_file OS (fst w) p flag perm with
       | (w1, h, e) => ((w1, snd w ++ [EOpenFile p flag perm h e]), h, e) end;
     op_write := fun w h d =>
       match op_write OS (fst w) h d with (w1, n, e) => ((w1, snd w ++ [EWrite h d n e]), n, e) end;
     op_close := fun w h =>
       match op_close OS (fst w) h with (w1, e) => ((w1, snd w ++ [EClose h e]), e) end;
     op_read_file := fun w p =>
       match op_read_file OS (fst w) p with (w1, d, e) => ((w1, snd w ++ [EReadFile p d e]), d, e) end;
     fi_name := fi_name OS; fi_is_dir := fi_is_dir OS; fi_mode := fi_mode OS;
     fm_is_regular := fm_is_regular OS |}.

(* descriptors open after the events: a successful OpenFile opens one, every Close closes one
   (None: a close without an open) *)
Fixpoint fds_after {H} (n : nat) (t : list (fs_ev H)) : option nat :=
  match t with
  | [] => Some n
  | EOpenFile _ _ _ _ e :: r => if werr_is_nil e then fds_after (S n) r else fds_after n r
  | EClose _ _ :: r => match n with 0 => None | S m => fds_after m r end
  | _ :: r => fds_after n r
  end.

(* the calls one entry makes, given what the operating system answers: the four shapes *)
Inductive entry_trace {H} (dir : bytes) (nd : bytes * bytes) : list (fs_ev H) -> bool -> Prop :=
| ET_outside :
    rejected the_guard (clean (from_slash (fst nd))) = true -> entry_trace dir nd [] false
| ET_mkdir_fails e :
    rejected the_guard (clean (from_slash (fst nd))) = false -> werr_is_nil e = false ->
    entry_trace dir nd
      [EMkdirAll (dir_of (join dir (clean (from_slash (fst nd))))) (Z.of_N write_dir_perm) e] false
| ET_open_fails h e :
    rejected the_guard (clean (from_slash (fst nd))) = false -> werr_is_nil e = false ->
    entry_trace dir nd
      [EMkdirAll (dir_of (join dir (clean (from_slash (fst nd))))) (Z.of_N write_dir_perm) WNil;
       EOpenFile (join dir (clean (from_slash (fst nd)))) (flags_Z the_flags) (Z.of_N write_file_perm) h e] false
| ET_written h n e3 e4 :
    rejected the_guard (clean (from_slash (fst nd))) = false ->
    entry_trace dir nd
      [EMkdirAll (dir_of (join dir (clean (from_slash (fst nd))))) (Z.of_N write_dir_perm) WNil;
       EOpenFile (join dir (clean (from_slash (fst nd)))) (flags_Z the_flags) (Z.of_N write_file_perm) h WNil;
       EWrite h (snd nd) n e3; EClose h e4] (werr_is_nil e3 && werr_is_nil e4).

(* the calls of Write: the entries in order, each with one of the four shapes, up to and
   including the first that does not end well *)
Inductive write_trace {H} (dir : bytes) : list (bytes * bytes) -> list (fs_ev H) -> Prop :=
| WT_nil : write_trace dir [] []
| WT_stop nd rest t : entry_trace dir nd t false -> write_trace dir (nd :: rest) t
| WT_go nd rest t t' : entry_trace dir nd t true -> write_trace dir rest t' -> write_trace dir (nd :: rest) (t ++ t').

(* ------------------------------------------------------------------ the file-system model as an operating system *)

(* the errors of the model's system calls as error values: one named value per (call, errno) *)
Definition op_byte (o : opname) : byte := match o with OpMkdir => x6d | OpOpen => x6f end.
Definition errno_byte (e : errno) : byte :=
  match e with EEXIST => x01 | ENOENT => x02 | ENOTDIR => x03 | EISDIR => x04 | EINVAL => x05 end.
Definition enc_wres (r : wres) : werr :=
  match r with
  | WOk => WNil
  | WOutside => outside_err []
  | WErr o e => WVal [op_byte o; errno_byte e]
  | WOutOfFuel => WVal [x00]
  end.
(* ... and back: what an error value returned by Write over the model means as a verdict *)
Definition dec_werr (e : werr) : wres :=
  match e with
  | WNil => WOk
  | WMade _ _ _ => WOutside
  | WVal [o; n] =>
      WErr (if beq o x6d then OpMkdir else OpOpen)
           (if beq n x01 then EEXIST else if beq n x02 then ENOENT else if beq n x03 then ENOTDIR
            else if beq n x04 then EISDIR else EINVAL)
  | WVal _ => WOutOfFuel
  end.
Definition enc_errno (e : errno) : werr := WVal [x72; errno_byte e].

(* [model_fs cwd]: the Unix file system of TxtarWrite.v (no symbolic links) as a record of
   operations.  The world is the file system; a handle is the file opened and the flags it was
   opened with; MkdirAll is the model's mkdir_all (with the fuel that always suffices), OpenFile
   the model's open(2) with the flag word decoded, Write one write(2) of all the data, Close
   nothing; ReadFile the model's os_read_file; a FileInfo is (name, is a directory, is regular). *)
Definition model_fs (cwd : path) : fs_ops :=
  {| World := fsys;
     Handle := path * oflags;
     FileInfo := bytes * bool * bool;
     nil_handle := ([], flags_of_Z 0);
     op_mkdir_all := fun fs d _ =>
       match mkdir_all (S (length d)) cwd fs d with (fs1, r) => (fs1, enc_wres r) end;
     op_open_file := fun fs p flag _ =>
       match os_open (flags_of_Z flag) cwd fs p with
       | inl e => (fs, ([], flags_of_Z 0), enc_wres (WErr OpOpen e))
       | inr (fs2, h) => (fs2, (h, flags_of_Z flag), WNil)
       end;
     op_write := fun fs h d => (os_write (snd h) fs (fst h) d, len d, WNil);
     op_close := fun fs _ => (fs, WNil);
     op_read_file := fun fs p =>
       match os_read_file cwd fs p with
       | inl e => (fs, [], enc_errno e)
       | inr d => (fs, d, WNil)
       end;
     fi_name := fun fi => fst (fst fi);
     fi_is_dir := fun fi => snd (fst fi);
     fi_mode := fun fi => if snd fi then 0%Z else 1%Z;
     fm_is_regular := fun m => (m =? 0)%Z |}.

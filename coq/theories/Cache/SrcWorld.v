(* cache/cache.go (C05, C11, C12): the vocabulary of Gen/CacheWorldSrc.v -- the effectful skeleton
   of the cache translated from the Go source by harness/go2coq in world mode -- and the
   interpreter that runs the hand-written program terms of Cache/Cache.v over the same abstract
   operations.  DEFINITIONS ONLY.

   [os_ops] is the record of UNINTERPRETED operating-system operations the translated functions
   call, on an abstract [World].  Nothing is assumed of them: every theorem of
   Cache/SrcWorldFacts.v that mentions a variable OS holds for every value of this record (the
   few premises about the operations are stated where they are used and discussed at the end of
   this file).  Each field is the denotation the table
   (harness/cmd/genconsts/gen_cacheworld_src.go) gives to one Go call:

     op_now w, op_time_now w          c.now(), time.Now(): QUERIES -- the clock is part of the
                                      world; reading it changes nothing, every operation may
                                      advance it
     op_stat w name                   os.Stat(name)                              (FileInfo, error)
     op_open w name                   os.Open(name)                              (handle, error)
     op_open_file w name flag perm    os.OpenFile(name, flag, perm)              (handle, error)
     op_read_file w name              os.ReadFile(name)                          ([]byte, error)
     op_remove w name                 os.Remove(name)                            error
     op_chtimes w name atime mtime    os.Chtimes(name, atime, mtime)             error
     op_close w f                     f.Close()                                  error
     op_read w f n                    f.Read(buf) with len(buf) = n: the bytes delivered, error
     op_write w f b                   f.Write(b), f.WriteString(b)               (int, error)
     op_truncate w f n                f.Truncate(n)                              error
     fi_size fi, fi_modtime fi        fi.Size(), fi.ModTime(): functions of the FileInfo

   Composite library calls, defined from the operations (what the table claims of the library):
     io_read_full   io.ReadFull(f, buf): Read calls for the part of buf still to fill until it
                    is full, a Read reports an error, or a Read delivers nothing; the error is
                    nil for a full buffer, io.ErrUnexpectedEOF after io.EOF behind some bytes,
                    else the error of the last Read.  (A Read that delivers no bytes and no error
                    would make Go's loop call Read again; os.File never does that.  Here it ends
                    the loop, as in the model's read_full.)
   The pure library calls are the functions of Cache/SrcLib.v, with error VALUES where SrcLib.v
   (written for the pure segments) says only "an error". *)
From Coq Require Import List Bool Arith NArith ZArith.
From Coq.Strings Require Import Byte.
From GI Require Import Lib.Bytes Lib.GoSem Lib.GoSemSeg Lib.GoSemWorld Lib.GoSemWorldVal.
From GI Require Import Gen.CacheConsts Cache.CacheEntry Cache.Cache Cache.SrcLib.
From GI Require TxtarWrite.Path.
Import ListNotations.

Record os_ops : Type := {
  World : Type;
  Handle : Type;                       (* the Go type "pointer to os.File" *)
  FileInfo : Type;                     (* fs.FileInfo *)
  nil_handle : Handle;
  nil_fileinfo : FileInfo;
  fi_size : FileInfo -> Z;
  fi_modtime : FileInfo -> go_time;
  op_now : World -> go_time;
  op_time_now : World -> go_time;
  op_stat : World -> bytes -> World * FileInfo * werr;
  op_open : World -> bytes -> World * Handle * werr;
  op_open_file : World -> bytes -> Z -> Z -> World * Handle * werr;
  op_read_file : World -> bytes -> World * bytes * werr;
  op_remove : World -> bytes -> World * werr;
  op_chtimes : World -> bytes -> go_time -> go_time -> World * werr;
  op_close : World -> Handle -> World * werr;
  op_read : World -> Handle -> Z -> World * bytes * werr;
  op_write : World -> Handle -> bytes -> World * Z * werr;
  op_truncate : World -> Handle -> Z -> World * werr
}.

(* ------------------------------------------------------------------ error values *)

(* io.EOF, io.ErrUnexpectedEOF, cache.errVerifyMode *)
Definition werr_EOF : werr := WVal [x69; x6f; x2e; x45; x4f; x46].
Definition werr_ErrUnexpectedEOF : werr :=
  WVal [x69; x6f; x2e; x45; x72; x72; x55; x6e; x65; x78; x70; x65; x63; x74; x65; x64; x45; x4f; x46].
Definition werr_VerifyMode : werr :=
  WVal [x63; x61; x63; x68; x65; x2e; x65; x72; x72; x56; x65; x72; x69; x66; x79; x4d; x6f; x64; x65].

(* errors.New(text): an error determined by the text *)
Definition go_errors_New (text : bytes) : werr :=
  WMade [x65; x72; x72; x6f; x72; x73; x2e; x4e; x65; x77] [text] WNil.

(* fmt.Errorf(format, args...): an error determined by the format and the arguments; the first
   error among the arguments is kept as the inner error *)
Fixpoint first_err_arg (l : list wany) : werr :=
  match l with
  | [] => WNil
  | WAnyE e :: _ => e
  | _ :: r => first_err_arg r
  end.
Fixpoint bytes_args (l : list wany) : list bytes :=
  match l with
  | [] => []
  | WAnyV (GoAnyBytes b) :: r => b :: bytes_args r
  | _ :: r => bytes_args r
  end.
Definition go_fmt_Errorf_w (format : bytes) (args : list wany) : werr :=
  WMade [x66; x6d; x74; x2e; x45; x72; x72; x6f; x72; x66] (format :: bytes_args args) (first_err_arg args).

(* the errors of hex.Decode and strconv.ParseInt: named values (SrcLib.v says "an error") *)
Definition werr_hex : werr := WVal [x68; x65; x78; x2e; x44; x65; x63; x6f; x64; x65].
Definition werr_parse_int : werr :=
  WVal [x73; x74; x72; x63; x6f; x6e; x76; x2e; x50; x61; x72; x73; x65; x49; x6e; x74].

(* ------------------------------------------------------------------ pure library calls *)

(* fmt.Sprintf(format, args...): SrcLib.go_fmt_Sprintf; an error among the arguments is outside
   the modelled domain *)
Definition go_fmt_Sprintf_w (format : bytes) (args : list wany) : GoSem.res bytes :=
  match wany_values args with
  | Some l => go_fmt_Sprintf format l
  | None => Panic
  end.

(* hex.Decode(x[lo:hi], src): SrcLib.go_hex_Decode on the slice; the value of x afterwards, the
   count and the error *)
Definition go_hex_Decode_w (x : bytes) (lo hi : Z) (src : bytes) : GoSem.res (bytes * Z * werr) :=
  match go_slice x lo hi with
  | Ok s =>
      match go_hex_Decode s src with
      | Ok (s', (n, e)) => Ok (splice x lo hi s', n, if e then werr_hex else WNil)
      | Panic => Panic
      | OutOfFuel => OutOfFuel
      end
  | Panic => Panic
  | OutOfFuel => OutOfFuel
  end.

(* strconv.ParseInt(s, base, bitSize): SrcLib.go_strconv_ParseInt *)
Definition go_strconv_ParseInt_w (s : bytes) (base bits : Z) : GoSem.res (Z * werr) :=
  match go_strconv_ParseInt s base bits with
  | Ok (v, e) => Ok (v, if e then werr_parse_int else WNil)
  | Panic => Panic
  | OutOfFuel => OutOfFuel
  end.

(* ------------------------------------------------------------------ io.ReadFull *)

Section Ops.
Variable OS : os_ops.

(* the Read calls: need bytes still to fill; what was delivered so far.  Ends with the error of
   the Read that ended it (nil: the buffer is full) *)
Fixpoint read_full_ops (fuel : nat) (w : World OS) (f : Handle OS) (need : Z) (acc : bytes)
  : World OS * bytes * werr :=
  match fuel with
  | O => (w, acc, WNil)
  | S k =>
      if (need <=? 0)%Z then (w, acc, WNil)
      else
        match op_read OS w f need with
        | (w1, b, e) =>
            if negb (werr_is_nil e) then (w1, acc ++ b, e)
            else if (len b =? 0)%Z then (w1, acc, werr_EOF)
            else read_full_ops k w1 f (need - len b)%Z (acc ++ b)
        end
  end.

(* io.ReadFull(f, x[lo:hi]): the value of x afterwards, the count, the error *)
Definition io_read_full (w : World OS) (f : Handle OS) (x : bytes) (lo hi : Z)
  : World OS * bytes * Z * werr :=
  let min := (hi - lo)%Z in
  match read_full_ops (S (Z.to_nat min)) w f min [] with
  | (w1, got, e) =>
      let n := len got in
      (w1, firstn (Z.to_nat lo) x ++ got ++ skipn (Z.to_nat (lo + n)) x, n,
       if (n >=? min)%Z then WNil
       else if (n >? 0)%Z && werr_eqb e werr_EOF then werr_ErrUnexpectedEOF
       else e)
  end.

End Ops.

(* the numbers Linux gives the open(2) flags; SrcWorldFacts.v checks them against the values of
   os.O_* the generator evaluated the source's flag expressions with *)
Definition O_RDONLY : Z := 0.
Definition O_WRONLY : Z := 1.
Definition O_RDWR : Z := 2.
Definition O_CREATE : Z := 64.
Definition O_TRUNC : Z := 512.
(* the permission bits of both OpenFile calls *)
Definition file_perm : Z := 438.

(* ------------------------------------------------------------------ *)
(* the interpreter of the model's program terms over the abstract operations.

   A program of Cache.v names the file of every operation by its [path] (IdxP id / DatP out) and
   carries the offsets of reads and writes explicitly (every descriptor is private to one call).
   The code names files by strings for Stat / Open / OpenFile / ReadFile / Remove / Chtimes and
   by the open handle for Read / Write / Truncate / Close, whose position is implicit.
   [run_prog] supplies the translation: [file_name dir p] is what Cache.fileName computes for
   p (Cache/SrcWorldFacts.v: cw_fileName_eq); the handle is the one the program's last OOpen
   returned (at most one file is open at a time in every program of Cache.v; a deferred Close
   after an explicit one closes the same handle again, as in the code); the offsets are not
   handed to the operations (they are the model's account of the descriptor's position).
   The operations are performed in the order the program prescribes, each exactly once:

     OStat p               os.Stat(name)            RSize (fi.Size()) / RErr
     OOpen p false false   os.Open(name)            ROk / RErr
     OOpen p c t           os.OpenFile(name, fl, 0666), fl = O_WRONLY (index entry) or O_RDWR
                           (output file) | O_CREATE if c | O_TRUNC if t
     ORead p off n         f.Read(buf), len(buf) = n   RBytes b / RErr
     OReadAll p            with no file open: os.ReadFile(name); RBytes of the data returned,
                           whatever the error (GetBytes ignores the error and hashes the data)
     OWrite p off b        f.Write(b)               RWrote (length b) when the error is nil
                                                    (io.Writer: n < len(b) comes with an error), else RErr
     OTruncate p n         f.Truncate(n)
     OClose p              f.Close()
     ORemove p             os.Remove(name)
     OChtimes p            os.Chtimes(name, c.now(), c.now())  *)

Section Run.
Variable OS : os_ops.
Variable dir : bytes.                   (* c.dir *)

Definition path_id (p : path) : bytes := match p with IdxP id => id | DatP out => out end.

(* filepath.Join(c.dir, fmt.Sprintf("%02x", id[0]), fmt.Sprintf("%x", id)+"-"+key) *)
Definition file_name (p : path) : bytes :=
  Path.join (Path.join dir (hex (firstn 1 (path_id p)))) (path_name p).

Definition mres : Type := Cache.res.
Definition res_of_err (e : werr) : mres := if werr_is_nil e then ROk else RErr.

Definition open_flags (p : path) (create trunc : bool) : Z :=
  ((match p with IdxP _ => O_WRONLY | DatP _ => O_RDWR end)
   + (if create then O_CREATE else 0) + (if trunc then O_TRUNC else 0))%Z.

(* the state of a run: the world, the handle of the last open, whether it is open *)
Definition rstate : Type := (World OS * Handle OS * bool)%type.

Definition do_op (o : op) (st : rstate) : rstate * mres :=
  match st with
  | (w, h, opn) =>
      match o with
      | OStat p =>
          match op_stat OS w (file_name p) with
          | (w1, fi, e) => ((w1, h, opn), if werr_is_nil e then RSize (Z.to_nat (fi_size OS fi)) else RErr)
          end
      | OOpen p create trunc =>
          match (if create || trunc then op_open_file OS w (file_name p) (open_flags p create trunc) file_perm
                 else op_open OS w (file_name p)) with
          | (w1, h1, e) => ((w1, h1, werr_is_nil e), res_of_err e)
          end
      | ORead p off n =>
          match op_read OS w h (Z.of_nat n) with
          | (w1, b, e) => ((w1, h, opn), if werr_is_nil e then RBytes b else RErr)
          end
      | OReadAll p =>
          match op_read_file OS w (file_name p) with
          | (w1, b, e) => ((w1, h, opn), RBytes b)
          end
      | OWrite p off b =>
          match op_write OS w h b with
          | (w1, n, e) => ((w1, h, opn), if werr_is_nil e then RWrote (length b) else RErr)
          end
      | OTruncate p n =>
          match op_truncate OS w h (Z.of_nat n) with
          | (w1, e) => ((w1, h, opn), res_of_err e)
          end
      | OClose p =>
          match op_close OS w h with
          | (w1, e) => ((w1, h, false), res_of_err e)
          end
      | ORemove p =>
          match op_remove OS w (file_name p) with
          | (w1, e) => ((w1, h, opn), res_of_err e)
          end
      | OChtimes p =>
          match op_chtimes OS w (file_name p) (op_now OS w) (op_now OS w) with
          | (w1, e) => ((w1, h, opn), res_of_err e)
          end
      end
  end.

Fixpoint run_prog {A : Type} (p : prog A) (st : rstate) : rstate * A :=
  match p with
  | Ret a => (st, a)
  | Op o k => match do_op o st with (st1, r) => run_prog (k r) st1 end
  end.

Definition st_world (st : rstate) : World OS := fst (fst st).

End Run.

(* ------------------------------------------------------------------ *)
(* facts of the operating system that the hand-written model builds in, and that the equalities
   of SrcWorldFacts.v therefore need as premises (everything else is arbitrary):

   - [always_fresh]: "files are assumed fresh" (header of Cache.v): whenever os.Stat succeeds,
     the modification time it reports is less than mtimeInterval before the clock.  Cache.used
     then returns without Chtimes, which is what the model's used_prog does after a successful
     Stat.  (The refresh of stale files matters to Trim, C13, whose model is CacheTrim.v.)
   - [read_contract]: what os.File.Read promises: at most len(buf) bytes; either some bytes
     and no error, or no bytes and io.EOF.  The model's read_full stops at a Read that delivers
     nothing and does not look at why; the code tells io.EOF (io.ErrUnexpectedEOF from ReadFull)
     from other errors and reports a miss for the others even behind a complete entry. *)
Definition mtime_interval : Z := 3600000000000.

Definition always_fresh (OS : os_ops) : Prop :=
  forall w name,
    match op_stat OS w name with
    | (w1, fi, e) =>
        werr_is_nil e = true ->
        (go_time_Sub (op_now OS w1) (fi_modtime OS fi) <? mtime_interval)%Z = true
    end.

Definition read_contract (OS : os_ops) : Prop :=
  forall w f n, (0 < n)%Z ->
    match op_read OS w f n with
    | (w1, b, e) =>
        (len b <= n)%Z /\
        (werr_is_nil e = true -> b <> []) /\
        (werr_is_nil e = false -> b = [] /\ e = werr_EOF)
    end.

(* ------------------------------------------------------------------ *)
(* projections: what of a translated function's outcome the model speaks about *)

(* the error a lookup returns for a miss is an entryNotFoundError *)
Definition not_found_err (reason : werr) : werr :=
  WMade [x67; x69; x74; x68; x75; x62; x2e; x63; x6f; x6d; x2f; x72; x6f; x67; x70; x65; x70; x70; x65; x2f; x67; x6f;
         x2d; x69; x6e; x74; x65; x72; x6e; x61; x6c; x2f; x63; x61; x63; x68; x65; x2e; x65; x6e; x74; x72; x79; x4e;
         x6f; x74; x46; x6f; x75; x6e; x64; x45; x72; x72; x6f; x72] [] reason.
Definition is_not_found (e : werr) : bool :=
  match e with WMade _ [] _ => true | _ => false end.

(* Facts about the index-entry codec (C05: entry_roundtrip, parse_entry_strict). *)
From Coq Require Import List Bool Arith NArith ZArith Lia.
From Coq.Strings Require Import Byte.
From GI Require Import Lib.Bytes Gen.CacheConsts Cache.CacheEntry.
Import ListNotations.
Local Open Scope Z_scope.

(* ---- byte strings *)
Lemma beq_eq : forall a b, beq a b = true <-> a = b.
Proof.
  intros a b; unfold beq; split.
  - apply Byte.byte_dec_bl.
  - apply Byte.byte_dec_lb.
Qed.

Lemma beq_refl : forall a, beq a a = true.
Proof. intros; apply beq_eq; reflexivity. Qed.

Lemma bytes_eqb_eq : forall a b, bytes_eqb a b = true <-> a = b.
Proof.
  induction a as [|x a IH]; destruct b as [|y b]; cbn; split; intros E; try congruence; try discriminate.
  - apply andb_true_iff in E as [E1 E2]. apply beq_eq in E1. apply IH in E2. congruence.
  - inversion E; subst. rewrite beq_refl. cbn. apply IH. reflexivity.
Qed.

Lemma bytes_eqb_refl : forall a, bytes_eqb a a = true.
Proof. intros; apply bytes_eqb_eq; reflexivity. Qed.

Lemma bytes_eqb_neq : forall a b, bytes_eqb a b = false <-> a <> b.
Proof.
  intros a b; split.
  - intros E Hab. apply bytes_eqb_eq in Hab. congruence.
  - intros N. destruct (bytes_eqb a b) eqn:E; [apply bytes_eqb_eq in E; contradiction|reflexivity].
Qed.

Lemma firstn_app_len : forall (x y : bytes) n, length x = n -> firstn n (x ++ y) = x.
Proof. intros x y n <-. rewrite firstn_app, Nat.sub_diag, firstn_all. cbn. apply app_nil_r. Qed.

Lemma skipn_app_len : forall (x y : bytes) n, length x = n -> skipn n (x ++ y) = y.
Proof. intros x y n <-. rewrite skipn_app, Nat.sub_diag, skipn_all. reflexivity. Qed.

Lemma byte_at_app_len : forall (x y : bytes) b n, length x = n -> byte_at n (x ++ b :: y) = b.
Proof. intros x y b n <-. unfold byte_at. rewrite app_nth2, Nat.sub_diag by lia. reflexivity. Qed.

Lemma split_at : forall n (l : bytes), (n <= length l)%nat ->
  exists x y, l = x ++ y /\ length x = n.
Proof.
  intros n l Hn. exists (firstn n l), (skipn n l). split.
  - symmetry; apply firstn_skipn.
  - apply firstn_length_le; exact Hn.
Qed.

(* ---- hex *)
Lemma hex_byte_decode : forall b r,
  hex_decode (hex_byte b ++ r) = match hex_decode r with Some d => Some (b :: d) | None => None end.
Proof. intros b r. destruct b; reflexivity. Qed.

Lemma hex_decode_hex : forall d, hex_decode (hex d) = Some d.
Proof.
  induction d as [|b d IH]; [reflexivity|].
  cbn [hex flat_map]. fold (hex d). rewrite hex_byte_decode, IH. reflexivity.
Qed.

Lemma hex_length : forall d, length (hex d) = (2 * length d)%nat.
Proof.
  induction d as [|b d IH]; [reflexivity|].
  cbn [hex flat_map]. fold (hex d). rewrite app_length, IH. cbn. lia.
Qed.

Lemma hex_decode_length : forall s d, hex_decode s = Some d -> length s = (2 * length d)%nat.
Proof.
  fix IH 1. intros s d. destruct s as [|a [|b r]]; cbn.
  - intros E; inversion E; reflexivity.
  - discriminate.
  - destruct (from_hex_char a); [|discriminate]. destruct (from_hex_char b); [|discriminate].
    destruct (hex_decode r) as [d'|] eqn:E; [|discriminate].
    intros E'; inversion E'; subst. apply IH in E. cbn. lia.
Qed.

Lemma hex_inj : forall a b, hex a = hex b -> a = b.
Proof.
  intros a b E. assert (Some a = Some b) as E' by (rewrite <- !hex_decode_hex, E; reflexivity).
  congruence.
Qed.

(* ---- decimal *)
Definition all_digits (s : bytes) : Prop := Forall (fun c => exists v, digit_val c = Some v /\ 0 <= v <= 9) s.
Definition dval (c : byte) : Z := match digit_val c with Some v => v | None => 0 end.
Definition val (s : bytes) : Z := fold_left (fun a c => a * 10 + dval c) s 0.

Lemma digit_char : forall v, 0 <= v <= 9 -> digit_val (byte_of_Z (48 + v)) = Some v.
Proof.
  intros v Hv.
  assert (v = 0 \/ v = 1 \/ v = 2 \/ v = 3 \/ v = 4 \/ v = 5 \/ v = 6 \/ v = 7 \/ v = 8 \/ v = 9) as C by lia.
  repeat (destruct C as [->|C]; [reflexivity|]). subst; reflexivity.
Qed.

Lemma fold_val : forall s a, fold_left (fun a c => a * 10 + dval c) s a = a * 10 ^ Z.of_nat (length s) + val s.
Proof.
  unfold val. induction s as [|c s IH]; intros a.
  - cbn. lia.
  - cbn [fold_left length]. rewrite IH. rewrite (IH (0 * 10 + dval c)).
    rewrite Nat2Z.inj_succ, Z.pow_succ_r by lia. ring.
Qed.

Lemma val_app : forall s t, val (s ++ t) = val s * 10 ^ Z.of_nat (length t) + val t.
Proof. intros. unfold val at 1. rewrite fold_left_app. fold (val s). apply fold_val. Qed.

Lemma parse_digits_val : forall s a, all_digits s -> parse_digits a s = Some (a * 10 ^ Z.of_nat (length s) + val s).
Proof.
  induction s as [|c s IH]; intros a Hd.
  - cbn. f_equal. lia.
  - inversion Hd as [|? ? [v [Hv _]] Hd']; subst. cbn [parse_digits]. rewrite Hv, IH by exact Hd'.
    f_equal. cbn [length]. rewrite Nat2Z.inj_succ, Z.pow_succ_r by lia.
    change (c :: s) with ([c] ++ s). rewrite val_app. unfold val at 2. cbn [fold_left]. unfold dval. rewrite Hv. ring.
Qed.

(* the digits of n: a non-empty all-digit string of value n, without a leading zero *)
Lemma digits_fuel_spec : forall f n acc, 0 <= n < 2 ^ Z.of_nat f ->
  exists pre, digits_fuel f n acc = pre ++ acc /\ all_digits pre /\ val pre = n /\
              (1 <= length pre)%nat /\ (n = 0 \/ 10 ^ (Z.of_nat (length pre) - 1) <= n) /\
              (exists c r, pre = c :: r /\ exists v, digit_val c = Some v).
Proof.
  induction f as [|f IH]; intros n acc Hn.
  - assert (n = 0) by (cbn in Hn; lia). subst. exists [byte_of_Z 48].
    refine (conj _ (conj _ (conj _ (conj _ (conj _ _))))).
    + reflexivity.
    + constructor; [|constructor]. exists 0; split; [reflexivity|lia].
    + reflexivity.
    + cbn; lia.
    + left; reflexivity.
    + eexists _, _; split; [reflexivity|]. exists 0; reflexivity.
  - cbn [digits_fuel]. destruct (n <? 10) eqn:E.
    + apply Z.ltb_lt in E. exists [byte_of_Z (48 + n)].
      assert (digit_val (byte_of_Z (48 + n)) = Some n) as Hd by (apply digit_char; lia).
      refine (conj _ (conj _ (conj _ (conj _ (conj _ _))))).
      * reflexivity.
      * constructor; [|constructor]. exists n; split; [exact Hd|lia].
      * unfold val; cbn [fold_left]. unfold dval. rewrite Hd. lia.
      * cbn; lia.
      * destruct (Z.eq_dec n 0) as [Hz|Hz]; [left; exact Hz|right; cbn [length]; change (Z.of_nat 1 - 1) with 0; change (10 ^ 0) with 1; lia].
      * eexists _, _; split; [reflexivity|]. exists n; exact Hd.
    + apply Z.ltb_ge in E.
      assert (0 <= n / 10 < 2 ^ Z.of_nat f) as Hq.
      { rewrite Nat2Z.inj_succ, Z.pow_succ_r in Hn by lia. split; [apply Z.div_pos; lia|].
        apply Z.div_lt_upper_bound; lia. }
      destruct (IH (n / 10) (byte_of_Z (48 + n mod 10) :: acc) Hq) as (pre & E1 & Hd & Hv & Hl & Hlo & Hhd).
      assert (0 <= n mod 10 <= 9) as Hm by (pose proof (Z.mod_pos_bound n 10); lia).
      assert (digit_val (byte_of_Z (48 + n mod 10)) = Some (n mod 10)) as Hdm by (apply digit_char; exact Hm).
      pose proof (Z.div_mod n 10) as Hdiv.
      exists (pre ++ [byte_of_Z (48 + n mod 10)]).
      refine (conj _ (conj _ (conj _ (conj _ (conj _ _))))).
      * rewrite E1, <- app_assoc. reflexivity.
      * apply Forall_app; split; [exact Hd|]. constructor; [|constructor]. exists (n mod 10); split; [exact Hdm|exact Hm].
      * rewrite val_app, Hv. unfold val at 1; cbn [fold_left length]. unfold dval; rewrite Hdm.
        change (10 ^ Z.of_nat 1) with 10. lia.
      * rewrite app_length; cbn; lia.
      * right. rewrite app_length. cbn [length]. replace (Z.of_nat (length pre + 1) - 1) with (Z.succ (Z.of_nat (length pre) - 1)) by lia.
        rewrite Z.pow_succ_r by lia.
        destruct Hlo as [Hz|Hlo]; [exfalso; lia|lia].
      * destruct Hhd as (c & r & -> & v & Hc). exists c, (r ++ [byte_of_Z (48 + n mod 10)]). split; [reflexivity|]. exists v; exact Hc.
Qed.

Lemma digits_spec : forall n, 0 <= n ->
  all_digits (digits n) /\ val (digits n) = n /\ (1 <= length (digits n))%nat /\
  (n = 0 \/ 10 ^ (Z.of_nat (length (digits n)) - 1) <= n) /\
  (exists c r, digits n = c :: r /\ exists v, digit_val c = Some v).
Proof.
  intros n Hn. unfold digits.
  assert (0 <= n < 2 ^ Z.of_nat (Z.to_nat (Z.log2_up (n + 1)))) as Hf.
  { rewrite Z2Nat.id by apply Z.log2_up_nonneg.
    pose proof (Z.log2_log2_up_spec (n + 1)). lia. }
  destruct (digits_fuel_spec _ n [] Hf) as (pre & E & H1 & H2 & H3 & H4 & H5).
  rewrite app_nil_r in E. rewrite E. auto.
Qed.

Lemma pow63_lt : 2 ^ 63 < 10 ^ 19.
Proof. reflexivity. Qed.

Lemma digits_length_int64 : forall n, 0 <= n < int64_lim -> (length (digits n) <= 19)%nat.
Proof.
  intros n [Hn Hlt]. destruct (digits_spec n Hn) as (_ & _ & _ & Hlo & _).
  destruct (le_lt_dec (length (digits n)) 19) as [L|L]; [exact L|exfalso].
  destruct Hlo as [Hz|Hlo].
  - subst n. revert L. vm_compute. lia.
  - assert (10 ^ 19 <= 10 ^ (Z.of_nat (length (digits n)) - 1)) by (apply Z.pow_le_mono_r; lia).
    pose proof pow63_lt. unfold int64_lim in Hlt. lia.
Qed.

Lemma digit_not_sign : forall c v, digit_val c = Some v -> beq c x2b = false /\ beq c x2d = false /\ beq c SP = false.
Proof. intros c v. destruct c; cbn; intros E; try discriminate; auto. Qed.

Lemma parse_int_digits : forall n, 0 <= n < int64_lim -> parse_int (digits n) = Some n.
Proof.
  intros n [Hn Hlt]. destruct (digits_spec n Hn) as (Hd & Hv & _ & _ & (c & r & E & v & Hc)).
  unfold parse_int. rewrite E. destruct (digit_not_sign c v Hc) as (E1 & E2 & _). rewrite E1, E2. cbn [orb].
  rewrite <- E. rewrite parse_digits_val by exact Hd. rewrite Hv.
  replace (0 * 10 ^ Z.of_nat (length (digits n)) + n) with n by lia.
  apply Z.ltb_lt in Hlt. rewrite Hlt. reflexivity.
Qed.

Lemma skip_spaces_pad : forall k s c r v, s = c :: r -> digit_val c = Some v -> skip_spaces (repeat SP k ++ s) = s.
Proof.
  intros k s c r v -> Hc. induction k as [|k IH].
  - cbn. destruct (digit_not_sign c v Hc) as (_ & _ & E). rewrite E. reflexivity.
  - cbn [repeat app skip_spaces]. rewrite beq_refl. exact IH.
Qed.

Lemma fmt_int_nonneg : forall n, 0 <= n -> fmt_int n = digits n.
Proof. intros n Hn. unfold fmt_int. destruct (n <? 0) eqn:E; [apply Z.ltb_lt in E; lia|reflexivity]. Qed.

Lemma pad_left_length : forall w s, (length s <= w)%nat -> length (pad_left w s) = w.
Proof. intros. unfold pad_left. rewrite app_length, repeat_length. lia. Qed.

Lemma parse_padded : forall w n, 0 <= n < int64_lim ->
  parse_int (skip_spaces (pad_left w (fmt_int n))) = Some n.
Proof.
  intros w n Hn. rewrite fmt_int_nonneg by lia. unfold pad_left.
  destruct (digits_spec n (proj1 Hn)) as (_ & _ & _ & _ & (c & r & E & v & Hc)).
  rewrite (skip_spaces_pad _ _ c r v E Hc). apply parse_int_digits. exact Hn.
Qed.

(* ---- the layout of an entry *)
Lemma consts_layout :
  entry_size_n = (3 + hex_size_n + 1 + hex_size_n + 1 + size_width_n + 1 + time_width_n + 1)%nat.
Proof. reflexivity. Qed.

Lemma hex_size_hash : hex_size_n = (2 * hash_size_n)%nat.
Proof. reflexivity. Qed.

Definition entry_shape (b0 b1 b2 : byte) (hid : bytes) (s1 : byte) (hout : bytes) (s2 : byte)
  (ss : bytes) (s3 : byte) (st : bytes) (s4 : byte) : bytes :=
  b0 :: b1 :: b2 :: hid ++ s1 :: hout ++ s2 :: ss ++ s3 :: st ++ [s4].

Definition parse_fields (hid hout ss st id : bytes) : option (bytes * Z * Z) :=
  match hex_decode hid with
  | None => None
  | Some buf =>
      if negb (bytes_eqb buf id) then None else
      match hex_decode hout with
      | None => None
      | Some out =>
          match parse_int (skip_spaces ss) with
          | None => None
          | Some size =>
              if size <? 0 then None else
              match parse_int (skip_spaces st) with
              | None => None
              | Some tm => if tm <? 0 then None else Some (out, size, tm)
              end
          end
      end
  end.

Lemma parse_entry_shape : forall b0 b1 b2 hid s1 hout s2 ss s3 st s4 id,
  length hid = hex_size_n -> length hout = hex_size_n ->
  length ss = size_width_n -> length st = time_width_n ->
  parse_entry (entry_shape b0 b1 b2 hid s1 hout s2 ss s3 st s4) id =
  if beq b0 x76 && beq b1 x31 && beq b2 SP && beq s1 SP && beq s2 SP && beq s3 SP && beq s4 NL
  then parse_fields hid hout ss st id else None.
Proof.
  intros b0 b1 b2 hid s1 hout s2 ss s3 st s4 id Lh Lo Ls Lt.
  pose proof consts_layout as LAY.
  set (a := hex_size_n) in *. set (c := size_width_n) in *. set (d := time_width_n) in *.
  set (N := entry_size_n) in *.
  set (e := entry_shape b0 b1 b2 hid s1 hout s2 ss s3 st s4).
  set (R3 := st ++ [s4]). set (R2 := ss ++ s3 :: R3). set (R1 := hout ++ s2 :: R2).
  set (P1 := b0 :: b1 :: b2 :: hid). set (P2 := P1 ++ s1 :: hout). set (P3 := P2 ++ s2 :: ss).
  set (P4 := P3 ++ s3 :: st).
  assert (e = P1 ++ s1 :: R1) as F1 by reflexivity.
  assert (e = P2 ++ s2 :: R2) as F2 by (unfold P2; rewrite <- app_assoc; reflexivity).
  assert (e = P3 ++ s3 :: R3) as F3 by (unfold P3, P2; rewrite <- !app_assoc; reflexivity).
  assert (e = P4 ++ [s4]) as F4 by (unfold P4, P3, P2; rewrite <- !app_assoc; reflexivity).
  assert (length P1 = 3 + a)%nat as L1 by (unfold P1; cbn [length]; lia).
  assert (length P2 = 3 + a + 1 + a)%nat as L2 by (unfold P2; rewrite app_length; cbn [length]; lia).
  assert (length P3 = 3 + a + 1 + a + 1 + c)%nat as L3 by (unfold P3; rewrite app_length; cbn [length]; lia).
  assert (length P4 = N - 1)%nat as L4 by (unfold P4; rewrite app_length; cbn [length]; lia).
  assert (length e = N) as Le by (rewrite F4, app_length; cbn [length]; lia).
  unfold parse_entry. fold e. fold a c d N.
  rewrite Le, Nat.eqb_refl. cbn [negb].
  assert (header_ok e = beq b0 x76 && beq b1 x31 && beq b2 SP && beq s1 SP && beq s2 SP && beq s3 SP && beq s4 NL) as HO.
  { assert (byte_at (3 + a) e = s1) as B3 by (rewrite F1; apply byte_at_app_len; exact L1).
    assert (byte_at (3 + a + 1 + a) e = s2) as B4 by (rewrite F2; apply byte_at_app_len; exact L2).
    assert (byte_at (3 + a + 1 + a + 1 + c) e = s3) as B5 by (rewrite F3; apply byte_at_app_len; exact L3).
    assert (byte_at (N - 1) e = s4) as B6 by (rewrite F4; apply byte_at_app_len; exact L4).
    unfold header_ok. fold a c N. rewrite B3, B4, B5, B6. reflexivity. }
  rewrite HO.
  destruct (beq b0 x76 && beq b1 x31 && beq b2 SP && beq s1 SP && beq s2 SP && beq s3 SP && beq s4 NL); [|reflexivity].
  cbn [negb].
  assert (slice 3 (3 + a) e = hid) as S1.
  { unfold slice. replace (3 + a - 3)%nat with a by lia. change (skipn 3 e) with (hid ++ s1 :: R1).
    apply firstn_app_len; exact Lh. }
  assert (skipn (3 + a) e = s1 :: R1) as E1 by (rewrite F1; apply skipn_app_len; exact L1).
  rewrite S1, E1.
  assert (slice 1 (1 + a) (s1 :: R1) = hout) as S2.
  { unfold slice. replace (1 + a - 1)%nat with a by lia. change (skipn 1 (s1 :: R1)) with (hout ++ s2 :: R2).
    apply firstn_app_len; exact Lo. }
  assert (skipn (1 + a) (s1 :: R1) = s2 :: R2) as E2.
  { change (s1 :: R1) with ((s1 :: hout) ++ s2 :: R2). apply skipn_app_len. cbn [length]; lia. }
  rewrite S2, E2.
  assert (slice 1 (1 + c) (s2 :: R2) = ss) as S3.
  { unfold slice. replace (1 + c - 1)%nat with c by lia. change (skipn 1 (s2 :: R2)) with (ss ++ s3 :: R3).
    apply firstn_app_len; exact Ls. }
  assert (skipn (1 + c) (s2 :: R2) = s3 :: R3) as E3.
  { change (s2 :: R2) with ((s2 :: ss) ++ s3 :: R3). apply skipn_app_len. cbn [length]; lia. }
  rewrite S3, E3.
  assert (slice 1 (1 + d) (s3 :: R3) = st) as S4.
  { unfold slice. replace (1 + d - 1)%nat with d by lia. change (skipn 1 (s3 :: R3)) with (st ++ [s4]).
    apply firstn_app_len; exact Lt. }
  rewrite S4. reflexivity.
Qed.

Lemma encode_entry_eq : forall id out size tm,
  encode_entry id out size tm =
  entry_shape x76 x31 SP (hex id) SP (hex out) SP (pad_left size_width_n (fmt_int size)) SP
              (pad_left time_width_n (fmt_int tm)) NL.
Proof. intros. reflexivity. Qed.

Lemma entry_roundtrip : forall id out size tm,
  length id = hash_size_n -> length out = hash_size_n ->
  0 <= size < int64_lim -> 0 <= tm < int64_lim ->
  parse_entry (encode_entry id out size tm) id = Some (out, size, tm).
Proof.
  intros id out size tm Li Lo Hs Ht.
  assert (length (digits size) <= 19)%nat as D1 by (apply digits_length_int64; exact Hs).
  assert (length (digits tm) <= 19)%nat as D2 by (apply digits_length_int64; exact Ht).
  assert (19 <= size_width_n)%nat as W1 by (vm_compute; lia).
  assert (19 <= time_width_n)%nat as W2 by (vm_compute; lia).
  rewrite encode_entry_eq, parse_entry_shape.
  - rewrite !beq_refl. cbn [andb]. unfold parse_fields.
    rewrite !hex_decode_hex, bytes_eqb_refl. cbn [negb].
    rewrite !parse_padded by assumption.
    destruct (size <? 0) eqn:E1; [apply Z.ltb_lt in E1; lia|].
    destruct (tm <? 0) eqn:E2; [apply Z.ltb_lt in E2; lia|]. reflexivity.
  - rewrite hex_length, Li. symmetry; apply hex_size_hash.
  - rewrite hex_length, Lo. symmetry; apply hex_size_hash.
  - apply pad_left_length. rewrite fmt_int_nonneg by lia. lia.
  - apply pad_left_length. rewrite fmt_int_nonneg by lia. lia.
Qed.

Lemma encode_entry_length : forall id out size tm,
  length id = hash_size_n -> length out = hash_size_n ->
  0 <= size < int64_lim -> 0 <= tm < int64_lim ->
  length (encode_entry id out size tm) = entry_size_n.
Proof.
  intros id out size tm Li Lo Hs Ht.
  pose proof (entry_roundtrip id out size tm Li Lo Hs Ht) as R.
  unfold parse_entry in R.
  destruct (Nat.eqb (length (encode_entry id out size tm)) entry_size_n) eqn:E; [apply Nat.eqb_eq; exact E|discriminate].
Qed.

Lemma shape_inversion : forall e, length e = entry_size_n ->
  exists b0 b1 b2 hid s1 hout s2 ss s3 st s4,
    e = entry_shape b0 b1 b2 hid s1 hout s2 ss s3 st s4 /\
    length hid = hex_size_n /\ length hout = hex_size_n /\ length ss = size_width_n /\ length st = time_width_n.
Proof.
  intros e Le. pose proof consts_layout as LAY.
  set (a := hex_size_n) in *. set (c := size_width_n) in *. set (d := time_width_n) in *.
  set (N := entry_size_n) in *.
  destruct e as [|b0 [|b1 [|b2 r0]]]; cbn [length] in Le; try lia.
  destruct (split_at a r0) as (hid & r1 & -> & Lh); [lia|]. rewrite app_length in Le.
  destruct r1 as [|s1 r1]; cbn [length] in Le; [lia|].
  destruct (split_at a r1) as (hout & r2 & -> & Lo); [lia|]. rewrite app_length in Le.
  destruct r2 as [|s2 r2]; cbn [length] in Le; [lia|].
  destruct (split_at c r2) as (ss & r3 & -> & Ls); [lia|]. rewrite app_length in Le.
  destruct r3 as [|s3 r3]; cbn [length] in Le; [lia|].
  destruct (split_at d r3) as (st & r4 & -> & Lt); [lia|]. rewrite app_length in Le.
  destruct r4 as [|s4 [|x r5]]; cbn [length] in Le; try lia.
  exists b0, b1, b2, hid, s1, hout, s2, ss, s3, st, s4. unfold entry_shape. auto.
Qed.

Lemma digit_val_range : forall c v, digit_val c = Some v -> 0 <= v <= 9.
Proof.
  intros c v E. unfold digit_val in E.
  destruct ((48 <=? bZ c) && (bZ c <=? 57)) eqn:Eb; [|discriminate].
  apply andb_true_iff in Eb as [E1 E2]. apply Z.leb_le in E1, E2. inversion E; lia.
Qed.

Lemma parse_digits_nonneg : forall s a z, parse_digits a s = Some z -> 0 <= a -> 0 <= z.
Proof.
  induction s as [|c s IH]; intros a z E Ha.
  - cbn in E. inversion E; lia.
  - cbn in E. destruct (digit_val c) as [v|] eqn:Ev; [|discriminate].
    apply digit_val_range in Ev. eapply IH; [exact E|lia].
Qed.

(* strconv.ParseInt(s, 10, 64) only ever yields an int64 *)
Lemma parse_int_range : forall s z, parse_int s = Some z -> - int64_lim <= z < int64_lim.
Proof.
  intros s z E. unfold parse_int in E. destruct s as [|c r]; [discriminate|].
  destruct (if beq c x2b || beq c x2d then r else c :: r) as [|c' r'] eqn:Ed; [discriminate|].
  destruct (parse_digits 0 (c' :: r')) as [u|] eqn:Eu; [|discriminate].
  apply parse_digits_nonneg in Eu; [|lia].
  destruct (beq c x2d).
  - destruct (u <=? int64_lim) eqn:El; [|discriminate]. apply Z.leb_le in El. inversion E; subst.
    unfold int64_lim in *. lia.
  - destruct (u <? int64_lim) eqn:El; [|discriminate]. apply Z.ltb_lt in El. inversion E; subst.
    unfold int64_lim in *. lia.
Qed.

(* what Cache.get accepts: exactly entrySize bytes of the form
   "v1 <hex id> <hex out> <size> <time>\n" with fields of the fixed widths, the id equal to the
   one looked up (hex of either case), numbers that strconv.ParseInt accepts after the leading
   spaces, both non-negative int64 *)
Definition entry_wf (e id out : bytes) (size tm : Z) : Prop :=
  length e = entry_size_n /\
  exists hid hout ss st,
    e = entry_shape x76 x31 SP hid SP hout SP ss SP st NL /\
    length hid = hex_size_n /\ length hout = hex_size_n /\
    length ss = size_width_n /\ length st = time_width_n /\
    hex_decode hid = Some id /\ hex_decode hout = Some out /\ length out = hash_size_n /\
    parse_int (skip_spaces ss) = Some size /\ 0 <= size < int64_lim /\
    parse_int (skip_spaces st) = Some tm /\ 0 <= tm < int64_lim.

Lemma parse_entry_strict : forall e id out size tm,
  parse_entry e id = Some (out, size, tm) -> entry_wf e id out size tm.
Proof.
  intros e id out size tm E.
  assert (length e = entry_size_n) as Le.
  { unfold parse_entry in E. destruct (Nat.eqb (length e) entry_size_n) eqn:El; [apply Nat.eqb_eq; exact El|discriminate]. }
  split; [exact Le|].
  destruct (shape_inversion e Le) as (b0 & b1 & b2 & hid & s1 & hout & s2 & ss & s3 & st & s4 & -> & Lh & Lo & Ls & Lt).
  rewrite parse_entry_shape in E by assumption.
  destruct (beq b0 x76) eqn:E0; [|discriminate]. destruct (beq b1 x31) eqn:E1; [|discriminate].
  destruct (beq b2 SP) eqn:E2; [|discriminate]. destruct (beq s1 SP) eqn:E3; [|discriminate].
  destruct (beq s2 SP) eqn:E4; [|discriminate]. destruct (beq s3 SP) eqn:E5; [|discriminate].
  destruct (beq s4 NL) eqn:E6; [|discriminate]. cbn [andb] in E.
  apply beq_eq in E0, E1, E2, E3, E4, E5, E6. subst.
  unfold parse_fields in E.
  destruct (hex_decode hid) as [buf|] eqn:Hi; [|discriminate].
  destruct (bytes_eqb buf id) eqn:Eb; [|discriminate]. apply bytes_eqb_eq in Eb; subst buf. cbn [negb] in E.
  destruct (hex_decode hout) as [o|] eqn:Ho; [|discriminate].
  destruct (parse_int (skip_spaces ss)) as [sz|] eqn:Ps; [|discriminate].
  destruct (sz <? 0) eqn:Sn; [discriminate|].
  destruct (parse_int (skip_spaces st)) as [t|] eqn:Pt; [|discriminate].
  destruct (t <? 0) eqn:Tn; [discriminate|]. inversion E; subst.
  apply Z.ltb_ge in Sn, Tn. pose proof (parse_int_range _ _ Ps). pose proof (parse_int_range _ _ Pt).
  exists hid, hout, ss, st. repeat split; auto; try lia.
  apply hex_decode_length in Ho. pose proof hex_size_hash. lia.
Qed.

(* an accepted entry names the id that was looked up and a hash-sized output *)
Lemma parse_entry_out_length : forall e id out size tm,
  parse_entry e id = Some (out, size, tm) -> length out = hash_size_n /\ 0 <= size.
Proof.
  intros e id out size tm E. apply parse_entry_strict in E.
  destruct E as (_ & hid & hout & ss & st & _ & _ & _ & _ & _ & _ & _ & L & _ & R & _). split; [exact L|lia].
Qed.

(* ---- entries that differ only in their timestamps, and mixtures of them *)
Lemma val_bound : forall s, all_digits s -> 0 <= val s < 10 ^ Z.of_nat (length s).
Proof.
  induction s as [|c s IH] using rev_ind; intros Hd.
  - cbn. lia.
  - apply Forall_app in Hd as [Hs Hc]. inversion Hc as [|? ? (v & Hv & Hr) _]; subst.
    rewrite val_app, app_length. cbn [length]. specialize (IH Hs).
    assert (val [c] = v) as Ec by (unfold val; cbn [fold_left]; unfold dval; rewrite Hv; lia).
    rewrite Ec. change (10 ^ Z.of_nat 1) with 10. rewrite Nat2Z.inj_add. change (Z.of_nat 1) with 1.
    rewrite Z.pow_add_r by lia. change (10 ^ 1) with 10. lia.
Qed.

Lemma parse_int_digit_string : forall c s, all_digits (c :: s) -> val (c :: s) < int64_lim ->
  parse_int (c :: s) = Some (val (c :: s)).
Proof.
  intros c s Hd Hlt. inversion Hd as [|? ? (v & Hv & _) _]; subst.
  unfold parse_int. destruct (digit_not_sign c v Hv) as (E1 & E2 & _). rewrite E1, E2. cbn [orb].
  rewrite parse_digits_val by exact Hd.
  replace (0 * 10 ^ Z.of_nat (length (c :: s)) + val (c :: s)) with (val (c :: s)) by lia.
  apply Z.ltb_lt in Hlt. rewrite Hlt. reflexivity.
Qed.

Lemma digit_one : forall c, digit_val c = Some 1 -> c = x31.
Proof. intros c. destruct c; cbn; intros E; try discriminate; reflexivity. Qed.

Lemma val_cons : forall c s, val (c :: s) = dval c * 10 ^ Z.of_nat (length s) + val s.
Proof.
  intros c s. change (c :: s) with ([c] ++ s). rewrite val_app. unfold val at 1. cbn [fold_left]. lia.
Qed.

(* a timestamp between 10^18 and 2*10^18 is written as '1' followed by 18 digits *)
Lemma digits_t19 : forall t, 10 ^ 18 <= t < 2 * 10 ^ 18 ->
  exists ds, digits t = x31 :: ds /\ length ds = 18%nat /\ all_digits ds.
Proof.
  intros t Ht. destruct (digits_spec t) as (Hd & Hv & Hl & Hlo & (c & r & E & v & Hc)); [lia|].
  pose proof (val_bound _ Hd) as Hb. rewrite Hv in Hb.
  assert (length (digits t) = 19%nat) as L19.
  { destruct Hlo as [Hz|Hlo]; [lia|].
    destruct (lt_eq_lt_dec (length (digits t)) 19) as [[L|L]|L]; [|exact L|].
    - assert (10 ^ Z.of_nat (length (digits t)) <= 10 ^ 18) by (apply Z.pow_le_mono_r; lia). lia.
    - assert (10 ^ 19 <= 10 ^ (Z.of_nat (length (digits t)) - 1)) by (apply Z.pow_le_mono_r; lia).
      assert (10 ^ 19 = 10 * 10 ^ 18) by reflexivity. lia. }
  rewrite E in L19, Hd, Hv. cbn [length] in L19.
  inversion Hd as [|x l (v' & Hv' & Hr') Hds]; subst x l.
  rewrite val_cons in Hv. assert (length r = 18%nat) as L18 by lia. rewrite L18 in Hv.
  pose proof (val_bound _ Hds) as Hbr. rewrite L18 in Hbr.
  unfold dval in Hv. rewrite Hv' in Hv. change (Z.of_nat 18) with 18 in *.
  assert (v' = 1) by nia. subst v'. apply digit_one in Hv'. subst c.
  exists r. auto.
Qed.

Definition mixb (j : nat) (cur old : bytes) : bytes := firstn j cur ++ skipn j old.

Lemma mixb_prefix : forall j (P A B : bytes), mixb j (P ++ A) (P ++ B) = P ++ mixb (j - length P) A B.
Proof.
  intros j P A B. unfold mixb. destruct (le_lt_dec j (length P)) as [L|L].
  - replace (j - length P)%nat with 0%nat by lia. cbn [firstn skipn app].
    rewrite firstn_app, skipn_app. replace (j - length P)%nat with 0%nat by lia. cbn [firstn skipn].
    rewrite app_nil_r, app_assoc, firstn_skipn. reflexivity.
  - rewrite firstn_app, skipn_app. rewrite firstn_all2 by lia. rewrite skipn_all2 by lia.
    cbn [app]. rewrite <- app_assoc. reflexivity.
Qed.

Lemma mixb_suffix : forall j (A B S : bytes), length A = length B ->
  mixb j (A ++ S) (B ++ S) = mixb j A B ++ S.
Proof.
  intros j A B S Hl. unfold mixb. destruct (le_lt_dec j (length A)) as [L|L].
  - rewrite firstn_app, skipn_app. replace (j - length A)%nat with 0%nat by lia.
    replace (j - length B)%nat with 0%nat by lia. cbn [firstn skipn]. rewrite app_nil_r, <- app_assoc. reflexivity.
  - rewrite firstn_app, skipn_app. rewrite !(firstn_all2 A) by lia. rewrite !(skipn_all2 B) by lia.
    cbn [app]. rewrite Hl. rewrite app_nil_r, <- app_assoc, firstn_skipn. reflexivity.
Qed.

Lemma Forall_firstn_b : forall (P : byte -> Prop) n l, Forall P l -> Forall P (firstn n l).
Proof. intros P n l Hf. revert n. induction Hf; intros [|n]; cbn; constructor; auto. Qed.
Lemma Forall_skipn_b : forall (P : byte -> Prop) n l, Forall P l -> Forall P (skipn n l).
Proof. intros P n l Hf. revert n. induction Hf; intros [|n]; cbn; auto. Qed.

Lemma mixb_digits : forall j a b, all_digits a -> all_digits b -> length a = length b ->
  all_digits (mixb j a b) /\ length (mixb j a b) = length a.
Proof.
  intros j a b Ha Hb Hl. unfold mixb. split.
  - apply Forall_app. split; [apply Forall_firstn_b; exact Ha|apply Forall_skipn_b; exact Hb].
  - rewrite app_length, firstn_length, skipn_length. lia.
Qed.

(* an entry whose time field is any 20-byte string that ParseInt accepts after the leading spaces *)
Lemma parse_entry_time_field : forall id out size st t',
  length id = hash_size_n -> length out = hash_size_n -> 0 <= size < int64_lim ->
  length st = time_width_n -> parse_int (skip_spaces st) = Some t' -> 0 <= t' ->
  parse_entry (entry_shape x76 x31 SP (hex id) SP (hex out) SP (pad_left size_width_n (fmt_int size)) SP st NL) id
  = Some (out, size, t').
Proof.
  intros id out size st t' Li Lo Hs Lst Hp Ht.
  assert (length (digits size) <= 19)%nat as D1 by (apply digits_length_int64; exact Hs).
  assert (19 <= size_width_n)%nat as W1 by (vm_compute; lia).
  rewrite parse_entry_shape.
  - rewrite !beq_refl. cbn [andb]. unfold parse_fields.
    rewrite !hex_decode_hex, bytes_eqb_refl. cbn [negb].
    rewrite parse_padded by assumption. rewrite Hp.
    destruct (size <? 0) eqn:E1; [apply Z.ltb_lt in E1; lia|].
    destruct (t' <? 0) eqn:E2; [apply Z.ltb_lt in E2; lia|]. reflexivity.
  - rewrite hex_length, Li. symmetry; apply hex_size_hash.
  - rewrite hex_length, Lo. symmetry; apply hex_size_hash.
  - apply pad_left_length. rewrite fmt_int_nonneg by lia. lia.
  - exact Lst.
Qed.

(* a mixture, at any byte boundary, of two entries that differ only in their (19-digit,
   leading 1) timestamps is again accepted, with the same output and size *)
Lemma mix_entries_parse : forall id out size t1 t0 j,
  length id = hash_size_n -> length out = hash_size_n -> 0 <= size < int64_lim ->
  10 ^ 18 <= t1 < 2 * 10 ^ 18 -> 10 ^ 18 <= t0 < 2 * 10 ^ 18 ->
  exists t', 10 ^ 18 <= t' < 2 * 10 ^ 18 /\
    parse_entry (mixb j (encode_entry id out size t1) (encode_entry id out size t0)) id = Some (out, size, t').
Proof.
  intros id out size t1 t0 j Li Lo Hs H1 H0.
  destruct (digits_t19 t1 H1) as (d1 & E1 & L1 & A1). destruct (digits_t19 t0 H0) as (d0 & E0 & L0 & A0).
  assert (forall t ds, 0 <= t -> digits t = x31 :: ds -> length ds = 18%nat ->
            pad_left time_width_n (fmt_int t) = SP :: x31 :: ds) as Hpad.
  { intros t ds Ht E L. rewrite fmt_int_nonneg by exact Ht. rewrite E. unfold pad_left. cbn [length]. rewrite L. reflexivity. }
  rewrite !encode_entry_eq. rewrite (Hpad t1 d1), (Hpad t0 d0) by (assumption || lia).
  set (P := x76 :: x31 :: SP :: hex id ++ SP :: hex out ++ SP :: pad_left size_width_n (fmt_int size) ++ [SP; SP; x31]).
  assert (forall ds, entry_shape x76 x31 SP (hex id) SP (hex out) SP (pad_left size_width_n (fmt_int size)) SP (SP :: x31 :: ds) NL
                     = P ++ ds ++ [NL]) as Esh.
  { intros ds. unfold entry_shape, P. cbn [app]. repeat (rewrite <- app_assoc; cbn [app]). reflexivity. }
  rewrite !Esh. rewrite mixb_prefix. rewrite mixb_suffix by congruence.
  destruct (mixb_digits (j - length P) d1 d0 A1 A0) as [Am Lm]; [congruence|].
  set (m := mixb (j - length P) d1 d0) in *.
  rewrite <- Esh.
  assert (all_digits (x31 :: m)) as Ad.
  { constructor; [exists 1; split; [reflexivity|lia]|exact Am]. }
  assert (val (x31 :: m) = 10 ^ 18 + val m) as Ev.
  { rewrite val_cons. rewrite Lm, L1. reflexivity. }
  pose proof (val_bound _ Am) as Hb. rewrite Lm, L1 in Hb. change (Z.of_nat 18) with 18 in Hb.
  exists (val (x31 :: m)). split; [lia|].
  apply parse_entry_time_field; auto.
  - cbn [length]. rewrite Lm, L1. reflexivity.
  - cbn [skip_spaces]. rewrite beq_refl. change (beq x31 SP) with false. cbv iota.
    apply parse_int_digit_string; [exact Ad|]. unfold int64_lim. lia.
  - lia.
Qed.

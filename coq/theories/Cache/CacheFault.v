(* Faulty semantics of the cache programs (C12): definitions only.
   One fault per run: at the operation reached when the countdown is 0 the operation
     FFail        fails without effect (the call returns an error),
     FShort j     is a write that applies only its first j bytes and reports it / a read-all
                  that delivers only the first j bytes (other operations: as FFail),
     FStopBefore  is not executed and nothing runs afterwards (the process stops),
     FStopAfter   is executed and nothing runs afterwards,
     FTorn j      applies the first j bytes of a write and nothing runs afterwards
                  (regime (b) of DESIGN: what a power loss can do);
   after the fault the budget is None and the rest (if any) runs without faults.  The source
   reader's misbehaviour is part of the [reader] value (Cache.v). *)
From Coq Require Import List Bool Arith NArith ZArith.
From Coq.Strings Require Import Byte.
From GI Require Import Lib.Bytes Gen.CacheConsts Cache.CacheEntry Cache.Cache.
Import ListNotations.

Inductive fkind := FFail | FShort (j : nat) | FStopBefore | FStopAfter | FTorn (j : nat).
Definition budget := option (nat * fkind).

Inductive outcome (A : Type) := Done (a : A) | Stopped.
Arguments Done {A} a.
Arguments Stopped {A}.

Definition fail_step (o : op) (fs : files) : files * res := (fs, RErr).

Definition short_step (j : nat) (o : op) (fs : files) : files * res :=
  match o with
  | OWrite p off b =>
      (* a genuinely short write: at most all bytes but the last *)
      let j' := Nat.min j (length b - 1) in
      match fs p with
      | Some c => (upd fs p (Some (pwrite c off (firstn j' b))), RWrote j')
      | None => (fs, RErr)
      end
  | OReadAll p => (fs, match fs p with Some c => RBytes (firstn j c) | None => RErr end)
  | ORead p off n => (fs, match fs p with Some c => RBytes (firstn j (firstn n (skipn off c))) | None => RErr end)
  | _ => fail_step o fs
  end.

Fixpoint run_f {A} (b : budget) (p : prog A) (fs : files) : files * outcome A * budget :=
  match p with
  | Ret a => (fs, Done a, b)
  | Op o k =>
      match b with
      | None => let '(fs', r) := step o fs in run_f None (k r) fs'
      | Some (S n, f) => let '(fs', r) := step o fs in run_f (Some (n, f)) (k r) fs'
      | Some (O, f) =>
          match f with
          | FStopBefore => (fs, Stopped, None)
          | FStopAfter => (fst (step o fs), Stopped, None)
          | FTorn j => (fst (short_step j o fs), Stopped, None)
          | FFail => let '(fs', r) := fail_step o fs in run_f None (k r) fs'
          | FShort j => let '(fs', r) := short_step j o fs in run_f None (k r) fs'
          end
      end
  end.

(* regime (a): everything but torn-write-then-stop *)
Definition regime_a (b : budget) : Prop :=
  match b with Some (_, FTorn _) => False | _ => True end.

(* the source behaves: both passes deliver the same bytes and nothing fails *)
Definition honest (rd : reader) : Prop :=
  rd_seek1 rd = true /\ rd_ok1 rd = true /\ rd_seek2 rd = true /\ concat (rd_pass2 rd) = rd_pass1 rd.

(* the number of operations a program performs sequentially from a state (used by the runner
   to enumerate fault points) *)
Fixpoint count_ops {A} (p : prog A) (fs : files) : nat :=
  match p with
  | Ret _ => 0
  | Op o k => let '(fs', r) := step o fs in S (count_ops (k r) fs')
  end.

(* the operations performed under a budget, in order, with the paths they name *)
Fixpoint trace_f {A} (b : budget) (p : prog A) (fs : files) : list op :=
  match p with
  | Ret _ => []
  | Op o k =>
      match b with
      | None => let '(fs', r) := step o fs in o :: trace_f None (k r) fs'
      | Some (S n, f) => let '(fs', r) := step o fs in o :: trace_f (Some (n, f)) (k r) fs'
      | Some (O, f) =>
          match f with
          | FStopBefore => []
          | FStopAfter => [o]
          | FTorn j => [o]
          | FFail => let '(fs', r) := fail_step o fs in o :: trace_f None (k r) fs'
          | FShort j => let '(fs', r) := short_step j o fs in o :: trace_f None (k r) fs'
          end
      end
  end.

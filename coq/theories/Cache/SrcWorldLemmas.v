(* Lemmas about the checked expressions of Lib/GoSem.v and the library denotations of Cache/SrcLib.v
   used by Cache/SrcWorldFacts.v (the same statements as in Cache/SrcFacts.v, repeated here so that
   the proofs about Gen/CacheWorldSrc.v do not depend on Gen/CacheSrc.v). *)
From Coq Require Import List Bool Arith ZArith Lia ZifyBool.
From Coq.Strings Require Import Byte.
From GI Require Import Lib.Bytes Lib.GoSem Lib.GoSemSeg Gen.CacheConsts Cache.CacheEntry Cache.CacheEntryFacts
  Cache.SrcLib.
Import ListNotations.
Local Open Scope Z_scope.

Lemma go_index_app (x tail : bytes) i :
  0 <= i < len x -> go_index (x ++ tail) i = Ok (nth (Z.to_nat i) x x00).
Proof.
  intros Hi. unfold go_index, index_z, len in *. rewrite app_length.
  replace ((0 <=? i) && (i <? Z.of_nat (length x + length tail))) with true by lia.
  rewrite nth_error_app1 by lia. rewrite (nth_error_nth' x x00) by lia. reflexivity.
Qed.

Lemma go_index_ok (x : bytes) i :
  0 <= i < len x -> go_index x i = Ok (nth (Z.to_nat i) x x00).
Proof. intros Hi. rewrite <- (app_nil_r x) at 1. now apply go_index_app. Qed.

Lemma go_slice_app (x tail : bytes) lo hi :
  0 <= lo <= hi -> hi <= len x ->
  go_slice (x ++ tail) lo hi = Ok (firstn (Z.to_nat hi - Z.to_nat lo) (skipn (Z.to_nat lo) x)).
Proof.
  intros H1 H2. unfold go_slice, slice_z, len in *. rewrite app_length.
  replace ((0 <=? lo) && (lo <=? hi) && (hi <=? Z.of_nat (length x + length tail))) with true by lia.
  rewrite skipn_app, firstn_app, skipn_length.
  replace (Z.to_nat hi - Z.to_nat lo - (length x - Z.to_nat lo))%nat with 0%nat by lia.
  cbn [firstn]. now rewrite app_nil_r.
Qed.

Lemma go_slice_app_end (x tail : bytes) lo :
  0 <= lo <= len x ->
  go_slice (x ++ tail) lo (len (x ++ tail)) = Ok (skipn (Z.to_nat lo) x ++ tail).
Proof.
  intros H1. unfold go_slice, slice_z, len in *. rewrite app_length.
  replace ((0 <=? lo) && (lo <=? Z.of_nat (length x + length tail)) &&
           (Z.of_nat (length x + length tail) <=? Z.of_nat (length x + length tail))) with true by lia.
  rewrite skipn_app. replace (Z.to_nat lo - length x)%nat with 0%nat by lia. cbn [skipn].
  rewrite firstn_all2; [reflexivity|]. rewrite app_length, skipn_length. lia.
Qed.

Lemma go_slice_end (x : bytes) lo :
  0 <= lo <= len x -> go_slice x lo (len x) = Ok (skipn (Z.to_nat lo) x).
Proof.
  intros H. pose proof (go_slice_app_end x [] lo H) as E. now rewrite !app_nil_r in E.
Qed.

Lemma skipn_skipn' {A} : forall a b (l : list A), skipn a (skipn b l) = skipn (b + a) l.
Proof.
  intros a b. induction b as [|b IH]; intros l; [reflexivity|].
  destruct l as [|x l]; [now rewrite !skipn_nil|]. cbn [skipn Nat.add]. apply IH.
Qed.

Lemma firstn_S_mid {A} (l1 l2 : list A) v i : length l1 = i -> firstn (S i) (l1 ++ v :: l2) = l1 ++ [v].
Proof.
  intros <-. rewrite firstn_app. replace (S (length l1) - length l1)%nat with 1%nat by lia.
  rewrite firstn_all2 by lia. reflexivity.
Qed.

Lemma skipn_S_mid {A} (l1 l2 : list A) v i n : length l1 = i -> skipn (S i + n) (l1 ++ v :: l2) = skipn n l2.
Proof.
  intros <-. rewrite skipn_app. rewrite skipn_all2 by lia.
  replace (S (length l1) + n - length l1)%nat with (S n) by lia. reflexivity.
Qed.

(* ------------------------------------------------------------------ hex.Decode *)

Lemma hex_decode_into_ok : forall src dst i d,
  hex_decode src = Some d -> (i + length d <= length dst)%nat ->
  hex_decode_into dst src i = Ok (firstn i dst ++ d ++ skipn (i + length d) dst, (Z.of_nat (i + length d), false)).
Proof.
  fix IH 1. intros [|p [|q r]] dst i d Hd Hl.
  - injection Hd as <-. cbn [hex_decode_into length app]. rewrite Nat.add_0_r, firstn_skipn. reflexivity.
  - discriminate Hd.
  - cbn [hex_decode] in Hd. cbn [hex_decode_into].
    destruct (from_hex_char p) as [a|]; [|discriminate Hd]. destruct (from_hex_char q) as [b|]; [|discriminate Hd].
    destruct (hex_decode r) as [d'|] eqn:Er; [|discriminate Hd]. injection Hd as <-. cbn [length] in Hl.
    unfold go_store, len. replace ((0 <=? Z.of_nat i) && (Z.of_nat i <? Z.of_nat (length dst))) with true by lia.
    rewrite Nat2Z.id. rewrite (IH r _ (S i) d' Er).
    + assert (Li : length (firstn i dst) = i) by (rewrite firstn_length; lia).
      rewrite (firstn_S_mid _ _ _ _ Li), (skipn_S_mid _ _ _ _ _ Li), skipn_skipn'.
      rewrite <- !app_assoc. cbn [app].
      cbn [length]. replace (i + S (length d'))%nat with (S i + length d')%nat by lia. reflexivity.
    + rewrite app_length, firstn_length. cbn [length]. rewrite skipn_length. lia.
Qed.

Lemma go_hex_Decode_ok dst src d :
  hex_decode src = Some d -> length dst = length d -> go_hex_Decode dst src = Ok (d, (len d, false)).
Proof.
  intros Hd Hl. unfold go_hex_Decode. rewrite (hex_decode_into_ok src dst 0 d Hd) by lia.
  cbn [firstn app Nat.add]. rewrite skipn_all2 by lia. now rewrite app_nil_r.
Qed.

Lemma hex_decode_into_err : forall src dst i,
  hex_decode src = None -> (2 * i + length src <= 2 * length dst)%nat ->
  exists dst' k, hex_decode_into dst src i = Ok (dst', (k, true)).
Proof.
  fix IH 1. intros [|p [|q r]] dst i Hd Hl.
  - discriminate Hd.
  - cbn [hex_decode_into]. eauto.
  - cbn [hex_decode] in Hd. cbn [hex_decode_into].
    destruct (from_hex_char p) as [a|]; [|eauto]. destruct (from_hex_char q) as [b|]; [|eauto].
    cbn [length] in Hl. unfold go_store, len.
    replace ((0 <=? Z.of_nat i) && (Z.of_nat i <? Z.of_nat (length dst))) with true by lia.
    destruct (hex_decode r) eqn:Er; [discriminate Hd|].
    apply (IH r); [exact Er|]. rewrite app_length, firstn_length. cbn [length]. rewrite skipn_length. lia.
Qed.

Lemma go_hex_Decode_err dst src :
  hex_decode src = None -> (length src <= 2 * length dst)%nat ->
  exists dst' k, go_hex_Decode dst src = Ok (dst', (k, true)).
Proof. intros Hd Hl. apply hex_decode_into_err; [exact Hd|lia]. Qed.

(* ------------------------------------------------------------------ the padding loops of get *)

(* the number of leading spaces *)
Fixpoint lead (s : bytes) : nat :=
  match s with
  | c :: r => if beq c SP then S (lead r) else O
  | [] => O
  end.

Lemma lead_le s : (lead s <= length s)%nat.
Proof. induction s as [|c r IH]; cbn [lead length]; [lia|]. destruct (beq c SP); lia. Qed.

Lemma skipn_lead s : skipn (lead s) s = skip_spaces s.
Proof. induction s as [|c r IH]; [reflexivity|]. cbn [lead skip_spaces]. destruct (beq c SP); [exact IH|reflexivity]. Qed.

Lemma skipn_cons_nth (s : bytes) i : (i < length s)%nat -> skipn i s = nth i s x00 :: skipn (S i) s.
Proof.
  revert s. induction i as [|i IH]; intros [|c r] H; cbn [length] in H; try lia; [reflexivity|].
  cbn [skipn nth]. apply IH. lia.
Qed.

Lemma sprintf_02x b : go_sprintf None [x25; x30; x32; x78] [GoAnyByte b] = Some (hex [b]).
Proof. destruct b; reflexivity. Qed.

(* Concrete instances (non-vacuity of the hypotheses of the C05 theorems). *)
From Coq Require Import List Bool Arith NArith ZArith Lia.
From Coq.Strings Require Import Byte.
From GI Require Import Lib.Bytes Gen.CacheConsts Cache.CacheEntry Cache.CacheEntryFacts Cache.Cache Cache.CacheSeqFacts.
Import ListNotations.
Local Open Scope Z_scope.

(* a toy hash of the right length: the length byte, then the first 31 bytes, zero padded *)
Definition toyH (d : bytes) : bytes :=
  byte_of_Z (Z.of_nat (length d) mod 256) :: firstn 31 (d ++ repeat x00 31).

Lemma toyH_len : forall x, length (toyH x) = hash_size_n.
Proof.
  intros x. unfold toyH. cbn [length]. rewrite firstn_length, app_length, repeat_length.
  change hash_size_n with 32%nat. lia.
Qed.

Definition id1 : bytes := repeat xab 32.
Definition id2 : bytes := repeat x01 32.
Definition d1 : bytes := [x68; x65; x6c; x6c; x6f].            (* "hello" *)
Definition d2 : bytes := [x68; x65; x6c; x6c; x6f; x21].        (* "hello!" *)

Example ex_roundtrip :
  parse_entry (encode_entry id1 (toyH d1) 5 1700000000000000000) id1 = Some (toyH d1, 5, 1700000000000000000).
Proof. vm_compute. reflexivity. Qed.

(* upper-case hex in the id field is accepted (encoding/hex), a sign in front of the size too *)
Definition upper (b : byte) : byte :=
  if (97 <=? bZ b) && (bZ b <=? 102) then byte_of_Z (bZ b - 32) else b.
Definition entry_upper : bytes :=
  let e := encode_entry id1 (toyH d1) 5 7 in firstn 3 e ++ map upper (firstn 64 (skipn 3 e)) ++ skipn 67 e.
Example ex_upper_hex : entry_upper <> encode_entry id1 (toyH d1) 5 7 /\
                       parse_entry entry_upper id1 = Some (toyH d1, 5, 7).
Proof. split; [intros E; vm_compute in E; discriminate|vm_compute; reflexivity]. Qed.

Definition entry_plus : bytes :=
  let e := encode_entry id1 (toyH d1) 5 7 in firstn 151 e ++ [x2b] ++ skipn 152 e.
Example ex_plus_sign : parse_entry entry_plus id1 = Some (toyH d1, 5, 7).
Proof. vm_compute. reflexivity. Qed.

(* a torn entry (a prefix), an entry with one more byte, a negative size: all rejected *)
Example ex_torn : parse_entry (firstn 100 (encode_entry id1 (toyH d1) 5 7)) id1 = None
  /\ parse_entry (encode_entry id1 (toyH d1) 5 7 ++ [NL]) id1 = None
  /\ parse_entry (encode_entry id1 (toyH d1) (-5) 7) id1 = None
  /\ parse_entry (encode_entry id1 (toyH d1) 5 7) id2 = None.
Proof. vm_compute. auto. Qed.

(* a store with a torn entry for id2 and a damaged (bit-flipped, same length) output for id1 *)
Definition store0 : files := fst (put toyH no_files id1 (honest_reader [d1]) 7).
Definition damaged : files :=
  dmg_write (IdxP id2) (firstn 100 (encode_entry id2 (toyH d2) 6 9)) (dmg_flip (DatP (toyH d1)) 1 store0).

Example ex_store0 : get_bytes toyH store0 id1 = Found d1 (toyH d1) 5 7
  /\ get_file store0 id1 = Found (DatP (toyH d1)) (toyH d1) 5 7.
Proof. vm_compute. auto. Qed.

Example ex_damaged :
  get_bytes toyH damaged id1 = NotFound                                (* checksum gate *)
  /\ get_file damaged id1 = Found (DatP (toyH d1)) (toyH d1) 5 7         (* size gate only *)
  /\ get_bytes toyH damaged id2 = NotFound /\ get_file damaged id2 = NotFound.
Proof. vm_compute. auto. Qed.

(* the hypothesis of put_get holds for the damaged store, and the Put repairs the output *)
Example ex_no_collision : forall c, damaged (DatP (toyH d1)) = Some c -> toyH c = toyH d1 -> c = d1.
Proof. intros c E. vm_compute in E. inversion E; subst. intros E2. vm_compute in E2. discriminate. Qed.

Example ex_repair :
  let fs' := fst (put toyH damaged id2 (honest_reader [d1]) 11) in
  get_bytes toyH fs' id2 = Found d1 (toyH d1) 5 11 /\ get_bytes toyH fs' id1 = Found d1 (toyH d1) 5 7.
Proof. vm_compute. auto. Qed.

(* a source that delivers other bytes on the second pass: the Put fails and stores nothing *)
Definition liar : reader :=
  {| rd_seek1 := true; rd_pass1 := d1; rd_ok1 := true; rd_seek2 := true; rd_pass2 := [[x68; x61; x6c; x6c; x6f]] |}.
Example ex_liar :
  snd (put toyH no_files id1 liar 7) = PutFailed (toyH d1) 5
  /\ fst (put toyH no_files id1 liar 7) (DatP (toyH d1)) = Some []
  /\ fst (put toyH no_files id1 liar 7) (IdxP id1) = None.
Proof. vm_compute. auto. Qed.

(* Facts about descriptors (fd_balanced): every program of the cache API closes what it opens on
   every path, faulty ones included. *)
From Coq Require Import List Bool Arith NArith ZArith Lia.
From Coq.Strings Require Import Byte.
From GI Require Import Lib.Bytes Gen.CacheConsts Cache.CacheEntry Cache.CacheEntryFacts Cache.Cache
  Cache.CacheSeqFacts Cache.CacheExamples Cache.CacheFault Cache.CacheFd.
Import ListNotations.

Lemma path_eqb_refl : forall p, path_eqb p p = true.
Proof. destruct p; cbn; apply bytes_eqb_refl. Qed.

Lemma remove_one_head : forall p l, remove_one p (p :: l) = l.
Proof. intros p l. cbn. rewrite path_eqb_refl. reflexivity. Qed.

(* ---- soundness: a program that closes everything leaves nothing open under any fault budget *)
Lemma closes_all_fds_f : forall A (p : prog A) open, closes_all open p ->
  forall b fs, match fds_f b p fs open with Some l => l = [] | None => True end.
Proof.
  intros A p open Hc. induction Hc as [a|o k open Hk IH]; intros b fs; cbn [fds_f].
  - reflexivity.
  - destruct b as [[[|n] f]|].
    + destruct f; try exact I.
      * cbn [fail_step]. apply IH.
      * destruct (short_step j o fs) as [fs' r]. apply IH.
    + destruct (step o fs) as [fs' r]. apply IH.
    + destruct (step o fs) as [fs' r]. apply IH.
Qed.

(* fds_f answers None exactly when the run stops *)
Lemma fds_f_none_stopped : forall A (p : prog A) b fs open,
  fds_f b p fs open = None <-> snd (fst (run_f b p fs)) = Stopped.
Proof.
  induction p as [a|o k IH]; intros b fs open; cbn [fds_f run_f].
  - cbn. split; discriminate.
  - destruct b as [[[|n] f]|].
    + destruct f; cbn [fail_step].
      * apply IH.
      * destruct (short_step j o fs) as [fs' r]. apply IH.
      * cbn. split; reflexivity.
      * cbn. split; reflexivity.
      * cbn. split; reflexivity.
    + destruct (step o fs) as [fs' r]. apply IH.
    + destruct (step o fs) as [fs' r]. apply IH.
Qed.

Theorem closes_all_balanced : forall A (p : prog A), closes_all [] p ->
  forall b fs, (fd_leak b p fs = Some 0%nat /\ exists a, snd (fst (run_f b p fs)) = Done a) \/
               (fd_leak b p fs = None /\ snd (fst (run_f b p fs)) = Stopped).
Proof.
  intros A p Hc b fs. unfold fd_leak.
  pose proof (closes_all_fds_f A p [] Hc b fs) as Hs.
  pose proof (fds_f_none_stopped A p b fs []) as Hn.
  destruct (fds_f b p fs []) as [l|].
  - left. subst l. split; [reflexivity|].
    destruct (snd (fst (run_f b p fs))) as [a|] eqn:E; [exists a; reflexivity|].
    destruct Hn as [_ Hn]. specialize (Hn eq_refl). discriminate.
  - right. split; [reflexivity|]. apply Hn. reflexivity.
Qed.

(* ---- composition *)
Lemma closes_all_bind : forall A B (p : prog A) (f : A -> prog B) open,
  closes_all open p -> (forall a, closes_all [] (f a)) -> closes_all open (bind p f).
Proof.
  intros A B p f open Hc Hf. induction Hc as [a|o k open Hk IH]; cbn [bind].
  - apply Hf.
  - apply ca_op. intros r. apply IH.
Qed.

Lemma closes_all_write_chunks : forall A p cs off (k : bool -> prog A) open,
  (forall b, closes_all open (k b)) -> closes_all open (write_chunks p cs off k).
Proof.
  intros A p cs. induction cs as [|c r IH]; intros off k open Hk; cbn [write_chunks].
  - apply Hk.
  - apply ca_op. intros w. cbn [fd_step]. destruct (wrote_all w c); [apply IH; exact Hk|apply Hk].
Qed.

Lemma closes_all_read_full : forall A fuel p off need acc (k : bytes -> prog A) open,
  (forall e, closes_all open (k e)) -> closes_all open (read_full fuel p off need acc k).
Proof.
  intros A fuel. induction fuel as [|f IH]; intros p off need acc k open Hk; cbn [read_full].
  - apply Hk.
  - destruct (Nat.eqb need 0); [apply Hk|]. apply ca_op. intros r. cbn [fd_step].
    destruct r; try apply Hk. destruct (Nat.eqb (length b) 0); [apply Hk|apply IH; exact Hk].
Qed.

Lemma closes_all_used : forall A p (k : prog A) open, closes_all open k -> closes_all open (used_prog p k).
Proof.
  intros A p k open Hk. unfold used_prog. apply ca_op. intros r. cbn [fd_step].
  destruct r; try (apply ca_op; intros r2; cbn [fd_step]); exact Hk.
Qed.

(* ---- the programs of the API *)
Ltac ca_step := apply ca_op; intros ?; cbn [fd_step op_path]; rewrite ?remove_one_head.

Lemma closes_trunc_fail : forall p, closes_all [p] (trunc_fail p).
Proof. intros p. unfold trunc_fail. ca_step. ca_step. apply ca_ret. Qed.

Lemma closes_copy_rewrite : forall H rd out size bigger, closes_all [] (copy_rewrite H rd out size bigger).
Proof.
  intros H rd out size bigger. rewrite copy_rewrite_eq. unfold copy_rewrite_body.
  set (p := DatP out). unfold open_with. ca_step.
  destruct r; try apply ca_ret.
  destruct (Nat.eqb size 0); [ca_step; apply ca_ret|].
  destruct (negb (rd_seek2 rd)); [apply closes_trunc_fail|].
  apply closes_all_write_chunks. intros ok.
  destruct (negb ok); [apply closes_trunc_fail|].
  destruct (Nat.ltb _ _); [apply closes_trunc_fail|].
  destruct (nth_error _ _) as [b|]; [|apply closes_trunc_fail].
  destruct (negb _); [apply closes_trunc_fail|].
  ca_step. destruct (wrote_all _ _); [|apply closes_trunc_fail].
  ca_step. destruct (is_err _).
  - ca_step. ca_step. apply ca_ret.
  - ca_step. ca_step. apply ca_ret.
Qed.

Lemma closes_copy_file : forall H rd out size, closes_all [] (copy_file_prog H rd out size).
Proof.
  intros H rd out size. unfold copy_file_prog. ca_step.
  destruct r; try apply closes_copy_rewrite.
  destruct (Nat.eqb n size); [|apply closes_copy_rewrite].
  ca_step. destruct r; try apply closes_copy_rewrite.
  ca_step. ca_step.
  destruct (bytes_eqb _ _); [|apply closes_copy_rewrite].
  destruct copy_reuse_refreshes; [apply closes_all_used|]; apply ca_ret.
Qed.

Lemma closes_put_index : forall id out size tm, closes_all [] (put_index_prog id out size tm).
Proof.
  intros id out size tm. rewrite put_index_prog_eq. unfold put_index_body, open_with. ca_step.
  destruct r; try apply ca_ret.
  assert (forall err, closes_all [IdxP id]
            (Op (OClose (IdxP id)) (fun c => if err || is_err c then Op (ORemove (IdxP id)) (fun _ => Ret false)
                                              else Op (OChtimes (IdxP id)) (fun _ => Ret true)))) as Hfin.
  { intros err. ca_step. destruct (err || is_err _); ca_step; apply ca_ret. }
  ca_step. destruct (wrote_all _ _); [ca_step|]; apply Hfin.
Qed.

Theorem closes_put : forall H id rd tm, closes_all [] (put_prog H id rd tm).
Proof.
  intros H id rd tm. rewrite put_prog_eq. unfold put_prog_body.
  destruct (negb (rd_seek1 rd) || negb (rd_ok1 rd)); [apply ca_ret|].
  apply closes_all_bind; [apply closes_copy_file|]. intros ok. destruct ok; [|apply ca_ret].
  apply closes_all_bind; [apply closes_put_index|]. intros ok2. apply ca_ret.
Qed.

Theorem closes_put_bytes : forall H id chunks tm, closes_all [] (put_bytes_prog H id chunks tm).
Proof. intros H id chunks tm. unfold put_bytes_prog. destruct put_bytes_via_put; [apply closes_put|apply ca_ret]. Qed.

Theorem closes_get : forall id, closes_all [] (get_prog id).
Proof.
  intros id. unfold get_prog. ca_step. destruct r; try apply ca_ret.
  apply closes_all_read_full. intros e.
  destruct (parse_entry e id); [apply closes_all_used|]; ca_step; apply ca_ret.
Qed.

Theorem closes_output_file : forall out, closes_all [] (output_file_prog out).
Proof. intros out. unfold output_file_prog. apply closes_all_used. apply ca_ret. Qed.

Theorem closes_get_file : forall id, closes_all [] (get_file_prog id).
Proof.
  intros id. unfold get_file_prog. apply closes_all_bind; [apply closes_get|].
  intros [[[out size] tm]|]; [|apply ca_ret].
  apply closes_all_bind; [apply closes_output_file|]. intros file. ca_step.
  destruct r; try apply ca_ret. destruct (Z.eqb _ _); apply ca_ret.
Qed.

Theorem closes_get_bytes : forall H id, closes_all [] (get_bytes_prog H id).
Proof.
  intros H id. unfold get_bytes_prog. apply closes_all_bind; [apply closes_get|].
  intros [[[out size] tm]|]; [|apply ca_ret].
  apply closes_all_bind; [apply closes_output_file|]. intros file. ca_step.
  destruct (bytes_eqb _ _); apply ca_ret.
Qed.

(* ---- fd_balanced: under every fault budget, a call that returns has no descriptor left *)
Theorem put_fd_balanced : forall H id rd tm b fs,
  (fd_leak b (put_prog H id rd tm) fs = Some 0%nat /\ exists a, snd (fst (run_f b (put_prog H id rd tm) fs)) = Done a) \/
  (fd_leak b (put_prog H id rd tm) fs = None /\ snd (fst (run_f b (put_prog H id rd tm) fs)) = Stopped).
Proof. intros. apply closes_all_balanced. apply closes_put. Qed.

Theorem put_bytes_fd_balanced : forall H id chunks tm b fs,
  (fd_leak b (put_bytes_prog H id chunks tm) fs = Some 0%nat /\ exists a, snd (fst (run_f b (put_bytes_prog H id chunks tm) fs)) = Done a) \/
  (fd_leak b (put_bytes_prog H id chunks tm) fs = None /\ snd (fst (run_f b (put_bytes_prog H id chunks tm) fs)) = Stopped).
Proof. intros. apply closes_all_balanced. apply closes_put_bytes. Qed.

Theorem lookups_fd_balanced : forall H id b fs,
  (fd_leak b (get_prog id) fs = Some 0%nat \/ fd_leak b (get_prog id) fs = None) /\
  (fd_leak b (get_file_prog id) fs = Some 0%nat \/ fd_leak b (get_file_prog id) fs = None) /\
  (fd_leak b (get_bytes_prog H id) fs = Some 0%nat \/ fd_leak b (get_bytes_prog H id) fs = None).
Proof.
  intros H id b fs.
  pose proof (closes_all_balanced _ _ (closes_get id) b fs) as H1.
  pose proof (closes_all_balanced _ _ (closes_get_file id) b fs) as H2.
  pose proof (closes_all_balanced _ _ (closes_get_bytes H id) b fs) as H3.
  repeat split; [destruct H1 as [[E _]|[E _]]|destruct H2 as [[E _]|[E _]]|destruct H3 as [[E _]|[E _]]]; auto.
Qed.

(* the shape flags the statement rests on are those of the checked source *)
Lemma fd_shape_current : copy_closes_ok = true /\ get_defers_close = true /\ put_bytes_via_put = true.
Proof. repeat split; reflexivity. Qed.

(* ---- non-vacuity: the predicate rejects a program that forgets a Close, the count sees it, and
   a concrete faulty Put (toy hash of CacheExamples) returns with nothing open *)
Definition leaky (p : path) : prog bool :=
  Op (OOpen p true false) (fun r => match r with ROk => Op (OReadAll p) (fun _ => Ret true) | _ => Ret false end).

Example leaky_not_closing : forall p, ~ closes_all [] (leaky p) /\ fd_leak None (leaky p) no_files = Some 1%nat.
Proof.
  intros p. split; [|reflexivity]. intros Hc.
  pose proof (closes_all_fds_f _ _ _ Hc None no_files) as Hs. cbn in Hs. discriminate.
Qed.

Example ex_put_fault_balanced :
  fd_leak (Some (3%nat, FFail)) (put_prog toyH id1 (honest_reader [d1]) 7%Z) no_files = Some 0%nat /\
  fd_leak (Some (2%nat, FShort 1)) (put_prog toyH id1 (honest_reader [d2]) 9%Z) store0 = Some 0%nat /\
  fd_leak (Some (4%nat, FStopAfter)) (put_prog toyH id1 (honest_reader [d1]) 7%Z) no_files = None /\
  fd_leak None (put_prog toyH id1 liar 7%Z) store0 = Some 0%nat.
Proof. vm_compute. auto. Qed.

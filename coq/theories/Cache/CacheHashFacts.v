(* Facts about cache/hash.go's model. *)
From Coq Require Import List Bool Arith NArith ZArith Lia.
From Coq.Strings Require Import Byte.
From GI Require Import Lib.Bytes Lib.BytesFacts Gen.CacheConsts Cache.CacheHash.
Import ListNotations.

Section Facts.
Variable H : bytes -> bytes.

(* however the data is cut into Write calls, Sum is the hash of the whole *)
Lemma fold_hash_write : forall chunks h, fold_left hash_write chunks h = h ++ concat chunks.
Proof.
  induction chunks as [|c r IH]; intros h; cbn [fold_left concat].
  - symmetry. apply app_nil_r.
  - rewrite IH. unfold hash_write. rewrite app_assoc. reflexivity.
Qed.

Theorem hash_sum_chunks : forall chunks, hash_sum H (fold_left hash_write chunks new_hash) = H (concat chunks).
Proof. intros chunks. unfold hash_sum, new_hash. rewrite fold_hash_write. reflexivity. Qed.

Corollary hash_sum_rechunk : forall c1 c2, concat c1 = concat c2 ->
  hash_sum H (fold_left hash_write c1 new_hash) = hash_sum H (fold_left hash_write c2 new_hash).
Proof. intros c1 c2 E. rewrite !hash_sum_chunks, E. reflexivity. Qed.

(* Subkey is unambiguous: action ids have a fixed length, so parent and description can be read
   back from what is hashed; with H injective on the preimages in play, equal subkeys have equal
   parents and equal descriptions *)
Lemma app_inv_len : forall (a a' b b' : bytes), length a = length a' -> a ++ b = a' ++ b' -> a = a' /\ b = b'.
Proof.
  induction a as [|x a IH]; intros [|y a'] b b' L E; try discriminate.
  - cbn in E. auto.
  - cbn in L, E. inversion E; subst. destruct (IH a' b b') as [-> ->]; [lia|assumption|]. auto.
Qed.

Theorem subkey_preimage_inj : forall p d p' d', length p = length p' ->
  subkey_preimage p d = subkey_preimage p' d' -> p = p' /\ d = d'.
Proof.
  intros p d p' d' L E. unfold subkey_preimage in E. apply app_inv_head in E.
  apply app_inv_len; assumption.
Qed.

Theorem subkey_inj : forall (U : bytes -> Prop),
  (forall a b, U a -> U b -> H a = H b -> a = b) ->
  forall p d p' d', length p = length p' ->
  U (subkey_preimage p d) -> U (subkey_preimage p' d') ->
  subkey H p d = subkey H p' d' -> p = p' /\ d = d'.
Proof.
  intros U Hinj p d p' d' L U1 U2 E. apply subkey_preimage_inj; [exact L|]. apply Hinj; assumption.
Qed.

(* a subkey is never confused with the hash of a plain input that does not start with the prefix *)
Theorem subkey_preimage_prefix : forall p d, firstn (length subkey_prefix) (subkey_preimage p d) = subkey_prefix.
Proof. intros p d. unfold subkey_preimage. rewrite firstn_app, Nat.sub_diag, firstn_all. cbn [firstn]. apply app_nil_r. Qed.

(* ---- FileHash / SetFileHash *)
Lemma file_hash_eq : forall t disk name, file_hash H t disk name = file_hash_body H t disk name.
Proof. reflexivity. Qed.

Theorem file_hash_fresh : forall t disk name c,
  fh_lookup t name = None -> disk name = Some c ->
  file_hash H t disk name = (set_file_hash t name (H c), Some (H c)).
Proof. intros t disk name c E1 E2. rewrite file_hash_eq. unfold file_hash_body. rewrite E1, E2. reflexivity. Qed.

Theorem file_hash_failure_not_remembered : forall t disk name,
  fh_lookup t name = None -> disk name = None -> file_hash H t disk name = (t, None).
Proof. intros t disk name E1 E2. rewrite file_hash_eq. unfold file_hash_body. rewrite E1, E2. reflexivity. Qed.

Lemma fh_lookup_set_same : forall t name s, fh_lookup (set_file_hash t name s) name = Some s.
Proof. intros. cbn. rewrite bytes_eqb_refl. reflexivity. Qed.

Lemma fh_lookup_set_other : forall t name n2 s, n2 <> name -> fh_lookup (set_file_hash t n2 s) name = fh_lookup t name.
Proof.
  intros t name n2 s N. cbn. destruct (bytes_eqb n2 name) eqn:E; [|reflexivity].
  apply bytes_eqb_eq in E. contradiction.
Qed.

(* once a name has a sum -- computed or set -- FileHash answers it whatever the disk holds then, and
   changes nothing (the documented caching) *)
Theorem file_hash_memo : forall t disk name s,
  fh_lookup t name = Some s -> file_hash H t disk name = (t, Some s).
Proof. intros t disk name s E. rewrite file_hash_eq. unfold file_hash_body. rewrite E. reflexivity. Qed.

Theorem file_hash_twice : forall t disk disk' name t1 s,
  file_hash H t disk name = (t1, Some s) -> file_hash H t1 disk' name = (t1, Some s).
Proof.
  intros t disk disk' name t1 s E. apply file_hash_memo.
  rewrite file_hash_eq in E. unfold file_hash_body in E.
  destruct (fh_lookup t name) as [s0|] eqn:E0.
  - inversion E; subst. exact E0.
  - destruct (disk name) as [c|]; [|discriminate]. inversion E; subst. apply fh_lookup_set_same.
Qed.

Theorem set_then_file_hash : forall t disk name s,
  file_hash H (set_file_hash t name s) disk name = (set_file_hash t name s, Some s).
Proof. intros. apply file_hash_memo. apply fh_lookup_set_same. Qed.

(* FileHash of one name never changes what another name answers *)
Theorem file_hash_frame : forall t disk name other,
  other <> name -> fh_lookup (fst (file_hash H t disk name)) other = fh_lookup t other.
Proof.
  intros t disk name other N. rewrite file_hash_eq. unfold file_hash_body.
  destruct (fh_lookup t name); [reflexivity|]. destruct (disk name); [|reflexivity].
  cbn [fst]. apply fh_lookup_set_other. intros E. apply N. symmetry. exact E.
Qed.

End Facts.

(* ---- non-vacuity *)
Example ex_subkey_prefix : subkey_prefix <> [].
Proof. discriminate. Qed.

Example ex_hash_chunks :
  fold_left hash_write [[x61]; []; [x62; x63]] new_hash = [x61; x62; x63] /\
  fold_left hash_write [[x61; x62]; [x63]] new_hash = [x61; x62; x63].
Proof. split; reflexivity. Qed.

Example ex_file_hash_memo :
  let H := fun b : bytes => rev b in
  let disk1 := fun _ : bytes => Some [x01; x02] in
  let disk2 := fun _ : bytes => Some [x09] in
  let '(t1, r1) := file_hash H [] disk1 [x66] in
  let '(t2, r2) := file_hash H t1 disk2 [x66] in
  r1 = Some [x02; x01] /\ r2 = Some [x02; x01] /\ t2 = t1 /\
  file_hash H [] (fun _ => None) [x66] = ([], None).
Proof. vm_compute. auto. Qed.

(* Re-entrant use of the cache and positioned sources (C05 / C11): definitions only.

   (1) A lookup made WHILE a Put is in progress, by the very goroutine that runs the Put: the
   io.ReadSeeker handed to Put is the caller's code, and its Read method may call GetBytes / GetFile /
   Get (through the same or another *Cache) before it delivers its bytes.  The Reads of the hash pass
   precede every file operation of the Put; the n-th Read of the copy pass precedes the n-th write to
   the output file (the Read of the final byte precedes the committing write).  [run_cb p q (Some n)]
   runs p and, just before its n-th write to a data file, runs q to completion; it is one
   particular schedule of the interleaved semantics (CacheConc), reproducible without a scheduler.

   (2) An in-memory source (bytes.Reader) as data plus position.  A pass of Put reads from the
   position Seek left: from the start when the code rewinds before the pass (the regenerated flags
   [put_order_ok] -- Seek before the hash pass -- and [copy_commit_ok] -- Seek before the copy
   pass), else from wherever the caller, or an earlier Put, left the source. *)
From Coq Require Import List Bool Arith NArith ZArith.
From Coq.Strings Require Import Byte.
From GI Require Import Lib.Bytes Gen.CacheConsts Cache.CacheEntry Cache.Cache Cache.CacheConc.
Import ListNotations.

Definition is_data_write (o : op) : bool :=
  match o with OWrite (DatP _) _ _ => true | _ => false end.

(* n = Some k: q is still to run, before the k-th data write from here; None: not (any more) *)
Fixpoint run_cb {A B} (p : prog A) (q : prog B) (n : option nat) (fs : files) : files * A * option B :=
  match p with
  | Ret a => (fs, a, None)
  | Op o k =>
      match n with
      | Some m =>
          if is_data_write o then
            match m with
            | O =>
                let '(fs1, b) := run_seq q fs in
                let '(fs2, r) := step o fs1 in
                let '(fs3, a, _) := run_cb (k r) q None fs2 in (fs3, a, Some b)
            | S m' => let '(fs2, r) := step o fs in run_cb (k r) q (Some m') fs2
            end
          else let '(fs2, r) := step o fs in run_cb (k r) q n fs2
      | None => let '(fs2, r) := step o fs in run_cb (k r) q None fs2
      end
  end.

(* when the source makes its call *)
Inductive cbpoint :=
| CbNever                 (* the Read it waits for never happens *)
| CbBefore                (* in the hash pass: before the first file operation of the Put *)
| CbWrite (n : nat).      (* in the copy pass: before the n-th write to the output file *)

Definition is_lookup (c : call) : bool :=
  match c with CGet _ | CGetBytes _ | CGetFile _ => true | _ => false end.

Section Reent.
Variable H : bytes -> bytes.

Definition put_cb (id : bytes) (chunks : list bytes) (tm : Z) (c : call) (w : cbpoint) (fs : files)
  : files * put_result * option cres :=
  let p := put_prog H id (honest_reader chunks) tm in
  let q := call_prog H c in
  match w with
  | CbNever => let '(fs', r) := run_seq p fs in (fs', r, None)
  | CbBefore => let '(fs1, b) := run_seq q fs in let '(fs2, r) := run_seq p fs1 in (fs2, r, Some b)
  | CbWrite n => run_cb p q (Some n) fs
  end.

End Reent.

(* ---- positioned in-memory sources *)
Record memsrc := { ms_data : bytes; ms_pos : nat }.

(* what one pass reads: everything when the code rewinds first, else the rest from the position *)
Definition ms_pass (rewinds : bool) (s : memsrc) : bytes :=
  if rewinds then ms_data s else skipn (ms_pos s) (ms_data s).

(* the source as Put sees it; cut = how io.CopyN cuts what it reads into Write calls *)
Definition reader_of_memsrc (s : memsrc) (cut : bytes -> list bytes) : reader :=
  {| rd_seek1 := true; rd_pass1 := ms_pass put_order_ok s; rd_ok1 := true;
     rd_seek2 := true; rd_pass2 := cut (ms_pass copy_commit_ok s) |}.

(* where a Put that made both passes leaves the source: at its end *)
Definition ms_after_put (s : memsrc) : memsrc := {| ms_data := ms_data s; ms_pos := length (ms_data s) |}.

Definition put_src (H : bytes -> bytes) (fs : files) (id : bytes) (s : memsrc) (cut : bytes -> list bytes) (tm : Z) :=
  put H fs id (reader_of_memsrc s cut) tm.

(* ---- histories that also contain Puts whose source looks something up, and Puts from positioned sources *)
Inductive xhop :=
| XPlain (o : hop)
| XPutCb (id : bytes) (chunks : list bytes) (tm : Z) (c : call) (w : cbpoint)
| XPutSrc (id : bytes) (s : memsrc) (cut : bytes -> list bytes) (tm : Z).

Definition xhop_run (H : bytes -> bytes) (o : xhop) (fs : files) : files :=
  match o with
  | XPlain o => hop_run H o fs
  | XPutCb id chunks tm c w => fst (fst (put_cb H id chunks tm c w fs))
  | XPutSrc id s cut tm => fst (put_src H fs id s cut tm)
  end.

Definition xhistory_run (H : bytes -> bytes) (ops : list xhop) (fs : files) : files :=
  fold_left (fun s o => xhop_run H o s) ops fs.

(* the inner call is a lookup; the cut of a positioned source loses nothing *)
Definition xhop_ok (o : xhop) : Prop :=
  match o with
  | XPlain _ => True
  | XPutCb _ _ _ c _ => is_lookup c = true
  | XPutSrc _ s cut _ => concat (cut (ms_data s)) = ms_data s
  end.

(* the same history with every such Put replaced by the plain Put of the whole data *)
Definition xerase (o : xhop) : hop :=
  match o with
  | XPlain o => o
  | XPutCb id chunks tm _ _ => HPut id (honest_reader chunks) tm
  | XPutSrc id s cut tm => HPut id (honest_reader (cut (ms_data s))) tm
  end.

(* Concrete instances for the C12 theorems (non-vacuity of their hypotheses). *)
From Coq Require Import List Bool Arith NArith ZArith Lia.
From Coq.Strings Require Import Byte.
From GI Require Import Lib.Bytes Gen.CacheConsts Cache.CacheEntry Cache.CacheEntryFacts Cache.Cache
  Cache.CacheSeqFacts Cache.CacheExamples Cache.CacheFault Cache.CacheFaultFacts.
Import ListNotations.
Local Open Scope Z_scope.

Definition U2 (d : bytes) : Prop := d = d1 \/ d = d2.

Example ex_inj : H_inj_on toyH U2.
Proof. intros a b [-> | ->] [-> | ->] E; try reflexivity; vm_compute in E; discriminate. Qed.

Example ex_honest : honest (honest_reader [d1]).
Proof. repeat split. Qed.

(* every kind of single fault is an instance of one_fault *)
Example ex_one_fault :
  one_fault toyH None (honest_reader [d1]) /\ one_fault toyH (Some (5%nat, FFail)) (honest_reader [d1]) /\
  one_fault toyH (Some (2%nat, FShort 3)) (honest_reader [d1]) /\ one_fault toyH (Some (8%nat, FStopAfter)) (honest_reader [d1]) /\
  one_fault toyH None liar.
Proof.
  repeat split; try (left; split; [apply ex_honest|exact I]).
  right. split; [reflexivity|]. intros E. vm_compute in E. discriminate.
Qed.

Lemma store0_as_run_f : store0 = fst (fst (run_f None (put_prog toyH id1 (honest_reader [d1]) 7) no_files)).
Proof. rewrite run_f_none. reflexivity. Qed.

(* the store built by one Put satisfies the invariant (by the theorems, from the empty store) *)
Example ex_inv_store0 : Inv toyH U2 store0.
Proof.
  rewrite store0_as_run_f.
  apply (inv_put_faulty toyH U2 toyH_len ex_inj no_files id1 (honest_reader [d1]) 7 None).
  - apply inv_init.
  - reflexivity.
  - left; reflexivity.
  - left. split; [apply ex_honest|exact I].
Qed.

(* overwriting id1's entry (for "hello") by an entry for "hello!": the index write is operation 8;
   a torn write of its first 75 bytes followed by a stop leaves a hybrid entry: it names a
   mixture of the two output hashes and is rejected by both lookups, the data stay intact *)
Definition torn_store : files :=
  fst (fst (run_f (Some (8%nat, FTorn 75)) (put_prog toyH id1 (honest_reader [d2]) 9) store0)).

Example ex_torn_store :
  (exists c, torn_store (IdxP id1) = Some c /\ c <> encode_entry id1 (toyH d1) 5 7 /\ c <> encode_entry id1 (toyH d2) 6 9
             /\ exists out, parse_entry c id1 = Some (out, 5, 7) /\ out <> toyH d1 /\ out <> toyH d2) /\
  get_bytes toyH torn_store id1 = NotFound /\ get_file torn_store id1 = NotFound /\
  torn_store (DatP (toyH d1)) = Some d1 /\ torn_store (DatP (toyH d2)) = Some d2.
Proof.
  split.
  - eexists. split; [vm_compute; reflexivity|]. split; [intros E; vm_compute in E; discriminate|].
    split; [intros E; vm_compute in E; discriminate|]. eexists. split; [vm_compute; reflexivity|].
    split; intros E; vm_compute in E; discriminate.
  - vm_compute. auto.
Qed.

Example ex_invb_torn : InvB toyH U2 torn_store.
Proof.
  apply (invb_put_faulty toyH U2 ex_inj).
  - rewrite store0_as_run_f.
    apply (invb_put_faulty toyH U2 ex_inj); [apply invb_init|left; reflexivity|left; apply ex_honest].
  - right; reflexivity.
  - left. repeat split.
Qed.

(* a stop in the middle of the data leaves a prefix; the next Put completes it *)
Definition partial_store : files :=
  fst (fst (run_f (Some (2%nat, FTorn 3)) (put_prog toyH id1 (honest_reader [d2]) 9) no_files)).
Example ex_partial :
  partial_store (DatP (toyH d2)) = Some (firstn 3 d2) /\ partial_store (IdxP id1) = None /\
  get_bytes toyH (fst (put toyH partial_store id2 (honest_reader [d2]) 11)) id2 = Found d2 (toyH d2) 6 11.
Proof. vm_compute. auto. Qed.

(* no_hybrid for a one-content universe *)
Example ex_no_hybrid : no_hybrid toyH (fun d => d = d1).
Proof.
  intros S s d0 -> Hs Hk. destruct s as [|a s].
  - vm_compute in Hs. discriminate.
  - destruct (Hk 0%nat a eq_refl) as (d & -> & Sd & _). exact Sd.
Qed.

(* ---- no_hybrid for a universe of two contents whose hashes differ in their second hex digit *)
Lemma bZ_byte_of_Z : forall z, 0 <= z <= 255 -> bZ (byte_of_Z z) = z.
Proof.
  intros z Hz. unfold bZ, byte_of_Z. destruct (Byte.of_N (Z.to_N z)) as [b|] eqn:E.
  - apply Byte.to_of_N in E. rewrite E. lia.
  - apply Byte.of_N_None_iff in E. lia.
Qed.

Lemma from_hex_char_range : forall c x, from_hex_char c = Some x -> 0 <= x <= 15.
Proof. intros c x. destruct c; cbn; intros E; inversion E; lia. Qed.

Lemma hex_decode_second_digit : forall s b0 rest, hex_decode s = Some (b0 :: rest) ->
  exists a b r, s = a :: b :: r /\ exists y, from_hex_char b = Some y /\ y = bZ b0 mod 16.
Proof.
  intros s b0 rest E. destruct s as [|a [|b r]]; cbn in E; try discriminate.
  destruct (from_hex_char a) as [x|] eqn:Ea; [|discriminate].
  destruct (from_hex_char b) as [y|] eqn:Eb; [|discriminate].
  destruct (hex_decode r); [|discriminate]. inversion E; subst.
  exists a, b, r. split; [reflexivity|]. exists y. split; [exact Eb|].
  pose proof (from_hex_char_range _ _ Ea). pose proof (from_hex_char_range _ _ Eb).
  rewrite bZ_byte_of_Z by lia. rewrite Z.add_comm, Z.mod_add by lia. symmetry. apply Z.mod_small. lia.
Qed.

Example ex_no_hybrid2 : no_hybrid toyH U2.
Proof.
  intros S s d0 Ud0 Hs Hk.
  assert (exists a b r, s = a :: b :: r /\ exists y, from_hex_char b = Some y /\ y = bZ (byte_of_Z (Z.of_nat (length d0) mod 256)) mod 16) as (a & b & r & -> & y & Hb & Hy).
  { unfold toyH in Hs. eapply hex_decode_second_digit. exact Hs. }
  destruct (Hk 1%nat b eq_refl) as (d & Ud & Sd & Hd).
  assert (d = d0); [|subst; exact Sd].
  destruct Ud0 as [-> | ->]; destruct Ud as [-> | ->]; try reflexivity; exfalso;
    vm_compute in Hd; inversion Hd as [Eb']; rewrite <- Eb' in Hb; vm_compute in Hb; vm_compute in Hy; congruence.
Qed.

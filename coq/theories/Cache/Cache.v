(* OS model, operation programs and the sequential semantics of /repo/cache/cache.go:
   definitions only.  The programs list every call the code makes on package os / *os.File,
   one [op] per call (the read loop of io.Copy(h, f) is one call of f.WriteTo, os.ReadFile is
   one call); offsets are explicit because every descriptor is private to one call.
   Not modelled: modification times (c.used is Stat, plus Chtimes when Stat fails: files are
   assumed fresh), GODEBUG=gocacheverify, Trim. *)
From Coq Require Import List Bool Arith NArith ZArith.
From Coq.Strings Require Import Byte.
From GI Require Import Lib.Bytes Gen.CacheConsts Cache.CacheEntry.
Import ListNotations.

(* ---- files *)
Inductive path := IdxP (id : bytes) | DatP (out : bytes).

Definition path_eqb (p q : path) : bool :=
  match p, q with
  | IdxP a, IdxP b => bytes_eqb a b
  | DatP a, DatP b => bytes_eqb a b
  | _, _ => false
  end.

(* the file name below the cache directory (without the two-digit subdirectory, which is a
   function of it): fmt.Sprintf("%x", id) + "-" + key *)
Definition path_name (p : path) : bytes :=
  match p with
  | IdxP id => hex id ++ name_sep ++ index_key
  | DatP out => hex out ++ name_sep ++ data_key
  end.

Definition files := path -> option bytes.
Definition no_files : files := fun _ => None.
Definition upd (fs : files) (p : path) (v : option bytes) : files :=
  fun q => if path_eqb q p then v else fs q.

(* ---- operations *)
Inductive op :=
| OStat (p : path)
| OOpen (p : path) (create trunc : bool)
| ORead (p : path) (off n : nat)        (* one Read call on a descriptor at offset off *)
| OReadAll (p : path)                    (* f.WriteTo(h) / os.ReadFile *)
| OWrite (p : path) (off : nat) (b : bytes)
| OTruncate (p : path) (n : nat)
| OClose (p : path)
| ORemove (p : path)
| OChtimes (p : path).

Inductive res :=
| ROk
| RErr
| RSize (n : nat)
| RBytes (b : bytes)
| RWrote (n : nat).

Definition op_path (o : op) : path :=
  match o with
  | OStat p | OOpen p _ _ | ORead p _ _ | OReadAll p | OWrite p _ _ | OTruncate p _
  | OClose p | ORemove p | OChtimes p => p
  end.

(* pwrite: bytes beyond the end are zero-filled *)
Definition pad_to (n : nat) (c : bytes) : bytes := c ++ repeat x00 (n - length c).
Definition pwrite (c : bytes) (off : nat) (b : bytes) : bytes :=
  firstn off (pad_to off c) ++ b ++ skipn (off + length b) c.
Definition ftruncate (c : bytes) (n : nat) : bytes := firstn n (pad_to n c).

Definition step (o : op) (fs : files) : files * res :=
  match o with
  | OStat p => (fs, match fs p with Some c => RSize (length c) | None => RErr end)
  | OOpen p create trunc =>
      match fs p with
      | Some c => (if trunc then upd fs p (Some []) else fs, ROk)
      | None => if create then (upd fs p (Some []), ROk) else (fs, RErr)
      end
  | ORead p off n =>
      (fs, match fs p with Some c => RBytes (firstn n (skipn off c)) | None => RErr end)
  | OReadAll p => (fs, match fs p with Some c => RBytes c | None => RErr end)
  | OWrite p off b =>
      match fs p with
      | Some c => (upd fs p (Some (pwrite c off b)), RWrote (length b))
      | None => (fs, RErr)
      end
  | OTruncate p n =>
      match fs p with
      | Some c => (upd fs p (Some (ftruncate c n)), ROk)
      | None => (fs, RErr)
      end
  | OClose p => (fs, ROk)
  | ORemove p =>
      match fs p with
      | Some _ => (upd fs p None, ROk)
      | None => (fs, RErr)
      end
  | OChtimes p => (fs, match fs p with Some _ => ROk | None => RErr end)
  end.

(* ---- programs *)
Inductive prog (A : Type) :=
| Ret (a : A)
| Op (o : op) (k : res -> prog A).
Arguments Ret {A} a.
Arguments Op {A} o k.

Fixpoint bind {A B} (p : prog A) (f : A -> prog B) : prog B :=
  match p with
  | Ret a => f a
  | Op o k => Op o (fun r => bind (k r) f)
  end.

Fixpoint run_seq {A} (p : prog A) (fs : files) : files * A :=
  match p with
  | Ret a => (fs, a)
  | Op o k => let '(fs', r) := step o fs in run_seq (k r) fs'
  end.

(* ---- flags *)
Definition has_flag (name : bytes) (flags : list bytes) : bool := existsb (bytes_eqb name) flags.
Definition O_CREATE_name : bytes := [x4f; x5f; x43; x52; x45; x41; x54; x45].
Definition O_TRUNC_name : bytes := [x4f; x5f; x54; x52; x55; x4e; x43].
Definition open_with (p : path) (flags : list bytes) : op :=
  OOpen p (has_flag O_CREATE_name flags) (has_flag O_TRUNC_name flags).

(* ---- results *)
Inductive lookup (A : Type) :=
| NotFound
| Found (a : A) (out : bytes) (size tm : Z).
Arguments NotFound {A}.
Arguments Found {A} a out size tm.

Inductive put_result :=
| PutErrEarly                     (* the hash pass failed: nothing touched *)
| PutFailed (out : bytes) (size : nat)
| PutOk (out : bytes) (size : nat).

(* the source io.ReadSeeker as the data it delivers *)
Record reader := {
  rd_seek1 : bool;          (* file.Seek(0,0) of the hash pass succeeds *)
  rd_pass1 : bytes;         (* bytes delivered to io.Copy(h, file) *)
  rd_ok1 : bool;            (* ... ending in EOF (true) or in an error (false) *)
  rd_seek2 : bool;          (* file.Seek(0,0) in copyFile succeeds *)
  rd_pass2 : list bytes     (* the successive Read results of the second pass, until EOF/error *)
}.
Definition honest_reader (chunks : list bytes) : reader :=
  {| rd_seek1 := true; rd_pass1 := concat chunks; rd_ok1 := true; rd_seek2 := true; rd_pass2 := chunks |}.

Definition is_err (r : res) : bool := match r with ROk => false | _ => true end.
Definition wrote_all (r : res) (b : bytes) : bool :=
  match r with RWrote n => Nat.eqb n (length b) | _ => false end.

(* what io.CopyN(w, file, n) hands to w.Write, call by call: the reader's chunks cut at n *)
Fixpoint cut_chunks (cs : list bytes) (n : nat) : list bytes :=
  match cs with
  | [] => []
  | c :: r =>
      if Nat.eqb n 0 then []
      else if Nat.eqb (length c) 0 then cut_chunks r n
      else if Nat.leb (length c) n then c :: cut_chunks r (n - length c)
      else [firstn n c]
  end.

Fixpoint write_chunks {A} (p : path) (cs : list bytes) (off : nat) (k : bool -> prog A) : prog A :=
  match cs with
  | [] => k true
  | c :: r => Op (OWrite p off c) (fun w =>
                if wrote_all w c then write_chunks p r (off + length c) k else k false)
  end.

(* io.ReadFull(f, buf) with len(buf) = need: Read until need bytes or a Read delivers nothing *)
Fixpoint read_full {A} (fuel : nat) (p : path) (off need : nat) (acc : bytes) (k : bytes -> prog A) : prog A :=
  match fuel with
  | O => k acc
  | S f =>
      if Nat.eqb need 0 then k acc else
      Op (ORead p off need) (fun r =>
        match r with
        | RBytes b =>
            if Nat.eqb (length b) 0 then k acc
            else read_full f p (off + length b) (need - length b) (acc ++ b) k
        | _ => k acc
        end)
  end.

Section WithHash.
Variable H : bytes -> bytes.

(* c.used(file) *)
Definition used_prog {A} (p : path) (k : prog A) : prog A :=
  Op (OStat p) (fun r => match r with RSize _ => k | _ => Op (OChtimes p) (fun _ => k) end).

(* Cache.get (= Cache.Get, verify mode off) *)
Definition get_prog (id : bytes) : prog (option (bytes * Z * Z)) :=
  let p := IdxP id in
  Op (OOpen p false false) (fun r =>
    match r with
    | ROk =>
        read_full (S (S entry_size_n)) p 0 (S entry_size_n) [] (fun e =>
          match parse_entry e id with
          | None => Op (OClose p) (fun _ => Ret None)
          | Some ent => used_prog p (Op (OClose p) (fun _ => Ret (Some ent)))
          end)
    | _ => Ret None
    end).

(* Cache.OutputFile *)
Definition output_file_prog (out : bytes) : prog path :=
  used_prog (DatP out) (Ret (DatP out)).

(* Cache.GetFile *)
Definition get_file_prog (id : bytes) : prog (lookup path) :=
  bind (get_prog id) (fun e =>
    match e with
    | None => Ret NotFound
    | Some (out, size, tm) =>
        bind (output_file_prog out) (fun file =>
          Op (OStat file) (fun r =>
            match r with
            | RSize n => if Z.eqb (Z.of_nat n) size then Ret (Found file out size tm) else Ret NotFound
            | _ => Ret NotFound
            end))
    end).

(* Cache.GetBytes *)
Definition get_bytes_prog (id : bytes) : prog (lookup bytes) :=
  bind (get_prog id) (fun e =>
    match e with
    | None => Ret NotFound
    | Some (out, size, tm) =>
        bind (output_file_prog out) (fun file =>
          Op (OReadAll file) (fun r =>
            let data := match r with RBytes b => b | _ => [] end in
            if bytes_eqb (H data) out then Ret (Found data out size tm) else Ret NotFound))
    end).

(* Cache.copyFile *)
Definition trunc_fail (p : path) : prog bool :=
  Op (OTruncate p 0) (fun _ => Op (OClose p) (fun _ => Ret false)).

Definition copy_rewrite_body (rd : reader) (out : bytes) (size : nat) (bigger : bool) : prog bool :=
  let p := DatP out in
  Op (open_with p (copy_open_flags ++ if bigger then copy_open_flags_big else [])) (fun r =>
    match r with
    | ROk =>
        if Nat.eqb size 0 then Op (OClose p) (fun _ => Ret true)
        else if negb (rd_seek2 rd) then trunc_fail p
        else
          let flat := concat (rd_pass2 rd) in
          write_chunks p (cut_chunks (rd_pass2 rd) (size - 1)) 0 (fun ok =>
            if negb ok then trunc_fail p
            else if Nat.ltb (length flat) (size - 1) then trunc_fail p   (* io.CopyN: EOF / error *)
            else match nth_error flat (size - 1) with
                 | None => trunc_fail p                                (* file.Read(buf) fails *)
                 | Some b =>
                     if negb (bytes_eqb (H (firstn (size - 1) flat ++ [b])) out) then trunc_fail p
                     else Op (OWrite p (size - 1) [b]) (fun w =>
                            if wrote_all w [b] then
                              Op (OClose p) (fun c =>
                                if is_err c then Op (ORemove p) (fun _ => Op (OClose p) (fun _ => Ret false))
                                else Op (OChtimes p) (fun _ => Op (OClose p) (fun _ => Ret true)))
                            else trunc_fail p)
                 end)
    | _ => Ret false
    end).

(* the model follows the code only as long as the code keeps the order of operations the
   theorems are about (flags read from the AST by genconsts); otherwise it refuses, and every
   theorem about Put is re-opened *)
Definition copy_rewrite (rd : reader) (out : bytes) (size : nat) (bigger : bool) : prog bool :=
  if copy_commit_ok && copy_truncates_on_failure && copy_removes_on_close_failure && copy_closes_ok
  then copy_rewrite_body rd out size bigger else Ret false.

Definition copy_file_prog (rd : reader) (out : bytes) (size : nat) : prog bool :=
  let p := DatP out in
  Op (OStat p) (fun r =>
    match r with
    | RSize n =>
        if Nat.eqb n size then
          Op (OOpen p false false) (fun r2 =>
            match r2 with
            | ROk =>
                Op (OReadAll p) (fun r3 =>
                  let c := match r3 with RBytes c => c | _ => [] end in
                  Op (OClose p) (fun _ =>
                    if bytes_eqb (H c) out then
                      (if copy_reuse_refreshes then used_prog p (Ret true) else Ret true)
                    else copy_rewrite rd out size false))
            | _ => copy_rewrite rd out size false
            end)
        else copy_rewrite rd out size (Nat.ltb size n)
    | _ => copy_rewrite rd out size false
    end).

(* Cache.putIndexEntry (verify mode off); tm is time.Now().UnixNano() *)
Definition put_index_body (id out : bytes) (size : nat) (tm : Z) : prog bool :=
  let p := IdxP id in
  let entry := encode_entry id out (Z.of_nat size) tm in
  Op (open_with p index_open_flags) (fun r =>
    match r with
    | ROk =>
        let finish (err : bool) : prog bool :=
          Op (OClose p) (fun c =>
            if err || is_err c then Op (ORemove p) (fun _ => Ret false)
            else Op (OChtimes p) (fun _ => Ret true)) in
        Op (OWrite p 0 entry) (fun w =>
          if wrote_all w entry then Op (OTruncate p (length entry)) (fun t => finish (is_err t))
          else finish true)
    | _ => Ret false
    end).

Definition put_index_prog (id out : bytes) (size : nat) (tm : Z) : prog bool :=
  if index_write_then_truncate && index_removes_on_failure then put_index_body id out size tm else Ret false.

(* Cache.put *)
Definition put_prog_body (id : bytes) (rd : reader) (tm : Z) : prog put_result :=
  if negb (rd_seek1 rd) || negb (rd_ok1 rd) then Ret PutErrEarly else
  let size := length (rd_pass1 rd) in
  let out := H (rd_pass1 rd) in
  bind (copy_file_prog rd out size) (fun ok =>
    if ok then bind (put_index_prog id out size tm) (fun ok2 =>
                 Ret (if ok2 then PutOk out size else PutFailed out size))
    else Ret (PutFailed out size)).

Definition put_prog (id : bytes) (rd : reader) (tm : Z) : prog put_result :=
  if put_order_ok then put_prog_body id rd tm else Ret PutErrEarly.

(* Cache.PutBytes(id, data) is Put(id, bytes.NewReader(data)) (flag read from the AST): a source that
   cannot misbehave; chunks is how io.CopyN cuts data into Write calls *)
Definition put_bytes_prog (id : bytes) (chunks : list bytes) (tm : Z) : prog put_result :=
  if put_bytes_via_put then put_prog id (honest_reader chunks) tm else Ret PutErrEarly.

(* ---- sequential cache API *)
Definition get (fs : files) (id : bytes) := snd (run_seq (get_prog id) fs).
Definition get_file (fs : files) (id : bytes) := snd (run_seq (get_file_prog id) fs).
Definition get_bytes (fs : files) (id : bytes) := snd (run_seq (get_bytes_prog id) fs).
Definition put (fs : files) (id : bytes) (rd : reader) (tm : Z) := run_seq (put_prog id rd tm) fs.

(* ---- histories *)
Inductive hop :=
| HPut (id : bytes) (rd : reader) (tm : Z)
| HGet (id : bytes)
| HGetFile (id : bytes)
| HGetBytes (id : bytes)
| HOutputFile (out : bytes)
| HDamage (f : files -> files).

Definition hop_run (o : hop) (fs : files) : files :=
  match o with
  | HPut id rd tm => fst (run_seq (put_prog id rd tm) fs)
  | HGet id => fst (run_seq (get_prog id) fs)
  | HGetFile id => fst (run_seq (get_file_prog id) fs)
  | HGetBytes id => fst (run_seq (get_bytes_prog id) fs)
  | HOutputFile out => fst (run_seq (output_file_prog out) fs)
  | HDamage f => f fs
  end.
Definition history_run (ops : list hop) (fs : files) : files := fold_left (fun s o => hop_run o s) ops fs.

End WithHash.

(* ---- concrete damage (used by the runner; any function is allowed in the theorems) *)
Definition dmg_on (p : path) (f : bytes -> option bytes) (fs : files) : files :=
  match fs p with Some c => upd fs p (f c) | None => fs end.
Definition dmg_truncate (p : path) (n : nat) := dmg_on p (fun c => Some (firstn n c)).
Definition dmg_extend (p : path) (b : bytes) := dmg_on p (fun c => Some (c ++ b)).
Definition dmg_flip (p : path) (i : nat) :=
  dmg_on p (fun c => Some (firstn i c ++ match skipn i c with
                                         | x :: r => byte_of_Z (Z.lxor (bZ x) 1) :: r
                                         | [] => [] end)).
Definition dmg_delete (p : path) := dmg_on p (fun _ => None).
Definition dmg_write (p : path) (b : bytes) (fs : files) : files := upd fs p (Some b).

(* Concrete instances for the C11 theorems (non-vacuity of their hypotheses). *)
From Coq Require Import List Bool Arith NArith ZArith Lia.
From Coq.Strings Require Import Byte.
From GI Require Import Lib.Bytes Gen.CacheConsts Cache.CacheEntry Cache.CacheEntryFacts Cache.Cache
  Cache.CacheSeqFacts Cache.CacheExamples Cache.CacheFault Cache.CacheFaultFacts Cache.CacheFaultExamples
  Cache.CacheConc Cache.CacheConcFacts.
Import ListNotations.
Local Open Scope Z_scope.

(* two writers of one id with different contents, and a reader *)
Definition PSx (id d : bytes) (tm : Z) : Prop := id = id1 /\ ((d = d1 /\ tm = 7) \/ (d = d2 /\ tm = 9)).

Example ex_hyps : C11_hyps toyH U2 PSx.
Proof.
  split; [apply toyH_len|]. split; [apply ex_inj|].
  intros id d tm (-> & [[-> ->]|[-> ->]]); (split; [(left; reflexivity) || (right; reflexivity)|]);
    (split; [reflexivity|]); vm_compute; intuition discriminate.
Qed.

Definition callsA : list call := [CPut id1 [d1] 7].
Definition callsB : list call := [CPut id1 [d2] 9; CGetBytes id1].
Definition callsC : list call := [CGetBytes id1; CGetFile id1].

Example ex_calls_ok : Forall (Forall (call_ok PSx)) [callsA; callsB; callsC].
Proof.
  assert (PSx id1 d1 7) as P1 by (split; [reflexivity|left; split; reflexivity]).
  assert (PSx id1 d2 9) as P2 by (split; [reflexivity|right; split; reflexivity]).
  unfold callsA, callsB, callsC.
  constructor; [constructor; [exact P1|constructor]|].
  constructor; [constructor; [exact P2|constructor; [exact I|constructor]]|].
  constructor; [constructor; [exact I|constructor; [exact I|constructor]]|constructor].
Qed.

Example ex_J0 : Jc toyH U2 PSx (init_sys no_files).
Proof. apply Jc_init; [intros out c E; discriminate|intros id c E; discriminate]. Qed.

(* a two-writer schedule with a reader that is served a torn view on one of its turns *)
Definition schedX : list (nat * option nat) :=
  [(0, None); (1, None); (2, None); (0, None); (1, None); (1, None); (0, None); (2, Some 3); (0, None); (1, None)]%nat
  ++ flat_map (fun _ => [(0%nat, None); (1%nat, Some 80%nat); (2%nat, Some 70%nat)]) (seq 0 40).

Example ex_run :
  let st := conc_run toyH [callsA; callsB; callsC] no_files schedX in
  finished (fst st) = true /\
  map results (fst st) =
    [[XPut (PutOk (toyH d1) 5)];
     [XPut (PutOk (toyH d2) 6); XBytes (Found d2 (toyH d2) 6 9)];
     [XBytes NotFound; XFile NotFound]] /\
  get_bytes toyH (sfiles (snd st)) id1 = Found d2 (toyH d2) 6 9.
Proof. vm_compute. auto. Qed.

(* the additional hypotheses of C11_lookup_is_some_put, for the universe holding the empty content *)
Example ex_lookup_hyps : lookup_hyps toyH (fun d => d = []).
Proof.
  split; [|split; [|reflexivity]].
  - intros S s d0 -> Hs Hk. destruct s as [|a s].
    + vm_compute in Hs. discriminate.
    + destruct (Hk 0%nat a eq_refl) as (d & -> & Sd & _). exact Sd.
  - intros d c -> [t Ht] _. destruct c; [reflexivity|discriminate].
Qed.

(* the hypotheses of C11_restore_invisible: one content per id, 19-digit timestamps *)
Definition PSr (id d : bytes) (tm : Z) : Prop :=
  id = id1 /\ d = d1 /\ (tm = 1700000000000000005 \/ tm = 1700000000000000007).

Example ex_restore_hyps : C11_hyps toyH U2 PSr /\
  (forall d tm, PSr id1 d tm -> d = d1 /\ 10 ^ 18 <= tm < 2 * 10 ^ 18) /\ U2 d1 /\ no_hybrid toyH U2.
Proof.
  split; [|split; [|split; [left; reflexivity|apply ex_no_hybrid2]]].
  - split; [apply toyH_len|]. split; [apply ex_inj|].
    intros id d tm (-> & -> & [-> | ->]); (split; [left; reflexivity|]); (split; [reflexivity|]); vm_compute; intuition discriminate.
  - intros d tm (_ & -> & [-> | ->]); split; try reflexivity; vm_compute; intuition discriminate.
Qed.

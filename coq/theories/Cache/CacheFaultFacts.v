(* Facts about the faulty semantics (C12). *)
From Coq Require Import List Bool Arith NArith ZArith Lia.
From Coq.Strings Require Import Byte.
From GI Require Import Lib.Bytes Gen.CacheConsts Cache.CacheEntry Cache.CacheEntryFacts Cache.Cache
  Cache.CacheSeqFacts Cache.CacheFault.
Import ListNotations.

(* ---- generic: a faulty run is a sequential prefix, one fault, a sequential rest *)
Lemma run_f_none : forall A (p : prog A) fs,
  run_f None p fs = (fst (run_seq p fs), Done (snd (run_seq p fs)), None).
Proof.
  induction p as [a|o k IH]; intros fs; cbn; [reflexivity|].
  destruct (step o fs) as [fs' r]. apply IH.
Qed.

Definition fault_apply {A} (f : fkind) (o : op) (k : res -> prog A) (fs : files) : files * outcome A :=
  match f with
  | FStopBefore => (fs, Stopped)
  | FStopAfter => (fst (step o fs), Stopped)
  | FTorn j => (fst (short_step j o fs), Stopped)
  | FFail => (fst (run_seq (k RErr) fs), Done (snd (run_seq (k RErr) fs)))
  | FShort j => let '(fs', r) := short_step j o fs in
                (fst (run_seq (k r) fs'), Done (snd (run_seq (k r) fs')))
  end.

(* a predicate at every point of the sequential execution *)
Fixpoint all_points {A} (Phi : files -> op -> (res -> prog A) -> Prop) (Psi : files -> A -> Prop)
  (p : prog A) (fs : files) : Prop :=
  match p with
  | Ret a => Psi fs a
  | Op o k => Phi fs o k /\ let '(fs', r) := step o fs in all_points Phi Psi (k r) fs'
  end.

Lemma run_f_sound : forall A (G : files * outcome A -> Prop) (allowed : fkind -> Prop) (p : prog A) fs,
  all_points (fun fs o k => forall f, allowed f -> G (fault_apply f o k fs)) (fun fs a => G (fs, Done a)) p fs ->
  forall b, (forall n f, b = Some (n, f) -> allowed f) -> G (fst (run_f b p fs)).
Proof.
  induction p as [a|o k IH]; intros fs Hall b Hb.
  - cbn. exact Hall.
  - cbn in Hall. destruct Hall as [Hphi Hrest]. cbn [run_f].
    destruct b as [[[|n] f]|].
    + specialize (Hphi f (Hb 0%nat f eq_refl)). unfold fault_apply in Hphi.
      destruct f; cbn [fail_step]; try exact Hphi.
      * rewrite run_f_none. exact Hphi.
      * destruct (short_step j o fs) as [fs' r]. rewrite run_f_none. exact Hphi.
    + destruct (step o fs) as [fs' r]. apply IH; [exact Hrest|].
      intros n' f' E. inversion E; subst. eapply Hb; reflexivity.
    + destruct (step o fs) as [fs' r]. apply IH; [exact Hrest|]. intros n' f' E; discriminate.
Qed.

Lemma all_points_weaken : forall A (Phi Phi' : files -> op -> (res -> prog A) -> Prop) (Psi Psi' : files -> A -> Prop) p fs,
  (forall fs o k, Phi fs o k -> Phi' fs o k) -> (forall fs a, Psi fs a -> Psi' fs a) ->
  all_points Phi Psi p fs -> all_points Phi' Psi' p fs.
Proof.
  induction p as [a|o k IH]; intros fs H1 H2 Hall; cbn in *.
  - apply H2; exact Hall.
  - destruct Hall as [Hp Hr]. split; [apply H1; exact Hp|].
    destruct (step o fs) as [fs' r]. apply IH; assumption.
Qed.

(* programs under bind *)
Lemma all_points_bind : forall A B (Phi : files -> op -> (res -> prog B) -> Prop) (Psi : files -> B -> Prop)
  (p : prog A) (f : A -> prog B) fs,
  all_points (fun fs o k => Phi fs o (fun r => bind (k r) f)) (fun fs a => all_points Phi Psi (f a) fs) p fs ->
  all_points Phi Psi (bind p f) fs.
Proof.
  induction p as [a|o k IH]; intros f fs Hall; cbn in *.
  - exact Hall.
  - destruct Hall as [Hp Hr]. split; [exact Hp|]. destruct (step o fs) as [fs' r]. apply IH. exact Hr.
Qed.

(* one faulty operation changes at most its own path *)
Lemma short_step_agree : forall j o fs, agree_except (op_path o) fs (fst (short_step j o fs)).
Proof.
  intros j o fs. destruct o; try (cbn; apply agree_refl).
  unfold short_step. destruct (fs p); cbn [fst op_path]; [apply agree_upd|apply agree_refl].
Qed.

Lemma only_paths_run_f : forall A S (p : prog A), only_paths S p ->
  forall b fs q, ~ S q -> fst (fst (run_f b p fs)) q = fs q.
Proof.
  intros A S p Hp. induction Hp as [a|o k Ho _ IH]; intros b fs q Nq; cbn [run_f].
  - reflexivity.
  - assert (q <> op_path o) as Nqo by (intros ->; contradiction).
    pose proof (step_agree o fs q Nqo) as Hs.
    destruct b as [[[|n] f]|].
    + destruct f; cbn [fail_step fst].
      * apply IH; exact Nq.
      * pose proof (short_step_agree j o fs q Nqo) as Hss. destruct (short_step j o fs) as [fs' r].
        rewrite IH by exact Nq. exact Hss.
      * reflexivity.
      * exact Hs.
      * exact (short_step_agree j o fs q Nqo).
    + destruct (step o fs) as [fs' r]. rewrite IH by exact Nq. exact Hs.
    + destruct (step o fs) as [fs' r]. rewrite IH by exact Nq. exact Hs.
Qed.

(* ---- prefixes *)
Lemma prefix_refl : forall d, is_prefix d d.
Proof. intros d. exists []. symmetry; apply app_nil_r. Qed.

Lemma prefix_nil : forall d, is_prefix [] d.
Proof. intros d. exists d. reflexivity. Qed.

Lemma prefix_length : forall c d, is_prefix c d -> (length c <= length d)%nat.
Proof. intros c d [t ->]. rewrite app_length. lia. Qed.

Lemma prefix_firstn : forall c d, is_prefix c d -> c = firstn (length c) d.
Proof. intros c d [t ->]. symmetry. apply firstn_app_len. reflexivity. Qed.

Lemma firstn_prefix : forall n (d : bytes), is_prefix (firstn n d) d.
Proof. intros n d. exists (skipn n d). symmetry; apply firstn_skipn. Qed.

Lemma prefix_full : forall c d, is_prefix c d -> length c = length d -> c = d.
Proof. intros c d Hp Hl. rewrite (prefix_firstn c d Hp), Hl. apply firstn_all. Qed.

Lemma prefix_total : forall a b d, is_prefix a d -> is_prefix b d -> (length a <= length b)%nat -> is_prefix a b.
Proof.
  intros a b d Ha Hb Hl. rewrite (prefix_firstn a d Ha), (prefix_firstn b d Hb).
  exists (skipn (length a) (firstn (length b) d)).
  rewrite <- (firstn_skipn (length a) (firstn (length b) d)) at 1. f_equal.
  rewrite firstn_firstn. f_equal. lia.
Qed.

(* overwriting a prefix of d, from offset 0, with a prefix of d leaves the longer one *)
Lemma pwrite_prefix : forall c w d, is_prefix c d -> is_prefix w d ->
  pwrite c 0 w = (if Nat.leb (length c) (length w) then w else c).
Proof.
  intros c w d Hc Hw. rewrite pwrite_le by lia. cbn [firstn app Nat.add].
  destruct (Nat.leb (length c) (length w)) eqn:E.
  - apply Nat.leb_le in E. rewrite skipn_all2 by exact E. apply app_nil_r.
  - apply Nat.leb_gt in E. destruct (prefix_total w c d Hw Hc) as [t Ht]; [lia|].
    rewrite Ht at 1. rewrite skipn_app_len by reflexivity. symmetry; exact Ht.
Qed.

Lemma pwrite_prefix_is_prefix : forall c w d, is_prefix c d -> is_prefix w d -> is_prefix (pwrite c 0 w) d.
Proof. intros c w d Hc Hw. rewrite (pwrite_prefix c w d Hc Hw). destruct (Nat.leb _ _); assumption. Qed.

Lemma pwrite_full : forall c d, is_prefix c d -> pwrite c 0 d = d.
Proof. intros c d Hc. apply pwrite_all. apply prefix_length; exact Hc. Qed.

Lemma prefix_app_firstn : forall (x y : bytes) j, is_prefix (x ++ firstn j y) (x ++ y).
Proof. intros x y j. exists (skipn j y). rewrite <- app_assoc, firstn_skipn. reflexivity. Qed.

Lemma prefix_trans : forall a b c, is_prefix a b -> is_prefix b c -> is_prefix a c.
Proof. intros a b c [t ->] [u ->]. exists (t ++ u). rewrite app_assoc. reflexivity. Qed.

(* ---- the invariant *)
Section Invariant.
Variable H : bytes -> bytes.
Variable U : bytes -> Prop.

Definition H_inj_on : Prop := forall a b, U a -> U b -> H a = H b -> a = b.

(* I1: every output file is named by the hash of a content of U and holds a prefix of it *)
Definition I1 (fs : files) : Prop :=
  forall out c, fs (DatP out) = Some c -> exists d0, U d0 /\ H d0 = out /\ is_prefix c d0.

(* I2: an index entry that Get accepts names an output that is not the hash of any content of U,
   or whose file is complete (stated without a case distinction: for every content of U with
   that hash, the output file holds exactly it) *)
Definition I2 (fs : files) : Prop :=
  forall id c out size tm, fs (IdxP id) = Some c -> parse_entry c id = Some (out, size, tm) ->
    forall d0, U d0 -> H d0 = out -> fs (DatP out) = Some d0.

Definition Inv (fs : files) : Prop := I1 fs /\ I2 fs.

Lemma inv_init : Inv no_files.
Proof. split; intros ? ? ; discriminate. Qed.

(* what a (possibly failing, possibly interrupted) Put(id, d) may have done to the store *)
Definition data_ok (d : bytes) (x : option bytes) : Prop :=
  x = None \/ exists c, x = Some c /\ is_prefix c d.

Definition put_post (id d : bytes) (fs fs' : files) : Prop :=
  (forall q, q <> DatP (H d) -> q <> IdxP id -> fs' q = fs q) /\
  data_ok d (fs' (DatP (H d))) /\
  (fs (DatP (H d)) = Some d -> fs' (DatP (H d)) = Some d) /\
  (fs' (IdxP id) = fs (IdxP id) \/
   forall c r, fs' (IdxP id) = Some c -> parse_entry c id = Some r ->
               fs' (DatP (H d)) = Some d /\ fst (fst r) = H d).

Lemma inv_data_ok : forall fs d, H_inj_on -> U d -> I1 fs -> data_ok d (fs (DatP (H d))).
Proof.
  intros fs d Hinj Ud Hi1. destruct (fs (DatP (H d))) as [c|] eqn:E; [right|left; reflexivity].
  destruct (Hi1 _ _ E) as (d0 & Ud0 & Hh & Hp). assert (d0 = d) by (apply Hinj; assumption). subst.
  exists c. split; [reflexivity|exact Hp].
Qed.

Lemma post_inv : forall fs fs' id d, H_inj_on -> U d -> Inv fs -> put_post id d fs fs' -> Inv fs'.
Proof.
  intros fs fs' id d Hinj Ud [Hi1 Hi2] (Hfr & Hd & Hkeep & Hidx).
  assert (forall out d0, U d0 -> H d0 = out -> fs (DatP out) = Some d0 -> fs' (DatP out) = Some d0) as Hc.
  { intros out d0 Ud0 Hh Hf.
    destruct (bytes_eqb out (H d)) eqn:E.
    - apply bytes_eqb_eq in E. subst out. assert (d0 = d) by (apply Hinj; assumption). subst d0.
      apply Hkeep. exact Hf.
    - apply bytes_eqb_neq in E. rewrite Hfr; [exact Hf| |discriminate]. intros Eq; inversion Eq; congruence. }
  split.
  - intros out c Ec. destruct (bytes_eqb out (H d)) eqn:E.
    + apply bytes_eqb_eq in E. subst out. destruct Hd as [Hn|(c' & Hs & Hp)]; [congruence|].
      exists d. split; [exact Ud|]. split; [reflexivity|]. congruence.
    + apply bytes_eqb_neq in E. rewrite Hfr in Ec; [exact (Hi1 _ _ Ec)| |discriminate].
      intros Eq; inversion Eq; congruence.
  - intros id' c out size tm Ec Ep d0 Ud0 Hh. destruct (bytes_eqb id' id) eqn:E.
    + apply bytes_eqb_eq in E. subst id'. destruct Hidx as [Hsame|Hnew].
      * rewrite Hsame in Ec. apply Hc; [exact Ud0|exact Hh|]. eapply Hi2; eassumption.
      * destruct (Hnew _ _ Ec Ep) as [Hf Ho]. cbn in Ho. subst out.
        assert (d0 = d) by (apply Hinj; assumption). subst d0. exact Hf.
    + apply bytes_eqb_neq in E. rewrite Hfr in Ec; [|discriminate|intros Eq; inversion Eq; congruence].
      apply Hc; [exact Ud0|exact Hh|]. eapply Hi2; eassumption.
Qed.

End Invariant.

(* ---- the out field of an entry that starts like a well-formed one *)
Lemma app_inv_length : forall (a a' b b' : bytes), length a = length a' -> a ++ b = a' ++ b' -> a = a' /\ b = b'.
Proof.
  induction a as [|x a IH]; intros [|y a'] b b' L E; cbn in *; try discriminate.
  - auto.
  - inversion E; subst. destruct (IH a' b b') as [-> ->]; [lia|assumption|]. auto.
Qed.

Lemma parse_entry_out_field : forall e id o X r,
  length id = hash_size_n -> length o = hash_size_n ->
  e = x76 :: x31 :: SP :: hex id ++ SP :: hex o ++ X ->
  parse_entry e id = Some r -> fst (fst r) = o.
Proof.
  intros e id o X [[out size] tm] Li Lo Ee Ep. cbn [fst].
  destruct (parse_entry_strict _ _ _ _ _ Ep) as (_ & hid & hout & ss & st & Es & Lh & Lho & _ & _ & _ & Ho & _).
  unfold entry_shape in Es. rewrite Es in Ee. inversion Ee as [E1].
  apply app_inv_length in E1; [|rewrite hex_length, Li, Lh; apply hex_size_hash].
  destruct E1 as [_ E2]. inversion E2 as [E3].
  apply app_inv_length in E3; [|rewrite hex_length, Lo, Lho; apply hex_size_hash].
  destruct E3 as [E4 _]. subst hout. rewrite hex_decode_hex in Ho. congruence.
Qed.

Lemma encode_entry_prefix : forall id o size tm, exists X,
  encode_entry id o size tm = x76 :: x31 :: SP :: hex id ++ SP :: hex o ++ X.
Proof. intros. rewrite encode_entry_eq. unfold entry_shape. eexists. reflexivity. Qed.

Definition regime_a_kind (f : fkind) : Prop := match f with FTorn _ => False | _ => True end.

Section IndexPhase.
Variable G0 : files -> Prop.
Variable allowed : fkind -> Prop.
Variables (id out : bytes) (size : nat) (tm : Z).
Variable fs1 : files.
Variable Q : option bytes -> Prop.
Let pi := IdxP id.
Let e := encode_entry id out (Z.of_nat size) tm.
Let c1 := match fs1 pi with Some c => c | None => [] end.

Hypothesis Hbase : forall fs', agree_except pi fs1 fs' -> Q (fs' pi) -> G0 fs'.
Hypothesis Q_old : Q (fs1 pi).
Hypothesis Q_none : Q None.
Hypothesis Q_created : Q (Some c1).
Hypothesis Q_written : Q (Some (pwrite c1 0 e)).
Hypothesis Q_final : Q (Some e).
Hypothesis Q_partial : forall j, (exists j0, allowed (FTorn j0)) -> Q (Some (pwrite c1 0 (firstn j e))).
Hypothesis e_nonempty : e <> [].

Variable Fi : bool -> prog put_result.
Hypothesis Fi_ret : forall ok, exists v, Fi ok = Ret v.

Lemma G0_upd : forall x, Q x -> G0 (upd fs1 pi x).
Proof. intros x Hx. apply Hbase; [apply agree_upd|rewrite upd_same; exact Hx]. Qed.

Lemma G0_upd2 : forall y x, Q x -> G0 (upd (upd fs1 pi y) pi x).
Proof.
  intros y x Hx. apply Hbase; [eapply agree_trans; apply agree_upd|rewrite upd_same; exact Hx].
Qed.

Lemma G0_upd3 : forall z y x, Q x -> G0 (upd (upd (upd fs1 pi z) pi y) pi x).
Proof.
  intros z y x Hx. apply Hbase; [|rewrite upd_same; exact Hx].
  eapply agree_trans; [apply agree_upd|]. eapply agree_trans; apply agree_upd.
Qed.

Lemma G0_upd4 : forall w z y x, Q x -> G0 (upd (upd (upd (upd fs1 pi w) pi z) pi y) pi x).
Proof.
  intros w z y x Hx. apply Hbase; [|rewrite upd_same; exact Hx].
  eapply agree_trans; [apply agree_upd|]. eapply agree_trans; [apply agree_upd|]. eapply agree_trans; apply agree_upd.
Qed.

Lemma G0_same : G0 fs1.
Proof. apply Hbase; [apply agree_refl|exact Q_old]. Qed.

Lemma wrote_short : forall j, wrote_all (RWrote (Nat.min j (length e - 1))) e = false.
Proof.
  intros j. unfold wrote_all. apply Nat.eqb_neq. destruct e; [contradiction e_nonempty; reflexivity|cbn [length]; lia].
Qed.

Lemma index_points :
  all_points (fun fs o k => forall f, allowed f -> G0 (fst (fault_apply f o k fs))) (fun fs _ => G0 fs)
    (bind (put_index_prog id out size tm) Fi) fs1.
Proof.
  pose proof G0_same as Gs.
  rewrite put_index_prog_eq; unfold put_index_body. rewrite open_index. fold pi e.
  cbn [bind all_points].
  assert (forall ok fs, fst (run_seq (Fi ok) fs) = fs) as Hfi.
  { intros ok fs. destruct (Fi_ret ok) as [v ->]. reflexivity. }
  assert (forall ok fs, all_points (fun fs o k => forall f, allowed f -> G0 (fst (fault_apply f o k fs))) (fun fs _ => G0 fs) (Fi ok) fs <-> G0 fs) as Hfa.
  { intros ok fs. destruct (Fi_ret ok) as [v ->]. reflexivity. }
  (* state after the open: the entry file exists with content c1 *)
  set (fs2 := match fs1 pi with Some _ => fs1 | None => upd fs1 pi (Some []) end).
  assert (fs2 pi = Some c1) as H2.
  { unfold fs2, c1. destruct (fs1 pi) eqn:E; [exact E|apply upd_same]. }
  assert (forall x, Q x -> G0 (upd fs2 pi x)) as G2.
  { intros x Hx. unfold fs2. destruct (fs1 pi); [apply G0_upd|apply G0_upd2]; exact Hx. }
  assert (forall y x, Q x -> G0 (upd (upd fs2 pi y) pi x)) as G3.
  { intros y x Hx. unfold fs2. destruct (fs1 pi); [apply G0_upd2|apply G0_upd3]; exact Hx. }
  assert (forall z y x, Q x -> G0 (upd (upd (upd fs2 pi z) pi y) pi x)) as G4.
  { intros z y x Hx. unfold fs2. destruct (fs1 pi); [apply G0_upd3|apply G0_upd4]; exact Hx. }
  assert (fs1 pi = None -> Q (Some [])) as Qc.
  { intros E. pose proof Q_created as X. unfold c1 in X. rewrite E in X. exact X. }
  assert (G0 fs2) as Gfs2.
  { unfold fs2. destruct (fs1 pi) eqn:E; [exact Gs|]. apply G0_upd. apply Qc. reflexivity. }
  assert (step (OOpen pi true false) fs1 = (fs2, ROk)) as Eopen.
  { cbn [step]. unfold fs2. destruct (fs1 pi); reflexivity. }
  split.
  - (* Open *)
    intros f Hf. destruct f; cbn [fault_apply fail_step short_step fst]; try rewrite Eopen; cbn [fst bind run_seq];
      try rewrite Hfi; try exact Gs; try exact Gfs2.
  - rewrite Eopen. cbn [bind all_points]. split.
    + (* Write *)
      intros f Hf. destruct f; cbn [fault_apply fail_step short_step step fst]; rewrite ?H2; cbn [fst].
      * (* fail: close, remove *)
        cbn [wrote_all bind run_seq step orb is_err]. rewrite H2. cbn [run_seq bind]. rewrite Hfi. apply G2. exact Q_none.
      * (* short *)
        rewrite wrote_short. cbn [bind run_seq step orb is_err]. rewrite upd_same. cbn [run_seq bind]. rewrite Hfi.
        apply G3. exact Q_none.
      * exact Gfs2.
      * apply G2. exact Q_written.
      * apply G2. apply Q_partial. exists j. exact Hf.
    + cbn [step]. rewrite H2. unfold wrote_all. rewrite Nat.eqb_refl. cbn [bind all_points]. split.
      * (* Truncate *)
        intros f Hf. destruct f; cbn [fault_apply fail_step short_step step fst]; rewrite ?upd_same; cbn [fst].
        -- cbn [is_err bind run_seq step orb]. rewrite upd_same. cbn [run_seq bind]. rewrite Hfi. apply G3. exact Q_none.
        -- cbn [is_err bind run_seq step orb]. rewrite upd_same. cbn [run_seq bind]. rewrite Hfi. apply G3. exact Q_none.
        -- apply G2. exact Q_written.
        -- apply G3. rewrite ftruncate_pwrite. exact Q_final.
        -- apply G2. exact Q_written.
      * cbn [step]. rewrite upd_same. cbn [is_err bind all_points]. split.
        -- (* Close *)
           intros f Hf. destruct f; cbn [fault_apply fail_step short_step step fst].
           ++ cbn [is_err orb bind run_seq step]. rewrite upd_same. cbn [run_seq bind]. rewrite Hfi. apply G4. exact Q_none.
           ++ cbn [is_err orb bind run_seq step]. rewrite upd_same. cbn [run_seq bind]. rewrite Hfi. apply G4. exact Q_none.
           ++ apply G3. rewrite ftruncate_pwrite. exact Q_final.
           ++ apply G3. rewrite ftruncate_pwrite. exact Q_final.
           ++ apply G3. rewrite ftruncate_pwrite. exact Q_final.
        -- cbn [step is_err orb bind all_points]. split.
           ++ (* Chtimes *)
              intros f Hf. destruct f; cbn [fault_apply fail_step short_step step fst bind run_seq]; rewrite ?Hfi;
                apply G3; rewrite ftruncate_pwrite; exact Q_final.
           ++ rewrite ?upd_same. apply Hfa. apply G3. rewrite ftruncate_pwrite. exact Q_final.
Qed.

End IndexPhase.

Lemma all_points_final : forall A (Phi : files -> op -> (res -> prog A) -> Prop) (Psi : files -> A -> Prop) p fs,
  all_points Phi Psi p fs -> Psi (fst (run_seq p fs)) (snd (run_seq p fs)).
Proof.
  induction p as [a|o k IH]; intros fs Hall; cbn in *; [exact Hall|].
  destruct Hall as [_ Hr]. destruct (step o fs) as [fs' r]. apply IH. exact Hr.
Qed.

Lemma cut_chunks_nonempty : forall cs n, Forall (fun x : bytes => x <> []) (cut_chunks cs n).
Proof.
  induction cs as [|c r IH]; intros n; cbn [cut_chunks]; [constructor|].
  destruct (Nat.eqb n 0) eqn:E0; [constructor|]. apply Nat.eqb_neq in E0.
  destruct (Nat.eqb (length c) 0) eqn:Ec; [apply IH|]. apply Nat.eqb_neq in Ec.
  destruct (Nat.leb (length c) n) eqn:El.
  - constructor; [intros ->; cbn in Ec; lia|apply IH].
  - apply Nat.leb_gt in El. constructor; [|constructor]. intros E.
    apply (f_equal (@length byte)) in E. rewrite firstn_length in E. cbn in E. lia.
Qed.

Section CopyPhase.
Variable H : bytes -> bytes.
Variable G0 : files -> Prop.
Variable allowed : fkind -> Prop.
Variable chunks : list bytes.
Variable fs0 : files.
Variable F : bool -> prog put_result.
Let d := concat chunks.
Let out := H d.
Let pd := DatP out.
Let size := length d.
Let rd := honest_reader chunks.
Let Phi := fun fs o (k : res -> prog put_result) => forall f, allowed f -> G0 (fst (fault_apply f o k fs)).
Let Psi := fun fs (_ : put_result) => G0 fs.

Hypothesis Hstop : forall fs', agree_except pd fs0 fs' -> data_ok d (fs' pd) ->
  (fs0 pd = Some d -> fs' pd = Some d) -> G0 fs'.
Hypothesis Htrue : forall fsx, agree_except pd fs0 fsx -> fsx pd = Some d -> all_points Phi Psi (F true) fsx.
Hypothesis Ffalse : exists v, F false = Ret v.
Hypothesis Hdata : data_ok d (fs0 pd).

Lemma Hseq_true : forall fsx, agree_except pd fs0 fsx -> fsx pd = Some d -> G0 (fst (run_seq (F true) fsx)).
Proof. intros fsx Ha Hd. apply (all_points_final _ _ _ _ _ (Htrue fsx Ha Hd)). Qed.

(* the sequential rest after a fault that sends copyFile into (or keeps it in) its rewrite path *)
Lemma seq_rewrite_then : forall fsx bigger, agree_except pd fs0 fsx ->
  (length (opened (fsx pd) bigger) <= length d)%nat ->
  G0 (fst (run_seq (bind (copy_rewrite H rd out size bigger) F) fsx)).
Proof.
  intros fsx bigger Ha Hl. rewrite run_seq_bind.
  destruct (seq_copy_rewrite_honest H chunks fsx bigger Hl) as (fs' & E & Hd & Ha').
  fold d out size rd in E. rewrite E. apply Hseq_true; [eapply agree_trans; eassumption|exact Hd].
Qed.

Lemma data_ok_opened : forall fsx bigger, data_ok d (fsx pd) -> (length (opened (fsx pd) bigger) <= length d)%nat.
Proof.
  intros fsx bigger [Hn|(c & Hs & Hp)]; rewrite ?Hn, ?Hs; unfold opened; [cbn; lia|].
  destruct bigger; [cbn; lia|apply prefix_length; exact Hp].
Qed.

Lemma seq_truncfail_then : forall fsx cx, agree_except pd fs0 fsx -> fsx pd = Some cx ->
  (fs0 pd <> Some d) -> G0 (fst (run_seq (bind (trunc_fail pd) F) fsx)).
Proof.
  intros fsx cx Ha Hc Hinc. destruct Ffalse as [v Ev]. unfold trunc_fail. cbn [bind run_seq step]. rewrite Hc.
  cbn [run_seq step bind]. rewrite Ev. cbn [run_seq fst].
  apply Hstop.
  - eapply agree_trans; [exact Ha|apply agree_upd].
  - right. rewrite upd_same. exists []. split; [reflexivity|apply prefix_nil].
  - intros E; contradiction.
Qed.

(* the chunk-writing loop of the rewrite path, from a file that held a prefix c1 of d *)
Lemma points_chunks : forall (K : bool -> prog bool) c1 cs w fsi,
  is_prefix c1 d -> fs0 pd <> Some d ->
  fsi pd = Some (pwrite c1 0 w) -> agree_except pd fs0 fsi ->
  is_prefix (w ++ concat cs) d -> Forall (fun x : bytes => x <> []) cs ->
  (forall fsx cx, agree_except pd fs0 fsx -> fsx pd = Some cx -> G0 (fst (run_seq (bind (K false) F) fsx))) ->
  (forall fse, fse pd = Some (pwrite c1 0 (w ++ concat cs)) -> agree_except pd fs0 fse ->
               all_points Phi Psi (bind (K true) F) fse) ->
  all_points Phi Psi (bind (write_chunks pd cs (length w) K) F) fsi.
Proof.
  intros K c1 cs. induction cs as [|x r IH]; intros w fsi Hc1 Hinc Hfsi Hag Hpre Hne Hfail Hcont.
  - cbn [write_chunks]. apply Hcont; [rewrite app_nil_r; exact Hfsi|exact Hag].
  - cbn [concat] in Hpre. inversion Hne as [|? ? Hx Hr]; subst.
    assert (is_prefix w d) as Hw by (eapply prefix_trans; [|exact Hpre]; exists (x ++ concat r); reflexivity).
    assert (forall y, is_prefix (w ++ y) d -> forall fs', agree_except pd fsi fs' ->
              fs' pd = Some (pwrite (pwrite c1 0 w) (length w) y) -> G0 fs') as Hst.
    { intros y Hy fs' Ha' Hp'. apply Hstop.
      - eapply agree_trans; eassumption.
      - right. rewrite Hp'. eexists. split; [reflexivity|].
        change (length w) with (0 + length w)%nat. rewrite pwrite_app by lia.
        apply pwrite_prefix_is_prefix; assumption.
      - intros E; contradiction. }
    cbn [write_chunks bind all_points]. split.
    + intros f Hf. destruct f; cbn [fault_apply fail_step short_step step fst]; rewrite ?Hfsi; cbn [fst wrote_all].
      * apply (Hfail fsi _ Hag Hfsi).
      * replace (Nat.eqb (Nat.min j (length x - 1)) (length x)) with false
          by (symmetry; apply Nat.eqb_neq; destruct x; [contradiction|cbn [length]; lia]).
        eapply Hfail; [eapply agree_trans; [exact Hag|apply agree_upd]|apply upd_same].
      * apply (Hst []); [rewrite app_nil_r; exact Hw|apply agree_refl|].
        rewrite Hfsi. f_equal. symmetry. apply pwrite_nil. rewrite pwrite_length by lia. lia.
      * apply (Hst x); [eapply prefix_trans; [|exact Hpre]; rewrite app_assoc; eexists; reflexivity|apply agree_upd|apply upd_same].
      * apply (Hst (firstn (Nat.min j (length x - 1)) x)); [|apply agree_upd|apply upd_same].
        eapply prefix_trans; [apply prefix_app_firstn|]. eapply prefix_trans; [|exact Hpre].
        rewrite app_assoc. eexists; reflexivity.
    + cbn [step]. rewrite Hfsi. cbn [wrote_all]. rewrite Nat.eqb_refl.
      replace (length w + length x)%nat with (length (w ++ x)) by (rewrite app_length; reflexivity).
      apply IH; try assumption.
      * rewrite upd_same. f_equal. change (length w) with (0 + length w)%nat. apply pwrite_app. lia.
      * eapply agree_trans; [exact Hag|apply agree_upd].
      * rewrite <- app_assoc. exact Hpre.
      * intros fse Hfse Hage. apply Hcont; [rewrite Hfse; cbn [concat]; rewrite app_assoc; reflexivity|exact Hage].
Qed.

Lemma size_pos_last : (0 < size)%nat ->
  exists b, nth_error d (size - 1) = Some b /\ firstn (size - 1) d ++ [b] = d.
Proof. intros Hs. apply firstn_pred_last. exact Hs. Qed.

(* copyFile's rewrite path entered with the fault still to come: the file is absent or incomplete *)
Lemma rewrite_points : fs0 pd <> Some d ->
  all_points Phi Psi (bind (copy_rewrite H rd out size false) F) fs0.
Proof.
  intros Hinc. rewrite copy_rewrite_eq; unfold copy_rewrite_body. fold pd. rewrite open_copy_small. cbn [bind all_points].
  destruct Ffalse as [vF EF].
  set (c1 := opened (fs0 pd) false).
  set (fs1 := match fs0 pd with Some _ => fs0 | None => upd fs0 pd (Some []) end).
  assert (step (OOpen pd true false) fs0 = (fs1, ROk)) as Eopen.
  { cbn [step]. unfold fs1. destruct (fs0 pd); reflexivity. }
  assert (fs1 pd = Some c1) as H1.
  { unfold fs1, c1, opened. destruct (fs0 pd) eqn:E; [exact E|apply upd_same]. }
  assert (agree_except pd fs0 fs1) as A1.
  { unfold fs1. destruct (fs0 pd); [apply agree_refl|apply agree_upd]. }
  assert (is_prefix c1 d) as P1.
  { unfold c1, opened. destruct Hdata as [Hn|(c & Hs & Hp)]; rewrite ?Hn, ?Hs; [apply prefix_nil|exact Hp]. }
  assert (forall fs' x, agree_except pd fs0 fs' -> fs' pd = x -> data_ok d x -> G0 fs') as Gst.
  { intros fs' x Ha Hx Hd. apply Hstop; [exact Ha|rewrite Hx; exact Hd|intros E; contradiction]. }
  assert (G0 fs0) as G00 by (apply (Gst fs0 _ (agree_refl _ _) eq_refl Hdata)).
  assert (G0 fs1) as G01.
  { apply (Gst fs1 _ A1 H1). right. exists c1. split; [reflexivity|exact P1]. }
  split.
  - intros f Hf. destruct f; cbn [fault_apply fail_step short_step fst bind run_seq]; rewrite ?Eopen, ?EF; cbn [fst run_seq]; assumption.
  - rewrite Eopen. destruct (Nat.eqb size 0) eqn:E0.
    + (* the empty output *)
      apply Nat.eqb_eq in E0. assert (d = []) as Ed by (destruct d; [reflexivity|discriminate]).
      assert (c1 = []) as Ec1.
      { destruct P1 as [t Ht]. rewrite Ed in Ht. destruct c1; [reflexivity|discriminate]. }
      assert (fs1 pd = Some d) as H1d by (rewrite H1, Ec1, Ed; reflexivity).
      cbn [bind all_points]. split.
      * intros f Hf. destruct f; cbn [fault_apply fail_step short_step step fst bind]; try exact G01;
          apply Hseq_true; assumption.
      * cbn [step]. apply Htrue; assumption.
    + apply Nat.eqb_neq in E0. cbn [rd honest_reader rd_seek2 rd_pass2 negb].
      destruct (size_pos_last ltac:(lia)) as (b & Eb & Ed).
      apply (points_chunks _ c1 _ [] fs1); try assumption.
      * cbn [app]. rewrite cut_chunks_concat. apply firstn_prefix.
      * apply cut_chunks_nonempty.
      * intros fsx cx Ha Hc. cbn [negb]. eapply seq_truncfail_then; eassumption.
      * intros fse Hfse Hage. cbn [app] in Hfse. rewrite cut_chunks_concat in Hfse. fold d in Hfse |- *. fold size in Hfse |- *.
        cbn [negb].
        match goal with |- context [Nat.ltb ?a ?b] =>
          replace (Nat.ltb a b) with false by (symmetry; apply Nat.ltb_ge; unfold size; lia) end.
        rewrite Eb, Ed. unfold out. rewrite bytes_eqb_refl. cbn [negb bind all_points].
        set (w1 := firstn (size - 1) d) in *.
        assert (length w1 = size - 1)%nat as Lw1 by (unfold w1; rewrite firstn_length; unfold size; lia).
        assert (is_prefix w1 d) as Pw1 by apply firstn_prefix.
        assert (size - 1 <= length (pwrite c1 0 w1))%nat as Lpw by (rewrite pwrite_length by lia; lia).
        assert (pwrite (pwrite c1 0 w1) (size - 1) [b] = d) as ED.
        { replace (size - 1)%nat with (0 + length w1)%nat by lia. rewrite pwrite_app by lia. rewrite Ed.
          apply pwrite_full. exact P1. }
        assert (G0 fse) as G0e.
        { apply (Gst fse _ Hage Hfse). right. eexists. split; [reflexivity|]. apply pwrite_prefix_is_prefix; assumption. }
        set (fs3 := upd fse pd (Some d)).
        assert (agree_except pd fs0 fs3) as A3 by (eapply agree_trans; [exact Hage|apply agree_upd]).
        assert (fs3 pd = Some d) as H3 by apply upd_same.
        assert (G0 fs3) as G03.
        { apply (Gst fs3 _ A3 H3). right. exists d. split; [reflexivity|apply prefix_refl]. }
        split.
        -- (* the committing write of the last byte *)
           intros f Hf. destruct f; cbn [fault_apply fail_step short_step step fst]; rewrite ?Hfse; cbn [fst wrote_all length Nat.min Nat.sub Nat.eqb firstn].
           ++ eapply seq_truncfail_then; eassumption.
           ++ replace (Nat.min j 0) with 0%nat by lia. cbn [Nat.eqb firstn].
              eapply seq_truncfail_then; [eapply agree_trans; [exact Hage|apply agree_upd]|apply upd_same|exact Hinc].
           ++ exact G0e.
           ++ rewrite ED. exact G03.
           ++ replace (Nat.min j 0) with 0%nat by lia. cbn [firstn]. rewrite pwrite_nil by exact Lpw.
              apply (Gst _ _ (agree_trans _ _ _ _ Hage (agree_upd _ _ _)) (upd_same _ _ _)).
              right. eexists. split; [reflexivity|]. apply pwrite_prefix_is_prefix; assumption.
        -- cbn [step]. rewrite Hfse, ED. fold fs3. cbn [wrote_all length Nat.eqb bind all_points]. split.
           ++ (* Close *)
              intros f Hf. destruct f; cbn [fault_apply fail_step short_step step fst is_err bind run_seq]; try exact G03.
              ** rewrite ?H3, ?upd_same. cbn [run_seq step bind]. rewrite EF. cbn [run_seq fst].
                 apply (Gst _ None (agree_trans _ _ _ _ A3 (agree_upd _ _ _)) (upd_same _ _ _)). left; reflexivity.
              ** rewrite ?H3, ?upd_same. cbn [run_seq step bind]. rewrite EF. cbn [run_seq fst].
                 apply (Gst _ None (agree_trans _ _ _ _ A3 (agree_upd _ _ _)) (upd_same _ _ _)). left; reflexivity.
           ++ cbn [step is_err bind all_points]. split.
              ** intros f Hf. destruct f; cbn [fault_apply fail_step short_step step fst bind run_seq]; try exact G03;
                   apply Hseq_true; assumption.
              ** cbn [step]. rewrite ?H3, ?upd_same. cbn [bind all_points]. split.
                 --- intros f Hf. destruct f; cbn [fault_apply fail_step short_step step fst bind run_seq]; try exact G03;
                       apply Hseq_true; assumption.
                 --- cbn [step]. apply Htrue; assumption.
Qed.

Lemma seq_reuse_then : forall fsx,
  run_seq (bind (if copy_reuse_refreshes then used_prog pd (Ret true) else Ret true) F) fsx = run_seq (F true) fsx.
Proof.
  intros fsx. destruct copy_reuse_refreshes; [|reflexivity].
  unfold used_prog. cbn [bind run_seq step]. destruct (fsx pd); reflexivity.
Qed.

Lemma copy_points : all_points Phi Psi (bind (copy_file_prog H rd out size) F) fs0.
Proof.
  unfold copy_file_prog. fold pd. cbn [bind all_points].
  assert (G0 fs0) as G00 by (apply Hstop; [apply agree_refl|exact Hdata|auto]).
  assert (G0 (fst (run_seq (bind (copy_rewrite H rd out size false) F) fs0))) as Grw.
  { apply seq_rewrite_then; [apply agree_refl|apply data_ok_opened; exact Hdata]. }
  split.
  - intros f Hf. destruct f; cbn [fault_apply fail_step short_step step fst]; assumption.
  - cbn [step]. destruct (fs0 pd) as [c|] eqn:E0 in |- *.
    + assert (is_prefix c d) as Pc by (destruct Hdata as [Hn|(c' & Hs & Hp)]; congruence).
      destruct (Nat.eqb (length c) size) eqn:El.
      * apply Nat.eqb_eq in El. assert (c = d) by (apply prefix_full; assumption). subst c.
        assert (G0 (fst (run_seq (F true) fs0))) as Gt by (apply Hseq_true; [apply agree_refl|exact E0]).
        assert (forall x, G0 (fst (run_seq (bind (Op (OClose pd) (fun _ =>
                   if bytes_eqb (H x) out
                   then (if copy_reuse_refreshes then used_prog pd (Ret true) else Ret true)
                   else copy_rewrite H rd out size false)) F) fs0))) as Gany.
        { intros x. cbn [bind run_seq step]. destruct (bytes_eqb (H x) out); [rewrite seq_reuse_then; exact Gt|exact Grw]. }
        cbn [bind all_points]. split.
        -- intros f Hf. destruct f; cbn [fault_apply fail_step short_step step fst]; rewrite ?E0; assumption.
        -- cbn [step]. rewrite E0. cbn [bind all_points]. split.
           ++ intros f Hf. destruct f; cbn [fault_apply fail_step short_step step fst]; rewrite ?E0; try exact G00; apply Gany.
           ++ cbn [step]. rewrite E0. cbn [bind all_points]. split.
              ** intros f Hf. destruct f; cbn [fault_apply fail_step short_step step fst]; try exact G00; apply (Gany d).
              ** cbn [step]. unfold out. rewrite bytes_eqb_refl.
                 destruct copy_reuse_refreshes.
                 --- unfold used_prog. cbn [bind all_points]. split.
                     +++ intros f Hf. destruct f; cbn [fault_apply fail_step short_step step fst bind run_seq]; try exact G00; exact Gt.
                     +++ cbn [step]. rewrite E0. apply Htrue; [apply agree_refl|exact E0].
                 --- apply Htrue; [apply agree_refl|exact E0].
      * apply Nat.eqb_neq in El.
        replace (Nat.ltb size (length c)) with false
          by (symmetry; apply Nat.ltb_ge; apply prefix_length; exact Pc).
        apply rewrite_points. rewrite E0. intros E; inversion E; subst. apply El. reflexivity.
    + apply rewrite_points. rewrite E0. discriminate.
Qed.

End CopyPhase.

(* ---- C12, regime (a): one fault per Put *)
Section FaultyPut.
Variable H : bytes -> bytes.
Hypothesis H_len : forall x, length (H x) = hash_size_n.

Lemma honest_is_honest_reader : forall rd, honest rd -> rd = honest_reader (rd_pass2 rd).
Proof. intros [s1 p1 o1 s2 p2] (E1 & E2 & E3 & E4). cbn in *. subst. reflexivity. Qed.

Lemma entry_parses_out : forall id out size tm T r,
  length id = hash_size_n ->
  parse_entry (encode_entry id out size tm ++ T) id = Some r -> length out = hash_size_n -> fst (fst r) = out.
Proof.
  intros id out size tm T r Li Ep Lo. destruct (encode_entry_prefix id out size tm) as [X EX].
  eapply parse_entry_out_field; [exact Li|exact Lo| |exact Ep].
  rewrite EX. cbn [app]. rewrite <- !app_assoc. cbn [app]. rewrite <- app_assoc. reflexivity.
Qed.

Theorem put_faulty_post_honest : forall chunks fs id tm b,
  let d := concat chunks in
  length id = hash_size_n ->
  data_ok d (fs (DatP (H d))) ->
  (forall n f, b = Some (n, f) -> regime_a_kind f) ->
  put_post H id d fs (fst (fst (run_f b (put_prog H id (honest_reader chunks) tm) fs))).
Proof.
  intros chunks fs id tm b d Li Hdata Hb.
  rewrite put_prog_eq; unfold put_prog_body. cbn [honest_reader rd_seek1 rd_ok1 rd_pass1 negb orb]. fold d.
  set (pd := DatP (H d)). set (pi := IdxP id).
  set (Fi := fun ok2 : bool => Ret (if ok2 then PutOk (H d) (length d) else PutFailed (H d) (length d))).
  set (Fc := fun ok : bool => if ok then bind (put_index_prog id (H d) (length d) tm) Fi else Ret (PutFailed (H d) (length d))).
  apply (run_f_sound _ (fun x => put_post H id d fs (fst x)) regime_a_kind); [|exact Hb].
  apply (copy_points H (put_post H id d fs) regime_a_kind chunks fs Fc).
  - (* stops and failures of the copy phase *)
    intros fs' Ha Hd Hk. split; [|split; [exact Hd|split; [exact Hk|]]].
    + intros q N1 N2. apply Ha. exact N1.
    + left. apply Ha. discriminate.
  - (* the index phase *)
    intros fsx Ha Hx. unfold Fc.
    set (e := encode_entry id (H d) (Z.of_nat (length d)) tm).
    apply (index_points (put_post H id d fs) regime_a_kind id (H d) (length d) tm fsx
             (fun x => x = fsx pi \/ forall c r, x = Some c -> parse_entry c id = Some r -> fst (fst r) = H d)).
    + intros fs' Ha' HQ. split; [|split; [|split]].
      * intros q N1 N2. rewrite Ha' by exact N2. apply Ha. exact N1.
      * right. exists d. split; [|apply prefix_refl]. rewrite Ha' by discriminate. exact Hx.
      * intros _. rewrite Ha' by discriminate. exact Hx.
      * destruct HQ as [HQ|HQ].
        -- left. rewrite HQ. apply Ha. discriminate.
        -- right. intros c r Ec Ep. split; [rewrite Ha' by discriminate; exact Hx|]. eapply HQ; eassumption.
    + left; reflexivity.
    + right. intros c r E; discriminate.
    + fold pi. destruct (fsx pi); [left; reflexivity|]. right. intros c r E Ep. inversion E; subst. discriminate.
    + right. intros c r E Ep. inversion E; subst c. rewrite pwrite_le in Ep by lia. cbn [firstn app Nat.add] in Ep.
      eapply entry_parses_out; [exact Li|exact Ep|apply H_len].
    + right. intros c r E Ep. inversion E; subst c. rewrite <- (app_nil_r (encode_entry _ _ _ _)) in Ep.
      eapply entry_parses_out; [exact Li|exact Ep|apply H_len].
    + intros j [j0 []].
    + destruct (encode_entry_prefix id (H d) (Z.of_nat (length d)) tm) as [X EX]. rewrite EX. discriminate.
    + intros ok. eexists. reflexivity.
  - eexists. reflexivity.
  - exact Hdata.
Qed.

(* ---- any source reader, no file fault: the sequential run *)
Definition reader_no_collision (rd : reader) : Prop :=
  let d := rd_pass1 rd in
  let x := firstn (length d) (concat (rd_pass2 rd)) in
  H x = H d -> x = d.

Lemma seq_copy_rewrite_any : forall rd fs,
  let d := rd_pass1 rd in
  let pd := DatP (H d) in
  reader_no_collision rd -> data_ok d (fs pd) ->
  exists fs' r, run_seq (copy_rewrite H rd (H d) (length d) false) fs = (fs', r) /\ agree_except pd fs fs' /\
                ((r = true /\ fs' pd = Some d) \/ (r = false /\ fs' pd = Some [])).
Proof.
  intros rd fs d pd Hcol Hdata. rewrite copy_rewrite_eq; unfold copy_rewrite_body. fold pd. rewrite open_copy_small.
  set (c1 := opened (fs pd) false).
  set (fs1 := match fs pd with Some _ => fs | None => upd fs pd (Some []) end).
  assert (step (OOpen pd true false) fs = (fs1, ROk)) as Eopen by (cbn [step]; unfold fs1; destruct (fs pd); reflexivity).
  assert (fs1 pd = Some c1) as H1 by (unfold fs1, c1, opened; destruct (fs pd) eqn:E; [exact E|apply upd_same]).
  assert (agree_except pd fs fs1) as A1 by (unfold fs1; destruct (fs pd); [apply agree_refl|apply agree_upd]).
  assert (is_prefix c1 d) as P1.
  { unfold c1, opened. destruct Hdata as [Hn|(c & Hs & Hp)]; rewrite ?Hn, ?Hs; [apply prefix_nil|exact Hp]. }
  cbn [run_seq]. rewrite Eopen.
  assert (forall fsx cx, agree_except pd fs fsx -> fsx pd = Some cx ->
            exists fs' r, run_seq (trunc_fail pd) fsx = (fs', r) /\ agree_except pd fs fs' /\
              ((r = true /\ fs' pd = Some d) \/ (r = false /\ fs' pd = Some []))) as Htf.
  { intros fsx cx Ha Hc. unfold trunc_fail. cbn [run_seq step]. rewrite Hc. cbn [run_seq step].
    eexists _, _. split; [reflexivity|]. split; [eapply agree_trans; [exact Ha|apply agree_upd]|].
    right. split; [reflexivity|]. apply upd_same. }
  destruct (Nat.eqb (length d) 0) eqn:E0.
  - apply Nat.eqb_eq in E0. cbn [run_seq step]. exists fs1, true. split; [reflexivity|]. split; [exact A1|]. left. split; [reflexivity|].
    rewrite H1. f_equal. apply prefix_full; [exact P1|]. apply prefix_length in P1. lia.
  - apply Nat.eqb_neq in E0. destruct (negb (rd_seek2 rd)); [apply (Htf fs1 c1 A1 H1)|].
    set (flat := concat (rd_pass2 rd)) in *.
    match goal with |- context [write_chunks pd ?cs 0 ?K] =>
      destruct (seq_write_chunks _ pd cs 0 fs1 c1 K H1 (Nat.le_0_l _)) as (fs2 & E2 & Hp2 & Ha2) end.
    rewrite E2. cbn [negb]. rewrite cut_chunks_concat in Hp2. fold flat in Hp2.
    assert (agree_except pd fs fs2) as A2 by (eapply agree_trans; eassumption).
    destruct (Nat.ltb (length flat) (length d - 1)) eqn:Elt; [apply (Htf fs2 _ A2 Hp2)|].
    destruct (nth_error flat (length d - 1)) as [b|] eqn:Eb; [|apply (Htf fs2 _ A2 Hp2)].
    destruct (bytes_eqb (H (firstn (length d - 1) flat ++ [b])) (H d)) eqn:Eh; cbn [negb]; [|apply (Htf fs2 _ A2 Hp2)].
    apply bytes_eqb_eq in Eh. rewrite (nth_error_firstn_snoc _ _ _ Eb) in Eh.
    replace (S (length d - 1)) with (length d) in Eh by lia.
    pose proof (Hcol Eh) as Ex. fold flat in Ex.
    cbn [run_seq step]. rewrite Hp2. cbn [wrote_all length Nat.eqb run_seq step is_err].
    eexists _, true. split; [reflexivity|]. split; [eapply agree_trans; [exact A2|apply agree_upd]|].
    left. split; [reflexivity|]. rewrite upd_same. f_equal.
    assert (firstn (length d - 1) flat ++ [b] = d) as Ed.
    { rewrite (nth_error_firstn_snoc _ _ _ Eb). replace (S (length d - 1)) with (length d) by lia. exact Ex. }
    replace (length d - 1)%nat with (0 + length (firstn (length d - 1) flat))%nat at 2.
    + rewrite pwrite_app by lia. rewrite Ed. apply pwrite_full. exact P1.
    + apply Nat.ltb_ge in Elt. rewrite firstn_length. lia.
Qed.

Lemma seq_copy_file_any : forall rd fs,
  let d := rd_pass1 rd in
  let pd := DatP (H d) in
  reader_no_collision rd -> data_ok d (fs pd) ->
  exists fs' r, run_seq (copy_file_prog H rd (H d) (length d)) fs = (fs', r) /\ agree_except pd fs fs' /\
                ((r = true /\ fs' pd = Some d) \/ (r = false /\ fs' pd = Some [] /\ fs pd <> Some d)).
Proof.
  intros rd fs d pd Hcol Hdata. unfold copy_file_prog. fold pd. cbn [run_seq step].
  assert (fs pd <> Some d -> exists fs' r, run_seq (copy_rewrite H rd (H d) (length d) false) fs = (fs', r) /\ agree_except pd fs fs' /\
                ((r = true /\ fs' pd = Some d) \/ (r = false /\ fs' pd = Some [] /\ fs pd <> Some d))) as Hrw.
  { intros Hinc. destruct (seq_copy_rewrite_any rd fs Hcol Hdata) as (fs' & r & E & Ha & Hr).
    exists fs', r. split; [exact E|]. split; [exact Ha|]. destruct Hr as [Hr|[Hr1 Hr2]]; [left; exact Hr|right; auto]. }
  destruct (fs pd) as [c|] eqn:E0 in |- *.
  - assert (is_prefix c d) as Pc by (destruct Hdata as [Hn|(c' & Hs & Hp)]; congruence).
    destruct (Nat.eqb (length c) (length d)) eqn:El.
    + apply Nat.eqb_eq in El. assert (c = d) by (apply prefix_full; assumption). subst c.
      cbn [run_seq step]. rewrite E0. cbn [run_seq step]. rewrite E0, bytes_eqb_refl.
      exists fs, true. split; [|split; [apply agree_refl|left; auto]].
      destruct copy_reuse_refreshes; cbv iota; [rewrite run_used|]; reflexivity.
    + apply Nat.eqb_neq in El.
      replace (Nat.ltb (length d) (length c)) with false by (symmetry; apply Nat.ltb_ge; apply prefix_length; exact Pc).
      rewrite <- E0. apply Hrw. rewrite E0. intros E; inversion E; subst. apply El; reflexivity.
  - rewrite <- E0. apply Hrw. rewrite E0. discriminate.
Qed.

Theorem put_seq_post : forall rd fs id tm,
  let d := rd_pass1 rd in
  length id = hash_size_n ->
  reader_no_collision rd -> data_ok d (fs (DatP (H d))) ->
  put_post H id d fs (fst (put H fs id rd tm)).
Proof.
  intros rd fs id tm d Li Hcol Hdata. unfold put; rewrite put_prog_eq; unfold put_prog_body.
  assert (put_post H id d fs fs) as Psame.
  { split; [auto|]. split; [exact Hdata|]. split; [auto|]. left; reflexivity. }
  destruct (negb (rd_seek1 rd) || negb (rd_ok1 rd)); [exact Psame|]. fold d.
  rewrite run_seq_bind.
  destruct (seq_copy_file_any rd fs Hcol Hdata) as (fs1 & r & E1 & Ha1 & Hr). fold d in E1, Ha1, Hr. rewrite E1.
  destruct Hr as [[-> Hd1]|(-> & Hd1 & Hinc)].
  - rewrite run_seq_bind. destruct (seq_put_index fs1 id (H d) (length d) tm) as (fs2 & E2 & Hi2 & Ha2).
    rewrite E2. cbn [run_seq fst]. split; [|split; [|split]].
    + intros q N1 N2. rewrite Ha2 by exact N2. apply Ha1. exact N1.
    + right. exists d. split; [|apply prefix_refl]. rewrite Ha2 by discriminate. exact Hd1.
    + intros _. rewrite Ha2 by discriminate. exact Hd1.
    + right. intros c r Ec Ep. split; [rewrite Ha2 by discriminate; exact Hd1|].
      rewrite Hi2 in Ec. inversion Ec; subst c. rewrite <- (app_nil_r (encode_entry _ _ _ _)) in Ep.
      eapply entry_parses_out; [exact Li|exact Ep|apply H_len].
  - cbn [run_seq fst]. split; [|split; [|split]].
    + intros q N1 N2. apply Ha1. exact N1.
    + right. exists []. split; [exact Hd1|apply prefix_nil].
    + intros E; contradiction.
    + left. apply Ha1. discriminate.
Qed.

End FaultyPut.

Section C12a.
Variable H : bytes -> bytes.
Variable U : bytes -> Prop.
Hypothesis H_len : forall x, length (H x) = hash_size_n.
Hypothesis H_inj : H_inj_on H U.

(* the conditions of regime (a): the source is well-behaved and one file operation faults, or
   the source misbehaves (error, early end, other bytes on the second pass) and no operation faults *)
Definition one_fault (b : budget) (rd : reader) : Prop :=
  (honest rd /\ regime_a b) \/ (b = None /\ reader_no_collision H rd).

Theorem put_faulty_post : forall fs id rd tm b,
  length id = hash_size_n -> I1 H U fs -> U (rd_pass1 rd) -> one_fault b rd ->
  put_post H id (rd_pass1 rd) fs (fst (fst (run_f b (put_prog H id rd tm) fs))).
Proof.
  intros fs id rd tm b Li Hi1 Ud [[Hh Hr]|[-> Hc]].
  - rewrite (honest_is_honest_reader rd Hh) at 2.
    assert (rd_pass1 rd = concat (rd_pass2 rd)) as E by (destruct Hh as (_ & _ & _ & E); auto).
    rewrite E. apply put_faulty_post_honest; [exact H_len|exact Li| |].
    + rewrite <- E. apply (inv_data_ok H U); assumption.
    + intros n f ->. destruct f; cbn in *; auto.
  - rewrite run_f_none. cbn [fst]. apply put_seq_post; [exact H_len|exact Li|exact Hc|].
    apply (inv_data_ok H U); assumption.
Qed.

Theorem inv_put_faulty : forall fs id rd tm b,
  Inv H U fs -> length id = hash_size_n -> U (rd_pass1 rd) -> one_fault b rd ->
  Inv H U (fst (fst (run_f b (put_prog H id rd tm) fs))).
Proof.
  intros fs id rd tm b Hinv Li Ud Hone.
  eapply post_inv; [exact H_inj|exact Ud|exact Hinv|].
  apply put_faulty_post; [exact Li|apply Hinv|exact Ud|exact Hone].
Qed.

(* from an undamaged cache, a file named by GetFile holds exactly the bytes with that OutputID *)
Theorem get_file_exact : forall fs id p out size tm,
  Inv H U fs -> get_file fs id = Found p out size tm ->
  exists d0, U d0 /\ H d0 = out /\ fs p = Some d0 /\ Z.of_nat (length d0) = size.
Proof.
  intros fs id p out size tm [Hi1 Hi2] Hg. unfold get_file in Hg. rewrite run_get_file in Hg. cbn [snd] in Hg.
  unfold entry_of in Hg. destruct (fs (IdxP id)) as [c|] eqn:Ec; [|discriminate].
  destruct (parse_entry c id) as [[[o s] t]|] eqn:Ep; [|discriminate]. cbn [file_lookup] in Hg.
  destruct (fs (DatP o)) as [x|] eqn:Ex; [|discriminate].
  destruct (Z.eqb (Z.of_nat (length x)) s) eqn:Es; [|discriminate]. inversion Hg; subst. apply Z.eqb_eq in Es.
  destruct (Hi1 _ _ Ex) as (d0 & Ud0 & Hh & Hp).
  pose proof (Hi2 _ _ _ _ _ Ec Ep d0 Ud0 Hh) as Hf1.
  rewrite Ex in Hf1. inversion Hf1; subst. exists d0. auto.
Qed.

(* a Put that fails or is interrupted leaves every lookup of every other id as it was *)
Theorem failed_put_frame : forall fs id rd tm b id',
  Inv H U fs -> length id = hash_size_n -> U (rd_pass1 rd) -> one_fault b rd -> id' <> id ->
  let fs' := fst (fst (run_f b (put_prog H id rd tm) fs)) in
  get fs' id' = get fs id' /\ get_bytes H fs' id' = get_bytes H fs id' /\ get_file fs' id' = get_file fs id'.
Proof.
  intros fs id rd tm b id' [Hi1 Hi2] Li Ud Hone Nid fs'.
  destruct (put_faulty_post fs id rd tm b Li Hi1 Ud Hone) as (Hfr & _ & Hkeep & _). fold fs' in Hfr, Hkeep.
  apply lookups_depend.
  - apply Hfr; [discriminate|]. intros E; inversion E; congruence.
  - intros out size t Ee. unfold entry_of in Ee. destruct (fs (IdxP id')) as [c|] eqn:Ec; [|discriminate].
    destruct (bytes_eqb out (H (rd_pass1 rd))) eqn:Eo.
    + apply bytes_eqb_eq in Eo. subst out.
      pose proof (Hi2 _ _ _ _ _ Ec Ee (rd_pass1 rd) Ud eq_refl) as Hf1.
      rewrite Hf1. apply Hkeep. exact Hf1.
    + apply bytes_eqb_neq in Eo. apply Hfr; [|discriminate]. intros E; inversion E; congruence.
Qed.

End C12a.

(* ---- C12, regime (b): torn write then stop *)
Lemma nth_error_skipn_add : forall (l : bytes) n i, nth_error (skipn n l) i = nth_error l (n + i).
Proof.
  induction l as [|x l IH]; intros n i.
  - rewrite skipn_nil. destruct i, n; reflexivity.
  - destruct n; [reflexivity|]. cbn. apply IH.
Qed.

(* every byte of c is, at its position, a byte of e or a byte of the old content *)
Definition idx_from (e : bytes) (old : option bytes) (c : bytes) : Prop :=
  forall i b, nth_error c i = Some b ->
    nth_error e i = Some b \/ exists c0, old = Some c0 /\ nth_error c0 i = Some b.

Lemma idx_from_pwrite : forall e c1 w old, is_prefix w e ->
  (old = Some c1 \/ c1 = []) -> idx_from e old (pwrite c1 0 w).
Proof.
  intros e c1 w old [u Hu] Hold i b Hn. rewrite pwrite_le in Hn by lia. cbn [firstn app Nat.add] in Hn.
  destruct (lt_dec i (length w)) as [L|L].
  - left. rewrite nth_error_app1 in Hn by exact L. rewrite Hu, nth_error_app1 by exact L. exact Hn.
  - rewrite nth_error_app2 in Hn by lia. rewrite nth_error_skipn_add in Hn.
    replace (length w + (i - length w))%nat with i in Hn by lia.
    destruct Hold as [->| ->]; [right; exists c1; auto|destruct i; discriminate].
Qed.

Section C12b.
Variable H : bytes -> bytes.
Variable U : bytes -> Prop.
Hypothesis H_len : forall x, length (H x) = hash_size_n.
Hypothesis H_inj : H_inj_on H U.

(* a byte at position i of the index file of id is explained by a content that is complete in
   the store: it is the byte at position i of a well-formed entry naming that content *)
Definition covered (fs : files) (id c : bytes) : Prop :=
  forall i b, nth_error c i = Some b ->
    exists d tm, U d /\ fs (DatP (H d)) = Some d /\
                 nth_error (encode_entry id (H d) (Z.of_nat (length d)) tm) i = Some b.

Definition I2b (fs : files) : Prop := forall id c, fs (IdxP id) = Some c -> covered fs id c.
Definition InvB (fs : files) : Prop := I1 H U fs /\ I2b fs.

Lemma invb_init : InvB no_files.
Proof. split; intros ? ? ; discriminate. Qed.

Definition put_post_b (id d : bytes) (tm : Z) (fs fs' : files) : Prop :=
  let e := encode_entry id (H d) (Z.of_nat (length d)) tm in
  (forall q, q <> DatP (H d) -> q <> IdxP id -> fs' q = fs q) /\
  data_ok d (fs' (DatP (H d))) /\
  (fs (DatP (H d)) = Some d -> fs' (DatP (H d)) = Some d) /\
  (fs' (IdxP id) = fs (IdxP id) \/ fs' (IdxP id) = None \/
   exists c, fs' (IdxP id) = Some c /\ fs' (DatP (H d)) = Some d /\ idx_from e (fs (IdxP id)) c).

Lemma post_b_inv : forall fs fs' id d tm, U d -> InvB fs -> put_post_b id d tm fs fs' -> InvB fs'.
Proof.
  intros fs fs' id d tm Ud [Hi1 Hi2] (Hfr & Hd & Hkeep & Hidx).
  assert (forall d0, U d0 -> fs (DatP (H d0)) = Some d0 -> fs' (DatP (H d0)) = Some d0) as Hc.
  { intros d0 Ud0 Hf. destruct (bytes_eqb (H d0) (H d)) eqn:E.
    - apply bytes_eqb_eq in E. assert (d0 = d) by (apply H_inj; assumption). subst d0. apply Hkeep. exact Hf.
    - apply bytes_eqb_neq in E. rewrite Hfr; [exact Hf| |discriminate]. intros Eq; inversion Eq; congruence. }
  assert (forall id' c, covered fs id' c -> covered fs' id' c) as Hcov.
  { intros id' c Hcv i b Hn. destruct (Hcv i b Hn) as (d0 & t0 & Ud0 & Hf & He).
    exists d0, t0. split; [exact Ud0|]. split; [apply Hc; assumption|exact He]. }
  split.
  - intros out c Ec. destruct (bytes_eqb out (H d)) eqn:E.
    + apply bytes_eqb_eq in E. subst out. destruct Hd as [Hn|(c' & Hs & Hp)]; [congruence|].
      exists d. split; [exact Ud|]. split; [reflexivity|]. congruence.
    + apply bytes_eqb_neq in E. rewrite Hfr in Ec; [exact (Hi1 _ _ Ec)| |discriminate].
      intros Eq; inversion Eq; congruence.
  - intros id' c Ec. destruct (bytes_eqb id' id) eqn:E.
    + apply bytes_eqb_eq in E. subst id'. destruct Hidx as [Hsame|[Hnone|(c' & Hs & Hf & Hfrom)]].
      * rewrite Hsame in Ec. apply Hcov. apply Hi2. exact Ec.
      * congruence.
      * rewrite Hs in Ec. inversion Ec; subst c'. intros i b Hn.
        destruct (Hfrom i b Hn) as [He|(c0 & Hc0 & Hn0)].
        -- exists d, tm. auto.
        -- apply (Hcov id c0 (Hi2 _ _ Hc0) i b Hn0).
    + apply bytes_eqb_neq in E. rewrite Hfr in Ec; [|discriminate|intros Eq; inversion Eq; congruence].
      apply Hcov. apply Hi2. exact Ec.
Qed.

Theorem put_faulty_post_b_honest : forall chunks fs id tm b,
  let d := concat chunks in
  data_ok d (fs (DatP (H d))) ->
  put_post_b id d tm fs (fst (fst (run_f b (put_prog H id (honest_reader chunks) tm) fs))).
Proof.
  intros chunks fs id tm b d Hdata.
  rewrite put_prog_eq; unfold put_prog_body. cbn [honest_reader rd_seek1 rd_ok1 rd_pass1 negb orb]. fold d.
  set (pd := DatP (H d)). set (pi := IdxP id).
  set (Fi := fun ok2 : bool => Ret (if ok2 then PutOk (H d) (length d) else PutFailed (H d) (length d))).
  set (Fc := fun ok : bool => if ok then bind (put_index_prog id (H d) (length d) tm) Fi else Ret (PutFailed (H d) (length d))).
  apply (run_f_sound _ (fun x => put_post_b id d tm fs (fst x)) (fun _ => True)); [|auto].
  apply (copy_points H (put_post_b id d tm fs) (fun _ => True) chunks fs Fc).
  - intros fs' Ha Hd Hk. split; [|split; [exact Hd|split; [exact Hk|]]].
    + intros q N1 N2. apply Ha. exact N1.
    + left. apply Ha. discriminate.
  - intros fsx Ha Hx. unfold Fc.
    set (e := encode_entry id (H d) (Z.of_nat (length d)) tm).
    apply (index_points (put_post_b id d tm fs) (fun _ => True) id (H d) (length d) tm fsx
             (fun x => x = fsx pi \/ x = None \/ exists c, x = Some c /\ idx_from e (fsx pi) c)).
    + intros fs' Ha' HQ. split; [|split; [|split]].
      * intros q N1 N2. rewrite Ha' by exact N2. apply Ha. exact N1.
      * right. exists d. split; [|apply prefix_refl]. rewrite Ha' by discriminate. exact Hx.
      * intros _. rewrite Ha' by discriminate. exact Hx.
      * assert (fsx pi = fs pi) as Epi by (apply Ha; discriminate).
        destruct HQ as [HQ|[HQ|(c & HQ & Hfrom)]].
        -- left. rewrite HQ. exact Epi.
        -- right. left. exact HQ.
        -- right. right. exists c. split; [exact HQ|]. split; [rewrite Ha' by discriminate; exact Hx|].
           fold pi. rewrite <- Epi. exact Hfrom.
    + left; reflexivity.
    + right; left; reflexivity.
    + fold pi. destruct (fsx pi) as [c0|]; [left; reflexivity|]. right. right. exists []. split; [reflexivity|].
      intros i x Hn. destruct i; discriminate.
    + right. right. eexists. split; [reflexivity|]. fold pi. fold e.
      apply idx_from_pwrite; [apply prefix_refl|]. destruct (fsx pi); [left; reflexivity|right; reflexivity].
    + right. right. eexists. split; [reflexivity|]. intros i x Hn. left. exact Hn.
    + intros j _. right. right. eexists. split; [reflexivity|]. fold pi. fold e.
      apply idx_from_pwrite; [apply firstn_prefix|]. destruct (fsx pi); [left; reflexivity|right; reflexivity].
    + destruct (encode_entry_prefix id (H d) (Z.of_nat (length d)) tm) as [X EX]. rewrite EX. discriminate.
    + intros ok. eexists. reflexivity.
  - eexists. reflexivity.
  - exact Hdata.
Qed.

Theorem put_seq_post_b : forall rd fs id tm,
  let d := rd_pass1 rd in
  reader_no_collision H rd -> data_ok d (fs (DatP (H d))) ->
  put_post_b id d tm fs (fst (put H fs id rd tm)).
Proof.
  intros rd fs id tm d Hcol Hdata. unfold put; rewrite put_prog_eq; unfold put_prog_body.
  assert (put_post_b id d tm fs fs) as Psame.
  { split; [auto|]. split; [exact Hdata|]. split; [auto|]. left; reflexivity. }
  destruct (negb (rd_seek1 rd) || negb (rd_ok1 rd)); [exact Psame|]. fold d.
  rewrite run_seq_bind.
  destruct (seq_copy_file_any H rd fs Hcol Hdata) as (fs1 & r & E1 & Ha1 & Hr). fold d in E1, Ha1, Hr. rewrite E1.
  destruct Hr as [[-> Hd1]|(-> & Hd1 & Hinc)].
  - rewrite run_seq_bind. destruct (seq_put_index fs1 id (H d) (length d) tm) as (fs2 & E2 & Hi2 & Ha2).
    rewrite E2. cbn [run_seq fst]. split; [|split; [|split]].
    + intros q N1 N2. rewrite Ha2 by exact N2. apply Ha1. exact N1.
    + right. exists d. split; [|apply prefix_refl]. rewrite Ha2 by discriminate. exact Hd1.
    + intros _. rewrite Ha2 by discriminate. exact Hd1.
    + right. right. eexists. split; [exact Hi2|]. split; [rewrite Ha2 by discriminate; exact Hd1|].
      intros i b Hn. left. exact Hn.
  - cbn [run_seq fst]. split; [|split; [|split]].
    + intros q N1 N2. apply Ha1. exact N1.
    + right. exists []. split; [exact Hd1|apply prefix_nil].
    + intros E; contradiction.
    + left. apply Ha1. discriminate.
Qed.

(* both regimes: the source is well-behaved and one file operation faults in any of the five
   ways, or the source misbehaves and no operation faults *)
Definition one_fault_b (b : budget) (rd : reader) : Prop :=
  honest rd \/ (b = None /\ reader_no_collision H rd).

Theorem invb_put_faulty : forall fs id rd tm b,
  InvB fs -> U (rd_pass1 rd) -> one_fault_b b rd ->
  InvB (fst (fst (run_f b (put_prog H id rd tm) fs))).
Proof.
  intros fs id rd tm b Hinv Ud Hone.
  assert (data_ok (rd_pass1 rd) (fs (DatP (H (rd_pass1 rd))))) as Hdata
    by (apply (inv_data_ok H U); [exact H_inj|exact Ud|apply Hinv]).
  eapply (post_b_inv fs _ id (rd_pass1 rd) tm Ud Hinv).
  destruct Hone as [Hh|[-> Hc]].
  - rewrite (honest_is_honest_reader rd Hh) at 2.
    assert (rd_pass1 rd = concat (rd_pass2 rd)) as E by (destruct Hh as (_ & _ & _ & E); auto).
    rewrite E in *. apply put_faulty_post_b_honest. exact Hdata.
  - rewrite run_f_none. cbn [fst]. apply put_seq_post_b; assumption.
Qed.

End C12b.

(* ---- hybrids: from InvB to Inv *)
Lemma nth_error_entry_out : forall (b0 b1 b2 s1 : byte) hid hout X k,
  length hid = hex_size_n -> (k < length hout)%nat ->
  nth_error (b0 :: b1 :: b2 :: hid ++ s1 :: hout ++ X) (3 + hex_size_n + 1 + k) = nth_error hout k.
Proof.
  intros b0 b1 b2 s1 hid hout X k Lh Lk.
  change (3 + hex_size_n + 1 + k)%nat with (S (S (S (hex_size_n + 1 + k)))). cbn [nth_error].
  rewrite nth_error_app2 by lia. replace (hex_size_n + 1 + k - length hid)%nat with (S k) by lia.
  cbn [nth_error]. apply nth_error_app1. exact Lk.
Qed.

Section Hybrid.
Variable H : bytes -> bytes.
Variable U : bytes -> Prop.
Hypothesis H_len : forall x, length (H x) = hash_size_n.

(* no string that is, position by position, made of the hex digits of hashes of contents of a
   set S (within U) decodes to the hash of a content of U outside S *)
Definition no_hybrid : Prop :=
  forall (S : bytes -> Prop) s d0, U d0 -> hex_decode s = Some (H d0) ->
    (forall k b, nth_error s k = Some b -> exists d, U d /\ S d /\ nth_error (hex (H d)) k = Some b) ->
    S d0.

Lemma covered_parse_complete : forall fs id c out size tm,
  no_hybrid -> covered H U fs id c -> parse_entry c id = Some (out, size, tm) ->
  forall d0, U d0 -> H d0 = out -> fs (DatP out) = Some d0.
Proof.
  intros fs id c out size tm Hnh Hcov Ep d0 Ud0 Hh.
  destruct (parse_entry_strict _ _ _ _ _ Ep) as (_ & hid & hout & ss & st & Es & Lh & Lo & _ & _ & Hi & Ho & _).
  assert (length id = hash_size_n) as Li.
  { apply hex_decode_length in Hi. pose proof hex_size_hash. lia. }
  subst out. apply (Hnh (fun d => fs (DatP (H d)) = Some d) hout d0 Ud0 Ho).
  intros k b Hn.
  assert (k < length hout)%nat as Lk by (apply nth_error_Some; congruence).
  assert (nth_error c (3 + hex_size_n + 1 + k) = Some b) as Hc.
  { rewrite Es. unfold entry_shape. rewrite nth_error_entry_out by assumption. exact Hn. }
  destruct (Hcov _ _ Hc) as (d & t & Ud & Hf & He).
  exists d. split; [exact Ud|]. split; [exact Hf|].
  destruct (encode_entry_prefix id (H d) (Z.of_nat (length d)) t) as [X EX]. rewrite EX in He.
  rewrite nth_error_entry_out in He; [exact He| |].
  - rewrite hex_length, Li. symmetry; apply hex_size_hash.
  - rewrite hex_length, H_len. pose proof hex_size_hash. lia.
Qed.

Theorem invb_inv : forall fs, no_hybrid -> InvB H U fs -> Inv H U fs.
Proof.
  intros fs Hnh [Hi1 Hi2]. split; [exact Hi1|].
  intros id c out size tm Ec Ep d0 Ud0 Hh.
  eapply covered_parse_complete; try eassumption. apply Hi2. exact Ec.
Qed.

End Hybrid.

(* Facts about the faulty semantics (C12). *)
From Coq Require Import List Bool Arith NArith ZArith Lia.
From Coq.Strings Require Import Byte.
From GI Require Import Lib.Bytes Gen.CacheConsts Cache.CacheEntry Cache.CacheEntryFacts Cache.Cache
  Cache.CacheSeqFacts Cache.CacheFault.
Import ListNotations.

(* ---- generic: a faulty run is a sequential prefix, one fault, a sequential rest *)
Lemma run_f_none : forall A (p : prog A) fs,
  run_f None p fs = (fst (run_seq p fs), Done (snd (run_seq p fs)), None).
Proof.
  induction p as [a|o k IH]; intros fs; cbn; [reflexivity|].
  destruct (step o fs) as [fs' r]. apply IH.
Qed.

Definition fault_apply {A} (f : fkind) (o : op) (k : res -> prog A) (fs : files) : files * outcome A :=
  match f with
  | FStopBefore => (fs, Stopped)
  | FStopAfter => (fst (step o fs), Stopped)
  | FTorn j => (fst (short_step j o fs), Stopped)
  | FFail => (fst (run_seq (k RErr) fs), Done (snd (run_seq (k RErr) fs)))
  | FShort j => let '(fs', r) := short_step j o fs in
                (fst (run_seq (k r) fs'), Done (snd (run_seq (k r) fs')))
  end.

(* a predicate at every point of the sequential execution *)
Fixpoint all_points {A} (Phi : files -> op -> (res -> prog A) -> Prop) (Psi : files -> A -> Prop)
  (p : prog A) (fs : files) : Prop :=
  match p with
  | Ret a => Psi fs a
  | Op o k => Phi fs o k /\ let '(fs', r) := step o fs in all_points Phi Psi (k r) fs'
  end.

Lemma run_f_sound : forall A (G : files * outcome A -> Prop) (allowed : fkind -> Prop) (p : prog A) fs,
  all_points (fun fs o k => forall f, allowed f -> G (fault_apply f o k fs)) (fun fs a => G (fs, Done a)) p fs ->
  forall b, (forall n f, b = Some (n, f) -> allowed f) -> G (fst (run_f b p fs)).
Proof.
  induction p as [a|o k IH]; intros fs Hall b Hb.
  - cbn. exact Hall.
  - cbn in Hall. destruct Hall as [Hphi Hrest]. cbn [run_f].
    destruct b as [[[|n] f]|].
    + specialize (Hphi f (Hb 0%nat f eq_refl)). unfold fault_apply in Hphi.
      destruct f; cbn [fail_step]; try exact Hphi.
      * rewrite run_f_none. exact Hphi.
      * destruct (short_step j o fs) as [fs' r]. rewrite run_f_none. exact Hphi.
    + destruct (step o fs) as [fs' r]. apply IH; [exact Hrest|].
      intros n' f' E. inversion E; subst. eapply Hb; reflexivity.
    + destruct (step o fs) as [fs' r]. apply IH; [exact Hrest|]. intros n' f' E; discriminate.
Qed.

Lemma all_points_weaken : forall A (Phi Phi' : files -> op -> (res -> prog A) -> Prop) (Psi Psi' : files -> A -> Prop) p fs,
  (forall fs o k, Phi fs o k -> Phi' fs o k) -> (forall fs a, Psi fs a -> Psi' fs a) ->
  all_points Phi Psi p fs -> all_points Phi' Psi' p fs.
Proof.
  induction p as [a|o k IH]; intros fs H1 H2 Hall; cbn in *.
  - apply H2; exact Hall.
  - destruct Hall as [Hp Hr]. split; [apply H1; exact Hp|].
    destruct (step o fs) as [fs' r]. apply IH; assumption.
Qed.

(* programs under bind *)
Lemma all_points_bind : forall A B (Phi : files -> op -> (res -> prog B) -> Prop) (Psi : files -> B -> Prop)
  (p : prog A) (f : A -> prog B) fs,
  all_points (fun fs o k => Phi fs o (fun r => bind (k r) f)) (fun fs a => all_points Phi Psi (f a) fs) p fs ->
  all_points Phi Psi (bind p f) fs.
Proof.
  induction p as [a|o k IH]; intros f fs Hall; cbn in *.
  - exact Hall.
  - destruct Hall as [Hp Hr]. split; [exact Hp|]. destruct (step o fs) as [fs' r]. apply IH. exact Hr.
Qed.

(* one faulty operation changes at most its own path *)
Lemma short_step_agree : forall j o fs, agree_except (op_path o) fs (fst (short_step j o fs)).
Proof.
  intros j o fs. destruct o; try (cbn; apply agree_refl).
  unfold short_step. destruct (Nat.ltb j (length b)).
  - destruct (fs p); cbn [fst op_path]; [apply agree_upd|apply agree_refl].
  - apply (step_agree (OWrite p off b)).
Qed.

Lemma only_paths_run_f : forall A S (p : prog A), only_paths S p ->
  forall b fs q, ~ S q -> fst (fst (run_f b p fs)) q = fs q.
Proof.
  intros A S p Hp. induction Hp as [a|o k Ho _ IH]; intros b fs q Nq; cbn [run_f].
  - reflexivity.
  - assert (q <> op_path o) as Nqo by (intros ->; contradiction).
    pose proof (step_agree o fs q Nqo) as Hs.
    destruct b as [[[|n] f]|].
    + destruct f; cbn [fail_step fst].
      * apply IH; exact Nq.
      * pose proof (short_step_agree j o fs q Nqo) as Hss. destruct (short_step j o fs) as [fs' r].
        rewrite IH by exact Nq. exact Hss.
      * reflexivity.
      * exact Hs.
      * exact (short_step_agree j o fs q Nqo).
    + destruct (step o fs) as [fs' r]. rewrite IH by exact Nq. exact Hs.
    + destruct (step o fs) as [fs' r]. rewrite IH by exact Nq. exact Hs.
Qed.

(* Gen/CacheSrc.v holds the pure segments of cache/cache.go translated to Gallina by
   harness/go2coq on every run (table: harness/cmd/genconsts/gen_cache_src.go).  This file
   proves, for every input and every sufficient iteration bound, that the segments of get,
   putIndexEntry and fileName return Ok of exactly what the hand-written codec of
   Cache/CacheEntry.v computes (never Panic, never OutOfFuel):

   - src_Cache_get_parse, the statements of the method get of Cache between io.ReadFull and c.used: on the
     buffer entry = e ++ tail, where e are the entrySize bytes read and tail is what is behind
     them in the buffer (one zero byte in the code), with any bound fuel >= 21 on the two
     padding loops, it returns missing(...) exactly when parse_entry e id = None and otherwise
     hands on the decoded output id, size and time of parse_entry (src_get_parse_eq);
   - src_Cache_get_result, the final return: Entry{buf, size, time.Unix(0, tm)}, nil;
   - src_Cache_putIndexEntry_entry, the fmt.Sprintf of putIndexEntry: encode_entry, with the
     clock read time.Now() as a parameter (src_put_entry_eq);
   - src_Cache_fileName_body: filepath.Join(dir, two hex digits of id[0], hex(id) + "-" + key),
     whose last element is Cache.v's path_name (src_fileName_eq).

   What stays hand-read in get is the statement  if n, err := io.ReadFull(f, entry); ...  that
   compares n with entrySize (the model's  length e = entry_size_n): it tests io's sentinel
   errors, which the translator's reading of error values (nil or not) cannot express.

   The proofs do not mention generated hypothesis or bound-variable names: a segment is
   unfolded and its checked index and slice expressions are rewritten, in evaluation order,
   by lemmas about go_index / go_slice on e ++ tail; the loops go by induction on the bound. *)
From Coq Require Import List Bool Arith ZArith Lia ZifyBool.
From Coq.Strings Require Import Byte.
From GI Require Import Lib.Bytes Lib.GoSem Lib.GoSemSeg Gen.CacheConsts Cache.CacheEntry Cache.CacheEntryFacts
  Cache.SrcLib Gen.CacheSrc.
From GI Require CacheTrim.CacheTrim TxtarWrite.Path.
Import ListNotations.
Local Open Scope Z_scope.

(* ------------------------------------------------------------------ checked expressions *)

Lemma go_index_app (x tail : bytes) i :
  0 <= i < len x -> go_index (x ++ tail) i = Ok (nth (Z.to_nat i) x x00).
Proof.
  intros Hi. unfold go_index, index_z, len in *. rewrite app_length.
  replace ((0 <=? i) && (i <? Z.of_nat (length x + length tail))) with true by lia.
  rewrite nth_error_app1 by lia. rewrite (nth_error_nth' x x00) by lia. reflexivity.
Qed.

Lemma go_index_ok (x : bytes) i :
  0 <= i < len x -> go_index x i = Ok (nth (Z.to_nat i) x x00).
Proof. intros Hi. rewrite <- (app_nil_r x) at 1. now apply go_index_app. Qed.

Lemma go_slice_app (x tail : bytes) lo hi :
  0 <= lo <= hi -> hi <= len x ->
  go_slice (x ++ tail) lo hi = Ok (firstn (Z.to_nat hi - Z.to_nat lo) (skipn (Z.to_nat lo) x)).
Proof.
  intros H1 H2. unfold go_slice, slice_z, len in *. rewrite app_length.
  replace ((0 <=? lo) && (lo <=? hi) && (hi <=? Z.of_nat (length x + length tail))) with true by lia.
  rewrite skipn_app, firstn_app, skipn_length.
  replace (Z.to_nat hi - Z.to_nat lo - (length x - Z.to_nat lo))%nat with 0%nat by lia.
  cbn [firstn]. now rewrite app_nil_r.
Qed.

Lemma go_slice_app_end (x tail : bytes) lo :
  0 <= lo <= len x ->
  go_slice (x ++ tail) lo (len (x ++ tail)) = Ok (skipn (Z.to_nat lo) x ++ tail).
Proof.
  intros H1. unfold go_slice, slice_z, len in *. rewrite app_length.
  replace ((0 <=? lo) && (lo <=? Z.of_nat (length x + length tail)) &&
           (Z.of_nat (length x + length tail) <=? Z.of_nat (length x + length tail))) with true by lia.
  rewrite skipn_app. replace (Z.to_nat lo - length x)%nat with 0%nat by lia. cbn [skipn].
  rewrite firstn_all2; [reflexivity|]. rewrite app_length, skipn_length. lia.
Qed.

Lemma go_slice_end (x : bytes) lo :
  0 <= lo <= len x -> go_slice x lo (len x) = Ok (skipn (Z.to_nat lo) x).
Proof.
  intros H. pose proof (go_slice_app_end x [] lo H) as E. now rewrite !app_nil_r in E.
Qed.

Lemma skipn_skipn' {A} : forall a b (l : list A), skipn a (skipn b l) = skipn (b + a) l.
Proof.
  intros a b. induction b as [|b IH]; intros l; [reflexivity|].
  destruct l as [|x l]; [now rewrite !skipn_nil|]. cbn [skipn Nat.add]. apply IH.
Qed.

Lemma firstn_S_mid {A} (l1 l2 : list A) v i : length l1 = i -> firstn (S i) (l1 ++ v :: l2) = l1 ++ [v].
Proof.
  intros <-. rewrite firstn_app. replace (S (length l1) - length l1)%nat with 1%nat by lia.
  rewrite firstn_all2 by lia. reflexivity.
Qed.

Lemma skipn_S_mid {A} (l1 l2 : list A) v i n : length l1 = i -> skipn (S i + n) (l1 ++ v :: l2) = skipn n l2.
Proof.
  intros <-. rewrite skipn_app. rewrite skipn_all2 by lia.
  replace (S (length l1) + n - length l1)%nat with (S n) by lia. reflexivity.
Qed.

(* ------------------------------------------------------------------ hex.Decode *)

Lemma hex_decode_into_ok : forall src dst i d,
  hex_decode src = Some d -> (i + length d <= length dst)%nat ->
  hex_decode_into dst src i = Ok (firstn i dst ++ d ++ skipn (i + length d) dst, (Z.of_nat (i + length d), false)).
Proof.
  fix IH 1. intros [|p [|q r]] dst i d Hd Hl.
  - injection Hd as <-. cbn [hex_decode_into length app]. rewrite Nat.add_0_r, firstn_skipn. reflexivity.
  - discriminate Hd.
  - cbn [hex_decode] in Hd. cbn [hex_decode_into].
    destruct (from_hex_char p) as [a|]; [|discriminate Hd]. destruct (from_hex_char q) as [b|]; [|discriminate Hd].
    destruct (hex_decode r) as [d'|] eqn:Er; [|discriminate Hd]. injection Hd as <-. cbn [length] in Hl.
    unfold go_store, len. replace ((0 <=? Z.of_nat i) && (Z.of_nat i <? Z.of_nat (length dst))) with true by lia.
    rewrite Nat2Z.id. rewrite (IH r _ (S i) d' Er).
    + assert (Li : length (firstn i dst) = i) by (rewrite firstn_length; lia).
      rewrite (firstn_S_mid _ _ _ _ Li), (skipn_S_mid _ _ _ _ _ Li), skipn_skipn'.
      rewrite <- !app_assoc. cbn [app].
      cbn [length]. replace (i + S (length d'))%nat with (S i + length d')%nat by lia. reflexivity.
    + rewrite app_length, firstn_length. cbn [length]. rewrite skipn_length. lia.
Qed.

Lemma go_hex_Decode_ok dst src d :
  hex_decode src = Some d -> length dst = length d -> go_hex_Decode dst src = Ok (d, (len d, false)).
Proof.
  intros Hd Hl. unfold go_hex_Decode. rewrite (hex_decode_into_ok src dst 0 d Hd) by lia.
  cbn [firstn app Nat.add]. rewrite skipn_all2 by lia. now rewrite app_nil_r.
Qed.

Lemma hex_decode_into_err : forall src dst i,
  hex_decode src = None -> (2 * i + length src <= 2 * length dst)%nat ->
  exists dst' k, hex_decode_into dst src i = Ok (dst', (k, true)).
Proof.
  fix IH 1. intros [|p [|q r]] dst i Hd Hl.
  - discriminate Hd.
  - cbn [hex_decode_into]. eauto.
  - cbn [hex_decode] in Hd. cbn [hex_decode_into].
    destruct (from_hex_char p) as [a|]; [|eauto]. destruct (from_hex_char q) as [b|]; [|eauto].
    cbn [length] in Hl. unfold go_store, len.
    replace ((0 <=? Z.of_nat i) && (Z.of_nat i <? Z.of_nat (length dst))) with true by lia.
    destruct (hex_decode r) eqn:Er; [discriminate Hd|].
    apply (IH r); [exact Er|]. rewrite app_length, firstn_length. cbn [length]. rewrite skipn_length. lia.
Qed.

Lemma go_hex_Decode_err dst src :
  hex_decode src = None -> (length src <= 2 * length dst)%nat ->
  exists dst' k, go_hex_Decode dst src = Ok (dst', (k, true)).
Proof. intros Hd Hl. apply hex_decode_into_err; [exact Hd|lia]. Qed.

(* ------------------------------------------------------------------ the padding loops of get *)

(* the number of leading spaces *)
Fixpoint lead (s : bytes) : nat :=
  match s with
  | c :: r => if beq c SP then S (lead r) else O
  | [] => O
  end.

Lemma lead_le s : (lead s <= length s)%nat.
Proof. induction s as [|c r IH]; cbn [lead length]; [lia|]. destruct (beq c SP); lia. Qed.

Lemma skipn_lead s : skipn (lead s) s = skip_spaces s.
Proof. induction s as [|c r IH]; [reflexivity|]. cbn [lead skip_spaces]. destruct (beq c SP); [exact IH|reflexivity]. Qed.

Lemma skipn_cons_nth (s : bytes) i : (i < length s)%nat -> skipn i s = nth i s x00 :: skipn (S i) s.
Proof.
  revert s. induction i as [|i IH]; intros [|c r] H; cbn [length] in H; try lia; [reflexivity|].
  cbn [skipn nth]. apply IH. lia.
Qed.

(* for i < len(s) && s[i] == ' ' { i++ }: both loops of get have this text *)
Ltac skip_loop_tac loop s :=
  let n := fresh "n" in let IH := fresh "IH" in
  intros n; induction n as [|n IH]; intros i Hi Hn; [lia|];
  cbn [loop];
  destruct (Nat.eq_dec i (length s)) as [->|Ne];
  [ unfold len; rewrite Z.ltb_irrefl; cbn [bind]; rewrite skipn_all; cbn [lead]; now rewrite Nat.add_0_r
  | unfold len; replace (Z.of_nat i <? Z.of_nat (length s)) with true by lia;
    rewrite go_index_ok by (unfold len; lia); rewrite Nat2Z.id; cbn [bind];
    rewrite (skipn_cons_nth s i) in Hn |- * by lia; cbn [lead] in Hn |- *;
    change x20 with SP; destruct (beq (nth i s x00) SP);
    [ cbn [bindL]; replace (Z.of_nat i + 1) with (Z.of_nat (S i)) by lia;
      rewrite IH by lia; do 3 f_equal; lia
    | now rewrite Nat.add_0_r ] ].

Lemma src_get_loop1_eq (L : Type) fuel (s : bytes) : forall n i,
  (i <= length s)%nat -> (lead (skipn i s) < n)%nat ->
  @src_Cache_get_parse_loop1 L fuel n s (Z.of_nat i) = Ok (Normal (Z.of_nat (i + lead (skipn i s)))).
Proof. skip_loop_tac (@src_Cache_get_parse_loop1) s. Qed.

Lemma src_get_loop2_eq (L : Type) fuel (s : bytes) : forall n i,
  (i <= length s)%nat -> (lead (skipn i s) < n)%nat ->
  @src_Cache_get_parse_loop2 L fuel n s (Z.of_nat i) = Ok (Normal (Z.of_nat (i + lead (skipn i s)))).
Proof. skip_loop_tac (@src_Cache_get_parse_loop2) s. Qed.

(* ------------------------------------------------------------------ get: the entry parser *)

Definition missing_result : go_entry * bool := (mkEntry (go_zero_array HashSize) 0 go_time_zero, true).

Definition parse_outcome (e tail id : bytes) : outcome (bool * bytes * bytes * Z * Z) unit (go_entry * bool) :=
  match parse_entry e id with
  | None => Return missing_result
  | Some (out, size, tm) => Normal (false, skipn (entry_size_n - 1) e ++ tail, out, size, tm)
  end.

Ltac norm_nat :=
  repeat match goal with
  | |- context [Z.to_nat (Zpos ?p)] =>
      let n := eval vm_compute in (Z.to_nat (Zpos p)) in change (Z.to_nat (Zpos p)) with n
  end; change (Z.to_nat 0) with O.

Lemma parse_entry_num e id : length e = 175%nat ->
  parse_entry e id =
  if negb (beq (nth 0 e x00) x76 && beq (nth 1 e x00) x31 && beq (nth 2 e x00) SP && beq (nth 67 e x00) SP
           && beq (nth 132 e x00) SP && beq (nth 153 e x00) SP && beq (nth 174 e x00) NL) then None else
  match hex_decode (firstn 64 (skipn 3 e)) with
  | None => None
  | Some buf =>
      if negb (bytes_eqb buf id) then None else
      match hex_decode (firstn 64 (skipn 1 (skipn 67 e))) with
      | None => None
      | Some out =>
          match parse_int (skip_spaces (firstn 20 (skipn 1 (skipn 65 (skipn 67 e))))) with
          | None => None
          | Some size =>
              if size <? 0 then None else
              match parse_int (skip_spaces (firstn 20 (skipn 1 (skipn 21 (skipn 65 (skipn 67 e)))))) with
              | None => None
              | Some tm => if tm <? 0 then None else Some (out, size, tm)
              end
          end
      end
  end.
Proof.
  intros H. unfold parse_entry. rewrite H. reflexivity.
Qed.

Theorem src_get_parse_eq fuel id err e tail :
  length e = entry_size_n -> (21 <= fuel)%nat ->
  src_Cache_get_parse fuel id err (e ++ tail) = Ok (parse_outcome e tail id).
Proof.
  intros He Hf. change entry_size_n with 175%nat in He.
  assert (Hl : len e = 175) by (unfold len; rewrite He; reflexivity).
  unfold parse_outcome. rewrite (parse_entry_num e id He).
  unfold src_Cache_get_parse.
  rewrite !go_index_app by lia. norm_nat. cbn [bind].
  change SP with x20; change NL with x0a.
  destruct (beq (nth 0 e x00) x76); cbn [negb andb bind]; [|reflexivity].
  destruct (beq (nth 1 e x00) x31); cbn [negb andb bind]; [|reflexivity].
  destruct (beq (nth 2 e x00) x20); cbn [negb andb bind]; [|reflexivity].
  destruct (beq (nth 67 e x00) x20); cbn [negb andb bind]; [|reflexivity].
  destruct (beq (nth 132 e x00) x20); cbn [negb andb bind]; [|reflexivity].
  destruct (beq (nth 153 e x00) x20); cbn [negb andb bind]; [|reflexivity].
  destruct (beq (nth 174 e x00) x0a); cbn [negb andb bind]; [|reflexivity].
  do 4 (rewrite go_slice_app by (unfold len in *; rewrite ?skipn_length, ?He; lia);
        rewrite go_slice_app_end by (unfold len in *; rewrite ?skipn_length, ?He; lia);
        norm_nat; cbn [bind Nat.sub]).
  (* the two ids *)
  assert (L1 : length (firstn 64 (skipn 3 e)) = 64%nat) by (rewrite firstn_length, skipn_length, He; reflexivity).
  assert (L2 : length (firstn 64 (skipn 1 (skipn 67 e))) = 64%nat) by (rewrite firstn_length, !skipn_length, He; reflexivity).
  assert (Lz : length (go_zero_array 32) = 32%nat) by reflexivity.
  destruct (hex_decode (firstn 64 (skipn 3 e))) as [buf|] eqn:E1.
  2:{ destruct (go_hex_Decode_err (go_zero_array 32) _ E1) as (d' & k & ->); [rewrite L1, Lz; lia|]. reflexivity. }
  pose proof (hex_decode_length _ _ E1) as Lb. rewrite L1 in Lb.
  rewrite (go_hex_Decode_ok _ _ _ E1) by (rewrite Lz; lia). cbn [bind].
  destruct (bytes_eqb buf id); cbn [negb]; [|reflexivity].
  destruct (hex_decode (firstn 64 (skipn 1 (skipn 67 e)))) as [out|] eqn:E2.
  2:{ destruct (go_hex_Decode_err buf _ E2) as (d' & k & ->); [rewrite L2; lia|]. reflexivity. }
  pose proof (hex_decode_length _ _ E2) as Lo. rewrite L2 in Lo.
  rewrite (go_hex_Decode_ok _ _ _ E2) by lia. cbn [bind].
  (* the size field *)
  set (S1 := firstn 20 (skipn 1 (skipn 65 (skipn 67 e)))).
  set (S2 := firstn 20 (skipn 1 (skipn 21 (skipn 65 (skipn 67 e))))).
  assert (LS1 : length S1 = 20%nat) by (unfold S1; rewrite firstn_length, !skipn_length, He; reflexivity).
  assert (LS2 : length S2 = 20%nat) by (unfold S2; rewrite firstn_length, !skipn_length, He; reflexivity).
  pose proof (lead_le S1) as B1. pose proof (lead_le S2) as B2.
  rewrite (src_get_loop1_eq _ fuel S1 fuel 0) by (cbn [skipn]; lia). change (skipn 0 S1) with S1. cbn [bindO Nat.add].
  rewrite go_slice_end by (unfold len; lia). rewrite Nat2Z.id, skipn_lead. cbn [bind].
  unfold go_strconv_ParseInt. cbn [Z.eqb Pos.eqb andb].
  destruct (parse_int (skip_spaces S1)) as [size|]; cbn [bind]; [|reflexivity].
  destruct (size <? 0); [reflexivity|].
  rewrite (src_get_loop2_eq _ fuel S2 fuel 0) by (cbn [skipn]; lia). change (skipn 0 S2) with S2. cbn [bindO Nat.add].
  rewrite go_slice_end by (unfold len; lia). rewrite Nat2Z.id, skipn_lead. cbn [bind].
  destruct (parse_int (skip_spaces S2)) as [tm|]; cbn [bind]; [|reflexivity].
  destruct (tm <? 0); [reflexivity|].
  rewrite !skipn_skipn'. reflexivity.
Qed.

(* what the parser hands on is a well-formed entry, and nothing else gets through *)
Theorem src_get_parse_strict fuel id err e tail b r out size tm :
  length e = entry_size_n -> (21 <= fuel)%nat ->
  src_Cache_get_parse fuel id err (e ++ tail) = Ok (Normal (b, r, out, size, tm)) ->
  entry_wf e id out size tm /\ b = false /\ r = skipn (entry_size_n - 1) e ++ tail.
Proof.
  intros He Hf. rewrite (src_get_parse_eq fuel id err e tail He Hf). unfold parse_outcome.
  destruct (parse_entry e id) as [[[o s] t]|] eqn:E; [|discriminate].
  intros [= <- <- <- <- <-]. split; [|split; reflexivity]. now apply parse_entry_strict.
Qed.

Theorem src_get_parse_rejects fuel id err e tail :
  length e = entry_size_n -> (21 <= fuel)%nat -> parse_entry e id = None ->
  src_Cache_get_parse fuel id err (e ++ tail) = Ok (Return missing_result).
Proof. intros He Hf E. rewrite (src_get_parse_eq fuel id err e tail He Hf). unfold parse_outcome. now rewrite E. Qed.

(* ------------------------------------------------------------------ get: the result *)

Lemma wrap64_small z : - CacheTrim.two63 <= z < CacheTrim.two63 -> CacheTrim.wrap64 z = z.
Proof.
  intros H. unfold CacheTrim.wrap64, CacheTrim.two63, CacheTrim.two64 in *.
  rewrite Z.mod_small by lia. lia.
Qed.

Lemma go_time_Unix_ns tm : 0 <= tm < int64_lim -> go_time_Unix 0 tm = CacheTrim.time_of_ns tm.
Proof.
  intros H. unfold go_time_Unix, CacheTrim.time_of_ns, int64_lim in *.
  change (2 ^ 63) with 9223372036854775808 in H.
  replace (tm <? 0) with false by lia. cbn [orb].
  destruct (tm >=? CacheTrim.nano) eqn:G; unfold CacheTrim.nano in *.
  - rewrite Z.quot_div_nonneg by lia. cbn [Z.add].
    assert (Q : 0 <= tm / 1000000000 <= tm) by (split; [apply Z.div_pos; lia|apply Z.div_le_upper_bound; lia]).
    rewrite (wrap64_small (tm / 1000000000)) by (unfold CacheTrim.two63; lia).
    replace (tm - tm / 1000000000 * 1000000000) with (tm mod 1000000000)
      by (rewrite Z.mod_eq by lia; lia).
    pose proof (Z.mod_pos_bound tm 1000000000) as M.
    replace (tm mod 1000000000 <? 0) with false by lia. reflexivity.
  - rewrite Z.div_small, Z.mod_small by lia. reflexivity.
Qed.

Theorem src_get_result_eq buf size tm : 0 <= tm < int64_lim ->
  src_Cache_get_result buf size tm = Ok (Return (mkEntry buf size (CacheTrim.time_of_ns tm), false)).
Proof. intros H. unfold src_Cache_get_result. now rewrite go_time_Unix_ns. Qed.

(* ------------------------------------------------------------------ putIndexEntry: the formatter *)

Theorem src_put_entry_eq id out size now :
  src_Cache_putIndexEntry_entry id out size now = Ok (Normal (encode_entry id out size (go_time_UnixNano now))).
Proof. reflexivity. Qed.

(* the translated parser reads back what the translated formatter writes *)
Theorem src_entry_roundtrip fuel id out size now err e tail :
  length id = hash_size_n -> length out = hash_size_n ->
  0 <= size < int64_lim -> 0 <= go_time_UnixNano now < int64_lim -> (21 <= fuel)%nat ->
  src_Cache_putIndexEntry_entry id out size now = Ok (Normal e) ->
  src_Cache_get_parse fuel id err (e ++ tail) =
    Ok (Normal (false, [NL] ++ tail, out, size, go_time_UnixNano now)).
Proof.
  intros Li Lo Hs Ht Hf. rewrite src_put_entry_eq. intros [= <-].
  rewrite src_get_parse_eq by (try apply encode_entry_length; assumption).
  unfold parse_outcome. rewrite entry_roundtrip by assumption.
  do 3 f_equal. f_equal. f_equal.
  pose proof (encode_entry_length id out size (go_time_UnixNano now) Li Lo Hs Ht) as Le.
  pose proof (entry_roundtrip id out size (go_time_UnixNano now) Li Lo Hs Ht) as R.
  rewrite (parse_entry_num _ _ Le) in R. change SP with x20 in R.
  destruct (beq (nth 174 (encode_entry id out size (go_time_UnixNano now)) x00) NL) eqn:B;
    [|rewrite !andb_false_r in R; discriminate R].
  apply beq_eq in B. change (entry_size_n - 1)%nat with 174%nat.
  change entry_size_n with 175%nat in Le.
  rewrite (skipn_cons_nth _ 174) by (rewrite Le; lia). rewrite B.
  rewrite skipn_all2 by (rewrite Le; lia). reflexivity.
Qed.

(* ------------------------------------------------------------------ fileName *)

Lemma sprintf_02x b : go_sprintf None [x25; x30; x32; x78] [GoAnyByte b] = Some (hex [b]).
Proof. destruct b; reflexivity. Qed.

Theorem src_fileName_eq c b0 idr key :
  src_Cache_fileName_body c (b0 :: idr) key =
    Ok (Return (Path.join (Path.join (cache_dir c) (hex [b0])) (hex (b0 :: idr) ++ name_sep ++ key))).
Proof.
  unfold src_Cache_fileName_body. rewrite go_index_ok by (unfold len; cbn [length]; lia).
  cbn [bind Z.to_nat nth]. unfold go_fmt_Sprintf. rewrite sprintf_02x. cbn [bind].
  replace (go_sprintf None [x25; x78] [GoAnyBytes (b0 :: idr)]) with (Some (hex (b0 :: idr)))
    by (cbn [go_sprintf beq Byte.eqb digit_val bZ Byte.to_N Z.of_N Z.leb Z.compare Pos.compare Pos.compare_cont andb option_map pad_left Nat.sub repeat app];
        now rewrite app_nil_r).
  cbn [bind go_filepath_Join]. now rewrite <- app_assoc.
Qed.

(* ------------------------------------------------------------------ examples *)

Definition ex_id : bytes := repeat xab 32.
Definition ex_out : bytes := repeat x01 32.
Definition ex_now : go_time := CacheTrim.time_of_ns 1700000000123456789.
Definition ex_entry : bytes := encode_entry ex_id ex_out 42 1700000000123456789.

(* the hypotheses of src_entry_roundtrip / src_get_parse_eq are satisfiable, a damaged entry is
   refused, and the iteration bound is real *)
Example ex_src_roundtrip :
  length ex_id = hash_size_n /\ length ex_entry = entry_size_n
  /\ go_time_UnixNano ex_now = 1700000000123456789
  /\ src_Cache_putIndexEntry_entry ex_id ex_out 42 ex_now = Ok (Normal ex_entry)
  /\ src_Cache_get_parse 21 ex_id true (ex_entry ++ [x00]) = Ok (Normal (false, [NL; x00], ex_out, 42, 1700000000123456789))
  /\ src_Cache_get_parse 21 ex_out true (ex_entry ++ [x00]) = Ok (Return missing_result)
  /\ src_Cache_get_parse 21 ex_id true (firstn 100 ex_entry ++ x2d :: skipn 101 ex_entry ++ [x00]) = Ok (Return missing_result)
  /\ src_Cache_get_parse 17 ex_id true (ex_entry ++ [x00]) = OutOfFuel
  /\ src_Cache_get_result ex_out 42 1700000000123456789 = Ok (Return (mkEntry ex_out 42 ex_now, false))
  /\ src_Cache_fileName_body (mkCache [x2f; x74] tt) [x0a; xbc] [x61] =
       Ok (Return [x2f; x74; x2f; x30; x61; x2f; x30; x61; x62; x63; x2d; x61]).
Proof. vm_compute. repeat split; reflexivity. Qed.

(* hex.Decode as denoted: what is written when it stops, and the panic of a short destination *)
Example ex_hex_decode :
  go_hex_Decode [x00; x00] [x34; x31; x7a; x31] = Ok ([x41; x00], (1, true))
  /\ go_hex_Decode [x00; x00] [x34; x31; x34] = Ok ([x41; x00], (1, true))
  /\ go_hex_Decode [x00] [x34; x31; x34; x32] = Panic
  /\ go_strconv_ParseInt [x2d; x39; x39] 10 64 = Ok (-99, false)
  /\ go_strconv_ParseInt [x39; x32; x32; x33; x33; x37; x32; x30; x33; x36; x38; x35; x34; x37; x37; x35; x38; x30; x38] 10 64 = Ok (9223372036854775807, true)
  /\ go_strconv_ParseInt [x31; x5f; x30] 10 64 = Ok (0, true)
  /\ go_strconv_ParseInt [x31] 16 64 = Panic.
Proof. vm_compute. repeat split; reflexivity. Qed.

(* cache/hash.go: definitions only.
   Hash (NewHash / Write / Sum) is SHA-256 of everything written; Subkey(parent, desc) is SHA-256 of
   "subkey:" ++ parent ++ desc (prefix regenerated from the source); FileHash / SetFileHash are a
   memo table from file names to sums: a name is hashed from the disk at most once, a failed hash
   is not remembered.  SHA-256 is the uninterpreted H of the cache model.
   Not modelled: the debug output (GODEBUG=gocachehash) and the verify-mode bookkeeping. *)
From Coq Require Import List Bool Arith NArith ZArith.
From Coq.Strings Require Import Byte.
From GI Require Import Lib.Bytes Gen.CacheConsts.
Import ListNotations.

Section HashObj.
Variable H : bytes -> bytes.

(* the state of a cache.Hash: the bytes written so far *)
Definition hash_state := bytes.
Definition new_hash : hash_state := [].
Definition hash_write (h : hash_state) (b : bytes) : hash_state := h ++ b.
Definition hash_sum (h : hash_state) : bytes := H h.

Definition subkey_preimage (parent desc : bytes) : bytes := subkey_prefix ++ parent ++ desc.
Definition subkey (parent desc : bytes) : bytes := H (subkey_preimage parent desc).

(* hashFileCache.m *)
Definition fh_table := list (bytes * bytes).
Fixpoint fh_lookup (t : fh_table) (name : bytes) : option bytes :=
  match t with
  | [] => None
  | (n, s) :: r => if bytes_eqb n name then Some s else fh_lookup r name
  end.
Definition set_file_hash (t : fh_table) (name sum : bytes) : fh_table := (name, sum) :: t.

(* FileHash(name) with the disk as a function from names to contents (None: cannot be read) *)
Definition file_hash_body (t : fh_table) (disk : bytes -> option bytes) (name : bytes) : fh_table * option bytes :=
  match fh_lookup t name with
  | Some s => (t, Some s)
  | None =>
      match disk name with
      | None => (t, None)
      | Some c => (set_file_hash t name (H c), Some (H c))
      end
  end.
Definition file_hash (t : fh_table) (disk : bytes -> option bytes) (name : bytes) : fh_table * option bytes :=
  if file_hash_memo_ok then file_hash_body t disk name else (t, None).

End HashObj.

(* Cache.get, Get, GetFile, GetBytes as translated in world mode (Gen/CacheWorldSrc.v) equal
   SrcWorld.run_prog of the model's get_prog, get_file_prog, get_bytes_prog, for every world and
   every behaviour of the operations that keeps the contract of os.File.Read (read_contract)
   and reports fresh modification times (always_fresh); the iteration bound fuel >= 21 covers
   the two padding loops.  The proofs unfold the translated function and rewrite its checked
   expressions in evaluation order; they mention no generated variable names. *)
From Coq Require Import List Bool Arith ZArith Lia ZifyBool.
From Coq.Strings Require Import Byte.
From GI Require Import Lib.Bytes Lib.GoSem Lib.GoSemSeg Lib.GoSemWorld Lib.GoSemWorldVal Lib.GoSemWorldValFacts.
From GI Require Import Gen.CacheConsts Cache.CacheEntry Cache.CacheEntryFacts Cache.Cache Cache.SrcLib Cache.SrcWorldLemmas
  Cache.SrcWorld Gen.CacheWorldSrc Cache.SrcWorldFacts.
From GI Require CacheTrim.CacheTrim TxtarWrite.Path.
Import ListNotations.
Local Open Scope Z_scope.

Section Get.
Variable OS : os_ops.
Variable H : bytes -> bytes.
Hypothesis Hread : read_contract OS.
Hypothesis Hfresh : always_fresh OS.

Notation dir_of c := (cw_Cache_dir c).

(* ------------------------------------------------------------------ io.ReadFull *)

(* the Read calls of io.ReadFull are those of the model's read_full *)
Lemma read_full_run {A} dir p (k : bytes -> prog A) : forall fuel need acc off w h o,
  (need < fuel)%nat ->
  run_prog OS dir (read_full fuel p off need acc k) (w, h, o) =
  match read_full_ops OS fuel w h (Z.of_nat need) acc with
  | (w1, got, e) => run_prog OS dir (k got) (w1, h, o)
  end.
Proof.
  induction fuel as [|fuel IH]; intros need acc off w h o Hn; [lia|].
  cbn [read_full read_full_ops].
  destruct (Nat.eqb_spec need 0) as [->|Hne].
  - cbn [Z.of_nat Z.leb Z.compare]. reflexivity.
  - replace (Z.of_nat need <=? 0) with false by lia.
    cbn [run_prog do_op]. pose proof (Hread w h (Z.of_nat need) ltac:(lia)) as C.
    destruct (op_read OS w h (Z.of_nat need)) as [[w1 b] e]. destruct C as (Cl & Cn & Ce).
    destruct (werr_is_nil e) eqn:E; cbn [negb].
    + unfold len in *. destruct (Nat.eqb_spec (length b) 0) as [L0|L0].
      * replace (Z.of_nat (length b) =? 0) with true by lia. reflexivity.
      * replace (Z.of_nat (length b) =? 0) with false by lia.
        rewrite IH by lia. rewrite Nat2Z.inj_sub by lia.
        reflexivity.
    + destruct (Ce eq_refl) as [-> _]. now rewrite app_nil_r.
Qed.

Lemma read_full_ops_spec : forall fuel w f need acc, 0 <= need -> (Z.to_nat need < fuel)%nat ->
  match read_full_ops OS fuel w f need acc with
  | (w1, got, e) => exists d, got = acc ++ d /\ ((e = WNil /\ len d = need) \/ (e = werr_EOF /\ len d < need))
  end.
Proof.
  induction fuel as [|fuel IH]; intros w f need acc H0 Hn; [lia|].
  cbn [read_full_ops]. destruct (Z.leb_spec need 0) as [Hle|Hgt].
  - exists []. rewrite app_nil_r. split; [reflexivity|]. left. split; [reflexivity|]. unfold len. cbn [length]. lia.
  - pose proof (Hread w f need Hgt) as C. destruct (op_read OS w f need) as [[w1 b] e]. destruct C as (Cl & Cn & Ce).
    destruct (werr_is_nil e) eqn:E; cbn [negb].
    + assert (len b <> 0) by (unfold len; destruct b; [now specialize (Cn eq_refl)|cbn [length]; lia]).
      replace (len b =? 0) with false by lia.
      specialize (IH w1 f (need - len b) (acc ++ b) ltac:(lia) ltac:(unfold len in *; lia)).
      destruct (read_full_ops OS fuel w1 f (need - len b) (acc ++ b)) as [[w2 got] e2].
      destruct IH as (d & -> & Hd). exists (b ++ d). rewrite app_assoc. split; [reflexivity|].
      unfold len in *. rewrite app_length. destruct Hd as [[-> Hd]|[-> Hd]]; [left|right]; (split; [reflexivity|lia]).
    + destruct (Ce eq_refl) as [-> ->]. exists []. split; [reflexivity|]. right. unfold len. cbn [length]. split; [reflexivity|lia].
Qed.

(* ------------------------------------------------------------------ get *)

Definition zero_entry : cw_Entry := cw_mk_Entry (go_zero_array 32) 0 go_time_zero.

(* what a lookup hands back, against the model's result: a hit is the decoded entry with
   time.Unix(0, tm) and a nil error; a miss is the zero Entry and an entryNotFoundError *)
Definition get_rel (r : option (bytes * Z * Z)) (entry : cw_Entry) (err : werr) : Prop :=
  match r with
  | Some (out, size, tm) => entry = cw_mk_Entry out size (go_time_Unix 0 tm) /\ err = WNil
  | None => entry = zero_entry /\ is_not_found err = true
  end.

Lemma byte_Z_eqb_c b c z : z = byte_Z c -> (byte_Z b =? z) = beq b c.
Proof. intros ->. apply byte_Z_eqb. Qed.

Lemma parse_entry_num e id : length e = 175%nat ->
  parse_entry e id =
  if negb (beq (nth 0 e x00) x76 && beq (nth 1 e x00) x31 && beq (nth 2 e x00) SP && beq (nth 67 e x00) SP
           && beq (nth 132 e x00) SP && beq (nth 153 e x00) SP && beq (nth 174 e x00) NL) then None else
  match hex_decode (firstn 64 (skipn 3 e)) with
  | None => None
  | Some buf =>
      if negb (bytes_eqb buf id) then None else
      match hex_decode (firstn 64 (skipn 1 (skipn 67 e))) with
      | None => None
      | Some out =>
          match parse_int (skip_spaces (firstn 20 (skipn 1 (skipn 65 (skipn 67 e))))) with
          | None => None
          | Some size =>
              if size <? 0 then None else
              match parse_int (skip_spaces (firstn 20 (skipn 1 (skipn 21 (skipn 65 (skipn 67 e)))))) with
              | None => None
              | Some tm => if tm <? 0 then None else Some (out, size, tm)
              end
          end
      end
  end.
Proof. intros E. unfold parse_entry. rewrite E. reflexivity. Qed.

Lemma parse_entry_len e id : length e <> 175%nat -> parse_entry e id = None.
Proof.
  intros E. unfold parse_entry. change entry_size_n with 175%nat.
  destruct (Nat.eqb_spec (length e) 175); [contradiction|reflexivity].
Qed.

Ltac norm_nat :=
  repeat match goal with
  | |- context [Z.to_nat (Zpos ?p)] =>
      let n := eval vm_compute in (Z.to_nat (Zpos p)) in change (Z.to_nat (Zpos p)) with n
  end; change (Z.to_nat 0) with O.

Ltac skip_loop_tac loop s :=
  let n := fresh "n" in let IH := fresh "IH" in
  intros n; induction n as [|n IH]; intros i Hi Hn; [lia|];
  cbn [loop];
  destruct (Nat.eq_dec i (length s)) as [->|Ne];
  [ unfold len; rewrite Z.ltb_irrefl; cbn [GoSem.bind]; rewrite skipn_all; cbn [lead]; now rewrite Nat.add_0_r
  | unfold len; replace (Z.of_nat i <? Z.of_nat (length s)) with true by lia;
    rewrite go_index_ok by (unfold len; lia); rewrite Nat2Z.id; cbn [GoSem.bind];
    rewrite (skipn_cons_nth s i) in Hn |- * by lia; cbn [lead] in Hn |- *;
    rewrite (byte_Z_eqb_c _ x20 32) by reflexivity;
    change x20 with SP; destruct (beq (nth i s x00) SP);
    [ cbn [bindL]; replace (Z.of_nat i + 1) with (Z.of_nat (S i)) by lia;
      rewrite IH by lia; do 3 f_equal; lia
    | now rewrite Nat.add_0_r ] ].

Lemma cw_get_loop1_eq (L : Type) fuel (s : bytes) : forall n i,
  (i <= length s)%nat -> (lead (skipn i s) < n)%nat ->
  @cw_Cache_get_loop1 OS L fuel n s (Z.of_nat i) = Ok (Normal (Z.of_nat (i + lead (skipn i s)))).
Proof. skip_loop_tac (@cw_Cache_get_loop1) s. Qed.

Lemma cw_get_loop2_eq (L : Type) fuel (s : bytes) : forall n i,
  (i <= length s)%nat -> (lead (skipn i s) < n)%nat ->
  @cw_Cache_get_loop2 OS L fuel n s (Z.of_nat i) = Ok (Normal (Z.of_nat (i + lead (skipn i s)))).
Proof. skip_loop_tac (@cw_Cache_get_loop2) s. Qed.

Lemma go_slice_all (x : bytes) : go_slice x 0 (len x) = Ok x.
Proof. rewrite go_slice_end by (unfold len; lia). reflexivity. Qed.

Lemma hex_w_ok dst src d : hex_decode src = Some d -> length dst = length d ->
  go_hex_Decode_w dst 0 (len dst) src = Ok (d, len d, WNil).
Proof.
  intros Hd Hl. unfold go_hex_Decode_w. rewrite go_slice_all, (go_hex_Decode_ok _ _ _ Hd Hl).
  unfold len. rewrite splice_all by lia. reflexivity.
Qed.

Lemma hex_w_err dst src : hex_decode src = None -> (length src <= 2 * length dst)%nat ->
  exists dst' k, go_hex_Decode_w dst 0 (len dst) src = Ok (dst', k, werr_hex).
Proof.
  intros Hd Hl. unfold go_hex_Decode_w. rewrite go_slice_all.
  destruct (go_hex_Decode_err dst src Hd Hl) as (d' & k & ->). eauto.
Qed.

(* a branch that reports a miss: the deferred Close, then the model's Ret None *)
Ltac miss f w2 :=
  cbn [GoSem.bind negb werr_is_nil werr_hex werr_parse_int]; cbn [run_prog do_op];
  destruct (op_close OS w2 f) as [?w ?e];
  eexists; eexists; (split; [reflexivity|split; [split; reflexivity|exact I]]).

Theorem cw_get_eq fuel w c id h o :
  length id = 32%nat -> (21 <= fuel)%nat ->
  match run_prog OS (dir_of c) (get_prog id) (w, h, o) with
  | (st, r) =>
      exists entry err,
        cw_Cache_get OS fuel w c id = Ok (st_world OS st, c, entry, err) /\ get_rel r entry err
        /\ match r with Some (out, _, _) => length out = 32%nat | None => True end
  end.
Proof.
  intros Hid Hf. assert (Hne : id <> []) by (destruct id; [discriminate|congruence]).
  unfold cw_Cache_get, get_prog. rewrite (cw_fileName_idx c id Hne). cbn [GoSem.bind].
  cbn [run_prog do_op orb].
  destruct (op_open OS w (file_name (dir_of c) (IdxP id))) as [[w1 f] e1]. unfold res_of_err.
  destruct (werr_is_nil e1) eqn:E1; cbn [negb].
  2:{ cbn [run_prog]. eexists; eexists. split; [reflexivity|split; [split; reflexivity|exact I]]. }
  change (S (S entry_size_n)) with 177%nat. change (S entry_size_n) with 176%nat.
  rewrite read_full_run by lia.
  change (go_make_bytes 176) with (Ok (repeat x00 176) : GoSem.res bytes). cbn [GoSem.bind].
  set (x := repeat x00 176). assert (Lx : len x = 176) by reflexivity.
  unfold io_read_full. rewrite Lx. change (176 - 0) with 176. change (S (Z.to_nat 176)) with 177%nat.
  change (Z.of_nat 176) with 176.
  pose proof (read_full_ops_spec 177 w1 f 176 [] ltac:(lia) ltac:(lia)) as Sp.
  destruct (read_full_ops OS 177 w1 f 176 []) as [[w2 got] e]. destruct Sp as (d & -> & Sp).
  cbn [app]. change (Z.to_nat 0) with O. cbn [firstn app].
  destruct Sp as [[-> Ld]|[-> Ld]].
  - (* the buffer is full: too long *)
    rewrite Ld. cbn [Z.geb Z.gtb Z.compare Pos.compare Pos.compare_cont].
    rewrite (parse_entry_len d id) by (unfold len in Ld; lia).
    miss f w2.
  - replace (len d >=? 176) with false by lia.
    change (werr_eqb werr_EOF werr_EOF) with true. rewrite andb_true_r.
    destruct (Z.gtb_spec (len d) 0) as [Hpos|Hzero].
    2:{ (* nothing was read: file is empty *)
      change (negb (werr_eqb werr_EOF werr_ErrUnexpectedEOF)) with true.
      change (werr_eqb werr_EOF werr_EOF) with true.
      replace (len d >? 175) with false by lia.
      rewrite (parse_entry_len d id) by (unfold len in *; lia).
      miss f w2. }
    change (negb (werr_eqb werr_ErrUnexpectedEOF werr_ErrUnexpectedEOF)) with false.
    replace (len d >? 175) with false by lia.
    destruct (Z.ltb_spec (len d) 175) as [Hlt|Hge].
    { rewrite (parse_entry_len d id) by (unfold len in *; lia). miss f w2. }
    assert (Ld' : len d = 175) by lia. assert (He : length d = 175%nat) by (unfold len in Ld'; lia).
    rewrite Ld'. change (Z.to_nat (0 + 175)) with 175%nat. change (skipn 175 x) with [x00].
    rewrite (parse_entry_num d id He).
    rewrite !go_index_app by lia. norm_nat. cbn [GoSem.bind].
    rewrite (byte_Z_eqb_c _ x76 118), (byte_Z_eqb_c _ x31 49) by reflexivity.
    rewrite !(byte_Z_eqb_c _ x20 32), (byte_Z_eqb_c _ x0a 10) by reflexivity.
    change SP with x20; change NL with x0a.
    destruct (beq (nth 0 d x00) x76); cbn [negb andb GoSem.bind]; [|miss f w2].
    destruct (beq (nth 1 d x00) x31); cbn [negb andb GoSem.bind]; [|miss f w2].
    destruct (beq (nth 2 d x00) x20); cbn [negb andb GoSem.bind]; [|miss f w2].
    destruct (beq (nth 67 d x00) x20); cbn [negb andb GoSem.bind]; [|miss f w2].
    destruct (beq (nth 132 d x00) x20); cbn [negb andb GoSem.bind]; [|miss f w2].
    destruct (beq (nth 153 d x00) x20); cbn [negb andb GoSem.bind]; [|miss f w2].
    destruct (beq (nth 174 d x00) x0a); cbn [negb andb GoSem.bind]; [|miss f w2].
    do 4 (rewrite go_slice_app by (unfold len in *; rewrite ?skipn_length, ?He; lia);
          rewrite go_slice_app_end by (unfold len in *; rewrite ?skipn_length, ?He; lia);
          norm_nat; cbn [GoSem.bind Nat.sub]).
    assert (L1 : length (firstn 64 (skipn 3 d)) = 64%nat) by (rewrite firstn_length, skipn_length, He; reflexivity).
    assert (L2 : length (firstn 64 (skipn 1 (skipn 67 d))) = 64%nat) by (rewrite firstn_length, !skipn_length, He; reflexivity).
    assert (Lz : length (go_zero_array 32) = 32%nat) by reflexivity.
    destruct (hex_decode (firstn 64 (skipn 3 d))) as [buf|] eqn:D1.
    2:{ destruct (hex_w_err (go_zero_array 32) _ D1) as (d' & k & ->); [rewrite L1, Lz; lia|]. miss f w2. }
    pose proof (hex_decode_length _ _ D1) as Lb. rewrite L1 in Lb.
    rewrite (hex_w_ok _ _ _ D1) by (rewrite Lz; lia). cbn [GoSem.bind werr_is_nil negb].
    destruct (bytes_eqb buf id); cbn [negb]; [|miss f w2].
    destruct (hex_decode (firstn 64 (skipn 1 (skipn 67 d)))) as [out|] eqn:D2.
    2:{ destruct (hex_w_err buf _ D2) as (d' & k & ->); [rewrite L2; lia|]. miss f w2. }
    pose proof (hex_decode_length _ _ D2) as Lo. rewrite L2 in Lo.
    rewrite (hex_w_ok _ _ _ D2) by lia. cbn [GoSem.bind werr_is_nil negb].
    set (S1 := firstn 20 (skipn 1 (skipn 65 (skipn 67 d)))).
    set (S2 := firstn 20 (skipn 1 (skipn 21 (skipn 65 (skipn 67 d))))).
    assert (LS1 : length S1 = 20%nat) by (unfold S1; rewrite firstn_length, !skipn_length, He; reflexivity).
    assert (LS2 : length S2 = 20%nat) by (unfold S2; rewrite firstn_length, !skipn_length, He; reflexivity).
    pose proof (lead_le S1) as B1. pose proof (lead_le S2) as B2.
    rewrite (cw_get_loop1_eq _ fuel S1 fuel 0) by (cbn [skipn]; lia). change (skipn 0 S1) with S1. cbn [bindT Nat.add].
    rewrite go_slice_end by (unfold len; lia). rewrite Nat2Z.id, skipn_lead. cbn [GoSem.bind].
    unfold go_strconv_ParseInt_w, go_strconv_ParseInt. cbn [Z.eqb Pos.eqb andb].
    destruct (parse_int (skip_spaces S1)) as [size|]; cbn [GoSem.bind werr_is_nil negb]; [|miss f w2].
    destruct (size <? 0); [miss f w2|].
    rewrite (cw_get_loop2_eq _ fuel S2 fuel 0) by (cbn [skipn]; lia). change (skipn 0 S2) with S2. cbn [bindT Nat.add].
    rewrite go_slice_end by (unfold len; lia). rewrite Nat2Z.id, skipn_lead. cbn [GoSem.bind].
    destruct (parse_int (skip_spaces S2)) as [tm|]; cbn [GoSem.bind werr_is_nil negb]; [|miss f w2].
    destruct (tm <? 0); [miss f w2|].
    (* a hit: the refresh of the entry file, the deferred Close *)
    rewrite (cw_fileName_idx c id Hne). cbn [GoSem.bind]. rewrite (cw_used_eq OS Hfresh). cbn [GoSem.bind].
    rewrite run_used. cbn [run_prog do_op]. destruct (op_close OS _ f) as [w3 e3].
    eexists; eexists. split; [reflexivity|split; [split; reflexivity|lia]].
Qed.

(* ------------------------------------------------------------------ Get, GetFile, GetBytes (verify mode off) *)

Theorem cw_Get_eq fuel w c id h o :
  length id = 32%nat -> (21 <= fuel)%nat ->
  match run_prog OS (dir_of c) (get_prog id) (w, h, o) with
  | (st, r) =>
      exists entry err,
        cw_Cache_Get OS false fuel w c id = Ok (st_world OS st, c, entry, err) /\ get_rel r entry err
        /\ match r with Some (out, _, _) => length out = 32%nat | None => True end
  end.
Proof.
  intros Hid Hf. pose proof (cw_get_eq fuel w c id h o Hid Hf) as G. unfold cw_Cache_Get.
  destruct (run_prog OS (dir_of c) (get_prog id) (w, h, o)) as [st r].
  destruct G as (entry & err & -> & R). cbn [GoSem.bind]. eauto.
Qed.

(* FileInfo.Size() of a file is not negative (the model's RSize carries a nat) *)
Definition size_nonneg : Prop := forall fi, 0 <= fi_size OS fi.

Definition get_file_rel dir (r : lookup path) (file : bytes) (entry : cw_Entry) (err : werr) : Prop :=
  match r with
  | Found p out size tm =>
      file = file_name dir p /\ entry = cw_mk_Entry out size (go_time_Unix 0 tm) /\ err = WNil
  | NotFound => file = [] /\ entry = zero_entry /\ is_not_found err = true
  end.

Theorem cw_GetFile_eq fuel w c id h o :
  size_nonneg -> length id = 32%nat -> (21 <= fuel)%nat ->
  match run_prog OS (dir_of c) (get_file_prog id) (w, h, o) with
  | (st, r) =>
      exists file entry err,
        cw_Cache_GetFile OS false fuel w c id = Ok (st_world OS st, c, file, entry, err)
        /\ get_file_rel (dir_of c) r file entry err
  end.
Proof.
  intros Hsz Hid Hf. pose proof (cw_Get_eq fuel w c id h o Hid Hf) as G.
  unfold cw_Cache_GetFile, get_file_prog. rewrite run_prog_bind.
  destruct (run_prog OS (dir_of c) (get_prog id) (w, h, o)) as [[[w1 h1] o1] r].
  destruct G as (entry & err & -> & R & L). cbn [GoSem.bind st_world fst].
  destruct r as [[[out size] tm]|]; cbn [get_rel] in R.
  2:{ destruct R as [-> R]. destruct err; [discriminate R| |]; cbn [werr_is_nil negb run_prog];
      eexists; eexists; eexists; (split; [reflexivity|repeat split; assumption]). }
  destruct R as [-> ->]. cbn [werr_is_nil negb cw_Entry_OutputID cw_Entry_Size].
  assert (Hne : out <> []) by (destruct out; [discriminate L|congruence]).
  rewrite (cw_OutputFile_eq OS Hfresh w1 c out h1 o1 Hne). rewrite run_prog_bind.
  destruct (run_prog OS (dir_of c) (output_file_prog out) (w1, h1, o1)) as [[[w2 h2] o2] p].
  cbn [GoSem.bind st_world fst run_prog do_op].
  destruct (op_stat OS w2 (file_name (dir_of c) p)) as [[w3 fi] e3].
  destruct (werr_is_nil e3) eqn:E3; cbn [negb run_prog].
  2:{ eexists; eexists; eexists. split; [reflexivity|repeat split]. }
  rewrite Z2Nat.id by apply Hsz.
  destruct (fi_size OS fi =? size); cbn [negb run_prog];
    eexists; eexists; eexists; (split; [reflexivity|repeat split]).
Qed.

Definition get_bytes_rel (r : lookup bytes) (data : bytes) (entry : cw_Entry) (err : werr) : Prop :=
  match r with
  | Found d out size tm => data = d /\ entry = cw_mk_Entry out size (go_time_Unix 0 tm) /\ err = WNil
  | NotFound => data = [] /\ is_not_found err = true
  end.

Theorem cw_GetBytes_eq fuel w c id h o :
  length id = 32%nat -> (21 <= fuel)%nat ->
  match run_prog OS (dir_of c) (get_bytes_prog H id) (w, h, o) with
  | (st, r) =>
      exists data entry err,
        cw_Cache_GetBytes OS H false fuel w c id = Ok (st_world OS st, c, data, entry, err)
        /\ get_bytes_rel r data entry err
  end.
Proof.
  intros Hid Hf. pose proof (cw_Get_eq fuel w c id h o Hid Hf) as G.
  unfold cw_Cache_GetBytes, get_bytes_prog. rewrite run_prog_bind.
  destruct (run_prog OS (dir_of c) (get_prog id) (w, h, o)) as [[[w1 h1] o1] r].
  destruct G as (entry & err & -> & R & L). cbn [GoSem.bind st_world fst].
  destruct r as [[[out size] tm]|]; cbn [get_rel] in R.
  2:{ destruct R as [-> R]. destruct err; [discriminate R| |]; cbn [werr_is_nil negb run_prog];
      eexists; eexists; eexists; (split; [reflexivity|repeat split; assumption]). }
  destruct R as [-> ->]. cbn [werr_is_nil negb cw_Entry_OutputID cw_Entry_Size].
  assert (Hne : out <> []) by (destruct out; [discriminate L|congruence]).
  rewrite (cw_OutputFile_eq OS Hfresh w1 c out h1 o1 Hne). rewrite run_prog_bind.
  destruct (run_prog OS (dir_of c) (output_file_prog out) (w1, h1, o1)) as [[[w2 h2] o2] p].
  cbn [GoSem.bind st_world fst run_prog do_op].
  destruct (op_read_file OS w2 (file_name (dir_of c) p)) as [[w3 data] e3].
  destruct (bytes_eqb (H data) out); cbn [negb run_prog];
    eexists; eexists; eexists; (split; [reflexivity|repeat split]).
Qed.

(* C05 on the translated GetBytes, for EVERY behaviour of the operating system (within the two
   contracts): bytes handed back with a nil error hash to the output id of the entry handed back
   with them -- the cache never returns other bytes than those whose hash the index entry names *)
Theorem cw_GetBytes_sound fuel w c id w' c' data entry err :
  length id = 32%nat -> (21 <= fuel)%nat ->
  cw_Cache_GetBytes OS H false fuel w c id = Ok (w', c', data, entry, err) ->
  werr_is_nil err = true -> H data = cw_Entry_OutputID entry.
Proof.
  intros Hid Hf. pose proof (cw_Get_eq fuel w c id (nil_handle OS) false Hid Hf) as G.
  unfold cw_Cache_GetBytes.
  destruct (run_prog OS (dir_of c) (get_prog id) (w, nil_handle OS, false)) as [[[w1 h1] o1] r].
  destruct G as (entry0 & err0 & -> & R & L). cbn [GoSem.bind st_world fst].
  destruct r as [[[out size] tm]|]; cbn [get_rel] in R.
  2:{ destruct R as [-> R]. destruct err0; [discriminate R| |]; cbn [werr_is_nil negb];
      intros [= <- <- <- <- <-]; discriminate. }
  destruct R as [-> ->]. cbn [werr_is_nil negb cw_Entry_OutputID cw_Entry_Size].
  assert (Hne : out <> []) by (destruct out; [discriminate L|congruence]).
  rewrite (cw_OutputFile_eq OS Hfresh w1 c out h1 o1 Hne).
  destruct (run_prog OS (dir_of c) (output_file_prog out) (w1, h1, o1)) as [[[w2 h2] o2] p].
  cbn [GoSem.bind st_world fst].
  destruct (op_read_file OS w2 (file_name (dir_of c) p)) as [[w3 d] e3].
  destruct (bytes_eqb (H d) out) eqn:E; cbn [negb].
  - intros [= <- <- <- <- <-] _. cbn [cw_Entry_OutputID]. now apply bytes_eqb_eq.
  - intros [= <- <- <- <- <-]. discriminate.
Qed.

End Get.

(* ------------------------------------------------------------------ examples *)

(* a value of the record satisfying the three premises: the empty disk (every lookup by name
   reports an error, a Read delivers nothing and io.EOF) *)
Definition werr_ENOENT : werr := WVal [x45; x4e; x4f; x45; x4e; x54].
Definition empty_disk : os_ops :=
  {| World := unit; Handle := unit; FileInfo := unit; nil_handle := tt; nil_fileinfo := tt;
     fi_size := fun _ => 0; fi_modtime := fun _ => go_time_zero;
     op_now := fun _ => go_time_zero; op_time_now := fun _ => go_time_zero;
     op_stat := fun w _ => (w, tt, werr_ENOENT);
     op_open := fun w _ => (w, tt, werr_ENOENT);
     op_open_file := fun w _ _ _ => (w, tt, werr_ENOENT);
     op_read_file := fun w _ => (w, [], werr_ENOENT);
     op_remove := fun w _ => (w, werr_ENOENT);
     op_chtimes := fun w _ _ _ => (w, werr_ENOENT);
     op_close := fun w _ => (w, WNil);
     op_read := fun w _ _ => (w, [], werr_EOF);
     op_write := fun w _ b => (w, len b, WNil);
     op_truncate := fun w _ _ => (w, WNil) |}.

Example ex_premises : read_contract empty_disk /\ always_fresh empty_disk /\ size_nonneg empty_disk.
Proof.
  split; [|split].
  - intros w f n Hn. cbn. repeat split; try discriminate. unfold len. cbn [length]. lia.
  - intros w name. cbn. discriminate.
  - intros fi. cbn. lia.
Qed.

(* the translated GetBytes runs: on the empty disk it is a miss after one failed Open *)
Example ex_get_bytes_miss :
  match cw_Cache_GetBytes empty_disk (fun d => d) false 21 tt (cw_mk_Cache [x2f; x63] (fun _ => go_time_zero)) (repeat xab 32) with
  | Ok (_, _, data, _, err) => data = [] /\ is_not_found err = true
  | _ => False
  end.
Proof. vm_compute. split; reflexivity. Qed.

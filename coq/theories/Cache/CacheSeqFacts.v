(* Facts about the sequential semantics of the cache programs (C05). *)
From Coq Require Import List Bool Arith NArith ZArith Lia.
From Coq.Strings Require Import Byte.
From GI Require Import Lib.Bytes Gen.CacheConsts Cache.CacheEntry Cache.CacheEntryFacts Cache.Cache.
Import ListNotations.

(* ---- paths and file maps *)
Lemma path_eqb_eq : forall p q, path_eqb p q = true <-> p = q.
Proof.
  intros [a|a] [b|b]; cbn; split; intros E; try discriminate; try (apply bytes_eqb_eq in E; congruence);
    inversion E; apply bytes_eqb_refl.
Qed.

Lemma path_eqb_refl : forall p, path_eqb p p = true.
Proof. intros; apply path_eqb_eq; reflexivity. Qed.

Lemma path_eqb_neq : forall p q, p <> q -> path_eqb p q = false.
Proof. intros p q N. destruct (path_eqb p q) eqn:E; [apply path_eqb_eq in E; contradiction|reflexivity]. Qed.

Lemma path_eq_dec : forall p q : path, {p = q} + {p <> q}.
Proof.
  intros p q. destruct (path_eqb p q) eqn:E; [left; apply path_eqb_eq; exact E|right].
  intros ->. rewrite path_eqb_refl in E. discriminate.
Qed.

Lemma upd_same : forall fs p v, upd fs p v p = v.
Proof. intros. unfold upd. rewrite path_eqb_refl. reflexivity. Qed.

Lemma upd_other : forall fs p v q, q <> p -> upd fs p v q = fs q.
Proof. intros. unfold upd. rewrite path_eqb_neq by assumption. reflexivity. Qed.

Definition agree_except (p : path) (fs fs' : files) : Prop := forall q, q <> p -> fs' q = fs q.

Lemma agree_refl : forall p fs, agree_except p fs fs.
Proof. intros p fs q _. reflexivity. Qed.

Lemma agree_trans : forall p a b c, agree_except p a b -> agree_except p b c -> agree_except p a c.
Proof. intros p a b c H1 H2 q N. rewrite H2, H1 by exact N. reflexivity. Qed.

Lemma agree_upd : forall p fs v, agree_except p fs (upd fs p v).
Proof. intros p fs v q N. apply upd_other; exact N. Qed.

(* one operation changes at most its own path *)
Lemma step_agree : forall o fs, agree_except (op_path o) fs (fst (step o fs)).
Proof.
  intros o fs. destruct o; cbn; try apply agree_refl;
    repeat match goal with |- context [match ?x with _ => _ end] => destruct x; cbn end;
    try apply agree_refl; try apply agree_upd.
Qed.

(* ---- programs *)
Lemma run_seq_bind : forall A B (p : prog A) (f : A -> prog B) fs,
  run_seq (bind p f) fs = let '(fs', a) := run_seq p fs in run_seq (f a) fs'.
Proof.
  induction p as [a|o k IH]; intros f fs; cbn.
  - destruct (run_seq (f a) fs); reflexivity.
  - destruct (step o fs) as [fs' r]. apply IH.
Qed.

Lemma skipn_add : forall (l : bytes) m n, skipn n (skipn m l) = skipn (m + n) l.
Proof.
  induction l as [|x l IH]; intros m n.
  - rewrite !skipn_nil. reflexivity.
  - destruct m as [|m]; [reflexivity|]. cbn. apply IH.
Qed.

(* ---- pwrite *)
Definition is_prefix (c d : bytes) : Prop := exists t, d = c ++ t.

Lemma pad_to_le : forall n c, (n <= length c)%nat -> pad_to n c = c.
Proof. intros. unfold pad_to. replace (n - length c)%nat with 0%nat by lia. apply app_nil_r. Qed.

Lemma pwrite_le : forall c off b, (off <= length c)%nat ->
  pwrite c off b = firstn off c ++ b ++ skipn (off + length b) c.
Proof. intros. unfold pwrite. rewrite pad_to_le by assumption. reflexivity. Qed.

Lemma pwrite_length : forall c off b, (off <= length c)%nat ->
  length (pwrite c off b) = Nat.max (length c) (off + length b).
Proof.
  intros. rewrite pwrite_le by assumption. rewrite !app_length, firstn_length, skipn_length. lia.
Qed.

Lemma pwrite_nil : forall c off, (off <= length c)%nat -> pwrite c off [] = c.
Proof. intros. rewrite pwrite_le by assumption. cbn. rewrite Nat.add_0_r. apply firstn_skipn. Qed.

Lemma pwrite_app : forall c off a b, (off <= length c)%nat ->
  pwrite (pwrite c off a) (off + length a) b = pwrite c off (a ++ b).
Proof.
  intros c off a b Hle.
  assert (off + length a <= length (pwrite c off a))%nat as L by (rewrite pwrite_length by assumption; lia).
  rewrite (pwrite_le _ _ b L), !(pwrite_le c off) by assumption.
  rewrite app_length.
  assert (firstn (off + length a) (firstn off c ++ a ++ skipn (off + length a) c) = firstn off c ++ a) as F.
  { rewrite app_assoc. apply firstn_app_len. rewrite app_length, firstn_length. lia. }
  rewrite F.
  assert (skipn (off + length a + length b) (firstn off c ++ a ++ skipn (off + length a) c) = skipn (off + (length a + length b)) c) as S.
  { rewrite app_assoc. rewrite skipn_app.
    assert (length (firstn off c ++ a) = off + length a)%nat as L2 by (rewrite app_length, firstn_length; lia).
    rewrite L2. rewrite skipn_all2 by lia. cbn [app].
    replace (off + length a + length b - (off + length a))%nat with (length b) by lia.
    rewrite skipn_add. f_equal. lia. }
  rewrite S. rewrite <- !app_assoc. reflexivity.
Qed.

(* writing a whole new content over a file that is not longer *)
Lemma pwrite_all : forall c d, (length c <= length d)%nat -> pwrite c 0 d = d.
Proof.
  intros c d Hl. rewrite pwrite_le by lia. cbn. rewrite skipn_all2 by lia. apply app_nil_r.
Qed.

(* ---- chunks *)
Lemma cut_chunks_concat : forall cs n, concat (cut_chunks cs n) = firstn n (concat cs).
Proof.
  induction cs as [|c r IH]; intros n; cbn [cut_chunks concat].
  - rewrite firstn_nil. reflexivity.
  - destruct (Nat.eqb n 0) eqn:E0.
    + apply Nat.eqb_eq in E0; subst. reflexivity.
    + destruct (Nat.eqb (length c) 0) eqn:Ec.
      * apply Nat.eqb_eq in Ec. destruct c; [|discriminate]. cbn. apply IH.
      * destruct (Nat.leb (length c) n) eqn:El.
        -- apply Nat.leb_le in El. cbn [concat]. rewrite IH, firstn_app.
           rewrite (firstn_all2 c El). reflexivity.
        -- apply Nat.leb_gt in El. cbn. rewrite app_nil_r, firstn_app.
           replace (n - length c)%nat with 0%nat by lia. cbn. rewrite app_nil_r. reflexivity.
Qed.

Lemma nth_error_firstn_snoc : forall (d : bytes) n b, nth_error d n = Some b -> firstn n d ++ [b] = firstn (S n) d.
Proof.
  induction d as [|x d IH]; intros n b E.
  - destruct n; discriminate.
  - destruct n as [|n]; cbn in *.
    + inversion E; reflexivity.
    + f_equal. apply IH; exact E.
Qed.

(* ---- sequential execution of the loops *)
Lemma seq_write_chunks : forall A p cs off fs c (k : bool -> prog A),
  fs p = Some c -> (off <= length c)%nat ->
  exists fs', run_seq (write_chunks p cs off k) fs = run_seq (k true) fs' /\
              fs' p = Some (pwrite c off (concat cs)) /\ agree_except p fs fs'.
Proof.
  induction cs as [|x r IH]; intros off fs c k Hc Hoff.
  - exists fs. cbn. rewrite pwrite_nil by assumption. split; [reflexivity|split; [exact Hc|apply agree_refl]].
  - cbn [write_chunks run_seq step]. rewrite Hc. unfold wrote_all. rewrite Nat.eqb_refl.
    destruct (IH (off + length x)%nat (upd fs p (Some (pwrite c off x))) (pwrite c off x) k) as (fs' & E & Hp & Ha).
    + apply upd_same.
    + rewrite pwrite_length by assumption. lia.
    + exists fs'. split; [exact E|]. split.
      * rewrite Hp, pwrite_app by assumption. reflexivity.
      * eapply agree_trans; [apply agree_upd|exact Ha].
Qed.

Lemma seq_read_full : forall A fuel p off need acc fs c (k : bytes -> prog A),
  fs p = Some c -> (need < fuel)%nat ->
  run_seq (read_full fuel p off need acc k) fs = run_seq (k (acc ++ firstn need (skipn off c))) fs.
Proof.
  induction fuel as [|f IH]; intros p off need acc fs c k Hc Hf; [lia|].
  cbn [read_full]. destruct (Nat.eqb need 0) eqn:E0.
  - apply Nat.eqb_eq in E0; subst. cbn. rewrite app_nil_r. reflexivity.
  - apply Nat.eqb_neq in E0. cbn [run_seq step]. rewrite Hc.
    set (b := firstn need (skipn off c)).
    destruct (Nat.eqb (length b) 0) eqn:Eb.
    + apply Nat.eqb_eq in Eb. destruct b; [|discriminate]. rewrite app_nil_r. reflexivity.
    + apply Nat.eqb_neq in Eb. rewrite (IH p _ _ _ fs c k Hc) by lia.
      f_equal. f_equal. rewrite <- app_assoc. f_equal.
      unfold b. destruct (le_lt_dec need (length (skipn off c))) as [L|L].
      * rewrite firstn_length_le by exact L. rewrite Nat.sub_diag. cbn. apply app_nil_r.
      * rewrite (firstn_all2 (n := need)) by lia.
        rewrite <- skipn_add, skipn_all, firstn_nil. apply app_nil_r.
Qed.

Lemma parse_entry_firstn : forall c id, parse_entry (firstn (S entry_size_n) c) id = parse_entry c id.
Proof.
  intros c id. destruct (le_lt_dec (length c) (S entry_size_n)) as [L|L].
  - rewrite firstn_all2 by exact L. reflexivity.
  - unfold parse_entry. rewrite firstn_length_le by lia.
    replace (Nat.eqb (S entry_size_n) entry_size_n) with false by (symmetry; apply Nat.eqb_neq; lia).
    replace (Nat.eqb (length c) entry_size_n) with false by (symmetry; apply Nat.eqb_neq; lia).
    reflexivity.
Qed.

Section Seq.
Variable H : bytes -> bytes.

Definition entry_of (fs : files) (id : bytes) : option (bytes * Z * Z) :=
  match fs (IdxP id) with Some c => parse_entry c id | None => None end.

Definition file_lookup (fs : files) (e : option (bytes * Z * Z)) : lookup path :=
  match e with
  | None => NotFound
  | Some (out, size, tm) =>
      match fs (DatP out) with
      | Some c => if Z.eqb (Z.of_nat (length c)) size then Found (DatP out) out size tm else NotFound
      | None => NotFound
      end
  end.

Definition bytes_lookup (fs : files) (e : option (bytes * Z * Z)) : lookup bytes :=
  match e with
  | None => NotFound
  | Some (out, size, tm) =>
      let data := match fs (DatP out) with Some c => c | None => [] end in
      if bytes_eqb (H data) out then Found data out size tm else NotFound
  end.

Lemma run_used : forall A p (k : prog A) fs, run_seq (used_prog p k) fs = run_seq k fs.
Proof. intros. unfold used_prog. cbn [run_seq step]. destruct (fs p); reflexivity. Qed.

Lemma run_get : forall fs id, run_seq (get_prog id) fs = (fs, entry_of fs id).
Proof.
  intros fs id. unfold get_prog, entry_of. cbn [run_seq step].
  destruct (fs (IdxP id)) as [c|] eqn:E; [|reflexivity].
  rewrite (seq_read_full _ _ _ _ _ _ fs c) by (exact E || lia).
  cbn [app skipn]. rewrite parse_entry_firstn.
  destruct (parse_entry c id) as [ent|]; [rewrite run_used|]; reflexivity.
Qed.

Lemma run_output_file : forall fs out, run_seq (output_file_prog out) fs = (fs, DatP out).
Proof. intros. unfold output_file_prog. rewrite run_used. reflexivity. Qed.

Lemma run_get_file : forall fs id, run_seq (get_file_prog id) fs = (fs, file_lookup fs (entry_of fs id)).
Proof.
  intros fs id. unfold get_file_prog. rewrite run_seq_bind, run_get.
  destruct (entry_of fs id) as [[[out size] tm]|]; [|reflexivity].
  rewrite run_seq_bind, run_output_file. cbn [run_seq step file_lookup].
  destruct (fs (DatP out)) as [c|]; [|reflexivity].
  destruct (Z.eqb (Z.of_nat (length c)) size); reflexivity.
Qed.

Lemma run_get_bytes : forall fs id, run_seq (get_bytes_prog H id) fs = (fs, bytes_lookup fs (entry_of fs id)).
Proof.
  intros fs id. unfold get_bytes_prog. rewrite run_seq_bind, run_get.
  destruct (entry_of fs id) as [[[out size] tm]|]; [|reflexivity].
  rewrite run_seq_bind, run_output_file. cbn [run_seq step bytes_lookup].
  destruct (fs (DatP out)) as [c|];
    match goal with |- context [bytes_eqb ?a ?b] => destruct (bytes_eqb a b) end; reflexivity.
Qed.

(* ---- C05: soundness of the lookups in ANY file-system state *)
Theorem get_bytes_sound : forall fs id,
  match get_bytes H fs id with
  | NotFound => True
  | Found d out size tm => H d = out /\ get fs id = Some (out, size, tm)
  end.
Proof.
  intros fs id. unfold get_bytes, get. rewrite run_get_bytes, run_get. cbn [snd].
  destruct (entry_of fs id) as [[[out size] tm]|]; cbn [bytes_lookup]; [|exact I].
  match goal with |- context [bytes_eqb ?a ?b] => destruct (bytes_eqb a b) eqn:E end; [|exact I].
  apply bytes_eqb_eq in E. split; [exact E|reflexivity].
Qed.

Theorem get_file_sound : forall fs id,
  match get_file fs id with
  | NotFound => True
  | Found p out size tm =>
      p = DatP out /\ get fs id = Some (out, size, tm) /\
      exists c, fst (run_seq (get_file_prog id) fs) p = Some c /\ Z.of_nat (length c) = size
  end.
Proof.
  intros fs id. unfold get_file, get. rewrite run_get_file, run_get. cbn [snd fst].
  destruct (entry_of fs id) as [[[out size] tm]|]; cbn [file_lookup]; [|exact I].
  destruct (fs (DatP out)) as [c|] eqn:Ec; [|exact I].
  destruct (Z.eqb (Z.of_nat (length c)) size) eqn:E; [|exact I].
  apply Z.eqb_eq in E. split; [reflexivity|]. split; [reflexivity|]. exists c. split; [exact Ec|exact E].
Qed.

(* lookups leave every file as it is (contents; times are not modelled) *)
Lemma lookups_pure : forall fs id,
  fst (run_seq (get_prog id) fs) = fs /\ fst (run_seq (get_file_prog id) fs) = fs /\
  fst (run_seq (get_bytes_prog H id) fs) = fs.
Proof. intros. rewrite run_get, run_get_file, run_get_bytes. auto. Qed.

End Seq.

(* the structural flags read from the source hold: the guarded programs are their bodies *)
Lemma copy_rewrite_eq : forall H rd out size bigger,
  copy_rewrite H rd out size bigger = copy_rewrite_body H rd out size bigger.
Proof. reflexivity. Qed.
Lemma put_index_prog_eq : forall id out size tm, put_index_prog id out size tm = put_index_body id out size tm.
Proof. reflexivity. Qed.
Lemma put_prog_eq : forall H id rd tm, put_prog H id rd tm = put_prog_body H id rd tm.
Proof. reflexivity. Qed.

Lemma open_copy_small : forall p, open_with p (copy_open_flags ++ []) = OOpen p true false.
Proof. reflexivity. Qed.
Lemma open_copy_big : forall p, open_with p (copy_open_flags ++ copy_open_flags_big) = OOpen p true true.
Proof. reflexivity. Qed.
Lemma open_index : forall p, open_with p index_open_flags = OOpen p true false.
Proof. reflexivity. Qed.

Lemma firstn_pred_last : forall (d : bytes), (0 < length d)%nat ->
  exists b, nth_error d (length d - 1) = Some b /\ firstn (length d - 1) d ++ [b] = d.
Proof.
  intros d Hd. destruct (nth_error d (length d - 1)) as [b|] eqn:E.
  - exists b. split; [reflexivity|]. rewrite (nth_error_firstn_snoc _ _ _ E).
    replace (S (length d - 1)) with (length d) by lia. apply firstn_all.
  - apply nth_error_None in E. lia.
Qed.

Section SeqPut.
Variable H : bytes -> bytes.

(* the state of the output file after the opening of copyFile's rewrite path *)
Definition opened (co : option bytes) (trunc : bool) : bytes :=
  match co with Some c => if trunc then [] else c | None => [] end.

Lemma seq_copy_rewrite_honest : forall chunks fs bigger,
  let d := concat chunks in
  let p := DatP (H d) in
  (length (opened (fs p) bigger) <= length d)%nat ->
  exists fs', run_seq (copy_rewrite H (honest_reader chunks) (H d) (length d) bigger) fs = (fs', true)
              /\ fs' p = Some d /\ agree_except p fs fs'.
Proof.
  intros chunks fs bigger d p Hlen.
  rewrite copy_rewrite_eq; unfold copy_rewrite_body. fold p.
  assert (exists fs1, step (open_with p (copy_open_flags ++ (if bigger then copy_open_flags_big else []))) fs = (fs1, ROk)
            /\ fs1 p = Some (opened (fs p) bigger) /\ agree_except p fs fs1) as (fs1 & E1 & Hp1 & Ha1).
  { destruct bigger; [rewrite open_copy_big|rewrite open_copy_small]; cbn [step]; unfold opened;
      destruct (fs p) as [c|] eqn:Ec; eexists; (split; [reflexivity|]); split;
        try apply upd_same; try exact Ec; try apply agree_upd; try apply agree_refl. }
  cbn [run_seq]. rewrite E1.
  set (c1 := opened (fs p) bigger) in *.
  destruct (Nat.eqb (length d) 0) eqn:E0.
  - apply Nat.eqb_eq in E0. cbn [run_seq step]. exists fs1. split; [reflexivity|]. split; [|exact Ha1].
    rewrite Hp1. destruct d; [|discriminate]. destruct c1; [reflexivity|cbn in Hlen; lia].
  - apply Nat.eqb_neq in E0. cbn [honest_reader rd_seek2 rd_pass2 negb].
    destruct (seq_write_chunks _ p (cut_chunks chunks (length d - 1)) 0 fs1 c1
               (fun ok : bool =>
                  if negb ok then trunc_fail p
                  else if Nat.ltb (length (concat chunks)) (length d - 1) then trunc_fail p
                  else match nth_error (concat chunks) (length d - 1) with
                       | None => trunc_fail p
                       | Some b =>
                           if negb (bytes_eqb (H (firstn (length d - 1) (concat chunks) ++ [b])) (H d)) then trunc_fail p
                           else Op (OWrite p (length d - 1) [b]) (fun w =>
                                  if wrote_all w [b] then
                                    Op (OClose p) (fun c =>
                                      if is_err c then Op (ORemove p) (fun _ => Op (OClose p) (fun _ => Ret false))
                                      else Op (OChtimes p) (fun _ => Op (OClose p) (fun _ => Ret true)))
                                  else trunc_fail p)
                       end) Hp1 (Nat.le_0_l _)) as (fs2 & E2 & Hp2 & Ha2).
    rewrite E2. cbn [negb]. fold d.
    replace (Nat.ltb (length d) (length d - 1)) with false by (symmetry; apply Nat.ltb_ge; lia).
    destruct (firstn_pred_last d) as (b & Eb & Ed); [lia|].
    rewrite Eb, Ed, bytes_eqb_refl. cbn [negb run_seq step]. rewrite Hp2.
    cbn [wrote_all length Nat.eqb is_err run_seq step].
    eexists. split; [reflexivity|]. split.
    + rewrite upd_same. f_equal. rewrite cut_chunks_concat. fold d.
      replace (length d - 1)%nat with (0 + length (firstn (length d - 1) d))%nat at 2
        by (rewrite firstn_length; lia).
      rewrite pwrite_app by lia. rewrite Ed. apply pwrite_all. exact Hlen.
    + eapply agree_trans; [exact Ha1|]. eapply agree_trans; [exact Ha2|]. apply agree_upd.
Qed.

Lemma seq_copy_file_honest : forall chunks fs,
  let d := concat chunks in
  let p := DatP (H d) in
  (forall c, fs p = Some c -> H c = H d -> c = d) ->
  exists fs', run_seq (copy_file_prog H (honest_reader chunks) (H d) (length d)) fs = (fs', true)
              /\ fs' p = Some d /\ agree_except p fs fs'.
Proof.
  intros chunks fs d p Hcol. subst d p. unfold copy_file_prog. cbn [run_seq step].
  destruct (fs (DatP (H (concat chunks)))) as [c|] eqn:Ec.
  - destruct (Nat.eqb (length c) (length (concat chunks))) eqn:El.
    + apply Nat.eqb_eq in El. cbn [run_seq step]. rewrite Ec. cbn [run_seq step]. rewrite Ec.
      destruct (bytes_eqb (H c) (H (concat chunks))) eqn:Eh.
      * apply bytes_eqb_eq in Eh. assert (c = concat chunks) by (apply Hcol; [reflexivity|exact Eh]). subst c.
        exists fs. split; [|split; [exact Ec|apply agree_refl]].
        destruct copy_reuse_refreshes; cbv iota; [rewrite run_used|]; reflexivity.
      * apply seq_copy_rewrite_honest. rewrite Ec. cbn. lia.
    + apply Nat.eqb_neq in El. apply seq_copy_rewrite_honest. rewrite Ec. unfold opened.
      destruct (Nat.ltb (length (concat chunks)) (length c)) eqn:Eb; [cbn; lia|]. apply Nat.ltb_ge in Eb. lia.
  - apply seq_copy_rewrite_honest. rewrite Ec. cbn. lia.
Qed.

Lemma ftruncate_pwrite : forall c e, ftruncate (pwrite c 0 e) (length e) = e.
Proof.
  intros c e. rewrite pwrite_le by lia. cbn [firstn app Nat.add]. unfold ftruncate.
  rewrite pad_to_le by (rewrite app_length; lia). apply firstn_app_len. reflexivity.
Qed.

Lemma seq_put_index : forall fs id out size tm,
  exists fs', run_seq (put_index_prog id out size tm) fs = (fs', true)
              /\ fs' (IdxP id) = Some (encode_entry id out (Z.of_nat size) tm)
              /\ agree_except (IdxP id) fs fs'.
Proof.
  intros fs id out size tm. rewrite put_index_prog_eq; unfold put_index_body. rewrite open_index.
  set (p := IdxP id). set (e := encode_entry id out (Z.of_nat size) tm).
  cbn [run_seq step].
  destruct (fs p) as [c|] eqn:Ec.
  - cbn [run_seq step]. rewrite Ec. unfold wrote_all. rewrite Nat.eqb_refl.
    cbn [run_seq step]. rewrite upd_same. cbn [run_seq step is_err orb].
    eexists. split; [reflexivity|]. split.
    + rewrite upd_same, ftruncate_pwrite. reflexivity.
    + eapply agree_trans; apply agree_upd.
  - cbn [run_seq step]. rewrite upd_same. unfold wrote_all. rewrite Nat.eqb_refl.
    cbn [run_seq step]. rewrite upd_same. cbn [run_seq step is_err orb].
    eexists. split; [reflexivity|]. split.
    + rewrite upd_same, ftruncate_pwrite. reflexivity.
    + eapply agree_trans; [apply agree_upd|]. eapply agree_trans; apply agree_upd.
Qed.

(* a Put with a well-behaved source on an arbitrarily damaged store succeeds and leaves
   exactly the data and a well-formed entry *)
Lemma seq_put_ok : forall chunks fs id tm,
  let d := concat chunks in
  (forall c, fs (DatP (H d)) = Some c -> H c = H d -> c = d) ->
  exists fs', put H fs id (honest_reader chunks) tm = (fs', PutOk (H d) (length d))
              /\ fs' (DatP (H d)) = Some d
              /\ fs' (IdxP id) = Some (encode_entry id (H d) (Z.of_nat (length d)) tm)
              /\ (forall q, q <> DatP (H d) -> q <> IdxP id -> fs' q = fs q).
Proof.
  intros chunks fs id tm d Hcol. unfold put; rewrite put_prog_eq; unfold put_prog_body. cbn [honest_reader rd_seek1 rd_ok1 rd_pass1 negb orb].
  fold d. rewrite run_seq_bind.
  destruct (seq_copy_file_honest chunks fs Hcol) as (fs1 & E1 & Hd1 & Ha1). fold d in E1, Hd1, Ha1.
  rewrite E1. rewrite run_seq_bind.
  destruct (seq_put_index fs1 id (H d) (length d) tm) as (fs2 & E2 & Hi2 & Ha2).
  rewrite E2. cbn [run_seq]. exists fs2. split; [reflexivity|]. split; [|split; [exact Hi2|]].
  - rewrite Ha2 by discriminate. exact Hd1.
  - intros q N1 N2. rewrite Ha2, Ha1 by assumption. reflexivity.
Qed.

End SeqPut.

(* ---- frame: which files a program can touch at all (any semantics executes only these ops) *)
Inductive only_paths {A} (S : path -> Prop) : prog A -> Prop :=
| only_ret : forall a, only_paths S (Ret a)
| only_op : forall o k, S (op_path o) -> (forall r, only_paths S (k r)) -> only_paths S (Op o k).

Lemma only_paths_bind : forall A B S (p : prog A) (f : A -> prog B),
  only_paths S p -> (forall a, only_paths S (f a)) -> only_paths S (bind p f).
Proof.
  intros A B S p f Hp Hf. induction Hp as [a|o k Ho _ IH]; cbn.
  - apply Hf.
  - apply only_op; [exact Ho|exact IH].
Qed.

Lemma only_paths_run_seq : forall A S (p : prog A), only_paths S p ->
  forall fs q, ~ S q -> fst (run_seq p fs) q = fs q.
Proof.
  intros A S p Hp. induction Hp as [a|o k Ho _ IH]; intros fs q Nq; cbn.
  - reflexivity.
  - destruct (step o fs) as [fs' r] eqn:E. rewrite IH by exact Nq.
    pose proof (step_agree o fs q) as Hs. rewrite E in Hs. apply Hs. intros ->. contradiction.
Qed.

Lemma only_paths_write_chunks : forall A (S : path -> Prop) p cs off (k : bool -> prog A),
  S p -> (forall b, only_paths S (k b)) -> only_paths S (write_chunks p cs off k).
Proof.
  intros A S p cs. induction cs as [|c r IH]; intros off k Hp Hk; cbn.
  - apply Hk.
  - apply only_op; [exact Hp|]. intros w. destruct (wrote_all w c); [apply IH; assumption|apply Hk].
Qed.

Lemma only_paths_read_full : forall A (S : path -> Prop) fuel p off need acc (k : bytes -> prog A),
  S p -> (forall b, only_paths S (k b)) -> only_paths S (read_full fuel p off need acc k).
Proof.
  intros A S fuel. induction fuel as [|f IH]; intros p off need acc k Hp Hk; cbn.
  - apply Hk.
  - destruct (Nat.eqb need 0); [apply Hk|]. apply only_op; [exact Hp|].
    intros r. destruct r; try apply Hk. destruct (Nat.eqb (length b) 0); [apply Hk|apply IH; assumption].
Qed.

Lemma only_paths_used : forall A (S : path -> Prop) p (k : prog A),
  S p -> only_paths S k -> only_paths S (used_prog p k).
Proof.
  intros A S p k Hp Hk. unfold used_prog. apply only_op; [exact Hp|].
  intros r. destruct r; try exact Hk; apply only_op; try exact Hp; intros _; exact Hk.
Qed.

Ltac only_tac :=
  repeat first
    [ apply only_ret
    | apply only_paths_used; [solve [auto]|]
    | apply only_paths_write_chunks; [solve [auto]|intros ?]
    | apply only_paths_read_full; [solve [auto]|intros ?]
    | apply only_op; [solve [cbn; auto]|intros ?]
    | match goal with
      | |- only_paths _ (match ?x with _ => _ end) => destruct x
      | |- only_paths _ (if ?x then _ else _) => destruct x
      end ].

Section Frame.
Variable H : bytes -> bytes.

Lemma only_paths_trunc_fail : forall (S : path -> Prop) p, S p -> only_paths S (trunc_fail p).
Proof. intros S p Hp. unfold trunc_fail. only_tac. Qed.

Lemma only_paths_copy_rewrite : forall (S : path -> Prop) rd out size bigger,
  S (DatP out) -> only_paths S (copy_rewrite H rd out size bigger).
Proof.
  intros S rd out size bigger Hp. rewrite copy_rewrite_eq; unfold copy_rewrite_body, open_with.
  pose proof (only_paths_trunc_fail S (DatP out) Hp) as Ht.
  apply only_op; [exact Hp|]. intros r. destruct r; try apply only_ret.
  destruct (Nat.eqb size 0); [only_tac|]. destruct (negb (rd_seek2 rd)); [exact Ht|].
  apply only_paths_write_chunks; [exact Hp|]. intros ok.
  destruct (negb ok); [exact Ht|].
  destruct (Nat.ltb _ _); [exact Ht|]. destruct (nth_error _ _); [|exact Ht].
  destruct (negb _); [exact Ht|]. apply only_op; [exact Hp|]. intros w.
  destruct (wrote_all w [b]); [|exact Ht]. only_tac.
Qed.

Lemma only_paths_copy_file : forall (S : path -> Prop) rd out size,
  S (DatP out) -> only_paths S (copy_file_prog H rd out size).
Proof.
  intros S rd out size Hp. unfold copy_file_prog.
  pose proof (fun b => only_paths_copy_rewrite S rd out size b Hp) as Hr.
  apply only_op; [exact Hp|]. intros r. destruct r; try apply Hr.
  destruct (Nat.eqb n size); [|apply Hr].
  apply only_op; [exact Hp|]. intros r2. destruct r2; try apply Hr.
  apply only_op; [exact Hp|]. intros r3. apply only_op; [exact Hp|]. intros _.
  destruct (bytes_eqb _ _); [|apply Hr]. destruct copy_reuse_refreshes; only_tac.
Qed.

Lemma only_paths_put_index : forall (S : path -> Prop) id out size tm,
  S (IdxP id) -> only_paths S (put_index_prog id out size tm).
Proof. intros S id out size tm Hp. rewrite put_index_prog_eq; unfold put_index_body, open_with. only_tac. Qed.

Definition put_paths (id out : bytes) (q : path) : Prop := q = DatP out \/ q = IdxP id.

Lemma only_paths_put : forall id rd tm,
  only_paths (put_paths id (H (rd_pass1 rd))) (put_prog H id rd tm).
Proof.
  intros id rd tm. rewrite put_prog_eq; unfold put_prog_body. destruct (negb (rd_seek1 rd) || negb (rd_ok1 rd)); [apply only_ret|].
  apply only_paths_bind.
  - apply only_paths_copy_file. left; reflexivity.
  - intros ok. destruct ok; [|apply only_ret]. apply only_paths_bind.
    + apply only_paths_put_index. right; reflexivity.
    + intros ok2. apply only_ret.
Qed.

Lemma only_paths_get : forall id, only_paths (fun q => q = IdxP id) (get_prog id).
Proof. intros id. unfold get_prog. only_tac. Qed.

(* a Put (whatever its source does, whether it succeeds or not) touches only its own index
   entry and the output file named by the hash of what it read *)
Lemma put_frame : forall fs id rd tm q,
  q <> DatP (H (rd_pass1 rd)) -> q <> IdxP id -> fst (put H fs id rd tm) q = fs q.
Proof.
  intros fs id rd tm q N1 N2. unfold put.
  apply (only_paths_run_seq _ _ _ (only_paths_put id rd tm)). unfold put_paths. tauto.
Qed.

End Frame.

(* ---- C05: Put then lookup *)
Section PutGet.
Variable H : bytes -> bytes.
Hypothesis H_len : forall x, length (H x) = hash_size_n.

(* the lookups of id as functions of the two files they read *)
Lemma lookups_depend : forall fs fs' id,
  fs' (IdxP id) = fs (IdxP id) ->
  (forall out size tm, entry_of fs id = Some (out, size, tm) -> fs' (DatP out) = fs (DatP out)) ->
  get fs' id = get fs id /\ get_bytes H fs' id = get_bytes H fs id /\ get_file fs' id = get_file fs id.
Proof.
  intros fs fs' id Hi Hd. unfold get, get_bytes, get_file.
  rewrite !run_get, !run_get_bytes, !run_get_file. cbn [snd].
  assert (entry_of fs' id = entry_of fs id) as Ee by (unfold entry_of; rewrite Hi; reflexivity).
  rewrite Ee. split; [reflexivity|].
  destruct (entry_of fs id) as [[[out size] tm]|] eqn:E; [|split; reflexivity].
  cbn [bytes_lookup file_lookup]. rewrite (Hd out size tm eq_refl). split; reflexivity.
Qed.

Theorem put_get : forall chunks fs id tm,
  let d := concat chunks in
  length id = hash_size_n ->
  (0 <= tm < int64_lim)%Z -> (Z.of_nat (length d) < int64_lim)%Z ->
  (forall c, fs (DatP (H d)) = Some c -> H c = H d -> c = d) ->
  exists fs',
    put H fs id (honest_reader chunks) tm = (fs', PutOk (H d) (length d)) /\
    get_bytes H fs' id = Found d (H d) (Z.of_nat (length d)) tm /\
    get_file fs' id = Found (DatP (H d)) (H d) (Z.of_nat (length d)) tm /\
    fs' (DatP (H d)) = Some d.
Proof.
  intros chunks fs id tm d Li Ht Hs Hcol.
  destruct (seq_put_ok H chunks fs id tm Hcol) as (fs' & E & Hd & Hi & _). fold d in E, Hd, Hi.
  exists fs'. split; [exact E|].
  assert (entry_of fs' id = Some (H d, Z.of_nat (length d), tm)) as Ee.
  { unfold entry_of. rewrite Hi. apply entry_roundtrip; auto. lia. }
  unfold get_bytes, get_file. rewrite run_get_bytes, run_get_file. cbn [snd]. rewrite Ee.
  cbn [bytes_lookup file_lookup]. rewrite Hd, bytes_eqb_refl, Z.eqb_refl. auto.
Qed.

(* a Put of another id whose output is not the one id's entry names leaves every lookup of
   id as it was: "until overwritten" *)
Theorem lookup_frame : forall fs id id' rd tm,
  id' <> id ->
  (forall out size tm0, get fs id = Some (out, size, tm0) -> out <> H (rd_pass1 rd)) ->
  let fs' := fst (put H fs id' rd tm) in
  get fs' id = get fs id /\ get_bytes H fs' id = get_bytes H fs id /\ get_file fs' id = get_file fs id.
Proof.
  intros fs id id' rd tm Nid Nout fs'. apply lookups_depend.
  - apply put_frame; [discriminate|]. intros E; inversion E; congruence.
  - intros out size tm0 E. apply put_frame; [|discriminate].
    intros E'; inversion E'; subst. eapply Nout; [|reflexivity].
    unfold get. rewrite run_get. exact E.
Qed.

(* ---- histories *)
Definition bytes_ok (fs : files) (id : bytes) : Prop :=
  match get_bytes H fs id with NotFound => True | Found d out _ _ => H d = out end.
Definition file_ok (fs : files) (id : bytes) : Prop :=
  match get_file fs id with
  | NotFound => True
  | Found p out size _ => exists c, fs p = Some c /\ Z.of_nat (length c) = size
  end.

Theorem history_sound : forall ops fs n id,
  let s := history_run H (firstn n ops) fs in bytes_ok s id /\ file_ok s id.
Proof.
  intros ops fs n id s. split.
  - unfold bytes_ok. pose proof (get_bytes_sound H s id) as B. destruct (get_bytes H s id); [exact I|tauto].
  - unfold file_ok. pose proof (get_file_sound s id) as F. destruct (get_file s id) as [|p out size tm]; [exact I|].
    destruct F as (_ & _ & c & Hc & Hl). rewrite run_get_file in Hc. exists c. split; assumption.
Qed.

(* operations that neither overwrite id's entry or output nor damage anything *)
Definition harmless (id out : bytes) (o : hop) : Prop :=
  match o with
  | HPut id' rd _ => id' <> id /\ H (rd_pass1 rd) <> out
  | HDamage _ => False
  | _ => True
  end.

Theorem put_get_persists : forall ops fs id d out size tm,
  get_bytes H fs id = Found d out size tm ->
  Forall (harmless id out) ops ->
  let fs' := history_run H ops fs in
  get_bytes H fs' id = Found d out size tm /\ get_file fs' id = get_file fs id.
Proof.
  induction ops as [|o ops IH]; intros fs id d out size tm Hb Hh; [split; [exact Hb|reflexivity]|].
  inversion Hh as [|? ? Ho Hops]; subst. cbn [history_run fold_left].
  fold (history_run H ops (hop_run H o fs)).
  assert (get_bytes H (hop_run H o fs) id = get_bytes H fs id /\ get_file (hop_run H o fs) id = get_file fs id) as [E1 E2].
  { destruct o; cbn [hop_run harmless] in *.
    - destruct Ho as [N1 N2].
      assert (get fs id = Some (out, size, tm)) as G.
      { pose proof (get_bytes_sound H fs id) as S. rewrite Hb in S. tauto. }
      destruct (lookup_frame fs id id0 rd tm0 N1) as (_ & B & F); [|split; assumption].
      intros o s t E. rewrite G in E. inversion E; subst. auto.
    - rewrite run_get. split; reflexivity.
    - rewrite run_get_file. split; reflexivity.
    - rewrite run_get_bytes. split; reflexivity.
    - rewrite run_output_file. split; reflexivity.
    - contradiction. }
  destruct (IH (hop_run H o fs) id d out size tm) as [R1 R2]; [rewrite E1; exact Hb|exact Hops|].
  split; [exact R1|]. rewrite R2. exact E2.
Qed.

End PutGet.

(* distinct ids / outputs are distinct files: the index and data suffixes differ *)
Lemma path_name_inj : forall p q, path_name p = path_name q -> p = q.
Proof.
  intros [a|a] [b|b]; unfold path_name; intros E.
  - apply app_inv_tail in E. apply hex_inj in E. congruence.
  - exfalso. change (name_sep ++ index_key) with ([x2d] ++ [x61]) in E.
    change (name_sep ++ data_key) with ([x2d] ++ [x64]) in E.
    rewrite !app_assoc in E. apply app_inj_tail in E. destruct E as [_ E]; discriminate.
  - exfalso. change (name_sep ++ index_key) with ([x2d] ++ [x61]) in E.
    change (name_sep ++ data_key) with ([x2d] ++ [x64]) in E.
    rewrite !app_assoc in E. apply app_inj_tail in E. destruct E as [_ E]; discriminate.
  - apply app_inv_tail in E. apply hex_inj in E. congruence.
Qed.

(* the code reads and writes an entry / an output under the same key *)
Lemma keys_agree : index_key_get = index_key /\ data_key_get = data_key.
Proof. split; reflexivity. Qed.

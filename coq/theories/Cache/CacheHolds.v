(* Executable boolean forms of the C05 / C12 statements on a concrete state, history step or
   fault plan: definitions only.  They are extracted with the model and evaluated by the runner on
   every case (they find a witness when a regenerated constant breaks a proof). *)
From Coq Require Import List Bool Arith NArith ZArith.
From Coq.Strings Require Import Byte.
From GI Require Import Lib.Bytes Gen.CacheConsts Cache.CacheEntry Cache.Cache Cache.CacheFault.
Import ListNotations.

Section Holds.
Variable H : bytes -> bytes.

(* C05: whatever the state, GetBytes yields bytes hashing to the reported OutputID, GetFile a
   file of the reported size *)
Definition lookup_sound_on (fs : files) (id : bytes) : bool :=
  (match get_bytes H fs id with
   | NotFound => true
   | Found d out _ _ => bytes_eqb (H d) out
   end) &&
  (match get_file fs id with
   | NotFound => true
   | Found p _ size _ => match fs p with Some c => Z.eqb (Z.of_nat (length c)) size | None => false end
   end).

Definition c05_holds_on (fs : files) (ids : list bytes) : bool := forallb (lookup_sound_on fs) ids.

(* C05: a Put with a well-behaved source succeeds and is followed by exact lookups *)
Definition c05_put_holds_on (fs : files) (id : bytes) (chunks : list bytes) (tm : Z) : bool :=
  let d := concat chunks in
  match put H fs id (honest_reader chunks) tm with
  | (fs', PutOk out size) =>
      bytes_eqb out (H d) && Nat.eqb size (length d) &&
      (match get_bytes H fs' id with Found d' _ _ _ => bytes_eqb d' d | NotFound => false end) &&
      (match get_file fs' id with
       | Found p _ _ _ => match fs' p with Some c => bytes_eqb c d | None => false end
       | NotFound => false
       end)
  | _ => false
  end.

(* C12: the invariant over a finite universe of contents and of ids *)
Fixpoint is_prefixb (c d : bytes) : bool :=
  match c, d with
  | [], _ => true
  | x :: c', y :: d' => beq x y && is_prefixb c' d'
  | _ :: _, [] => false
  end.

Definition opt_bytes_eqb (a b : option bytes) : bool :=
  match a, b with
  | Some x, Some y => bytes_eqb x y
  | None, None => true
  | _, _ => false
  end.

Definition inv_holds_on (U ids : list bytes) (fs : files) : bool :=
  forallb (fun d => match fs (DatP (H d)) with Some c => is_prefixb c d | None => true end) U &&
  forallb (fun id =>
    match fs (IdxP id) with
    | Some c =>
        match parse_entry c id with
        | Some (out, _, _) =>
            forallb (fun d => if bytes_eqb (H d) out then opt_bytes_eqb (fs (DatP out)) (Some d) else true) U
        | None => true
        end
    | None => true
    end) ids.

Definition entry_eqb (a b : option (bytes * Z * Z)) : bool :=
  match a, b with
  | Some (o1, s1, t1), Some (o2, s2, t2) => bytes_eqb o1 o2 && Z.eqb s1 s2 && Z.eqb t1 t2
  | None, None => true
  | _, _ => false
  end.

Definition lookup_bytes_eqb (a b : lookup bytes) : bool :=
  match a, b with
  | Found d1 o1 s1 t1, Found d2 o2 s2 t2 => bytes_eqb d1 d2 && bytes_eqb o1 o2 && Z.eqb s1 s2 && Z.eqb t1 t2
  | NotFound, NotFound => true
  | _, _ => false
  end.

Definition lookup_path_eqb (a b : lookup path) : bool :=
  match a, b with
  | Found p1 o1 s1 t1, Found p2 o2 s2 t2 => path_eqb p1 p2 && bytes_eqb o1 o2 && Z.eqb s1 s2 && Z.eqb t1 t2
  | NotFound, NotFound => true
  | _, _ => false
  end.

(* C12: from a store satisfying the invariant, a faulty Put leaves the invariant, sound lookups,
   files named by GetFile holding exactly the bytes with the reported OutputID, and the lookups
   of all other ids as they were.  [c12_post_holds_on] is the statement about a given pair of
   states (the driver passes the post-state it has computed anyway). *)
Definition c12_post_holds_on (U ids : list bytes) (fs fs' : files) (id : bytes) : bool :=
  if negb (inv_holds_on U ids fs) then true else
  inv_holds_on U ids fs' && c05_holds_on fs' ids &&
  forallb (fun i =>
    (match get_file fs' i with
     | Found p out _ _ => match fs' p with Some c => bytes_eqb (H c) out | None => false end
     | NotFound => true
     end) &&
    (if bytes_eqb i id then true else
       entry_eqb (get fs' i) (get fs i) && lookup_bytes_eqb (get_bytes H fs' i) (get_bytes H fs i) &&
       lookup_path_eqb (get_file fs' i) (get_file fs i))) ids.

Definition c12_holds_on (U ids : list bytes) (fs : files) (b : budget) (id : bytes) (rd : reader) (tm : Z) : bool :=
  c12_post_holds_on U ids fs (fst (fst (run_f b (put_prog H id rd tm) fs))) id.

End Holds.

(* Interleaved semantics of cache users (C11): definitions only.
   Clients (goroutines or processes, each with its own Cache value) run lists of API calls;
   a schedule picks which client performs its next file operation.  A write is atomic; a
   reading operation (Read, read-all) may be given a torn view of the file it looks at: the
   first j bytes of the current content followed by the rest of the content the file had
   before the most recent write to it.  Stat is atomic: the size of a file changes at one
   instant of a write, so a Stat concurrent with a write is a Stat before or after it.
   No faults. *)
From Coq Require Import List Bool Arith NArith ZArith.
From Coq.Strings Require Import Byte.
From GI Require Import Lib.Bytes Gen.CacheConsts Cache.CacheEntry Cache.Cache.
Import ListNotations.

Inductive call :=
| CPut (id : bytes) (chunks : list bytes) (tm : Z)   (* Put of concat chunks, read in these pieces *)
| CPutR (id : bytes) (rd : reader) (tm : Z)          (* Put from an arbitrary (misbehaving) source; runner only *)
| CGet (id : bytes)
| CGetBytes (id : bytes)
| CGetFile (id : bytes).

Inductive cres :=
| XPut (r : put_result)
| XGet (e : option (bytes * Z * Z))
| XBytes (l : lookup bytes)
| XFile (l : lookup path).

Record sys := { sfiles : files; slast : path -> option bytes }.

Definition mix (j : nat) (cur old : bytes) : bytes := firstn j cur ++ skipn j old.

Definition view (s : sys) (p : path) (torn : option nat) : option bytes :=
  match sfiles s p with
  | None => None
  | Some c =>
      match torn, slast s p with
      | Some j, Some o => Some (mix j c o)
      | _, _ => Some c
      end
  end.

Definition updl (l : path -> option bytes) (p : path) (v : option bytes) : path -> option bytes :=
  fun q => if path_eqb q p then v else l q.

Definition cstep (o : op) (torn : option nat) (s : sys) : sys * res :=
  match o with
  | OStat p => (s, match sfiles s p with Some c => RSize (length c) | None => RErr end)
  | ORead p off n => (s, match view s p torn with Some c => RBytes (firstn n (skipn off c)) | None => RErr end)
  | OReadAll p => (s, match view s p torn with Some c => RBytes c | None => RErr end)
  | OWrite p off b =>
      match sfiles s p with
      | Some c => ({| sfiles := upd (sfiles s) p (Some (pwrite c off b)); slast := updl (slast s) p (Some c) |}, RWrote (length b))
      | None => (s, RErr)
      end
  | OClose _ | OChtimes _ => let '(fs', r) := step o (sfiles s) in ({| sfiles := fs'; slast := slast s |}, r)
  | _ => let '(fs', r) := step o (sfiles s) in ({| sfiles := fs'; slast := updl (slast s) (op_path o) None |}, r)
  end.

Section Conc.
Variable H : bytes -> bytes.

Definition call_prog (c : call) : prog cres :=
  match c with
  | CPut id chunks tm => bind (put_prog H id (honest_reader chunks) tm) (fun r => Ret (XPut r))
  | CPutR id rd tm => bind (put_prog H id rd tm) (fun r => Ret (XPut r))
  | CGet id => bind (get_prog id) (fun r => Ret (XGet r))
  | CGetBytes id => bind (get_bytes_prog H id) (fun r => Ret (XBytes r))
  | CGetFile id => bind (get_file_prog id) (fun r => Ret (XFile r))
  end.

(* cur = None: the client has finished *)
Record client := { cur : option (prog cres); todo : list call; results : list cres }.

(* move past returned calls to the next file operation *)
Fixpoint norm (p : prog cres) (td : list call) (rs : list cres) : client :=
  match p with
  | Op _ _ => {| cur := Some p; todo := td; results := rs |}
  | Ret r =>
      match td with
      | [] => {| cur := None; todo := []; results := rs ++ [r] |}
      | c :: t => norm (call_prog c) t (rs ++ [r])
      end
  end.

Definition start (calls : list call) : client :=
  match calls with
  | [] => {| cur := None; todo := []; results := [] |}
  | c :: t => norm (call_prog c) t []
  end.

Definition client_step (cl : client) (torn : option nat) (s : sys) : client * sys :=
  match cur cl with
  | Some (Op o k) => let '(s', r) := cstep o torn s in (norm (k r) (todo cl) (results cl), s')
  | _ => (cl, s)
  end.

Fixpoint set_nth {A} (n : nat) (x : A) (l : list A) : list A :=
  match l, n with
  | [], _ => []
  | _ :: t, O => x :: t
  | y :: t, S m => y :: set_nth m x t
  end.

(* one schedule entry: client i performs its next operation (nothing happens if it has none) *)
Definition sched_step (e : nat * option nat) (st : list client * sys) : list client * sys :=
  let '(cls, s) := st in
  match nth_error cls (fst e) with
  | Some cl => let '(cl', s') := client_step cl (snd e) s in (set_nth (fst e) cl' cls, s')
  | None => st
  end.

Definition run_conc (sched : list (nat * option nat)) (st : list client * sys) : list client * sys :=
  fold_left (fun st e => sched_step e st) sched st.

Definition init_sys (fs : files) : sys := {| sfiles := fs; slast := fun _ => None |}.

Definition finished (cls : list client) : bool := forallb (fun cl => match cur cl with None => true | Some _ => false end) cls.

End Conc.

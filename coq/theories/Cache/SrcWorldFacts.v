From Coq Require Import List Bool Arith ZArith Lia ZifyBool.
From Coq.Strings Require Import Byte.
From GI Require Import Lib.Bytes Lib.GoSem Lib.GoSemSeg Lib.GoSemWorld Lib.GoSemWorldVal Lib.GoSemWorldValFacts.
From GI Require Import Gen.CacheConsts Cache.CacheEntry Cache.CacheEntryFacts Cache.Cache Cache.SrcLib Cache.SrcWorldLemmas
  Cache.SrcWorld Gen.CacheWorldSrc.
From GI Require CacheTrim.CacheTrim TxtarWrite.Path.
Import ListNotations.
Local Open Scope Z_scope.

(* the flag values the generator evaluated the source with are the ones run_prog uses *)
Lemma flag_values :
  cw_O_RDONLY = O_RDONLY /\ cw_O_WRONLY = O_WRONLY /\ cw_O_RDWR = O_RDWR /\ cw_O_CREATE = O_CREATE /\ cw_O_TRUNC = O_TRUNC.
Proof. repeat split; reflexivity. Qed.

Section Facts.
Variable OS : os_ops.
Variable H : bytes -> bytes.
Variable rh : bytes -> bytes.

Notation dir_of c := (cw_Cache_dir c).

(* ------------------------------------------------------------------ run_prog *)

Lemma run_prog_bind {A B} dir (p : prog A) (f : A -> prog B) st :
  run_prog OS dir (bind p f) st = let '(st1, a) := run_prog OS dir p st in run_prog OS dir (f a) st1.
Proof.
  revert st. induction p as [a|o k IH]; intros st; cbn [bind run_prog]; [reflexivity|].
  destruct (do_op OS dir o st) as [st1 r]. apply IH.
Qed.

(* ------------------------------------------------------------------ fileName *)

Lemma sprintf_x (b : bytes) : go_sprintf None [x25; x78] [GoAnyBytes b] = Some (hex b).
Proof.
  cbn [go_sprintf beq Byte.eqb digit_val bZ Byte.to_N Z.of_N Z.leb Z.compare Pos.compare Pos.compare_cont andb option_map pad_left Nat.sub repeat app].
  now rewrite app_nil_r.
Qed.

Lemma cw_fileName_gen c b0 idr key :
  cw_Cache_fileName c (b0 :: idr) key =
  Ok (c, Path.join (Path.join (dir_of c) (hex [b0])) (hex (b0 :: idr) ++ name_sep ++ key)).
Proof.
  unfold cw_Cache_fileName. rewrite go_index_ok by (unfold len; cbn [length]; lia).
  cbn [GoSem.bind Z.to_nat nth]. rewrite Z_byte_byte_Z.
  unfold go_fmt_Sprintf_w. cbn [wany_values option_map]. unfold go_fmt_Sprintf. rewrite sprintf_02x, sprintf_x.
  cbn [GoSem.bind go_filepath_Join]. now rewrite <- app_assoc.
Qed.

Theorem cw_fileName_idx c id : id <> [] ->
  cw_Cache_fileName c id [x61] = Ok (c, file_name (dir_of c) (IdxP id)).
Proof. destruct id as [|b0 idr]; [congruence|]. intros _. apply cw_fileName_gen. Qed.

Theorem cw_fileName_dat c out : out <> [] ->
  cw_Cache_fileName c out [x64] = Ok (c, file_name (dir_of c) (DatP out)).
Proof. destruct out as [|b0 idr]; [congruence|]. intros _. apply cw_fileName_gen. Qed.

(* ------------------------------------------------------------------ used *)

(* the world after c.used(file_name p) *)
Definition used_w dir (p : path) (w : World OS) : World OS :=
  st_world OS (fst (run_prog OS dir (used_prog p (Ret tt)) (w, nil_handle OS, false))).

Lemma run_used {A} dir p (k : prog A) w h o :
  run_prog OS dir (used_prog p k) (w, h, o) = run_prog OS dir k (used_w dir p w, h, o).
Proof.
  unfold used_w, used_prog. cbn [run_prog do_op].
  destruct (op_stat OS w (file_name dir p)) as [[w1 fi] e].
  destruct (werr_is_nil e); cbn [run_prog do_op st_world fst]; [reflexivity|].
  destruct (op_chtimes OS w1 (file_name dir p) (op_now OS w1) (op_now OS w1)) as [w2 e2]. reflexivity.
Qed.

Theorem cw_used_eq : always_fresh OS -> forall w c p,
  cw_Cache_used OS w c (file_name (dir_of c) p) = Ok (used_w (dir_of c) p w, c).
Proof.
  intros Hfresh w c p. unfold cw_Cache_used, used_w, used_prog. cbn [run_prog do_op].
  specialize (Hfresh w (file_name (dir_of c) p)).
  destruct (op_stat OS w (file_name (dir_of c) p)) as [[w1 fi] e].
  destruct (werr_is_nil e) eqn:E; cbn [run_prog do_op st_world fst GoSem.bind].
  - change 3600000000000 with mtime_interval. rewrite (Hfresh eq_refl). reflexivity.
  - destruct (op_chtimes OS w1 (file_name (dir_of c) p) (op_now OS w1) (op_now OS w1)) as [w2 e2]. reflexivity.
Qed.

(* ------------------------------------------------------------------ OutputFile *)

Theorem cw_OutputFile_eq : always_fresh OS -> forall w c out h o, out <> [] ->
  cw_Cache_OutputFile OS w c out =
  match run_prog OS (dir_of c) (output_file_prog out) (w, h, o) with
  | (st, p) => Ok (st_world OS st, c, file_name (dir_of c) p)
  end.
Proof.
  intros Hfresh w c out h o Hne. unfold cw_Cache_OutputFile, output_file_prog.
  rewrite (cw_fileName_dat c out Hne). cbn [GoSem.bind].
  rewrite (cw_used_eq Hfresh). cbn [GoSem.bind]. rewrite run_used. reflexivity.
Qed.

(* ------------------------------------------------------------------ putIndexEntry *)

Lemma sprintf_entry id out size tm :
  go_fmt_Sprintf_w [x76; x31; x20; x25; x78; x20; x25; x78; x20; x25; x32; x30; x64; x20; x25; x32; x30; x64; x0a]
    [WAnyV (GoAnyBytes id); WAnyV (GoAnyBytes out); WAnyV (GoAnyInt size); WAnyV (GoAnyInt tm)]
  = Ok (encode_entry id out size tm).
Proof. reflexivity. Qed.

(* verify mode off.  The entry written is the model's encode_entry with the clock read of
   time.Now(); the operations are those of put_index_body, in its order, with its decisions:
   OpenFile(O_WRONLY|O_CREATE, 0666); Write of the whole entry; Truncate to its length only after a
   successful Write; Close always; Remove when any of them failed, else Chtimes; the error
   returned is nil exactly when the model says true. *)
Theorem cw_putIndexEntry_eq fuel w c id out size allow h o :
  id <> [] -> 0 <= size ->
  let tm := go_time_UnixNano (op_time_now OS w) in
  match run_prog OS (dir_of c) (put_index_body id out (Z.to_nat size) tm) (w, h, o) with
  | (st, ok) =>
      exists err,
        cw_Cache_putIndexEntry OS false rh fuel w c id out size allow = Ok (st_world OS st, c, err)
        /\ werr_is_nil err = ok
  end.
Proof.
  intros Hid Hsize tm. unfold cw_Cache_putIndexEntry, put_index_body.
  rewrite sprintf_entry. cbn [GoSem.bind andb]. rewrite (cw_fileName_idx c id Hid). cbn [GoSem.bind].
  rewrite Z2Nat.id by exact Hsize. fold tm.
  set (entry := encode_entry id out size tm).
  change (open_with (IdxP id) index_open_flags) with (OOpen (IdxP id) true false).
  cbn [run_prog do_op orb]. change (open_flags (IdxP id) true false) with 65. change file_perm with 438.
  destruct (op_open_file OS w (file_name (dir_of c) (IdxP id)) 65 438) as [[w1 f] e1].
  unfold res_of_err.
  destruct (werr_is_nil e1) eqn:E1; cbn [negb run_prog].
  2:{ exists e1. split; [reflexivity|exact E1]. }
  cbn [do_op]. destruct (op_write OS w1 f entry) as [[w2 n] e2].
  destruct (werr_is_nil e2) eqn:E2.
  - unfold wrote_all. rewrite Nat.eqb_refl. cbn [run_prog do_op GoSem.bind].
    unfold len. destruct (op_truncate OS w2 f (Z.of_nat (length entry))) as [w3 e3].
    cbn [GoSem.bind run_prog do_op]. destruct (op_close OS w3 f) as [w4 e4].
    unfold res_of_err, is_err.
    destruct (werr_is_nil e3) eqn:E3; cbn [GoSem.bind orb].
    + destruct (werr_is_nil e4) eqn:E4; cbn [negb run_prog do_op].
      * destruct (op_chtimes OS w4 _ _ _) as [w5 e5]. exists WNil. split; reflexivity.
      * destruct (op_remove OS w4 _) as [w5 e5]. exists e4. split; [reflexivity|exact E4].
    + rewrite E3. cbn [negb run_prog do_op]. destruct (op_remove OS w4 _) as [w5 e5].
      exists e3. split; [reflexivity|exact E3].
  - cbn [wrote_all run_prog do_op GoSem.bind]. destruct (op_close OS w2 f) as [w4 e4].
    rewrite ?E2. cbn [GoSem.bind orb negb run_prog do_op]. rewrite ?E2. cbn [GoSem.bind negb].
    destruct (op_remove OS w4 _) as [w5 e5].
    exists e2. split; [reflexivity|exact E2].
Qed.

End Facts.

(* A call made by the source reader of a Put in the middle of that Put (CacheReent.v) IS a run of the
   interleaved semantics (CacheConc.v): two clients, the Put and the inner call, under the schedule
   "the Put up to its n-th write to the output file, the inner call to completion, the rest of the
   Put", with untorn views.  Every C11 theorem therefore covers re-entrant use. *)
From Coq Require Import List Bool Arith NArith ZArith Lia.
From Coq.Strings Require Import Byte.
From GI Require Import Lib.Bytes Gen.CacheConsts Cache.CacheEntry Cache.Cache Cache.CacheSeqFacts
  Cache.CacheExamples Cache.CacheConc Cache.CacheReent Cache.CacheReentFacts.
Import ListNotations.

(* with an untorn view an operation of the interleaved semantics is the sequential one *)
Lemma cstep_none : forall o s,
  sfiles (fst (cstep o None s)) = fst (step o (sfiles s)) /\ snd (cstep o None s) = snd (step o (sfiles s)).
Proof.
  intros o s. destruct o as [p|p c t|p off n|p|p off b|p n|p|p|p]; cbn [cstep step]; unfold view.
  - split; reflexivity.
  - destruct (sfiles s p); [destruct t|destruct c]; cbn; split; reflexivity.
  - destruct (sfiles s p); cbn; split; reflexivity.
  - destruct (sfiles s p); cbn; split; reflexivity.
  - destruct (sfiles s p); cbn; split; reflexivity.
  - destruct (sfiles s p); cbn; split; reflexivity.
  - split; reflexivity.
  - destruct (sfiles s p); cbn; split; reflexivity.
  - destruct (sfiles s p); cbn; split; reflexivity.
Qed.

Lemma run_conc_app : forall H a b st, run_conc H (a ++ b) st = run_conc H b (run_conc H a st).
Proof. intros. unfold run_conc. apply fold_left_app. Qed.

Definition done_client (rs : list cres) : client := {| cur := None; todo := []; results := rs |}.

Section Two.
Variable H : bytes -> bytes.

(* one turn of client 0 / client 1 of a two-client system, parked at an operation *)
Lemma turn0 : forall o k rs c1 s,
  sched_step H (0%nat, None) ([norm H (Op o k) [] rs; c1], s) =
  ([norm H (k (snd (cstep o None s))) [] rs; c1], fst (cstep o None s)).
Proof.
  intros. cbn [sched_step fst snd nth_error norm client_step cur todo results].
  destruct (cstep o None s) as [s1 r]. reflexivity.
Qed.

Lemma turn1 : forall o k rs c0 s,
  sched_step H (1%nat, None) ([c0; norm H (Op o k) [] rs], s) =
  ([c0; norm H (k (snd (cstep o None s))) [] rs], fst (cstep o None s)).
Proof.
  intros. cbn [sched_step fst snd nth_error norm client_step cur todo results].
  destruct (cstep o None s) as [s1 r]. reflexivity.
Qed.

(* a client left alone runs its program to completion as the sequential semantics does *)
Lemma alone0 : forall (p : prog cres) rs c1 s,
  exists m s', run_conc H (repeat (0%nat, None) m) ([norm H p [] rs; c1], s) =
               ([done_client (rs ++ [snd (run_seq p (sfiles s))]); c1], s') /\
               sfiles s' = fst (run_seq p (sfiles s)).
Proof.
  induction p as [a|o k IH]; intros rs c1 s.
  - exists 0%nat, s. split; reflexivity.
  - destruct (IH (snd (cstep o None s)) rs c1 (fst (cstep o None s))) as (m & s' & E & F).
    exists (S m), s'. cbn [repeat]. change ((0%nat, @None nat) :: repeat (0%nat, None) m) with ([(0%nat, @None nat)] ++ repeat (0%nat, None) m).
    rewrite run_conc_app. unfold run_conc at 2. cbn [fold_left]. rewrite turn0. fold (run_conc H (repeat (0%nat, None) m)).
    destruct (cstep_none o s) as [Ef Er]. cbn [run_seq]. destruct (step o (sfiles s)) as [fs1 r] eqn:Es. cbn [fst snd] in Ef, Er.
    rewrite Er in *. rewrite Ef in *. split; [exact E|exact F].
Qed.

Lemma alone1 : forall (p : prog cres) rs c0 s,
  exists m s', run_conc H (repeat (1%nat, None) m) ([c0; norm H p [] rs], s) =
               ([c0; done_client (rs ++ [snd (run_seq p (sfiles s))])], s') /\
               sfiles s' = fst (run_seq p (sfiles s)).
Proof.
  induction p as [a|o k IH]; intros rs c0 s.
  - exists 0%nat, s. split; reflexivity.
  - destruct (IH (snd (cstep o None s)) rs c0 (fst (cstep o None s))) as (m & s' & E & F).
    exists (S m), s'. cbn [repeat]. change ((1%nat, @None nat) :: repeat (1%nat, None) m) with ([(1%nat, @None nat)] ++ repeat (1%nat, None) m).
    rewrite run_conc_app. unfold run_conc at 2. cbn [fold_left]. rewrite turn1. fold (run_conc H (repeat (1%nat, None) m)).
    destruct (cstep_none o s) as [Ef Er]. cbn [run_seq]. destruct (step o (sfiles s)) as [fs1 r] eqn:Es. cbn [fst snd] in Ef, Er.
    rewrite Er in *. rewrite Ef in *. split; [exact E|exact F].
Qed.

Definition untorn (sched : list (nat * option nat)) : Prop := Forall (fun e => snd e = None) sched.

Lemma untorn_repeat : forall i m, untorn (repeat (i, None) m).
Proof. intros i m. apply Forall_forall. intros e He. apply repeat_spec in He. subst. reflexivity. Qed.

Lemma untorn_app : forall a b, untorn a -> untorn b -> untorn (a ++ b).
Proof. intros a b Ha Hb. apply Forall_app. split; assumption. Qed.

(* run_cb as a schedule *)
Lemma run_cb_schedule : forall (p q : prog cres) n rs0 rs1 s fs' a b,
  run_cb p q (Some n) (sfiles s) = (fs', a, Some b) ->
  exists sched s', untorn sched /\
    run_conc H sched ([norm H p [] rs0; norm H q [] rs1], s) = ([done_client (rs0 ++ [a]); done_client (rs1 ++ [b])], s') /\
    sfiles s' = fs'.
Proof.
  induction p as [a0|o k IH]; intros q n rs0 rs1 s fs' a b E; cbn [run_cb] in E.
  - discriminate.
  - destruct (is_data_write o) eqn:Ew; [destruct n as [|n']|].
    + (* the inner call runs now *)
      destruct (alone1 q rs1 (norm H (Op o k) [] rs0) s) as (m1 & s1 & E1 & F1).
      destruct (run_seq q (sfiles s)) as [fs1 b1] eqn:Eq. cbn [fst snd] in E1, F1.
      destruct (alone0 (Op o k) rs0 (done_client (rs1 ++ [b1])) s1) as (m0 & s0 & E0 & F0).
      rewrite F1 in E0, F0. cbn [run_seq] in E0, F0.
      destruct (step o fs1) as [fs2 r] eqn:Es. rewrite run_cb_none in E. cbn [fst snd] in E.
      injection E as <- <- <-.
      exists (repeat (1%nat, None) m1 ++ repeat (0%nat, None) m0), s0.
      split; [apply untorn_app; apply untorn_repeat|]. rewrite run_conc_app, E1, E0. split; [reflexivity|exact F0].
    + destruct (cstep_none o s) as [Ef Er]. destruct (step o (sfiles s)) as [fs2 r] eqn:Es. cbn [fst snd] in Ef, Er.
      rewrite <- Ef, <- Er in E.
      destruct (IH _ q n' rs0 rs1 _ fs' a b E) as (sched & s' & U & R & F).
      exists ((0%nat, None) :: sched), s'. split; [constructor; [reflexivity|exact U]|].
      split; [|exact F]. change ((0%nat, @None nat) :: sched) with ([(0%nat, @None nat)] ++ sched).
      rewrite run_conc_app. unfold run_conc at 2. cbn [fold_left]. rewrite turn0. exact R.
    + destruct (cstep_none o s) as [Ef Er]. destruct (step o (sfiles s)) as [fs2 r] eqn:Es. cbn [fst snd] in Ef, Er.
      rewrite <- Ef, <- Er in E.
      destruct (IH _ q n rs0 rs1 _ fs' a b E) as (sched & s' & U & R & F).
      exists ((0%nat, None) :: sched), s'. split; [constructor; [reflexivity|exact U]|].
      split; [|exact F]. change ((0%nat, @None nat) :: sched) with ([(0%nat, @None nat)] ++ sched).
      rewrite run_conc_app. unfold run_conc at 2. cbn [fold_left]. rewrite turn0. exact R.
Qed.

(* run_cb through a final Ret *)
Lemma run_cb_bind_ret : forall A B C (p : prog A) (g : A -> C) (q : prog B) n fs,
  run_cb (bind p (fun r => Ret (g r))) q n fs =
  let '(fs', a, b) := run_cb p q n fs in (fs', g a, b).
Proof.
  induction p as [a|o k IH]; intros g q n fs; cbn [bind run_cb].
  - destruct n; reflexivity.
  - destruct n as [m|].
    + destruct (is_data_write o).
      * destruct m as [|m'].
        -- destruct (run_seq q fs) as [fs1 b]. destruct (step o fs1) as [fs2 r].
           rewrite IH. destruct (run_cb (k r) q None fs2) as [[fs3 a] x]. reflexivity.
        -- destruct (step o fs) as [fs2 r]. apply IH.
      * destruct (step o fs) as [fs2 r]. apply IH.
    + destruct (step o fs) as [fs2 r]. apply IH.
Qed.

(* ---- the theorem: a call made by the source before the n-th write of a Put is a schedule of the
   two-client system (Put, inner call) with untorn views *)
Theorem put_cb_is_a_schedule : forall id chunks tm c n fs fs' r b,
  put_cb H id chunks tm c (CbWrite n) fs = (fs', r, Some b) ->
  exists sched, untorn sched /\
    let st := run_conc H sched ([start H [CPut id chunks tm]; start H [c]], init_sys fs) in
    finished (fst st) = true /\ sfiles (snd st) = fs' /\ map results (fst st) = [[XPut r]; [b]].
Proof.
  intros id chunks tm c n fs fs' r b E. unfold put_cb in E.
  assert (run_cb (call_prog H (CPut id chunks tm)) (call_prog H c) (Some n) (sfiles (init_sys fs)) = (fs', XPut r, Some b)) as E'.
  { cbn [call_prog init_sys sfiles]. rewrite run_cb_bind_ret. rewrite E. reflexivity. }
  destruct (run_cb_schedule _ _ n [] [] (init_sys fs) fs' (XPut r) b E') as (sched & s' & U & R & F).
  exists sched. split; [exact U|]. cbn [start]. rewrite R. cbn [fst snd]. split; [reflexivity|]. split; [exact F|reflexivity].
Qed.

(* in the hash pass: the inner call to completion, then the Put *)
Theorem put_cb_before_is_a_schedule : forall id chunks tm c fs fs' r b,
  put_cb H id chunks tm c CbBefore fs = (fs', r, Some b) ->
  exists sched, untorn sched /\
    let st := run_conc H sched ([start H [CPut id chunks tm]; start H [c]], init_sys fs) in
    finished (fst st) = true /\ sfiles (snd st) = fs' /\ map results (fst st) = [[XPut r]; [b]].
Proof.
  intros id chunks tm c fs fs' r b E. unfold put_cb in E.
  destruct (run_seq (call_prog H c) fs) as [fs1 b1] eqn:Eq.
  destruct (run_seq (put_prog H id (honest_reader chunks) tm) fs1) as [fs2 r2] eqn:Ep. injection E as <- <- <-.
  destruct (alone1 (call_prog H c) [] (norm H (call_prog H (CPut id chunks tm)) [] []) (init_sys fs)) as (m1 & s1 & E1 & F1).
  cbn [init_sys sfiles] in E1, F1. rewrite Eq in E1, F1. cbn [fst snd] in E1, F1.
  destruct (alone0 (call_prog H (CPut id chunks tm)) [] (done_client ([] ++ [b1])) s1) as (m0 & s0 & E0 & F0).
  rewrite F1 in E0, F0. cbn [call_prog] in E0, F0. rewrite run_seq_bind in E0, F0. rewrite Ep in E0, F0. cbn [run_seq fst snd] in E0, F0.
  exists (repeat (1%nat, None) m1 ++ repeat (0%nat, None) m0). split; [apply untorn_app; apply untorn_repeat|].
  cbn [start]. rewrite run_conc_app, E1. cbn [call_prog]. rewrite E0. cbn [fst snd]. split; [reflexivity|]. split; [exact F0|reflexivity].
Qed.

End Two.

(* ---- instance: the re-entrant run of CacheReentFacts.ex_put_cb is the run of a schedule *)
Example ex_put_cb_schedule :
  exists sched, untorn sched /\
    map results (fst (run_conc toyH sched ([start toyH [CPut id2 [firstn 4 d1; skipn 4 d1] 9%Z]; start toyH [CGetBytes id1]], init_sys damaged)))
    = [[XPut (PutOk (toyH d1) 5)]; [XBytes NotFound]].
Proof.
  destruct (put_cb toyH id2 [firstn 4 d1; skipn 4 d1] 9%Z (CGetBytes id1) (CbWrite 0) damaged) as [[fs' r] b] eqn:E.
  assert (r = PutOk (toyH d1) 5 /\ b = Some (XBytes NotFound)) as [-> ->].
  { pose proof (f_equal (fun x => (snd (fst x), snd x)) E) as E2. cbn [fst snd] in E2. vm_compute in E2. injection E2 as <- <-. split; reflexivity. }
  destruct (put_cb_is_a_schedule toyH _ _ _ _ _ _ _ _ _ E) as (sched & U & _ & _ & R).
  exists sched. split; [exact U|exact R].
Qed.

(* Facts about the interleaved semantics (C11): a rely/guarantee argument.
   J is an invariant of the shared state, G what a single step of any client may do to it;
   [valid P Q p] says that program p, started in a state satisfying the (interference-stable)
   assertion P, performs only G-steps, and returns values a with Q a holding. *)
From Coq Require Import List Bool Arith NArith ZArith Lia.
From Coq.Strings Require Import Byte.
From GI Require Import Lib.Bytes Gen.CacheConsts Cache.CacheEntry Cache.CacheEntryFacts Cache.Cache
  Cache.CacheSeqFacts Cache.CacheFault Cache.CacheFaultFacts Cache.CacheConc.
Import ListNotations.

Section RG.
Variable J : sys -> Prop.
Variable G : sys -> sys -> Prop.
Hypothesis G_refl : forall s, G s s.
Hypothesis G_J : forall s s', J s -> G s s' -> J s'.

Definition stable (P : sys -> Prop) : Prop := forall s s', J s -> P s -> G s s' -> P s'.

Inductive valid {A} : (sys -> Prop) -> (A -> sys -> Prop) -> prog A -> Prop :=
| v_ret : forall (P : sys -> Prop) (Q : A -> sys -> Prop) a,
    stable P -> (forall s, J s -> P s -> Q a s) -> valid P Q (Ret a)
| v_op : forall (P : sys -> Prop) (Q : A -> sys -> Prop) o k (R : res -> sys -> Prop),
    stable P ->
    (forall s torn, J s -> P s -> G s (fst (cstep o torn s)) /\ R (snd (cstep o torn s)) (fst (cstep o torn s))) ->
    (forall r, valid (R r) Q (k r)) ->
    valid P Q (Op o k).

Lemma valid_false : forall A (Q : A -> sys -> Prop) (p : prog A), valid (fun _ => False) Q p.
Proof.
  intros A Q p. induction p as [a|o k IH].
  - apply v_ret; [intros s s' _ []|intros s _ []].
  - apply (v_op _ _ _ _ (fun _ _ => False)).
    + intros s s' _ [].
    + intros s torn _ [].
    + exact IH.
Qed.

Lemma valid_weaken : forall A (P P' : sys -> Prop) (Q : A -> sys -> Prop) p,
  valid P Q p -> stable P' -> (forall s, J s -> P' s -> P s) -> valid P' Q p.
Proof.
  intros A P P' Q p Hv Hst Himp. destruct Hv as [P Q a Hs Hq|P Q o k R Hs Hstep Hk].
  - apply v_ret; [exact Hst|]. intros s Js Ps. apply Hq; [exact Js|apply Himp; assumption].
  - apply (v_op _ _ _ _ R); [exact Hst| |exact Hk].
    intros s torn Js Ps. apply Hstep; [exact Js|apply Himp; assumption].
Qed.

Lemma valid_stable : forall A (P : sys -> Prop) (Q : A -> sys -> Prop) p, valid P Q p -> stable P.
Proof. intros A P Q p Hv. destruct Hv; assumption. Qed.

Lemma valid_op_inv : forall A (P : sys -> Prop) (Q : A -> sys -> Prop) o k,
  valid P Q (Op o k) ->
  exists R : res -> sys -> Prop,
    (forall s torn, J s -> P s -> G s (fst (cstep o torn s)) /\ R (snd (cstep o torn s)) (fst (cstep o torn s))) /\
    (forall r, valid (R r) Q (k r)).
Proof. intros A P Q o k Hv. inversion Hv; subst. eexists; split; eassumption. Qed.

Lemma valid_ret_inv : forall A (P : sys -> Prop) (Q : A -> sys -> Prop) a,
  valid P Q (Ret a) -> forall s, J s -> P s -> Q a s.
Proof. intros A P Q a Hv. inversion Hv; subst. assumption. Qed.

Lemma Forall2_mono : forall A B (R R' : A -> B -> Prop) l1 l2,
  (forall a b, R a b -> R' a b) -> Forall2 R l1 l2 -> Forall2 R' l1 l2.
Proof. intros A B R R' l1 l2 Hm Hf. induction Hf; constructor; auto. Qed.

Lemma valid_bind : forall A B (P : sys -> Prop) (Q1 : A -> sys -> Prop) (Q : B -> sys -> Prop) (p : prog A) (f : A -> prog B),
  valid P Q1 p -> (forall a, valid (Q1 a) Q (f a)) -> valid P Q (bind p f).
Proof.
  intros A B P Q1 Q p f Hv Hf. induction Hv as [P Q' a Hs Hq|P Q' o k R Hs Hstep Hk IH]; cbn.
  - eapply valid_weaken; [apply Hf|exact Hs|exact Hq].
  - apply (v_op _ _ _ _ R); auto.
Qed.

(* ---- clients *)
Variable H : bytes -> bytes.
Variable post : call -> cres -> sys -> Prop.
Hypothesis post_stable : forall c r, stable (post c r).
Variable call_ok : call -> Prop.
Hypothesis call_valid : forall c, call_ok c -> valid (fun _ => True) (post c) (call_prog H c).

Definition cinv (calls : list call) (cl : client) (s : sys) : Prop :=
  Forall call_ok calls /\
  exists done, Forall2 (fun c r => post c r s) done (results cl) /\
    match cur cl with
    | None => calls = done /\ todo cl = []
    | Some p => exists c P, calls = done ++ c :: todo cl /\ P s /\ valid P (post c) p
    end.

Lemma Forall2_snoc : forall A B (R : A -> B -> Prop) l1 l2 a b,
  Forall2 R l1 l2 -> R a b -> Forall2 R (l1 ++ [a]) (l2 ++ [b]).
Proof. intros. apply Forall2_app; [assumption|constructor; [assumption|constructor]]. Qed.

Lemma cinv_stable : forall calls cl s s', J s -> cinv calls cl s -> G s s' -> cinv calls cl s'.
Proof.
  intros calls cl s s' Js (Hok & done & Hres & Hcur) Hg. split; [exact Hok|]. exists done. split.
  - eapply Forall2_mono; [|exact Hres]. intros c r Hp. eapply post_stable; eassumption.
  - destruct (cur cl) as [p|]; [|exact Hcur].
    destruct Hcur as (c & P & Ec & Ps & Hv). exists c, P. split; [exact Ec|]. split; [|exact Hv].
    eapply (valid_stable _ _ _ _ Hv); eassumption.
Qed.

Lemma cinv_norm : forall td calls p rs done c (P : sys -> Prop) s,
  J s -> Forall call_ok calls -> calls = done ++ c :: td -> P s -> valid P (post c) p ->
  Forall2 (fun c r => post c r s) done rs ->
  cinv calls (norm H p td rs) s.
Proof.
  induction td as [|c' t IH]; intros calls p rs done c P s Js Hok Ec Ps Hv Hres.
  - destruct p as [r|o k]; cbn [norm].
    + split; [exact Hok|]. exists (done ++ [c]). cbn [results cur todo]. split.
      * apply Forall2_snoc; [exact Hres|]. eapply valid_ret_inv; eassumption.
      * split; [exact Ec|reflexivity].
    + split; [exact Hok|]. exists done. cbn [results cur todo]. split; [exact Hres|]. exists c, P. auto.
  - destruct p as [r|o k]; cbn [norm].
    + apply (IH calls (call_prog H c') (rs ++ [r]) (done ++ [c]) c' (fun _ => True) s); auto.
      * rewrite <- app_assoc. exact Ec.
      * apply call_valid. rewrite Ec in Hok. apply Forall_app in Hok. destruct Hok as [_ Hok].
        inversion Hok as [|? ? _ Hok']; subst. inversion Hok'; subst. assumption.
      * apply Forall2_snoc; [exact Hres|]. eapply valid_ret_inv; eassumption.
    + split; [exact Hok|]. exists done. cbn [results cur todo]. split; [exact Hres|]. exists c, P. auto.
Qed.

Lemma cinv_start : forall calls s, J s -> Forall call_ok calls -> cinv calls (start H calls) s.
Proof.
  intros calls s Js Hok. destruct calls as [|c t]; cbn [start].
  - split; [exact Hok|]. exists []. cbn. split; [constructor|auto].
  - apply (cinv_norm t (c :: t) (call_prog H c) [] [] c (fun _ => True) s); auto.
    apply call_valid. inversion Hok; assumption.
Qed.

Lemma client_step_sound : forall calls cl torn s,
  J s -> cinv calls cl s ->
  let '(cl', s') := client_step H cl torn s in G s s' /\ J s' /\ cinv calls cl' s'.
Proof.
  intros calls cl torn s Js Hc. unfold client_step.
  destruct (cur cl) as [[r|o k]|] eqn:Ecur.
  - split; [apply G_refl|]. split; assumption.
  - destruct Hc as (Hok & done & Hres & Hcur). rewrite Ecur in Hcur. destruct Hcur as (c & P & Ec & Ps & Hv).
    destruct (valid_op_inv _ _ _ _ _ Hv) as (R & Hstep & Hk).
    destruct (cstep o torn s) as [s' r] eqn:Es.
    destruct (Hstep s torn Js Ps) as [Hg Hr]. rewrite Es in Hg, Hr. cbn [fst snd] in Hg, Hr.
    assert (J s') as Js' by (eapply G_J; eassumption).
    split; [exact Hg|]. split; [exact Js'|].
    apply (cinv_norm (todo cl) calls (k r) (results cl) done c (R r) s' Js' Hok Ec Hr (Hk r)).
    eapply Forall2_mono; [|exact Hres]. intros c0 r0 Hp. exact (post_stable c0 r0 s s' Js Hp Hg).
  - split; [apply G_refl|]. split; assumption.
Qed.

Lemma Forall2_set_nth : forall A B (R R' : A -> B -> Prop) l1 l2 i x x',
  Forall2 R l1 l2 -> nth_error l2 i = Some x ->
  (forall a b, R a b -> R' a b) ->
  (forall a, nth_error l1 i = Some a -> R a x -> R' a x') ->
  Forall2 R' l1 (set_nth i x' l2).
Proof.
  intros A B R R' l1 l2 i x x' Hf. revert i. induction Hf as [|a b l1 l2 Hab Hf IH]; intros i Hn Hm Hx.
  - destruct i; discriminate.
  - destruct i as [|i]; cbn in *.
    + inversion Hn; subst. constructor; [apply Hx; [reflexivity|exact Hab]|]. eapply Forall2_mono; eassumption.
    + constructor; [apply Hm; exact Hab|]. apply IH; assumption.
Qed.

Lemma Forall2_nth_r : forall A B (R : A -> B -> Prop) l1 l2 i x,
  Forall2 R l1 l2 -> nth_error l2 i = Some x -> exists a, nth_error l1 i = Some a /\ R a x.
Proof.
  intros A B R l1 l2 i x Hf. revert i. induction Hf as [|a b l1 l2 Hab Hf IH]; intros i Hn.
  - destruct i; discriminate.
  - destruct i as [|i]; cbn in *; [inversion Hn; subst; eauto|apply IH; exact Hn].
Qed.

Definition sinv (callss : list (list call)) (st : list client * sys) : Prop :=
  J (snd st) /\ Forall2 (fun calls cl => cinv calls cl (snd st)) callss (fst st).

Lemma sched_step_sound : forall callss e st, sinv callss st -> sinv callss (sched_step H e st) /\ G (snd st) (snd (sched_step H e st)).
Proof.
  intros callss [i torn] [cls s] [Js Hall]. cbn [fst snd] in *. unfold sched_step. cbn [fst snd].
  destruct (nth_error cls i) as [cl|] eqn:En; [|split; [split; assumption|apply G_refl]].
  destruct (Forall2_nth_r _ _ _ _ _ _ _ Hall En) as (calls & Ecalls & Hc).
  pose proof (client_step_sound calls cl torn s Js Hc) as Hstep.
  destruct (client_step H cl torn s) as [cl' s'] eqn:Es. destruct Hstep as (Hg & Js' & Hc').
  split; [|exact Hg]. split; [exact Js'|]. cbn [fst snd].
  eapply Forall2_set_nth; [exact Hall|exact En| |].
  - intros a b Hab. exact (cinv_stable a b s s' Js Hab Hg).
  - intros a Ea _. rewrite Ecalls in Ea. inversion Ea; subst. exact Hc'.
Qed.

Lemma run_conc_sound : forall callss sched st, sinv callss st -> sinv callss (run_conc H sched st).
Proof.
  intros callss sched. induction sched as [|e t IH]; intros st Hs; cbn; [exact Hs|].
  apply IH. apply sched_step_sound. exact Hs.
Qed.

Lemma run_conc_stable : forall callss sched st (P : sys -> Prop),
  sinv callss st -> stable P -> P (snd st) -> P (snd (run_conc H sched st)).
Proof.
  intros callss sched. induction sched as [|e t IH]; intros st P Hs Hst Hp; cbn; [exact Hp|].
  destruct (sched_step_sound callss e st Hs) as [Hs' Hg].
  apply (IH (sched_step H e st) P Hs' Hst). eapply Hst; [apply Hs|exact Hp|exact Hg].
Qed.

Lemma sinv_init : forall callss s, J s -> Forall (Forall call_ok) callss -> sinv callss (map (start H) callss, s).
Proof.
  intros callss s Js Hok. split; [exact Js|]. cbn [fst snd].
  induction Hok as [|calls t Hc _ IH]; cbn; constructor; [apply cinv_start; assumption|exact IH].
Qed.

End RG.

Lemma valid_strengthen : forall (J J' : sys -> Prop) (G : sys -> sys -> Prop) A
  (P : sys -> Prop) (Q : A -> sys -> Prop) (p : prog A),
  (forall s, J' s -> J s) -> valid J G P Q p -> valid J' G P Q p.
Proof.
  intros J J' G A P Q p Hj Hv. induction Hv as [P Q a Hs Hq|P Q o k R Hs Hstep Hk IH].
  - apply v_ret; [intros s s' Js Ps Hg; eapply Hs; [apply Hj; exact Js|exact Ps|exact Hg]|].
    intros s Js Ps. apply Hq; [apply Hj; exact Js|exact Ps].
  - apply (v_op _ _ _ _ _ _ R); [intros s s' Js Ps Hg; eapply Hs; [apply Hj; exact Js|exact Ps|exact Hg]| |exact IH].
    intros s torn Js Ps. apply Hstep; [apply Hj; exact Js|exact Ps].
Qed.

Lemma valid_post_mono : forall (J : sys -> Prop) (G : sys -> sys -> Prop) A
  (P : sys -> Prop) (Q Q' : A -> sys -> Prop) (p : prog A),
  valid J G P Q p -> (forall a s, Q a s -> Q' a s) -> valid J G P Q' p.
Proof.
  intros J G A P Q Q' p Hv Hq. induction Hv as [P Q0 a Hs Hr|P Q0 o k R Hs Hstep Hk IH].
  - apply v_ret; [exact Hs|]. intros s Js Ps. apply Hq. apply Hr; assumption.
  - apply (v_op _ _ _ _ _ _ R); [exact Hs|exact Hstep|]. intros r. apply IH. exact Hq.
Qed.

(* ---- torn views of a file that only grows along its content *)
Lemma mix_prefix : forall j (c o : bytes), is_prefix o c -> is_prefix (mix j c o) c /\ is_prefix o (mix j c o).
Proof.
  intros j c o [t Ht]. unfold mix. subst c.
  destruct (le_lt_dec j (length o)) as [L|L].
  - rewrite firstn_app. replace (j - length o)%nat with 0%nat by lia. cbn. rewrite app_nil_r, firstn_skipn.
    split; [exists t; reflexivity|apply prefix_refl].
  - rewrite skipn_all2 by lia. rewrite app_nil_r. split; [apply firstn_prefix|].
    rewrite firstn_app. rewrite firstn_all2 by lia. exists (firstn (j - length o) t). reflexivity.
Qed.

Lemma pwrite_chunk : forall c d off x, is_prefix c d -> (off <= length c)%nat -> is_prefix (firstn off d ++ x) d ->
  is_prefix (pwrite c off x) d /\ is_prefix c (pwrite c off x) /\ (off + length x <= length (pwrite c off x))%nat.
Proof.
  intros c d off x Hc Hoff Hx.
  assert (firstn off c = firstn off d) as Ew.
  { rewrite (prefix_firstn c d Hc). rewrite firstn_firstn. f_equal. lia. }
  assert (length (firstn off d) = off) as Lw by (rewrite <- Ew, firstn_length; lia).
  assert (pwrite c off x = pwrite c 0 (firstn off d ++ x)) as E.
  { rewrite !pwrite_le by lia. cbn [firstn app Nat.add]. rewrite Ew, app_length, Lw, <- app_assoc. reflexivity. }
  rewrite E. split; [apply pwrite_prefix_is_prefix; assumption|]. split.
  - rewrite (pwrite_prefix c _ d Hc Hx). destruct (Nat.leb (length c) (length (firstn off d ++ x))) eqn:El; [|apply prefix_refl].
    apply Nat.leb_le in El. apply (prefix_total c _ d Hc Hx El).
  - rewrite pwrite_length by lia. rewrite app_length, Lw. lia.
Qed.

(* ---- the invariant of the shared store and the guarantee of every step *)
Section CacheRG.
Variable H : bytes -> bytes.
Variable U : bytes -> Prop.
Hypothesis H_len : forall x, length (H x) = hash_size_n.
Hypothesis H_inj : H_inj_on H U.
(* the Puts of the system (and of whatever built the initial store): id, content, timestamp *)
Variable PS : bytes -> bytes -> Z -> Prop.
Hypothesis PS_ok : forall id d tm, PS id d tm ->
  U d /\ length id = hash_size_n /\ (0 <= tm < int64_lim)%Z /\ (Z.of_nat (length d) < int64_lim)%Z.

Definition entry (id d : bytes) (tm : Z) : bytes := encode_entry id (H d) (Z.of_nat (length d)) tm.

Lemma entry_length : forall id d tm, PS id d tm -> length (entry id d tm) = entry_size_n.
Proof.
  intros id d tm Hp. destruct (PS_ok _ _ _ Hp) as (_ & Li & Ht & Hs).
  unfold entry. apply encode_entry_length; [exact Li|apply H_len| |exact Ht].
  split; [apply Nat2Z.is_nonneg|exact Hs].
Qed.

Lemma entry_nonempty : forall id d tm, entry id d tm <> [].
Proof. intros id d tm. unfold entry. destruct (encode_entry_prefix id (H d) (Z.of_nat (length d)) tm) as [X ->]. discriminate. Qed.

(* an index file is empty (just created) or holds exactly the entry of a Put whose output is complete *)
Definition good_idx (fs : files) (id c : bytes) : Prop :=
  c = [] \/ exists d tm, PS id d tm /\ c = entry id d tm /\ fs (DatP (H d)) = Some d.

Definition Jc (s : sys) : Prop :=
  I1 H U (sfiles s) /\
  (forall out o, slast s (DatP out) = Some o -> exists c, sfiles s (DatP out) = Some c /\ is_prefix o c) /\
  (forall id c, sfiles s (IdxP id) = Some c -> good_idx (sfiles s) id c) /\
  (forall id o, slast s (IdxP id) = Some o -> good_idx (sfiles s) id o) /\
  (forall id o, slast s (IdxP id) = Some o -> exists c, sfiles s (IdxP id) = Some c /\ c <> []).

(* no file disappears, output files only grow, a non-empty index file stays non-empty *)
(* ... and the content remembered as "before the most recent write" of a file is left alone,
   forgotten, or becomes the content the file has just had *)
Definition last_rel (s s' : sys) (p : path) (c : bytes) : Prop :=
  slast s' p = slast s p \/ slast s' p = None \/ slast s' p = Some c.

Definition grows (s s' : sys) : Prop :=
  forall p c, sfiles s p = Some c ->
    exists c', sfiles s' p = Some c' /\
      match p with DatP _ => is_prefix c c' | IdxP _ => c <> [] -> c' <> [] end /\
      last_rel s s' p c.

Definition Gc (s s' : sys) : Prop := grows s s' /\ (Jc s -> Jc s').

Lemma Gc_refl : forall s, Gc s s.
Proof.
  intros s. split; [|auto]. intros p c Hc. exists c. split; [exact Hc|].
  split; [destruct p; [auto|apply prefix_refl]|left; reflexivity].
Qed.

Lemma Gc_J : forall s s', Jc s -> Gc s s' -> Jc s'.
Proof. intros s s' Js [_ Hj]. auto. Qed.

Lemma updl_same : forall l p v, updl l p v p = v.
Proof. intros. unfold updl. rewrite path_eqb_refl. reflexivity. Qed.
Lemma updl_other : forall l p v q, q <> p -> updl l p v q = l q.
Proof. intros. unfold updl. rewrite path_eqb_neq by assumption. reflexivity. Qed.

(* a complete output is known to be complete for ever *)
Lemma complete_stable : forall d, U d -> stable Jc Gc (fun s => sfiles s (DatP (H d)) = Some d).
Proof.
  intros d Ud s s' Js Hc [Hg Hj]. destruct (Hg _ _ Hc) as (c' & Hc' & Hp & _). cbn in Hp.
  destruct (Hj Js) as (Hi1 & _). destruct (Hi1 _ _ Hc') as (d0 & Ud0 & Hh & Hp0).
  assert (d0 = d) by (apply H_inj; assumption). subst d0.
  rewrite Hc'. f_equal. apply prefix_full; [exact Hp0|].
  apply prefix_length in Hp. apply prefix_length in Hp0. lia.
Qed.

(* the output file exists, holds a prefix of d, of length at least off *)
Definition at_least (d : bytes) (off : nat) (s : sys) : Prop :=
  exists c, sfiles s (DatP (H d)) = Some c /\ is_prefix c d /\ (off <= length c)%nat.

Lemma at_least_stable : forall d off, U d -> stable Jc Gc (at_least d off).
Proof.
  intros d off Ud s s' Js (c & Hc & Hp & Hl) [Hg Hj]. destruct (Hg _ _ Hc) as (c' & Hc' & Hp' & _). cbn in Hp'.
  destruct (Hj Js) as (Hi1 & _). destruct (Hi1 _ _ Hc') as (d0 & Ud0 & Hh & Hp0).
  assert (d0 = d) by (apply H_inj; assumption). subst d0.
  exists c'. split; [exact Hc'|]. split; [exact Hp0|]. apply prefix_length in Hp'. lia.
Qed.

Definition idx_exists (id : bytes) (s : sys) : Prop := exists c, sfiles s (IdxP id) = Some c.
Definition idx_nonempty (id : bytes) (s : sys) : Prop := exists c, sfiles s (IdxP id) = Some c /\ c <> [].

Lemma idx_exists_stable : forall id, stable Jc Gc (idx_exists id).
Proof. intros id s s' _ (c & Hc) [Hg _]. destruct (Hg _ _ Hc) as (c' & Hc' & _). exists c'. exact Hc'. Qed.

Lemma idx_nonempty_stable : forall id, stable Jc Gc (idx_nonempty id).
Proof.
  intros id s s' _ (c & Hc & Hn) [Hg _]. destruct (Hg _ _ Hc) as (c' & Hc' & Hp & _). exists c'. split; [exact Hc'|]. apply Hp. exact Hn.
Qed.

Lemma and_stable : forall (P Q : sys -> Prop), stable Jc Gc P -> stable Jc Gc Q -> stable Jc Gc (fun s => P s /\ Q s).
Proof. intros P Q HP HQ s s' Js [Hp Hq] Hg. split; [eapply HP|eapply HQ]; eassumption. Qed.

Lemma true_stable : stable Jc Gc (fun _ => True).
Proof. intros s s' _ _ _. exact I. Qed.

Lemma pure_stable : forall (X : Prop), stable Jc Gc (fun _ => X).
Proof. intros X s s' _ Hx _. exact Hx. Qed.

(* ---- single operations *)
Lemma good_idx_ext : forall fs fs' id c, (forall out, fs' (DatP out) = fs (DatP out)) -> good_idx fs id c -> good_idx fs' id c.
Proof.
  intros fs fs' id c He [Hn|(d & tm & Hp & Hc & Hf)]; [left; exact Hn|right].
  exists d, tm. rewrite He. auto.
Qed.

Lemma Jc_upd_dat : forall s d c' lastv,
  Jc s -> U d -> is_prefix c' d ->
  (forall c, sfiles s (DatP (H d)) = Some c -> is_prefix c c') ->
  (forall o, lastv = Some o -> is_prefix o c') ->
  Jc {| sfiles := upd (sfiles s) (DatP (H d)) (Some c'); slast := updl (slast s) (DatP (H d)) lastv |}.
Proof.
  intros s d c' lastv (Hi1 & Hj2 & Hj3 & Hj4 & Hj5) Ud Hp Hold Hlast. unfold Jc. cbn [sfiles slast].
  assert (forall id c, good_idx (sfiles s) id c -> good_idx (upd (sfiles s) (DatP (H d)) (Some c')) id c) as Hgood.
  { intros id c [Hn|(d1 & tm & Hps & Hc & Hf)]; [left; exact Hn|right]. exists d1, tm. split; [exact Hps|]. split; [exact Hc|].
    destruct (path_eq_dec (DatP (H d1)) (DatP (H d))) as [E|N].
    - rewrite E, upd_same. inversion E as [Eh]. destruct (PS_ok _ _ _ Hps) as (Ud1 & _).
      assert (d1 = d) by (apply H_inj; assumption). subst d1. f_equal.
      apply prefix_full; [exact Hp|]. pose proof (prefix_length _ _ (Hold _ Hf)). apply prefix_length in Hp. lia.
    - rewrite upd_other by exact N. exact Hf. }
  split; [|split; [|split; [|split]]].
  - intros out c Hc. destruct (path_eq_dec (DatP out) (DatP (H d))) as [E|N].
    + inversion E; subst out. rewrite upd_same in Hc. inversion Hc; subst. exists d. auto.
    + rewrite upd_other in Hc by exact N. apply Hi1. exact Hc.
  - intros out o Ho. destruct (path_eq_dec (DatP out) (DatP (H d))) as [E|N].
    + inversion E; subst out. rewrite updl_same in Ho. rewrite upd_same. exists c'. split; [reflexivity|apply Hlast; exact Ho].
    + rewrite updl_other in Ho by exact N. rewrite upd_other by exact N. apply Hj2. exact Ho.
  - intros id c Hc. rewrite upd_other in Hc by discriminate. apply Hgood. apply Hj3. exact Hc.
  - intros id o Ho. rewrite updl_other in Ho by discriminate. apply Hgood. apply Hj4. exact Ho.
  - intros id o Ho. rewrite updl_other in Ho by discriminate. rewrite upd_other by discriminate. apply (Hj5 id o Ho).
Qed.

Lemma Jc_upd_idx : forall s id c' lastv,
  Jc s -> good_idx (sfiles s) id c' -> (forall o, lastv = Some o -> good_idx (sfiles s) id o /\ c' <> []) ->
  Jc {| sfiles := upd (sfiles s) (IdxP id) (Some c'); slast := updl (slast s) (IdxP id) lastv |}.
Proof.
  intros s id c' lastv (Hi1 & Hj2 & Hj3 & Hj4 & Hj5) Hg Hlast. unfold Jc. cbn [sfiles slast].
  assert (forall out, upd (sfiles s) (IdxP id) (Some c') (DatP out) = sfiles s (DatP out)) as He
    by (intros out; apply upd_other; discriminate).
  split; [|split; [|split; [|split]]].
  - intros out c Hc. rewrite He in Hc. apply Hi1. exact Hc.
  - intros out o Ho. rewrite updl_other in Ho by discriminate. rewrite He. apply Hj2. exact Ho.
  - intros id' c Hc. apply (good_idx_ext (sfiles s)); [exact He|].
    destruct (path_eq_dec (IdxP id') (IdxP id)) as [E|N].
    + inversion E; subst id'. rewrite upd_same in Hc. inversion Hc; subst. exact Hg.
    + rewrite upd_other in Hc by exact N. apply Hj3. exact Hc.
  - intros id' o Ho. apply (good_idx_ext (sfiles s)); [exact He|].
    destruct (path_eq_dec (IdxP id') (IdxP id)) as [E|N].
    + inversion E; subst id'. rewrite updl_same in Ho. apply Hlast. exact Ho.
    + rewrite updl_other in Ho by exact N. apply Hj4. exact Ho.
  - intros id' o Ho. destruct (path_eq_dec (IdxP id') (IdxP id)) as [E|N].
    + inversion E; subst id'. rewrite updl_same in Ho. rewrite upd_same. exists c'. split; [reflexivity|apply (Hlast o Ho)].
    + rewrite updl_other in Ho by exact N. rewrite upd_other by exact N. apply (Hj5 id' o Ho).
Qed.

Lemma Jc_reset_last : forall s p, Jc s -> Jc {| sfiles := sfiles s; slast := updl (slast s) p None |}.
Proof.
  intros s p (Hi1 & Hj2 & Hj3 & Hj4 & Hj5). unfold Jc. cbn [sfiles slast]. split; [exact Hi1|]. split; [|split; [exact Hj3|split]].
  - intros out o Ho. destruct (path_eq_dec (DatP out) p) as [E|N].
    + rewrite E, updl_same in Ho. discriminate.
    + rewrite updl_other in Ho by exact N. apply Hj2. exact Ho.
  - intros id o Ho. destruct (path_eq_dec (IdxP id) p) as [E|N].
    + rewrite E, updl_same in Ho. discriminate.
    + rewrite updl_other in Ho by exact N. apply Hj4. exact Ho.
  - intros id o Ho. destruct (path_eq_dec (IdxP id) p) as [E|N].
    + rewrite E, updl_same in Ho. discriminate.
    + rewrite updl_other in Ho by exact N. apply (Hj5 id o Ho).
Qed.

Lemma grows_same_files : forall s s', sfiles s' = sfiles s ->
  (forall p, slast s' p = slast s p \/ slast s' p = None) -> grows s s'.
Proof.
  intros s s' E El p c Hc. exists c. rewrite E. split; [exact Hc|].
  split; [destruct p; [auto|apply prefix_refl]|]. destruct (El p) as [L|L]; [left; exact L|right; left; exact L].
Qed.

Lemma updl_none_rel : forall l p q, updl l p None q = l q \/ updl l p None q = None.
Proof.
  intros l p q. destruct (path_eq_dec q p) as [->|N]; [right; apply updl_same|left; apply updl_other; exact N].
Qed.

(* observing operations and Close/Chtimes change nothing *)
Lemma cstep_observe : forall o torn s,
  match o with OStat _ | ORead _ _ _ | OReadAll _ | OClose _ | OChtimes _ => True | _ => False end ->
  Gc s (fst (cstep o torn s)).
Proof.
  intros o torn s Ho. destruct o; try contradiction; cbn [cstep fst step]; try apply Gc_refl.
  - split; [apply grows_same_files; [reflexivity|intros q; left; reflexivity]|]. destruct s; auto.
  - split; [apply grows_same_files; [reflexivity|intros q; left; reflexivity]|]. destruct s; auto.
Qed.

(* opening for reading *)
Lemma cstep_open_ro : forall p torn s, Gc s (fst (cstep (OOpen p false false) torn s)).
Proof.
  intros p torn s. cbn [cstep step op_path]. destruct (sfiles s p); cbn [fst];
    (split; [apply grows_same_files; [reflexivity|intros q; apply updl_none_rel]|intros Js; apply (Jc_reset_last s p Js)]).
Qed.

Lemma cstep_open_ro_res : forall p torn s,
  snd (cstep (OOpen p false false) torn s) = match sfiles s p with Some _ => ROk | None => RErr end.
Proof. intros. cbn [cstep step]. destruct (sfiles s p); reflexivity. Qed.

(* creating / opening the output file for writing *)
Lemma cstep_open_dat : forall d torn s, U d -> Jc s ->
  let s' := fst (cstep (OOpen (DatP (H d)) true false) torn s) in
  Gc s s' /\ snd (cstep (OOpen (DatP (H d)) true false) torn s) = ROk /\ at_least d 0 s'.
Proof.
  intros d torn s Ud Js. cbn [cstep step op_path].
  destruct (sfiles s (DatP (H d))) as [c|] eqn:Ec; cbn [fst snd].
  - split; [|split; [reflexivity|]].
    + split; [apply grows_same_files; [reflexivity|intros q; apply updl_none_rel]|intros _; apply (Jc_reset_last s _ Js)].
    + destruct Js as (Hi1 & _). destruct (Hi1 _ _ Ec) as (d0 & Ud0 & Hh & Hp).
      assert (d0 = d) by (apply H_inj; assumption). subst d0.
      exists c. cbn [sfiles]. split; [exact Ec|]. split; [exact Hp|lia].
  - split; [|split; [reflexivity|]].
    + split.
      * intros p c Hc. exists c. cbn [sfiles]. rewrite upd_other by (intros ->; congruence).
        split; [exact Hc|]. split; [destruct p; [auto|apply prefix_refl]|].
        left. cbn [slast]. apply updl_other. intros ->; congruence.
      * intros _. apply (Jc_upd_dat s d [] None Js Ud (prefix_nil d)); [intros c Hc; congruence|intros o Ho; discriminate].
    + exists []. cbn [sfiles]. rewrite upd_same. split; [reflexivity|]. split; [apply prefix_nil|cbn; lia].
Qed.

Lemma cstep_open_idx : forall id torn s, Jc s ->
  let s' := fst (cstep (OOpen (IdxP id) true false) torn s) in
  Gc s s' /\ snd (cstep (OOpen (IdxP id) true false) torn s) = ROk /\ idx_exists id s'.
Proof.
  intros id torn s Js. cbn [cstep step op_path].
  destruct (sfiles s (IdxP id)) as [c|] eqn:Ec; cbn [fst snd].
  - split; [|split; [reflexivity|exists c; exact Ec]].
    split; [apply grows_same_files; [reflexivity|intros q; apply updl_none_rel]|intros _; apply (Jc_reset_last s _ Js)].
  - split; [|split; [reflexivity|exists []; cbn [sfiles]; apply upd_same]].
    split.
    + intros p c Hc. exists c. cbn [sfiles]. rewrite upd_other by (intros ->; congruence).
      split; [exact Hc|]. split; [destruct p; [auto|apply prefix_refl]|].
      left. cbn [slast]. apply updl_other. intros ->; congruence.
    + intros _. apply (Jc_upd_idx s id [] None Js); [left; reflexivity|intros o Ho; discriminate].
Qed.

(* writing the next piece of the output *)
Lemma cstep_write_dat : forall d off x torn s, U d -> Jc s -> at_least d off s ->
  is_prefix (firstn off d ++ x) d ->
  let s' := fst (cstep (OWrite (DatP (H d)) off x) torn s) in
  Gc s s' /\ snd (cstep (OWrite (DatP (H d)) off x) torn s) = RWrote (length x) /\ at_least d (off + length x) s'.
Proof.
  intros d off x torn s Ud Js (c & Ec & Hp & Hl) Hx. cbn [cstep]. rewrite Ec. cbn [fst snd].
  destruct (pwrite_chunk c d off x Hp Hl Hx) as (P1 & P2 & P3).
  split; [|split; [reflexivity|]].
  - split.
    + intros p c0 Hc0. cbn [sfiles]. destruct (path_eq_dec p (DatP (H d))) as [->|N].
      * rewrite upd_same. rewrite Ec in Hc0. inversion Hc0; subst. eexists. split; [reflexivity|].
        split; [exact P2|]. right. right. cbn [slast]. apply updl_same.
      * rewrite upd_other by exact N. exists c0. split; [exact Hc0|].
        split; [destruct p; [auto|apply prefix_refl]|]. left. cbn [slast]. apply updl_other. exact N.
    + intros _. apply (Jc_upd_dat s d _ (Some c) Js Ud P1).
      * intros c0 Hc0. rewrite Ec in Hc0. inversion Hc0; subst. exact P2.
      * intros o Ho. inversion Ho; subst. exact P2.
  - eexists. cbn [sfiles]. rewrite upd_same. split; [reflexivity|]. split; [exact P1|exact P3].
Qed.

(* writing the index entry, once the output is complete *)
Lemma cstep_write_idx : forall id d tm torn s, PS id d tm -> Jc s ->
  sfiles s (DatP (H d)) = Some d -> idx_exists id s ->
  let s' := fst (cstep (OWrite (IdxP id) 0 (entry id d tm)) torn s) in
  Gc s s' /\ snd (cstep (OWrite (IdxP id) 0 (entry id d tm)) torn s) = RWrote (length (entry id d tm)) /\
  idx_nonempty id s' /\ sfiles s' (DatP (H d)) = Some d.
Proof.
  intros id d tm torn s Hps Js Hd (c & Ec). cbn [cstep]. rewrite Ec. cbn [fst snd].
  assert (good_idx (sfiles s) id c) as Hgc by (destruct Js as (_ & _ & Hj3 & _); apply Hj3; exact Ec).
  assert (pwrite c 0 (entry id d tm) = entry id d tm) as Ew.
  { apply pwrite_all. rewrite (entry_length _ _ _ Hps).
    destruct Hgc as [->|(d1 & t1 & Hp1 & -> & _)]; [cbn; lia|rewrite (entry_length _ _ _ Hp1); lia]. }
  rewrite Ew.
  split; [|split; [reflexivity|split]].
  - split.
    + intros p c0 Hc0. cbn [sfiles]. destruct (path_eq_dec p (IdxP id)) as [->|N].
      * rewrite upd_same. eexists. split; [reflexivity|]. split; [intros _; apply entry_nonempty|].
        right. right. cbn [slast]. rewrite updl_same. congruence.
      * rewrite upd_other by exact N. exists c0. split; [exact Hc0|].
        split; [destruct p; [auto|apply prefix_refl]|]. left. cbn [slast]. apply updl_other. exact N.
    + intros _. apply (Jc_upd_idx s id _ (Some c) Js).
      * right. exists d, tm. auto.
      * intros o Ho. inversion Ho; subst. split; [exact Hgc|apply entry_nonempty].
  - eexists. cbn [sfiles]. rewrite upd_same. split; [reflexivity|apply entry_nonempty].
  - cbn [sfiles]. rewrite upd_other by discriminate. exact Hd.
Qed.

(* the truncation after the write: a no-op on a non-empty (hence entry-sized) index file *)
Lemma cstep_trunc_idx : forall id torn s, Jc s -> idx_nonempty id s ->
  let s' := fst (cstep (OTruncate (IdxP id) entry_size_n) torn s) in
  Gc s s' /\ snd (cstep (OTruncate (IdxP id) entry_size_n) torn s) = ROk.
Proof.
  intros id torn s Js (c & Ec & Hn). cbn [cstep step op_path]. rewrite Ec. cbn [fst snd].
  assert (good_idx (sfiles s) id c) as Hgc by (destruct Js as (_ & _ & Hj3 & _); apply Hj3; exact Ec).
  destruct Hgc as [->|(d1 & t1 & Hp1 & E1 & Hf1)]; [contradiction|].
  assert (ftruncate c entry_size_n = c) as Et.
  { unfold ftruncate. rewrite pad_to_le by (rewrite E1, (entry_length _ _ _ Hp1); lia).
    apply firstn_all2. rewrite E1, (entry_length _ _ _ Hp1). lia. }
  rewrite Et. split; [|reflexivity]. split.
  - intros p c0 Hc0. cbn [sfiles]. destruct (path_eq_dec p (IdxP id)) as [->|N].
    + rewrite upd_same. rewrite Ec in Hc0. inversion Hc0; subst. eexists. split; [reflexivity|].
      split; [auto|]. right. left. cbn [slast]. apply updl_same.
    + rewrite upd_other by exact N. exists c0. split; [exact Hc0|].
      split; [destruct p; [auto|apply prefix_refl]|]. left. cbn [slast]. apply updl_other. exact N.
  - intros _. apply (Jc_upd_idx s id c None Js).
    + right. exists d1, t1. auto.
    + intros o Ho. discriminate.
Qed.

(* ---- validity of programs *)
Notation validc := (valid Jc Gc).
Notation stablec := (stable Jc Gc).

Definition observing (o : op) : Prop :=
  match o with OStat _ | ORead _ _ _ | OReadAll _ | OClose _ | OChtimes _ | OOpen _ false false => True | _ => False end.

Lemma cstep_observing : forall o torn s, observing o -> Gc s (fst (cstep o torn s)).
Proof.
  intros o torn s Ho. destruct o as [p|p [|] [|]|p off n|p|p off b|p n|p|p|p]; cbn in Ho; try contradiction;
    try (apply cstep_observe; exact I). apply cstep_open_ro.
Qed.

(* an observing operation whose result is not used for anything the proof needs *)
Lemma valid_observe : forall A (P : sys -> Prop) (Q : A -> sys -> Prop) o k,
  observing o -> stablec P -> (forall r, validc P Q (k r)) -> validc P Q (Op o k).
Proof.
  intros A P Q o k Ho Hs Hk. apply (v_op _ _ _ _ _ _ (fun _ => P)); [exact Hs| |exact Hk].
  intros s torn Js Ps. pose proof (cstep_observing o torn s Ho) as Hg. split; [exact Hg|].
  eapply Hs; eassumption.
Qed.

Inductive readonly {A} : prog A -> Prop :=
| ro_ret : forall a, readonly (Ret a)
| ro_op : forall o k, observing o -> (forall r, readonly (k r)) -> readonly (Op o k).

Lemma valid_readonly : forall A (p : prog A), readonly p -> validc (fun _ => True) (fun _ _ => True) p.
Proof.
  intros A p Hr. induction Hr as [a|o k Ho _ IH].
  - apply v_ret; [apply true_stable|auto].
  - apply valid_observe; [exact Ho|apply true_stable|exact IH].
Qed.

Lemma readonly_bind : forall A B (p : prog A) (f : A -> prog B), readonly p -> (forall a, readonly (f a)) -> readonly (bind p f).
Proof. intros A B p f Hp Hf. induction Hp as [a|o k Ho _ IH]; cbn; [apply Hf|apply ro_op; assumption]. Qed.

Lemma readonly_read_full : forall A fuel p off need acc (k : bytes -> prog A),
  (forall b, readonly (k b)) -> readonly (read_full fuel p off need acc k).
Proof.
  intros A fuel. induction fuel as [|f IH]; intros p off need acc k Hk; cbn; [apply Hk|].
  destruct (Nat.eqb need 0); [apply Hk|]. apply ro_op; [exact I|].
  intros r. destruct r; try apply Hk. destruct (Nat.eqb (length b) 0); [apply Hk|apply IH; exact Hk].
Qed.

Lemma readonly_used : forall A p (k : prog A), readonly k -> readonly (used_prog p k).
Proof.
  intros A p k Hk. unfold used_prog. apply ro_op; [exact I|]. intros r.
  destruct r; try exact Hk; apply ro_op; try exact I; intros _; exact Hk.
Qed.

Lemma readonly_get : forall id, readonly (get_prog id).
Proof.
  intros id. unfold get_prog. apply ro_op; [exact I|]. intros r. destruct r; try apply ro_ret.
  apply readonly_read_full. intros e. destruct (parse_entry e id).
  - apply readonly_used. apply ro_op; [exact I|]. intros _. apply ro_ret.
  - apply ro_op; [exact I|]. intros _. apply ro_ret.
Qed.

Lemma readonly_get_file : forall id, readonly (get_file_prog id).
Proof.
  intros id. unfold get_file_prog. apply readonly_bind; [apply readonly_get|].
  intros [[[out size] tm]|]; [|apply ro_ret]. apply readonly_bind.
  - unfold output_file_prog. apply readonly_used. apply ro_ret.
  - intros file. apply ro_op; [exact I|]. intros r. destruct r; try apply ro_ret. destruct (Z.eqb _ _); apply ro_ret.
Qed.

Lemma readonly_get_bytes : forall id, readonly (get_bytes_prog H id).
Proof.
  intros id. unfold get_bytes_prog. apply readonly_bind; [apply readonly_get|].
  intros [[[out size] tm]|]; [|apply ro_ret]. apply readonly_bind.
  - unfold output_file_prog. apply readonly_used. apply ro_ret.
  - intros file. apply ro_op; [exact I|]. intros r. destruct (bytes_eqb _ _); apply ro_ret.
Qed.

Lemma valid_absurd : forall A (P : sys -> Prop) (Q : A -> sys -> Prop) p,
  stablec P -> (forall s, P s -> False) -> validc P Q p.
Proof.
  intros A P Q p Hs Hf. eapply valid_weaken; [apply (valid_false Jc Gc)|exact Hs|]. intros s _ Ps. exact (Hf s Ps).
Qed.

Ltac stab :=
  repeat first [ apply and_stable | apply pure_stable | apply true_stable
               | apply idx_exists_stable | apply idx_nonempty_stable
               | (apply complete_stable; assumption) | (apply at_least_stable; assumption) ].

Lemma valid_index : forall id d tm, PS id d tm ->
  validc (fun s => sfiles s (DatP (H d)) = Some d) (fun ok s => ok = true /\ idx_nonempty id s)
         (put_index_prog id (H d) (length d) tm).
Proof.
  intros id d tm Hps. destruct (PS_ok _ _ _ Hps) as (Ud & _).
  rewrite put_index_prog_eq; unfold put_index_body. rewrite open_index. fold (entry id d tm).
  set (e := entry id d tm). set (pi := IdxP id).
  apply (v_op _ _ _ _ _ _ (fun r s => r = ROk /\ sfiles s (DatP (H d)) = Some d /\ idx_exists id s)); [stab| |].
  { intros s torn Js Pc. destruct (cstep_open_idx id torn s Js) as (Hg & Hr & He).
    split; [exact Hg|]. split; [exact Hr|]. split; [exact (complete_stable d Ud _ _ Js Pc Hg)|exact He]. }
  intros r. destruct r; try (apply valid_absurd; [stab|intros s (E & _); discriminate]).
  apply (v_op _ _ _ _ _ _ (fun w s => w = RWrote (length e) /\ idx_nonempty id s)); [stab| |].
  { intros s torn Js (_ & Pc & Pe). destruct (cstep_write_idx id d tm torn s Hps Js Pc Pe) as (Hg & Hr & Hn & _).
    split; [exact Hg|]. split; [exact Hr|exact Hn]. }
  intros w. destruct w; try (apply valid_absurd; [stab|intros s (E & _); discriminate]).
  destruct (Nat.eqb n (length e)) eqn:En; cbn [wrote_all]; rewrite En;
    [|apply valid_absurd; [stab|intros s (E & _); inversion E; subst; rewrite Nat.eqb_refl in En; discriminate]].
  assert (length e = entry_size_n) as Le by (apply entry_length; exact Hps). rewrite Le.
  apply (v_op _ _ _ _ _ _ (fun t s => t = ROk /\ idx_nonempty id s)); [stab| |].
  { intros s torn Js (_ & Pn). destruct (cstep_trunc_idx id torn s Js Pn) as (Hg & Hr).
    split; [exact Hg|]. split; [exact Hr|]. exact (idx_nonempty_stable id _ _ Js Pn Hg). }
  intros t. destruct t; try (apply valid_absurd; [stab|intros s (E & _); discriminate]).
  cbn [is_err].
  apply (v_op _ _ _ _ _ _ (fun c s => c = ROk /\ idx_nonempty id s)); [stab| |].
  { intros s torn Js (_ & Pn). pose proof (cstep_observing (OClose pi) torn s I) as Hg.
    split; [exact Hg|]. split; [reflexivity|]. exact (idx_nonempty_stable id _ _ Js Pn Hg). }
  intros c. destruct c; try (apply valid_absurd; [stab|intros s (E & _); discriminate]).
  cbn [orb is_err].
  apply valid_observe; [exact I|stab|]. intros _.
  apply v_ret; [stab|]. intros s _ (_ & Pn). split; [reflexivity|exact Pn].
Qed.

Lemma at_least_full : forall d s, Jc s -> at_least d (length d) s -> sfiles s (DatP (H d)) = Some d.
Proof.
  intros d s _ (c & Ec & Hp & Hl). rewrite Ec. f_equal. apply prefix_full; [exact Hp|].
  apply prefix_length in Hp. lia.
Qed.

Lemma valid_write_chunks : forall A (Q : A -> sys -> Prop) d cs w (K : bool -> prog A),
  U d -> is_prefix (w ++ concat cs) d ->
  validc (at_least d (length (w ++ concat cs))) Q (K true) ->
  validc (at_least d (length w)) Q (write_chunks (DatP (H d)) cs (length w) K).
Proof.
  intros A Q d cs. induction cs as [|x r IH]; intros w K Ud Hpre Hk.
  - cbn [write_chunks]. cbn [concat] in Hk. rewrite app_nil_r in Hk. exact Hk.
  - cbn [write_chunks]. cbn [concat] in Hpre, Hk.
    assert (is_prefix w d) as Hw by (eapply prefix_trans; [|exact Hpre]; eexists; reflexivity).
    assert (firstn (length w) d = w) as Ew by (symmetry; apply prefix_firstn; exact Hw).
    apply (v_op _ _ _ _ _ _ (fun r s => r = RWrote (length x) /\ at_least d (length w + length x) s)); [stab| |].
    { intros s torn Js Pa.
      assert (is_prefix (firstn (length w) d ++ x) d) as Hx.
      { rewrite Ew. eapply prefix_trans; [|exact Hpre]. rewrite app_assoc. eexists; reflexivity. }
      destruct (cstep_write_dat d (length w) x torn s Ud Js Pa Hx) as (Hg & Hr & Ha). auto. }
    intros r0. destruct r0; try (apply valid_absurd; [stab|intros s (E & _); discriminate]).
    cbn [wrote_all]. destruct (Nat.eqb n (length x)) eqn:En;
      [|apply valid_absurd; [stab|intros s (E & _); inversion E; subst; rewrite Nat.eqb_refl in En; discriminate]].
    replace (length w + length x)%nat with (length (w ++ x)) by apply app_length.
    eapply valid_weaken; [apply (IH (w ++ x) K Ud)|stab|intros s _ (_ & Pa); exact Pa].
    + rewrite <- app_assoc. exact Hpre.
    + rewrite <- app_assoc. exact Hk.
Qed.

Definition copied (d : bytes) (ok : bool) (s : sys) : Prop := ok = true /\ sfiles s (DatP (H d)) = Some d.

Lemma valid_copy_rewrite : forall chunks,
  let d := concat chunks in U d ->
  validc (fun _ => True) (copied d) (copy_rewrite H (honest_reader chunks) (H d) (length d) false).
Proof.
  intros chunks d Ud. rewrite copy_rewrite_eq; unfold copy_rewrite_body. rewrite open_copy_small.
  set (pd := DatP (H d)).
  apply (v_op _ _ _ _ _ _ (fun r s => r = ROk /\ at_least d 0 s)); [stab| |].
  { intros s torn Js _. destruct (cstep_open_dat d torn s Ud Js) as (Hg & Hr & Ha). auto. }
  intros r. destruct r; try (apply valid_absurd; [stab|intros s (E & _); discriminate]).
  destruct (Nat.eqb (length d) 0) eqn:E0.
  - apply Nat.eqb_eq in E0. apply valid_observe; [exact I|stab|]. intros _.
    apply v_ret; [stab|]. intros s Js (_ & Pa). split; [reflexivity|].
    apply at_least_full; [exact Js|]. rewrite E0. exact Pa.
  - apply Nat.eqb_neq in E0. cbn [honest_reader rd_seek2 rd_pass2 negb]. fold d.
    destruct (firstn_pred_last d) as (b & Eb & Ed); [lia|].
    eapply valid_weaken; [|stab|intros s _ (_ & Pa); exact Pa].
    apply (valid_write_chunks _ _ d _ [] _ Ud).
    + cbn [app]. rewrite cut_chunks_concat. apply firstn_prefix.
    + cbn [app negb]. rewrite cut_chunks_concat. fold d.
      replace (Nat.ltb (length d) (length d - 1)) with false by (symmetry; apply Nat.ltb_ge; lia).
      rewrite Eb, Ed, bytes_eqb_refl. cbn [negb].
      assert (length (firstn (length d - 1) d) = length d - 1)%nat as Lw by (rewrite firstn_length; lia).
      apply (v_op _ _ _ _ _ _ (fun r s => r = RWrote 1 /\ sfiles s pd = Some d)); [stab| |].
      { intros s torn Js Pa. rewrite Lw in Pa.
        assert (is_prefix (firstn (length d - 1) d ++ [b]) d) as Hx by (rewrite Ed; apply prefix_refl).
        destruct (cstep_write_dat d (length d - 1) [b] torn s Ud Js Pa Hx) as (Hg & Hr & Ha).
        split; [exact Hg|]. split; [exact Hr|]. apply at_least_full; [eapply Gc_J; eassumption|].
        cbn [length] in Ha. replace (length d - 1 + 1)%nat with (length d) in Ha by lia. exact Ha. }
      intros r0. destruct r0; try (apply valid_absurd; [stab|intros s (E & _); discriminate]).
      cbn [wrote_all length]. destruct (Nat.eqb n 1) eqn:En;
        [|apply valid_absurd; [stab|intros s (E & _); inversion E; subst; discriminate]].
      apply (v_op _ _ _ _ _ _ (fun c s => c = ROk /\ sfiles s pd = Some d)); [stab| |].
      { intros s torn Js (_ & Pc). pose proof (cstep_observing (OClose pd) torn s I) as Hg.
        split; [exact Hg|]. split; [reflexivity|]. exact (complete_stable d Ud _ _ Js Pc Hg). }
      intros c. destruct c; try (apply valid_absurd; [stab|intros s (E & _); discriminate]).
      cbn [is_err].
      apply valid_observe; [exact I|stab|]. intros _.
      apply valid_observe; [exact I|stab|]. intros _.
      apply v_ret; [stab|]. intros s _ (_ & Pc). split; [reflexivity|exact Pc].
Qed.

Lemma impl_stable : forall (X : Prop) (P : sys -> Prop), stablec P -> stablec (fun s => X -> P s).
Proof. intros X P HP s s' Js Hx Hg x. eapply HP; [exact Js|apply Hx; exact x|exact Hg]. Qed.

(* what an observer may see of an output file: a prefix of what is there *)
Lemma view_dat : forall s d torn v, Jc s -> U d -> view s (DatP (H d)) torn = Some v ->
  exists c, sfiles s (DatP (H d)) = Some c /\ is_prefix v c /\ is_prefix c d.
Proof.
  intros s d torn v (Hi1 & Hj2 & _) Ud Hv. unfold view in Hv.
  destruct (sfiles s (DatP (H d))) as [c|] eqn:Ec; [|discriminate].
  destruct (Hi1 _ _ Ec) as (d0 & Ud0 & Hh & Hp). assert (d0 = d) by (apply H_inj; assumption). subst d0.
  exists c. split; [reflexivity|]. split; [|exact Hp].
  destruct torn as [j|]; [|inversion Hv; apply prefix_refl].
  destruct (slast s (DatP (H d))) as [o|] eqn:Eo; [|inversion Hv; apply prefix_refl].
  inversion Hv; subst. destruct (Hj2 _ _ Eo) as (c' & Ec' & Ho). rewrite Ec in Ec'. inversion Ec'; subst.
  apply (mix_prefix j c' o Ho).
Qed.

Lemma valid_copy_file : forall chunks,
  let d := concat chunks in U d ->
  validc (fun _ => True) (copied d) (copy_file_prog H (honest_reader chunks) (H d) (length d)).
Proof.
  intros chunks d Ud. unfold copy_file_prog. set (pd := DatP (H d)).
  pose proof (valid_copy_rewrite chunks Ud) as Hrw. fold d in Hrw.
  assert (forall P, stablec P -> validc P (copied d) (copy_rewrite H (honest_reader chunks) (H d) (length d) false)) as Hrw'.
  { intros P HP. eapply valid_weaken; [exact Hrw|exact HP|intros; exact I]. }
  apply (v_op _ _ _ _ _ _ (fun r s => match r with
                                       | RSize n => (n <= length d)%nat /\ (n = length d -> sfiles s pd = Some d)
                                       | _ => True end)); [stab| |].
  { intros s torn Js _. split; [apply (cstep_observing (OStat pd) torn s I)|].
    cbn [cstep fst snd]. destruct (sfiles s pd) as [c|] eqn:Ec; [|exact I].
    destruct Js as (Hi1 & _). destruct (Hi1 _ _ Ec) as (d0 & Ud0 & Hh & Hc).
    assert (d0 = d) by (apply H_inj; assumption). subst d0.
    pose proof (prefix_length _ _ Hc). split; [lia|].
    intros E. f_equal. apply prefix_full; [exact Hc|lia]. }
  intros r. destruct r; try (apply Hrw'; stab).
  destruct (Nat.eqb n (length d)) eqn:En.
  - apply Nat.eqb_eq in En. subst n.
    assert (stablec (fun s => (length d <= length d)%nat /\ (length d = length d -> sfiles s pd = Some d))) as Hst
      by (apply and_stable; [apply pure_stable|apply impl_stable; apply complete_stable; exact Ud]).
    apply (v_op _ _ _ _ _ _ (fun _ s => sfiles s pd = Some d)); [exact Hst| |].
    { intros s torn Js (_ & Pc). pose proof (cstep_open_ro pd torn s) as Hg. split; [exact Hg|].
      exact (complete_stable d Ud _ _ Js (Pc eq_refl) Hg). }
    intros r2. destruct r2; try (apply Hrw'; stab).
    apply valid_observe; [exact I|stab|]. intros r3.
    apply valid_observe; [exact I|stab|]. intros _.
    destruct (bytes_eqb _ _); [|apply Hrw'; stab].
    destruct copy_reuse_refreshes.
    + unfold used_prog. apply valid_observe; [exact I|stab|]. intros r4.
      destruct r4; try (apply valid_observe; [exact I|stab|]; intros _);
        (apply v_ret; [stab|]; intros s _ Pc; split; [reflexivity|exact Pc]).
    + apply v_ret; [stab|]. intros s _ Pc. split; [reflexivity|exact Pc].
  - apply Nat.eqb_neq in En. destruct (Nat.ltb (length d) n) eqn:El.
    + apply Nat.ltb_lt in El. apply valid_absurd; [|intros s (Hle & _); lia].
      apply and_stable; [apply pure_stable|apply impl_stable; apply complete_stable; exact Ud].
    + apply Hrw'. apply and_stable; [apply pure_stable|apply impl_stable; apply complete_stable; exact Ud].
Qed.

(* ---- the calls *)
Definition call_ok (c : call) : Prop :=
  match c with CPut id chunks tm => PS id (concat chunks) tm | CPutR _ _ _ => False | _ => True end.

(* a completed Put has succeeded, and from then on the index file of its id is never empty *)
Definition post (c : call) (r : cres) (s : sys) : Prop :=
  match c, r with
  | CPut id chunks tm, XPut pr => pr = PutOk (H (concat chunks)) (length (concat chunks)) /\ idx_nonempty id s
  | CPut _ _ _, _ => False
  | _, _ => True
  end.

Lemma post_stable : forall c r, stablec (post c r).
Proof.
  intros c r. destruct c, r; cbn [post]; stab.
Qed.

Lemma valid_bind_ret : forall A B (P : sys -> Prop) (Q : B -> sys -> Prop) (g : A -> B) (p : prog A),
  validc P (fun a s => Q (g a) s) p -> (forall b, stablec (Q b)) ->
  validc P Q (bind p (fun a => Ret (g a))).
Proof.
  intros A B P Q g p Hv Hst. eapply valid_bind; [exact Hv|].
  intros a. apply v_ret; [apply Hst|auto].
Qed.

Lemma call_valid : forall c, call_ok c -> validc (fun _ => True) (post c) (call_prog H c).
Proof.
  intros c Hok. destruct c as [id chunks tm|id rd tm|id|id|id]; cbn [call_prog]; [|destruct Hok| | |].
  - cbn [call_ok] in Hok. destruct (PS_ok _ _ _ Hok) as (Ud & _).
    apply valid_bind_ret; [|intros b; apply (post_stable (CPut id chunks tm) b)].
    rewrite put_prog_eq; unfold put_prog_body. cbn [honest_reader rd_seek1 rd_ok1 rd_pass1 negb orb].
    eapply valid_bind; [apply (valid_copy_file chunks Ud)|].
    intros ok. destruct ok.
    + eapply valid_weaken; [|unfold copied; stab|intros s _ (_ & Pc); exact Pc].
      eapply valid_bind; [apply (valid_index id (concat chunks) tm Hok)|].
      intros ok2. apply v_ret; [stab|]. intros s _ (-> & Pn). cbn [post]. auto.
    + apply valid_absurd; [unfold copied; stab|intros s (E & _); discriminate].
  - apply valid_bind_ret; [|intros b; apply (post_stable (CGet id) b)].
    eapply valid_weaken; [apply valid_readonly; apply readonly_get|stab|intros; exact I].
  - apply valid_bind_ret; [|intros b; apply (post_stable (CGetBytes id) b)].
    eapply valid_weaken; [apply valid_readonly; apply readonly_get_bytes|stab|intros; exact I].
  - apply valid_bind_ret; [|intros b; apply (post_stable (CGetFile id) b)].
    eapply valid_weaken; [apply valid_readonly; apply readonly_get_file|stab|intros; exact I].
Qed.

(* ---- lookups that are themselves interleaved with the writers, with torn views *)
(* every byte of e is, at its position, a byte of the entry of some Put of id *)
Definition pw (id e : bytes) : Prop :=
  forall i b, nth_error e i = Some b -> exists d tm, PS id d tm /\ nth_error (entry id d tm) i = Some b.

Lemma pw_nil : forall id, pw id [].
Proof. intros id i b Hn. destruct i; discriminate. Qed.

Lemma pw_good : forall fs id c, good_idx fs id c -> pw id c.
Proof. intros fs id c [->|(d & tm & Hps & -> & _)]; [apply pw_nil|]. intros i b Hn. exists d, tm. auto. Qed.

Lemma nth_error_firstn_some : forall (l : bytes) n k b, nth_error (firstn n l) k = Some b -> nth_error l k = Some b.
Proof.
  induction l as [|x l IH]; intros n k b Hn.
  - rewrite firstn_nil in Hn. destruct k; discriminate.
  - destruct n as [|n]; [destruct k; discriminate|]. destruct k as [|k]; cbn in *; [exact Hn|eapply IH; exact Hn].
Qed.

Lemma pw_mix : forall id j c o, pw id c -> pw id o -> (length o <= length c)%nat -> pw id (mix j c o).
Proof.
  intros id j c o Hc Ho Hl i b Hn. unfold mix in Hn.
  destruct (le_lt_dec (length c) j) as [L|L].
  - rewrite firstn_all2 in Hn by exact L. rewrite skipn_all2 in Hn by lia. rewrite app_nil_r in Hn. apply Hc. exact Hn.
  - assert (length (firstn j c) = j) as Lf by (rewrite firstn_length; lia).
    destruct (lt_dec i j) as [Li|Li].
    + rewrite nth_error_app1 in Hn by lia. apply Hc. eapply nth_error_firstn_some; exact Hn.
    + rewrite nth_error_app2 in Hn by lia. rewrite Lf, nth_error_skipn_add in Hn.
      replace (j + (i - j))%nat with i in Hn by lia. apply Ho. exact Hn.
Qed.

Lemma view_idx_pw : forall s id torn v, Jc s -> view s (IdxP id) torn = Some v -> pw id v.
Proof.
  intros s id torn v (_ & _ & Hj3 & Hj4 & Hj5) Hv. unfold view in Hv.
  destruct (sfiles s (IdxP id)) as [c|] eqn:Ec; [|discriminate].
  pose proof (Hj3 _ _ Ec) as Hgc.
  destruct torn as [j|]; [|inversion Hv; subst; eapply pw_good; exact Hgc].
  destruct (slast s (IdxP id)) as [o|] eqn:Eo; [|inversion Hv; subst; eapply pw_good; exact Hgc].
  inversion Hv; subst. pose proof (Hj4 _ _ Eo) as Hgo.
  destruct (Hj5 _ _ Eo) as (c' & Ec' & Hn). rewrite Ec in Ec'. inversion Ec'; subst c'.
  apply pw_mix; [eapply pw_good; exact Hgc|eapply pw_good; exact Hgo|].
  destruct Hgc as [->|(d & tm & Hps & -> & _)]; [contradiction|]. rewrite (entry_length _ _ _ Hps).
  destruct Hgo as [->|(d' & tm' & Hps' & -> & _)]; [cbn; lia|rewrite (entry_length _ _ _ Hps'); lia].
Qed.

Lemma pw_app_read : forall id acc v need, pw id acc -> pw id v ->
  pw id (acc ++ firstn need (skipn (length acc) v)).
Proof.
  intros id acc v need Ha Hv i b Hn. destruct (lt_dec i (length acc)) as [L|L].
  - rewrite nth_error_app1 in Hn by exact L. apply Ha. exact Hn.
  - rewrite nth_error_app2 in Hn by lia. apply nth_error_firstn_some in Hn. rewrite nth_error_skipn_add in Hn.
    replace (length acc + (i - length acc))%nat with i in Hn by lia. apply Hv. exact Hn.
Qed.

Lemma valid_read_full_pw : forall A (Q : A -> sys -> Prop) id fuel need acc (k : bytes -> prog A),
  (forall e, validc (fun _ => pw id e) Q (k e)) ->
  validc (fun _ => pw id acc) Q (read_full fuel (IdxP id) (length acc) need acc k).
Proof.
  intros A Q id fuel. induction fuel as [|f IH]; intros need acc k Hk; cbn [read_full]; [apply Hk|].
  destruct (Nat.eqb need 0); [apply Hk|].
  apply (v_op _ _ _ _ _ _ (fun r _ => match r with RBytes b => pw id (acc ++ b) | _ => pw id acc end)); [stab| |].
  { intros s torn Js Ha. split; [apply (cstep_observing (ORead (IdxP id) (length acc) need) torn s I)|].
    cbn [cstep fst snd]. destruct (view s (IdxP id) torn) as [v|] eqn:Ev; [|exact Ha].
    apply pw_app_read; [exact Ha|]. eapply view_idx_pw; eassumption. }
  intros r. destruct r as [| |n|b|n]; try apply Hk.
  destruct (Nat.eqb (length b) 0) eqn:Eb.
  - apply Nat.eqb_eq in Eb. destruct b; [|discriminate]. rewrite app_nil_r. apply Hk.
  - rewrite <- app_length. apply IH. exact Hk.
Qed.

Definition lookup_hyps : Prop :=
  no_hybrid H U /\ (forall d c, U d -> is_prefix c d -> H c = H d -> c = d) /\ U [].

(* the output named by an entry assembled, byte by byte, from entries of Puts of id *)
Definition pw_out (id out : bytes) : Prop := forall d0, U d0 -> H d0 = out -> exists tm, PS id d0 tm.

Lemma pw_parse_out : forall id e out size tm,
  no_hybrid H U -> pw id e -> parse_entry e id = Some (out, size, tm) -> pw_out id out.
Proof.
  intros id e out size tm Hnh Hpw Ep d0 Ud0 Hh.
  destruct (parse_entry_strict _ _ _ _ _ Ep) as (_ & hid & hout & ss & st & Es & Lh & Lo & _ & _ & Hi & Ho & _).
  assert (length id = hash_size_n) as Li.
  { apply hex_decode_length in Hi. pose proof hex_size_hash. lia. }
  subst out. apply (Hnh (fun d => exists t, PS id d t) hout d0 Ud0 Ho).
  intros k b Hn.
  assert (k < length hout)%nat as Lk by (apply nth_error_Some; congruence).
  assert (nth_error e (3 + hex_size_n + 1 + k) = Some b) as Hc.
  { rewrite Es. unfold entry_shape. rewrite nth_error_entry_out by assumption. exact Hn. }
  destruct (Hpw _ _ Hc) as (d & t & Hps & He).
  destruct (PS_ok _ _ _ Hps) as (Ud & _).
  exists d. split; [exact Ud|]. split; [exists t; exact Hps|].
  unfold entry in He. destruct (encode_entry_prefix id (H d) (Z.of_nat (length d)) t) as [X EX]. rewrite EX in He.
  rewrite nth_error_entry_out in He; [exact He| |].
  - rewrite hex_length, Li. symmetry; apply hex_size_hash.
  - rewrite hex_length, H_len. pose proof hex_size_hash. lia.
Qed.

Lemma valid_used_pure : forall A (X : Prop) (Q : A -> sys -> Prop) p (k : prog A),
  validc (fun _ => X) Q k -> validc (fun _ => X) Q (used_prog p k).
Proof.
  intros A X Q p k Hk. unfold used_prog. apply valid_observe; [exact I|stab|]. intros r.
  destruct r; try exact Hk; (apply valid_observe; [exact I|stab|]; intros _; exact Hk).
Qed.

Lemma valid_get_pw : forall id, no_hybrid H U ->
  validc (fun _ => True) (fun e _ => match e with Some (out, _, _) => pw_out id out | None => True end) (get_prog id).
Proof.
  intros id Hnh. unfold get_prog.
  apply valid_observe; [exact I|stab|]. intros r.
  destruct r; try (apply v_ret; [stab|auto]).
  eapply valid_weaken; [|stab|intros s _ _; apply (pw_nil id)].
  apply (valid_read_full_pw _ _ id _ _ []).
  intros e. destruct (parse_entry e id) as [[[out size] tm]|] eqn:Ep.
  - apply valid_used_pure. apply valid_observe; [exact I|stab|]. intros _.
    apply v_ret; [stab|]. intros s _ Hpw. eapply pw_parse_out; eassumption.
  - apply valid_observe; [exact I|stab|]. intros _. apply v_ret; [stab|auto].
Qed.

(* what an observer may see of any output file *)
Lemma view_dat_any : forall s out torn v, Jc s -> view s (DatP out) torn = Some v ->
  exists d0, U d0 /\ H d0 = out /\ is_prefix v d0.
Proof.
  intros s out torn v (Hi1 & Hj2 & _) Hv. unfold view in Hv.
  destruct (sfiles s (DatP out)) as [c|] eqn:Ec; [|discriminate].
  destruct (Hi1 _ _ Ec) as (d0 & Ud0 & Hh & Hp). exists d0. split; [exact Ud0|]. split; [exact Hh|].
  destruct torn as [j|]; [|inversion Hv; subst; exact Hp].
  destruct (slast s (DatP out)) as [o|] eqn:Eo; [|inversion Hv; subst; exact Hp].
  inversion Hv; subst. destruct (Hj2 _ _ Eo) as (c' & Ec' & Ho). rewrite Ec in Ec'. inversion Ec'; subst.
  eapply prefix_trans; [apply (mix_prefix j c' o Ho)|exact Hp].
Qed.

Definition bytes_post (id : bytes) (l : lookup bytes) : Prop :=
  match l with Found d out _ _ => out = H d /\ exists tm, PS id d tm | NotFound => True end.

Lemma valid_get_bytes_strong : forall id, lookup_hyps ->
  validc (fun _ => True) (fun l _ => bytes_post id l) (get_bytes_prog H id).
Proof.
  intros id (Hnh & Hpc & Unil). unfold get_bytes_prog.
  eapply valid_bind; [apply (valid_get_pw id Hnh)|].
  intros [[[out size] tm]|]; [|apply v_ret; [stab|intros; exact I]].
  unfold output_file_prog. cbn [bind].
  assert (forall A (X : Prop) (Q : A -> sys -> Prop) p (k : path -> prog A) (f : path),
            validc (fun _ => X) Q (k f) -> validc (fun _ => X) Q (bind (used_prog p (Ret f)) k)) as Hub.
  { intros A X Q p k f Hk. unfold used_prog. cbn [bind]. apply valid_observe; [exact I|stab|]. intros r.
    destruct r; cbn [bind]; try exact Hk; (apply valid_observe; [exact I|stab|]; intros _; exact Hk). }
  apply Hub.
  apply (v_op _ _ _ _ _ _ (fun r _ => pw_out id out /\
            match r with RBytes v => exists d0, U d0 /\ H d0 = out /\ is_prefix v d0 | _ => True end)); [stab| |].
  { intros s torn Js Hpo. split; [apply (cstep_observing (OReadAll (DatP out)) torn s I)|]. split; [exact Hpo|].
    cbn [cstep fst snd]. destruct (view s (DatP out) torn) as [v|] eqn:Ev; [|exact I].
    eapply view_dat_any; eassumption. }
  intros r. cbv zeta.
  match goal with |- context [bytes_eqb ?a ?b] => destruct (bytes_eqb a b) eqn:Eh end;
    [|apply v_ret; [destruct r; stab|intros; exact I]].
  apply bytes_eqb_eq in Eh.
  apply v_ret; [destruct r; stab|]. intros s _ (Hpo & Hr). cbn [bytes_post].
  destruct r as [| |n|v|n]; try (split; [symmetry; exact Eh|apply Hpo; [exact Unil|exact Eh]]).
  destruct Hr as (d0 & Ud0 & Hh & Hp). assert (v = d0) by (apply (Hpc d0 v Ud0 Hp); congruence). subst v.
  split; [symmetry; exact Eh|apply Hpo; assumption].
Qed.

(* the stronger post-condition of the calls *)
Definition post2 (c : call) (r : cres) (s : sys) : Prop :=
  post c r s /\ match c, r with CGetBytes id, XBytes l => bytes_post id l | _, _ => True end.

Lemma post2_stable : forall c r, stablec (post2 c r).
Proof.
  intros c r. apply and_stable; [apply post_stable|]. destruct c, r; stab.
Qed.

Lemma valid_post_weaken : forall A (P : sys -> Prop) (Q Q' : A -> sys -> Prop) p,
  validc P Q p -> (forall a s, Q a s -> Q' a s) -> validc P Q' p.
Proof.
  intros A P Q Q' p Hv Hq. induction Hv as [P Q0 a Hs Hr|P Q0 o k R Hs Hstep Hk IH].
  - apply v_ret; [exact Hs|]. intros s Js Ps. apply Hq. apply Hr; assumption.
  - apply (v_op _ _ _ _ _ _ R); [exact Hs|exact Hstep|]. intros r. apply IH. exact Hq.
Qed.

Lemma call_valid2 : lookup_hyps -> forall c, call_ok c -> validc (fun _ => True) (post2 c) (call_prog H c).
Proof.
  intros Hl c Hok. destruct c as [id chunks tm|id rd tm|id|id|id];
    try (eapply valid_post_weaken; [apply (call_valid _ Hok)|intros a s Hp; split; [exact Hp|destruct a; exact I]]).
  cbn [call_prog]. apply valid_bind_ret; [|intros b; apply (post2_stable (CGetBytes id) b)].
  eapply valid_post_weaken; [apply (valid_get_bytes_strong id Hl)|].
  intros l s Hb. split; [exact I|exact Hb].
Qed.

Lemma Forall2_nth : forall A B (R : A -> B -> Prop) l1 l2 k a b,
  Forall2 R l1 l2 -> nth_error l1 k = Some a -> nth_error l2 k = Some b -> R a b.
Proof.
  intros A B R l1 l2 k a b Hf. revert k. induction Hf as [|x y l1 l2 Hxy Hf IH]; intros k Ha Hb.
  - destruct k; discriminate.
  - destruct k as [|k]; cbn in *; [inversion Ha; inversion Hb; subst; exact Hxy|eapply IH; eassumption].
Qed.

Lemma Forall2_len : forall A B (R : A -> B -> Prop) l1 l2, Forall2 R l1 l2 -> length l1 = length l2.
Proof. intros A B R l1 l2 Hf. induction Hf; cbn; congruence. Qed.

(* ---- GetFile interleaved with the writers: the same byte-wise argument, keeping track of the
   fact that the outputs of the entries seen are complete *)
Definition pwc (id e : bytes) (s : sys) : Prop :=
  forall i b, nth_error e i = Some b ->
    exists d tm, PS id d tm /\ sfiles s (DatP (H d)) = Some d /\ nth_error (entry id d tm) i = Some b.

Lemma pwc_stable : forall id e, stablec (pwc id e).
Proof.
  intros id e s s' Js Hp Hg i b Hn. destruct (Hp i b Hn) as (d & tm & Hps & Hf & He).
  exists d, tm. split; [exact Hps|]. split; [|exact He].
  destruct (PS_ok _ _ _ Hps) as (Ud & _). exact (complete_stable d Ud s s' Js Hf Hg).
Qed.

Lemma pwc_nil : forall id s, pwc id [] s.
Proof. intros id s i b Hn. destruct i; discriminate. Qed.

Lemma pwc_good : forall s id c, good_idx (sfiles s) id c -> pwc id c s.
Proof. intros s id c [->|(d & tm & Hps & -> & Hf)]; [apply pwc_nil|]. intros i b Hn. exists d, tm. auto. Qed.

Lemma pwc_mix : forall id j c o s, pwc id c s -> pwc id o s -> (length o <= length c)%nat -> pwc id (mix j c o) s.
Proof.
  intros id j c o s Hc Ho Hl i b Hn. unfold mix in Hn.
  destruct (le_lt_dec (length c) j) as [L|L].
  - rewrite firstn_all2 in Hn by exact L. rewrite skipn_all2 in Hn by lia. rewrite app_nil_r in Hn. apply Hc. exact Hn.
  - assert (length (firstn j c) = j) as Lf by (rewrite firstn_length; lia).
    destruct (lt_dec i j) as [Li|Li].
    + rewrite nth_error_app1 in Hn by lia. apply Hc. eapply nth_error_firstn_some; exact Hn.
    + rewrite nth_error_app2 in Hn by lia. rewrite Lf, nth_error_skipn_add in Hn.
      replace (j + (i - j))%nat with i in Hn by lia. apply Ho. exact Hn.
Qed.

Lemma view_idx_pwc : forall s id torn v, Jc s -> view s (IdxP id) torn = Some v -> pwc id v s.
Proof.
  intros s id torn v (_ & _ & Hj3 & Hj4 & Hj5) Hv. unfold view in Hv.
  destruct (sfiles s (IdxP id)) as [c|] eqn:Ec; [|discriminate].
  pose proof (Hj3 _ _ Ec) as Hgc.
  destruct torn as [j|]; [|inversion Hv; subst; apply pwc_good; exact Hgc].
  destruct (slast s (IdxP id)) as [o|] eqn:Eo; [|inversion Hv; subst; apply pwc_good; exact Hgc].
  inversion Hv; subst. pose proof (Hj4 _ _ Eo) as Hgo.
  destruct (Hj5 _ _ Eo) as (c' & Ec' & Hn). rewrite Ec in Ec'. inversion Ec'; subst c'.
  apply pwc_mix; [apply pwc_good; exact Hgc|apply pwc_good; exact Hgo|].
  destruct Hgc as [->|(d & tm & Hps & -> & _)]; [contradiction|]. rewrite (entry_length _ _ _ Hps).
  destruct Hgo as [->|(d' & tm' & Hps' & -> & _)]; [cbn; lia|rewrite (entry_length _ _ _ Hps'); lia].
Qed.

Lemma pwc_app_read : forall id acc v need s, pwc id acc s -> pwc id v s ->
  pwc id (acc ++ firstn need (skipn (length acc) v)) s.
Proof.
  intros id acc v need s Ha Hv i b Hn. destruct (lt_dec i (length acc)) as [L|L].
  - rewrite nth_error_app1 in Hn by exact L. apply Ha. exact Hn.
  - rewrite nth_error_app2 in Hn by lia. apply nth_error_firstn_some in Hn. rewrite nth_error_skipn_add in Hn.
    replace (length acc + (i - length acc))%nat with i in Hn by lia. apply Hv. exact Hn.
Qed.

Lemma valid_read_full_pwc : forall A (Q : A -> sys -> Prop) id fuel need acc (k : bytes -> prog A),
  (forall e, validc (pwc id e) Q (k e)) ->
  validc (pwc id acc) Q (read_full fuel (IdxP id) (length acc) need acc k).
Proof.
  intros A Q id fuel. induction fuel as [|f IH]; intros need acc k Hk; cbn [read_full]; [apply Hk|].
  destruct (Nat.eqb need 0); [apply Hk|].
  apply (v_op _ _ _ _ _ _ (fun r => match r with RBytes b => pwc id (acc ++ b) | _ => pwc id acc end)); [apply pwc_stable| |].
  { intros s torn Js Ha. pose proof (cstep_observing (ORead (IdxP id) (length acc) need) torn s I) as Hg.
    split; [exact Hg|]. cbn [cstep fst snd]. destruct (view s (IdxP id) torn) as [v|] eqn:Ev; [|exact Ha].
    apply pwc_app_read; [exact Ha|]. eapply view_idx_pwc; eassumption. }
  intros r. destruct r as [| |n|b|n]; try apply Hk.
  destruct (Nat.eqb (length b) 0) eqn:Eb.
  - apply Nat.eqb_eq in Eb. destruct b; [|discriminate]. rewrite app_nil_r. apply Hk.
  - rewrite <- app_length. apply IH. exact Hk.
Qed.

(* what is known of the output an assembled entry names: if it is the hash of a content of U,
   that content was stored for this id by a Put and its file is complete *)
Definition out_ok (id out : bytes) (s : sys) : Prop :=
  forall d0, U d0 -> H d0 = out -> (exists tm, PS id d0 tm) /\ sfiles s (DatP out) = Some d0.

Lemma out_ok_stable : forall id out, stablec (out_ok id out).
Proof.
  intros id out s s' Js Ho Hg d0 Ud0 Hh. destruct (Ho d0 Ud0 Hh) as [Hp Hf]. split; [exact Hp|].
  subst out. exact (complete_stable d0 Ud0 s s' Js Hf Hg).
Qed.

Lemma pwc_parse_out : forall id e out size tm s,
  no_hybrid H U -> pwc id e s -> parse_entry e id = Some (out, size, tm) -> out_ok id out s.
Proof.
  intros id e out size tm s Hnh Hpw Ep d0 Ud0 Hh.
  destruct (parse_entry_strict _ _ _ _ _ Ep) as (_ & hid & hout & ss & st & Es & Lh & Lo & _ & _ & Hi & Ho & _).
  assert (length id = hash_size_n) as Li.
  { apply hex_decode_length in Hi. pose proof hex_size_hash. lia. }
  subst out.
  apply (Hnh (fun d => (exists t, PS id d t) /\ sfiles s (DatP (H d)) = Some d) hout d0 Ud0 Ho).
  intros k b Hn.
  assert (k < length hout)%nat as Lk by (apply nth_error_Some; congruence).
  assert (nth_error e (3 + hex_size_n + 1 + k) = Some b) as Hc.
  { rewrite Es. unfold entry_shape. rewrite nth_error_entry_out by assumption. exact Hn. }
  destruct (Hpw _ _ Hc) as (d & t & Hps & Hf & He).
  destruct (PS_ok _ _ _ Hps) as (Ud & _).
  exists d. split; [exact Ud|]. split; [split; [exists t; exact Hps|exact Hf]|].
  unfold entry in He. destruct (encode_entry_prefix id (H d) (Z.of_nat (length d)) t) as [X EX]. rewrite EX in He.
  rewrite nth_error_entry_out in He; [exact He| |].
  - rewrite hex_length, Li. symmetry; apply hex_size_hash.
  - rewrite hex_length, H_len. pose proof hex_size_hash. lia.
Qed.

Lemma valid_used_st : forall A (P : sys -> Prop) (Q : A -> sys -> Prop) p (k : prog A),
  stablec P -> validc P Q k -> validc P Q (used_prog p k).
Proof.
  intros A P Q p k St Hk. unfold used_prog. apply valid_observe; [exact I|exact St|]. intros r.
  destruct r; try exact Hk; (apply valid_observe; [exact I|exact St|]; intros _; exact Hk).
Qed.

Lemma valid_get_pwc : forall id, no_hybrid H U ->
  validc (fun _ => True) (fun e s => match e with Some (out, _, _) => out_ok id out s | None => True end) (get_prog id).
Proof.
  intros id Hnh. unfold get_prog.
  apply valid_observe; [exact I|stab|]. intros r.
  destruct r; try (apply v_ret; [stab|auto]).
  eapply valid_weaken; [|stab|intros s _ _; apply (pwc_nil id s)].
  apply (valid_read_full_pwc _ _ id _ _ []).
  intros e. destruct (parse_entry e id) as [[[out size] tm]|] eqn:Ep.
  - apply valid_used_st; [apply pwc_stable|]. apply valid_observe; [exact I|apply pwc_stable|]. intros _.
    apply v_ret; [apply pwc_stable|]. intros s _ Hpw. eapply pwc_parse_out; eassumption.
  - apply valid_observe; [exact I|apply pwc_stable|]. intros _. apply v_ret; [apply pwc_stable|auto].
Qed.

(* what GetFile guarantees under concurrency: the named file holds exactly a content that a Put
   stored for that very id, whose hash is the reported OutputID and whose length the reported size *)
Definition file_post (id : bytes) (l : lookup path) (s : sys) : Prop :=
  match l with
  | Found p out size _ =>
      exists d, (exists tm, PS id d tm) /\ out = H d /\ p = DatP (H d) /\ size = Z.of_nat (length d) /\ sfiles s p = Some d
  | NotFound => True
  end.

Lemma file_post_stable : forall id l, stablec (file_post id l).
Proof.
  intros id l. destruct l as [|p out size tm]; [stab|].
  intros s s' Js (d & (t & Hps) & -> & -> & -> & Hf) Hg. exists d. repeat split; eauto.
  destruct (PS_ok _ _ _ Hps) as (Ud & _). exact (complete_stable d Ud s s' Js Hf Hg).
Qed.

Lemma valid_get_file_strong : forall id, no_hybrid H U ->
  validc (fun _ => True) (file_post id) (get_file_prog id).
Proof.
  intros id Hnh. unfold get_file_prog.
  eapply valid_bind; [apply (valid_get_pwc id Hnh)|].
  intros [[[out size] tm]|]; [|apply v_ret; [stab|intros; exact I]].
  unfold output_file_prog, used_prog. cbn [bind].
  assert (validc (out_ok id out) (file_post id)
            (Op (OStat (DatP out)) (fun r =>
               match r with
               | RSize n => if Z.eqb (Z.of_nat n) size then Ret (Found (DatP out) out size tm) else Ret NotFound
               | _ => Ret NotFound end))) as Hstat.
  { apply (v_op _ _ _ _ _ _ (fun r s => match r with
                                         | RSize n => exists d, (exists t, PS id d t) /\ out = H d /\ n = length d /\ sfiles s (DatP out) = Some d
                                         | _ => True end)); [apply out_ok_stable| |].
    - intros s torn Js Ho. split; [apply (cstep_observing (OStat (DatP out)) torn s I)|].
      cbn [cstep fst snd]. destruct (sfiles s (DatP out)) as [c|] eqn:Ec; [|exact I].
      pose proof Js as (Hi1 & _). destruct (Hi1 _ _ Ec) as (d0 & Ud0 & Hh & Hp).
      destruct (Ho d0 Ud0 Hh) as [Hps Hf]. rewrite Ec in Hf. inversion Hf; subst c.
      exists d0. auto.
    - intros r. destruct r as [| |n|b|n]; try (apply v_ret; [stab|intros; exact I]).
      assert (stablec (fun s => exists d, (exists t, PS id d t) /\ out = H d /\ n = length d /\ sfiles s (DatP out) = Some d)) as St.
      { intros s s' Js (d & (t & Hps) & -> & -> & Hf) Hg. exists d. repeat split; eauto.
        destruct (PS_ok _ _ _ Hps) as (Ud & _). exact (complete_stable d Ud s s' Js Hf Hg). }
      destruct (Z.eqb (Z.of_nat n) size) eqn:En; [|apply v_ret; [exact St|intros; exact I]].
      apply Z.eqb_eq in En. apply v_ret; [exact St|].
      intros s _ (d & Hps & -> & -> & Hf). cbn [file_post]. exists d. repeat split; auto. }
  apply valid_observe; [exact I|apply out_ok_stable|]. intros r.
  destruct r; cbn [bind]; try exact Hstat; (apply valid_observe; [exact I|apply out_ok_stable|]; intros _; exact Hstat).
Qed.

Definition post3 (c : call) (r : cres) (s : sys) : Prop :=
  post c r s /\ match c, r with CGetFile id, XFile l => file_post id l s | _, _ => True end.

Lemma post3_stable : forall c r, stablec (post3 c r).
Proof.
  intros c r. apply and_stable; [apply post_stable|]. destruct c, r; try stab. apply file_post_stable.
Qed.

Lemma call_valid3 : no_hybrid H U -> forall c, call_ok c -> validc (fun _ => True) (post3 c) (call_prog H c).
Proof.
  intros Hnh c Hok. destruct c as [id chunks tm|id rd tm|id|id|id];
    try (eapply valid_post_weaken; [apply (call_valid _ Hok)|intros a s Hp; split; [exact Hp|destruct a; exact I]]).
  cbn [call_prog]. apply valid_bind_ret; [|intros b; apply (post3_stable (CGetFile id) b)].
  eapply valid_post_weaken; [apply (valid_get_file_strong id Hnh)|].
  intros l s Hb. split; [exact I|exact Hb].
Qed.

(* get_file_conc: a GetFile interleaved operation by operation with any writers, its entry reads
   possibly torn, names only a file that holds exactly a content some Put stored for that very
   id, with the reported OutputID its hash and the reported size its length -- and that file
   keeps holding it in every later state *)
Theorem get_file_conc : no_hybrid H U ->
  forall callss fs0 sched,
  Jc (init_sys fs0) -> Forall (Forall call_ok) callss ->
  forall i calls cl k id l,
  nth_error callss i = Some calls ->
  nth_error (fst (run_conc H sched (map (start H) callss, init_sys fs0))) i = Some cl ->
  nth_error calls k = Some (CGetFile id) -> nth_error (results cl) k = Some (XFile l) ->
  file_post id l (snd (run_conc H sched (map (start H) callss, init_sys fs0))).
Proof.
  intros Hnh callss fs0 sched J0 Hok i calls cl k id l Ecalls Ecl Ecall Eres.
  assert (sinv Jc Gc post3 call_ok callss (run_conc H sched (map (start H) callss, init_sys fs0))) as [_ Hall].
  { apply (run_conc_sound Jc Gc Gc_refl Gc_J H post3 post3_stable call_ok (call_valid3 Hnh)).
    apply (sinv_init Jc Gc H post3 call_ok (call_valid3 Hnh)); assumption. }
  pose proof (Forall2_nth _ _ _ _ _ _ _ _ Hall Ecalls Ecl) as (_ & done & Hres & Hcur).
  assert (nth_error done k = Some (CGetFile id)) as Edone.
  { assert (k < length done)%nat as Lk.
    { rewrite (Forall2_len _ _ _ _ _ Hres). apply nth_error_Some. congruence. }
    destruct (cur cl) as [p|].
    - destruct Hcur as (c & P & Ec & _). rewrite Ec in Ecall. rewrite nth_error_app1 in Ecall by exact Lk. exact Ecall.
    - destruct Hcur as [Ec _]. rewrite <- Ec. exact Ecall. }
  pose proof (Forall2_nth _ _ _ _ _ _ _ _ Hres Edone Eres) as [_ Hb]. exact Hb.
Qed.

(* ---- re-storing: an id whose Puts all carry the same content, stored before the clients start *)
Section Restore.
Variable rid d0 : bytes.
Hypothesis Hsingle : forall d tm, PS rid d tm -> d = d0 /\ (10 ^ 18 <= tm < 2 * 10 ^ 18)%Z.

(* the entry is in place (and was, before the most recent write), the output is complete (and was) *)
Definition rest (s : sys) : Prop :=
  (exists c, sfiles s (IdxP rid) = Some c /\ c <> []) /\
  (forall o, slast s (IdxP rid) = Some o -> o <> []) /\
  sfiles s (DatP (H d0)) = Some d0 /\
  (slast s (DatP (H d0)) = None \/ slast s (DatP (H d0)) = Some d0).

Hypothesis Ud0 : U d0.

Lemma rest_stable : stablec rest.
Proof.
  intros s s' Js ((c & Ec & Hn) & Ho & Hd & Hl) Hg. pose proof Hg as [Hgr Hj].
  destruct (Hgr _ _ Ec) as (c' & Ec' & Hp & Hr). destruct (Hgr _ _ Hd) as (x & Ex & _ & Hrd).
  pose proof (complete_stable d0 Ud0 s s' Js Hd Hg) as Hd'.
  split; [exists c'; split; [exact Ec'|apply Hp; exact Hn]|]. split; [|split; [exact Hd'|]].
  - intros o Eo. destruct Hr as [E|[E|E]]; rewrite E in Eo; [apply Ho; exact Eo|discriminate|inversion Eo; subst; exact Hn].
  - destruct Hrd as [E|[E|E]]; rewrite E; auto.
Qed.

Definition Jr (s : sys) : Prop := Jc s /\ rest s.

Lemma Gc_Jr : forall s s', Jr s -> Gc s s' -> Jr s'.
Proof. intros s s' [Js Hr] Hg. split; [eapply Gc_J; eassumption|eapply rest_stable; eassumption]. Qed.

Notation validr := (valid Jr Gc).

Lemma stable_r : forall P, stablec P -> stable Jr Gc P.
Proof. intros P HP s s' [Js _] Ps Hg. eapply HP; eassumption. Qed.

Definition good_view (v : bytes) : Prop :=
  length v = entry_size_n /\ exists t', parse_entry v rid = Some (H d0, Z.of_nat (length d0), t').

Lemma entry_single : forall fs c, good_idx fs rid c -> c <> [] ->
  exists tm, PS rid d0 tm /\ c = entry rid d0 tm.
Proof.
  intros fs c [->|(d & tm & Hps & -> & _)] Hn; [contradiction|].
  destruct (Hsingle _ _ Hps) as [-> _]. exists tm. auto.
Qed.

Lemma mix_good : forall j t1 t0, PS rid d0 t1 -> PS rid d0 t0 -> good_view (mix j (entry rid d0 t1) (entry rid d0 t0)).
Proof.
  intros j t1 t0 H1 H0. destruct (PS_ok _ _ _ H1) as (_ & Li & _ & Hs).
  destruct (Hsingle _ _ H1) as [_ R1]. destruct (Hsingle _ _ H0) as [_ R0].
  split.
  - unfold mix. rewrite app_length, firstn_length, skipn_length, (entry_length _ _ _ H1), (entry_length _ _ _ H0). lia.
  - destruct (mix_entries_parse rid (H d0) (Z.of_nat (length d0)) t1 t0 j Li (H_len d0)) as (t' & _ & Hp); try assumption.
    + split; [apply Nat2Z.is_nonneg|exact Hs].
    + exists t'. exact Hp.
Qed.

Lemma view_idx_rest : forall s torn v, Jr s -> view s (IdxP rid) torn = Some v -> good_view v.
Proof.
  intros s torn v [(_ & _ & Hj3 & Hj4 & _) ((c & Ec & Hn) & Ho & _)] Hv. unfold view in Hv. rewrite Ec in Hv.
  destruct (entry_single _ c (Hj3 _ _ Ec) Hn) as (t1 & P1 & ->).
  assert (good_view (entry rid d0 t1)) as Hplain.
  { pose proof (mix_good (length (entry rid d0 t1)) t1 t1 P1 P1) as Hm. unfold mix in Hm. rewrite firstn_skipn in Hm. exact Hm. }
  destruct torn as [j|]; [|inversion Hv; subst; exact Hplain].
  destruct (slast s (IdxP rid)) as [o|] eqn:Eo; [|inversion Hv; subst; exact Hplain].
  inversion Hv; subst. destruct (entry_single _ o (Hj4 _ _ Eo) (Ho _ eq_refl)) as (t0 & P0 & ->).
  apply mix_good; assumption.
Qed.

Lemma view_dat_rest : forall s torn v, Jr s -> view s (DatP (H d0)) torn = Some v -> v = d0.
Proof.
  intros s torn v [_ (_ & _ & Hd & Hl)] Hv. unfold view in Hv. rewrite Hd in Hv.
  destruct torn as [j|]; [|inversion Hv; reflexivity].
  destruct Hl as [E|E]; rewrite E in Hv; inversion Hv; [reflexivity|]. unfold mix. apply firstn_skipn.
Qed.

(* Get of the re-stored id: always an entry for d0 *)
Lemma valid_get_rest :
  validr (fun _ => True) (fun e _ => exists t', e = Some (H d0, Z.of_nat (length d0), t')) (get_prog rid).
Proof.
  unfold get_prog. set (p := IdxP rid).
  assert (stable Jr Gc (fun _ : sys => True)) as St by (apply stable_r; apply true_stable).
  apply (v_op _ _ _ _ _ _ (fun r _ => r = ROk)); [exact St| |].
  { intros s torn [Js Hr] _. split; [apply cstep_open_ro|]. rewrite cstep_open_ro_res.
    destruct Hr as ((c & Ec & _) & _). unfold p. rewrite Ec. reflexivity. }
  intros r. destruct r; try (eapply valid_weaken; [apply valid_false|apply stable_r; stab|intros s _ E; discriminate]).
  assert (Nat.eqb entry_size_n 0 = false) as En0 by reflexivity.
  cbn [read_full]. cbn [Nat.eqb].
  apply (v_op _ _ _ _ _ _ (fun r _ => exists v, r = RBytes v /\ good_view v)); [apply stable_r; stab| |].
  { intros s torn Js _. split; [apply (cstep_observing (ORead p 0 (S entry_size_n)) torn s I)|].
    cbn [cstep fst snd]. destruct Js as [Jcs Hr]. pose proof Hr as ((c & Ec & _) & _).
    destruct (view s p torn) as [v|] eqn:Ev; [|unfold view in Ev; unfold p in Ev; rewrite Ec in Ev; destruct torn; [destruct (slast s (IdxP rid))|]; discriminate].
    pose proof (view_idx_rest s torn v (conj Jcs Hr) Ev) as Hg. exists v. split; [|exact Hg].
    cbn [skipn]. f_equal. apply firstn_all2. destruct Hg as [L _]. lia. }
  intros r. destruct r as [| |n|v|n];
    try (eapply valid_weaken; [apply valid_false|apply stable_r; stab|intros s _ (v & E & _); discriminate]).
  destruct (Nat.eqb (length v) 0) eqn:Ev0.
  { eapply valid_weaken; [apply valid_false|apply stable_r; stab|].
    intros s _ (v' & E & (L & _)). inversion E; subst v'. apply Nat.eqb_eq in Ev0. rewrite L in Ev0. discriminate. }
  (* second Read: nothing more *)
  destruct (Nat.eqb (S entry_size_n - length v) 0) eqn:Eneed.
  { eapply valid_weaken; [apply valid_false|apply stable_r; stab|].
    intros s _ (v' & E & (L & _)). inversion E; subst v'. rewrite L in Eneed.
    replace (S entry_size_n - entry_size_n)%nat with 1%nat in Eneed by lia. discriminate. }
  apply (v_op _ _ _ _ _ _ (fun r2 _ => good_view v /\ r2 = RBytes [])); [apply stable_r; stab| |].
  { intros s torn Js (v' & E & Hg). inversion E; subst v'.
    split; [apply (cstep_observing (ORead p (0 + length v) (S entry_size_n - length v)) torn s I)|]. split; [exact Hg|].
    cbn [cstep fst snd]. destruct Js as [Jcs Hr]. pose proof Hr as ((c & Ec & _) & _).
    destruct (view s p torn) as [v2|] eqn:Ev2; [|unfold view in Ev2; unfold p in Ev2; rewrite Ec in Ev2; destruct torn; [destruct (slast s (IdxP rid))|]; discriminate].
    destruct (view_idx_rest s torn v2 (conj Jcs Hr) Ev2) as [L2 _]. destruct Hg as [L _].
    rewrite skipn_all2 by lia. rewrite firstn_nil. reflexivity. }
  intros r2. destruct r2 as [| |n|b|n];
    try (eapply valid_weaken; [apply valid_false|apply stable_r; stab|intros s _ (_ & E); discriminate]).
  destruct b as [|x b]; [|eapply valid_weaken; [apply valid_false|apply stable_r; stab|intros s _ (_ & E); discriminate]].
  cbn [length Nat.eqb app].
  destruct (parse_entry v rid) as [[[out size] tm]|] eqn:Ep.
  - unfold used_prog.
    apply (valid_strengthen Jc Jr Gc); [intros s [Js _]; exact Js|].
    apply valid_observe; [exact I|stab|]. intros r3.
    assert (validc (fun _ : sys => good_view v /\ RBytes [] = RBytes [])
              (fun e _ => exists t', e = Some (H d0, Z.of_nat (length d0), t'))
              (Op (OClose p) (fun _ => Ret (Some (out, size, tm))))) as Hfin.
    { apply valid_observe; [exact I|stab|]. intros _. apply v_ret; [stab|].
      intros s _ ((_ & t' & Hp) & _). rewrite Ep in Hp. inversion Hp; subst. exists t'. reflexivity. }
    destruct r3; try exact Hfin; (apply valid_observe; [exact I|stab|]; intros _; exact Hfin).
  - eapply valid_weaken; [apply valid_false|apply stable_r; stab|].
    intros s _ ((_ & t' & Hp) & _). rewrite Ep in Hp. discriminate.
Qed.

Lemma valid_absurd_r : forall A (P : sys -> Prop) (Q : A -> sys -> Prop) p,
  stable Jr Gc P -> (forall s, P s -> False) -> validr P Q p.
Proof.
  intros A P Q p Hs Hf. eapply valid_weaken; [apply (valid_false Jr Gc)|exact Hs|]. intros s _ Ps. exact (Hf s Ps).
Qed.

Lemma valid_observe_r : forall A (P : sys -> Prop) (Q : A -> sys -> Prop) o k,
  observing o -> stable Jr Gc P -> (forall r, validr P Q (k r)) -> validr P Q (Op o k).
Proof.
  intros A P Q o k Ho Hs Hk. apply (v_op _ _ _ _ _ _ (fun _ => P)); [exact Hs| |exact Hk].
  intros s torn Js Ps. pose proof (cstep_observing o torn s Ho) as Hg. split; [exact Hg|].
  eapply Hs; eassumption.
Qed.

Lemma valid_used_r : forall A (X : Prop) (Q : A -> sys -> Prop) p (k : prog A),
  validr (fun _ => X) Q k -> validr (fun _ => X) Q (used_prog p k).
Proof.
  intros A X Q p k Hk. assert (stable Jr Gc (fun _ : sys => X)) as St by (apply stable_r; stab).
  unfold used_prog. apply valid_observe_r; [exact I|exact St|]. intros r.
  destruct r; try exact Hk; (apply valid_observe_r; [exact I|exact St|]; intros _; exact Hk).
Qed.

Definition found_bytes (l : lookup bytes) : Prop := exists t', l = Found d0 (H d0) (Z.of_nat (length d0)) t'.
Definition found_file (l : lookup path) : Prop := exists t', l = Found (DatP (H d0)) (H d0) (Z.of_nat (length d0)) t'.

Lemma valid_get_bytes_rest : validr (fun _ => True) (fun l _ => found_bytes l) (get_bytes_prog H rid).
Proof.
  unfold get_bytes_prog. eapply valid_bind; [apply valid_get_rest|].
  intros [[[out size] tm]|]; [|apply valid_absurd_r; [apply stable_r; stab|intros s (t' & E); discriminate]].
  destruct (bytes_eqb out (H d0)) eqn:Eo;
    [|apply valid_absurd_r; [apply stable_r; stab|intros s (t' & E); inversion E; subst; rewrite bytes_eqb_refl in Eo; discriminate]].
  apply bytes_eqb_eq in Eo. subst out.
  destruct (Z.eqb size (Z.of_nat (length d0))) eqn:Es;
    [|apply valid_absurd_r; [apply stable_r; stab|intros s (t' & E); inversion E; subst; rewrite Z.eqb_refl in Es; discriminate]].
  apply Z.eqb_eq in Es. subst size.
  unfold output_file_prog.
  assert (forall (k : prog (lookup bytes)), validr (fun _ => True) (fun l _ => found_bytes l) k ->
            validr (fun _ => exists t', Some (H d0, Z.of_nat (length d0), tm) = Some (H d0, Z.of_nat (length d0), t'))
                   (fun l _ => found_bytes l) k) as Hw.
  { intros k Hk. eapply valid_weaken; [exact Hk|apply stable_r; stab|intros; exact I]. }
  assert (stable Jr Gc (fun _ : sys => True)) as St by (apply stable_r; stab).
  unfold used_prog. cbn [bind]. apply Hw.
  assert (validr (fun _ => True) (fun l _ => found_bytes l)
            (Op (OReadAll (DatP (H d0))) (fun r =>
               let data := match r with RBytes b => b | _ => [] end in
               if bytes_eqb (H data) (H d0) then Ret (Found data (H d0) (Z.of_nat (length d0)) tm) else Ret NotFound))) as Hread.
  { apply (v_op _ _ _ _ _ _ (fun r _ => r = RBytes d0)); [exact St| |].
    - intros s torn Js _. split; [apply (cstep_observing (OReadAll (DatP (H d0))) torn s I)|].
      cbn [cstep fst snd]. destruct (view s (DatP (H d0)) torn) as [v|] eqn:Ev.
      + rewrite (view_dat_rest s torn v Js Ev). reflexivity.
      + exfalso. destruct Js as [_ (_ & _ & Hd & _)]. unfold view in Ev. rewrite Hd in Ev.
        destruct torn; [destruct (slast s (DatP (H d0)))|]; discriminate.
    - intros r. destruct r as [| |n|b|n]; try (apply valid_absurd_r; [apply stable_r; stab|intros s E; discriminate]).
      cbv zeta. destruct (bytes_eqb (H b) (H d0)) eqn:Eh.
      + apply v_ret; [apply stable_r; stab|]. intros s _ E. inversion E; subst. exists tm. reflexivity.
      + apply valid_absurd_r; [apply stable_r; stab|]. intros s E. inversion E; subst. rewrite bytes_eqb_refl in Eh. discriminate. }
  apply valid_observe_r; [exact I|exact St|]. intros r.
  destruct r; cbn [bind]; try exact Hread; (apply valid_observe_r; [exact I|exact St|]; intros _; exact Hread).
Qed.

Lemma valid_get_file_rest : validr (fun _ => True) (fun l _ => found_file l) (get_file_prog rid).
Proof.
  unfold get_file_prog. eapply valid_bind; [apply valid_get_rest|].
  intros [[[out size] tm]|]; [|apply valid_absurd_r; [apply stable_r; stab|intros s (t' & E); discriminate]].
  destruct (bytes_eqb out (H d0)) eqn:Eo;
    [|apply valid_absurd_r; [apply stable_r; stab|intros s (t' & E); inversion E; subst; rewrite bytes_eqb_refl in Eo; discriminate]].
  apply bytes_eqb_eq in Eo. subst out.
  destruct (Z.eqb size (Z.of_nat (length d0))) eqn:Es;
    [|apply valid_absurd_r; [apply stable_r; stab|intros s (t' & E); inversion E; subst; rewrite Z.eqb_refl in Es; discriminate]].
  apply Z.eqb_eq in Es. subst size.
  assert (stable Jr Gc (fun _ : sys => True)) as St by (apply stable_r; stab).
  eapply valid_weaken; [|apply stable_r; stab|intros; exact I].
  unfold output_file_prog, used_prog. cbn [bind].
  assert (validr (fun _ => True) (fun l _ => found_file l)
            (Op (OStat (DatP (H d0))) (fun r =>
               match r with
               | RSize n => if Z.eqb (Z.of_nat n) (Z.of_nat (length d0))
                            then Ret (Found (DatP (H d0)) (H d0) (Z.of_nat (length d0)) tm) else Ret NotFound
               | _ => Ret NotFound end))) as Hstat.
  { apply (v_op _ _ _ _ _ _ (fun r _ => r = RSize (length d0))); [exact St| |].
    - intros s torn Js _. split; [apply (cstep_observing (OStat (DatP (H d0))) torn s I)|].
      cbn [cstep fst snd]. destruct Js as [_ (_ & _ & Hd & _)]. rewrite Hd. reflexivity.
    - intros r. destruct r as [| |n|b|n]; try (apply valid_absurd_r; [apply stable_r; stab|intros s E; discriminate]).
      destruct (Z.eqb (Z.of_nat n) (Z.of_nat (length d0))) eqn:En.
      + apply v_ret; [apply stable_r; stab|]. intros s _ _. exists tm. reflexivity.
      + apply valid_absurd_r; [apply stable_r; stab|]. intros s E. inversion E; subst. rewrite Z.eqb_refl in En. discriminate. }
  apply valid_observe_r; [exact I|exact St|]. intros r.
  destruct r; cbn [bind]; try exact Hstat; (apply valid_observe_r; [exact I|exact St|]; intros _; exact Hstat).
Qed.

Definition rpost (c : call) (r : cres) : Prop :=
  match c with
  | CGetBytes i => i = rid -> exists l, r = XBytes l /\ found_bytes l
  | CGetFile i => i = rid -> exists l, r = XFile l /\ found_file l
  | _ => True
  end.

Definition post_r (c : call) (r : cres) (s : sys) : Prop := post c r s /\ rpost c r.

Lemma post_r_stable : forall c r, stable Jr Gc (post_r c r).
Proof. intros c r. apply stable_r. apply and_stable; [apply post_stable|apply pure_stable]. Qed.

Lemma call_valid_r : forall c, call_ok c -> validr (fun _ => True) (post_r c) (call_prog H c).
Proof.
  intros c Hok.
  assert (validr (fun _ => True) (post c) (call_prog H c)) as Hbase.
  { apply (valid_strengthen Jc Jr Gc); [intros s [Js _]; exact Js|apply call_valid; exact Hok]. }
  destruct c as [id chunks tm|id rd tm|id|id|id];
    try (eapply valid_post_mono; [exact Hbase|intros a s Hp; split; [exact Hp|exact I]]).
  - (* GetBytes *)
    destruct (bytes_eqb id rid) eqn:Ei.
    + apply bytes_eqb_eq in Ei. subst id. cbn [call_prog].
      eapply valid_bind; [apply valid_get_bytes_rest|]. intros l.
      apply v_ret; [apply stable_r; stab|]. intros s _ Hf. split; [exact I|]. intros _. exists l. auto.
    + eapply valid_post_mono; [exact Hbase|]. intros a s Hp. split; [exact Hp|].
      cbn [rpost]. intros E. subst id. rewrite bytes_eqb_refl in Ei. discriminate.
  - (* GetFile *)
    destruct (bytes_eqb id rid) eqn:Ei.
    + apply bytes_eqb_eq in Ei. subst id. cbn [call_prog].
      eapply valid_bind; [apply valid_get_file_rest|]. intros l.
      apply v_ret; [apply stable_r; stab|]. intros s _ Hf. split; [exact I|]. intros _. exists l. auto.
    + eapply valid_post_mono; [exact Hbase|]. intros a s Hp. split; [exact Hp|].
      cbn [rpost]. intros E. subst id. rewrite bytes_eqb_refl in Ei. discriminate.
Qed.

(* restore_invisible: however the lookups of the re-stored id are interleaved, operation by
   operation, with any writers, and whatever torn views they are served, every GetBytes and
   every GetFile of that id finds the content *)
Theorem restore_invisible : forall callss fs0 sched,
  Jc (init_sys fs0) -> Forall (Forall call_ok) callss ->
  idx_nonempty rid (init_sys fs0) ->
  forall i calls cl k r,
  nth_error callss i = Some calls -> nth_error (fst (run_conc H sched (map (start H) callss, init_sys fs0))) i = Some cl ->
  nth_error (results cl) k = Some r ->
  (nth_error calls k = Some (CGetBytes rid) -> exists l, r = XBytes l /\ found_bytes l) /\
  (nth_error calls k = Some (CGetFile rid) -> exists l, r = XFile l /\ found_file l).
Proof.
  intros callss fs0 sched J0 Hok (c & Ec & Hn) i calls cl k r Ecalls Ecl Eres.
  assert (Jr (init_sys fs0)) as Jr0.
  { split; [exact J0|]. pose proof J0 as (_ & _ & Hj3 & _).
    destruct (entry_single _ c (Hj3 _ _ Ec) Hn) as (tm & Hps & ->).
    split; [exists (entry rid d0 tm); split; [exact Ec|exact Hn]|]. split; [intros o Ho; discriminate|].
    split; [|left; reflexivity].
    destruct (Hj3 _ _ Ec) as [E|(d & t & Hp & E & Hf)]; [contradiction|].
    destruct (Hsingle _ _ Hp) as [-> _]. exact Hf. }
  assert (sinv Jr Gc post_r call_ok callss (run_conc H sched (map (start H) callss, init_sys fs0))) as [_ Hall].
  { apply (run_conc_sound Jr Gc Gc_refl Gc_Jr H post_r post_r_stable call_ok call_valid_r).
    apply (sinv_init Jr Gc H post_r call_ok call_valid_r); assumption. }
  pose proof (Forall2_nth _ _ _ _ _ _ _ _ Hall Ecalls Ecl) as (_ & done & Hres & Hcur).
  assert (forall c0, nth_error calls k = Some c0 -> nth_error done k = Some c0) as Hdone.
  { intros c0 Ecall. assert (k < length done)%nat as Lk.
    { rewrite (Forall2_len _ _ _ _ _ Hres). apply nth_error_Some. congruence. }
    destruct (cur cl) as [p|].
    - destruct Hcur as (c1 & P & Ec1 & _). rewrite Ec1 in Ecall. rewrite nth_error_app1 in Ecall by exact Lk. exact Ecall.
    - destruct Hcur as [Ec1 _]. rewrite <- Ec1. exact Ecall. }
  split; intros Ecall; pose proof (Forall2_nth _ _ _ _ _ _ _ _ Hres (Hdone _ Ecall) Eres) as [_ Hb];
    cbn [rpost] in Hb; apply Hb; reflexivity.
Qed.

End Restore.

(* ---- C11: what holds in every state every schedule can reach *)
Definition conc_run (callss : list (list call)) (fs0 : files) (sched : list (nat * option nat)) : list client * sys :=
  run_conc H sched (map (start H) callss, init_sys fs0).

Lemma Jc_init : forall fs, I1 H U fs -> (forall id c, fs (IdxP id) = Some c -> good_idx fs id c) -> Jc (init_sys fs).
Proof.
  intros fs Hi1 Hidx. unfold Jc, init_sys. cbn [sfiles slast].
  split; [exact Hi1|]. split; [intros out o Ho; discriminate|]. split; [exact Hidx|split; intros id o Ho; discriminate].
Qed.

Theorem conc_sound : forall callss fs0 sched,
  Jc (init_sys fs0) -> Forall (Forall call_ok) callss ->
  sinv Jc Gc post call_ok callss (conc_run callss fs0 sched).
Proof.
  intros callss fs0 sched J0 Hok. unfold conc_run.
  apply (run_conc_sound Jc Gc Gc_refl Gc_J H post post_stable call_ok call_valid).
  apply (sinv_init Jc Gc H post call_ok call_valid); assumption.
Qed.

(* conc_I1: whatever the interleaving, every output file holds a prefix of the content its name
   hashes, and every index file is empty or holds exactly the entry of a Put whose output is complete *)
Theorem conc_I1 : forall callss fs0 sched,
  Jc (init_sys fs0) -> Forall (Forall call_ok) callss ->
  let s := snd (conc_run callss fs0 sched) in
  I1 H U (sfiles s) /\ (forall id c, sfiles s (IdxP id) = Some c -> good_idx (sfiles s) id c).
Proof.
  intros callss fs0 sched J0 Hok s. destruct (conc_sound callss fs0 sched J0 Hok) as [(Hi1 & _ & Hj3 & _) _].
  split; [exact Hi1|exact Hj3].
Qed.

(* an index file holding the entry of a Put of d with complete output: the sequential lookups find d *)
Lemma good_idx_lookup : forall fs id c, fs (IdxP id) = Some c -> c <> [] -> good_idx fs id c ->
  exists d tm, PS id d tm /\
    get_bytes H fs id = Found d (H d) (Z.of_nat (length d)) tm /\
    get_file fs id = Found (DatP (H d)) (H d) (Z.of_nat (length d)) tm.
Proof.
  intros fs id c Ec Hn [->|(d & tm & Hps & -> & Hf)]; [contradiction|].
  destruct (PS_ok _ _ _ Hps) as (Ud & Li & Ht & Hs).
  exists d, tm. split; [exact Hps|].
  assert (entry_of fs id = Some (H d, Z.of_nat (length d), tm)) as Ee.
  { unfold entry_of. rewrite Ec. unfold entry. apply entry_roundtrip; [exact Li|apply H_len| |exact Ht].
    split; [apply Nat2Z.is_nonneg|exact Hs]. }
  unfold get_bytes, get_file. rewrite run_get_bytes, run_get_file. cbn [snd]. rewrite Ee.
  cbn [bytes_lookup file_lookup]. rewrite Hf, bytes_eqb_refl, Z.eqb_refl. auto.
Qed.

Lemma Forall2_In_l : forall A B (R : A -> B -> Prop) l1 l2 a,
  Forall2 R l1 l2 -> In a l1 -> exists b, In b l2 /\ R a b.
Proof.
  intros A B R l1 l2 a Hf. induction Hf as [|x y l1 l2 Hxy Hf IH]; intros Hin; [contradiction|].
  destruct Hin as [->|Hin]; [exists y; split; [left; reflexivity|exact Hxy]|].
  destruct (IH Hin) as (b & H1 & H2). exists b. split; [right; exact H1|exact H2].
Qed.

(* quiescent_all_readable: when every client has finished, every id that some client stored is
   readable, and what is read is the content of some Put of that id *)
Theorem quiescent_all_readable : forall callss fs0 sched,
  Jc (init_sys fs0) -> Forall (Forall call_ok) callss ->
  let st := conc_run callss fs0 sched in
  finished (fst st) = true ->
  forall calls id chunks tm, In calls callss -> In (CPut id chunks tm) calls ->
  exists d tm', PS id d tm' /\
    get_bytes H (sfiles (snd st)) id = Found d (H d) (Z.of_nat (length d)) tm' /\
    get_file (sfiles (snd st)) id = Found (DatP (H d)) (H d) (Z.of_nat (length d)) tm'.
Proof.
  intros callss fs0 sched J0 Hok st Hfin calls id chunks tm Hin Hput.
  destruct (conc_sound callss fs0 sched J0 Hok) as [Js Hall]. fold st in Js, Hall.
  destruct (Forall2_In_l _ _ _ _ _ _ Hall Hin) as (cl & Hcl & Hc).
  assert (cur cl = None) as Ecur.
  { unfold finished in Hfin. rewrite forallb_forall in Hfin. specialize (Hfin cl Hcl). destruct (cur cl); [discriminate|reflexivity]. }
  destruct Hc as (_ & done & Hres & Hcur). rewrite Ecur in Hcur. destruct Hcur as [-> _].
  destruct (Forall2_In_l _ _ _ _ _ _ Hres Hput) as (r & _ & Hp).
  destruct r; cbn [post] in Hp; try contradiction. destruct Hp as (_ & c & Ec & Hn).
  destruct Js as (_ & _ & Hj3 & _). apply (good_idx_lookup _ id c Ec Hn). apply Hj3. exact Ec.
Qed.

(* restore_invisible, state form: an id whose entry is in place when the clients start is
   readable in every state any schedule reaches (whatever is being re-stored, by whomever), and
   what is read is the content of a Put of that id *)
Theorem restore_invisible_partial : forall callss fs0 sched id,
  Jc (init_sys fs0) -> Forall (Forall call_ok) callss ->
  idx_nonempty id (init_sys fs0) ->
  let s := snd (conc_run callss fs0 sched) in
  exists d tm', PS id d tm' /\
    get_bytes H (sfiles s) id = Found d (H d) (Z.of_nat (length d)) tm' /\
    get_file (sfiles s) id = Found (DatP (H d)) (H d) (Z.of_nat (length d)) tm'.
Proof.
  intros callss fs0 sched id J0 Hok Hne s.
  destruct (conc_sound callss fs0 sched J0 Hok) as [Js _]. fold s in Js.
  assert (idx_nonempty id s) as (c & Ec & Hn).
  { unfold s, conc_run. apply (run_conc_stable Jc Gc Gc_refl Gc_J H post post_stable call_ok call_valid callss).
    - apply (sinv_init Jc Gc H post call_ok call_valid); assumption.
    - apply idx_nonempty_stable.
    - exact Hne. }
  destruct Js as (_ & _ & Hj3 & _). apply (good_idx_lookup _ id c Ec Hn). apply Hj3. exact Ec.
Qed.

(* lookup_is_some_put, state form: in every state any schedule reaches, a lookup (performed
   without interference) finds only bytes that a Put stored for that very id, with matching
   hash and size *)
Theorem lookup_is_some_put_partial : forall callss fs0 sched id d out size tm,
  Jc (init_sys fs0) -> Forall (Forall call_ok) callss ->
  let s := snd (conc_run callss fs0 sched) in
  get_bytes H (sfiles s) id = Found d out size tm ->
  exists tm', PS id d tm' /\ out = H d /\ size = Z.of_nat (length d).
Proof.
  intros callss fs0 sched id d out size tm J0 Hok s Hg.
  destruct (conc_sound callss fs0 sched J0 Hok) as [(_ & _ & Hj3 & _) _]. fold s in Hj3.
  pose proof Hg as Hg'. unfold get_bytes in Hg'. rewrite run_get_bytes in Hg'. cbn [snd] in Hg'.
  unfold entry_of in Hg'. destruct (sfiles s (IdxP id)) as [c|] eqn:Ec; [|discriminate].
  assert (c <> []) as Hn by (intros ->; vm_compute in Hg'; discriminate).
  destruct (good_idx_lookup _ id c Ec Hn (Hj3 _ _ Ec)) as (d0 & t0 & Hps & Hb & _).
  rewrite Hb in Hg. inversion Hg; subst. eexists. split; [eassumption|split; reflexivity].
Qed.



(* lookup_is_some_put: a GetBytes interleaved operation by operation with any writers, and served
   torn views, returns only bytes that a Put of the system stored for that very id, with matching hash *)
Theorem lookup_is_some_put : lookup_hyps ->
  forall callss fs0 sched,
  Jc (init_sys fs0) -> Forall (Forall call_ok) callss ->
  forall i calls cl k id d out size tm,
  nth_error callss i = Some calls -> nth_error (fst (conc_run callss fs0 sched)) i = Some cl ->
  nth_error calls k = Some (CGetBytes id) -> nth_error (results cl) k = Some (XBytes (Found d out size tm)) ->
  out = H d /\ exists tm', PS id d tm'.
Proof.
  intros Hl callss fs0 sched J0 Hok i calls cl k id d out size tm Ecalls Ecl Ecall Eres.
  assert (sinv Jc Gc post2 call_ok callss (conc_run callss fs0 sched)) as [_ Hall].
  { unfold conc_run. apply (run_conc_sound Jc Gc Gc_refl Gc_J H post2 post2_stable call_ok (call_valid2 Hl)).
    apply (sinv_init Jc Gc H post2 call_ok (call_valid2 Hl)); assumption. }
  pose proof (Forall2_nth _ _ _ _ _ _ _ _ Hall Ecalls Ecl) as (_ & done & Hres & Hcur).
  assert (nth_error done k = Some (CGetBytes id)) as Edone.
  { assert (k < length done)%nat as Lk.
    { rewrite (Forall2_len _ _ _ _ _ Hres). apply nth_error_Some. congruence. }
    destruct (cur cl) as [p|].
    - destruct Hcur as (c & P & Ec & _). rewrite Ec in Ecall. rewrite nth_error_app1 in Ecall by exact Lk. exact Ecall.
    - destruct Hcur as [Ec _]. rewrite <- Ec. exact Ecall. }
  pose proof (Forall2_nth _ _ _ _ _ _ _ _ Hres Edone Eres) as [_ Hb]. exact Hb.
Qed.

End CacheRG.

(* ---- the hypotheses of the C11 theorems, bundled *)
Section Statements.
Variable H : bytes -> bytes.
Variable U : bytes -> Prop.
Variable PS : bytes -> bytes -> Z -> Prop.
Definition C11_hyps : Prop :=
  (forall x, length (H x) = hash_size_n) /\ H_inj_on H U /\
  (forall id d tm, PS id d tm ->
     U d /\ length id = hash_size_n /\ (0 <= tm < int64_lim)%Z /\ (Z.of_nat (length d) < int64_lim)%Z).
End Statements.


Lemma conc_I1_hyps : forall H U PS, C11_hyps H U PS ->
  forall callss fs0 sched,
  Jc H U PS (init_sys fs0) -> Forall (Forall (call_ok PS)) callss ->
  let s := snd (conc_run H callss fs0 sched) in
  I1 H U (sfiles s) /\ (forall id c, sfiles s (IdxP id) = Some c -> good_idx H PS (sfiles s) id c).
Proof. intros H U PS (H1 & H2 & H3). exact (conc_I1 H U H1 H2 PS H3). Qed.

Lemma quiescent_all_readable_hyps : forall H U PS, C11_hyps H U PS ->
  forall callss fs0 sched,
  Jc H U PS (init_sys fs0) -> Forall (Forall (call_ok PS)) callss ->
  let st := conc_run H callss fs0 sched in
  finished (fst st) = true ->
  forall calls id chunks tm, In calls callss -> In (CPut id chunks tm) calls ->
  exists d tm', PS id d tm' /\
    get_bytes H (sfiles (snd st)) id = Found d (H d) (Z.of_nat (length d)) tm' /\
    get_file (sfiles (snd st)) id = Found (DatP (H d)) (H d) (Z.of_nat (length d)) tm'.
Proof. intros H U PS (H1 & H2 & H3). exact (quiescent_all_readable H U H1 H2 PS H3). Qed.

Lemma restore_invisible_partial_hyps : forall H U PS, C11_hyps H U PS ->
  forall callss fs0 sched id,
  Jc H U PS (init_sys fs0) -> Forall (Forall (call_ok PS)) callss ->
  idx_nonempty id (init_sys fs0) ->
  let s := snd (conc_run H callss fs0 sched) in
  exists d tm', PS id d tm' /\
    get_bytes H (sfiles s) id = Found d (H d) (Z.of_nat (length d)) tm' /\
    get_file (sfiles s) id = Found (DatP (H d)) (H d) (Z.of_nat (length d)) tm'.
Proof. intros H U PS (H1 & H2 & H3). exact (restore_invisible_partial H U H1 H2 PS H3). Qed.

Lemma lookup_is_some_put_partial_hyps : forall H U PS, C11_hyps H U PS ->
  forall callss fs0 sched id d out size tm,
  Jc H U PS (init_sys fs0) -> Forall (Forall (call_ok PS)) callss ->
  let s := snd (conc_run H callss fs0 sched) in
  get_bytes H (sfiles s) id = Found d out size tm ->
  exists tm', PS id d tm' /\ out = H d /\ size = Z.of_nat (length d).
Proof. intros H U PS (H1 & H2 & H3). exact (lookup_is_some_put_partial H U H1 H2 PS H3). Qed.

Lemma conc_sound_hyps : forall H U PS, C11_hyps H U PS ->
  forall callss fs0 sched,
  Jc H U PS (init_sys fs0) -> Forall (Forall (call_ok PS)) callss ->
  sinv (Jc H U PS) (Gc H U PS) (post H) (call_ok PS) callss (conc_run H callss fs0 sched).
Proof. intros H U PS (H1 & H2 & H3). exact (conc_sound H U H1 H2 PS H3). Qed.

Lemma lookup_is_some_put_hyps : forall H U PS, C11_hyps H U PS -> lookup_hyps H U ->
  forall callss fs0 sched,
  Jc H U PS (init_sys fs0) -> Forall (Forall (call_ok PS)) callss ->
  forall i calls cl k id d out size tm,
  nth_error callss i = Some calls -> nth_error (fst (conc_run H callss fs0 sched)) i = Some cl ->
  nth_error calls k = Some (CGetBytes id) -> nth_error (results cl) k = Some (XBytes (Found d out size tm)) ->
  out = H d /\ exists tm', PS id d tm'.
Proof. intros H U PS (H1 & H2 & H3). exact (lookup_is_some_put H U H1 H2 PS H3). Qed.

Lemma restore_invisible_hyps : forall H U PS, C11_hyps H U PS ->
  forall rid d0, (forall d tm, PS rid d tm -> d = d0 /\ (10 ^ 18 <= tm < 2 * 10 ^ 18)%Z) -> U d0 ->
  forall callss fs0 sched,
  Jc H U PS (init_sys fs0) -> Forall (Forall (call_ok PS)) callss ->
  idx_nonempty rid (init_sys fs0) ->
  forall i calls cl k r,
  nth_error callss i = Some calls -> nth_error (fst (conc_run H callss fs0 sched)) i = Some cl ->
  nth_error (results cl) k = Some r ->
  (nth_error calls k = Some (CGetBytes rid) -> exists l, r = XBytes l /\ found_bytes H d0 l) /\
  (nth_error calls k = Some (CGetFile rid) -> exists l, r = XFile l /\ found_file H d0 l).
Proof. intros H U PS (H1 & H2 & H3). exact (restore_invisible H U H1 H2 PS H3). Qed.

Lemma get_file_conc_hyps : forall H U PS, C11_hyps H U PS -> no_hybrid H U ->
  forall callss fs0 sched,
  Jc H U PS (init_sys fs0) -> Forall (Forall (call_ok PS)) callss ->
  forall i calls cl k id l,
  nth_error callss i = Some calls -> nth_error (fst (conc_run H callss fs0 sched)) i = Some cl ->
  nth_error calls k = Some (CGetFile id) -> nth_error (results cl) k = Some (XFile l) ->
  file_post H PS id l (snd (conc_run H callss fs0 sched)).
Proof. intros H U PS (H1 & H2 & H3). exact (get_file_conc H U H1 H2 PS H3). Qed.

(* Facts about the interleaved semantics (C11): a rely/guarantee argument.
   J is an invariant of the shared state, G what a single step of any client may do to it;
   [valid P Q p] says that program p, started in a state satisfying the (interference-stable)
   assertion P, performs only G-steps, and returns values a with Q a holding. *)
From Coq Require Import List Bool Arith NArith ZArith Lia.
From Coq.Strings Require Import Byte.
From GI Require Import Lib.Bytes Gen.CacheConsts Cache.CacheEntry Cache.CacheEntryFacts Cache.Cache
  Cache.CacheSeqFacts Cache.CacheFault Cache.CacheFaultFacts Cache.CacheConc.
Import ListNotations.

Section RG.
Variable J : sys -> Prop.
Variable G : sys -> sys -> Prop.
Hypothesis G_refl : forall s, G s s.
Hypothesis G_J : forall s s', J s -> G s s' -> J s'.

Definition stable (P : sys -> Prop) : Prop := forall s s', J s -> P s -> G s s' -> P s'.

Inductive valid {A} : (sys -> Prop) -> (A -> sys -> Prop) -> prog A -> Prop :=
| v_ret : forall (P : sys -> Prop) (Q : A -> sys -> Prop) a,
    stable P -> (forall s, J s -> P s -> Q a s) -> valid P Q (Ret a)
| v_op : forall (P : sys -> Prop) (Q : A -> sys -> Prop) o k (R : res -> sys -> Prop),
    stable P ->
    (forall s torn, J s -> P s -> G s (fst (cstep o torn s)) /\ R (snd (cstep o torn s)) (fst (cstep o torn s))) ->
    (forall r, valid (R r) Q (k r)) ->
    valid P Q (Op o k).

Lemma valid_false : forall A (Q : A -> sys -> Prop) (p : prog A), valid (fun _ => False) Q p.
Proof.
  intros A Q p. induction p as [a|o k IH].
  - apply v_ret; [intros s s' _ []|intros s _ []].
  - apply (v_op _ _ _ _ (fun _ _ => False)).
    + intros s s' _ [].
    + intros s torn _ [].
    + exact IH.
Qed.

Lemma valid_weaken : forall A (P P' : sys -> Prop) (Q : A -> sys -> Prop) p,
  valid P Q p -> stable P' -> (forall s, J s -> P' s -> P s) -> valid P' Q p.
Proof.
  intros A P P' Q p Hv Hst Himp. destruct Hv as [P Q a Hs Hq|P Q o k R Hs Hstep Hk].
  - apply v_ret; [exact Hst|]. intros s Js Ps. apply Hq; [exact Js|apply Himp; assumption].
  - apply (v_op _ _ _ _ R); [exact Hst| |exact Hk].
    intros s torn Js Ps. apply Hstep; [exact Js|apply Himp; assumption].
Qed.

Lemma valid_stable : forall A (P : sys -> Prop) (Q : A -> sys -> Prop) p, valid P Q p -> stable P.
Proof. intros A P Q p Hv. destruct Hv; assumption. Qed.

Lemma valid_op_inv : forall A (P : sys -> Prop) (Q : A -> sys -> Prop) o k,
  valid P Q (Op o k) ->
  exists R : res -> sys -> Prop,
    (forall s torn, J s -> P s -> G s (fst (cstep o torn s)) /\ R (snd (cstep o torn s)) (fst (cstep o torn s))) /\
    (forall r, valid (R r) Q (k r)).
Proof. intros A P Q o k Hv. inversion Hv; subst. eexists; split; eassumption. Qed.

Lemma valid_ret_inv : forall A (P : sys -> Prop) (Q : A -> sys -> Prop) a,
  valid P Q (Ret a) -> forall s, J s -> P s -> Q a s.
Proof. intros A P Q a Hv. inversion Hv; subst. assumption. Qed.

Lemma Forall2_mono : forall A B (R R' : A -> B -> Prop) l1 l2,
  (forall a b, R a b -> R' a b) -> Forall2 R l1 l2 -> Forall2 R' l1 l2.
Proof. intros A B R R' l1 l2 Hm Hf. induction Hf; constructor; auto. Qed.

Lemma valid_bind : forall A B (P : sys -> Prop) (Q1 : A -> sys -> Prop) (Q : B -> sys -> Prop) (p : prog A) (f : A -> prog B),
  valid P Q1 p -> (forall a, valid (Q1 a) Q (f a)) -> valid P Q (bind p f).
Proof.
  intros A B P Q1 Q p f Hv Hf. induction Hv as [P Q' a Hs Hq|P Q' o k R Hs Hstep Hk IH]; cbn.
  - eapply valid_weaken; [apply Hf|exact Hs|exact Hq].
  - apply (v_op _ _ _ _ R); auto.
Qed.

(* ---- clients *)
Variable H : bytes -> bytes.
Variable post : call -> cres -> sys -> Prop.
Hypothesis post_stable : forall c r, stable (post c r).
Variable call_ok : call -> Prop.
Hypothesis call_valid : forall c, call_ok c -> valid (fun _ => True) (post c) (call_prog H c).

Definition cinv (calls : list call) (cl : client) (s : sys) : Prop :=
  Forall call_ok calls /\
  exists done, Forall2 (fun c r => post c r s) done (results cl) /\
    match cur cl with
    | None => calls = done /\ todo cl = []
    | Some p => exists c P, calls = done ++ c :: todo cl /\ P s /\ valid P (post c) p
    end.

Lemma Forall2_snoc : forall A B (R : A -> B -> Prop) l1 l2 a b,
  Forall2 R l1 l2 -> R a b -> Forall2 R (l1 ++ [a]) (l2 ++ [b]).
Proof. intros. apply Forall2_app; [assumption|constructor; [assumption|constructor]]. Qed.

Lemma cinv_stable : forall calls cl s s', J s -> cinv calls cl s -> G s s' -> cinv calls cl s'.
Proof.
  intros calls cl s s' Js (Hok & done & Hres & Hcur) Hg. split; [exact Hok|]. exists done. split.
  - eapply Forall2_mono; [|exact Hres]. intros c r Hp. eapply post_stable; eassumption.
  - destruct (cur cl) as [p|]; [|exact Hcur].
    destruct Hcur as (c & P & Ec & Ps & Hv). exists c, P. split; [exact Ec|]. split; [|exact Hv].
    eapply (valid_stable _ _ _ _ Hv); eassumption.
Qed.

Lemma cinv_norm : forall td calls p rs done c (P : sys -> Prop) s,
  J s -> Forall call_ok calls -> calls = done ++ c :: td -> P s -> valid P (post c) p ->
  Forall2 (fun c r => post c r s) done rs ->
  cinv calls (norm H p td rs) s.
Proof.
  induction td as [|c' t IH]; intros calls p rs done c P s Js Hok Ec Ps Hv Hres.
  - destruct p as [r|o k]; cbn [norm].
    + split; [exact Hok|]. exists (done ++ [c]). cbn [results cur todo]. split.
      * apply Forall2_snoc; [exact Hres|]. eapply valid_ret_inv; eassumption.
      * split; [exact Ec|reflexivity].
    + split; [exact Hok|]. exists done. cbn [results cur todo]. split; [exact Hres|]. exists c, P. auto.
  - destruct p as [r|o k]; cbn [norm].
    + apply (IH calls (call_prog H c') (rs ++ [r]) (done ++ [c]) c' (fun _ => True) s); auto.
      * rewrite <- app_assoc. exact Ec.
      * apply call_valid. rewrite Ec in Hok. apply Forall_app in Hok. destruct Hok as [_ Hok].
        inversion Hok as [|? ? _ Hok']; subst. inversion Hok'; subst. assumption.
      * apply Forall2_snoc; [exact Hres|]. eapply valid_ret_inv; eassumption.
    + split; [exact Hok|]. exists done. cbn [results cur todo]. split; [exact Hres|]. exists c, P. auto.
Qed.

Lemma cinv_start : forall calls s, J s -> Forall call_ok calls -> cinv calls (start H calls) s.
Proof.
  intros calls s Js Hok. destruct calls as [|c t]; cbn [start].
  - split; [exact Hok|]. exists []. cbn. split; [constructor|auto].
  - apply (cinv_norm t (c :: t) (call_prog H c) [] [] c (fun _ => True) s); auto.
    apply call_valid. inversion Hok; assumption.
Qed.

Lemma client_step_sound : forall calls cl torn s,
  J s -> cinv calls cl s ->
  let '(cl', s') := client_step H cl torn s in G s s' /\ J s' /\ cinv calls cl' s'.
Proof.
  intros calls cl torn s Js Hc. unfold client_step.
  destruct (cur cl) as [[r|o k]|] eqn:Ecur.
  - split; [apply G_refl|]. split; assumption.
  - destruct Hc as (Hok & done & Hres & Hcur). rewrite Ecur in Hcur. destruct Hcur as (c & P & Ec & Ps & Hv).
    destruct (valid_op_inv _ _ _ _ _ Hv) as (R & Hstep & Hk).
    destruct (cstep o torn s) as [s' r] eqn:Es.
    destruct (Hstep s torn Js Ps) as [Hg Hr]. rewrite Es in Hg, Hr. cbn [fst snd] in Hg, Hr.
    assert (J s') as Js' by (eapply G_J; eassumption).
    split; [exact Hg|]. split; [exact Js'|].
    apply (cinv_norm (todo cl) calls (k r) (results cl) done c (R r) s' Js' Hok Ec Hr (Hk r)).
    eapply Forall2_mono; [|exact Hres]. intros c0 r0 Hp. exact (post_stable c0 r0 s s' Js Hp Hg).
  - split; [apply G_refl|]. split; assumption.
Qed.

Lemma Forall2_set_nth : forall A B (R R' : A -> B -> Prop) l1 l2 i x x',
  Forall2 R l1 l2 -> nth_error l2 i = Some x ->
  (forall a b, R a b -> R' a b) ->
  (forall a, nth_error l1 i = Some a -> R a x -> R' a x') ->
  Forall2 R' l1 (set_nth i x' l2).
Proof.
  intros A B R R' l1 l2 i x x' Hf. revert i. induction Hf as [|a b l1 l2 Hab Hf IH]; intros i Hn Hm Hx.
  - destruct i; discriminate.
  - destruct i as [|i]; cbn in *.
    + inversion Hn; subst. constructor; [apply Hx; [reflexivity|exact Hab]|]. eapply Forall2_mono; eassumption.
    + constructor; [apply Hm; exact Hab|]. apply IH; assumption.
Qed.

Lemma Forall2_nth_r : forall A B (R : A -> B -> Prop) l1 l2 i x,
  Forall2 R l1 l2 -> nth_error l2 i = Some x -> exists a, nth_error l1 i = Some a /\ R a x.
Proof.
  intros A B R l1 l2 i x Hf. revert i. induction Hf as [|a b l1 l2 Hab Hf IH]; intros i Hn.
  - destruct i; discriminate.
  - destruct i as [|i]; cbn in *; [inversion Hn; subst; eauto|apply IH; exact Hn].
Qed.

Definition sinv (callss : list (list call)) (st : list client * sys) : Prop :=
  J (snd st) /\ Forall2 (fun calls cl => cinv calls cl (snd st)) callss (fst st).

Lemma sched_step_sound : forall callss e st, sinv callss st -> sinv callss (sched_step H e st) /\ G (snd st) (snd (sched_step H e st)).
Proof.
  intros callss [i torn] [cls s] [Js Hall]. cbn [fst snd] in *. unfold sched_step. cbn [fst snd].
  destruct (nth_error cls i) as [cl|] eqn:En; [|split; [split; assumption|apply G_refl]].
  destruct (Forall2_nth_r _ _ _ _ _ _ _ Hall En) as (calls & Ecalls & Hc).
  pose proof (client_step_sound calls cl torn s Js Hc) as Hstep.
  destruct (client_step H cl torn s) as [cl' s'] eqn:Es. destruct Hstep as (Hg & Js' & Hc').
  split; [|exact Hg]. split; [exact Js'|]. cbn [fst snd].
  eapply Forall2_set_nth; [exact Hall|exact En| |].
  - intros a b Hab. exact (cinv_stable a b s s' Js Hab Hg).
  - intros a Ea _. rewrite Ecalls in Ea. inversion Ea; subst. exact Hc'.
Qed.

Lemma run_conc_sound : forall callss sched st, sinv callss st -> sinv callss (run_conc H sched st).
Proof.
  intros callss sched. induction sched as [|e t IH]; intros st Hs; cbn; [exact Hs|].
  apply IH. apply sched_step_sound. exact Hs.
Qed.

Lemma sinv_init : forall callss s, J s -> Forall (Forall call_ok) callss -> sinv callss (map (start H) callss, s).
Proof.
  intros callss s Js Hok. split; [exact Js|]. cbn [fst snd].
  induction Hok as [|calls t Hc _ IH]; cbn; constructor; [apply cinv_start; assumption|exact IH].
Qed.

End RG.

(* ---- torn views of a file that only grows along its content *)
Lemma mix_prefix : forall j (c o : bytes), is_prefix o c -> is_prefix (mix j c o) c /\ is_prefix o (mix j c o).
Proof.
  intros j c o [t Ht]. unfold mix. subst c.
  destruct (le_lt_dec j (length o)) as [L|L].
  - rewrite firstn_app. replace (j - length o)%nat with 0%nat by lia. cbn. rewrite app_nil_r, firstn_skipn.
    split; [exists t; reflexivity|apply prefix_refl].
  - rewrite skipn_all2 by lia. rewrite app_nil_r. split; [apply firstn_prefix|].
    rewrite firstn_app. rewrite firstn_all2 by lia. exists (firstn (j - length o) t). reflexivity.
Qed.

Lemma pwrite_chunk : forall c d off x, is_prefix c d -> (off <= length c)%nat -> is_prefix (firstn off d ++ x) d ->
  is_prefix (pwrite c off x) d /\ is_prefix c (pwrite c off x) /\ (off + length x <= length (pwrite c off x))%nat.
Proof.
  intros c d off x Hc Hoff Hx.
  assert (firstn off c = firstn off d) as Ew.
  { rewrite (prefix_firstn c d Hc). rewrite firstn_firstn. f_equal. lia. }
  assert (length (firstn off d) = off) as Lw by (rewrite <- Ew, firstn_length; lia).
  assert (pwrite c off x = pwrite c 0 (firstn off d ++ x)) as E.
  { rewrite !pwrite_le by lia. cbn [firstn app Nat.add]. rewrite Ew, app_length, Lw, <- app_assoc. reflexivity. }
  rewrite E. split; [apply pwrite_prefix_is_prefix; assumption|]. split.
  - rewrite (pwrite_prefix c _ d Hc Hx). destruct (Nat.leb (length c) (length (firstn off d ++ x))) eqn:El; [|apply prefix_refl].
    apply Nat.leb_le in El. apply (prefix_total c _ d Hc Hx El).
  - rewrite pwrite_length by lia. rewrite app_length, Lw. lia.
Qed.

(* Facts about re-entrant lookups and positioned sources (CacheReent.v). *)
From Coq Require Import List Bool Arith NArith ZArith Lia.
From Coq.Strings Require Import Byte.
From GI Require Import Lib.Bytes Gen.CacheConsts Cache.CacheEntry Cache.CacheEntryFacts Cache.Cache Cache.CacheSeqFacts
  Cache.CacheExamples Cache.CacheConc Cache.CacheReent.
Import ListNotations.

(* ---- run_cb *)
Lemma run_cb_none : forall A B (p : prog A) (q : prog B) fs,
  run_cb p q None fs = (fst (run_seq p fs), snd (run_seq p fs), None).
Proof.
  induction p as [a|o k IH]; intros q fs; cbn.
  - reflexivity.
  - destruct (step o fs) as [fs2 r]. apply IH.
Qed.

(* a callback that leaves the files alone is invisible to the program it interrupts *)
Lemma run_cb_pure : forall A B (p : prog A) (q : prog B),
  (forall fs, fst (run_seq q fs) = fs) ->
  forall n fs, fst (run_cb p q n fs) = run_seq p fs.
Proof.
  induction p as [a|o k IH]; intros q Hq n fs; cbn.
  - destruct n; reflexivity.
  - destruct n as [m|].
    + destruct (is_data_write o).
      * destruct m as [|m'].
        -- pose proof (Hq fs) as E. destruct (run_seq q fs) as [fs1 b]. cbn [fst] in E. subst fs1.
           destruct (step o fs) as [fs2 r]. rewrite run_cb_none. cbn [fst].
           destruct (run_seq (k r) fs2); reflexivity.
        -- destruct (step o fs) as [fs2 r]. apply IH, Hq.
      * destruct (step o fs) as [fs2 r]. apply IH, Hq.
    + destruct (step o fs) as [fs2 r]. rewrite run_cb_none. cbn [fst].
      destruct (run_seq (k r) fs2); reflexivity.
Qed.

(* what the callback returned is what it returns when run on its own from some state *)
Lemma run_cb_inner : forall A B (p : prog A) (q : prog B) n fs b,
  snd (run_cb p q n fs) = Some b -> exists fs1, b = snd (run_seq q fs1).
Proof.
  induction p as [a|o k IH]; intros q n fs b; cbn.
  - discriminate.
  - destruct n as [m|].
    + destruct (is_data_write o).
      * destruct m as [|m'].
        -- destruct (run_seq q fs) as [fs1 b1] eqn:E. destruct (step o fs1) as [fs2 r].
           destruct (run_cb (k r) q None fs2) as [[fs3 a] x]. cbn [snd]. intros E2. injection E2 as <-.
           exists fs. rewrite E. reflexivity.
        -- destruct (step o fs) as [fs2 r]. apply IH.
      * destruct (step o fs) as [fs2 r]. apply IH.
    + destruct (step o fs) as [fs2 r]. rewrite run_cb_none. cbn [snd]. discriminate.
Qed.

(* ---- calls *)
Lemma run_lookup_call : forall H c fs, is_lookup c = true ->
  run_seq (call_prog H c) fs =
  (fs, match c with
       | CGet id => XGet (get fs id)
       | CGetBytes id => XBytes (get_bytes H fs id)
       | CGetFile id => XFile (get_file fs id)
       | _ => XGet None
       end).
Proof.
  intros H c fs Hc. destruct c as [id ch tm|id rd tm|id|id|id]; try discriminate; cbn [call_prog]; rewrite run_seq_bind.
  - unfold get. rewrite (run_get fs id). reflexivity.
  - unfold get_bytes. rewrite (run_get_bytes H fs id). reflexivity.
  - unfold get_file. rewrite (run_get_file fs id). reflexivity.
Qed.

Lemma lookup_call_pure : forall H c, is_lookup c = true -> forall fs, fst (run_seq (call_prog H c) fs) = fs.
Proof. intros H c Hc fs. rewrite run_lookup_call by exact Hc. reflexivity. Qed.

(* ---- a lookup made by the source in the middle of a Put does not disturb the Put *)
Theorem put_cb_transparent : forall H id chunks tm c w fs,
  is_lookup c = true ->
  fst (put_cb H id chunks tm c w fs) = put H fs id (honest_reader chunks) tm.
Proof.
  intros H id chunks tm c w fs Hc. unfold put_cb, put. destruct w as [| |n].
  - destruct (run_seq (put_prog H id (honest_reader chunks) tm) fs); reflexivity.
  - pose proof (lookup_call_pure H c Hc fs) as E. destruct (run_seq (call_prog H c) fs) as [fs1 b].
    cbn [fst] in E. subst fs1. destruct (run_seq (put_prog H id (honest_reader chunks) tm) fs); reflexivity.
  - apply run_cb_pure, lookup_call_pure, Hc.
Qed.

Theorem put_cb_get : forall (H : bytes -> bytes),
  (forall x, length (H x) = hash_size_n) ->
  forall chunks fs id tm c w,
  let d := concat chunks in
  is_lookup c = true ->
  length id = hash_size_n ->
  (0 <= tm < int64_lim)%Z -> (Z.of_nat (length d) < int64_lim)%Z ->
  (forall c0, fs (DatP (H d)) = Some c0 -> H c0 = H d -> c0 = d) ->
  exists fs',
    fst (put_cb H id chunks tm c w fs) = (fs', PutOk (H d) (length d)) /\
    get_bytes H fs' id = Found d (H d) (Z.of_nat (length d)) tm /\
    get_file fs' id = Found (DatP (H d)) (H d) (Z.of_nat (length d)) tm /\
    fs' (DatP (H d)) = Some d.
Proof.
  intros H Hlen chunks fs id tm c w d Hc Li Ht Hs Hcol.
  destruct (put_get H Hlen chunks fs id tm Li Ht Hs Hcol) as (fs' & E & R).
  exists fs'. split; [|exact R]. rewrite put_cb_transparent by exact Hc. exact E.
Qed.

(* ... and what it is told is sound, whatever the Put has written so far *)
Theorem put_cb_inner_sound : forall H id chunks tm c w fs b,
  is_lookup c = true ->
  snd (put_cb H id chunks tm c w fs) = Some b ->
  match b with
  | XBytes (Found d out _ _) => H d = out
  | XFile (Found p out size _) => p = DatP out /\ exists (fs1 : files) (c0 : bytes), fs1 p = Some c0 /\ Z.of_nat (length c0) = size
  | _ => True
  end.
Proof.
  intros H id chunks tm c w fs b Hc E.
  assert (exists fs1, b = snd (run_seq (call_prog H c) fs1)) as (fs1 & ->).
  { unfold put_cb in E. destruct w as [| |n].
    - destruct (run_seq (put_prog H id (honest_reader chunks) tm) fs); discriminate.
    - destruct (run_seq (call_prog H c) fs) as [fs1 b1] eqn:E1.
      destruct (run_seq (put_prog H id (honest_reader chunks) tm) fs1). cbn [snd] in E. injection E as <-.
      exists fs. rewrite E1. reflexivity.
    - eapply run_cb_inner, E. }
  rewrite run_lookup_call by exact Hc. cbn [snd].
  destruct c as [id0 ch tm0|id0 rd tm0|id0|id0|id0]; try discriminate; try exact I.
  - pose proof (get_bytes_sound H fs1 id0) as S. destruct (get_bytes H fs1 id0); [exact I|]. apply S.
  - pose proof (get_file_sound fs1 id0) as S. destruct (get_file fs1 id0) as [|p out size tm1]; [exact I|].
    destruct S as (Ep & _ & c0 & Ec & El). split; [exact Ep|].
    destruct (lookups_pure H fs1 id0) as (_ & Ef & _). rewrite Ef in Ec. exists fs1, c0. split; assumption.
Qed.

(* ---- positioned sources: Put rewinds, so the position does not matter *)
Lemma reader_of_memsrc_honest : forall s cut,
  concat (cut (ms_data s)) = ms_data s ->
  reader_of_memsrc s cut = honest_reader (cut (ms_data s)).
Proof.
  intros s cut E. unfold reader_of_memsrc, honest_reader, ms_pass.
  change put_order_ok with true. change copy_commit_ok with true. cbv iota. rewrite E. reflexivity.
Qed.

Theorem put_src_get : forall (H : bytes -> bytes),
  (forall x, length (H x) = hash_size_n) ->
  forall cut s fs id tm,
  let d := ms_data s in
  concat (cut d) = d ->
  length id = hash_size_n ->
  (0 <= tm < int64_lim)%Z -> (Z.of_nat (length d) < int64_lim)%Z ->
  (forall c0, fs (DatP (H d)) = Some c0 -> H c0 = H d -> c0 = d) ->
  exists fs',
    put_src H fs id s cut tm = (fs', PutOk (H d) (length d)) /\
    get_bytes H fs' id = Found d (H d) (Z.of_nat (length d)) tm /\
    get_file fs' id = Found (DatP (H d)) (H d) (Z.of_nat (length d)) tm /\
    fs' (DatP (H d)) = Some d.
Proof.
  intros H Hlen cut s fs id tm d Ec Li Ht Hs Hcol. unfold put_src.
  rewrite reader_of_memsrc_honest by exact Ec. fold d.
  pose proof (put_get H Hlen (cut d) fs id tm) as P. cbv zeta in P. rewrite Ec in P.
  exact (P Li Ht Hs Hcol).
Qed.

(* the reader a Put has used (left at its end) given to Put again, for any id: the whole data again *)
Theorem put_src_reuse : forall (H : bytes -> bytes),
  (forall x, length (H x) = hash_size_n) ->
  forall cut s fs id tm id' tm',
  let d := ms_data s in
  concat (cut d) = d ->
  length id = hash_size_n -> length id' = hash_size_n ->
  (0 <= tm < int64_lim)%Z -> (0 <= tm' < int64_lim)%Z -> (Z.of_nat (length d) < int64_lim)%Z ->
  (forall c0, fs (DatP (H d)) = Some c0 -> H c0 = H d -> c0 = d) ->
  exists fs' fs'',
    put_src H fs id s cut tm = (fs', PutOk (H d) (length d)) /\
    put_src H fs' id' (ms_after_put s) cut tm' = (fs'', PutOk (H d) (length d)) /\
    get_bytes H fs'' id' = Found d (H d) (Z.of_nat (length d)) tm' /\
    get_file fs'' id' = Found (DatP (H d)) (H d) (Z.of_nat (length d)) tm'.
Proof.
  intros H Hlen cut s fs id tm id' tm' d Ec Li Li' Ht Ht' Hs Hcol.
  destruct (put_src_get H Hlen cut s fs id tm Ec Li Ht Hs Hcol) as (fs' & E1 & _ & _ & Hd).
  assert (forall c0, fs' (DatP (H d)) = Some c0 -> H c0 = H d -> c0 = d) as Hcol'.
  { intros c0 E0 _. fold d in Hd. rewrite Hd in E0. injection E0 as <-. reflexivity. }
  destruct (put_src_get H Hlen cut (ms_after_put s) fs' id' tm' Ec Li' Ht' Hs Hcol') as (fs'' & E2 & G & F & _).
  exists fs', fs''. split; [exact E1|]. split; [exact E2|]. split; [exact G|exact F].
Qed.

(* in the interleaved semantics a Put from a positioned in-memory source IS the Put of its whole data:
   every C11 theorem about CPut covers sources handed over at any position, and reused readers *)
Lemma call_put_positioned : forall H id cut s tm,
  concat (cut (ms_data s)) = ms_data s ->
  call_prog H (CPutR id (reader_of_memsrc s cut) tm) = call_prog H (CPut id (cut (ms_data s)) tm).
Proof. intros H id cut s tm E. cbn [call_prog]. rewrite reader_of_memsrc_honest by exact E. reflexivity. Qed.

(* ---- histories: inner lookups and source positions leave no trace in the files, so every theorem
   about histories (history_sound, put_get_persists) carries over to histories containing them *)
Lemma xhop_erase : forall H o fs, xhop_ok o -> xhop_run H o fs = hop_run H (xerase o) fs.
Proof.
  intros H o fs Ho. destruct o as [o|id chunks tm c w|id s cut tm]; cbn [xhop_run xerase hop_run].
  - reflexivity.
  - rewrite put_cb_transparent by exact Ho. reflexivity.
  - unfold put_src. rewrite reader_of_memsrc_honest by exact Ho. reflexivity.
Qed.

Theorem xhistory_erase : forall H ops fs,
  Forall xhop_ok ops -> xhistory_run H ops fs = history_run H (map xerase ops) fs.
Proof.
  intros H ops. induction ops as [|o r IH]; intros fs Hok; [reflexivity|].
  inversion Hok as [|? ? Ho Hr]; subst. unfold xhistory_run, history_run. cbn [fold_left map].
  rewrite xhop_erase by exact Ho. apply IH, Hr.
Qed.

Lemma Forall_firstn : forall A (P : A -> Prop) n l, Forall P l -> Forall P (firstn n l).
Proof.
  intros A P n. induction n as [|n IH]; intros l Hl; [constructor|].
  destruct l as [|x r]; [constructor|]. inversion Hl; subst. cbn. constructor; [assumption|apply IH; assumption].
Qed.

(* after every prefix of such a history the lookups of every id are sound *)
Theorem xhistory_sound : forall H ops fs n id,
  Forall xhop_ok ops ->
  let s := xhistory_run H (firstn n ops) fs in bytes_ok H s id /\ file_ok s id.
Proof.
  intros H ops fs n id Hok. cbv zeta.
  rewrite xhistory_erase by (apply Forall_firstn, Hok). rewrite <- firstn_map.
  exact (history_sound H (map xerase ops) fs n id).
Qed.

(* ---- instances *)
Local Open Scope Z_scope.

(* the output of id1 is damaged (bit flip, same length); a Put of the same content under id2 whose
   source looks id1 up just before the first write to the output: the lookup is told not-found (bad
   checksum), the Put succeeds all the same, and afterwards id1 reads d1 again.  Just before the
   committing write the same lookup already hits: the file is rewritten in place, and the four
   bytes written so far, followed by the old last byte, are the content. *)
Example ex_put_cb :
  let r := put_cb toyH id2 [firstn 4 d1; skipn 4 d1] 9 (CGetBytes id1) (CbWrite 0) damaged in
  snd r = Some (XBytes NotFound) /\ snd (fst r) = PutOk (toyH d1) 5 /\
  get_bytes toyH (fst (fst r)) id1 = Found d1 (toyH d1) 5 7 /\
  get_bytes toyH (fst (fst r)) id2 = Found d1 (toyH d1) 5 9 /\
  snd (put_cb toyH id2 [firstn 4 d1; skipn 4 d1] 9 (CGetBytes id1) (CbWrite 1) damaged) = Some (XBytes (Found d1 (toyH d1) 5 7)).
Proof. vm_compute. auto 6. Qed.

(* the same lookup made in the hash pass sees the damaged file; made where no write follows, never *)
Example ex_put_cb_points :
  snd (put_cb toyH id2 [firstn 4 d1; skipn 4 d1] 9 (CGetFile id1) CbBefore damaged)
    = Some (XFile (Found (DatP (toyH d1)) (toyH d1) 5 7)) /\
  snd (put_cb toyH id2 [firstn 4 d1; skipn 4 d1] 9 (CGetFile id1) (CbWrite 2) damaged) = None.
Proof. vm_compute. auto. Qed.

(* a source left at its end by a first Put, given to a second one *)
Example ex_call_put_positioned :
  let cut := fun d : bytes => [firstn 4 d; skipn 4 d] in
  call_prog toyH (CPutR id1 (reader_of_memsrc {| ms_data := d1; ms_pos := 5 |} cut) 7) = call_prog toyH (CPut id1 (cut d1) 7).
Proof. apply call_put_positioned. reflexivity. Qed.

Example ex_put_src_reuse :
  let s := {| ms_data := d1; ms_pos := 3 |} in
  let cut := fun d : bytes => [firstn 4 d; skipn 4 d] in
  let fs' := fst (put_src toyH no_files id1 s cut 7) in
  let fs'' := fst (put_src toyH fs' id2 (ms_after_put s) cut 9) in
  concat (cut d1) = d1 /\ ms_pos (ms_after_put s) = 5%nat /\
  get_bytes toyH fs'' id1 = Found d1 (toyH d1) 5 7 /\ get_bytes toyH fs'' id2 = Found d1 (toyH d1) 5 9.
Proof. vm_compute. auto. Qed.

(* a history mixing a plain Put, damage, a Put whose source looks the damaged id up, and a Put from a
   reader left at its end *)
Example ex_xhistory :
  let cut := fun d : bytes => [firstn 4 d; skipn 4 d] in
  let ops := [XPlain (HPut id1 (honest_reader [d1]) 7); XPlain (HDamage (dmg_flip (DatP (toyH d1)) 1));
              XPutCb id2 (cut d1) 9 (CGetBytes id1) (CbWrite 0);
              XPutSrc id1 {| ms_data := d1; ms_pos := 5 |} cut 11] in
  Forall xhop_ok ops /\
  get_bytes toyH (xhistory_run toyH ops no_files) id1 = Found d1 (toyH d1) 5 11 /\
  get_bytes toyH (xhistory_run toyH ops no_files) id2 = Found d1 (toyH d1) 5 9.
Proof. split; [repeat constructor|vm_compute; auto]. Qed.

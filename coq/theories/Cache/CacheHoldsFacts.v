(* The boolean form of the C05 soundness statement is the constant true. *)
From Coq Require Import List Bool Arith NArith ZArith Lia.
From Coq.Strings Require Import Byte.
From GI Require Import Lib.Bytes Gen.CacheConsts Cache.CacheEntry Cache.CacheEntryFacts Cache.Cache
  Cache.CacheSeqFacts Cache.CacheFault Cache.CacheHolds.
Import ListNotations.

Lemma lookup_sound_on_true : forall H fs id, lookup_sound_on H fs id = true.
Proof.
  intros H fs id. unfold lookup_sound_on. apply andb_true_iff. split.
  - pose proof (get_bytes_sound H fs id) as B. destruct (get_bytes H fs id); [reflexivity|].
    destruct B as [B _]. apply bytes_eqb_eq. exact B.
  - pose proof (get_file_sound fs id) as F. destruct (get_file fs id) as [|p out size tm]; [reflexivity|].
    destruct F as (_ & _ & c & Hc & Hl). rewrite run_get_file in Hc. cbn [fst] in Hc. rewrite Hc. apply Z.eqb_eq. exact Hl.
Qed.

Theorem c05_holds_on_true : forall H fs ids, c05_holds_on H fs ids = true.
Proof. intros H fs ids. unfold c05_holds_on. apply forallb_forall. intros id _. apply lookup_sound_on_true. Qed.

Theorem c05_put_holds_on_true : forall (H : bytes -> bytes),
  (forall x, length (H x) = hash_size_n) ->
  forall chunks fs id tm,
  let d := concat chunks in
  length id = hash_size_n ->
  (0 <= tm < int64_lim)%Z -> (Z.of_nat (length d) < int64_lim)%Z ->
  (forall c, fs (DatP (H d)) = Some c -> H c = H d -> c = d) ->
  c05_put_holds_on H fs id chunks tm = true.
Proof.
  intros H Hlen chunks fs id tm d Li Ht Hs Hcol.
  destruct (put_get H Hlen chunks fs id tm Li Ht Hs Hcol) as (fs' & Ep & Eb & Ef & Ed). fold d in Ep, Eb, Ef, Ed.
  unfold c05_put_holds_on. fold d. rewrite Ep, Eb, Ef, Ed.
  rewrite !bytes_eqb_refl, Nat.eqb_refl. reflexivity.
Qed.

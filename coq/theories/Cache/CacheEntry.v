(* Index-entry codec of /repo/cache/cache.go: definitions only.
   [encode_entry] is fmt.Sprintf(entry_format, id, out, size, tm) (putIndexEntry), through a
   small interpreter of the verbs the format uses (%x on byte strings, %<width>d on integers);
   [parse_entry] follows Cache.get check by check. *)
From Coq Require Import List Bool Arith NArith ZArith.
From Coq.Strings Require Import Byte.
From GI Require Import Lib.Bytes Gen.CacheConsts.
Import ListNotations.
Local Open Scope Z_scope.

(* ---- constants as list lengths *)
Definition hash_size_n : nat := Z.to_nat HashSize.
Definition hex_size_n : nat := Z.to_nat hexSize.
Definition entry_size_n : nat := Z.to_nat entrySize.
Definition size_width_n : nat := Z.to_nat entry_size_width.
Definition time_width_n : nat := Z.to_nat entry_time_width.

(* ---- hex *)
Definition bZ (b : byte) : Z := Z.of_N (Byte.to_N b).
Definition byte_of_Z (z : Z) : byte :=
  match Byte.of_N (Z.to_N z) with Some b => b | None => x00 end.

(* lower-case digit of a value < 16 (fmt %x) *)
Definition hex_digit (v : Z) : byte :=
  if v <? 10 then byte_of_Z (48 + v) else byte_of_Z (87 + v).
Definition hex_byte (b : byte) : bytes := [hex_digit (bZ b / 16); hex_digit (bZ b mod 16)].
Definition hex (d : bytes) : bytes := flat_map hex_byte d.

(* encoding/hex fromHexChar: 0-9, a-f, A-F *)
Definition from_hex_char (c : byte) : option Z :=
  let v := bZ c in
  if (48 <=? v) && (v <=? 57) then Some (v - 48)
  else if (97 <=? v) && (v <=? 102) then Some (v - 87)
  else if (65 <=? v) && (v <=? 70) then Some (v - 55)
  else None.

(* encoding/hex.Decode on a source of even length; odd length is ErrLength *)
Fixpoint hex_decode (s : bytes) : option bytes :=
  match s with
  | [] => Some []
  | [_] => None
  | a :: b :: r =>
      match from_hex_char a, from_hex_char b with
      | Some x, Some y =>
          match hex_decode r with
          | Some d => Some (byte_of_Z (x * 16 + y) :: d)
          | None => None
          end
      | _, _ => None
      end
  end.

(* ---- decimal *)
Definition digit_val (c : byte) : option Z :=
  let v := bZ c in if (48 <=? v) && (v <=? 57) then Some (v - 48) else None.

(* digits of a non-negative number, most significant first; the fuel is the bit size, which
   bounds the number of decimal digits *)
Fixpoint digits_fuel (fuel : nat) (n : Z) (acc : bytes) : bytes :=
  match fuel with
  | O => byte_of_Z (48 + n mod 10) :: acc
  | S f => if n <? 10 then byte_of_Z (48 + n) :: acc
           else digits_fuel f (n / 10) (byte_of_Z (48 + n mod 10) :: acc)
  end.
Definition digits (n : Z) : bytes := digits_fuel (Z.to_nat (Z.log2_up (n + 1))) n [].

(* fmt %d *)
Definition fmt_int (z : Z) : bytes := if z <? 0 then x2d :: digits (- z) else digits z.

Definition pad_left (w : nat) (s : bytes) : bytes := repeat SP (w - length s) ++ s.

(* ---- the verbs of entry_format *)
Inductive farg := AHex (b : bytes) | AInt (z : Z).

(* st = None: copying literal text; st = Some w: inside a verb, width w read so far *)
Fixpoint sprintf_go (st : option nat) (f : bytes) (args : list farg) : option bytes :=
  match f with
  | [] => match st, args with None, [] => Some [] | _, _ => None end
  | c :: r =>
      match st with
      | None =>
          if beq c x25 then sprintf_go (Some O) r args
          else option_map (cons c) (sprintf_go None r args)
      | Some w =>
          match digit_val c with
          | Some v => sprintf_go (Some (w * 10 + Z.to_nat v)%nat) r args
          | None =>
              if beq c x78 then
                match args with
                | AHex b :: rest => option_map (app (pad_left w (hex b))) (sprintf_go None r rest)
                | _ => None
                end
              else if beq c x64 then
                match args with
                | AInt z :: rest => option_map (app (pad_left w (fmt_int z))) (sprintf_go None r rest)
                | _ => None
                end
              else None
          end
      end
  end.
Definition sprintf (f : bytes) (args : list farg) : option bytes := sprintf_go None f args.

Definition encode_entry (id out : bytes) (size tm : Z) : bytes :=
  match sprintf entry_format [AHex id; AHex out; AInt size; AInt tm] with
  | Some e => e
  | None => []
  end.

(* ---- strconv.ParseInt(s, 10, 64) *)
Fixpoint parse_digits (acc : Z) (s : bytes) : option Z :=
  match s with
  | [] => Some acc
  | c :: r => match digit_val c with
              | Some v => parse_digits (acc * 10 + v) r
              | None => None
              end
  end.

Definition int64_lim : Z := 2 ^ 63.

Definition parse_int (s : bytes) : option Z :=
  match s with
  | [] => None
  | c :: r =>
      let neg := beq c x2d in
      let ds := if beq c x2b || beq c x2d then r else s in
      match ds with
      | [] => None
      | _ => match parse_digits 0 ds with
             | None => None
             | Some u =>
                 if neg then (if u <=? int64_lim then Some (- u) else None)
                 else (if u <? int64_lim then Some u else None)
             end
      end
  end.

(* for i < len(s) && s[i] == ' ' { i++ } ; s[i:] *)
Fixpoint skip_spaces (s : bytes) : bytes :=
  match s with
  | c :: r => if beq c SP then skip_spaces r else s
  | [] => []
  end.

(* ---- Cache.get on the bytes read by io.ReadFull(f, make([]byte, entrySize+1)) *)
Definition byte_at (i : nat) (e : bytes) : byte := nth i e x00.
Definition slice (lo hi : nat) (e : bytes) : bytes := firstn (hi - lo) (skipn lo e).

Definition header_ok (e : bytes) : bool :=
  beq (byte_at 0 e) x76 && beq (byte_at 1 e) x31 && beq (byte_at 2 e) SP
  && beq (byte_at (3 + hex_size_n) e) SP
  && beq (byte_at (3 + hex_size_n + 1 + hex_size_n) e) SP
  && beq (byte_at (3 + hex_size_n + 1 + hex_size_n + 1 + size_width_n) e) SP
  && beq (byte_at (entry_size_n - 1) e) NL.

Definition parse_entry (e id : bytes) : option (bytes * Z * Z) :=
  (* n > entrySize: too long; n < entrySize: empty / incomplete *)
  if negb (Nat.eqb (length e) entry_size_n) then None else
  if negb (header_ok e) then None else
  let eid := slice 3 (3 + hex_size_n) e in
  let e1 := skipn (3 + hex_size_n) e in
  let eout := slice 1 (1 + hex_size_n) e1 in
  let e2 := skipn (1 + hex_size_n) e1 in
  let esize := slice 1 (1 + size_width_n) e2 in
  let e3 := skipn (1 + size_width_n) e2 in
  let etime := slice 1 (1 + time_width_n) e3 in
  match hex_decode eid with
  | None => None
  | Some buf =>
      if negb (bytes_eqb buf id) then None else
      match hex_decode eout with
      | None => None
      | Some out =>
          match parse_int (skip_spaces esize) with
          | None => None
          | Some size =>
              if size <? 0 then None else
              match parse_int (skip_spaces etime) with
              | None => None
              | Some tm => if tm <? 0 then None else Some (out, size, tm)
              end
          end
      end
  end.

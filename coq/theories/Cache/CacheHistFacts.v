(* Histories of faulty Puts (C12): a cache value carries no state beside the files, so a history
   of calls is a fold of the faulty semantics over the file map.  From an undamaged store every
   history of Puts, each with at most one fault (a file operation faults and the source behaves,
   or the source misbehaves and no operation faults), keeps the invariant, keeps every complete
   output file exactly as it is -- also when it is the very output the faulty Put is storing,
   shared with other ids -- and keeps the lookups of every id the history does not store. *)
From Coq Require Import List Bool Arith NArith ZArith Lia.
From Coq.Strings Require Import Byte.
From GI Require Import Lib.Bytes Gen.CacheConsts Cache.CacheEntry Cache.CacheEntryFacts Cache.Cache
  Cache.CacheSeqFacts Cache.CacheExamples Cache.CacheFault Cache.CacheFaultFacts Cache.CacheFaultExamples.
Import ListNotations.

(* one call of a history: Put(id, source) at time tm under a fault budget *)
Record fput := { fp_id : bytes; fp_rd : reader; fp_tm : Z; fp_b : budget }.

Section Hist.
Variable H : bytes -> bytes.
Variable U : bytes -> Prop.
Hypothesis H_len : forall x, length (H x) = hash_size_n.
Hypothesis H_inj : H_inj_on H U.

Definition fput_run (s : fput) (fs : files) : files :=
  fst (fst (run_f (fp_b s) (put_prog H (fp_id s) (fp_rd s) (fp_tm s)) fs)).

(* the whole state a history hands from call to call is the file map *)
Definition fhistory_run (l : list fput) (fs : files) : files := fold_left (fun s x => fput_run x s) l fs.

Definition fput_ok (s : fput) : Prop :=
  length (fp_id s) = hash_size_n /\ U (rd_pass1 (fp_rd s)) /\ one_fault H (fp_b s) (fp_rd s).

(* a faulty Put whose output is ALREADY stored leaves that output's bytes unchanged, at every fault
   point; so does a faulty Put of any other content *)
Theorem failed_put_preserves_shared_output : forall fs s d,
  I1 H U fs -> fput_ok s -> U d -> fs (DatP (H d)) = Some d -> fput_run s fs (DatP (H d)) = Some d.
Proof.
  intros fs [id rd tm b] d Hi1 (Li & Ud0 & Hone) Ud Hf. unfold fput_run. cbn [fp_id fp_rd fp_tm fp_b] in *.
  destruct (put_faulty_post H U H_len H_inj fs id rd tm b Li Hi1 Ud0 Hone) as (Hfr & _ & Hkeep & _).
  destruct (bytes_eqb (H d) (H (rd_pass1 rd))) eqn:E.
  - apply bytes_eqb_eq in E. assert (d = rd_pass1 rd) by (apply H_inj; assumption). subst d. apply Hkeep. exact Hf.
  - apply bytes_eqb_neq in E. rewrite Hfr; [exact Hf| |discriminate]. intros Eq; inversion Eq; congruence.
Qed.

Theorem faulty_history_inv : forall l fs, Inv H U fs -> Forall fput_ok l -> Inv H U (fhistory_run l fs).
Proof.
  induction l as [|s l IH]; intros fs Hinv Hall; cbn [fhistory_run fold_left]; [exact Hinv|].
  inversion Hall as [|? ? Hs Hl]; subst. apply IH; [|exact Hl].
  destruct s as [id rd tm b]. destruct Hs as (Li & Ud & Hone). unfold fput_run. cbn [fp_id fp_rd fp_tm fp_b] in *.
  apply inv_put_faulty; assumption.
Qed.

Theorem faulty_history_preserves_outputs : forall l fs d,
  Inv H U fs -> Forall fput_ok l -> U d -> fs (DatP (H d)) = Some d -> fhistory_run l fs (DatP (H d)) = Some d.
Proof.
  induction l as [|s l IH]; intros fs d Hinv Hall Ud Hf; cbn [fhistory_run fold_left]; [exact Hf|].
  inversion Hall as [|? ? Hs Hl]; subst. apply IH; [|exact Hl|exact Ud|].
  - apply (faulty_history_inv [s] fs Hinv). constructor; [exact Hs|constructor].
  - apply failed_put_preserves_shared_output; [apply Hinv|exact Hs|exact Ud|exact Hf].
Qed.

(* every id the history does not store keeps its lookups, whatever the faults, whatever outputs are shared *)
Lemma fhistory_cons : forall s l fs, fhistory_run (s :: l) fs = fhistory_run l (fput_run s fs).
Proof. reflexivity. Qed.

Theorem faulty_history_frame : forall l fs id',
  Inv H U fs -> Forall fput_ok l -> Forall (fun s => fp_id s <> id') l ->
  let fs' := fhistory_run l fs in
  get fs' id' = get fs id' /\ get_bytes H fs' id' = get_bytes H fs id' /\ get_file fs' id' = get_file fs id'.
Proof.
  induction l as [|s l IH]; intros fs id' Hinv Hall Hne; cbn zeta; [cbn; auto|].
  rewrite fhistory_cons.
  inversion Hall as [|? ? Hs Hl]; subst. inversion Hne as [|? ? Hn Hnl]; subst.
  assert (Inv H U (fput_run s fs)) as Hinv1.
  { apply (faulty_history_inv [s] fs Hinv). constructor; [exact Hs|constructor]. }
  destruct (IH (fput_run s fs) id' Hinv1 Hl Hnl) as (E1 & E2 & E3).
  rewrite E1, E2, E3.
  destruct s as [id rd tm b]. destruct Hs as (Li & Ud & Hone). unfold fput_run. cbn [fp_id fp_rd fp_tm fp_b] in *.
  apply (failed_put_frame H U H_len H_inj fs id rd tm b id' Hinv Li Ud Hone). intros E. apply Hn. symmetry. exact E.
Qed.

(* an entry that reads d0 before the history reads d0 after it, through GetBytes and through GetFile *)
Corollary faulty_history_keeps_readable : forall l fs id' d0 out size tm,
  Inv H U fs -> Forall fput_ok l -> Forall (fun s => fp_id s <> id') l ->
  get_bytes H fs id' = Found d0 out size tm ->
  get_bytes H (fhistory_run l fs) id' = Found d0 out size tm /\ get_file (fhistory_run l fs) id' = get_file fs id'.
Proof.
  intros l fs id' d0 out size tm Hinv Hall Hne Hg.
  destruct (faulty_history_frame l fs id' Hinv Hall Hne) as (_ & E2 & E3). rewrite E2, E3. auto.
Qed.

(* PutBytes: the source cannot misbehave, so every single file fault of regime (a) is covered *)
Theorem put_bytes_faulty_post : forall chunks fs id tm b,
  let d := concat chunks in
  length id = hash_size_n -> I1 H U fs -> U d -> regime_a b ->
  put_post H id d fs (fst (fst (run_f b (put_bytes_prog H id chunks tm) fs))).
Proof.
  intros chunks fs id tm b d Li Hi1 Ud Hr. unfold put_bytes_prog.
  replace put_bytes_via_put with true by reflexivity.
  apply (put_faulty_post H U H_len H_inj fs id (honest_reader chunks) tm b Li Hi1 Ud).
  left. split; [|exact Hr]. repeat split.
Qed.

End Hist.

(* ---- non-vacuity: on the store holding id1 -> "hello", three Puts of the SAME content "hello" under
   id2 -- a failing file operation, a source that lies on the second pass, a stop in mid-run --
   satisfy the hypotheses; id1 still reads "hello" and its output file is untouched.  (With the
   pre-state's output shared, none of the three even reaches the second pass of the source.) *)
Definition ex_hist : list fput :=
  [ {| fp_id := id2; fp_rd := honest_reader [d1]; fp_tm := 8%Z; fp_b := Some (3%nat, FFail) |};
    {| fp_id := id2; fp_rd := liar; fp_tm := 9%Z; fp_b := None |};
    {| fp_id := id2; fp_rd := honest_reader [d1]; fp_tm := 10%Z; fp_b := Some (6%nat, FStopAfter) |} ].

Example ex_hist_ok : Forall (fput_ok toyH U2) ex_hist /\ Forall (fun s => fp_id s <> id1) ex_hist.
Proof.
  split.
  - constructor; [|constructor; [|constructor; [|constructor]]].
    + split; [reflexivity|]. split; [left; reflexivity|]. left. split; [apply ex_honest|exact I].
    + split; [reflexivity|]. split; [left; reflexivity|]. right. split; [reflexivity|].
      intros E. vm_compute in E. discriminate.
    + split; [reflexivity|]. split; [left; reflexivity|]. left. split; [apply ex_honest|exact I].
  - repeat constructor; intros E; vm_compute in E; discriminate.
Qed.

Example ex_hist_keeps :
  get_bytes toyH (fhistory_run toyH ex_hist store0) id1 = Found d1 (toyH d1) 5 7 /\
  fhistory_run toyH ex_hist store0 (DatP (toyH d1)) = Some d1.
Proof.
  destruct ex_hist_ok as [Hok Hne]. split.
  - apply (faulty_history_keeps_readable toyH U2 toyH_len ex_inj ex_hist store0 id1 d1 (toyH d1) 5%Z 7%Z ex_inv_store0 Hok Hne).
    apply ex_store0.
  - apply (faulty_history_preserves_outputs toyH U2 toyH_len ex_inj ex_hist store0 d1 ex_inv_store0 Hok); [left; reflexivity|].
    vm_compute. reflexivity.
Qed.

(* two faults at once are outside the statement, and for a reason: a source that lies on the second
   pass AND a failing Stat make Put rewrite the complete, shared output in place, and its failure
   exit truncates it: id1 is lost *)
Example ex_two_faults_damage :
  fst (fst (run_f (Some (0%nat, FFail)) (put_prog toyH id2 liar 9%Z) store0)) (DatP (toyH d1)) = Some [] /\
  get_bytes toyH (fst (fst (run_f (Some (0%nat, FFail)) (put_prog toyH id2 liar 9%Z) store0))) id1 = NotFound.
Proof. vm_compute. auto. Qed.

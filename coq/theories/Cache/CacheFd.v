(* Descriptors as a resource of the OS model: definitions only.
   A call of the cache API opens files and must close every one of them before it returns, on
   every path: whatever results its operations deliver (success, failure, short write/read).
   The descriptors of the running call are the multiset of the paths it has open; OOpen with the
   result ROk adds one, OClose releases one (as close(2) does, also when it reports an error; a
   second Close of an already closed file releases nothing).  When the process stops, the kernel
   closes what it held: there is nothing left to account for. *)
From Coq Require Import List Bool Arith NArith ZArith.
From Coq.Strings Require Import Byte.
From GI Require Import Lib.Bytes Gen.CacheConsts Cache.CacheEntry Cache.Cache Cache.CacheFault.
Import ListNotations.

Definition fds := list path.

Fixpoint remove_one (p : path) (l : fds) : fds :=
  match l with
  | [] => []
  | q :: r => if path_eqb q p then r else q :: remove_one p r
  end.

Definition fd_step (o : op) (r : res) (open : fds) : fds :=
  match o with
  | OOpen p _ _ => match r with ROk => p :: open | _ => open end
  | OClose p => remove_one p open
  | _ => open
  end.

(* the descriptors open when a run under a fault budget returns; None when the process stopped *)
Fixpoint fds_f {A} (b : budget) (p : prog A) (fs : files) (open : fds) : option fds :=
  match p with
  | Ret _ => Some open
  | Op o k =>
      match b with
      | None => let '(fs', r) := step o fs in fds_f None (k r) fs' (fd_step o r open)
      | Some (S n, f) => let '(fs', r) := step o fs in fds_f (Some (n, f)) (k r) fs' (fd_step o r open)
      | Some (O, f) =>
          match f with
          | FStopBefore | FStopAfter | FTorn _ => None
          | FFail => let '(fs', r) := fail_step o fs in fds_f None (k r) fs' (fd_step o r open)
          | FShort j => let '(fs', r) := short_step j o fs in fds_f None (k r) fs' (fd_step o r open)
          end
      end
  end.

(* a program that, started with the descriptors [open], has closed everything when it returns,
   whatever its operations answer *)
Inductive closes_all {A} : fds -> prog A -> Prop :=
| ca_ret : forall a, closes_all [] (Ret a)
| ca_op : forall o k open, (forall r, closes_all (fd_step o r open) (k r)) -> closes_all open (Op o k).

(* the number of descriptors a call leaves open (what the runner measures through /proc/self/fd) *)
Definition fd_leak {A} (b : budget) (p : prog A) (fs : files) : option nat :=
  match fds_f b p fs [] with Some l => Some (length l) | None => None end.

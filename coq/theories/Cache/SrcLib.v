(* The library calls and struct types of the pure segments of cache/cache.go for the translation
   Gen/CacheSrc.v (table: harness/cmd/genconsts/gen_cache_src.go).  Definitions only.  Each
   denotation is DEFINED from the functions the hand-written models already use for the same
   call -- Cache/CacheEntry.v (hex, decimal, the verbs of the entry format; compared with the Go
   library by the runner of harness/cmd/cache on every raw entry it generates), CacheTrim/
   CacheTrim.v (package time written out from Go 1.23's time.go; compared by the runner of
   harness/cmd/cachetrim at every threshold) and TxtarWrite/Path.v (filepath.Clean / Join for
   Unix; compared exhaustively by harness/cmd/txtarwrite) -- completed by what those models
   leave out because their callers do not look at it: the value ParseInt returns next to an
   error, the bytes hex.Decode has written when it stops, the zero flag of %02x.  The runner
   of harness/cmd/cache evaluates the translated segments through these definitions and
   compares them with the implementation. *)
From Coq Require Import List Bool Arith ZArith.
From Coq.Strings Require Import Byte.
From GI Require Import Lib.Bytes Lib.GoSem Lib.GoSemSeg Gen.CacheConsts Cache.CacheEntry.
From GI Require CacheTrim.CacheTrim TxtarWrite.Path.
Import ListNotations.
Local Open Scope Z_scope.

(* ------------------------------------------------------------------ types *)

(* time.Time without monotonic reading: seconds since year 1 and nanoseconds (CacheTrim.v) *)
Definition go_time : Type := CacheTrim.gotime.
(* the zero Time: January 1, year 1, 00:00:00 UTC *)
Definition go_time_zero : go_time := CacheTrim.mkT 0 0.

(* cache.Entry{OutputID, Size, Time} *)
Record go_entry := mkEntry { ent_out : bytes; ent_size : Z; ent_time : go_time }.

(* cache.Cache{dir, now}: the clock field is a function; it is only ever called, and a call of it
   is an input of the segment (table entry cache.Cache.now) *)
Record go_cache := mkCache { cache_dir : bytes; cache_now : unit }.

(* ------------------------------------------------------------------ encoding/hex *)

(* hex.Decode(dst, src) with dst the written argument: pairs are decoded left to right and
   stored into dst[i]; an invalid byte stops with (i, error) and leaves what was written; a
   trailing single byte is an error (InvalidByteError or ErrLength); a dst that is too short
   panics at the store (index out of range), after the two bytes were checked.  The value is
   (dst afterwards, (number of bytes written, error)). *)
Fixpoint hex_decode_into (dst src : bytes) (i : nat) : res (bytes * (Z * bool)) :=
  match src with
  | [] => Ok (dst, (Z.of_nat i, false))
  | [_] => Ok (dst, (Z.of_nat i, true))
  | p :: q :: r =>
      match from_hex_char p, from_hex_char q with
      | Some a, Some b =>
          match go_store dst (Z.of_nat i) (byte_of_Z (a * 16 + b)) with
          | Ok dst' => hex_decode_into dst' r (S i)
          | Panic => Panic
          | OutOfFuel => OutOfFuel
          end
      | _, _ => Ok (dst, (Z.of_nat i, true))
      end
  end.
Definition go_hex_Decode (dst src : bytes) : res (bytes * (Z * bool)) := hex_decode_into dst src 0.

(* ------------------------------------------------------------------ strconv *)

(* what ParseInt returns next to an error: 0 for a syntax error, the nearest int64 for a range error *)
Definition parse_int_err_value (s : bytes) : Z :=
  match s with
  | [] => 0
  | c :: r =>
      let ds := if beq c x2b || beq c x2d then r else s in
      match ds with
      | [] => 0
      | _ => match parse_digits 0 ds with
             | None => 0
             | Some _ => if beq c x2d then - int64_lim else int64_lim - 1
             end
      end
  end.

(* strconv.ParseInt(s, base, bitSize): modelled for base 10 and 64 bits (the model's parse_int);
   any other use is outside the modelled domain *)
Definition go_strconv_ParseInt (s : bytes) (base bits : Z) : res (Z * bool) :=
  if (base =? 10) && (bits =? 64) then
    match parse_int s with
    | Some v => Ok (v, false)
    | None => Ok (parse_int_err_value s, true)
    end
  else Panic.

(* ------------------------------------------------------------------ fmt *)

(* %x of a byte as a number: no leading zero *)
Definition hex_min (b : byte) : bytes :=
  if bZ b <? 16 then [hex_digit (bZ b)] else hex_byte b.

Definition pad_zero (w : nat) (s : bytes) : bytes := repeat x30 (w - length s) ++ s.

(* fmt.Sprintf(f, args...) for the verbs %x (byte strings; a byte as a number, also with the
   flag 0) and %d (integers) with an optional width; st = None: copying literal text,
   st = Some (zero, w): inside a verb, flag 0 seen, width read so far.  Anything else (another
   verb or flag, a missing or extra argument, an argument of another kind) is None: outside the
   modelled domain.  On the verbs without the flag this is CacheEntry.sprintf_go. *)
Fixpoint go_sprintf (st : option (bool * nat)) (f : bytes) (args : list go_any) : option bytes :=
  match f with
  | [] => match st, args with None, [] => Some [] | _, _ => None end
  | c :: r =>
      match st with
      | None =>
          if beq c x25 then go_sprintf (Some (false, O)) r args
          else option_map (cons c) (go_sprintf None r args)
      | Some (z, w) =>
          if beq c x30 && Nat.eqb w 0 && negb z then go_sprintf (Some (true, O)) r args
          else
          match digit_val c with
          | Some v => go_sprintf (Some (z, (w * 10 + Z.to_nat v)%nat)) r args
          | None =>
              if beq c x78 then
                match args with
                | GoAnyBytes b :: rest =>
                    if z then None else option_map (app (pad_left w (hex b))) (go_sprintf None r rest)
                | GoAnyByte b :: rest =>
                    option_map (app ((if z then pad_zero else pad_left) w (hex_min b))) (go_sprintf None r rest)
                | _ => None
                end
              else if beq c x64 then
                match args with
                | GoAnyInt n :: rest =>
                    if z then None else option_map (app (pad_left w (fmt_int n))) (go_sprintf None r rest)
                | _ => None
                end
              else None
          end
      end
  end.

Definition go_fmt_Sprintf (f : bytes) (args : list go_any) : res bytes :=
  match go_sprintf None f args with Some s => Ok s | None => Panic end.

(* ------------------------------------------------------------------ path/filepath *)

(* filepath.Join(elem...) on Unix: Clean of the elements from the first non-empty one on, joined
   by "/"; modelled for two and three elements (joining is associative through Clean); any
   other use is outside the modelled domain *)
Definition go_filepath_Join (elems : list bytes) : res bytes :=
  match elems with
  | [a; b] => Ok (Path.join a b)
  | [a; b; c] => Ok (Path.join (Path.join a b) c)
  | _ => Panic
  end.

(* ------------------------------------------------------------------ time *)

(* time.Unix(sec, nsec): nsec outside [0, 1e9) is carried into sec first (int64 arithmetic;
   Go's / truncates towards zero) *)
Definition go_time_Unix (sec nsec : Z) : go_time :=
  if (nsec <? 0) || (nsec >=? CacheTrim.nano) then
    let n := Z.quot nsec CacheTrim.nano in
    let sec1 := CacheTrim.wrap64 (sec + n) in
    let ns1 := nsec - n * CacheTrim.nano in
    if ns1 <? 0 then CacheTrim.time_unix (CacheTrim.wrap64 (sec1 - 1)) (ns1 + CacheTrim.nano)
    else CacheTrim.time_unix sec1 ns1
  else CacheTrim.time_unix sec nsec.

(* t.Sub(u), t.Add(d), t.Before(u) *)
Definition go_time_Sub (t u : go_time) : Z := CacheTrim.time_sub t u.
Definition go_time_Add (t : go_time) (d : Z) : go_time := CacheTrim.time_add t d.
Definition go_time_Before (t u : go_time) : bool := CacheTrim.time_before t u.

(* t.UnixNano(): (t.unixSec())*1e9 + int64(t.nsec()) in int64 arithmetic *)
Definition go_time_UnixNano (t : go_time) : Z :=
  CacheTrim.wrap64 (CacheTrim.time_unix_seconds t * CacheTrim.nano + CacheTrim.tnsec t).

(* info.ModTime() for info from os.Stat: a FileInfo is represented by its ModTime *)
Definition go_fileinfo_ModTime (info : go_time) : go_time := info.

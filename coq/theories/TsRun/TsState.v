(* State, configuration, tokenizer/expansion, environment and the helper-program model of
   the testscript interpreter model (C01/C16).  Definitions only. *)
From Coq Require Import List Bool Arith NArith.
From Coq.Strings Require Import Byte.
From GI Require Import Lib.Bytes Gen.TsRunConsts TsRun.TsFs.
Import ListNotations.


Fixpoint mem_bytes (x : bytes) (l : list bytes) : bool :=
  match l with
  | [] => false
  | y :: r => bytes_eqb x y || mem_bytes x r
  end.

Fixpoint join_with (sep : bytes) (ws : list bytes) : bytes :=
  match ws with
  | [] => []
  | [w] => w
  | w :: r => w ++ sep ++ join_with sep r
  end.

(* ---- processes started by exec ... & *)

Inductive pstatus := PRunning | PSignalled | PReaped.

(* [p_code] is the exit status the process ends with: for a sleeper that has been
   signalled it is overwritten with a non-zero value *)
Record proc := { p_sleeper : bool; p_code : N; p_out : bytes; p_err : bytes; p_status : pstatus }.

Record bgcmd := { bg_name : bytes; bg_neg : bool; bg_proc : proc }.

Record probe_obs := {
  po_line : nat; po_neg : bool; po_args : list bytes; po_cd : bytes;
  po_out : bytes; po_err : bytes; po_in : bytes; po_vars : list bytes; po_nbg : nat }.

Record state := {
  s_lineno : nat;
  s_env : list (bytes * bytes);
  s_cd : bytes;
  s_out : bytes;
  s_err : bytes;
  s_in : bytes;
  s_bg : list bgcmd;
  s_stopped : bool;
  s_failed : bool;
  s_fs : tree;
  s_files : list (bytes * bytes);    (* scriptFiles: absolute path -> entry name *)
  s_updates : list (bytes * bytes);  (* scriptUpdates: entry name -> new content *)
  s_probes : list probe_obs;
  s_racy : bool;        (* the real outcome depends on timing (signal against a finishing process, long sleep) *)
  s_unmodelled : bool   (* the run left the modelled fragment (regexp, tty, crash of the engine) *)
}.

Definition set_lineno st v := {| s_lineno := v; s_env := s_env st; s_cd := s_cd st; s_out := s_out st; s_err := s_err st; s_in := s_in st; s_bg := s_bg st; s_stopped := s_stopped st; s_failed := s_failed st; s_fs := s_fs st; s_files := s_files st; s_updates := s_updates st; s_probes := s_probes st; s_racy := s_racy st; s_unmodelled := s_unmodelled st |}.
Definition set_env st v := {| s_lineno := s_lineno st; s_env := v; s_cd := s_cd st; s_out := s_out st; s_err := s_err st; s_in := s_in st; s_bg := s_bg st; s_stopped := s_stopped st; s_failed := s_failed st; s_fs := s_fs st; s_files := s_files st; s_updates := s_updates st; s_probes := s_probes st; s_racy := s_racy st; s_unmodelled := s_unmodelled st |}.
Definition set_cd st v := {| s_lineno := s_lineno st; s_env := s_env st; s_cd := v; s_out := s_out st; s_err := s_err st; s_in := s_in st; s_bg := s_bg st; s_stopped := s_stopped st; s_failed := s_failed st; s_fs := s_fs st; s_files := s_files st; s_updates := s_updates st; s_probes := s_probes st; s_racy := s_racy st; s_unmodelled := s_unmodelled st |}.
Definition set_outerr st o e := {| s_lineno := s_lineno st; s_env := s_env st; s_cd := s_cd st; s_out := o; s_err := e; s_in := s_in st; s_bg := s_bg st; s_stopped := s_stopped st; s_failed := s_failed st; s_fs := s_fs st; s_files := s_files st; s_updates := s_updates st; s_probes := s_probes st; s_racy := s_racy st; s_unmodelled := s_unmodelled st |}.
Definition set_in st v := {| s_lineno := s_lineno st; s_env := s_env st; s_cd := s_cd st; s_out := s_out st; s_err := s_err st; s_in := v; s_bg := s_bg st; s_stopped := s_stopped st; s_failed := s_failed st; s_fs := s_fs st; s_files := s_files st; s_updates := s_updates st; s_probes := s_probes st; s_racy := s_racy st; s_unmodelled := s_unmodelled st |}.
Definition set_bg st v := {| s_lineno := s_lineno st; s_env := s_env st; s_cd := s_cd st; s_out := s_out st; s_err := s_err st; s_in := s_in st; s_bg := v; s_stopped := s_stopped st; s_failed := s_failed st; s_fs := s_fs st; s_files := s_files st; s_updates := s_updates st; s_probes := s_probes st; s_racy := s_racy st; s_unmodelled := s_unmodelled st |}.
Definition set_stopped st v := {| s_lineno := s_lineno st; s_env := s_env st; s_cd := s_cd st; s_out := s_out st; s_err := s_err st; s_in := s_in st; s_bg := s_bg st; s_stopped := v; s_failed := s_failed st; s_fs := s_fs st; s_files := s_files st; s_updates := s_updates st; s_probes := s_probes st; s_racy := s_racy st; s_unmodelled := s_unmodelled st |}.
Definition set_failed st v := {| s_lineno := s_lineno st; s_env := s_env st; s_cd := s_cd st; s_out := s_out st; s_err := s_err st; s_in := s_in st; s_bg := s_bg st; s_stopped := s_stopped st; s_failed := v; s_fs := s_fs st; s_files := s_files st; s_updates := s_updates st; s_probes := s_probes st; s_racy := s_racy st; s_unmodelled := s_unmodelled st |}.
Definition set_fs st v := {| s_lineno := s_lineno st; s_env := s_env st; s_cd := s_cd st; s_out := s_out st; s_err := s_err st; s_in := s_in st; s_bg := s_bg st; s_stopped := s_stopped st; s_failed := s_failed st; s_fs := v; s_files := s_files st; s_updates := s_updates st; s_probes := s_probes st; s_racy := s_racy st; s_unmodelled := s_unmodelled st |}.
Definition set_files st v := {| s_lineno := s_lineno st; s_env := s_env st; s_cd := s_cd st; s_out := s_out st; s_err := s_err st; s_in := s_in st; s_bg := s_bg st; s_stopped := s_stopped st; s_failed := s_failed st; s_fs := s_fs st; s_files := v; s_updates := s_updates st; s_probes := s_probes st; s_racy := s_racy st; s_unmodelled := s_unmodelled st |}.
Definition set_updates st v := {| s_lineno := s_lineno st; s_env := s_env st; s_cd := s_cd st; s_out := s_out st; s_err := s_err st; s_in := s_in st; s_bg := s_bg st; s_stopped := s_stopped st; s_failed := s_failed st; s_fs := s_fs st; s_files := s_files st; s_updates := v; s_probes := s_probes st; s_racy := s_racy st; s_unmodelled := s_unmodelled st |}.
Definition set_probes st v := {| s_lineno := s_lineno st; s_env := s_env st; s_cd := s_cd st; s_out := s_out st; s_err := s_err st; s_in := s_in st; s_bg := s_bg st; s_stopped := s_stopped st; s_failed := s_failed st; s_fs := s_fs st; s_files := s_files st; s_updates := s_updates st; s_probes := v; s_racy := s_racy st; s_unmodelled := s_unmodelled st |}.
Definition set_racy st v := {| s_lineno := s_lineno st; s_env := s_env st; s_cd := s_cd st; s_out := s_out st; s_err := s_err st; s_in := s_in st; s_bg := s_bg st; s_stopped := s_stopped st; s_failed := s_failed st; s_fs := s_fs st; s_files := s_files st; s_updates := s_updates st; s_probes := s_probes st; s_racy := v; s_unmodelled := s_unmodelled st |}.
Definition set_unmodelled st := {| s_lineno := s_lineno st; s_env := s_env st; s_cd := s_cd st; s_out := s_out st; s_err := s_err st; s_in := s_in st; s_bg := s_bg st; s_stopped := s_stopped st; s_failed := s_failed st; s_fs := s_fs st; s_files := s_files st; s_updates := s_updates st; s_probes := s_probes st; s_racy := s_racy st; s_unmodelled := true |}.
Definition mark_racy st (b : bool) := if b then set_racy st true else st.

(* ---- configuration of a run (Params and the host) *)

Inductive cond_res := CondVal (b : bool) | CondErr.

Inductive custom_kind :=
| CProbe    (* records what it sees; never fails; accepts ! *)
| CFail     (* always calls ts.Fatalf *)
| CNegOk.   (* calls ts.Fatalf unless negated *)

Record config := {
  c_continue : bool;        (* Params.ContinueOnError *)
  c_explicit_exec : bool;   (* Params.RequireExplicitExec *)
  c_unique : bool;          (* Params.RequireUniqueNames *)
  c_update : bool;          (* Params.UpdateScripts *)
  c_host_conds : list (bytes * bool);   (* values of short, net, link, symlink, gc, gccgo on this host *)
  c_goos : bytes;                       (* runtime.GOOS *)
  c_goarch : bytes;                     (* runtime.GOARCH *)
  c_go_minor : N;                       (* the toolchain is go1.<c_go_minor>: build.Default.ReleaseTags = go1.1 .. go1.<c_go_minor> *)
  c_custom_cond : option (list (bytes * cond_res) * cond_res);  (* Params.Condition as a table + default *)
  c_cmds : list (bytes * custom_kind);  (* Params.Cmds *)
  c_main_cmds : list bytes;             (* commands registered through testscript.Main *)
  c_helper : bytes;                     (* name of the helper program *)
  c_helper_dir : bytes;                 (* the directory on PATH that holds it *)
  c_watch : list bytes;                 (* variables recorded by the probe command *)
  c_deadline : bool;    (* Params.Deadline is set and short: the context of the run expires while the
                           script is blocked on a sleeping helper (never while anything else runs) *)
  c_cancelled : bool    (* the context of the run is already done when the script starts *)
}.

(* ---- environment *)

Fixpoint getenv_rev (renv : list (bytes * bytes)) (k : bytes) : bytes :=
  match renv with
  | [] => []
  | (k', v) :: r => if bytes_eqb k k' then v else getenv_rev r k
  end.
(* envMap: the last binding wins *)
Definition getenv (env : list (bytes * bytes)) (k : bytes) : bytes := getenv_rev (rev env) k.

(* what a child started by exec sees: env ++ [PWD=cd], the last value winning *)
Definition child_getenv (env : list (bytes * bytes)) (cd k : bytes) : bytes :=
  getenv (env ++ [((* "PWD" *) [x50; x57; x44], cd)]) k.

(* ---- os.Expand with the @R suffix *)

Definition is_alnum (b : byte) : bool :=
  let n := bN b in
  (N.leb 48 n && N.leb n 57) || (N.leb 65 n && N.leb n 90) || (N.leb 97 n && N.leb n 122) || N.eqb n 95.
Definition shell_special (b : byte) : bool := mem_byte b ((* "*#$@!?-0123456789" *) [x2a; x23; x24; x40; x21; x3f; x2d; x30; x31; x32; x33; x34; x35; x36; x37; x38; x39]).
Definition regexp_special (b : byte) : bool := mem_byte b ((* "\.+*?()|[]{}^$" *) [x5c; x2e; x2b; x2a; x3f; x28; x29; x7c; x5b; x5d; x7b; x7d; x5e; x24]).

Fixpoint quote_meta (d : bytes) : bytes :=
  match d with
  | [] => []
  | b :: r => (if regexp_special b then [x5c; b] else [b]) ++ quote_meta r
  end.

Fixpoint alnum_run (d : bytes) : bytes :=
  match d with
  | b :: r => if is_alnum b then b :: alnum_run r else []
  | [] => []
  end.

Fixpoint until_brace (d : bytes) : option bytes :=
  match d with
  | [] => None
  | b :: r => if beq b x7d then Some [] else
      match until_brace r with Some x => Some (b :: x) | None => None end
  end.

(* os.getShellName: (name, bytes consumed) *)
Definition shell_name (s : bytes) : bytes * nat :=
  match s with
  | [] => ([], 0)
  | b :: r =>
      if beq b x7b then
        match r with
        | c :: e :: _ =>
            if shell_special c && beq e x7d then ([c], 3)
            else match until_brace r with
                 | Some [] => ([], 2)
                 | Some n => (n, length n + 2)
                 | None => ([], 1)
                 end
        | _ => match until_brace r with
               | Some [] => ([], 2)
               | Some n => (n, length n + 2)
               | None => ([], 1)
               end
        end
      else if shell_special b then ([b], 1)
      else let n := alnum_run s in (n, length n)
  end.

Definition strip_at_r (k : bytes) : option bytes :=
  if has_suffix ((* "@R" *) [x40; x52]) k then Some (firstn (length k - 2) k) else None.

Definition expand_var (env : list (bytes * bytes)) (k : bytes) : bytes :=
  match strip_at_r k with
  | Some k1 => quote_meta (getenv env k1)
  | None => getenv env k
  end.

Fixpoint expand_fuel (fuel : nat) (env : list (bytes * bytes)) (s : bytes) : bytes :=
  match fuel with
  | 0 => s
  | S f =>
      match s with
      | [] => []
      | b :: r =>
          if beq b x24 then
            match r with
            | [] => [b]
            | _ =>
                let '(name, w) := shell_name r in
                (match name with
                 | [] => if Nat.eqb w 0 then [b] else []
                 | _ => expand_var env name
                 end) ++ expand_fuel f env (skipn w r)
            end
          else b :: expand_fuel f env r
      end
  end.
Definition expand (env : list (bytes * bytes)) (s : bytes) : bytes := expand_fuel (S (length s)) env s.

(* ---- TestScript.parse: words, single quotes, # comments.  None = unterminated quote.
   [arg] is the text of the current argument (reversed chunks are avoided: everything is
   kept in reading order), [chunk] is line[start:i] when start >= 0. *)
Definition is_sep (b : byte) : bool := beq b x20 || beq b x09 || beq b x0d || beq b x23.

Fixpoint tok (env : list (bytes * bytes)) (l : bytes) (acc : list bytes) (arg : bytes)
         (chunk : option bytes) (quoted : bool) : option (list bytes) :=
  match l with
  | [] =>
      if quoted then None else
      match chunk with
      | Some c => Some (rev ((arg ++ expand env c) :: acc))
      | None => Some (rev acc)
      end
  | b :: r =>
      if negb quoted && is_sep b then
        let acc' := match chunk with Some c => (arg ++ expand env c) :: acc | None => acc end in
        if beq b x23 then Some (rev acc') else tok env r acc' [] None false
      else if beq b x27 then
        if negb quoted then
          tok env r acc (match chunk with Some c => arg ++ expand env c | None => arg end) (Some []) true
        else
          match r with
          | b2 :: r2 =>
              if beq b2 x27 then
                tok env r2 acc (arg ++ match chunk with Some c => c | None => [] end) (Some [x27]) true
              else tok env r acc (arg ++ match chunk with Some c => c | None => [] end) (Some []) false
          | [] => tok env r acc (arg ++ match chunk with Some c => c | None => [] end) (Some []) false
          end
      else tok env r acc arg (Some (match chunk with Some c => c ++ [b] | None => [b] end)) quoted
  end.

Definition tokenise (env : list (bytes * bytes)) (line : bytes) : option (list bytes) :=
  tok env line [] [] None false.

(* ---- numbers *)

Definition digit_val (b : byte) : option N :=
  let n := bN b in if N.leb 48 n && N.leb n 57 then Some (n - 48)%N else None.

Fixpoint parse_digits (base : N) (acc : N) (d : bytes) : option N :=
  match d with
  | [] => Some acc
  | b :: r =>
      match digit_val b with
      | Some v => if N.ltb v base then parse_digits base (acc * base + v)%N r else None
      | None => None
      end
  end.

(* strconv.ParseUint(s, 8, 32) followed by the test perm&0o777 == perm *)
Definition parse_perm (d : bytes) : option N :=
  match d with
  | [] => None
  | _ => match parse_digits 8 0 d with
         | Some n => if N.leb n 511 then Some n else None
         | None => None
         end
  end.

(* strconv.Atoi restricted to what scriptMatch needs: Some n for a value >= 1 that fits
   an int64, None for an error or a value < 1 (both end in Fatalf) *)
Definition parse_count (d : bytes) : option N :=
  let body := match d with b :: r => if beq b x2b then r else d | [] => d end in
  match body with
  | [] => None
  | _ => match parse_digits 10 0 body with
         | Some n => if N.leb 1 n && N.leb n 9223372036854775807 then Some n else None
         | None => None
         end
  end.

(* ---- the environment as a child prints it: one KEY=VALUE line per key (the last binding
   wins, PWD is the directory of the child), sorted byte-wise *)
Fixpoint bytes_leb (a b : bytes) : bool :=
  match a, b with
  | [], _ => true
  | _ :: _, [] => false
  | x :: a', y :: b' => if N.ltb (bN x) (bN y) then true else if N.ltb (bN y) (bN x) then false else bytes_leb a' b'
  end.
Fixpoint insert_sorted (x : bytes) (l : list bytes) : list bytes :=
  match l with
  | [] => [x]
  | y :: r => if bytes_leb x y then x :: l else y :: insert_sorted x r
  end.
Definition sort_bytes (l : list bytes) : list bytes := fold_right insert_sorted [] l.

Fixpoint nodup_keys (seen : list bytes) (env : list (bytes * bytes)) : list bytes :=
  match env with
  | [] => []
  | (k, _) :: r => if mem_bytes k seen then nodup_keys seen r else k :: nodup_keys (k :: seen) r
  end.

Definition environ_lines (env : list (bytes * bytes)) (cd : bytes) : list bytes :=
  let full := env ++ [((* "PWD" *) [x50; x57; x44], cd)] in
  sort_bytes (map (fun k => k ++ [x3d] ++ getenv full k ++ [NL]) (nodup_keys [] full)).

(* ---- the helper program run by exec *)

Record helper_res := {
  h_code : N; h_out : bytes; h_err : bytes; h_fs : tree; h_sleeper : bool }.

Definition usage_text : bytes := (* "tshelper: usage\n" *) [x74; x73; x68; x65; x6c; x70; x65; x72; x3a; x20; x75; x73; x61; x67; x65; x0a].
Definition write_failed_text : bytes := (* "tshelper: write failed\n" *) [x74; x73; x68; x65; x6c; x70; x65; x72; x3a; x20; x77; x72; x69; x74; x65; x20; x66; x61; x69; x6c; x65; x64; x0a].

Definition hres code out err t := {| h_code := code; h_out := out; h_err := err; h_fs := t; h_sleeper := false |}.

Definition rel_to (cd f : bytes) : bytes := if is_abs f then f else cd ++ [SLASH] ++ f.

Definition parse_exit (d : bytes) : option N :=
  match d with
  | [] => None
  | _ => match parse_digits 10 0 d with
         | Some n => if N.leb n 255 then Some n else None
         | None => None
         end
  end.

(* `ret N`: the helper's function RETURNS N to testscript.RunMain, which hands it to os.Exit; N is
   any decimal integer, also negative or above 255, and the exit status the script engine sees is
   what the operating system keeps of it: N mod 256 (-1 is 255, 256 is 0) *)
Definition parse_ret (d : bytes) : option N :=
  match d with
  | [] => None
  | c :: r =>
      if beq c x2d then
        match r with
        | [] => None
        | _ => match parse_digits 10 0 r with
               | Some n => if N.leb n 1000000 then Some ((256 - n mod 256) mod 256)%N else None
               | None => None
               end
        end
      else match parse_digits 10 0 d with
           | Some n => if N.leb n 1000000 then Some (n mod 256)%N else None
           | None => None
           end
  end.

(* `unhex` / `unhexerr`: the argument is lower-case hexadecimal, the bytes it spells are written
   to stdout / stderr (so that a script can produce any content at all) *)
Definition hex_digit (b : byte) : option N :=
  let n := bN b in
  if N.leb 48 n && N.leb n 57 then Some (n - 48)%N
  else if N.leb 97 n && N.leb n 102 then Some (n - 87)%N
  else None.

Fixpoint unhex_bytes (d : bytes) : option bytes :=
  match d with
  | [] => Some []
  | a :: r =>
      match r with
      | [] => None
      | c :: r' =>
          match hex_digit a, hex_digit c, unhex_bytes r' with
          | Some x, Some y, Some t =>
              match Byte.of_N (16 * x + y) with
              | Some v => Some (v :: t)
              | None => None
              end
          | _, _, _ => None
          end
      end
  end.

(* the subcommands that do not touch the file tree: (exit code, stdout, stderr, sleeper) *)
Definition pure_res := (N * bytes * bytes * bool)%type.
Definition pres (code : N) (out err : bytes) : pure_res := (code, out, err, false).

Definition helper_pure (sub : bytes) (a : list bytes) (stdin : bytes) (env : list (bytes * bytes)) (cd : bytes)
  : pure_res :=
  let usage := pres 2 [] usage_text in
  if bytes_eqb sub ((* "exit" *) [x65; x78; x69; x74]) then
    match a with
    | [n] => match parse_exit n with Some c => pres c [] [] | None => usage end
    | _ => usage
    end
  else if bytes_eqb sub ((* "ret" *) [x72; x65; x74]) then
    match a with
    | [n] => match parse_ret n with Some c => pres c [] [] | None => usage end
    | _ => usage
    end
  else if bytes_eqb sub ((* "echo" *) [x65; x63; x68; x6f]) then pres 0 (join_with [SP] a ++ [NL]) []
  else if bytes_eqb sub ((* "echoerr" *) [x65; x63; x68; x6f; x65; x72; x72]) then pres 0 [] (join_with [SP] a ++ [NL])
  else if bytes_eqb sub ((* "fail" *) [x66; x61; x69; x6c]) then pres 1 [] (join_with [SP] a ++ [NL])
  else if bytes_eqb sub ((* "both" *) [x62; x6f; x74; x68]) then
    match a with
    | [o; e] => pres 0 (o ++ [NL]) (e ++ [NL])
    | _ => usage
    end
  else if bytes_eqb sub ((* "lines" *) [x6c; x69; x6e; x65; x73]) then pres 0 (concat (map (fun w => w ++ [NL]) a)) []
  else if bytes_eqb sub ((* "lines8" *) [x6c; x69; x6e; x65; x73; x38]) then
    (* the first word with a byte that is not UTF-8 behind it, the others as lines *)
    match a with
    | w :: r => pres 0 (w ++ [xff; NL] ++ concat (map (fun w => w ++ [NL]) r)) []
    | [] => usage
    end
  else if bytes_eqb sub ((* "print" *) [x70; x72; x69; x6e; x74]) then
    match a with [x] => pres 0 x [] | _ => usage end
  else if bytes_eqb sub ((* "printerr" *) [x70; x72; x69; x6e; x74; x65; x72; x72]) then
    match a with [x] => pres 0 [] x | _ => usage end
  else if bytes_eqb sub ((* "unhex" *) [x75; x6e; x68; x65; x78]) then
    match a with
    | [x] => match unhex_bytes x with Some d => pres 0 d [] | None => usage end
    | _ => usage
    end
  else if bytes_eqb sub ((* "unhexerr" *) [x75; x6e; x68; x65; x78; x65; x72; x72]) then
    match a with
    | [x] => match unhex_bytes x with Some d => pres 0 [] d | None => usage end
    | _ => usage
    end
  else if bytes_eqb sub ((* "cat" *) [x63; x61; x74]) then
    match a with [] => pres 0 stdin [] | _ => usage end
  else if bytes_eqb sub ((* "env" *) [x65; x6e; x76]) then
    match a with [k] => pres 0 (child_getenv env cd k ++ [NL]) [] | _ => usage end
  else if bytes_eqb sub ((* "environ" *) [x65; x6e; x76; x69; x72; x6f; x6e]) then
    match a with [] => pres 0 (concat (environ_lines env cd)) [] | _ => usage end
  else if bytes_eqb sub ((* "pwd" *) [x70; x77; x64]) then
    match a with [] => pres 0 (cd ++ [NL]) [] | _ => usage end
  else if bytes_eqb sub ((* "sleep" *) [x73; x6c; x65; x65; x70]) then
    match a with
    | [] => (0%N, [], [], true)
    | _ => usage
    end
  else usage.

Definition is_write_sub (sub : bytes) : bool :=
  bytes_eqb sub ((* "write" *) [x77; x72; x69; x74; x65])
  || bytes_eqb sub ((* "writeraw" *) [x77; x72; x69; x74; x65; x72; x61; x77]).

Definition helper_run (args : list bytes) (stdin : bytes) (env : list (bytes * bytes)) (cd : bytes) (t : tree)
  : helper_res :=
  let usage := hres 2 [] usage_text t in
  match args with
  | [] => usage
  | sub :: a =>
      if is_write_sub sub then
        if bytes_eqb sub ((* "write" *) [x77; x72; x69; x74; x65]) then
          match a with
          | f :: ws =>
              match write_file t (rel_to cd f) (join_with [SP] ws ++ [NL]) 438 with
              | Some t' => hres 0 [] [] t'
              | None => hres 1 [] write_failed_text t
              end
          | _ => usage
          end
        else
          match a with
          | [f; x] =>
              match write_file t (rel_to cd f) x 438 with
              | Some t' => hres 0 [] [] t'
              | None => hres 1 [] write_failed_text t
              end
          | _ => usage
          end
      else
        let '(code, out, err, sl) := helper_pure sub a stdin env cd in
        {| h_code := code; h_out := out; h_err := err; h_fs := t; h_sleeper := sl |}
  end.

(* execpath.Look: the helper is found when its directory is an element of $PATH *)
Fixpoint split_colon (d : bytes) : list bytes :=
  match d with
  | [] => [[]]
  | b :: r =>
      if beq b x3a then [] :: split_colon r
      else match split_colon r with
           | [] => [[b]]
           | c :: cs => (b :: c) :: cs
           end
  end.

Definition has_slash (d : bytes) : bool := mem_byte SLASH d.

(* which program a command word names: only the helper exists *)
Definition prog_found (cfg : config) (st : state) (prog : bytes) : bool :=
  if has_slash prog then bytes_eqb prog (c_helper_dir cfg ++ [SLASH] ++ c_helper cfg)
  else bytes_eqb prog (c_helper cfg) && mem_bytes (c_helper_dir cfg) (split_colon (getenv (s_env st) ((* "PATH" *) [x50; x41; x54; x48]))).

(* a child can only be started in a directory that exists *)
Definition can_start (cfg : config) (st : state) (prog : bytes) : bool :=
  prog_found cfg st prog && is_dir_node (stat (s_fs st) (s_cd st)).

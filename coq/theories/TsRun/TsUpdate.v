(* UpdateScripts (C16): the archive rewritten from the recorded updates
   (testscript.go applyScriptUpdates).  The recording itself is the [upd] branch of
   [cmd_cmp] in TsCmds.v.  Definitions only. *)
From Coq Require Import List Bool Arith NArith.
From Coq.Strings Require Import Byte.
From GI Require Import Lib.Bytes Txtar.Txtar TsRun.TsFs TsRun.TsState TsRun.TsCmds TsRun.TsRun.
Import ListNotations.

(* the bytes stored for an updated entry: quoted exactly when NeedsQuote says so;
   None = txtar.Quote refused (no final newline / invalid UTF-8) *)
Definition update_data (content : bytes) : option bytes :=
  if needs_quote content then quote content else Some content.

(* every entry whose name is a key of U is rewritten (also when the name occurs twice) *)
Fixpoint update_files (U : list (bytes * bytes)) (fs : list (bytes * bytes)) : option (list (bytes * bytes)) :=
  match fs with
  | [] => Some []
  | (n, d) :: r =>
      match update_files U r with
      | None => None
      | Some r' =>
          match assoc_get U n with
          | Some c => match update_data c with Some d' => Some ((n, d') :: r') | None => None end
          | None => Some ((n, d) :: r')
          end
      end
  end.

Definition apply_updates (a : archive) (U : list (bytes * bytes)) : option archive :=
  match update_files U (files a) with
  | Some fs => Some {| comment := comment a; files := fs |}
  | None => None
  end.

Inductive file_change :=
| Untouched                 (* no update was recorded: the file is not written *)
| Rewritten (data : bytes)  (* os.WriteFile(ts.file, txtar.Format(archive)) *)
| UpdateError.              (* Quote refused: Fatalf, nothing is written, the run fails *)

Record file_result := { f_run : run_result; f_change : file_change }.

(* applyScriptUpdates runs when run() is left; its Fatalf is logged with the current line
   number and ends the run as failed (corrected behaviour: the unrepaired code let the
   failNow panic escape and crash the caller) *)
Definition with_update_failure (r : run_result) : run_result :=
  let n := s_lineno (r_final r) in
  {| r_verdict := match r_verdict r with Fail k => Fail k | _ => Fail n end;
     r_final := r_final r;
     r_fail_lines := r_fail_lines r ++ [n] |}.

Definition change_of (a : archive) (U : list (bytes * bytes)) : file_change :=
  match U with
  | [] => Untouched
  | _ => match apply_updates a U with
         | Some a' => Rewritten (format a')
         | None => UpdateError
         end
  end.

Definition run_file_full (cfg : config) (work : bytes) (env : list (bytes * bytes)) (file : bytes) : file_result :=
  let a := parse file in
  let r := run_archive cfg work env a in
  let ch := change_of a (s_updates (r_final r)) in
  {| f_run := match ch with UpdateError => with_update_failure r | _ => r end; f_change := ch |}.

(* ---- what an update does to the bytes of entries it does not touch.  [tail] is the text of
   the file from the marker line of some entry to the end, and none of the entries in it is
   updated: "the bytes of untouched entries survive" would make it a suffix of the written file. *)
Definition untouched_tail (file : bytes) (U : list (bytes * bytes)) (tail : bytes) : Prop :=
  exists pre fs1,
    file = pre ++ tail
    /\ comment (parse tail) = []
    /\ files (parse file) = fs1 ++ files (parse tail)
    /\ files (parse tail) <> []
    /\ forall n d, In (n, d) (files (parse tail)) -> assoc_get U n = None.

Definition update_keeps_untouched_bytes_statement : Prop :=
  forall file U d tail,
    change_of (parse file) U = Rewritten d -> untouched_tail file U tail -> has_suffix tail d = true.

(* The declarative reading of property C01: what it means for a line to "meet its demand",
   independent of the interpreter functions run_guards / run_neg / run_cmd / run_line /
   run_lines of TsRun.v.  Definitions only (inductive predicates).

   Shared with the interpreter: the tokenizer, the evaluation of one condition
   ([cond_eval]), the command table ([lookup_cmd]) and the semantics of the individual
   commands ([cmd_sem]) -- "it fails in the way that command defines". *)
From Coq Require Import List Bool Arith NArith.
From Coq.Strings Require Import Byte.
From GI Require Import Lib.Bytes Gen.TsRunConsts Txtar.Txtar TsRun.TsFs TsRun.TsState TsRun.TsCmds TsRun.TsRun.
Import ListNotations.

(* every [cond] / [!cond] prefix holds; what remains is the command part of the line *)
Inductive guards_pass (cfg : config) (st : state) : list bytes -> list bytes -> Prop :=
| GP_done w rest :
    guard_of w = None -> guards_pass cfg st (w :: rest) (w :: rest)
| GP_step w want c rest out :
    guard_of w = Some (want, c) -> rest <> [] -> cond_eval cfg st c = CondVal want ->
    guards_pass cfg st rest out -> guards_pass cfg st (w :: rest) out.

(* some prefix is false, every prefix before it holds (and a command follows each of them) *)
Inductive guards_block (cfg : config) (st : state) : list bytes -> Prop :=
| GB_here w want c rest :
    guard_of w = Some (want, c) -> rest <> [] -> cond_eval cfg st c = CondVal (negb want) ->
    guards_block cfg st (w :: rest)
| GB_later w want c rest :
    guard_of w = Some (want, c) -> rest <> [] -> cond_eval cfg st c = CondVal want ->
    guards_block cfg st rest -> guards_block cfg st (w :: rest).

(* the command part: an optional "!" and then the command word with its arguments *)
Definition split_neg (cw : list bytes) : option (bool * bytes * list bytes) :=
  match cw with
  | [] => None
  | w :: rest =>
      if bytes_eqb w bang then
        match rest with
        | [] => None
        | n :: a => Some (true, n, a)
        end
      else Some (false, w, rest)
  end.

(* the built-in commands that the table generated from cmd.go says reject "!" *)
Definition accepts_neg (c : cmd_ref) : Prop :=
  match c with
  | CBuiltin name => ~ In name neg_rejecting_cmds
  | _ => True
  end.

(* the line's guards hold and it names an existing command *)
Inductive reaches (cfg : config) (st : state) (line : bytes) : bool -> cmd_ref -> list bytes -> Prop :=
| Reaches words cw neg name args c :
    tokenise (s_env st) line = Some words ->
    guards_pass cfg st words cw ->
    split_neg cw = Some (neg, name, args) ->
    lookup_cmd cfg name = Some c ->
    reaches cfg st line neg c args.

(* THE DEMAND OF A LINE IS MET, leaving the state st':
   - a blank line demands nothing;
   - a line with a false guard demands nothing and changes nothing;
   - otherwise the command exists, accepts "!" if it was given, and returns normally
     (success, or under "!" the failure that command defines). *)
Inductive demand_met (cfg : config) (st : state) (line : bytes) : state -> Prop :=
| DM_blank :
    tokenise (s_env st) line = Some [] -> demand_met cfg st line st
| DM_guard words :
    tokenise (s_env st) line = Some words -> guards_block cfg st words -> demand_met cfg st line st
| DM_cmd neg c args st' :
    reaches cfg st line neg c args -> (neg = true -> accepts_neg c) ->
    cmd_sem cfg c neg args st = Done st' -> demand_met cfg st line st'.

(* the line is a `skip` (or a custom command) that leaves the script through T.Skip *)
Inductive skip_met (cfg : config) (st : state) (line : bytes) : state -> Prop :=
| SM_cmd neg c args st' :
    reaches cfg st line neg c args -> (neg = true -> accepts_neg c) ->
    cmd_sem cfg c neg args st = SkipNow st' -> skip_met cfg st line st'.

Definition unmet (cfg : config) (st : state) (line : bytes) : Prop :=
  ~ (exists st', demand_met cfg st line st') /\ ~ (exists st', skip_met cfg st line st').

(* what the line did, whether or not it failed *)
Definition line_effects (cfg : config) (st : state) (line : bytes) : state :=
  outcome_state (run_line cfg st line).

(* ---- whole scripts.  [n] lines have been consumed, [f] is the failed flag. *)

(* every line of the list meets its demand and none of them stops the script *)
Inductive lines_met (cfg : config) : list bytes -> nat -> bool -> state -> state -> Prop :=
| LM_nil n f st : lines_met cfg [] n f st st
| LM_comment l ls n f st st' :
    is_comment l = true -> lines_met cfg ls (S n) f st st' -> lines_met cfg (l :: ls) n f st st'
| LM_line l ls n f st st1 st' :
    is_comment l = false -> demand_met cfg (at_line (S n) f st) l st1 -> s_stopped st1 = false ->
    lines_met cfg ls (S n) f st1 st' -> lines_met cfg (l :: ls) n f st st'.

(* every executed line up to the first stop (or the end) meets its demand *)
Inductive all_met (cfg : config) : list bytes -> nat -> bool -> state -> state -> Prop :=
| AM_end n f st : all_met cfg [] n f st (end_bg (set_lineno st n))
| AM_comment l ls n f st stF :
    is_comment l = true -> all_met cfg ls (S n) f st stF -> all_met cfg (l :: ls) n f st stF
| AM_line l ls n f st st1 stF :
    is_comment l = false -> demand_met cfg (at_line (S n) f st) l st1 -> s_stopped st1 = false ->
    all_met cfg ls (S n) f st1 stF -> all_met cfg (l :: ls) n f st stF
| AM_stop l ls n f st st1 :
    is_comment l = false -> demand_met cfg (at_line (S n) f st) l st1 -> s_stopped st1 = true ->
    all_met cfg (l :: ls) n f st (end_bg st1).

(* ContinueOnError: every line is executed, met or not, until a stop, a skip or the end;
   [U] collects the numbers of the lines whose demand was not met *)
Inductive exec_all (cfg : config) : list bytes -> nat -> bool -> state -> end_kind -> state -> list nat -> Prop :=
| EA_end n f st : exec_all cfg [] n f st (end_of f) (end_bg (set_lineno st n)) []
| EA_comment l ls n f st k stF U :
    is_comment l = true -> exec_all cfg ls (S n) f st k stF U -> exec_all cfg (l :: ls) n f st k stF U
| EA_met l ls n f st st1 k stF U :
    is_comment l = false -> demand_met cfg (at_line (S n) f st) l st1 -> s_stopped st1 = false ->
    exec_all cfg ls (S n) f st1 k stF U -> exec_all cfg (l :: ls) n f st k stF U
| EA_met_stop l ls n f st st1 :
    is_comment l = false -> demand_met cfg (at_line (S n) f st) l st1 -> s_stopped st1 = true ->
    exec_all cfg (l :: ls) n f st (end_of f) (end_bg st1) []
| EA_unmet l ls n f st st1 k stF U :
    is_comment l = false -> unmet cfg (at_line (S n) f st) l ->
    st1 = line_effects cfg (at_line (S n) f st) l -> s_stopped st1 = false ->
    exec_all cfg ls (S n) true st1 k stF U -> exec_all cfg (l :: ls) n f st k stF (S n :: U)
| EA_unmet_stop l ls n f st st1 :
    is_comment l = false -> unmet cfg (at_line (S n) f st) l ->
    st1 = line_effects cfg (at_line (S n) f st) l -> s_stopped st1 = true ->
    exec_all cfg (l :: ls) n f st EFail (end_bg st1) [S n]
| EA_skip l ls n f st st1 :
    is_comment l = false -> skip_met cfg (at_line (S n) f st) l st1 ->
    exec_all cfg (l :: ls) n f st (if f then EFail else ESkip) st1 [].

(* foreground use of exec: the last word is not & or &name& *)
Definition fg_args (args : list bytes) : Prop := args <> [] /\ bg_spec (last args []) = None.

(* the command of a foreground exec can be started, and testscript itself stops it because the
   context of the run is done (deadline reached while it sleeps, or context done from the start) *)
Definition exec_times_out (cfg : config) (args : list bytes) (st : state) : bool :=
  match args with
  | prog :: rest =>
      can_start cfg st prog
      && match fg_end cfg (helper_run rest (s_in st) (s_env st) (s_cd st) (s_fs st)) with
         | EndTimedOut => true
         | _ => false
         end
  | [] => false
  end.

Definition exec_name : bytes := (* "exec" *) [x65; x78; x65; x63].
Definition wait_name : bytes := (* "wait" *) [x77; x61; x69; x74].

(* C16 -- the translated pure segments of UpdateScripts (Gen/TsUpdateSrc.v, regenerated from
   testscript/testscript.go and cmd.go on every run by harness/go2coq) are equal to the
   hand-written model (TsRun/TsUpdate.v: update_data, update_files, apply_updates; TsRun/TsCmds.v:
   the tail of cmd_cmp).

   What is translated (table: harness/cmd/genconsts/gen_tsupdate_src.go):
     src_TestScript_applyScriptUpdates_entry       the body of the inner loop of applyScriptUpdates after
                                                   f := &ts.archive.Files[i]: the name test, NeedsQuote /
                                                   Quote / Fatalf, f.Data = data, found = true
     src_TestScript_applyScriptUpdates_write_args  the arguments of os.WriteFile
     src_TestScript_doCmdCmp_verdict               doCmdCmp from  eq := text1 == text2  to the call of
                                                   diff.Diff: the ! cases, the recording of an update
   None of them has a loop: there is no fuel.  The two loops of applyScriptUpdates (over the MAP
   scriptUpdates and over the entries of the archive) are composed here by hand around the
   translated body: the map is iterated in an ARBITRARY order, a parameter (any permutation of
   its association list), and the result is shown not to depend on it. *)
From Coq Require Import List Bool Arith ZArith Lia Permutation.
From Coq.Strings Require Import Byte.
From GI Require Import Lib.Bytes Lib.BytesFacts Lib.GoSem Lib.GoSemExt Lib.GoSemSeg Lib.GoSemState Lib.GoSemFail.
From GI Require Import Txtar.Txtar TsRun.TsFs TsRun.TsState TsRun.TsCmds TsRun.TsRun TsRun.TsUpdate TsRun.SrcLibUpdate Gen.TsUpdateSrc.
Import ListNotations.

Definition update_msg : bytes :=
  [x63; x61; x6e; x6e; x6f; x74; x20; x75; x70; x64; x61; x74; x65; x20; x73; x63; x72; x69; x70; x74; x20; x66; x69; x6c; x65; x20; x25; x71; x3a; x20; x25; x76].

Lemma bytes_eqb_sym a : forall b, bytes_eqb a b = bytes_eqb b a.
Proof.
  induction a as [|x a IH]; intros [|y b]; try reflexivity. cbn [bytes_eqb]. rewrite beq_sym, IH. reflexivity.
Qed.

(* ------------------------------------------------------------------ one entry *)

Lemma src_entry_eq name content found (f : bytes * bytes) :
  src_TestScript_applyScriptUpdates_entry name content found f =
    if negb (bytes_eqb (fst f) name) then Ok (Continue (found, f))
    else match update_data content with
         | Some d' => Ok (Normal (true, (fst f, d')))
         | None => Ok (Return (FailedM update_msg))
         end.
Proof.
  unfold src_TestScript_applyScriptUpdates_entry, update_data, go_txtar_NeedsQuote, go_txtar_Quote.
  destruct (negb (bytes_eqb (fst f) name)); [reflexivity|].
  destruct (needs_quote content); [|reflexivity].
  destruct (quote content); reflexivity.
Qed.

(* ------------------------------------------------------------------ the loops, composed *)

Inductive ures := UOk (found : bool) (fs : list (bytes * bytes)) | UFail (msg : bytes).

(* for i := range ts.archive.Files { f := &ts.archive.Files[i]; <the translated body> }: the value
   the body leaves in f is the new value of the element *)
Fixpoint src_inner (name content : bytes) (found : bool) (fs : list (bytes * bytes)) : res ures :=
  match fs with
  | [] => Ok (UOk found [])
  | f :: r =>
      bind (src_TestScript_applyScriptUpdates_entry name content found f) (fun o =>
      match o with
      | Normal (found', f') | Continue (found', f') =>
          bind (src_inner name content found' r) (fun u =>
          match u with
          | UOk fd r' => Ok (UOk fd (f' :: r'))
          | UFail m => Ok (UFail m)
          end)
      | Return (FailedM m) => Ok (UFail m)
      | Return (DoneM _) => Panic     (* the body has no return statement *)
      | Break _ => Panic              (* ... and no break *)
      end)
  end.

Inductive apply_res := ADone (fs : list (bytes * bytes)) | AFailed (msg : bytes).

(* for name, content := range ts.scriptUpdates { found := false; <inner loop>;
   if !found { panic("script update file not found") } }, the map iterated in the order [us] *)
Fixpoint src_outer (us : list (bytes * bytes)) (fs : list (bytes * bytes)) : res apply_res :=
  match us with
  | [] => Ok (ADone fs)
  | (name, content) :: r =>
      bind (src_inner name content false fs) (fun u =>
      match u with
      | UOk true fs' => src_outer r fs'
      | UOk false _ => Panic
      | UFail m => Ok (AFailed m)
      end)
  end.

(* ------------------------------------------------------------------ the inner loop *)

Definition has_entry (name : bytes) (fs : list (bytes * bytes)) : bool :=
  existsb (fun f => bytes_eqb (fst f) name) fs.
Definition upd1 (name d' : bytes) (fs : list (bytes * bytes)) : list (bytes * bytes) :=
  map (fun f => if bytes_eqb (fst f) name then (fst f, d') else f) fs.

Lemma src_inner_eq name content : forall fs found,
  src_inner name content found fs =
    if has_entry name fs then
      match update_data content with
      | Some d' => Ok (UOk true (upd1 name d' fs))
      | None => Ok (UFail update_msg)
      end
    else Ok (UOk found fs).
Proof.
  induction fs as [|f r IH]; intros found; [reflexivity|].
  cbn [src_inner has_entry existsb upd1 map]. rewrite src_entry_eq.
  destruct (bytes_eqb (fst f) name) eqn:E; cbn [negb orb bind].
  - destruct (update_data content) as [d'|]; cbn [bind]; [|reflexivity].
    rewrite IH. fold (has_entry name r). destruct (has_entry name r) eqn:H; cbn [bind].
    + reflexivity.
    + assert (U : upd1 name d' r = r).
      { unfold upd1. clear IH. induction r as [|g r IHr]; [reflexivity|].
        cbn [has_entry existsb] in H. apply orb_false_iff in H. destruct H as [Hg Hr].
        cbn [map]. rewrite Hg. f_equal. apply IHr. exact Hr. }
      unfold upd1 in U. rewrite U. reflexivity.
  - rewrite IH. fold (has_entry name r). destruct (has_entry name r); cbn [bind].
    + destruct (update_data content); reflexivity.
    + reflexivity.
Qed.

(* ------------------------------------------------------------------ the model, entry by entry *)

Lemma upd1_names name d' fs : map fst (upd1 name d' fs) = map fst fs.
Proof.
  unfold upd1. induction fs as [|f r IH]; [reflexivity|]. cbn [map]. rewrite IH.
  destruct (bytes_eqb (fst f) name); reflexivity.
Qed.

Lemma has_entry_names name fs fs' : map fst fs = map fst fs' -> has_entry name fs = has_entry name fs'.
Proof.
  revert fs'. induction fs as [|f r IH]; intros [|f' r'] H; try discriminate H; [reflexivity|].
  cbn [map] in H. injection H as H1 H2. cbn [has_entry existsb]. rewrite H1. f_equal. apply IH. exact H2.
Qed.

Lemma has_entry_In name fs : has_entry name fs = true <-> In name (map fst fs).
Proof.
  unfold has_entry. rewrite existsb_exists. split.
  - intros (f & I & E). apply bytes_eqb_eq in E. subst. apply in_map. exact I.
  - intros I. apply in_map_iff in I. destruct I as (f & <- & I). exists f. split; [exact I | apply bytes_eqb_refl].
Qed.

Lemma assoc_get_notin U n : ~ In n (map fst U) -> TsCmds.assoc_get U n = None.
Proof.
  induction U as [|[k v] r IH]; intros H; [reflexivity|]. cbn [TsCmds.assoc_get].
  destruct (bytes_eqb n k) eqn:E.
  - apply bytes_eqb_eq in E. subst. exfalso. apply H. left. reflexivity.
  - apply IH. intros I. apply H. right. exact I.
Qed.

Lemma upd1_id name d' fs : has_entry name fs = false -> upd1 name d' fs = fs.
Proof.
  unfold upd1. induction fs as [|g r IHr]; intros H; [reflexivity|].
  cbn [has_entry existsb] in H. apply orb_false_iff in H. destruct H as [Hg Hr].
  cbn [map]. rewrite Hg. f_equal. apply IHr. exact Hr.
Qed.

(* the first pair of the map does not occur again: processing it first is the model *)
Lemma update_files_head name content r : ~ In name (map fst r) -> forall fs,
  update_files ((name, content) :: r) fs =
    if has_entry name fs then
      match update_data content with
      | Some d' => update_files r (upd1 name d' fs)
      | None => None
      end
    else update_files r fs.
Proof.
  intros NI. induction fs as [|[n d] fs IH]; [reflexivity|].
  cbn [update_files]. rewrite IH. clear IH.
  cbn [has_entry existsb fst]. fold (has_entry name fs).
  cbn [TsCmds.assoc_get].
  destruct (bytes_eqb n name) eqn:E; cbn [orb].
  - apply bytes_eqb_eq in E. subst n.
    destruct (update_data content) as [d'|] eqn:UD.
    + unfold upd1 at 2. cbn [map fst]. rewrite bytes_eqb_refl. fold (upd1 name d' fs).
      cbn [update_files]. rewrite (assoc_get_notin r name NI).
      destruct (has_entry name fs) eqn:H; [reflexivity|].
      rewrite (upd1_id name d' fs H). reflexivity.
    + destruct (has_entry name fs); [reflexivity|]. destruct (update_files r fs); reflexivity.
  - destruct (has_entry name fs) eqn:H.
    + destruct (update_data content) as [d'|]; [|reflexivity].
      unfold upd1 at 2. cbn [map fst]. rewrite E. fold (upd1 name d' fs). reflexivity.
    + reflexivity.
Qed.

(* ------------------------------------------------------------------ the outer loop is the model *)

Definition res_of_model (o : option (list (bytes * bytes))) : apply_res -> Prop :=
  fun a => match o, a with
           | Some fs, ADone fs' => fs = fs'
           | None, AFailed _ => True
           | _, _ => False
           end.

Lemma update_files_nil fs : update_files [] fs = Some fs.
Proof.
  induction fs as [|[n d] fs IHf]; [reflexivity|]. cbn [update_files TsCmds.assoc_get]. rewrite IHf. reflexivity.
Qed.

Lemma src_outer_model : forall us fs, NoDup (map fst us) ->
  (forall k, In k (map fst us) -> In k (map fst fs)) ->
  exists a, src_outer us fs = Ok a /\ res_of_model (update_files us fs) a.
Proof.
  induction us as [|[name content] r IH]; intros fs ND AllIn.
  - exists (ADone fs). split; [reflexivity|].
    rewrite update_files_nil. reflexivity.
  - cbn [map fst] in ND. inversion ND as [|? ? NI ND']; subst.
    cbn [src_outer]. rewrite src_inner_eq. rewrite (update_files_head name content r NI).
    assert (H : has_entry name fs = true) by (apply has_entry_In; apply AllIn; left; reflexivity).
    rewrite H. destruct (update_data content) as [d'|]; cbn [bind].
    + apply IH; [exact ND'|]. intros k Ik. rewrite upd1_names. apply AllIn. right. exact Ik.
    + exists (AFailed update_msg). split; reflexivity.
Qed.

(* the model does not depend on the order of a map without duplicate keys *)
Lemma assoc_get_perm : forall U us, Permutation us U -> NoDup (map fst U) ->
  forall n, TsCmds.assoc_get us n = TsCmds.assoc_get U n.
Proof.
  intros U us P. induction P as [|[k v] l l' P IH|[k1 v1] [k2 v2] l|l l' l'' P1 IH1 P2 IH2]; intros ND n.
  - reflexivity.
  - cbn [map fst] in ND. inversion ND; subst. cbn [TsCmds.assoc_get]. rewrite IH by assumption. reflexivity.
  - cbn [map fst] in ND. inversion ND as [|? ? N1 ND1]; subst. cbn [TsCmds.assoc_get].
    destruct (bytes_eqb n k1) eqn:E1; destruct (bytes_eqb n k2) eqn:E2; try reflexivity.
    apply bytes_eqb_eq in E1, E2. subst. exfalso. apply N1. left. reflexivity.
  - rewrite IH1; [apply IH2; exact ND|].
    apply (Permutation_NoDup (l := map fst l'')); [|exact ND].
    apply Permutation_map. symmetry. exact P2.
Qed.

Lemma update_files_ext U U' : (forall n, TsCmds.assoc_get U n = TsCmds.assoc_get U' n) ->
  forall fs, update_files U fs = update_files U' fs.
Proof.
  intros H. induction fs as [|[n d] fs IH]; [reflexivity|]. cbn [update_files]. rewrite IH, H. reflexivity.
Qed.

(* UpdateScripts rewrites the archive as the model says, whatever the order in which Go
   iterates over the map: for every permutation [us] of the recorded updates U (a map: no key
   twice; every key the name of an entry, which is what cmp records), the composed loops never
   panic, and they end in ts.Fatalf exactly when the model has no archive (txtar.Quote refused),
   otherwise with the model's entries. *)
Theorem src_apply_updates_eq U us fs : Permutation us U -> NoDup (map fst U) ->
  (forall k, In k (map fst U) -> In k (map fst fs)) ->
  exists a, src_outer us fs = Ok a /\ res_of_model (update_files U fs) a.
Proof.
  intros P ND AllIn.
  assert (NDu : NoDup (map fst us)).
  { apply (Permutation_NoDup (l := map fst U)); [|exact ND]. apply Permutation_map. symmetry. exact P. }
  assert (AllInu : forall k, In k (map fst us) -> In k (map fst fs)).
  { intros k Ik. apply AllIn. apply (Permutation_in (l := map fst us)); [apply Permutation_map; exact P | exact Ik]. }
  destruct (src_outer_model us fs NDu AllInu) as (a & E & R).
  exists a. split; [exact E|].
  rewrite <- (update_files_ext us U (assoc_get_perm U us P ND) fs). exact R.
Qed.

(* what is written: os.WriteFile(ts.file, txtar.Format(ts.archive), 0o666) *)
Lemma src_write_args_eq ts :
  src_TestScript_applyScriptUpdates_write_args ts = Ok (u_file ts, format (u_archive ts), 438%Z).
Proof. reflexivity. Qed.

(* the whole of applyScriptUpdates after the emptiness test, up to the bytes handed to
   os.WriteFile: the loops over the archive of the receiver, then the arguments of the call *)
Definition src_apply (us : list (bytes * bytes)) (ts : ts_urecv) : res (option (bytes * bytes)) :=
  bind (src_outer us (files (u_archive ts))) (fun a =>
  match a with
  | ADone fs' =>
      let ts' := {| u_params := u_params ts; u_file := u_file ts;
                    u_archive := {| comment := comment (u_archive ts); files := fs' |};
                    u_scriptFiles := u_scriptFiles ts; u_scriptUpdates := u_scriptUpdates ts |} in
      bind (src_TestScript_applyScriptUpdates_write_args ts') (fun '(name, data, _) => Ok (Some (name, data)))
  | AFailed _ => Ok None
  end).

Theorem src_apply_eq U us ts : Permutation us U -> NoDup (map fst U) ->
  (forall k, In k (map fst U) -> In k (map fst (files (u_archive ts)))) ->
  src_apply us ts =
    Ok (match apply_updates (u_archive ts) U with
        | Some a' => Some (u_file ts, format a')
        | None => None
        end).
Proof.
  intros P ND AllIn. unfold src_apply, apply_updates.
  destruct (src_apply_updates_eq U us (files (u_archive ts)) P ND AllIn) as (a & E & R).
  rewrite E. cbn [bind]. destruct (update_files U (files (u_archive ts))) as [fs'|]; destruct a; cbn in R; try contradiction.
  - subst. rewrite src_write_args_eq. reflexivity.
  - reflexivity.
Qed.

(* ------------------------------------------------------------------ cmp: the verdict and the recording *)

(* the translated maps and the model's association lists hold the same bindings *)
Definition map_agrees (m : mapref bytes) (l : list (bytes * bytes)) : Prop :=
  exists bs, m = Some bs /\ forall k, assoc_find bs k = TsCmds.assoc_get l k.

Lemma assoc_get_set l k v k' :
  TsCmds.assoc_get (TsCmds.assoc_set l k v) k' = if bytes_eqb k' k then Some v else TsCmds.assoc_get l k'.
Proof.
  induction l as [|[k0 v0] l IH]; cbn [TsCmds.assoc_set TsCmds.assoc_get]; [reflexivity|].
  destruct (bytes_eqb k k0) eqn:E0; cbn [TsCmds.assoc_get].
  - apply bytes_eqb_eq in E0. subst k0. destruct (bytes_eqb k' k); reflexivity.
  - rewrite IH. destruct (bytes_eqb k' k0) eqn:E1; [|reflexivity].
    destruct (bytes_eqb k' k) eqn:E; [|reflexivity].
    apply bytes_eqb_eq in E1, E. subst. rewrite bytes_eqb_refl in E0. discriminate E0.
Qed.

Lemma map_agrees_set m l k v : map_agrees m l ->
  exists m', go_mapref_set m k v = Ok m' /\ map_agrees m' (TsCmds.assoc_set l k v).
Proof.
  intros (bs & -> & H). exists (Some ((k, v) :: bs)). split; [reflexivity|].
  exists ((k, v) :: bs). split; [reflexivity|]. intros k'. cbn [assoc_find].
  rewrite assoc_get_set, (bytes_eqb_sym k k'). destruct (bytes_eqb k' k); [reflexivity | apply H].
Qed.

(* the tail of the model's cmd_cmp, from the comparison on (TsCmds.cmd_cmp, by unfolding) *)
Definition cmp_tail (upd envsubst neg : bool) (text1 text2 abs2 : bytes) (st : state) : TsCmds.outcome :=
  let eq := bytes_eqb text1 text2 in
  if neg then (if eq then TsCmds.Failed st else TsCmds.Done st)
  else if eq then TsCmds.Done st
  else if upd && negb envsubst then
    match TsCmds.assoc_get (s_files st) (clean abs2) with
    | Some entry => TsCmds.Done (set_updates st (TsCmds.assoc_set (s_updates st) entry text1))
    | None => TsCmds.Failed st
    end
  else TsCmds.Failed st.

Lemma cmd_cmp_tail upd envsubst neg n1 n2 st text1 data :
  bytes_eqb n1 n2 = false -> ts_read st n1 = Some text1 -> read_file (s_fs st) (mkabs st n2) = Some data ->
  cmd_cmp upd envsubst neg [n1; n2] st =
    cmp_tail upd envsubst neg text1 (if envsubst then expand (s_env st) data else data) (mkabs st n2) st.
Proof. intros E R1 R2. unfold cmd_cmp, cmp_tail. rewrite E, R1, R2. reflexivity. Qed.

(* how the value of the translated segment is read: the command succeeded with this receiver,
   it ended in Fatalf, or it goes on to the diff and the final Fatalf (a failure) *)
Inductive cmp_view := CmpDone (ts : ts_urecv) | CmpFailed.
Definition view_of_cmp (o : GoSem.outcome ts_urecv unit (exitm ts_urecv)) : option cmp_view :=
  match o with
  | Return (DoneM ts) => Some (CmpDone ts)
  | Return (FailedM _) => Some CmpFailed
  | Normal _ => Some CmpFailed
  | _ => None
  end.

(* the receiver and the model state agree on the three things the segment reads or writes *)
Definition recv_agrees (upd : bool) (ts : ts_urecv) (st : state) : Prop :=
  u_params ts = upd /\ map_agrees (u_scriptFiles ts) (s_files st) /\ map_agrees (u_scriptUpdates ts) (s_updates st).

(* doCmdCmp from the comparison to the diff: the model's verdict, and when an update is recorded
   the receiver afterwards agrees with the model's state afterwards *)
Theorem src_cmp_verdict_eq upd ts st neg env name1 name2 text1 abs2 text2 : recv_agrees upd ts st ->
  exists o, src_TestScript_doCmdCmp_verdict ts neg env name1 name2 text1 abs2 text2 = Ok o /\
    match cmp_tail upd env neg text1 text2 abs2 st with
    | TsCmds.Done st' => exists ts', view_of_cmp o = Some (CmpDone ts') /\ recv_agrees upd ts' st'
    | TsCmds.Failed _ => view_of_cmp o = Some CmpFailed
    | TsCmds.SkipNow _ => False
    end.
Proof.
  intros (Hp & Hf & Hu). unfold src_TestScript_doCmdCmp_verdict, cmp_tail. cbv zeta.
  destruct neg.
  - destruct (bytes_eqb text1 text2); eexists; (split; [reflexivity|]).
    + reflexivity.
    + exists ts. split; [reflexivity|]. repeat split; assumption.
  - destruct (bytes_eqb text1 text2).
    + eexists. split; [reflexivity|]. exists ts. split; [reflexivity|]. repeat split; assumption.
    + change (id (u_params ts)) with (u_params ts). rewrite Hp.
      destruct (upd && negb env) eqn:G.
      * unfold go_filepath_Clean. destruct Hf as (bs & Ef & Hf). rewrite Ef. cbn [go_mapref_lookup].
        rewrite Hf. destruct (TsCmds.assoc_get (s_files st) (clean abs2)) as [entry|].
        -- destruct (map_agrees_set _ _ entry text1 Hu) as (m' & Es & Ha). rewrite Es. cbn [bind bindO].
           eexists. split; [reflexivity|]. eexists. split; [reflexivity|].
           split; [reflexivity|]. split; [exists bs; split; [reflexivity | exact Hf] | exact Ha].
        -- cbn [bindO]. eexists. split; [reflexivity|]. reflexivity.
      * cbn [bindO]. eexists. split; [reflexivity|]. reflexivity.
Qed.

(* Semantics of the built-in commands of testscript (cmd.go), of commands registered by
   testscript.Main and of the custom commands of the harness.  Definitions only.

   [Done st]     the command returned normally,
   [Failed st]   it called ts.Fatalf; [st] holds the effects it had before that,
   [SkipNow st]  it left the script through T.Skip.

   Not modelled (a line that uses them fails and sets [s_unmodelled]): ttyin, ttyout,
   regular expressions outside the fragment of [parse_re] (TsRegex.v), programs other than the helper (they are "not found"),
   and every text written to the log.  Deadlines (ts.ctxt): only the two situations of
   [c_deadline] and [c_cancelled] (TsState.v) -- the context expires while the script is blocked
   on a sleeping helper, or is done before the script starts; what happens to later commands
   once it has expired depends on timing and is flagged [s_racy]. *)
From Coq Require Import List Bool Arith NArith.
From Coq.Strings Require Import Byte.
From GI Require Import Lib.Bytes Gen.TsRunConsts Txtar.Txtar TsRun.TsFs TsRun.TsRegex TsRun.TsState.
Import ListNotations.

Inductive outcome := Done (st : state) | Failed (st : state) | SkipNow (st : state).

Definition outcome_state (o : outcome) : state :=
  match o with Done s => s | Failed s => s | SkipNow s => s end.

(* MkAbs *)
Definition mkabs (st : state) (f : bytes) : bytes := if is_abs f then f else join2 (s_cd st) f.

(* TestScript.ReadFile *)
Definition ts_read (st : state) (f : bytes) : option bytes :=
  if bytes_eqb f ((* "stdout" *) [x73; x74; x64; x6f; x75; x74]) then Some (s_out st)
  else if bytes_eqb f ((* "stderr" *) [x73; x74; x64; x65; x72; x72]) then Some (s_err st)
  else if bytes_eqb f ((* "ttyout" *) [x74; x74; x79; x6f; x75; x74]) then Some []
  else read_file (s_fs st) (mkabs st f).

Fixpoint assoc_get (m : list (bytes * bytes)) (k : bytes) : option bytes :=
  match m with
  | [] => None
  | (k', v) :: r => if bytes_eqb k k' then Some v else assoc_get r k
  end.
(* Go map assignment *)
Fixpoint assoc_set (m : list (bytes * bytes)) (k v : bytes) : list (bytes * bytes) :=
  match m with
  | [] => [(k, v)]
  | (k', v') :: r => if bytes_eqb k k' then (k, v) :: r else (k', v') :: assoc_set r k v
  end.

(* ---- cd *)
Definition cmd_cd (args : list bytes) (st : state) : outcome :=
  match args with
  | [d] =>
      let p := mkabs st d in
      match stat (s_fs st) p with
      | Some (NDir _) => Done (set_cd st p)
      | _ => Failed st
      end
  | _ => Failed st
  end.

(* ---- chmod *)
Definition cmd_chmod (args : list bytes) (st : state) : outcome :=
  match args with
  | [m; f] =>
      match parse_perm m with
      | Some perm =>
          match chmod (s_fs st) (mkabs st f) perm with
          | Some t => Done (set_fs st t)
          | None => Failed st
          end
      | None => Failed st
      end
  | _ => Failed st
  end.

(* ---- cmp / cmpenv; update mode (C16) is the branch guarded by [upd]: the second file is an archive
   entry when its CLEANED absolute path is a key of scriptFiles (the file itself is read through the
   path as written) *)
Definition cmd_cmp (upd : bool) (envsubst : bool) (neg : bool) (args : list bytes) (st : state) : outcome :=
  match args with
  | [n1; n2] =>
      if bytes_eqb n1 n2 then Failed st else
      match ts_read st n1 with
      | None => Failed st
      | Some text1 =>
          let abs2 := mkabs st n2 in
          match read_file (s_fs st) abs2 with
          | None => Failed st
          | Some data =>
              let text2 := if envsubst then expand (s_env st) data else data in
              let eq := bytes_eqb text1 text2 in
              if neg then (if eq then Failed st else Done st)
              else if eq then Done st
              else if upd && negb envsubst then
                match assoc_get (s_files st) (clean abs2) with
                | Some entry => Done (set_updates st (assoc_set (s_updates st) entry text1))
                | None => Failed st
                end
              else Failed st
          end
      end
  | _ => Failed st
  end.

(* ---- cp *)
Definition cp_source (st : state) (arg : bytes) : option (bytes * bytes * N) :=
  if bytes_eqb arg ((* "stdout" *) [x73; x74; x64; x6f; x75; x74]) then Some (arg, s_out st, 438%N)
  else if bytes_eqb arg ((* "stderr" *) [x73; x74; x64; x65; x72; x72]) then Some (arg, s_err st, 438%N)
  else if bytes_eqb arg ((* "ttyout" *) [x74; x74; x79; x6f; x75; x74]) then Some (arg, [], 438%N)
  else
    let src := mkabs st arg in
    match stat (s_fs st) src with
    | Some n =>
        match read_file (s_fs st) src with
        | Some data => Some (src, data, N.land (node_mode n) 511)
        | None => None
        end
    | None => None
    end.

Fixpoint cp_loop (dst : bytes) (dst_dir : bool) (srcs : list bytes) (st : state) : outcome :=
  match srcs with
  | [] => Done st
  | a :: r =>
      match cp_source st a with
      | None => Failed st
      | Some (src, data, mode) =>
          let targ := if dst_dir then join2 dst (base src) else dst in
          match write_file (s_fs st) targ data mode with
          | Some t => cp_loop dst dst_dir r (set_fs st t)
          | None => Failed st
          end
      end
  end.

Definition cmd_cp (args : list bytes) (st : state) : outcome :=
  match args with
  | [] | [_] => Failed st
  | _ =>
      let dst := mkabs st (last args []) in
      let dst_dir := is_dir_node (stat (s_fs st) dst) in
      if Nat.ltb 2 (length args) && negb dst_dir then Failed st
      else cp_loop dst dst_dir (removelast args) st
  end.

(* ---- env *)
Fixpoint split_eq (d : bytes) : option (bytes * bytes) :=
  match d with
  | [] => None
  | b :: r =>
      if beq b x3d then Some ([], r)
      else match split_eq r with Some (k, v) => Some (b :: k, v) | None => None end
  end.

Fixpoint env_loop (args : list bytes) (env : list (bytes * bytes)) : list (bytes * bytes) :=
  match args with
  | [] => env
  | a :: r =>
      match split_eq a with
      | Some (k, v) => env_loop r (env ++ [(k, v)])
      | None => env_loop r env
      end
  end.
Definition cmd_env (args : list bytes) (st : state) : outcome := Done (set_env st (env_loop args (s_env st))).

(* ---- exists *)
Fixpoint exists_loop (neg readonly : bool) (fs : list bytes) (st : state) : bool :=
  match fs with
  | [] => true
  | f :: r =>
      match stat (s_fs st) (mkabs st f) with
      | Some n =>
          if neg then false
          else if readonly && negb (N.eqb (N.land (node_mode n) 146) 0) then false
          else exists_loop neg readonly r st
      | None => if neg then exists_loop neg readonly r st else false
      end
  end.

Definition cmd_exists (neg : bool) (args : list bytes) (st : state) : outcome :=
  let '(ro, files) :=
    match args with
    | a :: r => if bytes_eqb a ((* "-readonly" *) [x2d; x72; x65; x61; x64; x6f; x6e; x6c; x79]) then (true, r) else (false, args)
    | [] => (false, args)
    end in
  match files with
  | [] => Failed st
  | _ => if exists_loop neg ro files st then Done st else Failed st
  end.

(* ---- mkdir *)
Fixpoint mkdir_loop (args : list bytes) (st : state) : outcome :=
  match args with
  | [] => Done st
  | a :: r =>
      match mkdir_all (s_fs st) (mkabs st a) 511 with
      | (t, true) => mkdir_loop r (set_fs st t)
      | (t, false) => Failed (set_fs st t)
      end
  end.
Definition cmd_mkdir (args : list bytes) (st : state) : outcome :=
  match args with [] => Failed st | _ => mkdir_loop args st end.

(* ---- mv *)
Definition cmd_mv (args : list bytes) (st : state) : outcome :=
  match args with
  | [a; b] =>
      match rename (s_fs st) (mkabs st a) (mkabs st b) with
      | Some t => Done (set_fs st t)
      | None => Failed st
      end
  | _ => Failed st
  end.

(* ---- rm *)
Fixpoint rm_loop (args : list bytes) (st : state) : outcome :=
  match args with
  | [] => Done st
  | a :: r =>
      match remove_all (s_fs st) (mkabs st a) with
      | Some t => rm_loop r (set_fs st t)
      | None => Failed st
      end
  end.
Definition cmd_rm (args : list bytes) (st : state) : outcome :=
  match args with [] => Failed st | _ => rm_loop args st end.

(* ---- unquote *)
Fixpoint unquote_loop (args : list bytes) (st : state) : outcome :=
  match args with
  | [] => Done st
  | a :: r =>
      let f := mkabs st a in
      match read_file (s_fs st) f with
      | Some data =>
          match unquote data with
          | Some d' =>
              match write_file (s_fs st) f d' 438 with
              | Some t => unquote_loop r (set_fs st t)
              | None => Failed st
              end
          | None => Failed st
          end
      | None => Failed st
      end
  end.

(* ---- unix2dos: bufio.ScanLines, each line followed by CR LF *)
Definition drop_cr (l : bytes) : bytes :=
  match rev l with b :: r => if beq b CR then rev r else l | [] => l end.
Fixpoint scan_lines (cur : bytes) (d : bytes) : list bytes :=
  match d with
  | [] => match cur with [] => [] | _ => [drop_cr cur] end
  | b :: r => if beq b NL then drop_cr cur :: scan_lines [] r else scan_lines (cur ++ [b]) r
  end.
Definition unix2dos (d : bytes) : bytes := concat (map (fun l => l ++ [CR; NL]) (scan_lines [] d)).

Fixpoint unix2dos_loop (args : list bytes) (st : state) : outcome :=
  match args with
  | [] => Done st
  | a :: r =>
      let f := mkabs st a in
      match read_file (s_fs st) f with
      | Some data =>
          match write_file (s_fs st) f (unix2dos data) 438 with
          | Some t => unix2dos_loop r (set_fs st t)
          | None => Failed st
          end
      | None => Failed st
      end
  end.
Definition cmd_unix2dos (args : list bytes) (st : state) : outcome :=
  match args with [] => Failed st | _ => unix2dos_loop args st end.

(* ---- stdin *)
Definition cmd_stdin (args : list bytes) (st : state) : outcome :=
  match args with
  | [f] => match ts_read st f with Some d => Done (set_in st d) | None => Failed st end
  | _ => Failed st
  end.

(* ---- stop *)
Definition cmd_stop (args : list bytes) (st : state) : outcome :=
  match args with
  | [] | [_] => Done (set_stopped st true)
  | _ => Failed st
  end.

(* ---- symlink *)
Definition cmd_symlink (args : list bytes) (st : state) : outcome :=
  match args with
  | [f; arrow; target] =>
      if bytes_eqb arrow ((* "->" *) [x2d; x3e]) then
        match symlink (s_fs st) target (mkabs st f) with
        | Some t => Done (set_fs st t)
        | None => Failed st
        end
      else Failed st
  | _ => Failed st
  end.

(* ---- stdout / stderr / grep (scriptMatch) *)
Definition count_prefix : bytes := (* "-count=" *) [x2d; x63; x6f; x75; x6e; x74; x3d].

Definition script_match (neg : bool) (args : list bytes) (text : bytes) (is_grep : bool) (st : state) : outcome :=
  let parsed :=   (* None = Fatalf while reading -count *)
    match args with
    | a :: r =>
        if has_prefix count_prefix a then
          if neg then None
          else match parse_count (skipn (length count_prefix) a) with
               | Some n => Some (Some n, r)
               | None => None
               end
        else Some (None, args)
    | [] => Some (None, args)
    end in
  match parsed with
  | None => Failed st
  | Some (cnt, args') =>
      if negb (Nat.eqb (length args') (if is_grep then 2 else 1)) then Failed st else
      match parse_re (hd [] args') with
      | None => Failed (set_unmodelled st)
      | Some re =>
          let otext := if is_grep then read_file (s_fs st) (mkabs st (nth 1 args' [])) else Some text in
          match otext with
          | None => Failed st
          | Some tx =>
              if negb (re_byte_safe re tx) then Failed (set_unmodelled st)
              else if neg then (if re_has_match re tx then Failed st else Done st)
              else if negb (re_has_match re tx) then Failed st
              else match cnt with
                   | Some n => if N.eqb (re_count re tx) n then Done st else Failed st
                   | None => Done st
                   end
          end
      end
  end.

(* ---- background processes *)

Definition proc_ok (p : proc) : bool := N.eqb (p_code p) 0.

Definition set_status (p : proc) (s : pstatus) : proc :=
  {| p_sleeper := p_sleeper p; p_code := p_code p; p_out := p_out p; p_err := p_err p; p_status := s |}.
Definition set_code (p : proc) (c : N) : proc :=
  {| p_sleeper := p_sleeper p; p_code := c; p_out := p_out p; p_err := p_err p; p_status := p_status p |}.

(* <-bg.wait: the process ends and is reaped; racy = the model cannot tell how it ends
   (an instant process that was signalled) or it would take the full sleep *)
Definition reap (p : proc) : proc * bool :=
  match p_status p with
  | PRunning => (set_status p PReaped, p_sleeper p)
  | PSignalled => (set_status p PReaped, negb (p_sleeper p))
  | PReaped => (p, false)
  end.

(* Process.Signal: (process afterwards, error returned?, racy?) *)
Definition signal (p : proc) : proc * bool * bool :=
  match p_status p with
  | PRunning =>
      if p_sleeper p then (set_code (set_status p PSignalled) 255, false, false)
      else (set_status p PSignalled, false, true)
  | PSignalled => (p, false, true)
  | PReaped => (p, true, false)
  end.

Definition with_proc (b : bgcmd) (p : proc) : bgcmd := {| bg_name := bg_name b; bg_neg := bg_neg b; bg_proc := p |}.

(* interruptProcess on every background command; errors are ignored.  Whether an
   interrupted instant process still ends by itself is recorded as racy by [reap]. *)
Definition interrupt_all (st : state) : state :=
  set_bg st (map (fun b => let '(p, _, _) := signal (bg_proc b) in with_proc b p) (s_bg st)).

Fixpoint find_bg (bgs : list bgcmd) (name : bytes) : option bgcmd :=
  match name with
  | [] => None
  | _ =>
      match bgs with
      | [] => None
      | b :: r => if bytes_eqb (bg_name b) name then Some b else find_bg r name
      end
  end.

(* the status check of wait: Fatalf when a command ended the wrong way *)
Definition status_wrong (b : bgcmd) : bool :=
  if proc_ok (bg_proc b) then bg_neg b else negb (bg_neg b).

(* waitBackground: returns the list with the visited commands reaped, the collected
   outputs, whether a status check failed, and the racy flag *)
Fixpoint wait_loop (check : bool) (bgs : list bgcmd) : list bgcmd * bytes * bytes * bool * bool :=
  match bgs with
  | [] => ([], [], [], false, false)
  | b :: r =>
      let '(p, racy) := reap (bg_proc b) in
      let b' := with_proc b p in
      if check && status_wrong b' then (b' :: r, [], [], true, racy)
      else
        let '(r', o, e, bad, racy') := wait_loop check r in
        (b' :: r', p_out p ++ o, p_err p ++ e, bad, racy || racy')
  end.

Definition wait_all (check : bool) (st : state) : outcome :=
  let '(bgs', o, e, bad, racy) := wait_loop check (s_bg st) in
  if bad then Failed (mark_racy (set_bg st bgs') racy)
  else Done (mark_racy (set_bg (set_outerr st o e) []) racy).

Fixpoint replace_bg (bgs : list bgcmd) (name : bytes) (nb : option bgcmd) : list bgcmd :=
  match bgs with
  | [] => []
  | b :: r =>
      if bytes_eqb (bg_name b) name then (match nb with Some x => x :: r | None => r end)
      else b :: replace_bg r name nb
  end.

Definition wait_one (name : bytes) (st : state) : outcome :=
  match find_bg (s_bg st) name with
  | None => Failed st
  | Some b =>
      let '(p, racy) := reap (bg_proc b) in
      let b' := with_proc b p in
      let st1 := mark_racy (set_outerr st (p_out p) (p_err p)) racy in
      if status_wrong b' then Failed (set_bg st1 (replace_bg (s_bg st) name (Some b')))
      else Done (set_bg st1 (replace_bg (s_bg st) name None))
  end.

(* a background command that only the deadline will end *)
Definition running_sleeper (b : bgcmd) : bool :=
  p_sleeper (bg_proc b) && match p_status (bg_proc b) with PRunning => true | _ => false end.

(* `wait` blocks on such a command until the context expires; the command is then stopped by
   testscript itself, and "test timed out while running command" is a failure whatever the
   polarity the command was started with (a command in front of it in the list that ended the
   wrong way fails the line even earlier).  What the rest of a ContinueOnError run sees
   afterwards depends on timing. *)
Definition wait_times_out (cfg : config) (bgs : list bgcmd) : bool :=
  c_deadline cfg && existsb running_sleeper bgs.

Definition timed_out_state (cfg : config) (st : state) : state := mark_racy st (c_continue cfg).

Definition cmd_wait (cfg : config) (args : list bytes) (st : state) : outcome :=
  match args with
  | [] => if wait_times_out cfg (s_bg st) then Failed (timed_out_state cfg st) else wait_all true st
  | [n] =>
      match find_bg (s_bg st) n with
      | Some b => if wait_times_out cfg [b] then Failed (timed_out_state cfg st) else wait_one n st
      | None => wait_one n st
      end
  | _ => Failed st
  end.

(* ---- skip *)
Definition cmd_skip (args : list bytes) (st : state) : outcome :=
  match args with
  | [] | [_] =>
      match wait_all true (interrupt_all st) with
      | Done st' => SkipNow st'
      | o => o
      end
  | _ => Failed st
  end.

(* ---- kill *)
Fixpoint kill_loop (bgs : list bgcmd) : list bgcmd * bool * bool :=
  match bgs with
  | [] => ([], false, false)
  | b :: r =>
      let '(p, err, racy) := signal (bg_proc b) in
      if err then (with_proc b p :: r, true, racy)
      else let '(r', err', racy') := kill_loop r in (with_proc b p :: r', err', racy || racy')
  end.

Definition kill_args (args : list bytes) : option bytes :=   (* Some name ("" = all); None = Fatalf *)
  match args with
  | [] => Some []
  | a :: r =>
      match r with
      | _ :: _ :: _ => None
      | _ =>
          match a with
          | b :: sig =>
              if beq b x2d then
                if bytes_eqb sig ((* "INT" *) [x49; x4e; x54]) || bytes_eqb sig ((* "KILL" *) [x4b; x49; x4c; x4c]) then
                  match r with [n] => Some n | _ => Some [] end
                else None
              else Some a
          | [] => Some a
          end
      end
  end.

Definition cmd_kill (args : list bytes) (st : state) : outcome :=
  match kill_args args with
  | None => Failed st
  | Some [] =>
      let '(bgs', err, racy) := kill_loop (s_bg st) in
      let st' := mark_racy (set_bg st bgs') racy in
      if err then Failed st' else Done st'
  | Some name =>
      match find_bg (s_bg st) name with
      | None => Failed st
      | Some b =>
          let '(p, err, racy) := signal (bg_proc b) in
          let st' := mark_racy (set_bg st (replace_bg (s_bg st) name (Some (with_proc b p)))) racy in
          if err then Failed st' else Done st'
      end
  end.

(* ---- exec *)

Definition is_word_byte (b : byte) : bool := is_alnum b.

(* ^&([a-zA-Z_0-9]+&)?$ : Some name ("" for a bare &) *)
Definition bg_spec (a : bytes) : option bytes :=
  match a with
  | b :: r =>
      if beq b x26 then
        match r with
        | [] => Some []
        | _ =>
            match rev r with
            | e :: m => if beq e x26 && forallb is_word_byte m && negb (Nat.eqb (length m) 0) then Some (rev m) else None
            | [] => None
            end
        end
      else None
  | [] => None
  end.

(* a background helper that touches the file tree races with the lines that follow *)
Definition helper_writes (args : list bytes) : bool :=
  match args with
  | sub :: _ => is_write_sub sub
  | [] => false
  end.

(* how a foreground command ends: by itself (exit status zero or not), or stopped by
   testscript because the context of the run is done (waitOrStop reports ctx.Err()) *)
Inductive exec_end := EndOk | EndErr | EndTimedOut.

Definition fg_end (cfg : config) (h : helper_res) : exec_end :=
  if c_cancelled cfg then EndTimedOut
  else if c_deadline cfg && h_sleeper h then EndTimedOut
  else if N.eqb (h_code h) 0 then EndOk else EndErr.

(* does the line return normally?  cmdExec: `err == nil && neg` fails, and on an error the
   expired context is looked at BEFORE the polarity: being stopped by the deadline is never
   the failure that "!" asks for *)
Definition meets (neg : bool) (e : exec_end) : bool :=
  match e with EndOk => negb neg | EndErr => neg | EndTimedOut => false end.

(* not compared with the implementation: a sleeper that runs to its end; everything behind a
   time-out in a ContinueOnError run; every command started under a context that is already done
   (the stop signal races with the command) *)
Definition fg_racy (cfg : config) (h : helper_res) (e : exec_end) : bool :=
  match e with
  | EndTimedOut => c_continue cfg || c_cancelled cfg
  | _ => h_sleeper h
  end.

(* a command that could not be started.  buildExecCmd looks a bare name up on PATH and gives up
   BEFORE the standard input set by `stdin` is consumed; every other way of not starting (a
   path with a slash -- or the empty word -- that cannot be executed, a current directory that
   is gone) is met by cmd.Start, behind which ts.stdin is cleared *)
Definition is_bare (prog : bytes) : bool :=
  negb (has_slash prog) && match prog with [] => false | _ => true end.

Definition start_failed_state (cfg : config) (st : state) (prog : bytes) : state :=
  let st1 := set_outerr st [] [] in
  if is_bare prog && negb (prog_found cfg st prog) then st1 else set_in st1 [].

Definition cmd_exec (cfg : config) (neg : bool) (args : list bytes) (st : state) : outcome :=
  match args with
  | [] => Failed st
  | prog :: rest =>
      match bg_spec (last args []) with
      | Some name =>
          match rest with
          | [] =>
              (* `exec &` and `exec &name&`: no program, usage error (corrected behaviour: the
                 unrepaired code indexed args[1:0] for `exec &name&`) *)
              Failed st
          | _ =>
              match find_bg (s_bg st) name with
              | Some _ => Failed st
              | None =>
                  if can_start cfg st prog then
                    let h := helper_run (removelast rest) (s_in st) (s_env st) (s_cd st) (s_fs st) in
                    let p := {| p_sleeper := h_sleeper h; p_code := h_code h; p_out := h_out h; p_err := h_err h; p_status := PRunning |} in
                    let fs_changed := helper_writes (removelast rest) in
                    let st1 := set_fs (set_in (set_outerr st [] []) []) (h_fs h) in
                    Done (mark_racy (set_bg st1 (s_bg st ++ [{| bg_name := name; bg_neg := neg; bg_proc := p |}])) (fs_changed || c_cancelled cfg))
                  else
                    let st1 := start_failed_state cfg st prog in
                    if neg then Done st1 else Failed st1
              end
          end
      | None =>
          if can_start cfg st prog then
            let h := helper_run rest (s_in st) (s_env st) (s_cd st) (s_fs st) in
            let e := fg_end cfg h in
            let st1 := mark_racy (set_fs (set_in (set_outerr st (h_out h) (h_err h)) []) (h_fs h)) (fg_racy cfg h e) in
            if meets neg e then Done st1 else Failed st1
          else
            let st1 := start_failed_state cfg st prog in
            if neg then Done st1 else Failed st1
      end
  end.

(* ---- custom commands of the harness (Params.Cmds) *)
Definition cmd_custom (cfg : config) (k : custom_kind) (neg : bool) (args : list bytes) (st : state) : outcome :=
  match k with
  | CProbe =>
      Done (set_probes st (s_probes st ++
        [{| po_line := s_lineno st; po_neg := neg; po_args := args; po_cd := s_cd st;
            po_out := s_out st; po_err := s_err st; po_in := s_in st;
            po_vars := map (getenv (s_env st)) (c_watch cfg); po_nbg := length (s_bg st) |}]))
  | CFail => Failed st
  | CNegOk => if neg then Done st else Failed st
  end.

(* ---- the table *)

Definition builtin_sem (cfg : config) (name : bytes) (neg : bool) (args : list bytes) (st : state) : outcome :=
  if neg && mem_bytes name neg_rejecting_cmds then Failed st
  else if bytes_eqb name ((* "cd" *) [x63; x64]) then cmd_cd args st
  else if bytes_eqb name ((* "chmod" *) [x63; x68; x6d; x6f; x64]) then cmd_chmod args st
  else if bytes_eqb name ((* "cmp" *) [x63; x6d; x70]) then cmd_cmp (c_update cfg) false neg args st
  else if bytes_eqb name ((* "cmpenv" *) [x63; x6d; x70; x65; x6e; x76]) then cmd_cmp (c_update cfg) true neg args st
  else if bytes_eqb name ((* "cp" *) [x63; x70]) then cmd_cp args st
  else if bytes_eqb name ((* "env" *) [x65; x6e; x76]) then cmd_env args st
  else if bytes_eqb name ((* "exec" *) [x65; x78; x65; x63]) then cmd_exec cfg neg args st
  else if bytes_eqb name ((* "exists" *) [x65; x78; x69; x73; x74; x73]) then cmd_exists neg args st
  else if bytes_eqb name ((* "grep" *) [x67; x72; x65; x70]) then script_match neg args [] true st
  else if bytes_eqb name ((* "kill" *) [x6b; x69; x6c; x6c]) then cmd_kill args st
  else if bytes_eqb name ((* "mkdir" *) [x6d; x6b; x64; x69; x72]) then cmd_mkdir args st
  else if bytes_eqb name ((* "mv" *) [x6d; x76]) then cmd_mv args st
  else if bytes_eqb name ((* "rm" *) [x72; x6d]) then cmd_rm args st
  else if bytes_eqb name ((* "skip" *) [x73; x6b; x69; x70]) then cmd_skip args st
  else if bytes_eqb name ((* "stderr" *) [x73; x74; x64; x65; x72; x72]) then script_match neg args (s_err st) false st
  else if bytes_eqb name ((* "stdin" *) [x73; x74; x64; x69; x6e]) then cmd_stdin args st
  else if bytes_eqb name ((* "stdout" *) [x73; x74; x64; x6f; x75; x74]) then script_match neg args (s_out st) false st
  else if bytes_eqb name ((* "stop" *) [x73; x74; x6f; x70]) then cmd_stop args st
  else if bytes_eqb name ((* "symlink" *) [x73; x79; x6d; x6c; x69; x6e; x6b]) then cmd_symlink args st
  else if bytes_eqb name ((* "unix2dos" *) [x75; x6e; x69; x78; x32; x64; x6f; x73]) then cmd_unix2dos args st
  else if bytes_eqb name ((* "unquote" *) [x75; x6e; x71; x75; x6f; x74; x65]) then unquote_loop args st
  else if bytes_eqb name ((* "wait" *) [x77; x61; x69; x74]) then cmd_wait cfg args st
  else Failed (set_unmodelled st).

Inductive cmd_ref :=
| CBuiltin (name : bytes)   (* a key of scriptCmds in cmd.go *)
| CMain (name : bytes)      (* registered by testscript.Main: behaves like `exec name` *)
| CCustom (k : custom_kind).

Fixpoint assoc_kind (m : list (bytes * custom_kind)) (k : bytes) : option custom_kind :=
  match m with
  | [] => None
  | (k', v) :: r => if bytes_eqb k k' then Some v else assoc_kind r k
  end.

(* scriptCmds (with the entries added by Main) first, Params.Cmds second *)
Definition lookup_cmd (cfg : config) (name : bytes) : option cmd_ref :=
  if mem_bytes name (c_main_cmds cfg) then Some (CMain name)
  else if mem_bytes name script_cmd_names then Some (CBuiltin name)
  else match assoc_kind (c_cmds cfg) name with
       | Some k => Some (CCustom k)
       | None => None
       end.

Definition cmd_sem (cfg : config) (c : cmd_ref) (neg : bool) (args : list bytes) (st : state) : outcome :=
  match c with
  | CBuiltin name => builtin_sem cfg name neg args st
  | CMain name => if c_explicit_exec cfg then Failed st else cmd_exec cfg neg (name :: args) st
  | CCustom k => cmd_custom cfg k neg args st
  end.

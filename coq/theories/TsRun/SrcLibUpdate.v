(* The receiver and the library calls of the pure segments of UpdateScripts (applyScriptUpdates,
   doCmdCmp) for the translation Gen/TsUpdateSrc.v (table: harness/cmd/genconsts/
   gen_tsupdate_src.go).  Definitions only.

   - txtar.NeedsQuote, txtar.Quote, txtar.Format are DEFINED as the model functions of
     Txtar/Txtar.v (needs_quote, quote, format): Txtar/SrcFacts.v proves the translated source of
     NeedsQuote and Quote (Gen/TxtarSrc.v) equal to them (the C14_source theorems), and Format is the
     model's format, tied to the code by C03's correspondence run;
   - filepath.Clean is TsRun/TsFs.clean, the function the model of cmp uses for the same call
     (compared with the implementation by the runner of harness/cmd/tsrun);
   - txtar.File is the pair (name, data), txtar.Archive the model's record. *)
From Coq Require Import List Bool.
From Coq.Strings Require Import Byte.
From GI Require Import Lib.Bytes Lib.GoSem Lib.GoSemState Txtar.Txtar TsRun.TsFs.
Import ListNotations.

(* type TestScript struct { params Params; ...; file string; ...; archive *txtar.Archive;
   scriptFiles, scriptUpdates map[string]string }; of Params only UpdateScripts is read *)
Record ts_urecv := {
  u_params : bool;
  u_file : bytes;
  u_archive : archive;
  u_scriptFiles : mapref bytes;
  u_scriptUpdates : mapref bytes
}.

Definition go_txtar_NeedsQuote (d : bytes) : bool := needs_quote d.
(* txtar.Quote(data): (quoted, nil) or (nil, err) *)
Definition go_txtar_Quote (d : bytes) : bytes * bool :=
  match quote d with Some q => (q, false) | None => ([], true) end.
Definition go_txtar_Format (a : archive) : bytes := format a.
Definition go_filepath_Clean (p : bytes) : bytes := clean p.

(* The backtracking matcher of TsRegex.v against the declarative reading [ms]: what it
   returns is a match, and it finds a match whenever one exists. *)
From Coq Require Import List Bool Arith NArith Lia.
From Coq.Strings Require Import Byte.
From GI Require Import Lib.Bytes Lib.BytesFacts TsRun.TsRegex.
Import ListNotations.

Definition rel := option byte -> bytes -> bytes -> Prop.

Definition k_sound (k : cont) (R : rel) : Prop :=
  forall prev rest n, k prev rest = Some n ->
    n <= length rest /\ R prev (firstn n rest) (skipn n rest).
Definition k_complete (k : cont) (R : rel) : Prop :=
  forall prev w after, R prev w after -> exists n, k prev (w ++ after) = Some n.

Lemma last_of_cons prev b ws : last_of prev (b :: ws) = last_of (Some b) ws.
Proof.
  unfold last_of. simpl. destruct (rev ws) as [|x r] eqn:E; simpl; [reflexivity|reflexivity].
Qed.
Lemma last_of_nil prev : last_of prev [] = prev.
Proof. reflexivity. Qed.

(* the relations the combinators implement *)
Definition R_one (a : atom) (R : rel) : rel := fun prev w after =>
  exists b w', w = b :: w' /\ atom_match a b = true /\ R (Some b) w' after.
Definition R_star (a : atom) (R : rel) : rel := fun prev w after =>
  exists ws w', w = ws ++ w' /\ Forall (fun b => atom_match a b = true) ws /\ R (last_of prev ws) w' after.
Definition R_opt (a : atom) (R : rel) : rel := fun prev w after =>
  R prev w after \/ R_one a R prev w after.

Lemma one_k_sound a k R : k_sound k R -> k_sound (one_k a k) (R_one a R).
Proof.
  intros Hk prev rest n H. unfold one_k in H. destruct rest as [|b r]; [discriminate|].
  destruct (atom_match a b) eqn:Ea; [|discriminate].
  destruct (k (Some b) r) as [m|] eqn:Ek; [|discriminate]. inversion H; subst n.
  destruct (Hk _ _ _ Ek) as [Hle HR]. split; [simpl; lia|].
  exists b, (firstn m r). simpl. auto.
Qed.

Lemma one_k_complete a k R : k_complete k R -> k_complete (one_k a k) (R_one a R).
Proof.
  intros Hk prev w after [b [w' [-> [Ea HR]]]]. unfold one_k. simpl. rewrite Ea.
  destruct (Hk _ _ _ HR) as [n Hn]. rewrite Hn. simpl. eauto.
Qed.

Lemma star_k_sound a k R : k_sound k R -> k_sound (star_k a k) (R_star a R).
Proof.
  intros Hk prev rest. revert prev. induction rest as [|b r IH]; intros prev n H; simpl in H.
  - destruct (Hk _ _ _ H) as [Hle HR]. split; [exact Hle|]. exists [], (firstn n []). simpl. auto.
  - destruct (atom_match a b) eqn:Ea.
    + destruct (star_k a k (Some b) r) as [m|] eqn:Es.
      * inversion H; subst n. destruct (IH _ _ Es) as [Hle [ws [w' [Hw [Hf HR]]]]].
        split; [simpl; lia|]. exists (b :: ws), w'. simpl. rewrite Hw.
        split; [reflexivity|]. split; [constructor; assumption|]. rewrite last_of_cons. exact HR.
      * destruct (Hk _ _ _ H) as [Hle HR]. split; [exact Hle|]. exists [], (firstn n (b :: r)). simpl. auto.
    + destruct (Hk _ _ _ H) as [Hle HR]. split; [exact Hle|]. exists [], (firstn n (b :: r)). simpl. auto.
Qed.

(* star never loses what the continuation alone can do *)
Lemma star_k_fallback a k prev rest n : k prev rest = Some n -> exists m, star_k a k prev rest = Some m.
Proof.
  intros H. destruct rest as [|b r]; simpl; [eauto|].
  destruct (atom_match a b); [|eauto]. destruct (star_k a k (Some b) r); eauto.
Qed.

Lemma star_k_complete a k R : k_complete k R -> k_complete (star_k a k) (R_star a R).
Proof.
  intros Hk prev w after [ws [w' [-> [Hf HR]]]]. revert prev HR.
  induction Hf as [|b ws Hb Hf IH]; intros prev HR.
  - simpl in *. destruct (Hk _ _ _ HR) as [n Hn]. eapply star_k_fallback; eauto.
  - rewrite last_of_cons in HR. destruct (IH _ HR) as [n Hn].
    simpl. rewrite Hb. simpl in Hn. rewrite Hn. eauto.
Qed.

Lemma opt_k_sound a k R : k_sound k R -> k_sound (opt_k a k) (R_opt a R).
Proof.
  intros Hk prev rest n H. unfold opt_k in H.
  destruct (one_k a k prev rest) as [m|] eqn:E.
  - inversion H; subst m. destruct (one_k_sound a k R Hk _ _ _ E) as [Hle HR]. split; [exact Hle|right; exact HR].
  - destruct (Hk _ _ _ H) as [Hle HR]. split; [exact Hle|left; exact HR].
Qed.

Lemma opt_k_complete a k R : k_complete k R -> k_complete (opt_k a k) (R_opt a R).
Proof.
  intros Hk prev w after [HR|HR]; unfold opt_k.
  - destruct (one_k a k prev (w ++ after)); [eauto|]. exact (Hk _ _ _ HR).
  - destruct (one_k_complete a k R Hk _ _ _ HR) as [n Hn]. rewrite Hn. eauto.
Qed.

(* ---- a sequence *)

Lemma firstn_skipn_app {A} n (l : list A) : firstn n l ++ skipn n l = l.
Proof. apply firstn_skipn. Qed.

Theorem m_seq_sound ps : k_sound (m_seq ps) (ms ps).
Proof.
  induction ps as [|p ps IH]; intros prev rest n H.
  - simpl in H. inversion H; subst. simpl. split; [lia|reflexivity].
  - destruct p as [a q| |]; simpl in H.
    + destruct q.
      * destruct (one_k_sound a _ _ IH _ _ _ H) as [Hle [b [w' [Hw [Ea HR]]]]].
        split; [exact Hle|]. simpl. exists [b], w'. rewrite Hw. simpl.
        split; [reflexivity|]. split; [constructor; [exact Ea|constructor]|]. split; [reflexivity|exact HR].
      * destruct (star_k_sound a _ _ IH _ _ _ H) as [Hle [ws [w' [Hw [Hf HR]]]]].
        split; [exact Hle|]. simpl. exists ws, w'. auto.
      * destruct (one_k_sound a _ _ (star_k_sound a _ _ IH) _ _ _ H) as [Hle [b [w1 [Hw [Ea [ws [w' [Hw1 [Hf HR]]]]]]]]].
        split; [exact Hle|]. simpl. exists (b :: ws), w'. rewrite Hw, Hw1. simpl.
        split; [reflexivity|]. split; [constructor; assumption|]. split; [lia|]. rewrite last_of_cons. exact HR.
      * destruct (opt_k_sound a _ _ IH _ _ _ H) as [Hle [HR|[b [w' [Hw [Ea HR]]]]]]; (split; [exact Hle|]); simpl.
        -- exists [], (firstn n rest). simpl. auto.
        -- exists [b], w'. rewrite Hw. simpl.
           split; [reflexivity|]. split; [constructor; [exact Ea|constructor]|]. split; [lia|exact HR].
    + destruct (at_bol prev) eqn:Eb; [|discriminate]. destruct (IH _ _ _ H) as [Hle HR].
      split; [exact Hle|]. simpl. auto.
    + destruct (at_eol rest) eqn:Ee; [|discriminate]. destruct (IH _ _ _ H) as [Hle HR].
      split; [exact Hle|]. simpl. rewrite firstn_skipn. auto.
Qed.

Theorem m_seq_complete ps : k_complete (m_seq ps) (ms ps).
Proof.
  induction ps as [|p ps IH]; intros prev w after H.
  - simpl in *. eauto.
  - destruct p as [a q| |]; simpl in H.
    + destruct H as [ws [w' [-> [Hf [Hq HR]]]]]. simpl. destruct q; simpl in Hq.
      * destruct ws as [|b [|c ws]]; try discriminate. inversion Hf; subst.
        apply (one_k_complete a _ _ IH). exists b, w'. simpl. auto.
      * apply (star_k_complete a _ _ IH). exists ws, w'. auto.
      * destruct ws as [|b ws]; [simpl in Hq; lia|]. inversion Hf; subst.
        apply (one_k_complete a _ _ (star_k_complete a _ _ IH)). exists b, (ws ++ w'). simpl.
        split; [reflexivity|]. split; [assumption|]. exists ws, w'. rewrite last_of_cons in HR. auto.
      * apply (opt_k_complete a _ _ IH). destruct ws as [|b [|c ws]]; [| |simpl in Hq; lia].
        -- left. exact HR.
        -- right. inversion Hf; subst. exists b, w'. simpl. auto.
    + destruct H as [Hb HR]. simpl. rewrite Hb. apply IH. exact HR.
    + destruct H as [He HR]. simpl. rewrite He. apply IH. exact HR.
Qed.

(* ---- alternatives and the search *)

Lemma m_re_sound re prev rest n :
  m_re re prev rest = Some n ->
  n <= length rest /\ exists alt, In alt re /\ ms alt prev (firstn n rest) (skipn n rest).
Proof.
  induction re as [|alt r IH]; simpl; [discriminate|].
  destruct (m_seq alt prev rest) as [m|] eqn:E.
  - intros H. inversion H; subst m. destruct (m_seq_sound alt _ _ _ E) as [Hle HR]. eauto.
  - intros H. destruct (IH H) as [Hle [alt' [Hin HR]]]. eauto.
Qed.

Lemma m_re_complete re prev w after alt :
  In alt re -> ms alt prev w after -> exists n, m_re re prev (w ++ after) = Some n.
Proof.
  induction re as [|alt0 r IH]; intros Hin HR; [destruct Hin|]. simpl.
  destruct (m_seq alt0 prev (w ++ after)) eqn:E; [eauto|].
  destruct Hin as [->|Hin]; [|apply IH; assumption].
  destruct (m_seq_complete alt _ _ _ HR) as [n Hn]. congruence.
Qed.

Lemma last_of_snoc prev pre b : last_of prev (pre ++ [b]) = Some b.
Proof. unfold last_of. rewrite rev_app_distr. reflexivity. Qed.

Lemma find_from_sound re rest : forall prev k off len,
  find_from re prev rest k = Some (off, len) ->
  exists pre w after alt, rest = pre ++ w ++ after /\ off = k + length pre /\ len = length w
    /\ In alt re /\ ms alt (last_of prev pre) w after.
Proof.
  induction rest as [|b r IH]; intros prev k off len H; simpl in H.
  - destruct (m_re re prev []) as [n|] eqn:E; [|discriminate]. inversion H; subst.
    destruct (m_re_sound _ _ _ _ E) as [Hle [alt [Hin HR]]].
    exists [], (firstn len []), (skipn len []), alt. simpl. rewrite firstn_skipn.
    repeat split; auto. destruct len; simpl in *; [reflexivity|lia].
  - destruct (m_re re prev (b :: r)) as [n|] eqn:E.
    + inversion H; subst. destruct (m_re_sound _ _ _ _ E) as [Hle [alt [Hin HR]]].
      exists [], (firstn len (b :: r)), (skipn len (b :: r)), alt. rewrite firstn_skipn.
      repeat split; auto. rewrite firstn_length. lia.
    + destruct (IH _ _ _ _ H) as [pre [w [after [alt [Hr [Ho [Hl [Hin HR]]]]]]]].
      exists (b :: pre), w, after, alt. simpl. rewrite Hr. rewrite last_of_cons.
      repeat split; auto. lia.
Qed.

Lemma find_from_complete re pre : forall prev k w after alt,
  In alt re -> ms alt (last_of prev pre) w after ->
  exists r, find_from re prev (pre ++ w ++ after) k = Some r.
Proof.
  induction pre as [|b pre IH]; intros prev k w after alt Hin HR.
  - simpl in *. destruct (m_re_complete re prev w after alt Hin HR) as [n Hn].
    destruct (w ++ after); simpl; rewrite Hn; eauto.
  - simpl. destruct (m_re re prev (b :: pre ++ w ++ after)); [eauto|].
    rewrite last_of_cons in HR. eapply IH; eauto.
Qed.

(* has_match: exactly when the text contains a match of the expression *)
Theorem re_has_match_iff re text : re_has_match re text = true <-> re_matches_in re text.
Proof.
  unfold re_has_match, re_matches_in. split.
  - destruct (find_from re None text 0) as [[off len]|] eqn:E; [|discriminate]. intros _.
    destruct (find_from_sound _ _ _ _ _ _ E) as [pre [w [after [alt [Hr [_ [_ [Hin HR]]]]]]]]. eauto 10.
  - intros [pre [w [after [alt [-> [Hin HR]]]]]].
    destruct (find_from_complete re pre None 0 w after alt Hin HR) as [r Hr]. rewrite Hr. reflexivity.
Qed.

(* the count is positive exactly when there is a match *)
Lemma N_succ_ne0 (x : N) : (1 + x)%N <> 0%N.
Proof. destruct x; discriminate. Qed.

Theorem re_count_zero_iff re text : re_count re text = 0%N <-> re_has_match re text = false.
Proof.
  unfold re_count, re_has_match. cbn [count_loop].
  destruct (find_from re None text 0) as [[off len]|]; [|tauto].
  split; [|discriminate]. intros H. exfalso. revert H.
  destruct (Nat.eqb (0 + off + len) 0).
  - cbn [opt_nat_eqb]. destruct text as [|b r]; [discriminate|]. apply N_succ_ne0.
  - apply N_succ_ne0.
Qed.

(* ---- non-vacuity *)
Example ex_ms : ms [PBol; PAtom (AChar x61) QPlus; PAtom AAny QOpt; PEol] None [x61; x61; x62] [NL; x63].
Proof.
  exact (proj2 (m_seq_sound [PBol; PAtom (AChar x61) QPlus; PAtom AAny QOpt; PEol] None
                            [x61; x61; x62; NL; x63] 3 eq_refl)).
Qed.
Example ex_parse_count :
  option_map (fun re => (re_has_match re [x61; x61; x62; NL; x61; x62], re_count re [x61; x61; x62; NL; x61; x62]))
             (parse_re [x5e; x61; x2b; x62]) = Some (true, 2%N).
Proof. vm_compute. reflexivity. Qed.

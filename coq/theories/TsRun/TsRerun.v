(* The restricted re-run fix-point of UpdateScripts (C16): vocabulary.  Definitions only.

   The class of scripts: every line that run 1 (UpdateScripts on) executes is blank, has a
   false guard, or reaches
     - a command that neither reads nor writes the file tree ("tree-free"): env, stop, skip,
       wait, kill, stdout, stderr, stdin from stdout/stderr, the custom commands, and exec /
       a registered command running the helper with a subcommand other than write, writeraw;
     - or `cmp stdout|stderr G` (not negated) where G is an archive entry that no earlier
       line compared ("each golden entry is referenced by exactly one cmp"). *)
From Coq Require Import List Bool Arith NArith.
From Coq.Strings Require Import Byte.
From GI Require Import Lib.Bytes Gen.TsRunConsts Txtar.Txtar
  TsRun.TsFs TsRun.TsRegex TsRun.TsState TsRun.TsCmds TsRun.TsRun TsRun.TsSpec TsRun.TsUpdate.
Import ListNotations.

(* the state with another file tree and other recorded updates *)
Definition swapfu (st : state) (t : tree) (u : list (bytes * bytes)) : state :=
  set_updates (set_fs st t) u.

Definition omap (f : state -> state) (o : outcome) : outcome :=
  match o with Done s => Done (f s) | Failed s => Failed (f s) | SkipNow s => SkipNow (f s) end.

Definition cfg_update (cfg : config) (u : bool) : config :=
  {| c_continue := c_continue cfg; c_explicit_exec := c_explicit_exec cfg; c_unique := c_unique cfg;
     c_update := u; c_host_conds := c_host_conds cfg; c_goos := c_goos cfg; c_goarch := c_goarch cfg; c_go_minor := c_go_minor cfg; c_custom_cond := c_custom_cond cfg;
     c_cmds := c_cmds cfg; c_main_cmds := c_main_cmds cfg; c_helper := c_helper cfg;
     c_helper_dir := c_helper_dir cfg; c_watch := c_watch cfg; c_deadline := c_deadline cfg; c_cancelled := c_cancelled cfg |}.

Definition is_std (f : bytes) : bool :=
  bytes_eqb f [x73; x74; x64; x6f; x75; x74] || bytes_eqb f [x73; x74; x64; x65; x72; x72]
  || bytes_eqb f [x74; x74; x79; x6f; x75; x74].

(* exec program sub ...: the helper's subcommand is not one that writes a file *)
Definition exec_tree_free (args : list bytes) : bool :=
  match args with
  | _ :: sub :: _ => negb (helper_writes [sub])
  | _ => true
  end.

Definition tree_free_builtin (name : bytes) (args : list bytes) : bool :=
  if bytes_eqb name [x65; x6e; x76] then true                                  (* env *)
  else if bytes_eqb name [x73; x74; x6f; x70] then true                         (* stop *)
  else if bytes_eqb name [x73; x6b; x69; x70] then true                         (* skip *)
  else if bytes_eqb name [x77; x61; x69; x74] then true                         (* wait *)
  else if bytes_eqb name [x6b; x69; x6c; x6c] then true                         (* kill *)
  else if bytes_eqb name [x73; x74; x64; x6f; x75; x74] then true               (* stdout *)
  else if bytes_eqb name [x73; x74; x64; x65; x72; x72] then true               (* stderr *)
  else if bytes_eqb name [x73; x74; x64; x69; x6e] then                         (* stdin *)
    match args with [f] => is_std f | _ => true end
  else if bytes_eqb name [x65; x78; x65; x63] then exec_tree_free args          (* exec *)
  else false.

Definition tree_free (c : cmd_ref) (args : list bytes) : bool :=
  match c with
  | CBuiltin name => tree_free_builtin name args
  | CMain name => exec_tree_free (name :: args)
  | CCustom _ => true
  end.

Definition cmp_name : bytes := [x63; x6d; x70].

(* the line is `cmp stdout|stderr G` for the archive entry [entry] *)
Definition golden_cmp (st : state) (c : cmd_ref) (neg : bool) (args : list bytes) (entry : bytes) : Prop :=
  c = CBuiltin cmp_name /\ neg = false /\
  exists src g, args = [src; g] /\ is_std src = true
                /\ clean (mkabs st g) = mkabs st g   (* addressed by a clean path: every relative name is *)
                /\ assoc_get (s_files st) (mkabs st g) = Some entry.

(* what a line of the class may be, in the state in which run 1 executes it; [seen] are
   the entries compared so far; the result is the list of entries compared afterwards *)
Inductive line_class (cfg : config) (st : state) (line : bytes) (seen : list bytes) : list bytes -> Prop :=
| LC_blank : tokenise (s_env st) line = Some [] -> line_class cfg st line seen seen
| LC_guard words : tokenise (s_env st) line = Some words -> guards_block cfg st words ->
    line_class cfg st line seen seen
| LC_free neg c args : reaches cfg st line neg c args -> tree_free c args = true ->
    line_class cfg st line seen seen
| LC_cmp neg c args entry : reaches cfg st line neg c args -> golden_cmp st c neg args entry ->
    ~ In entry seen -> line_class cfg st line seen (entry :: seen).

(* every line that run 1 executes is of the class *)
Fixpoint safe_run (cfg : config) (ls : list bytes) (n : nat) (st : state) (seen : list bytes) : Prop :=
  match ls with
  | [] => True
  | l :: rest =>
      if is_comment l then safe_run cfg rest (S n) st seen
      else
        exists seen', line_class cfg (at_line (S n) false st) l seen seen' /\
          match run_line cfg (at_line (S n) false st) l with
          | Done st' => if s_stopped st' then True else safe_run cfg rest (S n) st' seen'
          | _ => True
          end
  end.

(* the two runs start from states that differ only in the file tree (and the second has
   no recorded update), the current directory exists in both, and every archive entry is
   readable in both: in the second tree it holds the content that run 1 finally records
   for it, or what it held before when run 1 records nothing *)
Definition golden_tables (st1 : state) (t2 : tree) (Ufinal : list (bytes * bytes)) : Prop :=
  forall p e, assoc_get (s_files st1) p = Some e ->
    exists g1, read_file (s_fs st1) p = Some g1
      /\ read_file t2 p = Some (match assoc_get Ufinal e with Some c => c | None => g1 end).

(* ---- the link between the two set-ups as an executable check.  [rerun_link_ok] unpacks the
   original and the rewritten file and tests what the lockstep theorem assumes about the two
   start states: same entry names and script text, second set-up succeeds, trees of the same
   shape, and every archive entry readable in both trees with the recorded content (or the
   old one) in the second.  The runner evaluates it on every generated case. *)
Definition node_eqb (a b : node) : bool :=
  match a, b with
  | NFile d m, NFile d' m' => bytes_eqb d d' && N.eqb m m'
  | NDir m, NDir m' => N.eqb m m'
  | NLink t, NLink t' => bytes_eqb t t'
  | _, _ => false
  end.
Fixpoint tree_eqb (a b : tree) : bool :=
  match a, b with
  | [], [] => true
  | (p, n) :: a', (q, m) :: b' => path_eqb p q && node_eqb n m && tree_eqb a' b'
  | _, _ => false
  end.
Definition nshape (n : node) : node := match n with NFile _ m => NFile [] m | x => x end.
Definition tshape (t : tree) : tree := map (fun e => (fst e, nshape (snd e))) t.
Definition shape_ok (t1 t2 : tree) : bool := tree_eqb (tshape t1) (tshape t2).

Fixpoint names_eqb (a b : list bytes) : bool :=
  match a, b with
  | [], [] => true
  | x :: a', y :: b' => bytes_eqb x y && names_eqb a' b'
  | _, _ => false
  end.

Definition tables_ok (st1 : state) (t2 : tree) (U : list (bytes * bytes)) : bool :=
  forallb (fun pe =>
             match read_file (s_fs st1) (fst pe), read_file t2 (fst pe) with
             | Some g1, Some g2 =>
                 bytes_eqb g2 (match assoc_get U (snd pe) with Some c => c | None => g1 end)
             | _, _ => false
             end) (s_files st1).

Definition rerun_link_ok (cfg : config) (work : bytes) (env : list (bytes * bytes)) (file file' : bytes)
           (U : list (bytes * bytes)) : bool :=
  let a := parse file in
  let a' := parse file' in
  match setup cfg work env a, setup (cfg_update cfg false) work env a' with
  | (st1, true), (st2, true) =>
      names_eqb (map fst (files a)) (map fst (files a'))
      && bytes_eqb (comment a') (comment a)
      && shape_ok (s_fs st2) (s_fs st1)
      && tables_ok st1 (s_fs st2) U
  | _, _ => false
  end.

(* ---- the class as an executable check (sound for [safe_run], see TsRerunFacts.v) *)
Inductive guards_verdict := GBlock | GPass (cw : list bytes) | GBad.

Fixpoint guards_dec (cfg : config) (st : state) (words : list bytes) : guards_verdict :=
  match words with
  | [] => GBad
  | w :: rest =>
      match guard_of w with
      | None => GPass words
      | Some (want, c) =>
          match rest with
          | [] => GBad
          | _ =>
              match cond_eval cfg st c with
              | CondErr => GBad
              | CondVal b => if Bool.eqb b want then guards_dec cfg st rest else GBlock
              end
          end
      end
  end.

Fixpoint mem_b (x : bytes) (l : list bytes) : bool :=
  match l with [] => false | y :: r => bytes_eqb x y || mem_b x r end.

Definition is_cmp_ref (c : cmd_ref) : bool :=
  match c with CBuiltin name => bytes_eqb name cmp_name | _ => false end.

(* Some seen' = the line is of the class *)
Definition line_class_b (cfg : config) (st : state) (line : bytes) (seen : list bytes) : option (list bytes) :=
  match tokenise (s_env st) line with
  | None => None
  | Some [] => Some seen
  | Some words =>
      match guards_dec cfg st words with
      | GBlock => Some seen
      | GBad => None
      | GPass cw =>
          match split_neg cw with
          | None => None
          | Some (neg, name, args) =>
              match lookup_cmd cfg name with
              | None => None
              | Some c =>
                  if tree_free c args then Some seen
                  else if is_cmp_ref c && negb neg then
                    match args with
                    | [src; g] =>
                        if is_std src && bytes_eqb (clean (mkabs st g)) (mkabs st g) then
                          match assoc_get (s_files st) (mkabs st g) with
                          | Some entry => if mem_b entry seen then None else Some (entry :: seen)
                          | None => None
                          end
                        else None
                    | _ => None
                    end
                  else None
              end
          end
      end
  end.

Fixpoint safe_run_b (cfg : config) (ls : list bytes) (n : nat) (st : state) (seen : list bytes) : bool :=
  match ls with
  | [] => true
  | l :: rest =>
      if is_comment l then safe_run_b cfg rest (S n) st seen
      else
        match line_class_b cfg (at_line (S n) false st) l seen with
        | None => false
        | Some seen' =>
            match run_line cfg (at_line (S n) false st) l with
            | Done st' => if s_stopped st' then true else safe_run_b cfg rest (S n) st' seen'
            | _ => true
            end
        end
  end.

(* everything the file-level theorem asks of an update run, as one executable check *)
Definition rerun_covered (cfg : config) (work : bytes) (env : list (bytes * bytes)) (file file' : bytes) : bool :=
  match setup cfg work env (parse file) with
  | (st1, true) =>
      safe_run_b cfg (script_lines (comment (parse file))) 0 st1 []
      && rerun_link_ok cfg work env file file' (s_updates (r_final (run_file cfg work env file)))
  | _ => false
  end.

(* The restricted re-run fix-point of UpdateScripts (C16): vocabulary.  Definitions only.

   The class of scripts: every line that run 1 (UpdateScripts on) executes is blank, has a
   false guard, or reaches
     - a command that neither reads nor writes the file tree ("tree-free"): env, stop, skip,
       wait, kill, stdout, stderr, stdin from stdout/stderr, the custom commands, and exec /
       a registered command running the helper with a subcommand other than write, writeraw;
     - or `cmp stdout|stderr G` (not negated) where G is an archive entry that no earlier
       line compared ("each golden entry is referenced by exactly one cmp"). *)
From Coq Require Import List Bool Arith NArith.
From Coq.Strings Require Import Byte.
From GI Require Import Lib.Bytes Gen.TsRunConsts Txtar.Txtar
  TsRun.TsFs TsRun.TsRegex TsRun.TsState TsRun.TsCmds TsRun.TsRun TsRun.TsSpec TsRun.TsUpdate.
Import ListNotations.

(* the state with another file tree and other recorded updates *)
Definition swapfu (st : state) (t : tree) (u : list (bytes * bytes)) : state :=
  set_updates (set_fs st t) u.

Definition omap (f : state -> state) (o : outcome) : outcome :=
  match o with Done s => Done (f s) | Failed s => Failed (f s) | SkipNow s => SkipNow (f s) end.

Definition cfg_update (cfg : config) (u : bool) : config :=
  {| c_continue := c_continue cfg; c_explicit_exec := c_explicit_exec cfg; c_unique := c_unique cfg;
     c_update := u; c_host_conds := c_host_conds cfg; c_custom_cond := c_custom_cond cfg;
     c_cmds := c_cmds cfg; c_main_cmds := c_main_cmds cfg; c_helper := c_helper cfg;
     c_helper_dir := c_helper_dir cfg; c_watch := c_watch cfg |}.

Definition is_std (f : bytes) : bool :=
  bytes_eqb f [x73; x74; x64; x6f; x75; x74] || bytes_eqb f [x73; x74; x64; x65; x72; x72]
  || bytes_eqb f [x74; x74; x79; x6f; x75; x74].

(* exec program sub ...: the helper's subcommand is not one that writes a file *)
Definition exec_tree_free (args : list bytes) : bool :=
  match args with
  | _ :: sub :: _ => negb (helper_writes [sub])
  | _ => true
  end.

Definition tree_free_builtin (name : bytes) (args : list bytes) : bool :=
  if bytes_eqb name [x65; x6e; x76] then true                                  (* env *)
  else if bytes_eqb name [x73; x74; x6f; x70] then true                         (* stop *)
  else if bytes_eqb name [x73; x6b; x69; x70] then true                         (* skip *)
  else if bytes_eqb name [x77; x61; x69; x74] then true                         (* wait *)
  else if bytes_eqb name [x6b; x69; x6c; x6c] then true                         (* kill *)
  else if bytes_eqb name [x73; x74; x64; x6f; x75; x74] then true               (* stdout *)
  else if bytes_eqb name [x73; x74; x64; x65; x72; x72] then true               (* stderr *)
  else if bytes_eqb name [x73; x74; x64; x69; x6e] then                         (* stdin *)
    match args with [f] => is_std f | _ => true end
  else if bytes_eqb name [x65; x78; x65; x63] then exec_tree_free args          (* exec *)
  else false.

Definition tree_free (c : cmd_ref) (args : list bytes) : bool :=
  match c with
  | CBuiltin name => tree_free_builtin name args
  | CMain name => exec_tree_free (name :: args)
  | CCustom _ => true
  end.

Definition cmp_name : bytes := [x63; x6d; x70].

(* the line is `cmp stdout|stderr G` for the archive entry [entry] *)
Definition golden_cmp (st : state) (c : cmd_ref) (neg : bool) (args : list bytes) (entry : bytes) : Prop :=
  c = CBuiltin cmp_name /\ neg = false /\
  exists src g, args = [src; g] /\ is_std src = true
                /\ assoc_get (s_files st) (mkabs st g) = Some entry.

(* what a line of the class may be, in the state in which run 1 executes it; [seen] are
   the entries compared so far; the result is the list of entries compared afterwards *)
Inductive line_class (cfg : config) (st : state) (line : bytes) (seen : list bytes) : list bytes -> Prop :=
| LC_blank : tokenise (s_env st) line = Some [] -> line_class cfg st line seen seen
| LC_guard words : tokenise (s_env st) line = Some words -> guards_block cfg st words ->
    line_class cfg st line seen seen
| LC_free neg c args : reaches cfg st line neg c args -> tree_free c args = true ->
    line_class cfg st line seen seen
| LC_cmp neg c args entry : reaches cfg st line neg c args -> golden_cmp st c neg args entry ->
    ~ In entry seen -> line_class cfg st line seen (entry :: seen).

(* every line that run 1 executes is of the class *)
Fixpoint safe_run (cfg : config) (ls : list bytes) (n : nat) (st : state) (seen : list bytes) : Prop :=
  match ls with
  | [] => True
  | l :: rest =>
      if is_comment l then safe_run cfg rest (S n) st seen
      else
        exists seen', line_class cfg (at_line (S n) false st) l seen seen' /\
          match run_line cfg (at_line (S n) false st) l with
          | Done st' => if s_stopped st' then True else safe_run cfg rest (S n) st' seen'
          | _ => True
          end
  end.

(* the two runs start from states that differ only in the file tree (and the second has
   no recorded update), the current directory exists in both, and every archive entry is
   readable in both: in the second tree it holds the content that run 1 finally records
   for it, or what it held before when run 1 records nothing *)
Definition golden_tables (st1 : state) (t2 : tree) (Ufinal : list (bytes * bytes)) : Prop :=
  forall p e, assoc_get (s_files st1) p = Some e ->
    exists g1, read_file (s_fs st1) p = Some g1
      /\ read_file t2 p = Some (match assoc_get Ufinal e with Some c => c | None => g1 end).

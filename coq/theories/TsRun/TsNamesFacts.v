(* Archive entry names (C01 setup, C16 scriptFiles): setup() expands every name with the initial
   variables, refuses a name that leaves the work directory, unpacks the file at the expanded
   location and registers it there under the name AS WRITTEN in the archive; no script line ever
   changes that table; update mode records under registered names only, so the only entries it
   ever rewrites are entries of the archive, addressed by location and written back under their
   original names.  Proofs; the definitions are in TsRun.v (unpack, beneath, setup). *)
From Coq Require Import List Bool Arith NArith Lia.
From Coq.Strings Require Import Byte.
From GI Require Import Lib.Bytes Lib.BytesFacts Gen.TsRunConsts Txtar.Txtar Txtar.TxtarFacts
  TsRun.TsFs TsRun.TsRegex TsRun.TsState TsRun.TsCmds TsRun.TsRun TsRun.TsSpec TsRun.TsRunFacts
  TsRun.TsUpdate TsRun.TsUpdateFacts TsRun.TsRerun TsRun.TsRerunFacts.
Import ListNotations.

(* ---- unpack leaves the environment and the current directory alone *)
Lemma unpack_env_cd u work : forall fs st,
  s_env (fst (unpack u work fs st)) = s_env st /\ s_cd (fst (unpack u work fs st)) = s_cd st.
Proof.
  induction fs as [|[n d] r IH]; intros st; cbn [unpack]; [split; reflexivity|].
  destruct (negb (beneath work _)); [split; reflexivity|].
  destruct (mkdir_all _ _ _) as [t1 [|]]; [|split; reflexivity].
  destruct (if u then _ else _) as [t2|]; [|split; reflexivity].
  destruct (IH (set_fs (set_files st (assoc_set (s_files st) (clean (mkabs st (expand (s_env st) n))) n)) t2)) as [H1 H2].
  rewrite H1, H2. split; reflexivity.
Qed.

Lemma unpack_app u work : forall pre rest st,
  unpack u work (pre ++ rest) st
  = (let '(st', ok) := unpack u work pre st in if ok then unpack u work rest st' else (st', false)).
Proof.
  induction pre as [|[n d] r IH]; intros rest st; cbn [app unpack].
  - destruct (unpack u work rest st). reflexivity.
  - destruct (negb (beneath work _)); [reflexivity|].
    destruct (mkdir_all _ _ _) as [t1 [|]]; [|reflexivity].
    destruct (if u then _ else _) as [t2|]; [|reflexivity].
    apply IH.
Qed.

(* ---- where an entry goes: its name expanded with the initial variables, made absolute below
   the work directory *)
Definition location (work : bytes) (env : list (bytes * bytes)) (name : bytes) : bytes :=
  let x := expand env name in if is_abs x then x else join2 work x.

Lemma mkabs_location st name : mkabs st (expand (s_env st) name) = location (s_cd st) (s_env st) name.
Proof. reflexivity. Qed.

(* an entry whose location is outside the work directory: setup fails at that entry (FAIL file:0
   whatever ContinueOnError says); the state is the one the entries in front of it left, so neither
   this entry nor any behind it is written or registered *)
Theorem escaping_name_fails_setup cfg work env a pre name data post t st :
  files a = pre ++ (name, data) :: post ->
  mkdir_all [] (work ++ [x2f; x2e; x74; x6d; x70]) 511 = (t, true) ->
  unpack (c_unique cfg) work pre (empty_state env work t) = (st, true) ->
  beneath work (location work env name) = false ->
  setup cfg work env a = (st, false)
  /\ r_verdict (run_archive cfg work env a) = Fail 0
  /\ r_fail_lines (run_archive cfg work env a) = [0].
Proof.
  intros Hf Hm Hp Hb.
  assert (setup cfg work env a = (st, false)) as Hs.
  { unfold setup. rewrite Hm, Hf, unpack_app, Hp.
    apply escaping_name_stops_unpack.
    destruct (unpack_env_cd (c_unique cfg) work pre (empty_state env work t)) as [He Hc].
    rewrite Hp in He, Hc. cbn [fst] in He, Hc. rewrite mkabs_location, He, Hc. exact Hb. }
  split; [exact Hs|]. apply (setup_failure_is_fail_0 _ _ _ _ _ Hs).
Qed.

(* ---- scriptFiles after setup: every key is the location of its entry, cleaned (filepath.Clean),
   that location is inside the work directory, and every value is the name of an entry exactly as
   the archive spells it *)
Definition files_ok (work : bytes) (env : list (bytes * bytes)) (names : list bytes) (F : list (bytes * bytes)) : Prop :=
  forall p e, assoc_get F p = Some e ->
    In e names /\ p = clean (location work env e) /\ beneath work (location work env e) = true.

Lemma unpack_files_ok u work names : forall fs st,
  s_cd st = work -> incl (map fst fs) names ->
  files_ok work (s_env st) names (s_files st) ->
  files_ok work (s_env st) names (s_files (fst (unpack u work fs st))).
Proof.
  induction fs as [|[n d] r IH]; intros st Hcd Hin Hok; cbn [unpack]; [exact Hok|].
  destruct (beneath work (mkabs st (expand (s_env st) n))) eqn:Hb; cbn [negb]; [|exact Hok].
  set (p := mkabs st (expand (s_env st) n)) in *.
  assert (files_ok work (s_env st) names (assoc_set (s_files st) (clean p) n)) as Hok'.
  { intros q e Hq. destruct (bytes_eqb q (clean p)) eqn:E.
    - apply bytes_eqb_eq in E. subst q. rewrite assoc_get_set in Hq. inversion Hq; subst e.
      split; [apply Hin; left; reflexivity|].
      unfold p in Hb |- *. rewrite mkabs_location, Hcd in Hb |- *. split; [reflexivity|exact Hb].
    - rewrite (assoc_get_set_other _ _ _ _ E) in Hq. exact (Hok q e Hq). }
  destruct (mkdir_all _ _ _) as [t1 [|]]; [|exact Hok'].
  destruct (if u then _ else _) as [t2|]; [|exact Hok'].
  apply (IH (set_fs (set_files st (assoc_set (s_files st) (clean p) n)) t2)).
  - exact Hcd.
  - intros x Hx. apply Hin. right. exact Hx.
  - exact Hok'.
Qed.

Theorem setup_files_ok cfg work env a :
  files_ok work env (map fst (files a)) (s_files (fst (setup cfg work env a))).
Proof.
  unfold setup. destruct (mkdir_all [] _ 511) as [t [|]].
  - apply (unpack_files_ok (c_unique cfg) work (map fst (files a)) (files a) (empty_state env work t)).
    + reflexivity.
    + apply incl_refl.
    + intros p e H. discriminate H.
  - intros p e H. discriminate H.
Qed.

(* ---- no script line changes the table ... *)
Lemma fil_end_bg st : s_files (end_bg st) = s_files st.
Proof. unfold end_bg. exact (fil_wait_all false (interrupt_all st)). Qed.

Theorem fil_run_lines cfg : forall ls n f st, s_files (snd (fst (run_lines cfg ls n f st))) = s_files st.
Proof.
  induction ls as [|l ls IH]; intros n f st; cbn [run_lines].
  - cbn [fst snd]. rewrite fil_end_bg. reflexivity.
  - destruct (is_comment l); [apply IH|].
    pose proof (fil_run_line cfg (at_line (S n) f st) l) as Hl. unfold Fl in Hl.
    change (s_files (at_line (S n) f st)) with (s_files st) in Hl.
    destruct (run_line cfg (at_line (S n) f st) l) as [s|s|s]; cbn [outcome_state] in Hl.
    + destruct (s_stopped s); cbn [fst snd]; [rewrite fil_end_bg|rewrite IH]; exact Hl.
    + destruct (c_continue cfg); [|exact Hl].
      destruct (s_stopped s); cbn [fst snd]; [rewrite fil_end_bg; exact Hl|].
      specialize (IH (S n) true s). destruct (run_lines cfg ls (S n) true s) as [[k s'] fl]. cbn [fst snd] in *.
      rewrite IH. exact Hl.
    + exact Hl.
Qed.

(* ... in particular not mv, cp, rm or symlink: a file moved away from the location of an entry
   does not take the registration with it, and a file moved or linked there does not lose it *)
Theorem fil_tree_commands args st :
  s_files (outcome_state (cmd_mv args st)) = s_files st
  /\ s_files (outcome_state (cmd_cp args st)) = s_files st
  /\ s_files (outcome_state (cmd_rm args st)) = s_files st
  /\ s_files (outcome_state (cmd_symlink args st)) = s_files st.
Proof.
  split; [apply fil_mv|]. split; [apply fil_cp|]. split; [|apply fil_symlink].
  unfold cmd_rm. destruct args; [reflexivity|apply fil_rm_loop].
Qed.

(* ---- ... and update mode records under registered names only *)
Definition upd_sound (F U : list (bytes * bytes)) : Prop :=
  forall e c, assoc_get U e = Some c -> exists p, assoc_get F p = Some e.

Lemma snd_cmp upd envs neg args st :
  upd_sound (s_files st) (s_updates st) -> upd_sound (s_files st) (U (cmd_cmp upd envs neg args st)).
Proof.
  intros H. unfold U, cmd_cmp.
  destruct args as [|n1 [|n2 [|x r]]]; try exact H.
  destruct (bytes_eqb n1 n2); [exact H|].
  destruct (ts_read st n1) as [t1|]; [|exact H].
  destruct (read_file _ _) as [data|]; [|exact H].
  destruct neg; [destruct (bytes_eqb _ _); exact H|].
  destruct (bytes_eqb _ _); [exact H|].
  destruct (upd && negb envs); [|exact H].
  destruct (assoc_get (s_files st) (clean (mkabs st n2))) as [entry|] eqn:E; [|exact H].
  cbn [outcome_state s_updates set_updates].
  intros e c Hq. destruct (bytes_eqb e entry) eqn:Ee.
  - apply bytes_eqb_eq in Ee. subst e. exists (clean (mkabs st n2)). exact E.
  - rewrite (assoc_get_set_other _ _ _ _ Ee) in Hq. exact (H e c Hq).
Qed.

Lemma snd_builtin cfg name neg args st :
  upd_sound (s_files st) (s_updates st) -> upd_sound (s_files st) (U (builtin_sem cfg name neg args st)).
Proof.
  intros H. unfold builtin_sem.
  destruct (neg && _); [exact H|].
  repeat (match goal with |- context [if bytes_eqb name ?l then _ else _] => destruct (bytes_eqb name l) end;
          [first [apply snd_cmp; exact H
                 |(first [rewrite upd_cd|rewrite upd_chmod|rewrite upd_cp|rewrite upd_env|rewrite upd_exec
                         |rewrite upd_exists|rewrite upd_match|rewrite upd_kill|rewrite upd_mv|rewrite upd_skip|rewrite upd_stdin
                         |rewrite upd_stop|rewrite upd_symlink|rewrite upd_unquote_loop|rewrite upd_wait]; exact H)
                 |(unfold cmd_mkdir; destruct args; [exact H|rewrite upd_mkdir_loop; exact H])
                 |(unfold cmd_rm; destruct args; [exact H|rewrite upd_rm_loop; exact H])
                 |(unfold cmd_unix2dos; destruct args; [exact H|rewrite upd_unix2dos_loop; exact H])]|]).
  exact H.
Qed.

Lemma snd_cmd_sem cfg c neg args st :
  upd_sound (s_files st) (s_updates st) -> upd_sound (s_files st) (U (cmd_sem cfg c neg args st)).
Proof.
  intros H. destruct c as [name|name|k]; cbn [cmd_sem].
  - apply snd_builtin. exact H.
  - destruct (c_explicit_exec cfg); [exact H|rewrite upd_exec; exact H].
  - rewrite upd_custom. exact H.
Qed.

Lemma snd_run_guards cfg st words :
  upd_sound (s_files st) (s_updates st) -> upd_sound (s_files st) (U (run_guards cfg st words)).
Proof.
  intros H. induction words as [|w rest IH]; cbn [run_guards]; [exact H|].
  destruct (guard_of w) as [[want c]|].
  - destruct rest as [|r0 rest']; [exact H|].
    destruct (cond_eval cfg st c) as [b|]; [|exact H].
    destruct (Bool.eqb b want); [exact IH|exact H].
  - unfold run_neg, run_cmd.
    destruct (bytes_eqb w bang).
    + destruct rest as [|n a]; [exact H|]. destruct (lookup_cmd cfg n); [apply snd_cmd_sem; exact H|exact H].
    + destruct (lookup_cmd cfg w); [apply snd_cmd_sem; exact H|exact H].
Qed.

Lemma snd_run_line cfg st line :
  upd_sound (s_files st) (s_updates st) -> upd_sound (s_files st) (U (run_line cfg st line)).
Proof.
  intros H. unfold run_line. destruct (tokenise _ _) as [[|w ws]|]; try exact H.
  apply snd_run_guards. exact H.
Qed.

Lemma snd_run_lines cfg : forall ls n f st,
  upd_sound (s_files st) (s_updates st) ->
  upd_sound (s_files st) (s_updates (snd (fst (run_lines cfg ls n f st)))).
Proof.
  induction ls as [|l ls IH]; intros n f st H; cbn [run_lines].
  - cbn [fst snd]. rewrite upd_end_bg. exact H.
  - destruct (is_comment l); [apply IH; exact H|].
    pose proof (snd_run_line cfg (at_line (S n) f st) l H) as Hl. unfold U in Hl.
    pose proof (fil_run_line cfg (at_line (S n) f st) l) as Hf. unfold Fl in Hf.
    change (s_files (at_line (S n) f st)) with (s_files st) in Hl, Hf.
    destruct (run_line cfg (at_line (S n) f st) l) as [s|s|s]; cbn [outcome_state] in Hl, Hf.
    + destruct (s_stopped s); cbn [fst snd]; [rewrite upd_end_bg; exact Hl|].
      rewrite <- Hf. apply IH. rewrite Hf. exact Hl.
    + destruct (c_continue cfg); [|exact Hl].
      destruct (s_stopped s); cbn [fst snd]; [rewrite upd_end_bg; exact Hl|].
      specialize (IH (S n) true s). destruct (run_lines cfg ls (S n) true s) as [[k s'] fl]. cbn [fst snd] in *.
      rewrite <- Hf. apply IH. rewrite Hf. exact Hl.
    + exact Hl.
Qed.

(* THE ENTRIES AN UPDATE RUN MAY REWRITE: whatever the script does (mv, cp, rm, symlink, cd ...),
   every name under which an update is recorded is the name of an entry exactly as the archive
   spells it ("$WORK/golden/out.txt", "./x", "a//b" stay what they are), and it was recorded by
   a cmp against the expanded location of such an entry *)
Theorem only_entries_updated cfg work env a e c :
  assoc_get (s_updates (r_final (run_archive cfg work env a))) e = Some c ->
  In e (map fst (files a))
  /\ exists p, assoc_get (s_files (fst (setup cfg work env a))) p = Some e
               /\ p = clean (location work env e) /\ beneath work (location work env e) = true.
Proof.
  unfold run_archive. intros H.
  pose proof (setup_files_ok cfg work env a) as Hok.
  assert (s_updates (fst (setup cfg work env a)) = []) as Hu0.
  { unfold setup. destruct (mkdir_all _ _ _) as [t [|]]; [|reflexivity]. rewrite upd_unpack. reflexivity. }
  destruct (setup cfg work env a) as [st [|]]; cbn [fst] in *.
  - unfold run_script in H.
    pose proof (snd_run_lines cfg (script_lines (comment a)) 0 false st) as Hs.
    destruct (run_lines cfg (script_lines (comment a)) 0 false st) as [[k s] fl]. cbn [fst snd r_final] in *.
    destruct (Hs (fun e c Hq => ltac:(rewrite Hu0 in Hq; discriminate Hq)) e c H) as [p Hp].
    destruct (Hok p e Hp) as (Hin & Hloc & Hb). split; [exact Hin|]. exists p. auto.
  - cbn [r_final s_updates set_failed] in H. rewrite Hu0 in H. discriminate H.
Qed.

(* the written file: same entry names in the same order, byte for byte (update_names), and an entry
   keeps its data unless its own name is a key of the recorded updates (update_frame) -- restated
   for a whole run *)
Theorem run_rewrites_named_entries_only cfg work env file d :
  f_change (run_file_full cfg work env file) = Rewritten d ->
  exists a', apply_updates (parse file) (s_updates (r_final (run_file cfg work env file))) = Some a'
    /\ d = format a'
    /\ map fst (files a') = map fst (files (parse file))
    /\ comment a' = comment (parse file).
Proof.
  unfold run_file_full, change_of, run_file. cbn [f_change].
  destruct (s_updates (r_final (run_archive cfg work env (parse file)))) as [|u us] eqn:EU; [discriminate|].
  destruct (apply_updates (parse file) (u :: us)) as [a'|] eqn:EA; [|discriminate].
  intros H. inversion H. exists a'. split; [reflexivity|]. split; [reflexivity|].
  split; [exact (update_names _ _ _ EA)|].
  unfold apply_updates in EA. destruct (update_files _ _); [|discriminate]. inversion EA. reflexivity.
Qed.

(* ---- non-vacuity: the script of testscript/doc.go, whose golden entry is named $WORK/golden/out.txt *)
Module NamesExamples.
Import String.
Local Open Scope string_scope.
Local Open Scope list_scope.
Import TsRunFacts.Examples.

Definition cfgu : config :=
  {| c_continue := false; c_explicit_exec := false; c_unique := false; c_update := true;
     c_host_conds := []; c_goos := b "linux"; c_goarch := b "amd64"; c_go_minor := 23; c_custom_cond := None; c_cmds := []; c_main_cmds := [b "tshelper"];
     c_helper := b "tshelper"; c_helper_dir := b "/h"; c_watch := []; c_deadline := false; c_cancelled := false |}.
Definition env1 : list (bytes * bytes) := [(b "WORK", b "/w"); (b "PATH", b "/h"); (b "exe", b ""); (b "/", b "/")].

Definition f_doc := script ["exec tshelper echo new"; "cmp stdout golden/out.txt";
                            "-- $WORK/golden/out.txt --"; "old";
                            "-- ./sub//keep --"; "kept"].
Definition r_doc := run_file_full cfgu (b "/w") env1 f_doc.

(* the entry is unpacked at /w/golden/out.txt and registered there under "$WORK/golden/out.txt";
   the mismatching cmp addresses it by location, the run passes, and the file is rewritten with the
   new content under the names "$WORK/golden/out.txt" and "./sub//keep" exactly as they were *)
Example ex_doc_update :
  r_verdict (f_run r_doc) = Pass
  /\ assoc_get (s_files (r_final (f_run r_doc))) (b "/w/golden/out.txt") = Some (b "$WORK/golden/out.txt")
  /\ s_updates (r_final (f_run r_doc)) = [(b "$WORK/golden/out.txt", b ("new" ++ nl))]
  /\ f_change r_doc = Rewritten (script ["exec tshelper echo new"; "cmp stdout golden/out.txt";
                                         "-- $WORK/golden/out.txt --"; "new";
                                         "-- ./sub//keep --"; "kept"]).
Proof. vm_compute. repeat split; reflexivity. Qed.

(* names built from other initial variables: tool$exe.err, golden${/}x *)
Example ex_var_names :
  let r := run_file_full cfgu (b "/w") env1
             (script ["exists tool.err golden/x"; "-- tool$exe.err --"; "e"; "-- golden${/}x --"; "x"]) in
  r_verdict (f_run r) = Pass
  /\ assoc_get (s_files (r_final (f_run r))) (b "/w/golden/x") = Some (b "golden${/}x").
Proof. vm_compute. split; reflexivity. Qed.

(* names that leave the work directory: setup fails, FAIL file:0, nothing of the entry is written *)
Example ex_escaping :
  r_verdict (run_file cfgu (b "/w") env1 (script ["exists ok"; "-- ok --"; "1"; "-- ../x --"; "2"; "-- later --"; "3"])) = Fail 0
  /\ r_verdict (run_file cfgu (b "/w") env1 (script ["exists ok"; "-- /abs/x --"; "2"])) = Fail 0
  /\ r_verdict (run_file cfgu (b "/w") env1 (script ["exists ok"; "-- $HOME/x --"; "2"])) = Fail 0
  /\ r_verdict (run_file cfgu (b "/w") env1 (script ["exists ok"; "-- a/../../w2/x --"; "2"])) = Fail 0
  /\ r_verdict (run_file cfgu (b "/w") env1 (script ["exists a/x"; "-- a/../a/x --"; "2"])) = Pass
  /\ stat (s_fs (r_final (run_file cfgu (b "/w") env1 (script ["exists ok"; "-- ok --"; "1"; "-- ../x --"; "2"; "-- later --"; "3"])))) (b "/w/later") = None
  /\ stat (s_fs (r_final (run_file cfgu (b "/w") env1 (script ["exists ok"; "-- ok --"; "1"; "-- ../x --"; "2"; "-- later --"; "3"])))) (b "/x") = None.
Proof. vm_compute. repeat split; reflexivity. Qed.

(* the hypotheses of escaping_name_fails_setup and of work_named_entry are satisfiable *)
Example ex_escaping_hyps :
  beneath (b "/w") (location (b "/w") env1 (b "../x")) = false
  /\ beneath (b "/w") (location (b "/w") env1 (b "$WORK/golden/out.txt")) = true
  /\ beneath (b "/w") (location (b "/w") env1 (b "$WORK")) = true
  /\ beneath (b "/w") (location (b "/w") env1 (b "$WORK/../w2")) = false
  /\ beneath (b "/w") (b "/w2/x") = false.
Proof. vm_compute. repeat split; reflexivity. Qed.

(* mv does not carry the registration along: after `mv g.txt e.txt` a mismatching cmp against
   e.txt fails (e.txt is not an archive entry) and nothing is recorded *)
Example ex_mv_keeps_table :
  let r := run_file_full cfgu (b "/w") env1
             (script ["mv g.txt e.txt"; "exec tshelper echo new"; "cmp stdout e.txt"; "-- g.txt --"; "old"]) in
  r_verdict (f_run r) = Fail 3 /\ f_change r = Untouched.
Proof. vm_compute. split; reflexivity. Qed.

(* the table is keyed by the CLEANED path (a repaired defect: it used to be keyed by the path as
   written): an entry addressed as $WORK/./g.txt or $WORK/sub/../g.txt is the entry, and so is an
   entry NAMED $WORK/./g.txt when it is addressed as g.txt; it is rewritten under its own name *)
Example ex_cleaned_key :
  let r := run_file_full cfgu (b "/w") env1
             (script ["mkdir sub"; "exec tshelper echo new"; "cmp stdout $WORK/./g.txt"; "cmp stdout $WORK/sub/../g.txt"; "-- g.txt --"; "old"]) in
  let r2 := run_file_full cfgu (b "/w") env1
             (script ["exec tshelper echo new"; "cmp stdout g.txt"; "-- $WORK/./g.txt --"; "old"]) in
  r_verdict (f_run r) = Pass
  /\ f_change r = Rewritten (script ["mkdir sub"; "exec tshelper echo new"; "cmp stdout $WORK/./g.txt"; "cmp stdout $WORK/sub/../g.txt"; "-- g.txt --"; "new"])
  /\ r_verdict (f_run r2) = Pass
  /\ f_change r2 = Rewritten (script ["exec tshelper echo new"; "cmp stdout g.txt"; "-- $WORK/./g.txt --"; "new"]).
Proof. vm_compute. repeat split; reflexivity. Qed.
End NamesExamples.

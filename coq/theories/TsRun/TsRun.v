(* The script interpreter: conditions, run_line, the script loop, setup, the verdict and the
   exit status of cmd/testscript.  Definitions only (testscript.go: run, runLine, condition,
   setup; cmd/testscript/main.go: runT).

   The model describes the CORRECTED behaviour of `skip` under ContinueOnError: once a line
   has failed, `skip` ends the run as failed (see [run_lines], case SkipNow). *)
From Coq Require Import List Bool Arith NArith.
From Coq.Strings Require Import Byte.
From GI Require Import Lib.Bytes Gen.TsRunConsts Txtar.Txtar TsRun.TsFs TsRun.TsState TsRun.TsCmds.
Import ListNotations.

(* ---- conditions *)

Fixpoint assoc_bool (m : list (bytes * bool)) (k : bytes) : option bool :=
  match m with
  | [] => None
  | (k', v) :: r => if bytes_eqb k k' then Some v else assoc_bool r k
  end.
Fixpoint assoc_cond (m : list (bytes * cond_res)) (k : bytes) : option cond_res :=
  match m with
  | [] => None
  | (k', v) :: r => if bytes_eqb k k' then Some v else assoc_cond r k
  end.

Fixpoint strip_any_prefix (ps : list bytes) (c : bytes) : option bytes :=
  match ps with
  | [] => None
  | p :: r => if has_prefix p c then Some (skipn (length p) c) else strip_any_prefix r c
  end.

(* goVersionRegex (Gen.TsRunConsts.go_version_regex): "go", a numeral without leading zero, a dot,
   another such numeral: Some (major, minor) for a name of that form *)
Definition canonical_num (d : bytes) : option N :=
  match d with
  | c :: _ => if N.leb 49 (bN c) && N.leb (bN c) 57 then parse_digits 10 0 d else None
  | [] => None
  end.
Fixpoint split_dot (d : bytes) : option (bytes * bytes) :=
  match d with
  | [] => None
  | c :: r =>
      if beq c x2e then Some ([], r)
      else match split_dot r with Some (x, y) => Some (c :: x, y) | None => None end
  end.
Definition go_version (c : bytes) : option (N * N) :=
  match c with
  | g :: o :: r =>
      if beq g x67 && beq o x6f then
        match split_dot r with
        | Some (x, y) =>
            match canonical_num x, canonical_num y with
            | Some major, Some minor => Some (major, minor)
            | _, _ => None
            end
        | None => None
        end
      else None
  | _ => None
  end.

(* slices.Contains(build.Default.ReleaseTags, cond): the tags are go1.1 .. go1.<minor of the
   toolchain>; numerals without leading zeros are equal as strings exactly when they are equal
   as numbers *)
Definition release_tag_holds (toolchain_minor : N) (v : N * N) : bool :=
  N.eqb (fst v) 1 && N.leb 1 (snd v) && N.leb (snd v) toolchain_minor.

Definition host_flag (cfg : config) (c : bytes) : bool :=
  match assoc_bool (c_host_conds cfg) c with Some b => b | None => false end.

Definition unix_name : bytes := (* "unix" *) [x75; x6e; x69; x78].

(* TestScript.condition, in the order of its switch.  short, net, link, symlink and gc / gccgo
   are facts about the host and the compiler, supplied per run as a table; a GOOS / GOARCH name
   holds when it IS the target; unix when the target is one of the Unix-like systems (the three
   name lists are regenerated from imports/build.go); exec:prog is decided by the program lookup
   of the model; go1.N by the release tags of the toolchain; everything else goes to
   Params.Condition, and without it the condition is unknown, which is a failure of the line. *)
Definition cond_eval (cfg : config) (st : state) (c : bytes) : cond_res :=
  if mem_bytes c known_os_names then CondVal (bytes_eqb c (c_goos cfg))
  else if bytes_eqb c unix_name then CondVal (mem_bytes (c_goos cfg) unix_os_names)
  else if mem_bytes c known_arch_names then CondVal (bytes_eqb c (c_goarch cfg))
  else if mem_bytes c cond_exact_names then CondVal (host_flag cfg c)
  else match strip_any_prefix cond_prefixes c with
       | Some prog => CondVal (prog_found cfg st prog)
       | None =>
           match go_version c with
           | Some v => CondVal (release_tag_holds (c_go_minor cfg) v)
           | None =>
               match c_custom_cond cfg with
               | Some (tbl, dflt) => match assoc_cond tbl c with Some r => r | None => dflt end
               | None => CondErr
               end
           end
       end.

(* a word of the form [cond] or [!cond]: (wanted value, condition name) *)
Definition guard_of (a : bytes) : option (bool * bytes) :=
  if has_prefix [x5b] a && has_suffix [x5d] a then
    let inner := trim_space (firstn (length a - 2) (skipn 1 a)) in
    match inner with
    | b :: r => if beq b x21 then Some (false, trim_space r) else Some (true, inner)
    | [] => Some (true, inner)
    end
  else None.

Definition bang : bytes := [x21].

(* ---- one line *)

Definition run_cmd (cfg : config) (st : state) (neg : bool) (words : list bytes) : outcome :=
  match words with
  | [] => Failed st
  | name :: args =>
      match lookup_cmd cfg name with
      | Some c => cmd_sem cfg c neg args st
      | None => Failed st
      end
  end.

Definition run_neg (cfg : config) (st : state) (words : list bytes) : outcome :=
  match words with
  | [] => Failed st
  | w :: rest => if bytes_eqb w bang then run_cmd cfg st true rest else run_cmd cfg st false words
  end.

Fixpoint run_guards (cfg : config) (st : state) (words : list bytes) : outcome :=
  match words with
  | [] => Failed st      (* missing command after condition *)
  | w :: rest =>
      match guard_of w with
      | Some (want, c) =>
          match rest with
          | [] => Failed st
          | _ =>
              match cond_eval cfg st c with
              | CondErr => Failed st
              | CondVal b => if Bool.eqb b want then run_guards cfg st rest else Done st
              end
          end
      | None => run_neg cfg st words
      end
  end.

Definition run_line (cfg : config) (st : state) (line : bytes) : outcome :=
  match tokenise (s_env st) line with
  | None => Failed st
  | Some [] => Done st
  | Some words => run_guards cfg st words
  end.

(* ---- the script *)

Fixpoint script_lines_aux (cur : bytes) (d : bytes) : list bytes :=
  match d with
  | [] => match cur with [] => [] | _ => [cur] end
  | b :: r => if beq b NL then cur :: script_lines_aux [] r else script_lines_aux (cur ++ [b]) r
  end.
(* for script != "" { line, script = cut at the first newline } *)
Definition script_lines (text : bytes) : list bytes := script_lines_aux [] text.

Definition is_comment (l : bytes) : bool := has_prefix [x23] l.

(* end of the script: interrupt what is still running, collect it, ignore the status *)
Definition end_bg (st : state) : state := outcome_state (wait_all false (interrupt_all st)).

Definition at_line (n : nat) (failed : bool) (st : state) : state := set_failed (set_lineno st n) failed.

Inductive end_kind := EPass | EFail | ESkip.

Definition end_of (failed : bool) : end_kind := if failed then EFail else EPass.

(* [n] = number of lines consumed so far, [failed] = the flag of run(); the result is how
   the run ended, the final state and the numbers of the lines that failed *)
Fixpoint run_lines (cfg : config) (ls : list bytes) (n : nat) (failed : bool) (st : state)
  : end_kind * state * list nat :=
  match ls with
  | [] => (end_of failed, end_bg (set_lineno st n), [])
  | l :: rest =>
      if is_comment l then run_lines cfg rest (S n) failed st
      else
        match run_line cfg (at_line (S n) failed st) l with
        | Done st2 =>
            if s_stopped st2 then (end_of failed, end_bg st2, [])
            else run_lines cfg rest (S n) failed st2
        | Failed st2 =>
            if c_continue cfg then
              let '(k, s, f) :=
                if s_stopped st2 then (EFail, end_bg st2, [])
                else run_lines cfg rest (S n) true st2 in
              (k, s, S n :: f)
            else (EFail, st2, [S n])
        | SkipNow st2 => (if failed then EFail else ESkip, st2, [])
        end
  end.

Inductive verdict := Pass | Fail (line : nat) | Skip.

Definition mk_verdict (k : end_kind) (fails : list nat) : verdict :=
  match k with
  | EPass => Pass
  | ESkip => Skip
  | EFail => Fail (hd 0 fails)
  end.

Record run_result := { r_verdict : verdict; r_final : state; r_fail_lines : list nat }.

Definition run_script (cfg : config) (text : bytes) (st0 : state) : run_result :=
  let '(k, s, f) := run_lines cfg (script_lines text) 0 false st0 in
  {| r_verdict := mk_verdict k f; r_final := s; r_fail_lines := f |}.

(* ---- setup: work directory, environment, archive unpacked *)

Definition empty_state (env : list (bytes * bytes)) (work : bytes) (t : tree) : state :=
  {| s_lineno := 0; s_env := env; s_cd := work; s_out := []; s_err := []; s_in := []; s_bg := [];
     s_stopped := false; s_failed := false; s_fs := t; s_files := []; s_updates := [];
     s_probes := []; s_racy := false; s_unmodelled := false |}.

(* filepath.Rel(ts.workdir, name) succeeds and filepath.IsLocal(rel) holds: lexically (after
   Clean) [p] is the work directory itself or lies below it.  [work] and [p] are absolute. *)
Definition beneath (work p : bytes) : bool :=
  let w := clean work in
  let c := clean p in
  bytes_eqb c w || has_prefix (if bytes_eqb w [SLASH] then w else w ++ [SLASH]) c.

(* setup() has made the initial variables ($WORK, $exe, ${/} ...) the environment of the script
   BEFORE it unpacks the archive: every entry name is expanded with them (ts.expand) and made
   absolute (ts.MkAbs; the current directory is the work directory); a name that leaves the work
   directory is refused (Fatalf: setup fails, nothing is written for this entry or the ones
   behind it).  The file is registered in scriptFiles under the EXPANDED location, cleaned
   (filepath.Clean: the file itself is written through the path as it is), with the name as it
   is written in the archive as the value.  Params.Setup of the harness leaves
   Env.Vars alone, so the model has one environment: the initial one is the one the script
   starts with.  The result is the state reached and whether every entry could be written. *)
Fixpoint unpack (unique : bool) (work : bytes) (fs : list (bytes * bytes)) (st : state) : state * bool :=
  match fs with
  | [] => (st, true)
  | (name, data) :: r =>
      let p := mkabs st (expand (s_env st) name) in
      if negb (beneath work p) then (st, false) else
      let st0 := set_files st (assoc_set (s_files st) (clean p) name) in
      match mkdir_all (s_fs st0) (dir p) 511 with
      | (t1, false) => (set_fs st0 t1, false)
      | (t1, true) =>
          match (if unique then write_file_excl t1 p data 438 else write_file t1 p data 438) with
          | None => (set_fs st0 t1, false)
          | Some t2 => unpack unique work r (set_fs st0 t2)
          end
      end
  end.

Definition setup (cfg : config) (work : bytes) (env : list (bytes * bytes)) (a : archive) : state * bool :=
  match mkdir_all [] (work ++ (* "/.tmp" *) [x2f; x2e; x74; x6d; x70]) 511 with
  | (t, false) => (empty_state env work t, false)
  | (t, true) => unpack (c_unique cfg) work (files a) (empty_state env work t)
  end.

(* a failure of setup is reported as FAIL: file:0 whatever ContinueOnError says *)
Definition run_archive (cfg : config) (work : bytes) (env : list (bytes * bytes)) (a : archive) : run_result :=
  match setup cfg work env a with
  | (st, false) => {| r_verdict := Fail 0; r_final := set_failed st true; r_fail_lines := [0] |}
  | (st0, true) => run_script cfg (comment a) st0
  end.

Definition run_file (cfg : config) (work : bytes) (env : list (bytes * bytes)) (file : bytes) : run_result :=
  run_archive cfg work env (parse file).

(* ---- cmd/testscript: every file is run (runT.Run recovers), the exit status is 1 iff one failed *)

Definition is_fail (v : verdict) : bool := match v with Fail _ => true | _ => false end.

Record job := { j_work : bytes; j_env : list (bytes * bytes); j_file : bytes }.

Definition batch_verdicts (cfg : config) (batch : list job) : list verdict :=
  map (fun j => r_verdict (run_file cfg (j_work j) (j_env j) (j_file j))) batch.

Definition cli_exit (cfg : config) (batch : list job) : N :=
  if existsb is_fail (batch_verdicts cfg batch) then 1%N else 0%N.

(* ---- RunT over several scripts with a T that runs the subtests one after the other.  The
   context is shared: refCount starts at the number of files, every subtest decrements it when
   it ends and the one that brings it to 0 cancels the context (testscript.go RunT).  [refc] is
   the count and [cancelled] the state of the context when the next script starts. *)
Definition cfg_ctx (cfg : config) (cancelled : bool) : config :=
  {| c_continue := c_continue cfg; c_explicit_exec := c_explicit_exec cfg; c_unique := c_unique cfg;
     c_update := c_update cfg; c_host_conds := c_host_conds cfg; c_goos := c_goos cfg; c_goarch := c_goarch cfg;
     c_go_minor := c_go_minor cfg; c_custom_cond := c_custom_cond cfg;
     c_cmds := c_cmds cfg; c_main_cmds := c_main_cmds cfg; c_helper := c_helper cfg;
     c_helper_dir := c_helper_dir cfg; c_watch := c_watch cfg; c_deadline := c_deadline cfg;
     c_cancelled := cancelled |}.

Fixpoint seq_verdicts (cfg : config) (refc : nat) (cancelled : bool) (jobs : list job) : list verdict :=
  match jobs with
  | [] => []
  | j :: r =>
      r_verdict (run_file (cfg_ctx cfg cancelled) (j_work j) (j_env j) (j_file j))
      :: seq_verdicts cfg (pred refc) (cancelled || Nat.eqb (pred refc) 0) r
  end.

Definition runT_seq (cfg : config) (jobs : list job) : list verdict :=
  seq_verdicts cfg (length jobs) false jobs.

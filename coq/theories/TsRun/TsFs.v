(* File-tree model used by the testscript interpreter model (C01/C16).  Definitions only.

   The tree is a flat association list from canonical absolute paths (lists of
   components, no ".", "..", "" and no symbolic link among the parents) to nodes.  The
   root [[]] is an implicit directory.  Path resolution walks the components the way
   the kernel does (".." is resolved physically, symbolic links are followed with the
   Linux budget of 40), so lexically unclean absolute paths such as "$WORK/a/../b"
   mean what they mean to the OS.  Every error of the OS is the single value [None]:
   the script engine only ever tests "err != nil".  Permission bits are stored and
   reported but not enforced (the harness runs as root; when it does not, the
   generator keeps owner rwx on everything). *)
From Coq Require Import List Bool Arith NArith.
From Coq.Strings Require Import Byte.
From GI Require Import Lib.Bytes.
Import ListNotations.

Definition SLASH : byte := x2f.
Definition DOT : byte := x2e.

Definition comp := bytes.
Definition path := list comp.

Inductive node :=
| NFile (data : bytes) (mode : N)
| NDir (mode : N)
| NLink (target : bytes).

Definition tree := list (path * node).

Fixpoint path_eqb (a b : path) : bool :=
  match a, b with
  | [], [] => true
  | x :: a', y :: b' => bytes_eqb x y && path_eqb a' b'
  | _, _ => false
  end.

Fixpoint path_prefix (p q : path) : bool :=
  match p, q with
  | [], _ => true
  | x :: p', y :: q' => bytes_eqb x y && path_prefix p' q'
  | _ :: _, [] => false
  end.

Fixpoint lookup (t : tree) (p : path) : option node :=
  match t with
  | [] => None
  | (q, n) :: r => if path_eqb q p then Some n else lookup r p
  end.

(* the root is a directory that always exists *)
Definition root_mode : N := 493. (* 0o755 *)
Definition node_at (t : tree) (p : path) : option node :=
  match p with
  | [] => Some (NDir root_mode)
  | _ => lookup t p
  end.

Definition is_dir_node (n : option node) : bool :=
  match n with Some (NDir _) => true | _ => false end.

Definition remove_exact (t : tree) (p : path) : tree :=
  filter (fun e => negb (path_eqb (fst e) p)) t.
Definition remove_subtree (t : tree) (p : path) : tree :=
  filter (fun e => negb (path_prefix p (fst e))) t.
Definition set_node (t : tree) (p : path) (n : node) : tree :=
  remove_exact t p ++ [(p, n)].

(* strict descendants of p *)
Definition has_children (t : tree) (p : path) : bool :=
  existsb (fun e => path_prefix p (fst e) && negb (path_eqb p (fst e))) t.

(* split at '/' keeping empty components *)
Fixpoint split_slash (d : bytes) : list comp :=
  match d with
  | [] => [[]]
  | b :: r =>
      if beq b SLASH then [] :: split_slash r
      else match split_slash r with
           | [] => [[b]]
           | c :: cs => (b :: c) :: cs
           end
  end.

Definition is_abs (d : bytes) : bool :=
  match d with b :: _ => beq b SLASH | [] => false end.

Definition parent (p : path) : path := removelast p.

Definition is_dot (c : comp) : bool := bytes_eqb c [DOT].
Definition is_dotdot (c : comp) : bool := bytes_eqb c [DOT; DOT].
Definition is_empty (c : comp) : bool := match c with [] => true | _ => false end.

(* [walk budget t follow_last cur rest]: resolve the components [rest] starting in the
   canonical directory [cur].  [WPath p]: the canonical path of the last component, which
   may or may not exist, every directory on the way exists.  [WNoEnt]: a component in the
   middle is missing (ENOENT).  [WErr]: ENOTDIR / ELOOP. *)
Inductive walk_res := WPath (p : path) | WNoEnt | WErr.

Fixpoint walk (budget : nat) (t : tree) (follow_last : bool) (cur : path) (rest : list comp) {struct budget}
  : walk_res :=
  (fix go (cur : path) (rest : list comp) {struct rest} : walk_res :=
     match rest with
     | [] => WPath cur
     | c :: rest' =>
         if negb (is_dir_node (node_at t cur)) then WErr
         else if is_empty c || is_dot c then go cur rest'
         else if is_dotdot c then go (parent cur) rest'
         else
           let p := cur ++ [c] in
           match lookup t p with
           | Some (NLink target) =>
               let last := match rest' with [] => true | _ => false end in
               if last && negb follow_last then WPath p
               else match budget with
                    | 0 => WErr
                    | S b =>
                        match target with
                        | [] => WNoEnt
                        | _ => walk b t follow_last (if is_abs target then [] else cur)
                                    (split_slash target ++ rest')
                        end
                    end
           | Some _ => go p rest'
           | None => match rest' with [] => WPath p | _ => WNoEnt end
           end
     end) cur rest.

Definition max_links : nat := 40.

(* names the OS refuses as the final component of a create/remove operation *)
Definition ends_in_dots (d : bytes) : bool :=
  match rev (split_slash d) with
  | c :: _ => is_dot c || is_dotdot c
  | [] => false
  end.
Definition ends_in_slash (d : bytes) : bool :=
  match rev d with b :: _ :: _ => beq b SLASH | _ => false end.

(* resolve an absolute path given as bytes *)
Definition resolve3 (t : tree) (follow_last : bool) (d : bytes) : walk_res :=
  if is_abs d then walk max_links t follow_last [] (split_slash d) else WErr.
Definition resolve (t : tree) (follow_last : bool) (d : bytes) : option path :=
  match resolve3 t follow_last d with WPath p => Some p | _ => None end.

(* ---- the system calls used by the script engine *)

(* os.Stat *)
Definition stat (t : tree) (d : bytes) : option node :=
  match resolve t true d with
  | Some p => node_at t p
  | None => None
  end.
(* os.Lstat *)
Definition lstat (t : tree) (d : bytes) : option node :=
  match resolve t false d with
  | Some p =>
      match node_at t p with
      | Some n => if ends_in_slash d && negb (is_dir_node (Some n)) then None else Some n
      | None => None
      end
  | None => None
  end.

Definition node_mode (n : node) : N :=
  match n with NFile _ m => m | NDir m => m | NLink _ => 511%N end.

(* os.ReadFile *)
Definition read_file (t : tree) (d : bytes) : option bytes :=
  match stat t d with
  | Some (NFile data _) => if ends_in_slash d then None else Some data
  | _ => None
  end.

Definition umask : N := 18. (* 0o022 *)
Definition apply_umask (m : N) : N := N.land m (N.lxor 511 umask).

(* open(O_WRONLY|O_CREATE|O_TRUNC, perm) + write: follows a symbolic link in the last
   component, creates the file when its parent exists, keeps the mode of an existing file *)
Definition write_file (t : tree) (d : bytes) (data : bytes) (perm : N) : option tree :=
  if ends_in_slash d || ends_in_dots d then None else
  match resolve t true d with
  | Some p =>
      match p with
      | [] => None
      | _ =>
        match node_at t p with
        | Some (NFile _ m) => Some (set_node t p (NFile data m))
        | Some _ => None
        | None => if is_dir_node (node_at t (parent p))
                  then Some (set_node t p (NFile data (apply_umask perm))) else None
        end
      end
  | None => None
  end.

(* open(O_WRONLY|O_CREATE|O_TRUNC|O_EXCL): fails when anything (even a dangling link) is there *)
Definition write_file_excl (t : tree) (d : bytes) (data : bytes) (perm : N) : option tree :=
  if ends_in_slash d || ends_in_dots d then None else
  match resolve t false d with
  | Some p =>
      match p with
      | [] => None
      | _ =>
        match node_at t p with
        | Some _ => None
        | None => if is_dir_node (node_at t (parent p))
                  then Some (set_node t p (NFile data (apply_umask perm))) else None
        end
      end
  | None => None
  end.

(* mkdir(2) *)
Definition mkdir1 (t : tree) (d : bytes) (perm : N) : option tree :=
  match resolve t false d with
  | Some p =>
      match node_at t p with
      | Some _ => None
      | None => if is_dir_node (node_at t (parent p))
                then Some (set_node t p (NDir (apply_umask perm))) else None
      end
  | None => None
  end.

(* the prefixes "/a", "/a/b", ... of an absolute path given as bytes, shortest first;
   runs of slashes count once, as in os.MkdirAll *)
Fixpoint prefixes_aux (acc : bytes) (cs : list comp) : list bytes :=
  match cs with
  | [] => []
  | c :: r =>
      if is_empty c then prefixes_aux acc r
      else let acc' := acc ++ [SLASH] ++ c in acc' :: prefixes_aux acc' r
  end.
Definition dir_prefixes (d : bytes) : list bytes := prefixes_aux [] (split_slash d).

(* os.MkdirAll: nothing to do when the path is a directory; an existing non-directory
   is an error; otherwise create the missing ancestors from the top.  A component that
   cannot be created but is a directory afterwards is fine. *)
Fixpoint mkdir_chain (t : tree) (ps : list bytes) (perm : N) : tree * bool :=
  match ps with
  | [] => (t, true)
  | p :: r =>
      match stat t p with
      | Some (NDir _) => mkdir_chain t r perm
      | Some _ => (t, false)
      | None =>
          match mkdir1 t p perm with
          | Some t' => mkdir_chain t' r perm
          | None => (t, false)
          end
      end
  end.
(* the tree afterwards (ancestors created before an error stay) and whether it succeeded *)
Definition mkdir_all (t : tree) (d : bytes) (perm : N) : tree * bool :=
  match stat t d with
  | Some (NDir _) => (t, true)
  | Some _ => (t, false)
  | None => if is_abs d then mkdir_chain t (dir_prefixes d) perm else (t, false)
  end.

(* os.Chmod (follows links) *)
Definition chmod (t : tree) (d : bytes) (perm : N) : option tree :=
  match resolve t true d with
  | Some p =>
      match p, node_at t p with
      | [], _ => Some t
      | _, Some (NFile data _) => if ends_in_slash d then None else Some (set_node t p (NFile data perm))
      | _, Some (NDir _) => Some (set_node t p (NDir perm))
      | _, _ => None
      end
  | None => None
  end.

(* os.Symlink target name *)
Definition symlink (t : tree) (target : bytes) (d : bytes) : option tree :=
  if ends_in_slash d then None else
  match target with
  | [] => None
  | _ =>
    match resolve t false d with
    | Some p =>
        match node_at t p with
        | Some _ => None
        | None => if is_dir_node (node_at t (parent p)) then Some (set_node t p (NLink target)) else None
        end
    | None => None
    end
  end.

(* os.RemoveAll: absent is fine; a path ending in "." is refused; links are not followed *)
Definition remove_all (t : tree) (d : bytes) : option tree :=
  if ends_in_dots d then None else
  match resolve3 t false d with
  | WPath [] => None
  | WPath p => if ends_in_slash d && negb (is_dir_node (node_at t p)) && negb (match node_at t p with None => true | _ => false end)
               then None else Some (remove_subtree t p)
  | WNoEnt => Some t
  | WErr => None
  end.

(* os.Rename: Go refuses an existing directory as the new name (EEXIST) before it calls
   rename(2); the last components are not followed *)
Definition move_subtree (t : tree) (p q : path) : tree :=
  map (fun e => if path_prefix p (fst e) then (q ++ skipn (length p) (fst e), snd e) else e) t.

Definition rename (t : tree) (src dst : bytes) : option tree :=
  if ends_in_dots src || ends_in_dots dst then None else
  match resolve t false src, resolve t false dst with
  | Some p, Some q =>
      match p, q, node_at t p with
      | [], _, _ => None
      | _, [], _ => None
      | _, _, None => None
      | _, _, Some n =>
          if is_dir_node (node_at t q) then None
          else if path_eqb p q then Some t
          else if negb (is_dir_node (node_at t (parent q))) then None
          else
            match n with
            | NDir _ =>
                if path_prefix p q then None
                else match node_at t q with
                     | None => Some (move_subtree t p q)
                     | Some _ => None
                     end
            | _ =>
                if ends_in_slash src || ends_in_slash dst then None
                else Some (set_node (remove_exact (remove_exact t q) p) q n)
            end
      end
  | _, _ => None
  end.

(* ---- lexical path functions of path/filepath (Unix) *)

Fixpoint clean_comps (acc : list comp) (abs : bool) (cs : list comp) : list comp :=
  match cs with
  | [] => rev acc
  | c :: r =>
      if is_empty c || is_dot c then clean_comps acc abs r
      else if is_dotdot c then
        match acc with
        | [] => if abs then clean_comps [] abs r else clean_comps [c] abs r
        | a :: acc' => if is_dotdot a then clean_comps (c :: acc) abs r else clean_comps acc' abs r
        end
      else clean_comps (c :: acc) abs r
  end.

Fixpoint join_slash (cs : list comp) : bytes :=
  match cs with
  | [] => []
  | [c] => c
  | c :: r => c ++ [SLASH] ++ join_slash r
  end.

(* filepath.Clean *)
Definition clean (d : bytes) : bytes :=
  match d with
  | [] => [DOT]
  | _ =>
      let abs := is_abs d in
      let cs := clean_comps [] abs (split_slash d) in
      if abs then SLASH :: join_slash cs
      else match cs with [] => [DOT] | _ => join_slash cs end
  end.

(* filepath.Join a b: empty elements are ignored *)
Definition join2 (a b : bytes) : bytes :=
  match a, b with
  | [], [] => []
  | [], _ => clean b
  | _, [] => clean a
  | _, _ => clean (a ++ [SLASH] ++ b)
  end.

(* filepath.Base *)
Fixpoint strip_trailing_slashes_rev (r : bytes) : bytes :=
  match r with
  | b :: r' => if beq b SLASH then strip_trailing_slashes_rev r' else r
  | [] => []
  end.
Fixpoint take_until_slash (r : bytes) : bytes :=
  match r with
  | b :: r' => if beq b SLASH then [] else b :: take_until_slash r'
  | [] => []
  end.
Definition base (d : bytes) : bytes :=
  match d with
  | [] => [DOT]
  | _ =>
      match strip_trailing_slashes_rev (rev d) with
      | [] => [SLASH]
      | r => rev (take_until_slash r)
      end
  end.

(* filepath.Dir *)
Fixpoint drop_until_slash (r : bytes) : bytes :=
  match r with
  | b :: r' => if beq b SLASH then r else drop_until_slash r'
  | [] => []
  end.
Definition dir (d : bytes) : bytes := clean (rev (drop_until_slash (rev d))).

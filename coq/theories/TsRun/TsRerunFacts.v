(* The restricted re-run fix-point of UpdateScripts (C16): proofs.  Vocabulary in TsRerun.v. *)
From Coq Require Import List Bool Arith NArith Lia.
From Coq.Strings Require Import Byte.
From GI Require Import Lib.Bytes Lib.BytesFacts Gen.TsRunConsts Txtar.Txtar Txtar.TxtarFacts
  TsRun.TsFs TsRun.TsRegex TsRun.TsState TsRun.TsCmds TsRun.TsRun TsRun.TsSpec TsRun.TsRunFacts
  TsRun.TsUpdate TsRun.TsUpdateFacts TsRun.TsRerun.
Import ListNotations.

Ltac dmq := match goal with |- context [match ?x with _ => _ end] => destruct x eqn:? end.
Ltac comm := repeat (simpl; try reflexivity; dmq); simpl; try reflexivity.

(* ---- scriptFiles is never changed by a script line *)
Definition Fl (o : outcome) := s_files (outcome_state o).

Ltac dmf := match goal with |- context [match ?x with _ => _ end] => destruct x end.
Ltac crushf := repeat (simpl; try reflexivity; dmf); simpl; try reflexivity.

Lemma mark_racy_files st b : s_files (mark_racy st b) = s_files st.
Proof. destruct b; reflexivity. Qed.

Lemma fil_cd args st : Fl (cmd_cd args st) = s_files st.
Proof. unfold Fl, cmd_cd. crushf. Qed.
Lemma fil_chmod args st : Fl (cmd_chmod args st) = s_files st.
Proof. unfold Fl, cmd_chmod. crushf. Qed.
Lemma fil_cmp upd envs neg args st : Fl (cmd_cmp upd envs neg args st) = s_files st.
Proof. unfold Fl, cmd_cmp. crushf. Qed.
Lemma fil_cp_loop dst dd srcs st : Fl (cp_loop dst dd srcs st) = s_files st.
Proof.
  revert st. induction srcs as [|a r IH]; intros st; simpl; [reflexivity|].
  destruct (cp_source st a) as [[[src data] mode]|]; [|reflexivity].
  destruct (write_file _ _ _ _); [|reflexivity]. rewrite IH. reflexivity.
Qed.
Lemma fil_cp args st : Fl (cmd_cp args st) = s_files st.
Proof.
  unfold cmd_cp. destruct args as [|a [|b r]]; try reflexivity.
  destruct (_ && _); [reflexivity|]. apply fil_cp_loop.
Qed.
Lemma fil_env args st : Fl (cmd_env args st) = s_files st.
Proof. reflexivity. Qed.
Lemma fil_exists neg args st : Fl (cmd_exists neg args st) = s_files st.
Proof. unfold Fl, cmd_exists. crushf. Qed.
Lemma fil_mkdir_loop args st : Fl (mkdir_loop args st) = s_files st.
Proof.
  revert st. induction args as [|a r IH]; intros st; simpl; [reflexivity|].
  destruct (mkdir_all _ _ _) as [t [|]]; [|reflexivity]. rewrite IH. reflexivity.
Qed.
Lemma fil_rm_loop args st : Fl (rm_loop args st) = s_files st.
Proof.
  revert st. induction args as [|a r IH]; intros st; simpl; [reflexivity|].
  destruct (remove_all _ _); [|reflexivity]. rewrite IH. reflexivity.
Qed.
Lemma fil_unquote_loop args st : Fl (unquote_loop args st) = s_files st.
Proof.
  revert st. induction args as [|a r IH]; intros st; simpl; [reflexivity|].
  destruct (read_file _ _); [|reflexivity]. destruct (unquote _); [|reflexivity].
  destruct (write_file _ _ _ _); [|reflexivity]. rewrite IH. reflexivity.
Qed.
Lemma fil_unix2dos_loop args st : Fl (unix2dos_loop args st) = s_files st.
Proof.
  revert st. induction args as [|a r IH]; intros st; simpl; [reflexivity|].
  destruct (read_file _ _); [|reflexivity].
  destruct (write_file _ _ _ _); [|reflexivity]. rewrite IH. reflexivity.
Qed.
Lemma fil_mv args st : Fl (cmd_mv args st) = s_files st.
Proof. unfold Fl, cmd_mv. crushf. Qed.
Lemma fil_stdin args st : Fl (cmd_stdin args st) = s_files st.
Proof. unfold Fl, cmd_stdin. crushf. Qed.
Lemma fil_stop args st : Fl (cmd_stop args st) = s_files st.
Proof. unfold Fl, cmd_stop. crushf. Qed.
Lemma fil_symlink args st : Fl (cmd_symlink args st) = s_files st.
Proof. unfold Fl, cmd_symlink. crushf. Qed.
Lemma fil_match neg args text g st : Fl (script_match neg args text g st) = s_files st.
Proof. unfold Fl, script_match. crushf. Qed.
Lemma fil_wait_all chk st : Fl (wait_all chk st) = s_files st.
Proof.
  unfold Fl, wait_all. destruct (wait_loop chk (s_bg st)) as [[[[bgs o] e] bad] racy].
  destruct bad; simpl; rewrite mark_racy_files; reflexivity.
Qed.
Lemma fil_wait_one n st : Fl (wait_one n st) = s_files st.
Proof.
  unfold Fl, wait_one. destruct (find_bg _ _); [|reflexivity].
  destruct (reap _) as [p racy]. destruct (status_wrong _); simpl; rewrite mark_racy_files; reflexivity.
Qed.
Lemma fil_wait cfg args st : Fl (cmd_wait cfg args st) = s_files st.
Proof.
  unfold cmd_wait, timed_out_state. destruct args as [|a [|b r]]; [| |reflexivity].
  - destruct (wait_times_out _ _); [unfold Fl; simpl; apply mark_racy_files|apply fil_wait_all].
  - destruct (find_bg _ _); [|apply fil_wait_one].
    destruct (wait_times_out _ _); [unfold Fl; simpl; apply mark_racy_files|apply fil_wait_one].
Qed.
Lemma fil_skip args st : Fl (cmd_skip args st) = s_files st.
Proof.
  unfold cmd_skip. destruct args as [|a [|b r]]; try reflexivity;
    (pose proof (fil_wait_all true (interrupt_all st)) as H; unfold Fl in *;
     destruct (wait_all true (interrupt_all st)); simpl in *; exact H).
Qed.
Lemma fil_kill args st : Fl (cmd_kill args st) = s_files st.
Proof.
  unfold Fl, cmd_kill. destruct (kill_args args) as [[|b r]|]; [| |reflexivity].
  - destruct (kill_loop _) as [[bgs err] racy]. destruct err; simpl; rewrite mark_racy_files; reflexivity.
  - destruct (find_bg _ _); [|reflexivity]. destruct (signal _) as [[p err] racy].
    destruct err; simpl; rewrite mark_racy_files; reflexivity.
Qed.
Lemma fil_exec cfg neg args st : Fl (cmd_exec cfg neg args st) = s_files st.
Proof.
  unfold Fl, cmd_exec. destruct args as [|prog rest]; [reflexivity|].
  destruct (bg_spec _) as [name|].
  - destruct rest; [destruct name; reflexivity|].
    destruct (find_bg _ _); [reflexivity|].
    destruct (can_start _ _ _); [simpl; rewrite mark_racy_files; reflexivity|].
    unfold start_failed_state; destruct (is_bare _ && _), neg; reflexivity.
  - destruct (can_start _ _ _).
    + destruct (meets _ _); simpl; rewrite mark_racy_files; reflexivity.
    + unfold start_failed_state; destruct (is_bare _ && _), neg; reflexivity.
Qed.
Lemma fil_custom cfg k neg args st : Fl (cmd_custom cfg k neg args st) = s_files st.
Proof. unfold Fl, cmd_custom. crushf. Qed.

Lemma fil_builtin cfg name neg args st :
  Fl (builtin_sem cfg name neg args st) = s_files st.
Proof.
  unfold builtin_sem.
  destruct (neg && _); [reflexivity|].
  repeat (match goal with |- context [if bytes_eqb name ?l then _ else _] => destruct (bytes_eqb name l) end;
          [first [apply fil_cd|apply fil_chmod|apply fil_cmp|apply fil_cp|apply fil_env|apply fil_exec
                 |apply fil_exists|apply fil_match|apply fil_kill|apply fil_mv|apply fil_skip|apply fil_stdin
                 |apply fil_stop|apply fil_symlink|apply fil_unquote_loop|apply fil_wait
                 |(unfold cmd_mkdir; destruct args; [reflexivity|apply fil_mkdir_loop])
                 |(unfold cmd_rm; destruct args; [reflexivity|apply fil_rm_loop])
                 |(unfold cmd_unix2dos; destruct args; [reflexivity|apply fil_unix2dos_loop])]|]).
  reflexivity.
Qed.

Lemma fil_cmd_sem cfg c neg args st :
  Fl (cmd_sem cfg c neg args st) = s_files st.
Proof.
  destruct c as [name|name|k]; cbn [cmd_sem].
  - apply fil_builtin.
  - destruct (c_explicit_exec cfg); [reflexivity|apply fil_exec].
  - apply fil_custom.
Qed.

Lemma fil_run_guards cfg st words :
  Fl (run_guards cfg st words) = s_files st.
Proof.
  induction words as [|w rest IH]; simpl; [reflexivity|].
  destruct (guard_of w) as [[want c]|].
  - destruct rest as [|r0 rest']; [reflexivity|].
    destruct (cond_eval cfg st c) as [b|]; [|reflexivity].
    destruct (Bool.eqb b want); [exact IH|reflexivity].
  - unfold run_neg, run_cmd.
    destruct (bytes_eqb w bang).
    + destruct rest as [|n a]; [reflexivity|]. destruct (lookup_cmd cfg n); [apply fil_cmd_sem|reflexivity].
    + destruct (lookup_cmd cfg w); [apply fil_cmd_sem|reflexivity].
Qed.

Lemma fil_run_line cfg st line : Fl (run_line cfg st line) = s_files st.
Proof.
  unfold run_line. destruct (tokenise _ _) as [[|w ws]|]; try reflexivity.
  apply fil_run_guards.
Qed.


Lemma helper_tree_free_fs_any args i e c t : helper_writes args = false -> h_fs (helper_run args i e c t) = t.
Proof.
  intros H. unfold helper_run. destruct args as [|sub a]; [reflexivity|].
  simpl in H. rewrite H. destruct (helper_pure sub a i e c) as [[[code out] err] sl]. reflexivity.
Qed.

Section Commute.
Variables (t : tree) (u : list (bytes * bytes)).
Notation sw := (fun s => swapfu s t u).

Lemma mark_racy_sw st b : mark_racy (swapfu st t u) b = swapfu (mark_racy st b) t u.
Proof. destruct b; reflexivity. Qed.

Lemma c_env args st : cmd_env args (swapfu st t u) = omap sw (cmd_env args st).
Proof. reflexivity. Qed.
Lemma c_stop args st : cmd_stop args (swapfu st t u) = omap sw (cmd_stop args st).
Proof. unfold cmd_stop. comm. Qed.
Lemma c_match neg args text st : script_match neg args text false (swapfu st t u) = omap sw (script_match neg args text false st).
Proof. unfold script_match. comm. Qed.
Lemma c_stdin f st : is_std f = true -> cmd_stdin [f] (swapfu st t u) = omap sw (cmd_stdin [f] st).
Proof.
  intros H. unfold cmd_stdin, ts_read, is_std in *. simpl.
  destruct (bytes_eqb f _); [reflexivity|]. destruct (bytes_eqb f _); [reflexivity|].
  destruct (bytes_eqb f _); [reflexivity|]. discriminate.
Qed.
Lemma c_wait_all chk st : wait_all chk (swapfu st t u) = omap sw (wait_all chk st).
Proof.
  unfold wait_all. simpl. destruct (wait_loop chk (s_bg st)) as [[[[bgs o] e] bad] racy].
  destruct bad, racy; reflexivity.
Qed.
Lemma c_wait_one n st : wait_one n (swapfu st t u) = omap sw (wait_one n st).
Proof.
  unfold wait_one. simpl. destruct (find_bg (s_bg st) n); [|reflexivity].
  destruct (reap (bg_proc b)) as [p racy]. destruct (status_wrong _), racy; reflexivity.
Qed.
Lemma c_wait cfg args st : cmd_wait cfg args (swapfu st t u) = omap sw (cmd_wait cfg args st).
Proof.
  unfold cmd_wait, timed_out_state. destruct args as [|a [|b r]]; [| |reflexivity].
  - change (s_bg (swapfu st t u)) with (s_bg st).
    destruct (wait_times_out _ _); [destruct (c_continue cfg); reflexivity|apply c_wait_all].
  - change (s_bg (swapfu st t u)) with (s_bg st).
    destruct (find_bg _ _); [|apply c_wait_one].
    destruct (wait_times_out _ _); [destruct (c_continue cfg); reflexivity|apply c_wait_one].
Qed.
Lemma c_skip args st : cmd_skip args (swapfu st t u) = omap sw (cmd_skip args st).
Proof.
  unfold cmd_skip. destruct args as [|a [|b r]]; try reflexivity;
    (change (interrupt_all (swapfu st t u)) with (swapfu (interrupt_all st) t u);
     rewrite c_wait_all; destruct (wait_all true (interrupt_all st)); reflexivity).
Qed.
Lemma c_kill args st : cmd_kill args (swapfu st t u) = omap sw (cmd_kill args st).
Proof.
  unfold cmd_kill. destruct (kill_args args) as [[|b r]|]; [| |reflexivity]; simpl.
  - destruct (kill_loop (s_bg st)) as [[bgs err] racy]. destruct err, racy; reflexivity.
  - destruct (find_bg (s_bg st) (b :: r)); [|reflexivity]. destruct (signal _) as [[p err] racy].
    destruct err, racy; reflexivity.
Qed.
Lemma c_custom cfg k neg args st : cmd_custom cfg k neg args (swapfu st t u) = omap sw (cmd_custom cfg k neg args st).
Proof. destruct k; simpl; try reflexivity. destruct neg; reflexivity. Qed.

(* the helper: a subcommand that does not write leaves the tree alone and does not look at it *)
Lemma helper_tree_free args i e c t0 :
  helper_writes args = false ->
  helper_run args i e c t = {| h_code := h_code (helper_run args i e c t0); h_out := h_out (helper_run args i e c t0);
                               h_err := h_err (helper_run args i e c t0); h_fs := t; h_sleeper := h_sleeper (helper_run args i e c t0) |}.
Proof.
  intros H. unfold helper_run. destruct args as [|sub a]; [reflexivity|].
  simpl in H. rewrite H. destruct (helper_pure sub a i e c) as [[[code out] err] sl]. reflexivity.
Qed.

Lemma helper_tree_free_fs args i e c : helper_writes args = false -> h_fs (helper_run args i e c t) = t.
Proof. intros H. rewrite (helper_tree_free args i e c t H). reflexivity. Qed.
Lemma hw_removelast rest : helper_writes rest = false -> helper_writes (removelast rest) = false.
Proof. destruct rest as [|sub [|x r]]; simpl; auto. Qed.

Lemma exec_tree_free_hw prog rest : exec_tree_free (prog :: rest) = true -> helper_writes rest = false.
Proof.
  unfold exec_tree_free. destruct rest as [|sub r]; [reflexivity|]. simpl. rewrite negb_true_iff. auto.
Qed.

Lemma c_exec cfg neg args st :
  exec_tree_free args = true ->
  (forall d, is_dir_node (stat t d) = is_dir_node (stat (s_fs st) d)) ->
  cmd_exec cfg neg args (swapfu st t u) = omap sw (cmd_exec cfg neg args st).
Proof.
  intros Hf Hd. unfold cmd_exec. destruct args as [|prog rest]; [reflexivity|].
  apply exec_tree_free_hw in Hf.
  assert (can_start cfg (swapfu st t u) prog = can_start cfg st prog) as Hc.
  { unfold can_start, prog_found. simpl. rewrite Hd. reflexivity. }
  destruct (bg_spec (last (prog :: rest) [])) as [name|].
  - destruct rest as [|r0 rest']; [reflexivity|].
    change (s_bg (swapfu st t u)) with (s_bg st).
    destruct (find_bg (s_bg st) name); [reflexivity|].
    rewrite Hc. destruct (can_start cfg st prog); [|(unfold start_failed_state; change (prog_found cfg (swapfu st t u) prog) with (prog_found cfg st prog); destruct (is_bare prog && negb (prog_found cfg st prog)), neg; reflexivity)].
    pose proof (hw_removelast _ Hf) as Hf'.
    change (s_in (swapfu st t u)) with (s_in st). change (s_env (swapfu st t u)) with (s_env st).
    change (s_cd (swapfu st t u)) with (s_cd st). change (s_fs (swapfu st t u)) with t.
    rewrite (helper_tree_free (removelast (r0 :: rest')) (s_in st) (s_env st) (s_cd st) (s_fs st) Hf').
    rewrite Hf'.
    pose proof (helper_tree_free_fs_any (removelast (r0 :: rest')) (s_in st) (s_env st) (s_cd st) (s_fs st) Hf') as Hfs.
    cbn [h_fs h_code h_out h_err h_sleeper]. rewrite Hfs. destruct (c_cancelled cfg); reflexivity.
  - rewrite Hc. destruct (can_start cfg st prog); [|(unfold start_failed_state; change (prog_found cfg (swapfu st t u) prog) with (prog_found cfg st prog); destruct (is_bare prog && negb (prog_found cfg st prog)), neg; reflexivity)].
    change (s_in (swapfu st t u)) with (s_in st). change (s_env (swapfu st t u)) with (s_env st).
    change (s_cd (swapfu st t u)) with (s_cd st). change (s_fs (swapfu st t u)) with t.
    rewrite (helper_tree_free rest (s_in st) (s_env st) (s_cd st) (s_fs st) Hf).
    pose proof (helper_tree_free_fs_any rest (s_in st) (s_env st) (s_cd st) (s_fs st) Hf) as Hfs.
    unfold fg_end, fg_racy. cbn [h_fs h_code h_out h_err h_sleeper]. rewrite Hfs.
    destruct (c_cancelled cfg), (c_deadline cfg), (c_continue cfg),
      (h_sleeper (helper_run rest (s_in st) (s_env st) (s_cd st) (s_fs st))),
      (N.eqb (h_code (helper_run rest (s_in st) (s_env st) (s_cd st) (s_fs st))) 0), neg; reflexivity.
Qed.
Lemma c_stdin' args st :
  match args with [f] => is_std f | _ => true end = true ->
  cmd_stdin args (swapfu st t u) = omap sw (cmd_stdin args st).
Proof. destruct args as [|f [|g r]]; intros H; [reflexivity|apply c_stdin; exact H|reflexivity]. Qed.

Lemma c_builtin cfg name neg args st :
  tree_free_builtin name args = true ->
  (forall d, is_dir_node (stat t d) = is_dir_node (stat (s_fs st) d)) ->
  builtin_sem cfg name neg args (swapfu st t u) = omap sw (builtin_sem cfg name neg args st).
Proof.
  intros Hf Hd. unfold builtin_sem.
  destruct (neg && mem_bytes name neg_rejecting_cmds); [reflexivity|].
  repeat match goal with
  | |- context [if bytes_eqb name ?l then _ else _] =>
      let E := fresh "E" in
      destruct (bytes_eqb name l) eqn:E;
      [apply bytes_eqb_eq in E; subst name; cbn in Hf;
       first [discriminate Hf | apply c_env | apply c_stop | apply c_skip | apply c_wait | apply c_kill
             | apply c_match | apply c_stdin'; exact Hf | apply c_exec; assumption]|]
  end.
  reflexivity.
Qed.

Lemma c_cmd_sem cfg c neg args st :
  tree_free c args = true ->
  (forall d, is_dir_node (stat t d) = is_dir_node (stat (s_fs st) d)) ->
  cmd_sem cfg c neg args (swapfu st t u) = omap sw (cmd_sem cfg c neg args st).
Proof.
  intros Hf Hd. destruct c as [name|name|k]; cbn [cmd_sem tree_free] in *.
  - apply c_builtin; assumption.
  - destruct (c_explicit_exec cfg); [reflexivity|]. apply c_exec; assumption.
  - apply c_custom.
Qed.
End Commute.

(* ---- the two runs in lockstep *)

Lemma swapfu_self st : swapfu st (s_fs st) (s_updates st) = st.
Proof. destruct st; reflexivity. Qed.

Lemma guards_pass_sw cfg b st t u words cw :
  guards_pass cfg st words cw -> guards_pass (cfg_update cfg b) (swapfu st t u) words cw.
Proof.
  induction 1 as [w rest Hg | w want c rest out Hg Hne Hc Hp IH].
  - apply GP_done. exact Hg.
  - eapply GP_step; eauto.
Qed.

Lemma guards_block_sw cfg b st t u words :
  guards_block cfg st words -> guards_block (cfg_update cfg b) (swapfu st t u) words.
Proof.
  induction 1 as [w want c rest Hg Hne Hc | w want c rest Hg Hne Hc Hb IH].
  - eapply GB_here; eauto.
  - eapply GB_later; eauto.
Qed.

Lemma reaches_sw cfg b st t u l neg c args :
  reaches cfg st l neg c args -> reaches (cfg_update cfg b) (swapfu st t u) l neg c args.
Proof.
  intros [words cw neg' name args' c' Ht Hp Hs Hl].
  econstructor; [exact Ht|apply guards_pass_sw; exact Hp|exact Hs|exact Hl].
Qed.

Lemma cmd_sem_cfg_update cfg b c neg args st :
  tree_free c args = true -> cmd_sem (cfg_update cfg b) c neg args st = cmd_sem cfg c neg args st.
Proof.
  intros Hf. destruct c as [name|name|k]; cbn [cmd_sem tree_free] in *; try reflexivity.
  unfold builtin_sem.
  destruct (neg && mem_bytes name neg_rejecting_cmds); [reflexivity|].
  repeat match goal with
  | |- context [if bytes_eqb name ?l then _ else _] =>
      let E := fresh "E" in
      destruct (bytes_eqb name l) eqn:E;
      [apply bytes_eqb_eq in E; subst name; cbn in Hf; first [discriminate Hf | reflexivity]|]
  end.
  reflexivity.
Qed.

(* a line of the class that is not a golden cmp behaves the same in the other tree *)
Lemma lock_line_free cfg b st t u l st' :
  (forall d, is_dir_node (stat t d) = is_dir_node (stat (s_fs st) d)) ->
  (tokenise (s_env st) l = Some []
   \/ (exists words, tokenise (s_env st) l = Some words /\ guards_block cfg st words)
   \/ (exists neg c args, reaches cfg st l neg c args /\ tree_free c args = true)) ->
  run_line cfg st l = Done st' ->
  run_line (cfg_update cfg b) (swapfu st t u) l = Done (swapfu st' t u)
  /\ s_fs st' = s_fs st /\ s_updates st' = s_updates st.
Proof.
  intros Hd [Ht|[[words [Ht Hb]]|[neg [c [args [Hr Hf]]]]]] Hrun.
  - assert (st' = st) as -> by (unfold run_line in Hrun; rewrite Ht in Hrun; congruence).
    split; [|auto]. unfold run_line. change (s_env (swapfu st t u)) with (s_env st). rewrite Ht. reflexivity.
  - assert (st' = st) as ->.
    { rewrite (guard_false_noop cfg st l words Ht Hb) in Hrun. congruence. }
    split; [|auto]. apply (guard_false_noop _ _ l words); [exact Ht|apply guards_block_sw; exact Hb].
  - rewrite (run_line_reaches _ _ _ _ _ _ Hr) in Hrun.
    rewrite (run_line_reaches _ _ _ _ _ _ (reaches_sw cfg b st t u l neg c args Hr)).
    rewrite (cmd_sem_cfg_update cfg b c neg args _ Hf).
    rewrite (c_cmd_sem t u cfg c neg args st Hf Hd). rewrite Hrun. split; [reflexivity|].
    (* the frame: run the same command on st seen as its own swap *)
    pose proof (c_cmd_sem (s_fs st) (s_updates st) cfg c neg args st Hf (fun d => eq_refl)) as Hself.
    rewrite swapfu_self, Hrun in Hself. simpl in Hself. inversion Hself as [Heq].
    split; [rewrite Heq at 1|rewrite Heq at 1]; reflexivity.
Qed.

Lemma builtin_cmp cfg args st :
  builtin_sem cfg cmp_name false args st = cmd_cmp (c_update cfg) false false args st.
Proof. reflexivity. Qed.

Lemma ts_read_std st src :
  is_std src = true ->
  exists x, ts_read st src = Some x /\ forall t u, ts_read (swapfu st t u) src = Some x.
Proof.
  unfold is_std, ts_read. intros H.
  destruct (bytes_eqb src _); [eexists; split; [reflexivity|intros; reflexivity]|].
  destruct (bytes_eqb src _); [eexists; split; [reflexivity|intros; reflexivity]|].
  destruct (bytes_eqb src _); [eexists; split; [reflexivity|intros; reflexivity]|]. discriminate.
Qed.

Lemma lock_line_cmp cfg st fs2 Ufinal l entry src g st' :
  c_update cfg = true ->
  reaches cfg st l false (CBuiltin cmp_name) [src; g] -> is_std src = true ->
  clean (mkabs st g) = mkabs st g ->
  assoc_get (s_files st) (mkabs st g) = Some entry ->
  golden_tables st fs2 Ufinal -> assoc_get (s_updates st) entry = None ->
  run_line cfg st l = Done st' ->
  assoc_get Ufinal entry = assoc_get (s_updates st') entry ->
  run_line (cfg_update cfg false) (swapfu st fs2 []) l = Done (swapfu st' fs2 [])
  /\ s_fs st' = s_fs st
  /\ (forall e, bytes_eqb e entry = false -> assoc_get (s_updates st') e = assoc_get (s_updates st) e).
Proof.
  intros Hu Hr Hstd Hcl Hfile Htab Hnone Hrun Hfin.
  rewrite (run_line_reaches _ _ _ _ _ _ Hr) in Hrun.
  rewrite (run_line_reaches _ _ _ _ _ _ (reaches_sw cfg false st fs2 [] l _ _ _ Hr)).
  cbn [cmd_sem] in *. rewrite builtin_cmp in *. rewrite Hu in Hrun.
  change (c_update (cfg_update cfg false)) with false.
  destruct (ts_read_std st src Hstd) as [text [Hread Hread2]].
  destruct (Htab _ _ Hfile) as [g1 [Hg1 Hg2]].
  unfold cmd_cmp in *. rewrite Hread in Hrun. rewrite (Hread2 fs2 []).
  change (mkabs (swapfu st fs2 []) g) with (mkabs st g). rewrite Hcl in *.
  change (s_fs (swapfu st fs2 [])) with fs2.
  destruct (bytes_eqb src g); [discriminate|].
  rewrite Hg1 in Hrun. rewrite Hg2.
  destruct (bytes_eqb text g1) eqn:Eq.
  - (* equal: nothing recorded, the entry keeps its content in the second tree *)
    inversion Hrun; subst st'. rewrite Hnone in Hfin. rewrite Hfin. rewrite Eq.
    split; [reflexivity|]. split; [reflexivity|]. auto.
  - (* different: the actual text is recorded, and it is what the second tree holds *)
    simpl in Hrun. rewrite Hfile in Hrun. inversion Hrun; subst st'. clear Hrun.
    simpl in Hfin. rewrite assoc_get_set in Hfin. rewrite Hfin. rewrite bytes_eqb_refl.
    split; [reflexivity|]. split; [reflexivity|].
    intros e He. simpl. apply assoc_get_set_other. exact He.
Qed.

Lemma cmp_run1 upd st src g entry st' :
  clean (mkabs st g) = mkabs st g ->
  assoc_get (s_files st) (mkabs st g) = Some entry ->
  cmd_cmp upd false false [src; g] st = Done st' ->
  s_fs st' = s_fs st
  /\ forall e, bytes_eqb e entry = false -> assoc_get (s_updates st') e = assoc_get (s_updates st) e.
Proof.
  intros Hcl Hfile H. unfold cmd_cmp in H. rewrite Hcl in H.
  destruct (bytes_eqb src g); [discriminate|].
  destruct (ts_read st src) as [text|]; [|discriminate].
  destruct (read_file (s_fs st) (mkabs st g)) as [data|]; [|discriminate].
  destruct (bytes_eqb text data).
  - inversion H; subst. auto.
  - destruct (upd && negb false); [|discriminate]. rewrite Hfile in H. inversion H; subst.
    split; [reflexivity|]. intros e He. simpl. apply assoc_get_set_other. exact He.
Qed.

Lemma neq_bytes_eqb e entry : e <> entry -> bytes_eqb e entry = false.
Proof.
  intros H. destruct (bytes_eqb e entry) eqn:E; [|reflexivity]. apply bytes_eqb_eq in E. contradiction.
Qed.

(* what one line of the class does to run 1 *)
Lemma class_line_run1 cfg st l seen seen' st' :
  line_class cfg st l seen seen' -> run_line cfg st l = Done st' ->
  s_fs st' = s_fs st /\ s_files st' = s_files st
  /\ (forall e, In e seen -> assoc_get (s_updates st') e = assoc_get (s_updates st) e)
  /\ (forall e, ~ In e seen' -> assoc_get (s_updates st') e = assoc_get (s_updates st) e)
  /\ (forall e, In e seen -> In e seen').
Proof.
  intros Hc Hrun.
  assert (s_files st' = s_files st) as Hfiles.
  { pose proof (fil_run_line cfg st l) as H. unfold Fl in H. rewrite Hrun in H. exact H. }
  destruct Hc as [Ht | words Ht Hb | neg c args Hr Hf | neg c args entry Hr Hg Hnin].
  - destruct (lock_line_free cfg false st (s_fs st) [] l st' (fun d => eq_refl) (or_introl Ht) Hrun) as [_ [H1 H2]].
    rewrite H2. auto.
  - destruct (lock_line_free cfg false st (s_fs st) [] l st' (fun d => eq_refl)
                (or_intror (or_introl (ex_intro _ words (conj Ht Hb)))) Hrun) as [_ [H1 H2]].
    rewrite H2. auto.
  - destruct (lock_line_free cfg false st (s_fs st) [] l st' (fun d => eq_refl)
                (or_intror (or_intror (ex_intro _ neg (ex_intro _ c (ex_intro _ args (conj Hr Hf)))))) Hrun) as [_ [H1 H2]].
    rewrite H2. auto.
  - destruct Hg as [-> [-> [src [g [-> [Hstd [Hcl Hfile]]]]]]].
    rewrite (run_line_reaches _ _ _ _ _ _ Hr) in Hrun. cbn [cmd_sem] in Hrun. rewrite builtin_cmp in Hrun.
    destruct (cmp_run1 _ _ _ _ _ _ Hcl Hfile Hrun) as [H1 H2].
    split; [exact H1|]. split; [exact Hfiles|]. split; [|split].
    + intros e He. apply H2. apply neq_bytes_eqb. intros ->. contradiction.
    + intros e He. apply H2. apply neq_bytes_eqb. intros ->. apply He. left. reflexivity.
    + intros e He. right. exact He.
Qed.

Lemma upd_end_bg' st : s_updates (end_bg st) = s_updates st.
Proof. apply upd_end_bg. Qed.

(* Lemma A: what has been compared is not touched again *)
Lemma seen_entries_final cfg ls : forall n st seen stF,
  safe_run cfg ls n st seen ->
  run_lines cfg ls n false st = (EPass, stF, []) ->
  forall e, In e seen -> assoc_get (s_updates stF) e = assoc_get (s_updates st) e.
Proof.
  induction ls as [|l ls IH]; intros n st seen stF Hs Hrun e He; simpl in *.
  - inversion Hrun; subst. rewrite upd_end_bg. reflexivity.
  - destruct (is_comment l); [eapply IH; eauto|].
    destruct Hs as [seen' [Hc Hrest]].
    destruct (run_line cfg (at_line (S n) false st) l) as [s|s|s] eqn:Hl.
    + destruct (class_line_run1 _ _ _ _ _ _ Hc Hl) as [_ [_ [Hseen [_ Hincl]]]].
      destruct (s_stopped s).
      * inversion Hrun; subst. rewrite upd_end_bg. rewrite (Hseen e He). reflexivity.
      * rewrite (IH _ _ _ _ Hrest Hrun e (Hincl e He)). rewrite (Hseen e He). reflexivity.
    + destruct (c_continue cfg); [|discriminate]. destruct (s_stopped s); [discriminate|].
      pose proof (run_lines_failed_flag cfg ls (S n) s) as Hf.
      destruct (run_lines cfg ls (S n) true s) as [[k s'] f]. simpl in Hf. subst k. discriminate.
    + discriminate.
Qed.

Lemma end_bg_sw st t u : end_bg (swapfu st t u) = swapfu (end_bg st) t u.
Proof.
  unfold end_bg. change (interrupt_all (swapfu st t u)) with (swapfu (interrupt_all st) t u).
  rewrite c_wait_all. destruct (wait_all false (interrupt_all st)); reflexivity.
Qed.

Lemma end_bg_fs st : s_fs (end_bg st) = s_fs st.
Proof.
  pose proof (end_bg_sw st (s_fs st) (s_updates st)) as H. rewrite swapfu_self in H.
  rewrite H at 1. reflexivity.
Qed.

(* THE LOCKSTEP: run 2 (flag off, second tree) passes wherever run 1 (flag on) passes *)
Theorem rerun_lockstep cfg fs2 Ufinal :
  c_update cfg = true ->
  forall ls n st1 seen stF,
  (forall d, is_dir_node (stat fs2 d) = is_dir_node (stat (s_fs st1) d)) ->
  golden_tables st1 fs2 Ufinal ->
  (forall e, ~ In e seen -> assoc_get (s_updates st1) e = None) ->
  safe_run cfg ls n st1 seen ->
  run_lines cfg ls n false st1 = (EPass, stF, []) ->
  (forall e, assoc_get Ufinal e = assoc_get (s_updates stF) e) ->
  run_lines (cfg_update cfg false) ls n false (swapfu st1 fs2 []) = (EPass, swapfu stF fs2 [], []).
Proof.
  intros Hu. induction ls as [|l ls IH]; intros n st1 seen stF Hd Htab Hnone Hs Hrun Hfin; simpl in *.
  - inversion Hrun; subst.
    change (set_lineno (swapfu st1 fs2 []) n) with (swapfu (set_lineno st1 n) fs2 []).
    rewrite end_bg_sw. reflexivity.
  - destruct (is_comment l); [eapply IH; eauto|].
    destruct Hs as [seen' [Hc Hrest]].
    change (at_line (S n) false (swapfu st1 fs2 [])) with (swapfu (at_line (S n) false st1) fs2 []).
    set (st := at_line (S n) false st1) in *.
    destruct (run_line cfg st l) as [s|s|s] eqn:Hl.
    2: { destruct (c_continue cfg); [|discriminate]. destruct (s_stopped s); [discriminate|].
         pose proof (run_lines_failed_flag cfg ls (S n) s) as Hf.
         destruct (run_lines cfg ls (S n) true s) as [[k s'] f]. simpl in Hf. subst k. discriminate. }
    2: discriminate.
    destruct (class_line_run1 _ _ _ _ _ _ Hc Hl) as [Hfs [Hfiles [Hseen [Hnotseen Hincl]]]].
    (* what the rest of run 1 does not touch any more *)
    assert (forall e, In e seen' -> assoc_get Ufinal e = assoc_get (s_updates s) e) as Hlater.
    { intros e He. rewrite Hfin. destruct (s_stopped s) eqn:Hst.
      - inversion Hrun; subst. rewrite upd_end_bg. reflexivity.
      - eapply seen_entries_final; eauto. }
    assert (run_line (cfg_update cfg false) (swapfu st fs2 []) l = Done (swapfu s fs2 [])) as Hl2.
    { destruct Hc as [Ht | words Ht Hb | neg c args Hr Hf | neg c args entry Hr Hg Hnin].
      - apply (lock_line_free cfg false st fs2 [] l s Hd (or_introl Ht) Hl).
      - apply (lock_line_free cfg false st fs2 [] l s Hd (or_intror (or_introl (ex_intro _ words (conj Ht Hb)))) Hl).
      - apply (lock_line_free cfg false st fs2 [] l s Hd
                 (or_intror (or_intror (ex_intro _ neg (ex_intro _ c (ex_intro _ args (conj Hr Hf)))))) Hl).
      - destruct Hg as [-> [-> [src [g [-> [Hstd [Hcl Hfile]]]]]]].
        apply (lock_line_cmp cfg st fs2 Ufinal l entry src g s Hu Hr Hstd Hcl Hfile Htab (Hnone entry Hnin) Hl).
        apply Hlater. left. reflexivity. }
    rewrite Hl2. change (s_stopped (swapfu s fs2 [])) with (s_stopped s).
    destruct (s_stopped s).
    + inversion Hrun; subst. rewrite end_bg_sw. reflexivity.
    + eapply IH; eauto.
      * intros d. rewrite Hfs. apply Hd.
      * intros p e Hp. rewrite Hfiles in Hp. rewrite Hfs. apply Htab. exact Hp.
      * intros e He. rewrite (Hnotseen e He). apply Hnone. intros Hin. apply He. apply Hincl. exact Hin.
Qed.

(* ---- trees of the same shape (same paths, kinds, modes, link targets; file contents may
   differ) resolve every path alike *)
Definition shape_eq (t1 t2 : tree) : Prop := tshape t1 = tshape t2.

Lemma lookup_tshape t p : lookup (tshape t) p = option_map nshape (lookup t p).
Proof.
  induction t as [|[q n] r IH]; simpl; [reflexivity|]. destruct (path_eqb q p); [reflexivity|exact IH].
Qed.

Lemma lookup_shape t1 t2 p : shape_eq t1 t2 -> option_map nshape (lookup t1 p) = option_map nshape (lookup t2 p).
Proof. intros H. rewrite <- !lookup_tshape. unfold shape_eq in H. rewrite H. reflexivity. Qed.

Lemma node_at_shape t1 t2 p : shape_eq t1 t2 -> option_map nshape (node_at t1 p) = option_map nshape (node_at t2 p).
Proof. intros H. destruct p; [reflexivity|]. simpl. apply lookup_shape. exact H. Qed.

Lemma is_dir_nshape o : is_dir_node (option_map nshape o) = is_dir_node o.
Proof. destruct o as [[| |]|]; reflexivity. Qed.

Lemma walk_shape t1 t2 : shape_eq t1 t2 ->
  forall b f cur rest, walk b t1 f cur rest = walk b t2 f cur rest.
Proof.
  intros H. induction b as [|b IHb]; intros f cur rest; revert cur;
    (induction rest as [|c rest' IHr]; intros cur; simpl; [reflexivity|]).
  - rewrite <- (is_dir_nshape (node_at t1 cur)), (node_at_shape t1 t2 cur H), is_dir_nshape.
    destruct (negb (is_dir_node (node_at t2 cur))); [reflexivity|].
    destruct (is_empty c || is_dot c); [apply IHr|]. destruct (is_dotdot c); [apply IHr|].
    pose proof (lookup_shape t1 t2 (cur ++ [c]) H) as Hl.
    destruct (lookup t1 (cur ++ [c])) as [[d m|m|tg]|], (lookup t2 (cur ++ [c])) as [[d' m'|m'|tg']|];
      simpl in Hl; try discriminate; try apply IHr; try reflexivity.
  - rewrite <- (is_dir_nshape (node_at t1 cur)), (node_at_shape t1 t2 cur H), is_dir_nshape.
    destruct (negb (is_dir_node (node_at t2 cur))); [reflexivity|].
    destruct (is_empty c || is_dot c); [apply IHr|]. destruct (is_dotdot c); [apply IHr|].
    pose proof (lookup_shape t1 t2 (cur ++ [c]) H) as Hl.
    destruct (lookup t1 (cur ++ [c])) as [[d m|m|tg]|], (lookup t2 (cur ++ [c])) as [[d' m'|m'|tg']|];
      simpl in Hl; try discriminate; try apply IHr; try reflexivity.
    inversion Hl; subst. destruct (_ && _); [reflexivity|]. destruct tg'; [reflexivity|]. apply IHb.
Qed.

Lemma stat_dir_shape t1 t2 d : shape_eq t1 t2 -> is_dir_node (stat t1 d) = is_dir_node (stat t2 d).
Proof.
  intros H. unfold stat, resolve, resolve3. destruct (is_abs d); [|reflexivity].
  rewrite (walk_shape t1 t2 H). destruct (walk max_links t2 true [] (split_slash d)) as [p| |]; try reflexivity.
  rewrite <- (is_dir_nshape (node_at t1 p)), (node_at_shape t1 t2 p H), is_dir_nshape. reflexivity.
Qed.

(* ---- the restricted fix-point, script level.  What is assumed about the two set-ups (the
   unpacked trees have the same shape, the second holds the updated contents) is stated as
   hypotheses; the Example below discharges them for a concrete file by computation. *)
Theorem rerun_fixpoint_restricted_partial cfg work env a a' st1 st2 stF :
  c_update cfg = true ->
  setup cfg work env a = (st1, true) ->
  setup (cfg_update cfg false) work env a' = (st2, true) ->
  comment a' = comment a ->
  st2 = swapfu st1 (s_fs st2) [] ->
  shape_eq (s_fs st2) (s_fs st1) ->
  s_updates st1 = [] ->
  run_script cfg (comment a) st1 = {| r_verdict := Pass; r_final := stF; r_fail_lines := [] |} ->
  golden_tables st1 (s_fs st2) (s_updates stF) ->
  safe_run cfg (script_lines (comment a)) 0 st1 [] ->
  run_archive (cfg_update cfg false) work env a'
  = {| r_verdict := Pass; r_final := swapfu stF (s_fs st2) []; r_fail_lines := [] |}.
Proof.
  intros Hu Hs1 Hs2 Hc Hst2 Hshape Hu0 Hrun Htab Hsafe.
  unfold run_archive. rewrite Hs2, Hc. unfold run_script in *.
  destruct (run_lines cfg (script_lines (comment a)) 0 false st1) as [[k s] f] eqn:E.
  inversion Hrun as [[Hv Hs Hf]]. subst s f. apply mk_verdict_pass in Hv. subst k.
  rewrite Hst2.
  rewrite (rerun_lockstep cfg (s_fs st2) (s_updates stF) Hu _ 0 st1 [] stF); try assumption; try reflexivity.
  - intros d. apply stat_dir_shape. exact Hshape.
  - intros e _. rewrite Hu0. reflexivity.
Qed.

(* ... and the file is not written (no_flag_no_write), so the second run is a fix-point *)
Theorem rerun_writes_nothing cfg work env file' :
  f_change (run_file_full (cfg_update cfg false) work env file') = Untouched.
Proof. apply no_flag_no_write. reflexivity. Qed.

(* the statement without the hypotheses about the set-ups: for a script of the class whose
   update run passes and whose recorded contents are representable, the second run of the
   rewritten file passes and writes nothing.  Not proved here (it needs read-after-write
   facts about the file-tree model for the unpacking of the archive); covered by the runner. *)
Definition rerun_fixpoint_restricted_full_statement : Prop :=
  forall cfg work env file file' st1,
    c_update cfg = true ->
    let r := run_file_full cfg work env file in
    setup cfg work env (parse file) = (st1, true) ->
    safe_run cfg (script_lines (comment (parse file))) 0 st1 [] ->
    r_verdict (f_run r) = Pass ->
    f_change r = Rewritten file' ->
    (forall n c, assoc_get (s_updates (r_final (f_run r))) n = Some c -> representable c) ->
    let r2 := run_file_full (cfg_update cfg false) work env file' in
    r_verdict (f_run r2) = Pass /\ f_change r2 = Untouched.

(* ---- the executable link between the two set-ups *)

Lemma path_eqb_eq p q : path_eqb p q = true -> p = q.
Proof.
  revert q. induction p as [|x p IH]; destruct q as [|y q]; simpl; try discriminate; [reflexivity|].
  intros H. apply andb_true_iff in H. destruct H as [H1 H2]. apply bytes_eqb_eq in H1. rewrite H1, (IH _ H2). reflexivity.
Qed.
Lemma node_eqb_eq a b : node_eqb a b = true -> a = b.
Proof.
  destruct a, b; simpl; try discriminate; intros H.
  - apply andb_true_iff in H. destruct H as [H1 H2]. apply bytes_eqb_eq in H1. apply N.eqb_eq in H2. congruence.
  - apply N.eqb_eq in H. congruence.
  - apply bytes_eqb_eq in H. congruence.
Qed.
Lemma tree_eqb_eq a b : tree_eqb a b = true -> a = b.
Proof.
  revert b. induction a as [|[p n] a IH]; destruct b as [|[q m] b]; simpl; try discriminate; [reflexivity|].
  intros H. apply andb_true_iff in H. destruct H as [H H3]. apply andb_true_iff in H. destruct H as [H1 H2].
  rewrite (path_eqb_eq _ _ H1), (node_eqb_eq _ _ H2), (IH _ H3). reflexivity.
Qed.
Lemma shape_ok_eq t1 t2 : shape_ok t1 t2 = true -> shape_eq t1 t2.
Proof. apply tree_eqb_eq. Qed.
Lemma names_eqb_eq a b : names_eqb a b = true -> a = b.
Proof.
  revert b. induction a as [|x a IH]; destruct b as [|y b]; simpl; try discriminate; [reflexivity|].
  intros H. apply andb_true_iff in H. destruct H as [H1 H2]. apply bytes_eqb_eq in H1. rewrite H1, (IH _ H2). reflexivity.
Qed.

Lemma assoc_get_In m k v : assoc_get m k = Some v -> In (k, v) m.
Proof.
  induction m as [|[k' v'] r IH]; simpl; [discriminate|].
  destruct (bytes_eqb k k') eqn:E.
  - intros H. inversion H; subst. apply bytes_eqb_eq in E. subst. left. reflexivity.
  - intros H. right. apply IH. exact H.
Qed.

Lemma tables_ok_tables st1 t2 U : tables_ok st1 t2 U = true -> golden_tables st1 t2 U.
Proof.
  intros H p e Hp. unfold tables_ok in H. rewrite forallb_forall in H.
  specialize (H (p, e) (assoc_get_In _ _ _ Hp)). simpl in H.
  destruct (read_file (s_fs st1) p) as [g1|]; [|discriminate].
  destruct (read_file t2 p) as [g2|]; [|discriminate].
  apply bytes_eqb_eq in H. subst g2. eauto.
Qed.

(* unpacking two archives with the same entry names gives states that differ in the tree only *)
Lemma unpack_same_names u work : forall fs fs' stA stB sA sB,
  map fst fs = map fst fs' ->
  stB = swapfu stA (s_fs stB) (s_updates stA) ->
  unpack u work fs stA = (sA, true) -> unpack u work fs' stB = (sB, true) ->
  sB = swapfu sA (s_fs sB) (s_updates sA).
Proof.
  induction fs as [|[n d] r IH]; intros fs' stA stB sA sB Hn Hrel HA HB.
  - destruct fs' as [|[n' d'] r']; [|discriminate]. simpl in *. inversion HA; inversion HB; subst. exact Hrel.
  - destruct fs' as [|[n' d'] r']; [discriminate|]. simpl in Hn. inversion Hn as [[Hn1 Hn2]]. subst n'.
    cbn [unpack] in HA, HB.
    assert (mkabs stB (expand (s_env stB) n) = mkabs stA (expand (s_env stA) n)) as Hp by (rewrite Hrel; reflexivity).
    rewrite Hp in HB. set (p := mkabs stA (expand (s_env stA) n)) in *.
    destruct (beneath work p); [|inversion HA]. cbn [negb] in HA, HB.
    assert (s_files stB = s_files stA) as Hfl by (rewrite Hrel; reflexivity). rewrite Hfl in HB.
    destruct (mkdir_all (s_fs (set_files stA (assoc_set (s_files stA) (clean p) n))) (dir p) 511) as [t1A [|]]; [|inversion HA].
    destruct (mkdir_all (s_fs (set_files stB (assoc_set (s_files stA) (clean p) n))) (dir p) 511) as [t1B [|]]; [|inversion HB].
    destruct (if u then write_file_excl t1A p d 438 else write_file t1A p d 438) as [t2A|]; [|inversion HA].
    destruct (if u then write_file_excl t1B p d' 438 else write_file t1B p d' 438) as [t2B|]; [|inversion HB].
    eapply (IH r' _ _ sA sB Hn2 _ HA HB).
    Unshelve. rewrite Hrel. reflexivity.
Qed.

Lemma setup_same_names cfg b work env a a' st1 st2 :
  map fst (files a) = map fst (files a') ->
  setup cfg work env a = (st1, true) -> setup (cfg_update cfg b) work env a' = (st2, true) ->
  st2 = swapfu st1 (s_fs st2) [] /\ s_updates st1 = [].
Proof.
  intros Hn H1 H2. unfold setup in *. change (c_unique (cfg_update cfg b)) with (c_unique cfg) in H2.
  destruct (mkdir_all [] _ 511) as [t [|]]; [|inversion H1].
  assert (s_updates st1 = []) as Hu.
  { pose proof (upd_unpack (c_unique cfg) work (files a) (empty_state env work t)) as H. rewrite H1 in H. exact H. }
  split; [|exact Hu].
  pose proof (unpack_same_names (c_unique cfg) work (files a) (files a') (empty_state env work t) (empty_state env work t) st1 st2 Hn eq_refl H1 H2) as H.
  rewrite Hu in H. exact H.
Qed.

(* THE RESTRICTED FIX-POINT, file level: when the update run of a script of the class passes
   and rewrites the file, and the executable link check holds of the two files, the second
   run (flag off) passes and writes nothing *)
Theorem rerun_fixpoint_restricted_checked cfg work env file file' st1 :
  c_update cfg = true ->
  setup cfg work env (parse file) = (st1, true) ->
  safe_run cfg (script_lines (comment (parse file))) 0 st1 [] ->
  r_verdict (f_run (run_file_full cfg work env file)) = Pass ->
  rerun_link_ok cfg work env file file' (s_updates (r_final (run_file cfg work env file))) = true ->
  r_verdict (f_run (run_file_full (cfg_update cfg false) work env file')) = Pass
  /\ f_change (run_file_full (cfg_update cfg false) work env file') = Untouched.
Proof.
  intros Hu Hs1 Hsafe Hv Hlink.
  split; [|apply rerun_writes_nothing].
  (* run 1 as a plain run *)
  assert (f_change (run_file_full cfg work env file) <> UpdateError) as Hne.
  { intros Hc. destruct (update_error_fails cfg work env file Hc) as [[n Hn] _]. congruence. }
  rewrite (update_ok_verdict cfg work env file Hne) in Hv.
  unfold rerun_link_ok in Hlink. rewrite Hs1 in Hlink.
  destruct (setup (cfg_update cfg false) work env (parse file')) as [st2 [|]] eqn:Hs2; [|discriminate].
  apply andb_true_iff in Hlink. destruct Hlink as [Hlink Htab].
  apply andb_true_iff in Hlink. destruct Hlink as [Hlink Hshape].
  apply andb_true_iff in Hlink. destruct Hlink as [Hnames Hcomment].
  apply names_eqb_eq in Hnames. apply bytes_eqb_eq in Hcomment.
  destruct (setup_same_names cfg false work env _ _ st1 st2 Hnames Hs1 Hs2) as [Hrel Hu0].
  rewrite (update_ok_verdict (cfg_update cfg false) work env file').
  2: { rewrite rerun_writes_nothing. discriminate. }
  unfold run_file in *. unfold run_archive in Hv, Htab. rewrite Hs1 in Hv, Htab.
  destruct (run_script cfg (comment (parse file)) st1) as [v stF fl] eqn:Hrun. simpl in Hv, Htab. subst v.
  assert (fl = []) as ->.
  { unfold run_script in Hrun. destruct (run_lines cfg (script_lines (comment (parse file))) 0 false st1) as [[k s] f] eqn:E.
    inversion Hrun as [[Hk Hs Hf]]. apply mk_verdict_pass in Hk. subst k. apply run_lines_pass in E. destruct E as [_ E]. congruence. }
  rewrite (rerun_fixpoint_restricted_partial cfg work env (parse file) (parse file') st1 st2 stF); auto.
  - apply shape_ok_eq. exact Hshape.
  - apply tables_ok_tables. exact Htab.
Qed.

(* ---- the executable class check is sound *)

Lemma guards_dec_pass cfg st words cw : guards_dec cfg st words = GPass cw -> guards_pass cfg st words cw.
Proof.
  revert cw. induction words as [|w rest IH]; intros cw H; simpl in H; [discriminate|].
  destruct (guard_of w) as [[want c]|] eqn:Hg.
  - destruct rest as [|r0 rest']; [discriminate|].
    destruct (cond_eval cfg st c) as [b0|] eqn:Hc; [|discriminate].
    destruct (Bool.eqb b0 want) eqn:Eb; [|discriminate].
    apply eqb_true_eq in Eb. subst b0. eapply GP_step; eauto. discriminate.
  - inversion H; subst. apply GP_done. exact Hg.
Qed.

Lemma guards_dec_block cfg st words : guards_dec cfg st words = GBlock -> guards_block cfg st words.
Proof.
  induction words as [|w rest IH]; intros H; simpl in H; [discriminate|].
  destruct (guard_of w) as [[want c]|] eqn:Hg; [|discriminate].
  destruct rest as [|r0 rest']; [discriminate|].
  destruct (cond_eval cfg st c) as [b0|] eqn:Hc; [|discriminate].
  destruct (Bool.eqb b0 want) eqn:Eb.
  - apply eqb_true_eq in Eb. subst b0. eapply GB_later; eauto. discriminate.
  - apply eqb_false_negb in Eb. subst b0. eapply GB_here; eauto. discriminate.
Qed.

Lemma mem_b_In x l : mem_b x l = false -> ~ In x l.
Proof.
  induction l as [|y r IH]; simpl; [tauto|]. intros H. apply orb_false_iff in H. destruct H as [H1 H2].
  intros [->|Hin]; [rewrite bytes_eqb_refl in H1; discriminate|exact (IH H2 Hin)].
Qed.

Lemma line_class_b_sound cfg st l seen seen' :
  line_class_b cfg st l seen = Some seen' -> line_class cfg st l seen seen'.
Proof.
  unfold line_class_b. destruct (tokenise (s_env st) l) as [[|w ws]|] eqn:Ht; try discriminate.
  - intros H. inversion H; subst. apply LC_blank. exact Ht.
  - destruct (guards_dec cfg st (w :: ws)) as [|cw|] eqn:Hg; try discriminate.
    + intros H. inversion H; subst. eapply LC_guard; [exact Ht|apply guards_dec_block; exact Hg].
    + apply guards_dec_pass in Hg.
      destruct (split_neg cw) as [[[neg name] args]|] eqn:Hs; [|discriminate].
      destruct (lookup_cmd cfg name) as [c|] eqn:Hl; [|discriminate].
      assert (reaches cfg st l neg c args) as Hr by (econstructor; eauto).
      destruct (tree_free c args) eqn:Hf.
      * intros H. inversion H; subst. eapply LC_free; eauto.
      * destruct (is_cmp_ref c && negb neg) eqn:Hc; [|discriminate].
        apply andb_true_iff in Hc. destruct Hc as [Hc Hn]. apply negb_true_iff in Hn. subst neg.
        destruct c as [name'| |]; try discriminate. simpl in Hc. apply bytes_eqb_eq in Hc. subst name'.
        destruct args as [|src [|g [|x r]]]; try discriminate.
        destruct (is_std src) eqn:Hstd; [|discriminate].
        destruct (bytes_eqb (clean (mkabs st g)) (mkabs st g)) eqn:Hcl; [|discriminate]. cbn [andb].
        apply bytes_eqb_eq in Hcl.
        destruct (assoc_get (s_files st) (mkabs st g)) as [entry|] eqn:Hfile; [|discriminate].
        destruct (mem_b entry seen) eqn:Hm; [discriminate|].
        intros H. inversion H; subst. eapply LC_cmp; [exact Hr| |apply mem_b_In; exact Hm].
        split; [reflexivity|]. split; [reflexivity|]. exists src, g. auto.
Qed.

Lemma safe_run_b_sound cfg ls : forall n st seen, safe_run_b cfg ls n st seen = true -> safe_run cfg ls n st seen.
Proof.
  induction ls as [|l ls IH]; intros n st seen H; simpl in *; [exact I|].
  destruct (is_comment l); [apply IH; exact H|].
  destruct (line_class_b cfg (at_line (S n) false st) l seen) as [seen'|] eqn:Hc; [|discriminate].
  exists seen'. split; [apply line_class_b_sound; exact Hc|].
  destruct (run_line cfg (at_line (S n) false st) l) as [s|s|s]; try exact I.
  destruct (s_stopped s); [exact I|apply IH; exact H].
Qed.

(* THE RESTRICTED FIX-POINT with every side condition executable: [rerun_covered] is a
   boolean function of the two files (evaluated by the runner on each generated case) *)
Theorem rerun_fixpoint_covered cfg work env file file' :
  c_update cfg = true ->
  r_verdict (f_run (run_file_full cfg work env file)) = Pass ->
  rerun_covered cfg work env file file' = true ->
  r_verdict (f_run (run_file_full (cfg_update cfg false) work env file')) = Pass
  /\ f_change (run_file_full (cfg_update cfg false) work env file') = Untouched.
Proof.
  intros Hu Hv Hc. unfold rerun_covered in Hc.
  destruct (setup cfg work env (parse file)) as [st1 [|]] eqn:Hs; [|discriminate].
  apply andb_true_iff in Hc. destruct Hc as [Hsafe Hlink].
  eapply rerun_fixpoint_restricted_checked; eauto. apply safe_run_b_sound. exact Hsafe.
Qed.

(* ---- non-vacuity: a concrete script of the class, all hypotheses by computation *)
Module RerunExample.
Import String.
Local Open Scope string_scope.
Local Open Scope list_scope.
Import TsUpdateFacts.Examples.

Definition f7 := text ["exec tshelper echo new"; "cmp stdout g.txt"; "stdout new"; "-- g.txt --"; "old"].
Definition f7' := text ["exec tshelper echo new"; "cmp stdout g.txt"; "stdout new"; "-- g.txt --"; "new"].
Definition st1 : state := fst (setup cfg0 work env0 (parse f7)).
Definition st2 : state := fst (setup (cfg_update cfg0 false) work env0 (parse f7')).
Definition stF : state := r_final (run_script cfg0 (comment (parse f7)) st1).

Example ex_first_run : f_change (run_file_full cfg0 work env0 f7) = Rewritten f7'.
Proof. vm_compute. reflexivity. Qed.

Lemma reaches_plain cfg st l w ws neg name args c :
  tokenise (s_env st) l = Some (w :: ws) -> guard_of w = None ->
  split_neg (w :: ws) = Some (neg, name, args) -> lookup_cmd cfg name = Some c ->
  reaches cfg st l neg c args.
Proof. intros Ht Hg Hs Hl. econstructor; [exact Ht|apply GP_done; exact Hg|exact Hs|exact Hl]. Qed.

Example ex_safe_run : safe_run cfg0 (script_lines (comment (parse f7))) 0 st1 [].
Proof.
  assert (script_lines (comment (parse f7)) = [b "exec tshelper echo new"; b "cmp stdout g.txt"; b "stdout new"]) as -> by (vm_compute; reflexivity).
  cbn [safe_run]. change (is_comment (b "exec tshelper echo new")) with false. cbv iota.
  exists []. split.
  { eapply LC_free; [eapply (reaches_plain _ _ _ (b "exec") [b "tshelper"; b "echo"; b "new"]); vm_compute; reflexivity|vm_compute; reflexivity]. }
  destruct (run_line cfg0 (at_line 1 false st1) (b "exec tshelper echo new")) as [s1|s1|s1] eqn:E1; try exact I.
  assert (s1 = outcome_state (run_line cfg0 (at_line 1 false st1) (b "exec tshelper echo new"))) as Hs1 by (rewrite E1; reflexivity).
  assert (s_stopped s1 = false) as -> by (rewrite Hs1; vm_compute; reflexivity).
  cbn [safe_run]. change (is_comment (b "cmp stdout g.txt")) with false. cbv iota.
  exists [b "g.txt"]. split.
  { eapply LC_cmp with (neg := false) (c := CBuiltin cmp_name) (args := [b "stdout"; b "g.txt"]).
    - eapply (reaches_plain _ _ _ (b "cmp") [b "stdout"; b "g.txt"]); try rewrite Hs1; vm_compute; reflexivity.
    - split; [reflexivity|]. split; [reflexivity|]. exists (b "stdout"), (b "g.txt").
      split; [reflexivity|]. split; [reflexivity|]. split; rewrite Hs1; vm_compute; reflexivity.
    - intros []. }
  destruct (run_line cfg0 (at_line 2 false s1) (b "cmp stdout g.txt")) as [s2|s2|s2] eqn:E2; try exact I.
  assert (s2 = outcome_state (run_line cfg0 (at_line 2 false s1) (b "cmp stdout g.txt"))) as Hs2 by (rewrite E2; reflexivity).
  assert (s_stopped s2 = false) as -> by (rewrite Hs2, Hs1; vm_compute; reflexivity).
  cbn [safe_run]. change (is_comment (b "stdout new")) with false. cbv iota.
  exists [b "g.txt"]. split.
  { eapply LC_free; [eapply (reaches_plain _ _ _ (b "stdout") [b "new"]); try rewrite Hs2; try rewrite Hs1; vm_compute; reflexivity|vm_compute; reflexivity]. }
  destruct (run_line cfg0 (at_line 3 false s2) (b "stdout new")) as [s3|s3|s3]; try exact I.
  destruct (s_stopped s3); exact I.
Qed.

Example ex_golden_tables : golden_tables st1 (s_fs st2) (s_updates stF).
Proof.
  intros p e H.
  assert (s_files st1 = [(b "/w/g.txt", b "g.txt")]) as Hf by (vm_compute; reflexivity).
  rewrite Hf in H. cbn [assoc_get] in H.
  destruct (bytes_eqb p (b "/w/g.txt")) eqn:E; [|discriminate].
  apply bytes_eqb_eq in E. subst p. inversion H; subst e.
  eexists. split; vm_compute; reflexivity.
Qed.

(* every hypothesis of the restricted fix-point holds of this file: its second run passes *)
Example ex_rerun :
  r_verdict (run_archive (cfg_update cfg0 false) work env0 (parse f7')) = Pass.
Proof.
  rewrite (rerun_fixpoint_restricted_partial cfg0 work env0 (parse f7) (parse f7') st1 st2 stF).
  - reflexivity.
  - reflexivity.
  - vm_compute. reflexivity.
  - vm_compute. reflexivity.
  - vm_compute. reflexivity.
  - vm_compute. reflexivity.
  - vm_compute. reflexivity.
  - vm_compute. reflexivity.
  - vm_compute. reflexivity.
  - exact ex_golden_tables.
  - exact ex_safe_run.
Qed.

(* the executable check accepts this file, so the theorem applies to it *)
Example ex_covered : rerun_covered cfg0 work env0 f7 f7' = true.
Proof. vm_compute. reflexivity. Qed.
Example ex_rerun_by_theorem :
  r_verdict (f_run (run_file_full (cfg_update cfg0 false) work env0 f7')) = Pass
  /\ f_change (run_file_full (cfg_update cfg0 false) work env0 f7') = Untouched.
Proof. apply (rerun_fixpoint_covered cfg0 work env0 f7 f7'); [reflexivity|vm_compute; reflexivity|exact ex_covered]. Qed.
(* ... and rejects the witness of the unrestricted statement (one entry compared twice) *)
Example ex_not_covered : rerun_covered cfg0 work env0 f6 f6' = false.
Proof. vm_compute. reflexivity. Qed.
End RerunExample.

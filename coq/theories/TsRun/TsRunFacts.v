(* Proofs about the testscript interpreter model: the interpreter (TsRun.v) against the
   declarative reading of the property (TsSpec.v).  Property theorems are re-exported,
   unchanged, by Properties/C01.v. *)
From Coq Require Import List Bool Arith NArith Lia.
From Coq.Strings Require Import Byte.
From GI Require Import Lib.Bytes Lib.BytesFacts Gen.TsRunConsts Txtar.Txtar
  TsRun.TsFs TsRun.TsState TsRun.TsCmds TsRun.TsRun TsRun.TsSpec.
Import ListNotations.

(* ---- small facts *)

Lemma mem_bytes_In x l : mem_bytes x l = true <-> In x l.
Proof.
  induction l as [|y l IH]; simpl.
  - split; [discriminate|tauto].
  - rewrite orb_true_iff, IH, bytes_eqb_eq. split; intros [H|H]; auto.
Qed.

Lemma eqb_true_eq (a b : bool) : Bool.eqb a b = true -> a = b.
Proof. destruct a, b; simpl; congruence. Qed.

Lemma eqb_false_negb (a b : bool) : Bool.eqb a b = false -> a = negb b.
Proof. destruct a, b; simpl; congruence. Qed.

(* ---- one line: interpreter = declarative reading *)

Lemma run_neg_split cfg st cw :
  run_neg cfg st cw =
  match split_neg cw with
  | Some (neg, name, args) =>
      match lookup_cmd cfg name with
      | Some c => cmd_sem cfg c neg args st
      | None => Failed st
      end
  | None => Failed st
  end.
Proof.
  destruct cw as [|w rest]; [reflexivity|].
  unfold run_neg, split_neg. destruct (bytes_eqb w bang).
  - destruct rest as [|n a]; reflexivity.
  - reflexivity.
Qed.

Lemma guards_pass_run cfg st words cw :
  guards_pass cfg st words cw -> run_guards cfg st words = run_neg cfg st cw.
Proof.
  induction 1 as [w rest Hg | w want c rest out Hg Hne Hc Hp IH].
  - simpl. rewrite Hg. reflexivity.
  - simpl. rewrite Hg. destruct rest as [|r0 rest']; [congruence|].
    rewrite Hc. rewrite eqb_reflx. exact IH.
Qed.

Lemma guards_block_run cfg st words :
  guards_block cfg st words -> run_guards cfg st words = Done st.
Proof.
  induction 1 as [w want c rest Hg Hne Hc | w want c rest Hg Hne Hc Hb IH].
  - simpl. rewrite Hg. destruct rest as [|r0 rest']; [congruence|].
    rewrite Hc. destruct want; reflexivity.
  - simpl. rewrite Hg. destruct rest as [|r0 rest']; [congruence|].
    rewrite Hc. rewrite eqb_reflx. exact IH.
Qed.

Lemma guards_block_inv cfg st w rest :
  guards_block cfg st (w :: rest) ->
  exists want c, guard_of w = Some (want, c) /\ rest <> [] /\
    (cond_eval cfg st c = CondVal (negb want)
     \/ (cond_eval cfg st c = CondVal want /\ guards_block cfg st rest)).
Proof. inversion 1; subst; eauto 10. Qed.

Lemma guards_pass_inv cfg st w rest cw :
  guards_pass cfg st (w :: rest) cw ->
  (guard_of w = None /\ cw = w :: rest)
  \/ exists want c, guard_of w = Some (want, c) /\ rest <> [] /\
        cond_eval cfg st c = CondVal want /\ guards_pass cfg st rest cw.
Proof. inversion 1; subst; eauto 10. Qed.

Lemma negb_neq (b : bool) : negb b <> b.
Proof. destruct b; discriminate. Qed.

(* what run_guards does, read backwards *)
Lemma run_guards_inv cfg st words :
  words <> [] ->
  guards_block cfg st words /\ run_guards cfg st words = Done st
  \/ (exists cw, guards_pass cfg st words cw /\ run_guards cfg st words = run_neg cfg st cw)
  \/ (run_guards cfg st words = Failed st /\ ~ guards_block cfg st words
      /\ forall cw, ~ guards_pass cfg st words cw).
Proof.
  induction words as [|w rest IH]; [congruence|]. intros _.
  simpl. destruct (guard_of w) as [[want c]|] eqn:Hg.
  - destruct rest as [|r0 rest'].
    + right. right. split; [reflexivity|]. split.
      * intros H. apply guards_block_inv in H. destruct H as [? [? [_ [Hne _]]]]. congruence.
      * intros cw H. apply guards_pass_inv in H.
        destruct H as [[Hn _]|[? [? [_ [Hne _]]]]]; congruence.
    + destruct (cond_eval cfg st c) as [b|] eqn:Hc.
      * destruct (Bool.eqb b want) eqn:Eb.
        -- apply eqb_true_eq in Eb. subst b.
           destruct IH as [[Hb Hr]|[[cw [Hp Hr]]|[Hr [Hnb Hnp]]]]; [discriminate| | |].
           ++ left. split; [|exact Hr]. eapply GB_later; eauto. discriminate.
           ++ right. left. exists cw. split; [|exact Hr]. eapply GP_step; eauto. discriminate.
           ++ right. right. split; [exact Hr|]. split.
              ** intros H. apply guards_block_inv in H.
                 destruct H as [want' [c' [Hg' [_ [Hc'|[_ Hb']]]]]].
                 --- rewrite Hg in Hg'. inversion Hg'; subst. rewrite Hc in Hc'. inversion Hc' as [E].
                     symmetry in E. exact (negb_neq _ E).
                 --- exact (Hnb Hb').
              ** intros cw H. apply guards_pass_inv in H.
                 destruct H as [[Hn _]|[want' [c' [_ [_ [_ Hp']]]]]]; [congruence|].
                 exact (Hnp _ Hp').
        -- apply eqb_false_negb in Eb. subst b.
           left. split; [|reflexivity]. eapply GB_here; eauto. discriminate.
      * right. right. split; [reflexivity|]. split.
        -- intros H. apply guards_block_inv in H.
           destruct H as [want' [c' [Hg' [_ [Hc'|[Hc' _]]]]]]; rewrite Hg in Hg'; inversion Hg'; subst; congruence.
        -- intros cw H. apply guards_pass_inv in H.
           destruct H as [[Hn _]|[want' [c' [Hg' [_ [Hc' _]]]]]]; [congruence|].
           rewrite Hg in Hg'; inversion Hg'; subst; congruence.
  - right. left. exists (w :: rest). split; [apply GP_done; exact Hg|reflexivity].
Qed.

(* the two guard predicates exclude each other and guards_pass is functional *)
Lemma guards_block_not_pass cfg st words cw :
  guards_block cfg st words -> guards_pass cfg st words cw -> False.
Proof.
  intros Hb. revert cw. induction Hb as [w want c rest Hg Hne Hc | w want c rest Hg Hne Hc Hb IH]; intros cw Hp.
  - apply guards_pass_inv in Hp. destruct Hp as [[Hn _]|[want' [c' [Hg' [_ [Hc' _]]]]]]; [congruence|].
    rewrite Hg in Hg'. inversion Hg'; subst. rewrite Hc in Hc'. inversion Hc' as [E]. exact (negb_neq _ E).
  - apply guards_pass_inv in Hp. destruct Hp as [[Hn _]|[want' [c' [_ [_ [_ Hp']]]]]]; [congruence|].
    exact (IH _ Hp').
Qed.

Lemma guards_pass_fun cfg st words cw1 cw2 :
  guards_pass cfg st words cw1 -> guards_pass cfg st words cw2 -> cw1 = cw2.
Proof.
  intros H1. revert cw2. induction H1 as [w rest Hg | w want c rest out Hg Hne Hc Hp IH]; intros cw2 H2.
  - apply guards_pass_inv in H2. destruct H2 as [[_ E]|[? [? [Hg' _]]]]; [auto|congruence].
  - apply guards_pass_inv in H2. destruct H2 as [[Hn _]|[? [? [_ [_ [_ Hp']]]]]]; [congruence|].
    exact (IH _ Hp').
Qed.

Lemma guards_pass_nonempty cfg st words cw : guards_pass cfg st words cw -> words <> [].
Proof. destruct 1; discriminate. Qed.
Lemma guards_block_nonempty cfg st words : guards_block cfg st words -> words <> [].
Proof. destruct 1; discriminate. Qed.

(* a command that the generated table says rejects "!" never returns normally under "!" *)
Lemma builtin_rejects_neg cfg name args st :
  In name neg_rejecting_cmds -> builtin_sem cfg name true args st = Failed st.
Proof.
  intros H. unfold builtin_sem. apply mem_bytes_In in H. rewrite H. reflexivity.
Qed.

Lemma cmd_done_accepts cfg c args st st' :
  cmd_sem cfg c true args st = Done st' -> accepts_neg c.
Proof.
  destruct c as [name|name|k]; simpl; auto.
  intros H Hin. rewrite builtin_rejects_neg in H by exact Hin. discriminate.
Qed.

Lemma cmd_skip_accepts cfg c args st st' :
  cmd_sem cfg c true args st = SkipNow st' -> accepts_neg c.
Proof.
  destruct c as [name|name|k]; simpl; auto.
  intros H Hin. rewrite builtin_rejects_neg in H by exact Hin. discriminate.
Qed.

(* the outcome of a line whose guards hold *)
Lemma run_line_reaches cfg st line neg c args :
  reaches cfg st line neg c args -> run_line cfg st line = cmd_sem cfg c neg args st.
Proof.
  intros [words cw neg' name args' c' Ht Hp Hs Hl].
  unfold run_line. rewrite Ht.
  destruct words as [|w ws]; [exfalso; eapply guards_pass_nonempty; eauto|].
  rewrite (guards_pass_run _ _ _ _ Hp), run_neg_split, Hs, Hl. reflexivity.
Qed.

Lemma reaches_fun cfg st line n1 c1 a1 n2 c2 a2 :
  reaches cfg st line n1 c1 a1 -> reaches cfg st line n2 c2 a2 -> n1 = n2 /\ c1 = c2 /\ a1 = a2.
Proof.
  intros [w1 cw1 ? ? ? ? Ht1 Hp1 Hs1 Hl1] [w2 cw2 ? ? ? ? Ht2 Hp2 Hs2 Hl2].
  rewrite Ht1 in Ht2. inversion Ht2; subst w2.
  pose proof (guards_pass_fun _ _ _ _ _ Hp1 Hp2) as E. subst cw2.
  rewrite Hs1 in Hs2. inversion Hs2; subst. rewrite Hl1 in Hl2. inversion Hl2. auto.
Qed.

(* an inversion of run_line covering every case *)
Lemma run_line_cases cfg st line :
  (tokenise (s_env st) line = None /\ run_line cfg st line = Failed st)
  \/ (tokenise (s_env st) line = Some [] /\ run_line cfg st line = Done st)
  \/ (exists words, tokenise (s_env st) line = Some words /\ guards_block cfg st words
                    /\ run_line cfg st line = Done st)
  \/ (exists neg c args, reaches cfg st line neg c args
                         /\ run_line cfg st line = cmd_sem cfg c neg args st)
  \/ (run_line cfg st line = Failed st
      /\ (forall neg c args, ~ reaches cfg st line neg c args)
      /\ exists words, tokenise (s_env st) line = Some words /\ words <> []
                       /\ ~ guards_block cfg st words).
Proof.
  unfold run_line. destruct (tokenise (s_env st) line) as [words|] eqn:Ht; [|left; auto].
  destruct words as [|w ws]; [right; left; auto|].
  right. right.
  destruct (run_guards_inv cfg st (w :: ws)) as [[Hb Hr]|[[cw [Hp Hr]]|[Hr [Hnb Hnp]]]]; [discriminate| | |].
  - left. exists (w :: ws). auto.
  - right. rewrite Hr, run_neg_split.
    destruct (split_neg cw) as [[[neg name] args]|] eqn:Hs.
    + destruct (lookup_cmd cfg name) as [c|] eqn:Hl.
      * left. exists neg, c, args. split; [|reflexivity]. econstructor; eauto.
      * right. split; [reflexivity|]. split.
        -- intros neg' c' args' [w2 cw2 ? name2 ? ? Ht2 Hp2 Hs2 Hl2].
           rewrite Ht in Ht2. inversion Ht2; subst w2.
           pose proof (guards_pass_fun _ _ _ _ _ Hp Hp2) as E. subst cw2.
           rewrite Hs in Hs2. inversion Hs2; subst. congruence.
        -- exists (w :: ws). split; [reflexivity|]. split; [discriminate|].
           intros Hb. eapply guards_block_not_pass; eauto.
    + right. split; [reflexivity|]. split.
      * intros neg' c' args' [w2 cw2 ? name2 ? ? Ht2 Hp2 Hs2 Hl2].
        rewrite Ht in Ht2. inversion Ht2; subst w2.
        pose proof (guards_pass_fun _ _ _ _ _ Hp Hp2) as E. subst cw2. congruence.
      * exists (w :: ws). split; [reflexivity|]. split; [discriminate|].
        intros Hb. eapply guards_block_not_pass; eauto.
  - right. right. split; [exact Hr|]. split.
    + intros neg' c' args' [w2 cw2 ? name2 ? ? Ht2 Hp2 Hs2 Hl2].
      rewrite Ht in Ht2. inversion Ht2; subst w2. eapply Hnp; eauto.
    + exists (w :: ws). split; [reflexivity|]. split; [discriminate|exact Hnb].
Qed.

Lemma demand_met_run cfg st line st' :
  demand_met cfg st line st' -> run_line cfg st line = Done st'.
Proof.
  intros [Ht | words Ht Hb | neg c args st'' Hr Hacc Hc].
  - unfold run_line. rewrite Ht. reflexivity.
  - unfold run_line. rewrite Ht.
    destruct words as [|w ws]; [exfalso; eapply guards_block_nonempty; eauto|].
    apply guards_block_run. exact Hb.
  - rewrite (run_line_reaches _ _ _ _ _ _ Hr). exact Hc.
Qed.

Lemma skip_met_run cfg st line st' :
  skip_met cfg st line st' -> run_line cfg st line = SkipNow st'.
Proof.
  intros [neg c args st'' Hr Hacc Hc]. rewrite (run_line_reaches _ _ _ _ _ _ Hr). exact Hc.
Qed.

Lemma run_done_demand_met cfg st line st' :
  run_line cfg st line = Done st' -> demand_met cfg st line st'.
Proof.
  intros H.
  destruct (run_line_cases cfg st line) as [[Ht Hr]|[[Ht Hr]|[[words [Ht [Hb Hr]]]|[[neg [c [args [Hreach Hr]]]]|[Hr _]]]]];
    rewrite Hr in H.
  - discriminate.
  - inversion H; subst. apply DM_blank. exact Ht.
  - inversion H; subst. eapply DM_guard; eauto.
  - eapply DM_cmd; eauto. intros ->. eapply cmd_done_accepts; eauto.
  - discriminate.
Qed.

Lemma run_skip_skip_met cfg st line st' :
  run_line cfg st line = SkipNow st' -> skip_met cfg st line st'.
Proof.
  intros H.
  destruct (run_line_cases cfg st line) as [[Ht Hr]|[[Ht Hr]|[[words [Ht [Hb Hr]]]|[[neg [c [args [Hreach Hr]]]]|[Hr _]]]]];
    rewrite Hr in H; try discriminate.
  eapply SM_cmd; eauto. intros ->. eapply cmd_skip_accepts; eauto.
Qed.

Theorem line_done_iff cfg st line st' :
  run_line cfg st line = Done st' <-> demand_met cfg st line st'.
Proof. split; [apply run_done_demand_met|apply demand_met_run]. Qed.

Theorem line_skip_iff cfg st line st' :
  run_line cfg st line = SkipNow st' <-> skip_met cfg st line st'.
Proof. split; [apply run_skip_skip_met|apply skip_met_run]. Qed.

Theorem line_failed_iff cfg st line :
  (exists st', run_line cfg st line = Failed st') <-> unmet cfg st line.
Proof.
  split.
  - intros [st' H]. split; intros [s Hs].
    + apply demand_met_run in Hs. congruence.
    + apply skip_met_run in Hs. congruence.
  - intros [Hd Hs]. destruct (run_line cfg st line) as [s|s|s] eqn:E.
    + exfalso. apply Hd. exists s. apply run_done_demand_met. exact E.
    + exists s. reflexivity.
    + exfalso. apply Hs. exists s. apply run_skip_skip_met. exact E.
Qed.

Lemma unmet_run cfg st line :
  unmet cfg st line -> run_line cfg st line = Failed (line_effects cfg st line).
Proof.
  intros H. apply line_failed_iff in H. destruct H as [s H]. unfold line_effects. rewrite H. reflexivity.
Qed.

Lemma demand_met_fun cfg st line s1 s2 : demand_met cfg st line s1 -> demand_met cfg st line s2 -> s1 = s2.
Proof. intros H1 H2. apply demand_met_run in H1. apply demand_met_run in H2. congruence. Qed.

(* ---- the script loop *)

Ltac splits := repeat match goal with |- _ /\ _ => split end.

Lemma run_lines_failed_flag cfg ls n st :
  fst (fst (run_lines cfg ls n true st)) = EFail.
Proof.
  revert n st. induction ls as [|l ls IH]; intros n st; simpl; [reflexivity|].
  destruct (is_comment l); [apply IH|].
  destruct (run_line cfg (at_line (S n) true st) l) as [s|s|s].
  - destruct (s_stopped s); [reflexivity|apply IH].
  - destruct (c_continue cfg); [|reflexivity].
    destruct (s_stopped s); [reflexivity|].
    specialize (IH (S n) s). destruct (run_lines cfg ls (S n) true s) as [[k s'] f]. exact IH.
  - reflexivity.
Qed.

(* PASS *)
Lemma run_lines_pass cfg ls n st stF fl :
  run_lines cfg ls n false st = (EPass, stF, fl) -> all_met cfg ls n false st stF /\ fl = [].
Proof.
  revert n st. induction ls as [|l ls IH]; intros n st; simpl.
  - intros H. inversion H; subst. split; [constructor|reflexivity].
  - destruct (is_comment l) eqn:Hc.
    + intros H. apply IH in H. destruct H as [H ->]. split; [|reflexivity]. apply AM_comment; assumption.
    + destruct (run_line cfg (at_line (S n) false st) l) as [s|s|s] eqn:Hr.
      * apply run_done_demand_met in Hr.
        destruct (s_stopped s) eqn:Hs.
        -- intros H. inversion H; subst. split; [|reflexivity]. eapply AM_stop; eauto.
        -- intros H. apply IH in H. destruct H as [H ->]. split; [|reflexivity]. eapply AM_line; eauto.
      * destruct (c_continue cfg); [|discriminate].
        destruct (s_stopped s); [discriminate|].
        pose proof (run_lines_failed_flag cfg ls (S n) s) as Hf.
        destruct (run_lines cfg ls (S n) true s) as [[k s'] f]. simpl in Hf. subst k. discriminate.
      * discriminate.
Qed.

Lemma all_met_run_gen cfg ls n f st stF :
  all_met cfg ls n f st stF -> run_lines cfg ls n f st = (end_of f, stF, []).
Proof.
  induction 1 as [n f st | l ls n f st stF Hc Ha IH | l ls n f st st1 stF Hc Hd Hs Ha IH | l ls n f st st1 Hc Hd Hs]; simpl.
  - reflexivity.
  - rewrite Hc. exact IH.
  - rewrite Hc. rewrite (demand_met_run _ _ _ _ Hd), Hs. exact IH.
  - rewrite Hc. rewrite (demand_met_run _ _ _ _ Hd), Hs. reflexivity.
Qed.

Lemma all_met_run cfg ls n st stF :
  all_met cfg ls n false st stF -> run_lines cfg ls n false st = (EPass, stF, []).
Proof. apply all_met_run_gen. Qed.

Theorem run_lines_pass_iff cfg ls n st stF fl :
  run_lines cfg ls n false st = (EPass, stF, fl) <-> all_met cfg ls n false st stF /\ fl = [].
Proof.
  split; [apply run_lines_pass|]. intros [H ->]. apply all_met_run. exact H.
Qed.

Lemma mk_verdict_pass k f : mk_verdict k f = Pass <-> k = EPass.
Proof. destruct k; simpl; split; congruence. Qed.
Lemma mk_verdict_skip k f : mk_verdict k f = Skip <-> k = ESkip.
Proof. destruct k; simpl; split; congruence. Qed.
Lemma mk_verdict_fail k f n : mk_verdict k f = Fail n <-> k = EFail /\ hd 0 f = n.
Proof.
  destruct k; simpl; split; intros H; try discriminate; try (destruct H; discriminate).
  - inversion H. auto.
  - destruct H as [_ H]. congruence.
Qed.

(* verdict_pass_iff *)
Theorem verdict_pass_iff cfg text st0 :
  r_verdict (run_script cfg text st0) = Pass
  <-> exists stF, all_met cfg (script_lines text) 0 false st0 stF.
Proof.
  unfold run_script.
  destruct (run_lines cfg (script_lines text) 0 false st0) as [[k s] f] eqn:E. simpl.
  rewrite mk_verdict_pass. split.
  - intros ->. apply run_lines_pass in E. exists s. tauto.
  - intros [stF H]. apply all_met_run in H. rewrite H in E. inversion E. reflexivity.
Qed.

(* the same with the final state and the (empty) list of failing lines *)
Theorem run_pass_iff cfg text st0 stF :
  run_script cfg text st0 = {| r_verdict := Pass; r_final := stF; r_fail_lines := [] |}
  <-> all_met cfg (script_lines text) 0 false st0 stF.
Proof.
  unfold run_script.
  destruct (run_lines cfg (script_lines text) 0 false st0) as [[k s] f] eqn:E. split.
  - intros H. inversion H as [[Hv Hs Hf]]. subst. apply mk_verdict_pass in Hv. subst k.
    apply run_lines_pass in E. tauto.
  - intros H. apply all_met_run in H. rewrite H in E. inversion E; subst. reflexivity.
Qed.

(* FAIL at the first unmet line, without ContinueOnError *)
Lemma run_lines_fail_first cfg ls n st stF fl :
  c_continue cfg = false ->
  run_lines cfg ls n false st = (EFail, stF, fl) ->
  exists pre l post st1,
    ls = pre ++ l :: post /\ lines_met cfg pre n false st st1 /\ is_comment l = false
    /\ unmet cfg (at_line (S (n + length pre)) false st1) l
    /\ stF = line_effects cfg (at_line (S (n + length pre)) false st1) l
    /\ fl = [S (n + length pre)].
Proof.
  intros Hcont. revert n st. induction ls as [|l ls IH]; intros n st; simpl.
  - discriminate.
  - destruct (is_comment l) eqn:Hc.
    + intros H. apply IH in H. destruct H as [pre [l0 [post [st1 [-> [Hm [Hc0 [Hu [-> ->]]]]]]]]].
      exists (l :: pre), l0, post, st1. simpl. rewrite <- !plus_n_Sm.
      splits; auto. apply LM_comment; assumption.
    + destruct (run_line cfg (at_line (S n) false st) l) as [s|s|s] eqn:Hr.
      * destruct (s_stopped s) eqn:Hs; [discriminate|].
        intros H. apply IH in H. destruct H as [pre [l0 [post [st1 [-> [Hm [Hc0 [Hu [-> ->]]]]]]]]].
        exists (l :: pre), l0, post, st1. simpl. rewrite <- !plus_n_Sm.
        splits; auto. eapply LM_line; eauto. apply run_done_demand_met. exact Hr.
      * rewrite Hcont. intros H. inversion H; subst.
        exists [], l, ls, st. simpl. rewrite Nat.add_0_r.
        splits; auto.
        -- constructor.
        -- apply line_failed_iff. eauto.
        -- unfold line_effects. rewrite Hr. reflexivity.
      * discriminate.
Qed.

Lemma lines_met_fail_run_gen cfg pre n f st st1 :
  lines_met cfg pre n f st st1 ->
  forall l post, c_continue cfg = false -> is_comment l = false ->
  unmet cfg (at_line (S (n + length pre)) f st1) l ->
  run_lines cfg (pre ++ l :: post) n f st
  = (EFail, line_effects cfg (at_line (S (n + length pre)) f st1) l, [S (n + length pre)]).
Proof.
  induction 1 as [n f st | l0 ls n f st st' Hc0 Hm IH | l0 ls n f st st2 st' Hc0 Hd Hs Hm IH];
    intros l post Hcont Hc Hu; simpl.
  - rewrite Hc. simpl in Hu. rewrite Nat.add_0_r in *. rewrite (unmet_run _ _ _ Hu), Hcont. reflexivity.
  - rewrite Hc0. simpl in Hu. rewrite <- plus_n_Sm in *. apply IH; auto.
  - rewrite Hc0. rewrite (demand_met_run _ _ _ _ Hd), Hs. simpl in Hu. rewrite <- plus_n_Sm in *. apply IH; auto.
Qed.

Lemma lines_met_fail_run cfg pre l post n st st1 :
  c_continue cfg = false ->
  lines_met cfg pre n false st st1 -> is_comment l = false ->
  unmet cfg (at_line (S (n + length pre)) false st1) l ->
  run_lines cfg (pre ++ l :: post) n false st
  = (EFail, line_effects cfg (at_line (S (n + length pre)) false st1) l, [S (n + length pre)]).
Proof. intros Hcont Hm Hc Hu. apply lines_met_fail_run_gen; auto. Qed.

(* verdict_fail_first *)
Theorem verdict_fail_first cfg text st0 n stF :
  c_continue cfg = false ->
  (run_script cfg text st0 = {| r_verdict := Fail n; r_final := stF; r_fail_lines := [n] |}
   <-> exists pre l post st1,
         script_lines text = pre ++ l :: post /\ n = S (length pre)
         /\ lines_met cfg pre 0 false st0 st1 /\ is_comment l = false
         /\ unmet cfg (at_line n false st1) l
         /\ stF = line_effects cfg (at_line n false st1) l).
Proof.
  intros Hcont. unfold run_script.
  destruct (run_lines cfg (script_lines text) 0 false st0) as [[k s] f] eqn:E. split.
  - intros H. inversion H as [[Hv Hs Hf]]. subst. apply mk_verdict_fail in Hv. destruct Hv as [-> _].
    apply run_lines_fail_first in E; [|exact Hcont].
    destruct E as [pre [l [post [st1 [Hl [Hm [Hc [Hu [-> Hfl]]]]]]]]]. simpl in *.
    inversion Hfl; subst. exists pre, l, post, st1. auto 10.
  - intros [pre [l [post [st1 [Hl [-> [Hm [Hc [Hu ->]]]]]]]]].
    rewrite Hl in E. rewrite (lines_met_fail_run cfg pre l post 0 st0 st1 Hcont Hm Hc Hu) in E.
    simpl in E. inversion E; subst. reflexivity.
Qed.

(* without ContinueOnError a failing run reports exactly one FAIL line: the verdict's *)
Theorem fail_line_logged cfg text st0 n :
  c_continue cfg = false ->
  r_verdict (run_script cfg text st0) = Fail n -> r_fail_lines (run_script cfg text st0) = [n].
Proof.
  intros Hcont. unfold run_script.
  destruct (run_lines cfg (script_lines text) 0 false st0) as [[k s] f] eqn:E. simpl.
  intros Hv. apply mk_verdict_fail in Hv. destruct Hv as [-> Hh].
  apply run_lines_fail_first in E; [|exact Hcont].
  destruct E as [pre [l [post [st1 [_ [_ [_ [_ [_ ->]]]]]]]]]. simpl in Hh. subst. reflexivity.
Qed.

(* no later line has any effect: the lines behind the failing one are irrelevant *)
Theorem later_lines_irrelevant cfg pre l post post' n st st1 :
  c_continue cfg = false ->
  lines_met cfg pre n false st st1 -> is_comment l = false ->
  unmet cfg (at_line (S (n + length pre)) false st1) l ->
  run_lines cfg (pre ++ l :: post) n false st = run_lines cfg (pre ++ l :: post') n false st.
Proof.
  intros Hcont Hm Hc Hu.
  rewrite (lines_met_fail_run cfg pre l post n st st1 Hcont Hm Hc Hu).
  rewrite (lines_met_fail_run cfg pre l post' n st st1 Hcont Hm Hc Hu). reflexivity.
Qed.

(* ---- ContinueOnError *)

Lemma exec_all_run cfg ls n f st k stF U :
  c_continue cfg = true -> exec_all cfg ls n f st k stF U -> run_lines cfg ls n f st = (k, stF, U).
Proof.
  intros Hcont.
  induction 1 as [n f st | l ls n f st k stF U Hc He IH | l ls n f st st1 k stF U Hc Hd Hs He IH
                 | l ls n f st st1 Hc Hd Hs | l ls n f st st1 k stF U Hc Hu -> Hs He IH
                 | l ls n f st st1 Hc Hu -> Hs | l ls n f st st1 Hc Hk]; simpl.
  - reflexivity.
  - rewrite Hc. exact IH.
  - rewrite Hc, (demand_met_run _ _ _ _ Hd), Hs. exact IH.
  - rewrite Hc, (demand_met_run _ _ _ _ Hd), Hs. reflexivity.
  - rewrite Hc, (unmet_run _ _ _ Hu), Hcont, Hs, IH. reflexivity.
  - rewrite Hc, (unmet_run _ _ _ Hu), Hcont, Hs. reflexivity.
  - rewrite Hc, (skip_met_run _ _ _ _ Hk). reflexivity.
Qed.

Lemma run_exec_all cfg ls n f st :
  c_continue cfg = true ->
  exec_all cfg ls n f st (fst (fst (run_lines cfg ls n f st))) (snd (fst (run_lines cfg ls n f st)))
           (snd (run_lines cfg ls n f st)).
Proof.
  intros Hcont. revert n f st. induction ls as [|l ls IH]; intros n f st; simpl.
  - constructor.
  - destruct (is_comment l) eqn:Hc.
    + apply EA_comment; [exact Hc|apply IH].
    + destruct (run_line cfg (at_line (S n) f st) l) as [s|s|s] eqn:Hr.
      * apply run_done_demand_met in Hr. destruct (s_stopped s) eqn:Hs; simpl.
        -- eapply EA_met_stop; eauto.
        -- eapply EA_met; eauto.
      * assert (unmet cfg (at_line (S n) f st) l) as Hu by (apply line_failed_iff; eauto).
        assert (s = line_effects cfg (at_line (S n) f st) l) as Es by (unfold line_effects; rewrite Hr; reflexivity).
        rewrite Hcont. destruct (s_stopped s) eqn:Hs; simpl.
        -- eapply EA_unmet_stop; eauto.
        -- specialize (IH (S n) true s).
           destruct (run_lines cfg ls (S n) true s) as [[k s'] U]. simpl in *.
           eapply EA_unmet; eauto.
      * apply run_skip_skip_met in Hr. simpl. eapply EA_skip; eauto.
Qed.

Theorem continue_iff cfg ls n f st k stF U :
  c_continue cfg = true ->
  (run_lines cfg ls n f st = (k, stF, U) <-> exec_all cfg ls n f st k stF U).
Proof.
  intros Hcont. split.
  - intros H. pose proof (run_exec_all cfg ls n f st Hcont) as He. rewrite H in He. exact He.
  - apply exec_all_run. exact Hcont.
Qed.

Lemma exec_all_kind cfg ls n f st k stF U :
  exec_all cfg ls n f st k stF U -> (k = EFail <-> f = true \/ U <> []).
Proof.
  induction 1 as [n f st | l ls n f st k stF U Hc He IH | l ls n f st st1 k stF U Hc Hd Hs He IH
                 | l ls n f st st1 Hc Hd Hs | l ls n f st st1 k stF U Hc Hu E Hs He IH
                 | l ls n f st st1 Hc Hu E Hs | l ls n f st st1 Hc Hk].
  - destruct f; simpl; split; try tauto; try discriminate. intros [H|H]; congruence.
  - exact IH.
  - exact IH.
  - destruct f; simpl; split; try tauto; try discriminate. intros [H|H]; congruence.
  - split; [intros _; right; discriminate|]. intros _. apply IH. left. reflexivity.
  - split; [intros _; right; discriminate|reflexivity].
  - destruct f; simpl; split; try tauto; try discriminate. intros [H|H]; congruence.
Qed.

(* continue_runs_all: under ContinueOnError the run is the execution of every line (until
   stop, skip or the end), and it fails exactly when some demand was unmet *)
Theorem continue_runs_all cfg text st0 :
  c_continue cfg = true ->
  exists k stF U,
    exec_all cfg (script_lines text) 0 false st0 k stF U
    /\ run_script cfg text st0 = {| r_verdict := mk_verdict k U; r_final := stF; r_fail_lines := U |}
    /\ ((exists n, r_verdict (run_script cfg text st0) = Fail n) <-> U <> [])
    /\ (U <> [] -> r_verdict (run_script cfg text st0) = Fail (hd 0 U)).
Proof.
  intros Hcont. unfold run_script.
  pose proof (run_exec_all cfg (script_lines text) 0 false st0 Hcont) as He.
  destruct (run_lines cfg (script_lines text) 0 false st0) as [[k s] U]. simpl in *.
  exists k, s, U. split; [exact He|]. split; [reflexivity|].
  pose proof (exec_all_kind _ _ _ _ _ _ _ _ He) as Hk.
  split; [split|].
  - intros [n Hn]. apply mk_verdict_fail in Hn. destruct Hn as [Hn _]. apply Hk in Hn.
    destruct Hn as [Hn|Hn]; [discriminate|exact Hn].
  - intros HU. exists (hd 0 U). apply mk_verdict_fail. split; [|reflexivity]. apply Hk. right. exact HU.
  - intros HU. apply mk_verdict_fail. split; [|reflexivity]. apply Hk. right. exact HU.
Qed.

(* ---- stop, skip *)

Lemma lines_met_app_all cfg pre n f st st1 :
  lines_met cfg pre n f st st1 ->
  forall rest stF, all_met cfg rest (n + length pre) f st1 stF -> all_met cfg (pre ++ rest) n f st stF.
Proof.
  induction 1 as [n f st | l0 ls n f st st' Hc0 Hm IH | l0 ls n f st st2 st' Hc0 Hd Hs Hm IH];
    intros rest stF Ha; simpl in *.
  - rewrite Nat.add_0_r in Ha. exact Ha.
  - apply AM_comment; [exact Hc0|]. apply IH. rewrite <- plus_n_Sm in Ha. exact Ha.
  - eapply AM_line; eauto. apply IH. rewrite <- plus_n_Sm in Ha. exact Ha.
Qed.

(* stop_passes: when the lines before it meet their demand, a line that stops the script
   (and meets its own demand) ends the run as passed, whatever follows *)
Theorem stop_passes cfg pre l post st0 st1 st2 :
  lines_met cfg pre 0 false st0 st1 -> is_comment l = false ->
  demand_met cfg (at_line (S (length pre)) false st1) l st2 -> s_stopped st2 = true ->
  run_lines cfg (pre ++ l :: post) 0 false st0 = (EPass, end_bg st2, []).
Proof.
  intros Hm Hc Hd Hs. apply all_met_run.
  eapply lines_met_app_all; [exact Hm|]. simpl. eapply AM_stop; eauto.
Qed.

Lemma lines_met_skip_run cfg pre n f st st1 :
  lines_met cfg pre n f st st1 ->
  forall l post st2, is_comment l = false ->
  skip_met cfg (at_line (S (n + length pre)) f st1) l st2 ->
  run_lines cfg (pre ++ l :: post) n f st = (if f then EFail else ESkip, st2, []).
Proof.
  induction 1 as [n f st | l0 ls n f st st' Hc0 Hm IH | l0 ls n f st st2' st' Hc0 Hd Hs Hm IH];
    intros l post st2 Hc Hk; simpl.
  - rewrite Hc. simpl in Hk. rewrite Nat.add_0_r in Hk. rewrite (skip_met_run _ _ _ _ Hk). reflexivity.
  - rewrite Hc0. simpl in Hk. rewrite <- plus_n_Sm in Hk. apply IH; auto.
  - rewrite Hc0. rewrite (demand_met_run _ _ _ _ Hd), Hs. simpl in Hk. rewrite <- plus_n_Sm in Hk. apply IH; auto.
Qed.

(* skip_skips: when the lines before it meet their demand, a line that leaves through
   T.Skip ends the run as skipped, whatever follows *)
Theorem skip_skips cfg pre l post st0 st1 st2 :
  lines_met cfg pre 0 false st0 st1 -> is_comment l = false ->
  skip_met cfg (at_line (S (length pre)) false st1) l st2 ->
  run_lines cfg (pre ++ l :: post) 0 false st0 = (ESkip, st2, []).
Proof. intros Hm Hc Hk. exact (lines_met_skip_run cfg pre 0 false st0 st1 Hm l post st2 Hc Hk). Qed.

(* ... and, with ContinueOnError, as FAILED once a line has failed (the repaired defect) *)
Theorem skip_after_failure_fails cfg pre l post n st st1 st2 :
  lines_met cfg pre n true st st1 -> is_comment l = false ->
  skip_met cfg (at_line (S (n + length pre)) true st1) l st2 ->
  run_lines cfg (pre ++ l :: post) n true st = (EFail, st2, []).
Proof. intros Hm Hc Hk. exact (lines_met_skip_run cfg pre n true st st1 Hm l post st2 Hc Hk). Qed.

(* the commands themselves *)
Lemma stop_cmd_stops cfg args st :
  length args <= 1 ->
  cmd_sem cfg (CBuiltin [x73; x74; x6f; x70]) false args st = Done (set_stopped st true).
Proof.
  intros H. destruct args as [|a [|b r]]; try reflexivity. simpl in H. lia.
Qed.

Lemma skip_cmd_skips cfg args st :
  length args <= 1 -> s_bg st = [] ->
  cmd_sem cfg (CBuiltin [x73; x6b; x69; x70]) false args st
  = SkipNow (set_bg (set_outerr (set_bg st []) [] []) []).
Proof.
  intros H Hb.
  assert (cmd_sem cfg (CBuiltin [x73; x6b; x69; x70]) false args st = cmd_skip args st) as -> by reflexivity.
  unfold cmd_skip, interrupt_all, wait_all. rewrite Hb. simpl.
  destruct args as [|a [|b r]]; try reflexivity. simpl in H. lia.
Qed.

(* ---- guards, negation, unknown commands *)

(* guard_false_noop *)
Theorem guard_false_noop cfg st line words :
  tokenise (s_env st) line = Some words -> guards_block cfg st words ->
  run_line cfg st line = Done st.
Proof. intros Ht Hb. apply demand_met_run. eapply DM_guard; eauto. Qed.

(* neg_flips_exec: for a foreground exec that testscript does not stop itself, "!" turns
   success into failure and failure into success, with the same effects on the state *)
Theorem neg_flips_exec cfg args st s :
  fg_args args -> exec_times_out cfg args st = false ->
  (cmd_exec cfg true args st = Done s <-> cmd_exec cfg false args st = Failed s)
  /\ (cmd_exec cfg true args st = Failed s <-> cmd_exec cfg false args st = Done s).
Proof.
  intros [Hne Hbg] Hto. unfold cmd_exec. destruct args as [|prog rest]; [congruence|].
  rewrite Hbg. unfold exec_times_out in Hto. destruct (can_start cfg st prog).
  - simpl in Hto.
    destruct (fg_end cfg (helper_run rest (s_in st) (s_env st) (s_cd st) (s_fs st))); [| |discriminate];
      simpl; split; split; intros H; inversion H; reflexivity.
  - split; split; intros H; inversion H; reflexivity.
Qed.

(* neg_does_not_excuse_timeout: a foreground command that testscript stops because the context
   of the run is done fails the line under BOTH polarities, with the same state *)
Theorem neg_does_not_excuse_timeout cfg args st :
  fg_args args -> exec_times_out cfg args st = true ->
  exists s, forall neg, cmd_exec cfg neg args st = Failed s.
Proof.
  intros [Hne Hbg] Hto. unfold cmd_exec. destruct args as [|prog rest]; [congruence|].
  rewrite Hbg. unfold exec_times_out in Hto. apply andb_true_iff in Hto. destruct Hto as [Hc He].
  rewrite Hc.
  destruct (fg_end cfg (helper_run rest (s_in st) (s_env st) (s_cd st) (s_fs st))) eqn:E; try discriminate.
  eexists. intros neg. simpl. reflexivity.
Qed.

(* the deadline reached while a sleeping helper runs in the foreground *)
Lemma sleeper_times_out cfg prog rest st :
  c_deadline cfg = true -> can_start cfg st prog = true ->
  h_sleeper (helper_run rest (s_in st) (s_env st) (s_cd st) (s_fs st)) = true ->
  exec_times_out cfg (prog :: rest) st = true.
Proof.
  intros Hd Hc Hs. unfold exec_times_out, fg_end. rewrite Hc, Hd, Hs. destruct (c_cancelled cfg); reflexivity.
Qed.

(* without a deadline and with a live context nothing is ever stopped by testscript *)
Lemma no_deadline_no_timeout cfg args st :
  c_deadline cfg = false -> c_cancelled cfg = false -> exec_times_out cfg args st = false.
Proof.
  intros Hd Hc. unfold exec_times_out, fg_end. destruct args as [|prog rest]; [reflexivity|].
  rewrite Hd, Hc. simpl. destruct (can_start cfg st prog); [|reflexivity]. simpl.
  destruct (N.eqb _ 0); reflexivity.
Qed.

Lemma exec_is_cmd_exec cfg neg args st :
  ~ (neg = true /\ In [x65; x78; x65; x63] neg_rejecting_cmds) ->
  cmd_sem cfg (CBuiltin [x65; x78; x65; x63]) neg args st = cmd_exec cfg neg args st.
Proof.
  intros H. simpl. unfold builtin_sem.
  destruct (neg && mem_bytes [x65; x78; x65; x63] neg_rejecting_cmds) eqn:E.
  - exfalso. apply H. apply andb_true_iff in E. destruct E as [-> E]. apply mem_bytes_In in E. auto.
  - reflexivity.
Qed.

(* unknown_cmd_fails *)
Theorem unknown_cmd_fails cfg st line words cw neg name args :
  tokenise (s_env st) line = Some words -> guards_pass cfg st words cw ->
  split_neg cw = Some (neg, name, args) -> lookup_cmd cfg name = None ->
  run_line cfg st line = Failed st.
Proof.
  intros Ht Hp Hs Hl. unfold run_line. rewrite Ht.
  destruct words as [|w ws]; [exfalso; eapply guards_pass_nonempty; eauto|].
  rewrite (guards_pass_run _ _ _ _ Hp), run_neg_split, Hs, Hl. reflexivity.
Qed.

Lemma lookup_builtin cfg name :
  In name script_cmd_names -> ~ In name (c_main_cmds cfg) -> lookup_cmd cfg name = Some (CBuiltin name).
Proof.
  intros Hin Hm. unfold lookup_cmd.
  destruct (mem_bytes name (c_main_cmds cfg)) eqn:E; [apply mem_bytes_In in E; tauto|].
  apply mem_bytes_In in Hin. rewrite Hin. reflexivity.
Qed.

(* neg_unsupported_fails: for exactly the commands the generated table lists, a line
   `! cmd ...` whose guards hold fails and changes nothing *)
Theorem neg_unsupported_fails cfg st line name args :
  In name neg_rejecting_cmds ->
  reaches cfg st line true (CBuiltin name) args ->
  run_line cfg st line = Failed st.
Proof.
  intros Hin Hr. rewrite (run_line_reaches _ _ _ _ _ _ Hr). simpl. apply builtin_rejects_neg. exact Hin.
Qed.

(* every key of the table that rejects "!" is a key of scriptCmds *)
Lemma neg_rejecting_are_cmds : forall name, In name neg_rejecting_cmds -> In name script_cmd_names.
Proof.
  assert (forallb (fun n => mem_bytes n script_cmd_names) neg_rejecting_cmds = true) as H by reflexivity.
  intros name Hin. rewrite forallb_forall in H. apply mem_bytes_In. apply H. exact Hin.
Qed.

(* ---- cmd/testscript *)

Theorem cli_exit_iff cfg batch :
  cli_exit cfg batch = 0%N <->
  forall j, In j batch -> forall n, r_verdict (run_file cfg (j_work j) (j_env j) (j_file j)) <> Fail n.
Proof.
  unfold cli_exit, batch_verdicts.
  destruct (existsb is_fail _) eqn:E.
  - split; [discriminate|]. intros H. exfalso.
    apply existsb_exists in E. destruct E as [v [Hin Hv]].
    apply in_map_iff in Hin. destruct Hin as [j [Hj Hin]].
    destruct v; try discriminate. apply (H j Hin line). exact Hj.
  - split; [|reflexivity]. intros _ j Hin n Hv.
    assert (existsb is_fail (map (fun j => r_verdict (run_file cfg (j_work j) (j_env j) (j_file j))) batch) = true) as C.
    { apply existsb_exists. exists (Fail n). split; [|reflexivity].
      apply in_map_iff. exists j. split; [exact Hv|exact Hin]. }
    rewrite C in E. discriminate.
Qed.

Theorem cli_exit_01 cfg batch : cli_exit cfg batch = 0%N \/ cli_exit cfg batch = 1%N.
Proof. unfold cli_exit. destruct (existsb _ _); auto. Qed.

(* ---- Examples: the hypotheses of the theorems above are satisfiable, on concrete scripts *)
Module Examples.
Import String.
Local Open Scope string_scope.
Local Open Scope list_scope.
Definition b (s : string) : bytes := list_byte_of_string s.
Definition nl : string := String (Ascii.ascii_of_nat 10) EmptyString.
Definition script (ls : list string) : bytes := List.concat (List.map (fun l => b (String.append l nl)) ls).

Definition cfg0 (coe : bool) : config :=
  {| c_continue := coe; c_explicit_exec := false; c_unique := false; c_update := false;
     c_host_conds := []; c_goos := b "linux"; c_goarch := b "amd64"; c_go_minor := 23;
     c_custom_cond := None; c_cmds := [(b "probe", CProbe)]; c_main_cmds := [b "tshelper"];
     c_helper := b "tshelper"; c_helper_dir := b "/h"; c_watch := [b "X"]; c_deadline := false; c_cancelled := false |}.
Definition env0 : list (bytes * bytes) := [(b "WORK", b "/w"); (b "PATH", b "/h")].
Definition run (coe : bool) (ls : list string) : run_result :=
  run_file (cfg0 coe) (b "/w") env0 (script ls).

(* a passing script: guards, negation, the helper, stop in front of a line that would fail *)
Definition s_pass := ["mkdir d"; "[windows] exists nope"; "! exists nope"; "exec tshelper echo hi";
                      "stdout ^hi$"; "! exec tshelper exit 3"; "stop"; "exists nope"].
Example ex_pass : r_verdict (run false s_pass) = Pass.
Proof. vm_compute. reflexivity. Qed.

(* by verdict_pass_iff the declarative predicate holds of it: all_met is inhabited *)
Definition st_pass : state := fst (setup (cfg0 false) (b "/w") env0 (parse (script s_pass))).
Example ex_all_met : exists stF, all_met (cfg0 false) (script_lines (script s_pass)) 0 false st_pass stF.
Proof. apply verdict_pass_iff. vm_compute. reflexivity. Qed.

(* a failing script: line 2 is the first unmet demand; line 3 leaves no trace *)
Definition s_fail := ["mkdir d"; "exists nope"; "mkdir e"].
Example ex_fail : r_verdict (run false s_fail) = Fail 2 /\ r_fail_lines (run false s_fail) = [2]
  /\ stat (s_fs (r_final (run false s_fail))) (b "/w/d") <> None
  /\ stat (s_fs (r_final (run false s_fail))) (b "/w/e") = None.
Proof. vm_compute. repeat split; discriminate. Qed.

(* with ContinueOnError line 3 runs and the run still fails at line 2 *)
Example ex_continue : r_verdict (run true s_fail) = Fail 2
  /\ stat (s_fs (r_final (run true s_fail))) (b "/w/e") <> None.
Proof. vm_compute. split; [reflexivity|discriminate]. Qed.

(* the repaired defect: a failed line followed by skip is a failure, not a skip *)
Example ex_continue_skip : r_verdict (run true ["exists nope"; "skip"]) = Fail 1.
Proof. vm_compute. reflexivity. Qed.
Example ex_skip : r_verdict (run false ["skip"; "exists nope"]) = Skip.
Proof. vm_compute. reflexivity. Qed.

(* background commands: skip checks the status of what it interrupts *)
Example ex_bg_skip_fails : r_verdict (run false ["exec tshelper sleep &"; "skip"]) = Fail 2.
Proof. vm_compute. reflexivity. Qed.
Example ex_bg_neg_skip : r_verdict (run false ["! exec tshelper sleep &"; "skip"]) = Skip.
Proof. vm_compute. reflexivity. Qed.

(* unknown command, unknown condition, unsupported negation *)
Example ex_unknown : r_verdict (run false ["frobnicate"]) = Fail 1
  /\ r_verdict (run false ["[nosuchcond] mkdir d"]) = Fail 1
  /\ r_verdict (run false ["! mkdir d"]) = Fail 1.
Proof. vm_compute. auto. Qed.

(* exit status of cmd/testscript over a batch *)
Example ex_cli :
  cli_exit (cfg0 false) [{| j_work := b "/w"; j_env := env0; j_file := script s_pass |};
                         {| j_work := b "/w"; j_env := env0; j_file := script ["skip"] |}] = 0%N
  /\ cli_exit (cfg0 false) [{| j_work := b "/w"; j_env := env0; j_file := script s_pass |};
                            {| j_work := b "/w"; j_env := env0; j_file := script s_fail |}] = 1%N.
Proof. vm_compute. auto. Qed.

(* fg_args is satisfiable and neg_flips_exec is not vacuous *)
Example ex_fg_args : fg_args [b "tshelper"; b "exit"; b "3"].
Proof. split; [discriminate|reflexivity]. Qed.
End Examples.

(* ---- Params.RequireExplicitExec *)

Lemma lookup_main cfg name : In name (c_main_cmds cfg) -> lookup_cmd cfg name = Some (CMain name).
Proof. intros H. unfold lookup_cmd. apply mem_bytes_In in H. rewrite H. reflexivity. Qed.

(* a command registered through testscript.Main and used without `exec` fails, changing
   nothing, when RequireExplicitExec is set -- with or without "!" ... *)
Theorem explicit_exec_required cfg st line neg name args :
  c_explicit_exec cfg = true -> In name (c_main_cmds cfg) ->
  reaches cfg st line neg (CMain name) args ->
  run_line cfg st line = Failed st.
Proof.
  intros He Hin Hr. rewrite (run_line_reaches _ _ _ _ _ _ Hr). simpl. rewrite He. reflexivity.
Qed.

(* ... and behaves exactly like `exec name args` when it is not *)
Theorem explicit_exec_not_required cfg name neg args st :
  c_explicit_exec cfg = false ->
  cmd_sem cfg (CMain name) neg args st = cmd_exec cfg neg (name :: args) st.
Proof. intros He. simpl. rewrite He. reflexivity. Qed.

(* `exec name` itself is never affected by the flag *)
Theorem explicit_exec_irrelevant_for_exec cfg cfg' neg args st :
  (forall prog, can_start cfg st prog = can_start cfg' st prog) ->
  (forall prog, prog_found cfg st prog = prog_found cfg' st prog) ->
  c_deadline cfg = c_deadline cfg' -> c_cancelled cfg = c_cancelled cfg' -> c_continue cfg = c_continue cfg' ->
  cmd_exec cfg neg args st = cmd_exec cfg' neg args st.
Proof.
  intros H Hp Hd Hc Hk. unfold cmd_exec, fg_end, fg_racy, start_failed_state. rewrite Hd, Hc, Hk. destruct args as [|prog rest]; [reflexivity|].
  destruct (bg_spec _); [destruct rest; [reflexivity|]; destruct (find_bg _ _); [reflexivity|]|]; rewrite H, Hp; reflexivity.
Qed.

(* ---- Params.RequireUniqueNames: one unpacking step *)

(* with the flag an entry whose path is already taken (by an earlier entry of the same name,
   by a file, a directory or a link) makes setup fail: FAIL file:0 whatever ContinueOnError says *)
Theorem unique_names_step st work name data r t1 :
  let p := mkabs st (expand (s_env st) name) in
  mkdir_all (s_fs st) (dir p) 511 = (t1, true) ->
  lstat t1 p <> None ->
  snd (unpack true work ((name, data) :: r) st) = false.
Proof.
  intros p Hm Hl. cbn [unpack]. fold p. destruct (beneath work p); [|reflexivity]. cbn [negb].
  change (s_fs (set_files st (assoc_set (s_files st) (clean p) name))) with (s_fs st). rewrite Hm.
  assert (write_file_excl t1 p data 438 = None) as ->; [|reflexivity].
  unfold write_file_excl. unfold lstat in Hl.
  destruct (ends_in_slash p || ends_in_dots p); [reflexivity|].
  destruct (resolve t1 false p) as [q|]; [|reflexivity].
  destruct q as [|c q']; [reflexivity|].
  destruct (node_at t1 (c :: q')); [reflexivity|]. exfalso. apply Hl. reflexivity.
Qed.

Theorem setup_failure_is_fail_0 cfg work env a st :
  setup cfg work env a = (st, false) ->
  r_verdict (run_archive cfg work env a) = Fail 0 /\ r_fail_lines (run_archive cfg work env a) = [0].
Proof. intros H. unfold run_archive. rewrite H. auto. Qed.

(* one unpacking step that succeeds: the entry is written at the EXPANDED location [p] and
   registered there under the name it has in the archive *)
Theorem unpack_step st work (u : bool) name data r t1 t2 :
  let p := mkabs st (expand (s_env st) name) in
  beneath work p = true ->
  mkdir_all (s_fs st) (dir p) 511 = (t1, true) ->
  (if u then write_file_excl t1 p data 438 else write_file t1 p data 438) = Some t2 ->
  unpack u work ((name, data) :: r) st
  = unpack u work r (set_fs (set_files st (assoc_set (s_files st) (clean p) name)) t2).
Proof.
  intros p Hb Hm Hw. cbn [unpack]. fold p. rewrite Hb. cbn [negb].
  change (s_fs (set_files st (assoc_set (s_files st) (clean p) name))) with (s_fs st). rewrite Hm, Hw. reflexivity.
Qed.

(* without the flag a later entry of the same name silently replaces the earlier one *)
Theorem non_unique_overwrites st work name data r t1 t2 :
  let p := mkabs st (expand (s_env st) name) in
  beneath work p = true ->
  mkdir_all (s_fs st) (dir p) 511 = (t1, true) ->
  write_file t1 p data 438 = Some t2 ->
  unpack false work ((name, data) :: r) st
  = unpack false work r (set_fs (set_files st (assoc_set (s_files st) (clean p) name)) t2).
Proof. intros p Hb Hm Hw. exact (unpack_step st work false name data r t1 t2 Hb Hm Hw). Qed.

(* ---- entry names: expanded with the initial variables, refused when they leave $WORK *)

(* an entry whose expanded name is not the work directory or below it: setup stops there, the
   state (tree, scriptFiles) is the one the earlier entries left *)
Theorem escaping_name_stops_unpack st work u name data r :
  beneath work (mkabs st (expand (s_env st) name)) = false ->
  unpack u work ((name, data) :: r) st = (st, false).
Proof. intros Hb. cbn [unpack]. rewrite Hb. reflexivity. Qed.

(* os.Expand on a text without '$' is the identity *)
Fixpoint no_dollar (d : bytes) : bool :=
  match d with [] => true | c :: r => negb (beq c x24) && no_dollar r end.

Lemma expand_fuel_no_dollar env d : forall fuel, length d < fuel -> no_dollar d = true -> expand_fuel fuel env d = d.
Proof.
  induction d as [|c r IH]; intros fuel Hf Hn.
  - destruct fuel; reflexivity.
  - destruct fuel as [|f]; [inversion Hf|]. cbn [no_dollar] in Hn. apply andb_true_iff in Hn. destruct Hn as [Hc Hr].
    cbn [expand_fuel]. apply negb_true_iff in Hc. rewrite Hc. f_equal. apply IH; [simpl in Hf; apply Nat.succ_lt_mono; exact Hf|exact Hr].
Qed.

Lemma expand_no_dollar env d : no_dollar d = true -> expand env d = d.
Proof. intros H. unfold expand. apply expand_fuel_no_dollar; [apply Nat.lt_succ_diag_r|exact H]. Qed.

Definition work_ref : bytes := (* "$WORK" *) [x24; x57; x4f; x52; x4b].
Definition work_key : bytes := (* "WORK" *) [x57; x4f; x52; x4b].

Lemma expand_fuel_mono env : forall n d f1 f2, length d <= n -> length d < f1 -> length d < f2 -> expand_fuel f1 env d = expand_fuel f2 env d.
Proof.
  induction n as [|n IH]; intros d f1 f2 Hn H1 H2.
  - destruct d; [|simpl in Hn; lia]. destruct f1, f2; reflexivity.
  - destruct f1 as [|f1]; [lia|]. destruct f2 as [|f2]; [lia|].
    destruct d as [|c r]; [reflexivity|]. cbn [expand_fuel]. simpl in Hn, H1, H2.
    destruct (beq c x24).
    + destruct r as [|c2 r2]; [reflexivity|].
      destruct (shell_name (c2 :: r2)) as [nm w]. f_equal.
      pose proof (skipn_length w (c2 :: r2)) as L. apply IH; rewrite L; cbn [length] in *; lia.
    + f_equal. apply IH; lia.
Qed.

Lemma expand_fuel_dollar env f c r :
  expand_fuel (S f) env (x24 :: c :: r)
  = (match fst (shell_name (c :: r)) with
     | [] => if Nat.eqb (snd (shell_name (c :: r))) 0 then [x24] else []
     | _ => expand_var env (fst (shell_name (c :: r)))
     end) ++ expand_fuel f env (skipn (snd (shell_name (c :: r))) (c :: r)).
Proof. cbn [expand_fuel]. change (beq x24 x24) with true. cbv iota. destruct (shell_name (c :: r)) as [nm w]. reflexivity. Qed.

Lemma shell_name_work q : shell_name (x57 :: x4f :: x52 :: x4b :: SLASH :: q) = (work_key, 4).
Proof. reflexivity. Qed.

(* "$WORK/q" (q without '$') expands to the value of WORK followed by "/q" *)
Theorem expand_work_named env q :
  no_dollar q = true ->
  expand env (work_ref ++ [SLASH] ++ q) = getenv env work_key ++ [SLASH] ++ q.
Proof.
  intros Hq. unfold expand.
  change (work_ref ++ [SLASH] ++ q) with (x24 :: x57 :: x4f :: x52 :: x4b :: SLASH :: q).
  rewrite expand_fuel_dollar, shell_name_work. cbn [fst snd skipn work_key].
  unfold expand_var. change (strip_at_r [x57; x4f; x52; x4b]) with (@None bytes). cbv iota.
  f_equal.
  rewrite (expand_fuel_mono env (length (SLASH :: q)) (SLASH :: q) _ (S (length (SLASH :: q)))).
  - change (expand_fuel (S (length (SLASH :: q))) env (SLASH :: q)) with (expand env (SLASH :: q)).
    apply expand_no_dollar. change (no_dollar (SLASH :: q)) with (no_dollar q). exact Hq.
  - lia.
  - cbn [length]. lia.
  - lia.
Qed.

(* ... so an entry named $WORK/q is unpacked at <work>/q and registered under that path, cleaned -- with the
   name "$WORK/q" it has in the archive as the value update mode writes back *)
Theorem work_named_entry st work (u : bool) q data r t1 t2 :
  let name := work_ref ++ [SLASH] ++ q in
  let p := getenv (s_env st) work_key ++ [SLASH] ++ q in
  no_dollar q = true ->
  is_abs (getenv (s_env st) work_key) = true ->
  beneath work p = true ->
  mkdir_all (s_fs st) (dir p) 511 = (t1, true) ->
  (if u then write_file_excl t1 p data 438 else write_file t1 p data 438) = Some t2 ->
  exists st', unpack u work ((name, data) :: r) st = unpack u work r st'
    /\ s_fs st' = t2 /\ assoc_get (s_files st') (clean p) = Some name.
Proof.
  intros name p Hq Ha Hb Hm Hw.
  assert (mkabs st (expand (s_env st) name) = p) as Hp.
  { unfold name. rewrite (expand_work_named _ q Hq). fold p. unfold mkabs.
    assert (is_abs p = true) as ->; [|reflexivity].
    unfold p. destruct (getenv (s_env st) work_key) as [|c w]; [discriminate|]. exact Ha. }
  exists (set_fs (set_files st (assoc_set (s_files st) (clean p) name)) t2). split; [|split].
  - rewrite <- Hp in Hb, Hm, Hw |- *. exact (unpack_step st work u name data r t1 t2 Hb Hm Hw).
  - reflexivity.
  - cbn [s_files set_fs set_files]. clear. generalize (clean p) as k0. intros k0.
    induction (s_files st) as [|[k v] m IH]; cbn [assoc_set assoc_get].
    + rewrite bytes_eqb_refl. reflexivity.
    + destruct (bytes_eqb k0 k) eqn:E; cbn [assoc_get]; [rewrite bytes_eqb_refl; reflexivity|rewrite E; exact IH].
Qed.

Module ParamsExamples.
Import String.
Local Open Scope string_scope.
Local Open Scope list_scope.
Import Examples.
Definition cfgp (ree uniq : bool) : config :=
  {| c_continue := true; c_explicit_exec := ree; c_unique := uniq; c_update := false;
     c_host_conds := []; c_goos := b "linux"; c_goarch := b "amd64"; c_go_minor := 23; c_custom_cond := None; c_cmds := []; c_main_cmds := [b "tshelper"];
     c_helper := b "tshelper"; c_helper_dir := b "/h"; c_watch := []; c_deadline := false; c_cancelled := false |}.
Definition dup := script ["exists a.txt"; "-- a.txt --"; "one"; "-- a.txt --"; "two"].
(* a duplicate entry name: setup fails (line 0) with the flag, even under ContinueOnError;
   without it the later entry wins *)
Example ex_unique :
  r_verdict (run_file (cfgp false true) (b "/w") env0 dup) = Fail 0
  /\ r_verdict (run_file (cfgp false false) (b "/w") env0 dup) = Pass
  /\ read_file (s_fs (r_final (run_file (cfgp false false) (b "/w") env0 dup))) (b "/w/a.txt") = Some (b ("two" ++ nl)).
Proof. vm_compute. repeat split; reflexivity. Qed.
(* a registered command without exec *)
Example ex_explicit_exec :
  r_verdict (run_file (cfgp true false) (b "/w") env0 (script ["tshelper echo hi"])) = Fail 1
  /\ r_verdict (run_file (cfgp true false) (b "/w") env0 (script ["exec tshelper echo hi"; "stdout hi"])) = Pass
  /\ r_verdict (run_file (cfgp false false) (b "/w") env0 (script ["tshelper echo hi"; "stdout hi"])) = Pass.
Proof. vm_compute. repeat split; reflexivity. Qed.
End ParamsExamples.

(* ---- Params.Cmds is consulted only for names outside the standard set *)

(* a key of scriptCmds is the built-in whatever Params.Cmds holds under that name ... *)
Theorem builtin_shadows_custom cfg name k :
  In name script_cmd_names -> ~ In name (c_main_cmds cfg) ->
  assoc_kind (c_cmds cfg) name = Some k ->
  lookup_cmd cfg name = Some (CBuiltin name).
Proof. intros Hin Hm _. apply lookup_builtin; assumption. Qed.

(* ... and so is a command registered through testscript.Main *)
Theorem main_shadows_custom cfg name k :
  In name (c_main_cmds cfg) -> assoc_kind (c_cmds cfg) name = Some k ->
  lookup_cmd cfg name = Some (CMain name).
Proof. intros Hin _. apply lookup_main. exact Hin. Qed.

(* a custom command is reached exactly for the other names *)
Theorem custom_reached_iff cfg name k :
  lookup_cmd cfg name = Some (CCustom k) <->
  ~ In name (c_main_cmds cfg) /\ ~ In name script_cmd_names /\ assoc_kind (c_cmds cfg) name = Some k.
Proof.
  unfold lookup_cmd. split.
  - destruct (mem_bytes name (c_main_cmds cfg)) eqn:E1; [discriminate|].
    destruct (mem_bytes name script_cmd_names) eqn:E2; [discriminate|].
    destruct (assoc_kind (c_cmds cfg) name) eqn:E3; [|discriminate]. intros H. inversion H; subst.
    repeat split; auto; intros Hin; apply mem_bytes_In in Hin; congruence.
  - intros [H1 [H2 H3]].
    destruct (mem_bytes name (c_main_cmds cfg)) eqn:E1; [apply mem_bytes_In in E1; tauto|].
    destruct (mem_bytes name script_cmd_names) eqn:E2; [apply mem_bytes_In in E2; tauto|].
    rewrite H3. reflexivity.
Qed.

(* ---- deadlines: a command that testscript itself stops is a failure under both polarities *)

(* a line whose command is a foreground exec that times out does not meet its demand, "!" or not *)
Theorem timeout_line_unmet cfg st line neg args :
  reaches cfg st line neg (CBuiltin exec_name) args -> fg_args args ->
  exec_times_out cfg args st = true -> unmet cfg st line.
Proof.
  intros Hr Hfg Hto. apply line_failed_iff. rewrite (run_line_reaches _ _ _ _ _ _ Hr).
  change (cmd_sem cfg (CBuiltin exec_name) neg args st) with (builtin_sem cfg exec_name neg args st).
  unfold builtin_sem. destruct (neg && mem_bytes exec_name neg_rejecting_cmds); [eexists; reflexivity|].
  change (exists st', cmd_exec cfg neg args st = Failed st').
  destruct (neg_does_not_excuse_timeout cfg args st Hfg Hto) as [s Hs]. exists s. apply Hs.
Qed.

(* the same for a command registered through testscript.Main and used without `exec` *)
Theorem timeout_main_line_unmet cfg st line neg name args :
  reaches cfg st line neg (CMain name) args -> fg_args (name :: args) ->
  exec_times_out cfg (name :: args) st = true -> unmet cfg st line.
Proof.
  intros Hr Hfg Hto. apply line_failed_iff. rewrite (run_line_reaches _ _ _ _ _ _ Hr). simpl.
  destruct (c_explicit_exec cfg); [eexists; reflexivity|].
  destruct (neg_does_not_excuse_timeout cfg (name :: args) st Hfg Hto) as [s Hs]. exists s. apply Hs.
Qed.

(* hence the run is reported as failed at that very line, and nothing behind it runs *)
Theorem timeout_fails_run cfg text st0 pre l post st1 neg args :
  c_continue cfg = false ->
  script_lines text = pre ++ l :: post -> lines_met cfg pre 0 false st0 st1 -> is_comment l = false ->
  reaches cfg (at_line (S (length pre)) false st1) l neg (CBuiltin exec_name) args -> fg_args args ->
  exec_times_out cfg args (at_line (S (length pre)) false st1) = true ->
  r_verdict (run_script cfg text st0) = Fail (S (length pre))
  /\ r_fail_lines (run_script cfg text st0) = [S (length pre)].
Proof.
  intros Hc Hsplit Hmet Hcom Hr Hfg Hto.
  pose proof (timeout_line_unmet _ _ _ _ _ Hr Hfg Hto) as Hun.
  assert (run_script cfg text st0
          = {| r_verdict := Fail (S (length pre));
               r_final := line_effects cfg (at_line (S (length pre)) false st1) l;
               r_fail_lines := [S (length pre)] |}) as ->.
  { apply verdict_fail_first; [exact Hc|]. exists pre, l, post, st1.
    split; [exact Hsplit|]. split; [reflexivity|]. split; [exact Hmet|]. split; [exact Hcom|].
    split; [exact Hun|reflexivity]. }
  split; reflexivity.
Qed.

(* `wait` blocked on a command that only the deadline ends fails, whatever polarity that
   command (or any other) was started with *)
Theorem wait_timeout_fails cfg st :
  wait_times_out cfg (s_bg st) = true -> cmd_wait cfg [] st = Failed (timed_out_state cfg st).
Proof. intros H. unfold cmd_wait. rewrite H. reflexivity. Qed.

Theorem wait_named_timeout_fails cfg st n bg :
  find_bg (s_bg st) n = Some bg -> c_deadline cfg = true -> running_sleeper bg = true ->
  cmd_wait cfg [n] st = Failed (timed_out_state cfg st).
Proof.
  intros Hf Hd Hs. unfold cmd_wait, wait_times_out. rewrite Hf, Hd. simpl. rewrite Hs. reflexivity.
Qed.

Lemma wait_no_deadline cfg args st :
  c_deadline cfg = false ->
  cmd_wait cfg args st = match args with [] => wait_all true st | [n] => wait_one n st | _ => Failed st end.
Proof.
  intros Hd. unfold cmd_wait, wait_times_out. rewrite Hd. simpl.
  destruct args as [|a [|b r]]; try reflexivity. destruct (find_bg _ _); reflexivity.
Qed.

From Coq Require Import Permutation.

(* ---- several scripts in one RunT call, subtests run one after the other: the context is
   cancelled by the last subtest only, so every verdict is the verdict of that script alone *)

Lemma cfg_ctx_same cfg : c_cancelled cfg = false -> cfg_ctx cfg false = cfg.
Proof. intros H. destruct cfg. simpl in *. subst. reflexivity. Qed.

Lemma seq_verdicts_live cfg : c_cancelled cfg = false ->
  forall jobs refc, length jobs <= refc -> seq_verdicts cfg refc false jobs = batch_verdicts cfg jobs.
Proof.
  intros Hc. induction jobs as [|j r IH]; intros refc Hl; [reflexivity|].
  simpl in *. rewrite (cfg_ctx_same cfg Hc). f_equal.
  destruct (Nat.eqb (pred refc) 0) eqn:E.
  - apply Nat.eqb_eq in E. destruct r as [|j2 r2]; [reflexivity|]. simpl in Hl. lia.
  - apply IH. lia.
Qed.

Theorem verdict_independent_of_batch cfg jobs :
  c_cancelled cfg = false -> runT_seq cfg jobs = batch_verdicts cfg jobs.
Proof. intros Hc. apply seq_verdicts_live; [exact Hc|]. unfold runT_seq. lia. Qed.

(* position by position: what stands before or behind a script in the batch is irrelevant *)
Theorem verdict_independent_of_batch_nth cfg pre j post :
  c_cancelled cfg = false ->
  nth_error (runT_seq cfg (pre ++ j :: post)) (length pre)
  = Some (r_verdict (run_file cfg (j_work j) (j_env j) (j_file j))).
Proof.
  intros Hc. rewrite verdict_independent_of_batch by exact Hc. unfold batch_verdicts.
  rewrite map_app. rewrite nth_error_app2; rewrite map_length; [|lia].
  rewrite Nat.sub_diag. reflexivity.
Qed.

(* a T that runs the subtests in another order (in parallel: in any order of completion) *)
Theorem verdict_independent_of_order cfg jobs jobs' :
  c_cancelled cfg = false -> Permutation jobs jobs' ->
  Permutation (runT_seq cfg jobs) (runT_seq cfg jobs').
Proof.
  intros Hc Hp. rewrite !verdict_independent_of_batch by exact Hc. unfold batch_verdicts.
  apply Permutation_map. exact Hp.
Qed.

Module DeadlineExamples.
Import String.
Local Open Scope string_scope.
Local Open Scope list_scope.
Import Examples.
Definition cfgd (coe dl : bool) : config :=
  {| c_continue := coe; c_explicit_exec := false; c_unique := false; c_update := false;
     c_host_conds := []; c_goos := b "linux"; c_goarch := b "amd64"; c_go_minor := 23; c_custom_cond := None; c_cmds := []; c_main_cmds := [b "tshelper"];
     c_helper := b "tshelper"; c_helper_dir := b "/h"; c_watch := []; c_deadline := dl; c_cancelled := false |}.
Definition rund (dl : bool) (ls : list string) : run_result := run_file (cfgd false dl) (b "/w") env0 (script ls).

(* a hung command under "!": stopped by the deadline, the run fails at that line and the
   marker behind it is never made; the same command failing by itself satisfies "!" *)
Definition s_neg_sleep := ["mkdir before"; "! exec tshelper sleep"; "mkdir after"].
Example ex_neg_timeout :
  r_verdict (rund true s_neg_sleep) = Fail 2 /\ r_fail_lines (rund true s_neg_sleep) = [2]
  /\ stat (s_fs (r_final (rund true s_neg_sleep))) (b "/w/after") = None
  /\ r_verdict (rund true ["! exec tshelper exit 3"; "mkdir after"]) = Pass.
Proof. vm_compute. repeat split; reflexivity. Qed.
Example ex_plain_timeout : r_verdict (rund true ["exec tshelper sleep"]) = Fail 1.
Proof. vm_compute. reflexivity. Qed.
(* the hypotheses of neg_does_not_excuse_timeout are satisfiable *)
Definition st_sleep : state := fst (setup (cfgd false true) (b "/w") env0 (parse (script s_neg_sleep))).
Example ex_times_out :
  fg_args [b "tshelper"; b "sleep"] /\ exec_times_out (cfgd false true) [b "tshelper"; b "sleep"] st_sleep = true
  /\ exec_times_out (cfgd false false) [b "tshelper"; b "sleep"] st_sleep = false
  /\ exec_times_out (cfgd false true) [b "tshelper"; b "exit"; b "3"] st_sleep = false.
Proof. vm_compute. repeat split; congruence. Qed.
(* background commands: `wait` fails at its own line for both polarities, named or not *)
Example ex_wait_timeout :
  r_verdict (rund true ["exec tshelper sleep &"; "mkdir m"; "wait"; "mkdir after"]) = Fail 3
  /\ r_verdict (rund true ["! exec tshelper sleep &"; "wait"]) = Fail 2
  /\ r_verdict (rund true ["! exec tshelper sleep &a&"; "exec tshelper echo x &b&"; "wait b"; "wait a"]) = Fail 4
  /\ r_verdict (rund true ["! exec tshelper sleep &"; "kill"; "wait"]) = Pass
  /\ r_verdict (rund true ["exec tshelper sleep &"]) = Pass.
Proof. vm_compute. repeat split; reflexivity. Qed.

(* batches: the count starts at the number of scripts ... *)
Definition job_of (ls : list string) : job := {| j_work := b "/w"; j_env := env0; j_file := script ls |}.
Definition two := [job_of ["exec tshelper echo one"]; job_of ["exec tshelper echo two"; "stdout two"]].
Example ex_batch : runT_seq (cfgd false false) two = [Pass; Pass].
Proof. vm_compute. reflexivity. Qed.
(* ... started any lower, the first script to end cancels the context under the second one,
   whose exec then fails although every line of it meets its demand when it runs alone *)
Example ex_batch_low_count :
  seq_verdicts (cfgd false false) 1 false two = [Pass; Fail 1]
  /\ batch_verdicts (cfgd false false) two = [Pass; Pass].
Proof. vm_compute. split; reflexivity. Qed.
End DeadlineExamples.

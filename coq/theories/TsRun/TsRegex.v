(* The regular-expression fragment of the testscript model (stdout, stderr, grep), always
   compiled by the engine as "(?m)" + pattern.  Definitions only.

   Fragment: alternatives separated by | at top level; in each alternative a sequence of
   ^, $ and atoms, an atom being a plain byte, \ followed by a punctuation byte of
   regexp.QuoteMeta, ".", or a class [...] / [^...] of bytes and ranges; an atom may carry one
   of * + ?.  No groups, no counted repetition, no lazy quantifiers, no \b \d ..., ASCII only.

   The matcher is a backtracking one with the priorities of Go's leftmost-first semantics
   (greedy quantifiers, the first alternative that matches); [re_count] follows
   regexp.FindAllString(text, -1) including its rule for empty matches.  The declarative
   reading of "matches" is [ms] below; TsRegexFacts.v proves the matcher against it. *)
From Coq Require Import List Bool Arith NArith.
From Coq.Strings Require Import Byte.
From GI Require Import Lib.Bytes.
Import ListNotations.

Inductive atom :=
| AChar (b : byte)
| AAny                                   (* . : any byte but newline *)
| AClass (neg : bool) (ranges : list (byte * byte)).

Inductive quant := QOne | QStar | QPlus | QOpt.

Inductive piece :=
| PAtom (a : atom) (q : quant)
| PBol      (* ^ under (?m): at the start of the text or behind a newline *)
| PEol.     (* $ under (?m): at the end of the text or in front of a newline *)

Definition rseq := list piece.
Definition regex := list rseq.    (* alternatives, the leftmost first *)

Definition in_range_b (r : byte * byte) (b : byte) : bool :=
  N.leb (bN (fst r)) (bN b) && N.leb (bN b) (bN (snd r)).

Definition atom_match (a : atom) (b : byte) : bool :=
  match a with
  | AChar c => beq b c
  | AAny => negb (beq b NL)
  | AClass neg rs => xorb neg (existsb (fun r => in_range_b r b) rs)
  end.

Definition at_bol (prev : option byte) : bool :=
  match prev with None => true | Some b => beq b NL end.
Definition at_eol (rest : bytes) : bool :=
  match rest with [] => true | b :: _ => beq b NL end.

(* ---- the declarative reading: [ms ps prev w after] = the sequence ps matches exactly the
   word w when the byte in front of it is prev and the text behind it is after *)

Definition q_ok (q : quant) (n : nat) : Prop :=
  match q with
  | QOne => n = 1
  | QStar => True
  | QPlus => 1 <= n
  | QOpt => n <= 1
  end.

Definition last_of (prev : option byte) (ws : bytes) : option byte :=
  match rev ws with b :: _ => Some b | [] => prev end.

Fixpoint ms (ps : rseq) (prev : option byte) (w after : bytes) : Prop :=
  match ps with
  | [] => w = []
  | PBol :: ps' => at_bol prev = true /\ ms ps' prev w after
  | PEol :: ps' => at_eol (w ++ after) = true /\ ms ps' prev w after
  | PAtom a q :: ps' =>
      exists ws w', w = ws ++ w' /\ Forall (fun b => atom_match a b = true) ws
                    /\ q_ok q (length ws) /\ ms ps' (last_of prev ws) w' after
  end.

(* the text contains a match of the expression *)
Definition re_matches_in (re : regex) (text : bytes) : Prop :=
  exists pre w after alt, text = pre ++ w ++ after /\ In alt re /\ ms alt (last_of None pre) w after.

(* ---- the matcher: the number of bytes of the preferred match that starts here *)

Definition cont := option byte -> bytes -> option nat.

Definition one_k (a : atom) (k : cont) : cont := fun prev rest =>
  match rest with
  | b :: r => if atom_match a b then option_map S (k (Some b) r) else None
  | [] => None
  end.

(* greedy: as many as possible first, then fewer *)
Fixpoint star_k (a : atom) (k : cont) (prev : option byte) (rest : bytes) {struct rest} : option nat :=
  match rest with
  | b :: r =>
      if atom_match a b then
        match star_k a k (Some b) r with
        | Some n => Some (S n)
        | None => k prev rest
        end
      else k prev rest
  | [] => k prev rest
  end.

Definition opt_k (a : atom) (k : cont) : cont := fun prev rest =>
  match one_k a k prev rest with
  | Some n => Some n
  | None => k prev rest
  end.

Fixpoint m_seq (ps : rseq) : cont :=
  match ps with
  | [] => fun _ _ => Some 0
  | PBol :: ps' => fun prev rest => if at_bol prev then m_seq ps' prev rest else None
  | PEol :: ps' => fun prev rest => if at_eol rest then m_seq ps' prev rest else None
  | PAtom a q :: ps' =>
      match q with
      | QOne => one_k a (m_seq ps')
      | QStar => star_k a (m_seq ps')
      | QPlus => one_k a (star_k a (m_seq ps'))
      | QOpt => opt_k a (m_seq ps')
      end
  end.

Fixpoint m_re (re : regex) (prev : option byte) (rest : bytes) : option nat :=
  match re with
  | [] => None
  | alt :: r => match m_seq alt prev rest with Some n => Some n | None => m_re r prev rest end
  end.

(* the leftmost match at or behind the current position: (bytes skipped, length) *)
Fixpoint find_from (re : regex) (prev : option byte) (rest : bytes) (skipped : nat) {struct rest}
  : option (nat * nat) :=
  match m_re re prev rest with
  | Some n => Some (skipped, n)
  | None =>
      match rest with
      | b :: r => find_from re (Some b) r (S skipped)
      | [] => None
      end
  end.

Definition re_has_match (re : regex) (text : bytes) : bool :=
  match find_from re None text 0 with Some _ => true | None => false end.

(* regexp.FindAllString(text, -1): successive leftmost matches; an empty match right behind
   the previous match is not counted; after an empty match the search moves on one byte *)
Definition opt_nat_eqb (o : option nat) (n : nat) : bool :=
  match o with Some m => Nat.eqb m n | None => false end.

Fixpoint count_loop (fuel : nat) (re : regex) (pos : nat) (pme : option nat)
         (prev : option byte) (rest : bytes) : N :=
  match fuel with
  | 0 => 0%N
  | S f =>
      match find_from re prev rest 0 with
      | None => 0%N
      | Some (off, len) =>
          let s := pos + off in
          let e := s + len in
          if Nat.eqb e pos then
            let acc := if opt_nat_eqb pme s then 0%N else 1%N in
            match rest with
            | [] => acc
            | b :: r => (acc + count_loop f re (S pos) (Some e) (Some b) r)%N
            end
          else
            (1 + count_loop f re e (Some e)
                   (last_of prev (firstn (off + len) rest)) (skipn (off + len) rest))%N
      end
  end.

Definition re_count (re : regex) (text : bytes) : N :=
  count_loop (S (S (length text))) re 0 None None text.

(* ---- the parser of the fragment.  None = outside the fragment. *)

Definition re_special (b : byte) : bool :=
  mem_byte b [x5c; x2e; x2b; x2a; x3f; x28; x29; x7c; x5b; x5d; x7b; x7d; x5e; x24].
Definition ascii_plain (b : byte) : bool := N.ltb (bN b) 128 && negb (beq b NL).

Definition quant_of (b : byte) : option quant :=
  if beq b x2a then Some QStar else if beq b x2b then Some QPlus else if beq b x3f then Some QOpt else None.

(* the items of a class up to the closing bracket: (ranges, what follows the bracket) *)
Definition class_item_ok (b : byte) : bool :=
  ascii_plain b && negb (beq b x5c) && negb (beq b x5b) && negb (beq b x5d) && negb (beq b x5e) && negb (beq b x2d).

Fixpoint parse_class (fuel : nat) (d : bytes) (acc : list (byte * byte)) : option (list (byte * byte) * bytes) :=
  match fuel with
  | 0 => None
  | S f =>
      match d with
      | [] => None
      | b :: r =>
          if beq b x5d then (match acc with [] => None | _ => Some (rev acc, r) end)
          else if class_item_ok b then
            match r with
            | m :: hi :: r2 =>
                if beq m x2d && class_item_ok hi then
                  if N.leb (bN b) (bN hi) then parse_class f r2 ((b, hi) :: acc) else None
                else parse_class f r ((b, b) :: acc)
            | _ => parse_class f r ((b, b) :: acc)
            end
          else None
      end
  end.

(* one atom at the head of the pattern *)
Definition parse_atom (d : bytes) : option (atom * bytes) :=
  match d with
  | [] => None
  | b :: r =>
      if beq b x2e then Some (AAny, r)
      else if beq b x5c then
        match r with
        | c :: r' => if re_special c then Some (AChar c, r') else None
        | [] => None
        end
      else if beq b x5b then
        match r with
        | c :: r' =>
            if beq c x5e then
              match parse_class (S (length r')) r' [] with
              | Some (rs, rest) => Some (AClass true rs, rest)
              | None => None
              end
            else
              match parse_class (S (length r)) r [] with
              | Some (rs, rest) => Some (AClass false rs, rest)
              | None => None
              end
        | [] => None
        end
      else if re_special b then None
      else if ascii_plain b then Some (AChar b, r)
      else None
  end.

(* the alternatives, built right to left: [cur] is the alternative being read (reversed) *)
Fixpoint parse_re_fuel (fuel : nat) (d : bytes) (cur : rseq) (done : regex) : option regex :=
  match fuel with
  | 0 => None
  | S f =>
      match d with
      | [] => Some (rev (rev cur :: done))
      | b :: r =>
          if beq b x7c then parse_re_fuel f r [] (rev cur :: done)
          else if beq b x5e then parse_re_fuel f r (PBol :: cur) done
          else if beq b x24 then parse_re_fuel f r (PEol :: cur) done
          else
            match parse_atom d with
            | None => None
            | Some (a, rest) =>
                match rest with
                | qb :: rest' =>
                    match quant_of qb with
                    | Some q =>
                        (* a second quantifier (lazy, possessive, nested) is outside the fragment *)
                        match rest' with
                        | q2 :: _ => if match quant_of q2 with Some _ => true | None => false end then None
                                     else parse_re_fuel f rest' (PAtom a q :: cur) done
                        | [] => parse_re_fuel f rest' (PAtom a q :: cur) done
                        end
                    | None => parse_re_fuel f rest (PAtom a QOne :: cur) done
                    end
                | [] => parse_re_fuel f rest (PAtom a QOne :: cur) done
                end
            end
      end
  end.

Definition parse_re (p : bytes) : option regex := parse_re_fuel (S (length p)) p [] [].

(* Go matches runes, the model bytes: the two agree on ASCII text, and on any text for an
   expression made of literal bytes only that cannot match the empty string *)
Definition literal_piece (p : piece) : bool :=
  match p with PAtom (AChar _) QOne => true | PBol | PEol => true | _ => false end.
Definition has_atom (ps : rseq) : bool :=
  existsb (fun p => match p with PAtom _ _ => true | _ => false end) ps.
Definition literal_only (re : regex) : bool :=
  forallb (fun alt => forallb literal_piece alt && has_atom alt) re.
Definition re_byte_safe (re : regex) (text : bytes) : bool :=
  literal_only re || forallb (fun b => N.ltb (bN b) 128) text.

(* Proofs about UpdateScripts (C16): the recording in cmp and the rewriting of the archive.
   Property theorems are re-exported, unchanged, by Properties/C16.v. *)
From Coq Require Import List Bool Arith NArith Lia.
From Coq.Strings Require Import Byte.
From GI Require Import Lib.Bytes Lib.BytesFacts Txtar.Txtar Txtar.TxtarFacts Txtar.QuoteFacts
  TsRun.TsFs TsRun.TsState TsRun.TsCmds TsRun.TsRun TsRun.TsUpdate.
Import ListNotations.

(* what is stored for an entry: (old entry, new entry) *)
Definition entry_updated (U : list (bytes * bytes)) (e e' : bytes * bytes) : Prop :=
  fst e' = fst e /\
  match assoc_get U (fst e) with
  | None => snd e' = snd e
  | Some c => (needs_quote c = false /\ snd e' = c) \/ (needs_quote c = true /\ quote c = Some (snd e'))
  end.

Lemma update_files_spec U fs fs' :
  update_files U fs = Some fs' -> Forall2 (entry_updated U) fs fs'.
Proof.
  revert fs'. induction fs as [|[n d] r IH]; intros fs' H; simpl in H.
  - inversion H. constructor.
  - destruct (update_files U r) as [r'|] eqn:Er; [|discriminate].
    specialize (IH r' eq_refl).
    destruct (assoc_get U n) as [c|] eqn:Ec.
    + unfold update_data in H. destruct (needs_quote c) eqn:Eq.
      * destruct (quote c) as [q|] eqn:Eqq; [|discriminate]. inversion H; subst.
        constructor; [|exact IH]. split; [reflexivity|]. simpl. rewrite Ec. right. auto.
      * inversion H; subst. constructor; [|exact IH]. split; [reflexivity|]. simpl. rewrite Ec. left. auto.
    + inversion H; subst. constructor; [|exact IH]. split; [reflexivity|]. simpl. rewrite Ec. reflexivity.
Qed.

(* update_names: names and order of the entries are unchanged *)
Theorem update_names a U a' :
  apply_updates a U = Some a' -> map fst (files a') = map fst (files a).
Proof.
  unfold apply_updates. destruct (update_files U (files a)) as [fs|] eqn:E; [|discriminate].
  intros H. inversion H; subst. clear H. simpl. apply update_files_spec in E.
  induction E as [|e e' l l' He _ IH]; simpl; [reflexivity|].
  destruct He as [Hn _]. rewrite Hn, IH. reflexivity.
Qed.

(* update_frame: the script text and every entry whose name is not updated are unchanged *)
Theorem update_frame a U a' :
  apply_updates a U = Some a' ->
  comment a' = comment a
  /\ Forall2 (fun e e' => fst e' = fst e /\ (assoc_get U (fst e) = None -> snd e' = snd e)) (files a) (files a').
Proof.
  unfold apply_updates. destruct (update_files U (files a)) as [fs|] eqn:E; [|discriminate].
  intros H. inversion H; subst. clear H. simpl. split; [reflexivity|]. apply update_files_spec in E.
  induction E as [|e e' l l' He _ IH]; constructor; [|exact IH].
  destruct He as [Hn Hd]. split; [exact Hn|]. intros Hnone. rewrite Hnone in Hd. exact Hd.
Qed.

(* update_entry: an updated entry holds the actual content, or its quotation exactly when
   needs_quote says so *)
Theorem update_entry a U a' :
  apply_updates a U = Some a' ->
  Forall2 (fun e e' => forall c, assoc_get U (fst e) = Some c ->
             (needs_quote c = false /\ snd e' = c) \/ (needs_quote c = true /\ quote c = Some (snd e')))
          (files a) (files a').
Proof.
  unfold apply_updates. destruct (update_files U (files a)) as [fs|] eqn:E; [|discriminate].
  intros H. inversion H; subst. clear H. simpl. apply update_files_spec in E.
  induction E as [|e e' l l' He _ IH]; constructor; [|exact IH].
  destruct He as [Hn Hd]. intros c Hc. rewrite Hc in Hd. exact Hd.
Qed.

(* a quoted entry unquotes to the actual content *)
Theorem update_entry_unquotes c q : needs_quote c = true -> quote c = Some q -> unquote q = Some c.
Proof. intros _. apply unquote_quote. Qed.

(* the rewriting fails exactly when some updated entry needs quoting and cannot be quoted *)
Theorem apply_updates_none a U :
  apply_updates a U = None <->
  exists n d c, In (n, d) (files a) /\ assoc_get U n = Some c /\ needs_quote c = true /\ quote c = None.
Proof.
  unfold apply_updates. generalize (files a) as fs. intros fs. split.
  - destruct (update_files U fs) as [x|] eqn:E; [discriminate|]. intros _.
    induction fs as [|[n d] r IH]; simpl in E; [discriminate|].
    destruct (update_files U r) as [r'|] eqn:Er.
    + destruct (assoc_get U n) as [c|] eqn:Ec; [|discriminate].
      unfold update_data in E. destruct (needs_quote c) eqn:Eq; [|discriminate].
      destruct (quote c) eqn:Eqq; [discriminate|].
      exists n, d, c. simpl. auto.
    + destruct (IH eq_refl) as [n' [d' [c [Hin H]]]]. exists n', d', c. simpl. auto.
  - intros [n [d [c [Hin [Hc [Hq Hqq]]]]]].
    assert (update_files U fs = None) as ->; [|reflexivity].
    induction fs as [|[n0 d0] r IH]; [destruct Hin|]. simpl.
    destruct Hin as [Hin|Hin].
    + inversion Hin; subst. destruct (update_files U r); [|reflexivity].
      rewrite Hc. unfold update_data. rewrite Hq, Hqq. reflexivity.
    + rewrite (IH Hin). reflexivity.
Qed.

(* Go iterates a map: only the mapping matters, not the order of the recorded updates *)
Theorem update_order_irrelevant a U U' :
  (forall n, assoc_get U n = assoc_get U' n) -> apply_updates a U = apply_updates a U'.
Proof.
  intros H. unfold apply_updates.
  assert (update_files U (files a) = update_files U' (files a)) as ->; [|reflexivity].
  induction (files a) as [|[n d] r IH]; simpl; [reflexivity|]. rewrite IH, H. reflexivity.
Qed.

(* nothing recorded: nothing changes *)
Theorem update_nothing a : apply_updates a [] = Some a.
Proof.
  unfold apply_updates.
  assert (update_files [] (files a) = Some (files a)) as ->.
  { induction (files a) as [|[n d] r IH]; simpl; [reflexivity|]. rewrite IH. reflexivity. }
  destruct a; reflexivity.
Qed.

(* the bytes that are written: the formatted script text, then for each entry its marker
   line and either its old data or the stored update *)
Definition stored (U : list (bytes * bytes)) (e : bytes * bytes) : option bytes :=
  match assoc_get U (fst e) with
  | Some c => update_data c
  | None => Some (snd e)
  end.

Theorem update_format a U a' :
  apply_updates a U = Some a' ->
  exists ds, Forall2 (fun e d => stored U e = Some d) (files a) ds
    /\ format a' = fix_nl (comment a)
         ++ concat (map (fun nd => format_marker (fst nd) ++ fix_nl (snd nd)) (combine (map fst (files a)) ds)).
Proof.
  unfold apply_updates. destruct (update_files U (files a)) as [fs|] eqn:E; [|discriminate].
  intros H. inversion H; subst. unfold format. simpl.
  assert (exists ds, Forall2 (fun e d => stored U e = Some d) (files a) ds /\ fs = combine (map fst (files a)) ds) as [ds [H1 H2]].
  { clear H. revert fs E. induction (files a) as [|[n d] r IH]; intros fs E; simpl in E.
    - inversion E. exists []. split; constructor.
    - destruct (update_files U r) as [r'|] eqn:Er; [|discriminate].
      destruct (IH r' eq_refl) as [ds [H1 H2]]. unfold stored.
      destruct (assoc_get U n) as [c|] eqn:Ec.
      + destruct (update_data c) as [d'|] eqn:Ed; [|discriminate]. inversion E; subst.
        exists (d' :: ds). split; [constructor; [simpl; rewrite Ec; exact Ed|exact H1]|reflexivity].
      + inversion E; subst. exists (d :: ds). split; [constructor; [simpl; rewrite Ec; reflexivity|exact H1]|reflexivity]. }
  exists ds. split; [exact H1|]. rewrite H2. reflexivity.
Qed.

(* update_reparses: the written file is the archive it claims to be, when the archive came
   from Parse and every updated content is representable (empty or newline-terminated) *)
Lemma forallb_Forall2_wf U fs fs' :
  Forall2 (entry_updated U) fs fs' ->
  forallb (fun nd => wf_name (fst nd) && wf_text (snd nd)) fs = true ->
  (forall e c, In e fs -> assoc_get U (fst e) = Some c -> fix_nl c = c) ->
  forallb (fun nd => wf_name (fst nd) && wf_text (snd nd)) fs' = true.
Proof.
  induction 1 as [|e e' l l' He _ IH]; intros Hwf Hrep; [reflexivity|].
  destruct He as [Hn Hd]. simpl in *. apply andb_true_iff in Hwf. destruct Hwf as [He Hl].
  apply andb_true_iff in He. destruct He as [Hname Htext].
  rewrite IH; [|exact Hl|intros e0 c Hin; apply Hrep; right; exact Hin].
  rewrite Hn, Hname. simpl. rewrite andb_true_r.
  destruct (assoc_get U (fst e)) as [c|] eqn:Ec.
  - destruct Hd as [[Hq Hs]|[Hq Hs]].
    + rewrite Hs. apply wf_text_iff. split; [|exact Hq]. apply (Hrep e c); auto.
    + eapply quote_wf_text. exact Hs.
  - rewrite Hd. exact Htext.
Qed.

Theorem update_reparses a U a' :
  wf_archive a = true ->
  (forall n d c, In (n, d) (files a) -> assoc_get U n = Some c -> c = [] \/ last_byte c = Some NL) ->
  apply_updates a U = Some a' ->
  wf_archive a' = true /\ parse (format a') = a'.
Proof.
  intros Hwf Hrep Ha.
  assert (wf_archive a' = true) as Hwf'.
  { unfold apply_updates in Ha. destruct (update_files U (files a)) as [fs|] eqn:E; [|discriminate].
    inversion Ha; subst. unfold wf_archive in *. simpl.
    apply andb_true_iff in Hwf. destruct Hwf as [Hc Hfs]. rewrite Hc. simpl.
    eapply forallb_Forall2_wf; [apply update_files_spec; exact E|exact Hfs|].
    intros [n d] c Hin Hc'. simpl in Hc'. apply fix_nl_fixed. eapply Hrep; eauto. }
  split; [exact Hwf'|apply parse_format_wf; exact Hwf'].
Qed.

(* in particular for the archive of a script file *)
Theorem update_reparses_file file U a' :
  (forall n d c, In (n, d) (files (parse file)) -> assoc_get U n = Some c -> c = [] \/ last_byte c = Some NL) ->
  apply_updates (parse file) U = Some a' ->
  parse (format a') = a'.
Proof. intros Hrep Ha. eapply update_reparses; eauto. apply parse_wf_archive. Qed.

(* ---- cmp: when an update is recorded *)

Lemma set_updates_updates st U : s_updates (set_updates st U) = U.
Proof. reflexivity. Qed.

(* cmp_records_only_when: a negated cmp, cmpenv, a run without UpdateScripts, and a cmp
   against a path that is not an archive entry leave the recorded updates untouched *)
Theorem cmp_records_only_when upd envsubst neg args st :
  neg = true \/ envsubst = true \/ upd = false
  \/ (forall n1 n2, args = [n1; n2] -> assoc_get (s_files st) (mkabs st n2) = None) ->
  s_updates (outcome_state (cmd_cmp upd envsubst neg args st)) = s_updates st.
Proof.
  intros H. unfold cmd_cmp.
  destruct args as [|n1 [|n2 [|x r]]]; try reflexivity.
  destruct (bytes_eqb n1 n2); [reflexivity|].
  destruct (ts_read st n1) as [t1|]; [|reflexivity].
  destruct (read_file (s_fs st) (mkabs st n2)) as [data|]; [|reflexivity].
  destruct neg.
  - destruct (bytes_eqb t1 _); reflexivity.
  - destruct (bytes_eqb t1 _); [reflexivity|].
    destruct H as [H|[H|[H|H]]]; [discriminate|subst envsubst|subst upd|].
    + rewrite andb_false_r. reflexivity.
    + reflexivity.
    + destruct (upd && negb envsubst); [|reflexivity]. rewrite (H n1 n2 eq_refl). reflexivity.
Qed.

(* ... and they never make a differing comparison pass *)
Theorem cmp_differs_fails (upd envsubst : bool) args st n1 n2 t1 data :
  args = [n1; n2] -> bytes_eqb n1 n2 = false ->
  ts_read st n1 = Some t1 -> read_file (s_fs st) (mkabs st n2) = Some data ->
  bytes_eqb t1 (if envsubst then expand (s_env st) data else data) = false ->
  envsubst = true \/ upd = false \/ assoc_get (s_files st) (mkabs st n2) = None ->
  cmd_cmp upd envsubst false args st = Failed st.
Proof.
  intros -> Hn H1 H2 Hd H. unfold cmd_cmp. rewrite Hn, H1, H2, Hd.
  destruct H as [->|[->|H]].
  - rewrite andb_false_r. reflexivity.
  - reflexivity.
  - destruct (upd && negb envsubst); [|reflexivity]. rewrite H. reflexivity.
Qed.

(* update_mode_passes: with UpdateScripts a plain cmp against an archive entry passes, and
   records (entry name -> actual text) exactly when the texts differ *)
Theorem update_mode_passes st n1 n2 t1 t2 entry :
  bytes_eqb n1 n2 = false ->
  ts_read st n1 = Some t1 -> read_file (s_fs st) (mkabs st n2) = Some t2 ->
  assoc_get (s_files st) (mkabs st n2) = Some entry ->
  cmd_cmp true false false [n1; n2] st
  = Done (if bytes_eqb t1 t2 then st else set_updates st (assoc_set (s_updates st) entry t1)).
Proof.
  intros Hn H1 H2 He. unfold cmd_cmp. rewrite Hn, H1, H2. destruct (bytes_eqb t1 t2); [reflexivity|].
  simpl. rewrite He. reflexivity.
Qed.

Lemma assoc_get_set m k v : assoc_get (assoc_set m k v) k = Some v.
Proof.
  induction m as [|[k' v'] r IH]; simpl.
  - rewrite bytes_eqb_refl. reflexivity.
  - destruct (bytes_eqb k k') eqn:E; simpl; rewrite ?bytes_eqb_refl, ?E; auto.
Qed.

Lemma assoc_get_set_other m k v k2 : bytes_eqb k2 k = false -> assoc_get (assoc_set m k v) k2 = assoc_get m k2.
Proof.
  intros Hne. induction m as [|[k' v'] r IH]; simpl.
  - rewrite Hne. reflexivity.
  - destruct (bytes_eqb k k') eqn:E; simpl.
    + apply bytes_eqb_eq in E. subst k'. rewrite Hne. reflexivity.
    + destruct (bytes_eqb k2 k'); auto.
Qed.

(* the recorded text is what a later rewriting stores *)
Theorem recorded_is_stored st entry t1 :
  assoc_get (s_updates (set_updates st (assoc_set (s_updates st) entry t1))) entry = Some t1.
Proof. apply assoc_get_set. Qed.
